(* C13 — proofs about the limb-level models of Ec/Z256.v *)
From Coq Require Import ZArith List Bool Lia ZifyBool.
From GmVerif Require Import Ec.Z256.
Import ListNotations.
Local Open Scope Z_scope.
Ltac Zify.zify_post_hook ::= Z.div_mod_to_equations.

Lemma val_app : forall a b, val (a ++ b) = val a + 2^(64 * Z.of_nat (length a)) * val b.
Proof.
  induction a as [|x a IH]; intros b; cbn [val app length].
  - change (2^(64 * Z.of_nat 0)) with 1. lia.
  - rewrite IH. rewrite Nat2Z.inj_succ.
    replace (64 * Z.succ (Z.of_nat (length a))) with (64 + 64 * Z.of_nat (length a)) by lia.
    rewrite Z.pow_add_r by lia. ring.
Qed.

Lemma val_bounds : forall l, limbs_ok l -> 0 <= val l < 2^(64 * Z.of_nat (length l)).
Proof.
  induction l as [|x l IH]; intros H; cbn [val length].
  - change (2^(64 * Z.of_nat 0)) with 1. lia.
  - inversion H as [|? ? Hx Hl]; subst. specialize (IH Hl).
    rewrite Nat2Z.inj_succ.
    replace (64 * Z.succ (Z.of_nat (length l))) with (64 + 64 * Z.of_nat (length l)) by lia.
    rewrite Z.pow_add_r by lia. unfold limb_ok in Hx.
    set (W := 2^(64 * Z.of_nat (length l))) in *. nia.
Qed.

(* ---------------- add ---------------- *)
Definition cbit (c : Z) : Prop := c = 0 \/ c = 1.

Lemma add_first_spec : forall a0 b0, limb_ok a0 -> limb_ok b0 ->
  limb_ok (fst (add_first a0 b0)) /\ cbit (snd (add_first a0 b0)) /\
  fst (add_first a0 b0) + 2^64 * snd (add_first a0 b0) = a0 + b0.
Proof.
  unfold limb_ok, cbit, add_first, w64, b2z; intros a0 b0 Ha Hb; cbn [fst snd].
  destruct (Z.ltb_spec ((a0 + b0) mod 2^64) a0); lia.
Qed.

Lemma add_next_spec : forall ai bi c, limb_ok ai -> limb_ok bi -> cbit c ->
  limb_ok (fst (add_next ai bi c)) /\ cbit (snd (add_next ai bi c)) /\
  fst (add_next ai bi c) + 2^64 * snd (add_next ai bi c) = ai + bi + c.
Proof.
  unfold limb_ok, cbit, add_next, w64, b2z; intros ai bi c Ha Hb Hc; cbn [fst snd].
  destruct (Z.ltb_spec ((ai + c) mod 2^64) ai);
  destruct (Z.ltb_spec (((ai + c) mod 2^64 + bi) mod 2^64) ((ai + c) mod 2^64)); lia.
Qed.

Lemma add_rest_spec : forall a b c, length a = length b -> limbs_ok a -> limbs_ok b -> cbit c ->
  limbs_ok (fst (add_rest a b c)) /\ cbit (snd (add_rest a b c)) /\
  length (fst (add_rest a b c)) = length a /\
  val (fst (add_rest a b c)) + 2^(64 * Z.of_nat (length a)) * snd (add_rest a b c) = val a + val b + c.
Proof.
  induction a as [|ai a IH]; intros b c Hl Ha Hb Hc.
  - destruct b; [|discriminate]. cbn [add_rest fst snd val length].
    change (2^(64 * Z.of_nat 0)) with 1. repeat split; auto; try constructor; lia.
  - destruct b as [|bi b]; [discriminate|]. cbn [add_rest].
    inversion Ha; inversion Hb; subst.
    pose proof (add_next_spec ai bi c H1 H5 Hc) as (R1 & C1 & E1).
    destruct (add_next ai bi c) as [r c'] eqn:En. cbn [fst snd] in *.
    injection Hl as Hl.
    specialize (IH b c' Hl H2 H6 C1). destruct (add_rest a b c') as [rs cf] eqn:Er.
    cbn [fst snd] in *. destruct IH as (R2 & C2 & L2 & E2).
    repeat split; auto.
    + constructor; auto.
    + cbn [length]. lia.
    + cbn [val length]. rewrite Nat2Z.inj_succ.
      replace (64 * Z.succ (Z.of_nat (length a))) with (64 + 64 * Z.of_nat (length a)) by lia.
      rewrite Z.pow_add_r by lia. nia.
Qed.

Theorem zadd_spec : forall a b, length a = length b -> limbs_ok a -> limbs_ok b ->
  limbs_ok (fst (zadd a b)) /\ cbit (snd (zadd a b)) /\ length (fst (zadd a b)) = length a /\
  val (fst (zadd a b)) + 2^(64 * Z.of_nat (length a)) * snd (zadd a b) = val a + val b.
Proof.
  intros a b Hl Ha Hb. destruct a as [|a0 a]; destruct b as [|b0 b]; try discriminate.
  - cbn [zadd fst snd val length]. change (2^(64 * Z.of_nat 0)) with 1.
    repeat split; auto; try constructor; try lia.
  - cbn [zadd]. inversion Ha; inversion Hb; subst.
    pose proof (add_first_spec a0 b0 H1 H5) as (R1 & C1 & E1).
    destruct (add_first a0 b0) as [r0 c] eqn:Ef. cbn [fst snd] in *.
    injection Hl as Hl.
    pose proof (add_rest_spec a b c Hl H2 H6 C1) as (R2 & C2 & L2 & E2).
    destruct (add_rest a b c) as [rs cf]. cbn [fst snd] in *.
    repeat split; auto.
    + constructor; auto.
    + cbn [length]. lia.
    + cbn [val length]. rewrite Nat2Z.inj_succ.
      replace (64 * Z.succ (Z.of_nat (length a))) with (64 + 64 * Z.of_nat (length a)) by lia.
      rewrite Z.pow_add_r by lia. nia.
Qed.

(* ---------------- sub ---------------- *)
Lemma sub_first_spec : forall a0 b0, limb_ok a0 -> limb_ok b0 ->
  limb_ok (fst (sub_first a0 b0)) /\ cbit (snd (sub_first a0 b0)) /\
  fst (sub_first a0 b0) - 2^64 * snd (sub_first a0 b0) = a0 - b0.
Proof.
  unfold limb_ok, cbit, sub_first, w64, b2z; intros a0 b0 Ha Hb; cbn [fst snd].
  destruct (Z.gtb_spec ((a0 - b0) mod 2^64) a0); lia.
Qed.

Lemma sub_next_spec : forall ai bi c, limb_ok ai -> limb_ok bi -> cbit c ->
  limb_ok (fst (sub_next ai bi c)) /\ cbit (snd (sub_next ai bi c)) /\
  fst (sub_next ai bi c) - 2^64 * snd (sub_next ai bi c) = ai - bi - c.
Proof.
  unfold limb_ok, cbit, sub_next, w64, b2z; intros ai bi c Ha Hb Hc; cbn [fst snd].
  destruct (Z.gtb_spec ((ai - c) mod 2^64) ai);
  destruct (Z.gtb_spec (((ai - c) mod 2^64 - bi) mod 2^64) ((ai - c) mod 2^64)); lia.
Qed.

Lemma sub_rest_spec : forall a b c, length a = length b -> limbs_ok a -> limbs_ok b -> cbit c ->
  limbs_ok (fst (sub_rest a b c)) /\ cbit (snd (sub_rest a b c)) /\
  length (fst (sub_rest a b c)) = length a /\
  val (fst (sub_rest a b c)) - 2^(64 * Z.of_nat (length a)) * snd (sub_rest a b c) = val a - val b - c.
Proof.
  induction a as [|ai a IH]; intros b c Hl Ha Hb Hc.
  - destruct b; [|discriminate]. cbn [sub_rest fst snd val length].
    change (2^(64 * Z.of_nat 0)) with 1. repeat split; auto; try constructor; lia.
  - destruct b as [|bi b]; [discriminate|]. cbn [sub_rest].
    inversion Ha; inversion Hb; subst.
    pose proof (sub_next_spec ai bi c H1 H5 Hc) as (R1 & C1 & E1).
    destruct (sub_next ai bi c) as [r c'] eqn:En. cbn [fst snd] in *.
    injection Hl as Hl.
    specialize (IH b c' Hl H2 H6 C1). destruct (sub_rest a b c') as [rs cf] eqn:Er.
    cbn [fst snd] in *. destruct IH as (R2 & C2 & L2 & E2).
    repeat split; auto.
    + constructor; auto.
    + cbn [length]. lia.
    + cbn [val length]. rewrite Nat2Z.inj_succ.
      replace (64 * Z.succ (Z.of_nat (length a))) with (64 + 64 * Z.of_nat (length a)) by lia.
      rewrite Z.pow_add_r by lia. nia.
Qed.

Theorem zsub_spec : forall a b, length a = length b -> limbs_ok a -> limbs_ok b ->
  limbs_ok (fst (zsub a b)) /\ cbit (snd (zsub a b)) /\ length (fst (zsub a b)) = length a /\
  val (fst (zsub a b)) - 2^(64 * Z.of_nat (length a)) * snd (zsub a b) = val a - val b.
Proof.
  intros a b Hl Ha Hb. destruct a as [|a0 a]; destruct b as [|b0 b]; try discriminate.
  - cbn [zsub fst snd val length]. change (2^(64 * Z.of_nat 0)) with 1.
    repeat split; auto; try constructor; try lia.
  - cbn [zsub]. inversion Ha; inversion Hb; subst.
    pose proof (sub_first_spec a0 b0 H1 H5) as (R1 & C1 & E1).
    destruct (sub_first a0 b0) as [r0 c] eqn:Ef. cbn [fst snd] in *.
    injection Hl as Hl.
    pose proof (sub_rest_spec a b c Hl H2 H6 C1) as (R2 & C2 & L2 & E2).
    destruct (sub_rest a b c) as [rs cf]. cbn [fst snd] in *.
    repeat split; auto.
    + constructor; auto.
    + cbn [length]. lia.
    + cbn [val length]. rewrite Nat2Z.inj_succ.
      replace (64 * Z.succ (Z.of_nat (length a))) with (64 + 64 * Z.of_nat (length a)) by lia.
      rewrite Z.pow_add_r by lia. nia.
Qed.

(* the 256-bit statements in the form of DESIGN: value(out) + 2^256 carry = a + b *)
Definition z256_ok (a : list Z) : Prop := length a = 4%nat /\ limbs_ok a.

Theorem add_spec : forall a b, z256_ok a -> z256_ok b ->
  z256_ok (fst (z256_add a b)) /\
  (snd (z256_add a b) = 0 \/ snd (z256_add a b) = 1) /\
  val (fst (z256_add a b)) + 2^256 * snd (z256_add a b) = val a + val b.
Proof.
  intros a b [La Ha] [Lb Hb]. unfold z256_add.
  destruct (zadd_spec a b) as (R & C & L & E); auto; try congruence.
  rewrite La in *. repeat split; auto.
Qed.

Theorem sub_spec : forall a b, z256_ok a -> z256_ok b ->
  z256_ok (fst (z256_sub a b)) /\
  (snd (z256_sub a b) = 0 \/ snd (z256_sub a b) = 1) /\
  val (fst (z256_sub a b)) - 2^256 * snd (z256_sub a b) = val a - val b.
Proof.
  intros a b [La Ha] [Lb Hb]. unfold z256_sub.
  destruct (zsub_spec a b) as (R & C & L & E); auto; try congruence.
  rewrite La in *. repeat split; auto.
Qed.

Lemma val_bounds_256 : forall a, z256_ok a -> 0 <= val a < 2^256.
Proof. intros a [L H]. pose proof (val_bounds a H) as B. rewrite L in B. exact B. Qed.

(* consequences used by the value-level layer *)
Corollary add_value : forall a b, z256_ok a -> z256_ok b ->
  val (fst (z256_add a b)) = (val a + val b) mod 2^256 /\
  snd (z256_add a b) = (val a + val b) / 2^256.
Proof.
  intros a b Ha Hb. destruct (add_spec a b Ha Hb) as (R & C & E).
  pose proof (val_bounds_256 _ R). pose proof (val_bounds_256 _ Ha). pose proof (val_bounds_256 _ Hb).
  destruct C as [C|C]; rewrite C in *; lia.
Qed.
Corollary sub_value : forall a b, z256_ok a -> z256_ok b ->
  val (fst (z256_sub a b)) = (val a - val b) mod 2^256 /\
  snd (z256_sub a b) = (if val a <? val b then 1 else 0).
Proof.
  intros a b Ha Hb. destruct (sub_spec a b Ha Hb) as (R & C & E).
  pose proof (val_bounds_256 _ R). pose proof (val_bounds_256 _ Ha). pose proof (val_bounds_256 _ Hb).
  destruct (Z.ltb_spec (val a) (val b)); destruct C as [C|C]; rewrite C in *; lia.
Qed.

(* ---------------- bit-level helpers ---------------- *)
Lemma land_shl_low : forall hi lo k, 0 <= k -> 0 <= lo < 2^k -> Z.land (Z.shiftl hi k) lo = 0.
Proof.
  intros hi lo k Hk Hlo. apply Z.bits_inj'. intros n Hn.
  rewrite Z.land_spec, Z.bits_0. destruct (Z.lt_ge_cases n k).
  - rewrite Z.shiftl_spec_low by auto. reflexivity.
  - rewrite <- (Z.mod_small lo (2^k)) by lia. rewrite Z.mod_pow2_bits_high by lia.
    apply andb_false_r.
Qed.
Lemma lor_shl_add : forall hi lo k, 0 <= k -> 0 <= lo < 2^k -> Z.lor (Z.shiftl hi k) lo = hi * 2^k + lo.
Proof.
  intros hi lo k Hk Hlo. rewrite <- Z.lxor_lor by (apply land_shl_low; auto).
  rewrite <- Z.add_nocarry_lxor by (apply land_shl_low; auto).
  rewrite Z.shiftl_mul_pow2 by auto. reflexivity.
Qed.
Lemma land_mask32 : forall x, Z.land x mask32 = x mod 2^32.
Proof. intros. change mask32 with (Z.ones 32). apply Z.land_ones. lia. Qed.

(* ---------------- mul ---------------- *)
Fixpoint val32 (l : list Z) : Z := match l with [] => 0 | x :: r => x + 2^32 * val32 r end.
Definition d32_ok (x : Z) : Prop := 0 <= x < 2^32.

Lemma val32_app : forall a b, val32 (a ++ b) = val32 a + 2^(32 * Z.of_nat (length a)) * val32 b.
Proof.
  induction a as [|x a IH]; intros b; cbn [val32 app length].
  - change (2^(32 * Z.of_nat 0)) with 1. lia.
  - rewrite IH. rewrite Nat2Z.inj_succ.
    replace (32 * Z.succ (Z.of_nat (length a))) with (32 + 32 * Z.of_nat (length a)) by lia.
    rewrite Z.pow_add_r by lia. ring.
Qed.

Lemma mul_inner_spec : forall b_ s8 ai u hi rest,
  length s8 = length b_ -> Forall d32_ok s8 -> Forall d32_ok b_ -> d32_ok ai -> d32_ok u ->
  exists s8' u', mul_inner ai b_ (s8 ++ hi :: rest) u = s8' ++ u' :: rest /\
    length s8' = length b_ /\ Forall d32_ok s8' /\ d32_ok u' /\
    val32 s8' + 2^(32 * Z.of_nat (length b_)) * u' = val32 s8 + ai * val32 b_ + u.
Proof.
  induction b_ as [|bj b' IH]; intros s8 ai u hi rest Hl Hs Hb Ha Hu.
  - destruct s8; [|discriminate]. exists [], u. cbn [mul_inner app length val32].
    change (2^(32 * Z.of_nat 0)) with 1.
    split; [reflexivity|]. split; [reflexivity|]. split; [constructor|]. split; [exact Hu|]. lia.
  - destruct s8 as [|sk s8t]; [discriminate|]. injection Hl as Hl.
    inversion Hs; inversion Hb; subst. cbn [mul_inner app].
    set (u1 := w64 (sk + ai * bj + u)).
    assert (Hu1 : u1 = sk + ai * bj + u).
    { unfold u1, w64. apply Z.mod_small. unfold d32_ok in *. nia. }
    assert (Hq : d32_ok (Z.shiftr u1 32)).
    { rewrite Z.shiftr_div_pow2 by lia. unfold d32_ok in *. rewrite Hu1.
      split; [apply Z.div_pos; nia | apply Z.div_lt_upper_bound; nia]. }
    destruct (IH s8t ai (Z.shiftr u1 32) hi rest Hl H2 H6 Ha Hq) as (s' & u' & E & L' & F' & U' & V').
    exists (Z.land u1 mask32 :: s'), u'. rewrite E. cbn [app length val32].
    split; [reflexivity|]. split; [|split; [|split; [exact U'|]]].
    + lia.
    + constructor; auto. rewrite land_mask32. unfold d32_ok. apply Z.mod_pos_bound. lia.
    + rewrite Nat2Z.inj_succ.
      replace (32 * Z.succ (Z.of_nat (length b'))) with (32 + 32 * Z.of_nat (length b')) by lia.
      rewrite Z.pow_add_r by lia. rewrite land_mask32.
      rewrite Z.shiftr_div_pow2 in V' by lia.
      pose proof (Z.div_mod u1 (2^32) ltac:(lia)) as DM.
      set (W := 2^(32 * Z.of_nat (length b'))) in *. nia.
Qed.

Lemma mul_outer_spec : forall b_, b_ <> [] -> Forall d32_ok b_ ->
  forall a_ s8, length s8 = length b_ -> Forall d32_ok s8 -> Forall d32_ok a_ ->
  let r := mul_outer a_ b_ (s8 ++ repeat 0 (length a_)) in
  Forall d32_ok r /\ length r = (length b_ + length a_)%nat /\
  val32 r = val32 s8 + val32 a_ * val32 b_.
Proof.
  intros b_ Hne Hb. induction a_ as [|ai a' IH]; intros s8 Hl Hs Ha; cbn zeta.
  - cbn [mul_outer repeat length val32]. rewrite app_nil_r. repeat split; auto. lia. lia.
  - inversion Ha; subst. cbn [mul_outer repeat length].
    assert (U0 : d32_ok 0) by (unfold d32_ok; lia).
    destruct (mul_inner_spec b_ s8 ai 0 0 (repeat 0 (length a')) Hl Hs Hb H1 U0)
      as (s' & u' & E & L' & F' & U' & V').
    rewrite E. destruct s' as [|s0 st].
    { destruct b_; [congruence | discriminate]. }
    cbn [app]. inversion F'; subst.
    assert (E2 : st ++ u' :: repeat 0 (length a') = (st ++ [u']) ++ repeat 0 (length a')).
    { rewrite <- app_assoc. reflexivity. }
    rewrite E2.
    assert (L2 : length (st ++ [u']) = length b_).
    { rewrite app_length. cbn [length] in *. lia. }
    assert (F2 : Forall d32_ok (st ++ [u'])).
    { apply Forall_app. split; auto. }
    specialize (IH (st ++ [u']) L2 F2 H2). cbn zeta in IH. destruct IH as (FR & LR & VR).
    repeat split.
    + constructor; auto.
    + cbn [length]. lia.
    + cbn [val32]. rewrite VR. rewrite val32_app. cbn [val32 length] in *.
      assert (Hst : Z.of_nat (length b_) = Z.of_nat (length st) + 1) by lia.
      rewrite Hst in V'.
      replace (32 * (Z.of_nat (length st) + 1)) with (32 + 32 * Z.of_nat (length st)) in V' by lia.
      rewrite Z.pow_add_r in V' by lia.
      set (W := 2^(32 * Z.of_nat (length st))) in *. nia.
Qed.

Lemma split32_spec : forall a, limbs_ok a ->
  Forall d32_ok (split32 a) /\ val32 (split32 a) = val a /\ length (split32 a) = (2 * length a)%nat.
Proof.
  induction a as [|x a IH]; intros H.
  - cbn. repeat split; auto.
  - inversion H; subst. destruct (IH H3) as (F & V & L).
    cbn [split32 flat_map app val val32 length]. fold (split32 a).
    rewrite land_mask32, Z.shiftr_div_pow2 by lia. unfold limb_ok in H2.
    repeat split.
    + constructor. { unfold d32_ok. apply Z.mod_pos_bound. lia. }
      constructor; auto. unfold d32_ok. split; [apply Z.div_pos; lia | apply Z.div_lt_upper_bound; lia].
    + rewrite V. pose proof (Z.div_mod x (2^32) ltac:(lia)). lia.
    + lia.
Qed.

Lemma join32_spec : forall n s, length s = (2 * n)%nat -> Forall d32_ok s ->
  limbs_ok (join32 s) /\ val (join32 s) = val32 s /\ length (join32 s) = n.
Proof.
  induction n as [|n IH]; intros s L F.
  - destruct s; [|cbn in L; lia]. cbn. repeat split; auto. constructor.
  - destruct s as [|lo [|hi r]]; cbn [length] in L; try lia.
    inversion F as [|? ? Hlo F1]; subst. inversion F1 as [|? ? Hhi F2]; subst.
    destruct (IH r ltac:(lia) F2) as (LK & V & Ln). cbn [join32 val val32 length].
    unfold d32_ok in *.
    assert (Hw : w64 (Z.shiftl hi 32) = Z.shiftl hi 32).
    { unfold w64. rewrite Z.shiftl_mul_pow2 by lia. apply Z.mod_small. lia. }
    rewrite Hw, lor_shl_add by lia.
    repeat split.
    + constructor; auto. unfold limb_ok. lia.
    + rewrite V. lia.
    + lia.
Qed.

Theorem mul_spec : forall a b, z256_ok a -> z256_ok b ->
  length (z256_mul a b) = 8%nat /\ limbs_ok (z256_mul a b) /\ val (z256_mul a b) = val a * val b.
Proof.
  intros a b [La Ha] [Lb Hb]. unfold z256_mul.
  destruct (split32_spec a Ha) as (Fa & Va & La2). destruct (split32_spec b Hb) as (Fb & Vb & Lb2).
  assert (Hne : split32 b <> []). { intro E. rewrite E in Lb2. cbn in Lb2. lia. }
  pose proof (mul_outer_spec (split32 b) Hne Fb (split32 a) (repeat 0 8)) as M.
  assert (Hrep : repeat 0 16 = repeat 0 8 ++ repeat 0 (length (split32 a))).
  { rewrite La2, La. reflexivity. }
  rewrite Hrep.
  destruct M as (FR & LR & VR).
  { rewrite Lb2, Lb. reflexivity. }
  { repeat constructor; unfold d32_ok; lia. }
  { exact Fa. }
  destruct (join32_spec 8 _ ltac:(rewrite LR, La2, Lb2, La, Lb; reflexivity) FR) as (LK & V & Ln).
  repeat split; auto. rewrite V, VR, Va, Vb. cbn [val32 repeat]. lia.
Qed.

(* ---------------- cmp / value-level consequences for modular add, sub, neg ---------------- *)
Definition cmpZ (x y : Z) : Z := if x >? y then 1 else if x <? y then -1 else 0.

Lemma z256_ok_inv : forall a, z256_ok a ->
  exists a0 a1 a2 a3, a = [a0; a1; a2; a3] /\ limb_ok a0 /\ limb_ok a1 /\ limb_ok a2 /\ limb_ok a3.
Proof.
  intros a [L H]. destruct a as [|a0 [|a1 [|a2 [|a3 [|]]]]]; try discriminate.
  inversion H as [|? ? H0 H']; subst. inversion H' as [|? ? H1 H'']; subst.
  inversion H'' as [|? ? H2 H''']; subst. inversion H''' as [|? ? H3 ?]; subst.
  exists a0, a1, a2, a3. auto.
Qed.

Theorem cmp_spec : forall a b, z256_ok a -> z256_ok b -> z256_cmp a b = cmpZ (val a) (val b).
Proof.
  intros a b Ha Hb.
  destruct (z256_ok_inv a Ha) as (a0 & a1 & a2 & a3 & -> & A0 & A1 & A2 & A3).
  destruct (z256_ok_inv b Hb) as (b0 & b1 & b2 & b3 & -> & B0 & B1 & B2 & B3).
  unfold z256_cmp, cmpZ, limb_ok in *. cbn [val].
  repeat match goal with
  | |- context [?x >? ?y] => destruct (Z.gtb_spec x y)
  | |- context [?x <? ?y] => destruct (Z.ltb_spec x y)
  end; lia.
Qed.

Lemma cmp_geb : forall a b, z256_ok a -> z256_ok b -> (z256_cmp a b >=? 0) = (val b <=? val a).
Proof.
  intros a b Ha Hb. rewrite cmp_spec by auto. unfold cmpZ.
  destruct (Z.gtb_spec (val a) (val b)); destruct (Z.ltb_spec (val a) (val b));
  destruct (Z.leb_spec (val b) (val a)); try reflexivity; lia.
Qed.

(* ---------------- the constant-time zero / equality tests ---------------- *)
Lemma is_zero64_spec : forall x, limb_ok x -> is_zero64 x = if x =? 0 then 1 else 0.
Proof.
  intros x Hx. unfold limb_ok in Hx. destruct (Z.eqb_spec x 0) as [->|Hn]; [reflexivity|].
  unfold is_zero64, not64, w64. set (y := (0 - x) mod 2^64).
  assert (Hy : y = 2^64 - x) by (unfold y; lia).
  rewrite Z.shiftr_lxor, Z.shiftr_lor. change (Z.shiftr ones64 63) with 1.
  rewrite !Z.shiftr_div_pow2 by lia.
  assert (Cx : x / 2^63 = 0 \/ x / 2^63 = 1) by lia.
  assert (Cy : y / 2^63 = 0 \/ y / 2^63 = 1) by lia.
  assert (Both : ~ (x / 2^63 = 0 /\ y / 2^63 = 0)) by lia.
  destruct Cx as [Cx|Cx]; destruct Cy as [Cy|Cy]; rewrite Cx, Cy; try reflexivity. lia.
Qed.

Theorem is_zero_spec : forall a, z256_ok a -> z256_is_zero a = if val a =? 0 then 1 else 0.
Proof.
  intros a Ha. destruct (z256_ok_inv a Ha) as (a0 & a1 & a2 & a3 & -> & A0 & A1 & A2 & A3).
  unfold z256_is_zero. rewrite !is_zero64_spec by auto. cbn [val]. unfold limb_ok in *.
  destruct (Z.eqb_spec a0 0); destruct (Z.eqb_spec a1 0); destruct (Z.eqb_spec a2 0); destruct (Z.eqb_spec a3 0);
  destruct (Z.eqb_spec (a0 + 2^64 * (a1 + 2^64 * (a2 + 2^64 * (a3 + 2^64 * 0)))) 0); try reflexivity; lia.
Qed.

Theorem equ_spec : forall a b, z256_ok a -> z256_ok b -> z256_equ a b = if val a =? val b then 1 else 0.
Proof.
  intros a b Ha Hb.
  destruct (z256_ok_inv a Ha) as (a0 & a1 & a2 & a3 & -> & A0 & A1 & A2 & A3).
  destruct (z256_ok_inv b Hb) as (b0 & b1 & b2 & b3 & -> & B0 & B1 & B2 & B3).
  unfold z256_equ.
  (* lxor x y = 0 <-> x = y; lor = 0 <-> both 0; all values are limbs *)
  assert (LG : forall x, 0 <= x < 2^64 -> Z.log2 x < 64).
  { intros x Hx. destruct (Z.eq_dec x 0) as [->|N]; [cbn; lia|]. apply Z.log2_lt_pow2; lia. }
  assert (LX : forall x y, limb_ok x -> limb_ok y -> limb_ok (Z.lxor x y)).
  { unfold limb_ok. intros x y Hx Hy. pose proof (Z.lxor_nonneg x y) as NN. split; [lia|].
    destruct (Z.eq_dec (Z.lxor x y) 0) as [E|E]; [rewrite E; lia|].
    apply Z.log2_lt_pow2; [lia|].
    eapply Z.le_lt_trans; [apply Z.log2_lxor; lia|].
    apply Z.max_lub_lt; apply LG; lia. }
  assert (LO : forall x y, limb_ok x -> limb_ok y -> limb_ok (Z.lor x y)).
  { unfold limb_ok. intros x y Hx Hy. pose proof (Z.lor_nonneg x y) as NN. split; [lia|].
    destruct (Z.eq_dec (Z.lor x y) 0) as [E|E]; [rewrite E; lia|].
    apply Z.log2_lt_pow2; [lia|].
    rewrite Z.log2_lor by lia.
    apply Z.max_lub_lt; apply LG; lia. }
  rewrite is_zero64_spec by (repeat apply LO; apply LX; auto).
  cbn [val]. unfold limb_ok in *.
  destruct (Z.eqb_spec (Z.lor (Z.lor (Z.lor (Z.lxor a0 b0) (Z.lxor a1 b1)) (Z.lxor a2 b2)) (Z.lxor a3 b3)) 0) as [E|E].
  - apply Z.lor_eq_0_iff in E. destruct E as [E E3]. apply Z.lor_eq_0_iff in E. destruct E as [E E2].
    apply Z.lor_eq_0_iff in E. destruct E as [E0 E1].
    apply Z.lxor_eq in E0, E1, E2, E3. subst. rewrite Z.eqb_refl. reflexivity.
  - destruct (Z.eqb_spec (a0 + 2^64 * (a1 + 2^64 * (a2 + 2^64 * (a3 + 2^64 * 0))))
                         (b0 + 2^64 * (b1 + 2^64 * (b2 + 2^64 * (b3 + 2^64 * 0))))) as [Q|Q]; [|reflexivity].
    exfalso. apply E. assert (a0 = b0 /\ a1 = b1 /\ a2 = b2 /\ a3 = b3) as (-> & -> & -> & ->) by lia.
    rewrite !Z.lxor_nilpotent. reflexivity.
Qed.

(* z256_modm_add / sub / neg for any modulus m with negm = 2^256 - m: the exact value for ALL
   256-bit operands (also outside [0,m)), and the mathematical result inside the domain *)
Theorem modm_add_spec : forall m negm a b, z256_ok m -> z256_ok negm -> z256_ok a -> z256_ok b ->
  val negm = 2^256 - val m -> 0 < val m ->
  val a < val m -> val b < val m ->
  z256_ok (z256_modm_add m negm a b) /\ val (z256_modm_add m negm a b) = (val a + val b) mod val m.
Proof.
  intros m negm a b Hm Hn Ha Hb En Hm0 La Lb. unfold z256_modm_add.
  destruct (add_spec a b Ha Hb) as (R & C & E).
  destruct (z256_add a b) as [r c] eqn:Eab. cbn [fst snd] in *.
  pose proof (val_bounds_256 _ R) as BR. pose proof (val_bounds_256 _ Ha) as BA.
  pose proof (val_bounds_256 _ Hb) as BB. pose proof (val_bounds_256 _ Hm) as BM.
  destruct C as [C|C]; subst c; cbn [Z.eqb negb].
  - rewrite cmp_geb by auto. destruct (Z.leb_spec (val m) (val r)).
    + destruct (sub_spec r m R Hm) as (R2 & C2 & E2). split; auto.
      pose proof (val_bounds_256 _ R2).
      assert (val (fst (z256_sub r m)) = val a + val b - val m) by (destruct C2 as [C2|C2]; rewrite C2 in E2; lia).
      rewrite H1. apply Z.mod_unique with (q := 1); lia.
    + split; auto. apply Z.mod_unique with (q := 0); lia.
  - destruct (add_spec r negm R Hn) as (R2 & C2 & E2). split; auto.
    pose proof (val_bounds_256 _ R2).
    assert (val (fst (z256_add r negm)) = val a + val b - val m) by (destruct C2 as [C2|C2]; rewrite C2 in E2; lia).
    rewrite H0. apply Z.mod_unique with (q := 1); lia.
Qed.

Theorem modm_sub_spec : forall m negm a b, z256_ok m -> z256_ok negm -> z256_ok a -> z256_ok b ->
  val negm = 2^256 - val m -> 0 < val m ->
  val a < val m -> val b < val m ->
  z256_ok (z256_modm_sub negm a b) /\ val (z256_modm_sub negm a b) = (val a - val b) mod val m.
Proof.
  intros m negm a b Hm Hn Ha Hb En Hm0 La Lb. unfold z256_modm_sub.
  destruct (sub_spec a b Ha Hb) as (R & C & E).
  destruct (z256_sub a b) as [r c] eqn:Eab. cbn [fst snd] in *.
  pose proof (val_bounds_256 _ R) as BR. pose proof (val_bounds_256 _ Ha) as BA.
  pose proof (val_bounds_256 _ Hb) as BB. pose proof (val_bounds_256 _ Hm) as BM.
  destruct C as [C|C]; subst c; cbn [Z.eqb negb].
  - split; auto. apply Z.mod_unique with (q := 0); lia.
  - destruct (sub_spec r negm R Hn) as (R2 & C2 & E2). split; auto.
    pose proof (val_bounds_256 _ R2).
    assert (val (fst (z256_sub r negm)) = val a - val b + val m) by (destruct C2 as [C2|C2]; rewrite C2 in E2; lia).
    rewrite H0. apply Z.mod_unique with (q := -1); lia.
Qed.

(* neg: m - a with the result masked to 0 when a = 0, i.e. (-a) mod m on all of [0, m) *)
Lemma map_land_zero : forall l, map (fun x => Z.land x 0) l = map (fun _ => 0) l.
Proof. intros. apply map_ext. intros. apply Z.land_0_r. Qed.
Lemma val_zeros : forall (l : list Z), val (map (fun _ => 0) l) = 0.
Proof. induction l; cbn [map val]; lia. Qed.
Lemma limbs_ok_zeros : forall (l : list Z), limbs_ok (map (fun _ => 0) l).
Proof. induction l; cbn [map]; constructor; auto. unfold limb_ok. lia. Qed.
Lemma map_land_ones64 : forall l, limbs_ok l -> map (fun x => Z.land x (2^64 - 1)) l = l.
Proof.
  induction l as [|x l IH]; intros H; cbn [map]; [reflexivity|].
  inversion H; subst. rewrite IH by auto. f_equal.
  change (2^64 - 1) with (Z.ones 64). rewrite Z.land_ones by lia. apply Z.mod_small. exact H2.
Qed.

Theorem modm_neg_spec : forall m a, z256_ok m -> z256_ok a -> val a < val m ->
  z256_ok (z256_modm_neg m a) /\ val (z256_modm_neg m a) = (- val a) mod val m.
Proof.
  intros m a Hm Ha La. unfold z256_modm_neg. rewrite (is_zero_spec a Ha).
  destruct (sub_spec m a Hm Ha) as (R & C & E).
  pose proof (val_bounds_256 _ R). pose proof (val_bounds_256 _ Hm). pose proof (val_bounds_256 _ Ha).
  destruct (Z.eqb_spec (val a) 0) as [Z0|NZ].
  - change (w64 (0 - (1 - 1))) with 0. rewrite map_land_zero.
    destruct R as [LR OR]. split.
    + split; [rewrite map_length; exact LR | apply limbs_ok_zeros].
    + rewrite val_zeros, Z0. reflexivity.
  - change (w64 (0 - (1 - 0))) with (2^64 - 1). destruct R as [LR OR].
    rewrite map_land_ones64 by exact OR. split; [split; auto|].
    assert (val (fst (z256_sub m a)) = val m - val a) by (destruct C as [C|C]; rewrite C in E; lia).
    rewrite H2. apply Z.mod_unique with (q := -1); lia.
Qed.
(* the function before the repair returned the modulus itself for a = 0 *)
Lemma modm_neg_old_zero : forall m a, z256_ok m -> z256_ok a -> val a = 0 ->
  val (z256_modm_neg_old m a) = val m.
Proof.
  intros m a Hm Ha La. unfold z256_modm_neg_old.
  destruct (sub_spec m a Hm Ha) as (R & C & E).
  pose proof (val_bounds_256 _ R). pose proof (val_bounds_256 _ Hm).
  destruct C as [C|C]; rewrite C in E; lia.
Qed.

(* the constants *)
Lemma P_ok : z256_ok SM2_Z256_P. Proof. split; [reflexivity|]. repeat constructor; unfold limb_ok; cbn; lia. Qed.
Lemma NEGP_ok : z256_ok SM2_Z256_NEG_P. Proof. split; [reflexivity|]. repeat constructor; unfold limb_ok; cbn; lia. Qed.
Lemma N_ok : z256_ok SM2_Z256_N. Proof. split; [reflexivity|]. repeat constructor; unfold limb_ok; cbn; lia. Qed.
Lemma NEGN_ok : z256_ok SM2_Z256_NEG_N. Proof. split; [reflexivity|]. repeat constructor; unfold limb_ok; cbn; lia. Qed.
Definition vP : Z := val SM2_Z256_P.
Definition vN : Z := val SM2_Z256_N.
Lemma NEGP_val : val SM2_Z256_NEG_P = 2^256 - vP. Proof. reflexivity. Qed.
Lemma NEGN_val : val SM2_Z256_NEG_N = 2^256 - vN. Proof. reflexivity. Qed.

Theorem modp_add_spec : forall a b, z256_ok a -> z256_ok b -> val a < vP -> val b < vP ->
  z256_ok (z256_modp_add a b) /\ val (z256_modp_add a b) = (val a + val b) mod vP.
Proof. intros. apply modm_add_spec; auto using P_ok, NEGP_ok, NEGP_val. reflexivity. Qed.
Theorem modp_sub_spec : forall a b, z256_ok a -> z256_ok b -> val a < vP -> val b < vP ->
  z256_ok (z256_modp_sub a b) /\ val (z256_modp_sub a b) = (val a - val b) mod vP.
Proof. intros. apply modm_sub_spec with (m := SM2_Z256_P); auto using P_ok, NEGP_ok, NEGP_val. reflexivity. Qed.
Theorem modp_neg_spec : forall a, z256_ok a -> val a < vP ->
  z256_ok (z256_modp_neg a) /\ val (z256_modp_neg a) = (- val a) mod vP.
Proof. intros. apply modm_neg_spec; auto using P_ok. Qed.
Theorem modn_add_spec : forall a b, z256_ok a -> z256_ok b -> val a < vN -> val b < vN ->
  z256_ok (z256_modn_add a b) /\ val (z256_modn_add a b) = (val a + val b) mod vN.
Proof. intros. apply modm_add_spec; auto using N_ok, NEGN_ok, NEGN_val. reflexivity. Qed.
Theorem modn_sub_spec : forall a b, z256_ok a -> z256_ok b -> val a < vN -> val b < vN ->
  z256_ok (z256_modn_sub a b) /\ val (z256_modn_sub a b) = (val a - val b) mod vN.
Proof. intros. apply modm_sub_spec with (m := SM2_Z256_N); auto using N_ok, NEGN_ok, NEGN_val. reflexivity. Qed.
Theorem modn_neg_spec : forall a, z256_ok a -> val a < vN ->
  z256_ok (z256_modn_neg a) /\ val (z256_modn_neg a) = (- val a) mod vN.
Proof. intros. apply modm_neg_spec; auto using N_ok. Qed.

Theorem modp_dbl_spec : forall a, z256_ok a -> val a < vP ->
  z256_ok (z256_modp_dbl a) /\ val (z256_modp_dbl a) = (2 * val a) mod vP.
Proof.
  intros a Ha La. unfold z256_modp_dbl. destruct (modp_add_spec a a Ha Ha La La) as (R & V).
  split; auto. rewrite V. f_equal. lia.
Qed.
Theorem modp_tri_spec : forall a, z256_ok a -> val a < vP ->
  z256_ok (z256_modp_tri a) /\ val (z256_modp_tri a) = (3 * val a) mod vP.
Proof.
  intros a Ha La. unfold z256_modp_tri. destruct (modp_add_spec a a Ha Ha La La) as (R & V).
  assert (L2 : val (z256_modp_add a a) < vP).
  { rewrite V. apply Z.mod_pos_bound. reflexivity. }
  destruct (modp_add_spec _ a R Ha L2 La) as (R3 & V3). split; auto.
  rewrite V3, V. rewrite Z.add_mod_idemp_l by (intro; discriminate). f_equal. lia.
Qed.
Lemma PPRIME_ok : z256_ok SM2_Z256_P_PRIME. Proof. split; [reflexivity|]. repeat constructor; unfold limb_ok; cbn; lia. Qed.
Lemma NPRIME_ok : z256_ok SM2_Z256_N_PRIME. Proof. split; [reflexivity|]. repeat constructor; unfold limb_ok; cbn; lia. Qed.

(* ---------------- sm2_z256_copy_conditional ---------------- *)
Lemma land_ones64 : forall x, limb_ok x -> Z.land x ones64 = x.
Proof. intros x H. change ones64 with (Z.ones 64). rewrite Z.land_ones by lia. apply Z.mod_small. exact H. Qed.
Theorem copy_conditional_spec : forall dst src move, z256_ok dst -> z256_ok src -> move = 0 \/ move = 1 ->
  z256_copy_conditional dst src move = if move =? 1 then src else dst.
Proof.
  intros dst src move Hd Hs Hm.
  destruct (z256_ok_inv dst Hd) as (d0 & d1 & d2 & d3 & -> & D0 & D1 & D2 & D3).
  destruct (z256_ok_inv src Hs) as (s0 & s1 & s2 & s3 & -> & S0 & S1 & S2 & S3).
  unfold z256_copy_conditional.
  destruct Hm as [-> | ->].
  - change (w64 (0 - 0)) with 0. change (not64 0) with ones64. cbn [Z.eqb].
    rewrite !Z.land_0_r, !Z.lxor_0_l, !land_ones64 by auto. reflexivity.
  - change (w64 (0 - 1)) with ones64. change (not64 ones64) with 0. cbn [Z.eqb Pos.eqb].
    rewrite !Z.land_0_r, !Z.lxor_0_r, !land_ones64 by auto. reflexivity.
Qed.

(* ---------------- sm2_z256_from_bytes / to_bytes ---------------- *)
Definition byte_ok (b : Z) : Prop := 0 <= b < 256.
Lemma getu64_8 : forall b0 b1 b2 b3 b4 b5 b6 b7 r,
  getu64 (b0 :: b1 :: b2 :: b3 :: b4 :: b5 :: b6 :: b7 :: r) =
  ((((((b0 * 256 + b1) * 256 + b2) * 256 + b3) * 256 + b4) * 256 + b5) * 256 + b6) * 256 + b7.
Proof. intros. unfold getu64. cbn [firstn fold_left]. ring. Qed.
Lemma putu64_getu64 : forall b0 b1 b2 b3 b4 b5 b6 b7,
  byte_ok b0 -> byte_ok b1 -> byte_ok b2 -> byte_ok b3 -> byte_ok b4 -> byte_ok b5 -> byte_ok b6 -> byte_ok b7 ->
  let x := ((((((b0 * 256 + b1) * 256 + b2) * 256 + b3) * 256 + b4) * 256 + b5) * 256 + b6) * 256 + b7 in
  limb_ok x /\ putu64 x = [b0; b1; b2; b3; b4; b5; b6; b7].
Proof.
  intros b0 b1 b2 b3 b4 b5 b6 b7 H0 H1 H2 H3 H4 H5 H6 H7. cbv zeta. unfold byte_ok, limb_ok in *.
  set (x := ((((((b0 * 256 + b1) * 256 + b2) * 256 + b3) * 256 + b4) * 256 + b5) * 256 + b6) * 256 + b7).
  split; [unfold x; lia|].
  unfold putu64. cbn [map]. change 255 with (Z.ones 8).
  rewrite !Z.land_ones by lia. rewrite !Z.shiftr_div_pow2 by lia.
  change (2^(8*7)) with 72057594037927936. change (2^(8*6)) with 281474976710656.
  change (2^(8*5)) with 1099511627776. change (2^(8*4)) with 4294967296.
  change (2^(8*3)) with 16777216. change (2^(8*2)) with 65536. change (2^(8*1)) with 256.
  change (2^(8*0)) with 1. change (2^8) with 256.
  repeat f_equal; unfold x; lia.
Qed.

Theorem bytes_roundtrip : forall bs, length bs = 32%nat -> Forall byte_ok bs ->
  z256_ok (z256_from_bytes bs) /\
  z256_to_bytes (z256_from_bytes bs) = bs /\
  val (z256_from_bytes bs) = fold_left (fun acc b => acc * 256 + b) bs 0.
Proof.
  intros bs L F.
  do 32 (destruct bs as [|? bs]; [discriminate L|]). destruct bs; [|discriminate L]. clear L.
  repeat match goal with H : Forall _ (_ :: _) |- _ => inversion H; clear H; subst end.
  unfold z256_from_bytes. cbn [skipn]. rewrite !getu64_8.
  match goal with |- context [z256_ok [?l0; ?l1; ?l2; ?l3]] =>
    set (x0 := l0); set (x1 := l1); set (x2 := l2); set (x3 := l3) end.
  assert (P3 := putu64_getu64 z z0 z1 z2 z3 z4 z5 z6 ltac:(assumption) ltac:(assumption) ltac:(assumption) ltac:(assumption) ltac:(assumption) ltac:(assumption) ltac:(assumption) ltac:(assumption)).
  assert (P2 := putu64_getu64 z7 z8 z9 z10 z11 z12 z13 z14 ltac:(assumption) ltac:(assumption) ltac:(assumption) ltac:(assumption) ltac:(assumption) ltac:(assumption) ltac:(assumption) ltac:(assumption)).
  assert (P1 := putu64_getu64 z15 z16 z17 z18 z19 z20 z21 z22 ltac:(assumption) ltac:(assumption) ltac:(assumption) ltac:(assumption) ltac:(assumption) ltac:(assumption) ltac:(assumption) ltac:(assumption)).
  assert (P0 := putu64_getu64 z23 z24 z25 z26 z27 z28 z29 z30 ltac:(assumption) ltac:(assumption) ltac:(assumption) ltac:(assumption) ltac:(assumption) ltac:(assumption) ltac:(assumption) ltac:(assumption)).
  cbv zeta in P0, P1, P2, P3. fold x3 in P3. fold x2 in P2. fold x1 in P1. fold x0 in P0.
  destruct P0 as [O0 E0]. destruct P1 as [O1 E1]. destruct P2 as [O2 E2]. destruct P3 as [O3 E3].
  split; [split; [reflexivity | repeat (constructor; [assumption|]); constructor]|]. split.
  - unfold z256_to_bytes. rewrite E0, E1, E2, E3. reflexivity.
  - cbn [val fold_left]. unfold x0, x1, x2, x3. ring.
Qed.

(* ---------------- right shifts across limbs: sm2_z256_rshift and the halving of modp_haf ---------------- *)
Ltac Zify.zify_post_hook ::= idtac.
Lemma shr_limb : forall lo m n, 0 < n < 64 -> limb_ok lo -> 0 <= m < 2^n ->
  Z.lor (Z.shiftr lo n) (Z.shiftl m (64 - n)) = lo / 2^n + m * 2^(64 - n) /\
  limb_ok (lo / 2^n + m * 2^(64 - n)).
Proof.
  intros lo m n Hn Hlo Hm. unfold limb_ok in *.
  assert (Pn : 0 < 2^n) by (apply Z.pow_pos_nonneg; lia).
  assert (Pc : 0 < 2^(64 - n)) by (apply Z.pow_pos_nonneg; lia).
  assert (E64 : 2^64 = 2^(64 - n) * 2^n) by (rewrite <- Z.pow_add_r by lia; f_equal; lia).
  assert (Lo : 0 <= lo / 2^n < 2^(64 - n)).
  { split; [apply Z.div_pos; lia|]. apply Z.div_lt_upper_bound; [lia|]. rewrite Z.mul_comm, <- E64. lia. }
  rewrite Z.shiftr_div_pow2 by lia. rewrite Z.lor_comm, lor_shl_add by lia. split; [ring|].
  split; [nia|]. rewrite E64. nia.
Qed.
Lemma w64_shl : forall hi n, 0 < n < 64 -> 0 <= hi ->
  w64 (Z.shiftl hi (64 - n)) = Z.shiftl (hi mod 2^n) (64 - n).
Proof.
  intros hi n Hn Hh. unfold w64. rewrite !Z.shiftl_mul_pow2 by lia.
  assert (Pn : 0 < 2^n) by (apply Z.pow_pos_nonneg; lia).
  assert (Pc : 0 < 2^(64 - n)) by (apply Z.pow_pos_nonneg; lia).
  replace (2^64) with (2^n * 2^(64 - n)) by (rewrite <- Z.pow_add_r by lia; f_equal; lia).
  rewrite Z.mul_mod_distr_r by lia. reflexivity.
Qed.

Theorem rshift_spec : forall a nbits, z256_ok a -> 0 <= nbits ->
  z256_ok (z256_rshift a nbits) /\ val (z256_rshift a nbits) = val a / 2^(nbits mod 64).
Proof.
  intros a nbits Ha Hnb.
  destruct (z256_ok_inv a Ha) as (a0 & a1 & a2 & a3 & -> & A0 & A1 & A2 & A3).
  unfold z256_rshift. change 0x3f with (Z.ones 6). rewrite Z.land_ones by lia. change (2^6) with 64.
  set (n := nbits mod 64). assert (Hn : 0 <= n < 64) by (unfold n; apply Z.mod_pos_bound; lia).
  destruct (Z.eqb_spec n 0) as [->|Nz].
  - split; [exact Ha|]. change (2^0) with 1. rewrite Z.div_1_r. reflexivity.
  - assert (Hn' : 0 < n < 64) by lia.
    assert (Pn : 0 < 2^n) by (apply Z.pow_pos_nonneg; lia).
    unfold limb_ok in A0, A1, A2, A3.
    rewrite !w64_shl by lia.
    destruct (shr_limb a0 (a1 mod 2^n) n Hn' A0 ltac:(apply Z.mod_pos_bound; lia)) as [E0 O0].
    destruct (shr_limb a1 (a2 mod 2^n) n Hn' A1 ltac:(apply Z.mod_pos_bound; lia)) as [E1 O1].
    destruct (shr_limb a2 (a3 mod 2^n) n Hn' A2 ltac:(apply Z.mod_pos_bound; lia)) as [E2 O2].
    rewrite E0, E1, E2. rewrite (Z.shiftr_div_pow2 a3) by lia.
    assert (O3 : limb_ok (a3 / 2^n)).
    { unfold limb_ok. split; [apply Z.div_pos; lia|]. apply Z.div_lt_upper_bound; [lia|]. nia. }
    split; [split; [reflexivity | repeat (constructor; [assumption|]); constructor]|].
    cbn [val]. apply Z.div_unique with (r := a0 mod 2^n); [left; apply Z.mod_pos_bound; lia|].
    pose proof (Z.div_mod a0 (2^n) ltac:(lia)) as D0. pose proof (Z.div_mod a1 (2^n) ltac:(lia)) as D1.
    pose proof (Z.div_mod a2 (2^n) ltac:(lia)) as D2. pose proof (Z.div_mod a3 (2^n) ltac:(lia)) as D3.
    assert (E64 : 2^64 = 2^n * 2^(64 - n)) by (rewrite <- Z.pow_add_r by lia; f_equal; lia).
    set (P := 2^n) in *. set (Q := 2^(64 - n)) in *.
    set (q0 := a0 / P) in *. set (q1 := a1 / P) in *. set (q2 := a2 / P) in *. set (q3 := a3 / P) in *.
    set (m0 := a0 mod P) in *. set (m1 := a1 mod P) in *. set (m2 := a2 mod P) in *. set (m3 := a3 mod P) in *.
    rewrite D0 at 1. rewrite D1 at 1. rewrite D2 at 1. rewrite D3 at 1. rewrite E64. ring.
Qed.

(* the halving step of sm2_z256_modp_haf: ((c, r3, r2, r1, r0) as a 257-bit number) >> 1 *)
Lemma haf_shift : forall r0 r1 r2 r3 c, limb_ok r0 -> limb_ok r1 -> limb_ok r2 -> limb_ok r3 -> c = 0 \/ c = 1 ->
  let out := [ Z.lor (Z.shiftr r0 1) (w64 (Z.shiftl (Z.land r1 1) 63));
               Z.lor (Z.shiftr r1 1) (w64 (Z.shiftl (Z.land r2 1) 63));
               Z.lor (Z.shiftr r2 1) (w64 (Z.shiftl (Z.land r3 1) 63));
               Z.lor (Z.shiftr r3 1) (w64 (Z.shiftl (Z.land c 1) 63)) ] in
  z256_ok out /\ val out = (val [r0; r1; r2; r3] + c * 2^256) / 2.
Proof.
  intros r0 r1 r2 r3 c R0 R1 R2 R3 Hc out. unfold out.
  assert (L1 : forall x, 0 <= x -> w64 (Z.shiftl (Z.land x 1) 63) = Z.shiftl (x mod 2^1) (64 - 1)).
  { intros x Hx. change 1 with (Z.ones 1) at 1. rewrite Z.land_ones by lia. change (64 - 1) with 63.
    unfold w64. rewrite Z.shiftl_mul_pow2 by lia. apply Z.mod_small.
    pose proof (Z.mod_pos_bound x (2^1) ltac:(lia)). change (2^1) with 2 in *. lia. }
  unfold limb_ok in *.
  rewrite !L1 by lia.
  assert (H1 : 0 < 1 < 64) by lia.
  destruct (shr_limb r0 (r1 mod 2^1) 1 H1 R0 ltac:(apply Z.mod_pos_bound; lia)) as [E0 O0].
  destruct (shr_limb r1 (r2 mod 2^1) 1 H1 R1 ltac:(apply Z.mod_pos_bound; lia)) as [E1 O1].
  destruct (shr_limb r2 (r3 mod 2^1) 1 H1 R2 ltac:(apply Z.mod_pos_bound; lia)) as [E2 O2].
  destruct (shr_limb r3 (c mod 2^1) 1 H1 R3 ltac:(apply Z.mod_pos_bound; lia)) as [E3 O3].
  rewrite E0, E1, E2, E3.
  split; [split; [reflexivity | repeat (constructor; [assumption|]); constructor]|].
  cbn [val]. apply Z.div_unique with (r := r0 mod 2^1); [left; apply Z.mod_pos_bound; lia|].
  pose proof (Z.div_mod r0 (2^1) ltac:(lia)) as D0. pose proof (Z.div_mod r1 (2^1) ltac:(lia)) as D1.
  pose proof (Z.div_mod r2 (2^1) ltac:(lia)) as D2. pose proof (Z.div_mod r3 (2^1) ltac:(lia)) as D3.
  assert (Dc : c mod 2^1 = c) by (destruct Hc as [-> | ->]; reflexivity).
  rewrite Dc. change (64 - 1) with 63.
  set (q0 := r0 / 2^1) in *. set (q1 := r1 / 2^1) in *. set (q2 := r2 / 2^1) in *. set (q3 := r3 / 2^1) in *.
  set (m0 := r0 mod 2^1) in *. set (m1 := r1 mod 2^1) in *. set (m2 := r2 mod 2^1) in *. set (m3 := r3 mod 2^1) in *.
  rewrite D0 at 1. rewrite D1 at 1. rewrite D2 at 1. rewrite D3 at 1.
  change (2^1) with 2. change (2^64) with (2 * 2^63). change (2^256) with (2 * 2^63 * (2 * 2^63) * (2 * 2^63) * (2 * 2^63)). ring.
Qed.
