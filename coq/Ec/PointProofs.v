(* C12 — proofs about the import functions of Ec/Point.v (value-level model over Z). *)
From Coq Require Import ZArith List Bool Lia Setoid Morphisms Zdiv.
From GmVerif Require Import Ec.Num Ec.CurveSpec Ec.Z256 Ec.Mont Ec.MontProofs Ec.Jacobian Ec.JacobianProofs
  Ec.ScalarMul Ec.Point.
Import ListNotations.
Local Open Scope Z_scope.

Local Instance eqm_equiv_c : Equivalence (eqm c_p) := eqm_setoid c_p.
Local Instance eqm_add_c : Proper (eqm c_p ==> eqm c_p ==> eqm c_p) Z.add := Zplus_eqm c_p.
Local Instance eqm_sub_c : Proper (eqm c_p ==> eqm c_p ==> eqm c_p) Z.sub := Zminus_eqm c_p.
Local Instance eqm_mul_c : Proper (eqm c_p ==> eqm c_p ==> eqm c_p) Z.mul := Zmult_eqm c_p.

(* ---- private scalars: accepted iff 1 <= d <= n - 2 ---- *)
Theorem scalar_range : forall d, 0 <= d ->
  scalar_ok ZOps Z.ltb KpZ KnZ d = true <-> 1 <= d <= c_n - 2.
Proof.
  intros d Hd. unfold scalar_ok, is0. cbn [neqb nsub ZOps T km k1 k0 KpZ KnZ mk_consts nofZ].
  destruct (Z.eqb_spec d 0); destruct (Z.ltb_spec d (c_n - 1)); cbn [negb andb]; split; intros; try lia; try discriminate; try reflexivity.
Qed.

(* ---- decoding of Montgomery residues is injective on reduced residues ---- *)
Lemma decp_inj : forall a b, okp a -> okp b -> decp a = decp b -> a = b.
Proof.
  intros a b Ha Hb E. unfold okp in *. pose proof c_p_pos as Hp.
  assert (R : forall z, 0 <= z < c_p -> z = (decp z * 2^256) mod c_p).
  { intros z Hz. unfold decp, frm. change (km KpZ) with c_p.
    rewrite Z.mul_mod_idemp_l by lia.
    replace (z * Rinv_p * 2^256) with (z * (2^256 * Rinv_p)) by ring.
    rewrite <- Z.mul_mod_idemp_r by lia. rewrite Rinv_p_ok, Z.mul_1_r.
    symmetry. apply Z.mod_small. exact Hz. }
  rewrite (R a Ha), (R b Hb), E. reflexivity.
Qed.
Lemma decp_range : forall z, 0 <= decp z < c_p.
Proof. intros. unfold decp, frm. change (km KpZ) with c_p. apply Z.mod_pos_bound. reflexivity. Qed.
Lemma decp_mont_b : decp c_mont_b = sm2_b. Proof. vm_compute. reflexivity. Qed.
Lemma okp_mont_b : okp c_mont_b. Proof. vm_compute. split; [discriminate|reflexivity]. Qed.

(* ---- sm2_z256_point_is_on_curve on a normalised point (Z = mont(1)) decides the curve equation ---- *)
Theorem on_curve_iff : forall x y, 0 <= x < c_p -> 0 <= y < c_p ->
  point_is_on_curve Z FpZ (vto_mont ZOps Z.ltb KpZ x, vto_mont ZOps Z.ltb KpZ y, knegm KpZ) = true <->
  (y * y) mod c_p = (x * x * x + sm2_a * x + sm2_b) mod c_p.
Proof.
  intros x y Hx Hy. pose proof c_p_pos as Hp.
  destruct (to_from_mont_p x Hx) as (Dx & Ox & _). destruct (to_from_mont_p y Hy) as (Dy & Oy & _).
  set (X := vto_mont ZOps Z.ltb KpZ x) in *. set (Y := vto_mont ZOps Z.ltb KpZ y) in *.
  fold (decp X) in Dx. fold (decp Y) in Dy. fold (okp X) in Ox. fold (okp Y) in Oy.
  unfold point_is_on_curve.
  replace (f_eqb FpZ (knegm KpZ) (f_one FpZ)) with true by reflexivity.
  pose proof FpZ_laws as L.
  destruct (l_sqr _ _ _ _ _ _ L Y Oy) as [O1 E1]. set (t0a := f_sqr FpZ Y) in *.
  destruct (l_add _ _ _ _ _ _ L t0a X O1 Ox) as [O2 E2]. set (t0b := f_add FpZ t0a X) in *.
  destruct (l_add _ _ _ _ _ _ L t0b X O2 Ox) as [O3 E3]. set (t0c := f_add FpZ t0b X) in *.
  destruct (l_add _ _ _ _ _ _ L t0c X O3 Ox) as [O4 E4]. set (t0 := f_add FpZ t0c X) in *.
  destruct (l_sqr _ _ _ _ _ _ L X Ox) as [O5 E5]. set (t1a := f_sqr FpZ X) in *.
  destruct (l_mul _ _ _ _ _ _ L t1a X O5 Ox) as [O6 E6]. set (t1b := f_mul FpZ t1a X) in *.
  assert (OB : okp (f_b FpZ)) by exact okp_mont_b.
  destruct (l_add _ _ _ _ _ _ L t1b (f_b FpZ) O6 OB) as [O7 E7]. set (t1 := f_add FpZ t1b (f_b FpZ)) in *.
  assert (EB : decp (f_b FpZ) = sm2_b) by exact decp_mont_b.
  assert (T0 : eqm c_p (decp t0) (y * y + 3 * x)).
  { rewrite E4, E3, E2, E1, Dx, Dy. unfold eqm; f_equal; ring. }
  assert (T1 : eqm c_p (decp t1) (x * x * x + sm2_b)).
  { rewrite E7, E6, E5, EB, Dx. unfold eqm; f_equal; ring. }
  change (f_eqb FpZ t0 t1) with (t0 =? t1).
  assert (A3 : eqm c_p sm2_a (-3)) by (vm_compute; reflexivity).
  split.
  - intro H. apply Z.eqb_eq in H.
    assert (E : eqm c_p (y * y + 3 * x) (x * x * x + sm2_b)).
    { rewrite <- T0, <- T1, H. reflexivity. }
    change (eqm c_p (y * y) (x * x * x + sm2_a * x + sm2_b)). rewrite A3.
    transitivity ((y * y + 3 * x) - 3 * x); [unfold eqm; f_equal; ring|].
    rewrite E. unfold eqm; f_equal; ring.
  - intro H. apply Z.eqb_eq. apply decp_inj; auto.
    change (eqm c_p (y * y) (x * x * x + sm2_a * x + sm2_b)) in H. rewrite A3 in H.
    assert (E : eqm c_p (decp t0) (decp t1)).
    { rewrite T0, T1, H. unfold eqm; f_equal; ring. }
    unfold eqm in E. pose proof (decp_range t0). pose proof (decp_range t1).
    rewrite !Z.mod_small in E by lia. exact E.
Qed.

(* ---- from_bytes returns 1 exactly on the valid public points ---- *)
Theorem from_bytes_ok_iff : forall Pin x y, 0 <= x -> 0 <= y ->
  fst (point_from_bytes ZOps Z.ltb KpZ Pin x y) = 1 <->
  x < c_p /\ y < c_p /\ ~ (x = 0 /\ y = 0) /\
  (y * y) mod c_p = (x * x * x + sm2_a * x + sm2_b) mod c_p.
Proof.
  intros [[X0 Y0] Zc0] x y Hx Hy. unfold point_from_bytes, is0.
  cbn [neqb ZOps T km k0 KpZ mk_consts nofZ].
  destruct (Z.ltb_spec x c_p); cbn [negb fst].
  2:{ split; [discriminate | lia]. }
  destruct (Z.ltb_spec y c_p); cbn [negb fst].
  2:{ split; [discriminate | lia]. }
  destruct (Z.eqb_spec x 0); destruct (Z.eqb_spec y 0); cbn [andb fst].
  1:{ split; [discriminate | intros (_ & _ & C & _); exfalso; apply C; auto]. }
  all: pose proof (on_curve_iff x y ltac:(lia) ltac:(lia)) as OC;
       match goal with |- context [if ?c then _ else _] =>
         change c with (point_is_on_curve Z FpZ (vto_mont ZOps Z.ltb KpZ x, vto_mont ZOps Z.ltb KpZ y, knegm KpZ)) end;
       destruct (point_is_on_curve Z FpZ (vto_mont ZOps Z.ltb KpZ x, vto_mont ZOps Z.ltb KpZ y, knegm KpZ));
       cbn [fst]; split; intro H1.
  all: try reflexivity.
  all: try discriminate H1.
  all: try (split; [lia|]; split; [lia|]; split; [lia|]; apply OC; reflexivity).
  all: destruct H1 as (_ & _ & _ & E); apply OC in E; discriminate E.
Qed.

(* a successful from_bytes returns the normalised Montgomery form of (x, y) *)
Theorem from_bytes_result : forall Pin x y P,
  point_from_bytes ZOps Z.ltb KpZ Pin x y = (1, P) ->
  P = (vto_mont ZOps Z.ltb KpZ x, vto_mont ZOps Z.ltb KpZ y, knegm KpZ).
Proof.
  intros [[X0 Y0] Zc0] x y P. unfold point_from_bytes.
  destruct (negb (Z.ltb x (km KpZ))); [intro H; inversion H|].
  destruct (negb (Z.ltb y (km KpZ))); [intro H; inversion H|].
  destruct (is0 ZOps KpZ x && is0 ZOps KpZ y); [intro H; inversion H|].
  destruct (point_is_on_curve _ _ _); intro H; inversion H; reflexivity.
Qed.

(* ---- the decoder before the repair of defect 4 accepted the point at infinity (04||0^64, 00)
   and read in[0] of an empty input: refutation witnesses about the old function ---- *)
Definition pin0 : Z * Z * Z := (0, 0, 0).
Theorem from_octets_old_refuted :
  point_from_octets_old ZOps Z.ltb KpZ pin0 65 4 0 0 = Some (1, point_infinity Z FpZ) /\
  point_from_octets_old ZOps Z.ltb KpZ pin0 1 0 0 0 = Some (1, point_infinity Z FpZ) /\
  point_from_octets_old ZOps Z.ltb KpZ pin0 0 0 0 0 = None.
Proof. vm_compute. repeat split; reflexivity. Qed.

(* sm2_z256_point_from_octets succeeds only through a successful from_bytes / from_x_bytes *)
Theorem from_octets_sound : forall Pin inlen prefix x y P,
  point_from_octets ZOps Z.ltb KpZ Pin inlen prefix x y = Some (1, P) ->
  (prefix = 4 /\ inlen = 65 /\ point_from_bytes ZOps Z.ltb KpZ Pin x y = (1, P)) \/
  ((prefix = 2 \/ prefix = 3) /\ inlen = 33 /\
   point_from_x_bytes ZOps Z.ltb KpZ Pin x (prefix =? 3) = (1, P)).
Proof.
  intros Pin inlen prefix x y P. unfold point_from_octets.
  destruct (Z.eqb_spec inlen 0); [intro H; inversion H|].
  destruct (Z.eqb_spec prefix 2) as [E2|N2]; destruct (Z.eqb_spec prefix 3) as [E3|N3]; cbn [orb].
  1: lia.
  1,2: destruct (Z.eqb_spec inlen 33); cbn [negb]; [|intro H; inversion H];
       subst prefix; cbn [Z.eqb Pos.eqb];
       match goal with |- context [point_from_x_bytes ?a ?b ?c ?d ?e ?f] =>
         destruct (point_from_x_bytes a b c d e f) as [r Q] eqn:EQ end;
       destruct (Z.eqb_spec r 1); intro H; inversion H; subst; right; auto.
  destruct (Z.eqb_spec prefix 4); [|intro H; inversion H].
  destruct (Z.eqb_spec inlen 65); cbn [negb]; [|intro H; inversion H].
  destruct (point_from_bytes ZOps Z.ltb KpZ Pin x y) as [r Q] eqn:EQ.
  destruct (Z.eqb_spec r 1); intro H; inversion H; subst. left; auto.
Qed.

(* ... and conversely *)
Theorem from_octets_complete : forall Pin inlen prefix x y P,
  (prefix = 4 /\ inlen = 65 /\ point_from_bytes ZOps Z.ltb KpZ Pin x y = (1, P)) \/
  ((prefix = 2 \/ prefix = 3) /\ inlen = 33 /\
   point_from_x_bytes ZOps Z.ltb KpZ Pin x (prefix =? 3) = (1, P)) ->
  point_from_octets ZOps Z.ltb KpZ Pin inlen prefix x y = Some (1, P).
Proof.
  intros Pin inlen prefix x y P [(-> & -> & E)|([->| ->] & -> & E)]; unfold point_from_octets;
  cbn [Z.eqb Pos.eqb orb negb]; cbn [Z.eqb Pos.eqb] in E; rewrite E; reflexivity.
Qed.

(* uncompressed octets: accepted exactly on the valid public points, never infinity *)
Theorem from_octets_uncompressed_ok_iff : forall Pin x y, 0 <= x -> 0 <= y ->
  (exists P, point_from_octets ZOps Z.ltb KpZ Pin 65 4 x y = Some (1, P)) <->
  x < c_p /\ y < c_p /\ ~ (x = 0 /\ y = 0) /\
  (y * y) mod c_p = (x * x * x + sm2_a * x + sm2_b) mod c_p.
Proof.
  intros Pin x y Hx Hy. rewrite <- (from_bytes_ok_iff Pin x y Hx Hy). split.
  - intros (P & E). apply from_octets_sound in E. destruct E as [(_ & _ & E)|([E|E] & _)]; try discriminate.
    rewrite E. reflexivity.
  - intro E. destruct (point_from_bytes ZOps Z.ltb KpZ Pin x y) as [r P] eqn:EQ. cbn [fst] in E. subst r.
    exists P. apply from_octets_complete. left. auto.
Qed.
Theorem from_octets_result_normalised : forall Pin x y P,
  point_from_octets ZOps Z.ltb KpZ Pin 65 4 x y = Some (1, P) ->
  P = (vto_mont ZOps Z.ltb KpZ x, vto_mont ZOps Z.ltb KpZ y, knegm KpZ).
Proof.
  intros Pin x y P E. apply from_octets_sound in E. destruct E as [(_ & _ & E)|([E|E] & _)]; try discriminate.
  eapply from_bytes_result; eauto.
Qed.
(* the 00 encoding, other prefixes and an empty input are refused *)
Theorem from_octets_refuses : forall Pin inlen prefix x y,
  inlen = 0 \/ (prefix <> 2 /\ prefix <> 3 /\ prefix <> 4) ->
  point_from_octets ZOps Z.ltb KpZ Pin inlen prefix x y = Some (-1, Pin).
Proof.
  intros Pin inlen prefix x y [->|(N2 & N3 & N4)]; unfold point_from_octets; [reflexivity|].
  destruct (Z.eqb_spec inlen 0); [reflexivity|].
  destruct (Z.eqb_spec prefix 2); [contradiction|]. destruct (Z.eqb_spec prefix 3); [contradiction|].
  destruct (Z.eqb_spec prefix 4); [contradiction|]. reflexivity.
Qed.

(* ---- compression ---- *)
Definition Gj : Z * Z * Z := (G_mont_x, G_mont_y, c_negp).
(* before the repair of defect 5 the function wrote y where x belongs *)
Theorem compress_old_refuted :
  point_to_compressed_old ZOps Z.ltb KpZ Gj = Some (2, sm2_Gy) /\
  point_to_compressed ZOps Z.ltb KpZ Gj = Some (2, sm2_Gx) /\
  sm2_Gx <> sm2_Gy.
Proof. vm_compute. repeat split; try reflexivity. discriminate. Qed.
(* round trip on the generator: decompressing the repaired compression gives the same point *)
Example compress_roundtrip_G :
  point_from_octets ZOps Z.ltb KpZ pin0 33 2 sm2_Gx 0 = Some (1, Gj).
Proof. vm_compute. reflexivity. Qed.
