(* C12 — proofs about the import functions of Ec/Point.v (value-level model over Z). *)
From Coq Require Import ZArith List Bool Lia Setoid Morphisms Zdiv Znumtheory Zpow_facts.
From GmVerif Require Import Ec.Num Ec.CurveSpec Ec.Z256 Ec.Mont Ec.MontProofs Ec.Jacobian Ec.JacobianProofs
  Ec.ScalarMul Ec.Point.
Import ListNotations.
Local Open Scope Z_scope.

Local Instance eqm_equiv_c : Equivalence (eqm c_p) := eqm_setoid c_p.
Local Instance eqm_add_c : Proper (eqm c_p ==> eqm c_p ==> eqm c_p) Z.add := Zplus_eqm c_p.
Local Instance eqm_sub_c : Proper (eqm c_p ==> eqm c_p ==> eqm c_p) Z.sub := Zminus_eqm c_p.
Local Instance eqm_mul_c : Proper (eqm c_p ==> eqm c_p ==> eqm c_p) Z.mul := Zmult_eqm c_p.

(* ---- private scalars: accepted iff 1 <= d <= n - 2 ---- *)
Theorem scalar_range : forall d, 0 <= d ->
  scalar_ok ZOps Z.ltb KpZ KnZ d = true <-> 1 <= d <= c_n - 2.
Proof.
  intros d Hd. unfold scalar_ok, is0. cbn [neqb nsub ZOps T km k1 k0 KpZ KnZ mk_consts nofZ].
  destruct (Z.eqb_spec d 0); destruct (Z.ltb_spec d (c_n - 1)); cbn [negb andb]; split; intros; try lia; try discriminate; try reflexivity.
Qed.

(* ---- decoding of Montgomery residues is injective on reduced residues ---- *)
Lemma decp_inj : forall a b, okp a -> okp b -> decp a = decp b -> a = b.
Proof.
  intros a b Ha Hb E. unfold okp in *. pose proof c_p_pos as Hp.
  assert (R : forall z, 0 <= z < c_p -> z = (decp z * 2^256) mod c_p).
  { intros z Hz. unfold decp, frm. change (km KpZ) with c_p.
    rewrite Z.mul_mod_idemp_l by lia.
    replace (z * Rinv_p * 2^256) with (z * (2^256 * Rinv_p)) by ring.
    rewrite <- Z.mul_mod_idemp_r by lia. rewrite Rinv_p_ok, Z.mul_1_r.
    symmetry. apply Z.mod_small. exact Hz. }
  rewrite (R a Ha), (R b Hb), E. reflexivity.
Qed.
Lemma decp_range : forall z, 0 <= decp z < c_p.
Proof. intros. unfold decp, frm. change (km KpZ) with c_p. apply Z.mod_pos_bound. reflexivity. Qed.
Lemma decp_mont_b : decp c_mont_b = sm2_b. Proof. vm_compute. reflexivity. Qed.
Lemma okp_mont_b : okp c_mont_b. Proof. vm_compute. split; [discriminate|reflexivity]. Qed.

(* ---- sm2_z256_point_is_on_curve on a normalised point (Z = mont(1)) decides the curve equation ---- *)
Theorem on_curve_iff : forall x y, 0 <= x < c_p -> 0 <= y < c_p ->
  point_is_on_curve Z FpZ (vto_mont ZOps Z.ltb KpZ x, vto_mont ZOps Z.ltb KpZ y, knegm KpZ) = true <->
  (y * y) mod c_p = (x * x * x + sm2_a * x + sm2_b) mod c_p.
Proof.
  intros x y Hx Hy. pose proof c_p_pos as Hp.
  destruct (to_from_mont_p x Hx) as (Dx & Ox & _). destruct (to_from_mont_p y Hy) as (Dy & Oy & _).
  set (X := vto_mont ZOps Z.ltb KpZ x) in *. set (Y := vto_mont ZOps Z.ltb KpZ y) in *.
  fold (decp X) in Dx. fold (decp Y) in Dy. fold (okp X) in Ox. fold (okp Y) in Oy.
  unfold point_is_on_curve.
  replace (f_eqb FpZ (knegm KpZ) (f_one FpZ)) with true by reflexivity.
  pose proof FpZ_laws as L.
  destruct (l_sqr _ _ _ _ _ _ L Y Oy) as [O1 E1]. set (t0a := f_sqr FpZ Y) in *.
  destruct (l_add _ _ _ _ _ _ L t0a X O1 Ox) as [O2 E2]. set (t0b := f_add FpZ t0a X) in *.
  destruct (l_add _ _ _ _ _ _ L t0b X O2 Ox) as [O3 E3]. set (t0c := f_add FpZ t0b X) in *.
  destruct (l_add _ _ _ _ _ _ L t0c X O3 Ox) as [O4 E4]. set (t0 := f_add FpZ t0c X) in *.
  destruct (l_sqr _ _ _ _ _ _ L X Ox) as [O5 E5]. set (t1a := f_sqr FpZ X) in *.
  destruct (l_mul _ _ _ _ _ _ L t1a X O5 Ox) as [O6 E6]. set (t1b := f_mul FpZ t1a X) in *.
  assert (OB : okp (f_b FpZ)) by exact okp_mont_b.
  destruct (l_add _ _ _ _ _ _ L t1b (f_b FpZ) O6 OB) as [O7 E7]. set (t1 := f_add FpZ t1b (f_b FpZ)) in *.
  assert (EB : decp (f_b FpZ) = sm2_b) by exact decp_mont_b.
  assert (T0 : eqm c_p (decp t0) (y * y + 3 * x)).
  { rewrite E4, E3, E2, E1, Dx, Dy. unfold eqm; f_equal; ring. }
  assert (T1 : eqm c_p (decp t1) (x * x * x + sm2_b)).
  { rewrite E7, E6, E5, EB, Dx. unfold eqm; f_equal; ring. }
  change (f_eqb FpZ t0 t1) with (t0 =? t1).
  assert (A3 : eqm c_p sm2_a (-3)) by (vm_compute; reflexivity).
  split.
  - intro H. apply Z.eqb_eq in H.
    assert (E : eqm c_p (y * y + 3 * x) (x * x * x + sm2_b)).
    { rewrite <- T0, <- T1, H. reflexivity. }
    change (eqm c_p (y * y) (x * x * x + sm2_a * x + sm2_b)). rewrite A3.
    transitivity ((y * y + 3 * x) - 3 * x); [unfold eqm; f_equal; ring|].
    rewrite E. unfold eqm; f_equal; ring.
  - intro H. apply Z.eqb_eq. apply decp_inj; auto.
    change (eqm c_p (y * y) (x * x * x + sm2_a * x + sm2_b)) in H. rewrite A3 in H.
    assert (E : eqm c_p (decp t0) (decp t1)).
    { rewrite T0, T1, H. unfold eqm; f_equal; ring. }
    unfold eqm in E. pose proof (decp_range t0). pose proof (decp_range t1).
    rewrite !Z.mod_small in E by lia. exact E.
Qed.

(* ---- from_bytes returns 1 exactly on the valid public points ---- *)
Theorem from_bytes_ok_iff : forall Pin x y, 0 <= x -> 0 <= y ->
  fst (point_from_bytes ZOps Z.ltb KpZ Pin x y) = 1 <->
  x < c_p /\ y < c_p /\ ~ (x = 0 /\ y = 0) /\
  (y * y) mod c_p = (x * x * x + sm2_a * x + sm2_b) mod c_p.
Proof.
  intros [[X0 Y0] Zc0] x y Hx Hy. unfold point_from_bytes, is0.
  cbn [neqb ZOps T km k0 KpZ mk_consts nofZ].
  destruct (Z.ltb_spec x c_p); cbn [negb fst].
  2:{ split; [discriminate | lia]. }
  destruct (Z.ltb_spec y c_p); cbn [negb fst].
  2:{ split; [discriminate | lia]. }
  destruct (Z.eqb_spec x 0); destruct (Z.eqb_spec y 0); cbn [andb fst].
  1:{ split; [discriminate | intros (_ & _ & C & _); exfalso; apply C; auto]. }
  all: pose proof (on_curve_iff x y ltac:(lia) ltac:(lia)) as OC;
       match goal with |- context [if ?c then _ else _] =>
         change c with (point_is_on_curve Z FpZ (vto_mont ZOps Z.ltb KpZ x, vto_mont ZOps Z.ltb KpZ y, knegm KpZ)) end;
       destruct (point_is_on_curve Z FpZ (vto_mont ZOps Z.ltb KpZ x, vto_mont ZOps Z.ltb KpZ y, knegm KpZ));
       cbn [fst]; split; intro H1.
  all: try reflexivity.
  all: try discriminate H1.
  all: try (split; [lia|]; split; [lia|]; split; [lia|]; apply OC; reflexivity).
  all: destruct H1 as (_ & _ & _ & E); apply OC in E; discriminate E.
Qed.

(* a successful from_bytes returns the normalised Montgomery form of (x, y) *)
Theorem from_bytes_result : forall Pin x y P,
  point_from_bytes ZOps Z.ltb KpZ Pin x y = (1, P) ->
  P = (vto_mont ZOps Z.ltb KpZ x, vto_mont ZOps Z.ltb KpZ y, knegm KpZ).
Proof.
  intros [[X0 Y0] Zc0] x y P. unfold point_from_bytes.
  destruct (negb (Z.ltb x (km KpZ))); [intro H; inversion H|].
  destruct (negb (Z.ltb y (km KpZ))); [intro H; inversion H|].
  destruct (is0 ZOps KpZ x && is0 ZOps KpZ y); [intro H; inversion H|].
  destruct (point_is_on_curve _ _ _); intro H; inversion H; reflexivity.
Qed.

(* ---- the decoder before the repair of defect 4 accepted the point at infinity (04||0^64, 00)
   and read in[0] of an empty input: refutation witnesses about the old function ---- *)
Definition pin0 : Z * Z * Z := (0, 0, 0).
Theorem from_octets_old_refuted :
  point_from_octets_old ZOps Z.ltb KpZ pin0 65 4 0 0 = Some (1, point_infinity Z FpZ) /\
  point_from_octets_old ZOps Z.ltb KpZ pin0 1 0 0 0 = Some (1, point_infinity Z FpZ) /\
  point_from_octets_old ZOps Z.ltb KpZ pin0 0 0 0 0 = None.
Proof. vm_compute. repeat split; reflexivity. Qed.

(* sm2_z256_point_from_octets succeeds only through a successful from_bytes / from_x_bytes *)
Theorem from_octets_sound : forall Pin inlen prefix x y P,
  point_from_octets ZOps Z.ltb KpZ Pin inlen prefix x y = Some (1, P) ->
  (prefix = 4 /\ inlen = 65 /\ point_from_bytes ZOps Z.ltb KpZ Pin x y = (1, P)) \/
  ((prefix = 2 \/ prefix = 3) /\ inlen = 33 /\
   point_from_x_bytes ZOps Z.ltb KpZ Pin x (prefix =? 3) = (1, P)).
Proof.
  intros Pin inlen prefix x y P. unfold point_from_octets.
  destruct (Z.eqb_spec inlen 0); [intro H; inversion H|].
  destruct (Z.eqb_spec prefix 2) as [E2|N2]; destruct (Z.eqb_spec prefix 3) as [E3|N3]; cbn [orb].
  1: lia.
  1,2: destruct (Z.eqb_spec inlen 33); cbn [negb]; [|intro H; inversion H];
       subst prefix; cbn [Z.eqb Pos.eqb];
       match goal with |- context [point_from_x_bytes ?a ?b ?c ?d ?e ?f] =>
         destruct (point_from_x_bytes a b c d e f) as [r Q] eqn:EQ end;
       destruct (Z.eqb_spec r 1); intro H; inversion H; subst; right; auto.
  destruct (Z.eqb_spec prefix 4); [|intro H; inversion H].
  destruct (Z.eqb_spec inlen 65); cbn [negb]; [|intro H; inversion H].
  destruct (point_from_bytes ZOps Z.ltb KpZ Pin x y) as [r Q] eqn:EQ.
  destruct (Z.eqb_spec r 1); intro H; inversion H; subst. left; auto.
Qed.

(* ... and conversely *)
Theorem from_octets_complete : forall Pin inlen prefix x y P,
  (prefix = 4 /\ inlen = 65 /\ point_from_bytes ZOps Z.ltb KpZ Pin x y = (1, P)) \/
  ((prefix = 2 \/ prefix = 3) /\ inlen = 33 /\
   point_from_x_bytes ZOps Z.ltb KpZ Pin x (prefix =? 3) = (1, P)) ->
  point_from_octets ZOps Z.ltb KpZ Pin inlen prefix x y = Some (1, P).
Proof.
  intros Pin inlen prefix x y P [(-> & -> & E)|([->| ->] & -> & E)]; unfold point_from_octets;
  cbn [Z.eqb Pos.eqb orb negb]; cbn [Z.eqb Pos.eqb] in E; rewrite E; reflexivity.
Qed.

(* uncompressed octets: accepted exactly on the valid public points, never infinity *)
Theorem from_octets_uncompressed_ok_iff : forall Pin x y, 0 <= x -> 0 <= y ->
  (exists P, point_from_octets ZOps Z.ltb KpZ Pin 65 4 x y = Some (1, P)) <->
  x < c_p /\ y < c_p /\ ~ (x = 0 /\ y = 0) /\
  (y * y) mod c_p = (x * x * x + sm2_a * x + sm2_b) mod c_p.
Proof.
  intros Pin x y Hx Hy. rewrite <- (from_bytes_ok_iff Pin x y Hx Hy). split.
  - intros (P & E). apply from_octets_sound in E. destruct E as [(_ & _ & E)|([E|E] & _)]; try discriminate.
    rewrite E. reflexivity.
  - intro E. destruct (point_from_bytes ZOps Z.ltb KpZ Pin x y) as [r P] eqn:EQ. cbn [fst] in E. subst r.
    exists P. apply from_octets_complete. left. auto.
Qed.
Theorem from_octets_result_normalised : forall Pin x y P,
  point_from_octets ZOps Z.ltb KpZ Pin 65 4 x y = Some (1, P) ->
  P = (vto_mont ZOps Z.ltb KpZ x, vto_mont ZOps Z.ltb KpZ y, knegm KpZ).
Proof.
  intros Pin x y P E. apply from_octets_sound in E. destruct E as [(_ & _ & E)|([E|E] & _)]; try discriminate.
  eapply from_bytes_result; eauto.
Qed.
(* the 00 encoding, other prefixes and an empty input are refused *)
Theorem from_octets_refuses : forall Pin inlen prefix x y,
  inlen = 0 \/ (prefix <> 2 /\ prefix <> 3 /\ prefix <> 4) ->
  point_from_octets ZOps Z.ltb KpZ Pin inlen prefix x y = Some (-1, Pin).
Proof.
  intros Pin inlen prefix x y [->|(N2 & N3 & N4)]; unfold point_from_octets; [reflexivity|].
  destruct (Z.eqb_spec inlen 0); [reflexivity|].
  destruct (Z.eqb_spec prefix 2); [contradiction|]. destruct (Z.eqb_spec prefix 3); [contradiction|].
  destruct (Z.eqb_spec prefix 4); [contradiction|]. reflexivity.
Qed.

(* ---- compression ---- *)
Definition Gj : Z * Z * Z := (G_mont_x, G_mont_y, c_negp).
(* before the repair of defect 5 the function wrote y where x belongs *)
Theorem compress_old_refuted :
  point_to_compressed_old ZOps Z.ltb KpZ Gj = Some (2, sm2_Gy) /\
  point_to_compressed ZOps Z.ltb KpZ Gj = Some (2, sm2_Gx) /\
  sm2_Gx <> sm2_Gy.
Proof. vm_compute. repeat split; try reflexivity. discriminate. Qed.
(* round trip on the generator: decompressing the repaired compression gives the same point *)
Example compress_roundtrip_G :
  point_from_octets ZOps Z.ltb KpZ pin0 33 2 sm2_Gx 0 = Some (1, Gj).
Proof. vm_compute. reflexivity. Qed.

(* ---------------- compressed points ---------------- *)
Local Instance eqm_opp_c : Proper (eqm c_p ==> eqm c_p) Z.opp := Zopp_eqm c_p.
(* the field laws stated directly on the value-level functions (arguments universally
   quantified, so that using them on the big constants needs no conversion) *)
Lemma Lmul : forall a b, okp a -> okp b ->
  okp (vmont_mul ZOps Z.ltb KpZ a b) /\ eqm c_p (decp (vmont_mul ZOps Z.ltb KpZ a b)) (decp a * decp b).
Proof. exact (l_mul _ _ _ _ _ _ FpZ_laws). Qed.
Lemma Lsqr : forall a, okp a ->
  okp (vmont_sqr ZOps Z.ltb KpZ a) /\ eqm c_p (decp (vmont_sqr ZOps Z.ltb KpZ a)) (decp a * decp a).
Proof. exact (l_sqr _ _ _ _ _ _ FpZ_laws). Qed.
Lemma Ladd : forall a b, okp a -> okp b ->
  okp (vmod_add ZOps Z.ltb KpZ a b) /\ eqm c_p (decp (vmod_add ZOps Z.ltb KpZ a b)) (decp a + decp b).
Proof. exact (l_add _ _ _ _ _ _ FpZ_laws). Qed.
Lemma Lsub : forall a b, okp a -> okp b ->
  okp (vmod_sub ZOps Z.ltb KpZ a b) /\ eqm c_p (decp (vmod_sub ZOps Z.ltb KpZ a b)) (decp a - decp b).
Proof. exact (l_sub _ _ _ _ _ _ FpZ_laws). Qed.
Lemma Lneg : forall a, okp a ->
  okp (vmod_neg ZOps Z.ltb KpZ a) /\ eqm c_p (decp (vmod_neg ZOps Z.ltb KpZ a)) (- decp a).
Proof. exact (l_neg _ _ _ _ _ _ FpZ_laws). Qed.

Lemma okp_mont_three : okp c_mont_three. Proof. vm_compute. split; [discriminate|reflexivity]. Qed.
Lemma decp_mont_three : decp c_mont_three = 3. Proof. vm_compute. reflexivity. Qed.

(* the exponentiation used by the square root keeps its result reduced *)
Lemma sqrt_exp_ok : forall a, okp a -> okp (vmont_exp ZOps Z.ltb KpZ a c_sqrt_exp).
Proof.
  intros a Ha. unfold vmont_exp.
  set (A := frm KpZ Rinv_p a).
  assert (R0 : rel KpZ Rinv_p A (Some 1) a).
  { cbn [rel]. split; [lia|]. split; [exact Ha|]. rewrite Z.pow_1_r. unfold A, frm.
    symmetry. apply Z.mod_mod. change (km KpZ) with c_p. pose proof c_p_pos. lia. }
  assert (R1 : rel KpZ Rinv_p A (Some 0) (knegm KpZ)).
  { cbn [rel]. split; [lia|]. split; [vm_compute; split; [discriminate|reflexivity]|].
    rewrite (frm_one KpZ KpZ_ok Rinv_p Rinv_p_ok c_p_pos). rewrite Z.pow_0_r.
    symmetry. apply Z.mod_small. pose proof c_p_pos. change (km KpZ) with c_p. lia. }
  assert (H0 : Forall2 (rel KpZ Rinv_p A) [Some 1; Some 0] [a; knegm KpZ])
    by (constructor; [exact R0|]; constructor; [exact R1|]; constructor).
  pose proof (run_rel KpZ KpZ_ok Rinv_p Rinv_p_ok A (exp_prog (bits_msb 256 c_sqrt_exp)) _ _ H0) as H.
  pose proof (rel_get KpZ Rinv_p A _ _ 1%nat H) as G.
  rewrite sqrt_exponent in G. cbn [rel] in G. destruct G as (_ & B & _). exact B.
Qed.

(* what the exponentiation of the square root computes *)
Lemma sqrt_exp_val : forall a, okp a ->
  decp (vmont_exp ZOps Z.ltb KpZ a c_sqrt_exp) = (decp a) ^ ((c_p + 1) / 4) mod c_p.
Proof.
  intros a Ha. unfold vmont_exp.
  set (A := frm KpZ Rinv_p a).
  assert (R0 : rel KpZ Rinv_p A (Some 1) a).
  { cbn [rel]. split; [lia|]. split; [exact Ha|]. rewrite Z.pow_1_r. unfold A, frm.
    symmetry. apply Z.mod_mod. change (km KpZ) with c_p. pose proof c_p_pos. lia. }
  assert (R1 : rel KpZ Rinv_p A (Some 0) (knegm KpZ)).
  { cbn [rel]. split; [lia|]. split; [vm_compute; split; [discriminate|reflexivity]|].
    rewrite (frm_one KpZ KpZ_ok Rinv_p Rinv_p_ok c_p_pos). rewrite Z.pow_0_r.
    symmetry. apply Z.mod_small. pose proof c_p_pos. change (km KpZ) with c_p. lia. }
  assert (H0 : Forall2 (rel KpZ Rinv_p A) [Some 1; Some 0] [a; knegm KpZ])
    by (constructor; [exact R0|]; constructor; [exact R1|]; constructor).
  pose proof (run_rel KpZ KpZ_ok Rinv_p Rinv_p_ok A (exp_prog (bits_msb 256 c_sqrt_exp)) _ _ H0) as H.
  pose proof (rel_get KpZ Rinv_p A _ _ 1%nat H) as G.
  rewrite sqrt_exponent in G. cbn [rel] in G. destruct G as (_ & _ & Fv). exact Fv.
Qed.

Opaque vmont_mul vmont_sqr vmod_add vmod_sub vmod_neg vmont_exp vto_mont vfrom_mont c_mont_three c_mont_b.

(* the right-hand side of the curve equation as the code computes it *)
Lemma ysq_spec : forall x, 0 <= x < c_p ->
  let xm := vto_mont ZOps Z.ltb KpZ x in
  let ysq := vmod_add ZOps Z.ltb KpZ (vmont_mul ZOps Z.ltb KpZ
               (vmod_sub ZOps Z.ltb KpZ (vmont_sqr ZOps Z.ltb KpZ xm) (nofZ ZOps c_mont_three)) xm) (nofZ ZOps c_mont_b) in
  okp ysq /\ eqm c_p (decp ysq) (x * x * x + sm2_a * x + sm2_b).
Proof.
  intros x Hx xm ysq. unfold ysq. change (nofZ ZOps c_mont_three) with c_mont_three.
  change (nofZ ZOps c_mont_b) with c_mont_b.
  destruct (to_from_mont_p x Hx) as (Dx & Ox & _). fold xm in Dx, Ox.
  change (decp xm = x) in Dx. change (okp xm) in Ox.
  destruct (Lsqr xm Ox) as [O1 E1].
  destruct (Lsub _ c_mont_three O1 okp_mont_three) as [O2 E2].
  destruct (Lmul _ xm O2 Ox) as [O3 E3].
  destruct (Ladd _ c_mont_b O3 okp_mont_b) as [O4 E4].
  split; [exact O4|].
  rewrite E4, E3, E2, E1, decp_mont_b, decp_mont_three, Dx.
  assert (A3 : eqm c_p sm2_a (-3)) by (vm_compute; reflexivity). rewrite A3.
  unfold eqm; f_equal; ring.
Qed.

(* a root returned by sm2_z256_modp_mont_sqrt is a root *)
Lemma sqrt_sound : forall a r, okp a -> vmodp_mont_sqrt ZOps Z.ltb KpZ a = Some r ->
  okp r /\ eqm c_p (decp r * decp r) (decp a).
Proof.
  intros a r Ha. unfold vmodp_mont_sqrt.
  pose proof (sqrt_exp_ok a Ha) as Or.
  remember (vmont_exp ZOps Z.ltb KpZ a c_sqrt_exp) as ym eqn:Eym. clear Eym.
  cbn [neqb ZOps].
  destruct (Z.eqb_spec (vmont_sqr ZOps Z.ltb KpZ ym) a) as [E|N]; intro H; inversion H; subst r.
  split; [exact Or|].
  destruct (Lsqr ym Or) as [_ E5]. rewrite E in E5. symmetry. exact E5.
Qed.

(* sm2_z256_point_from_x_bytes succeeds only with x < p and a point on the curve *)
Theorem from_x_bytes_sound : forall Pin x odd P, 0 <= x ->
  point_from_x_bytes ZOps Z.ltb KpZ Pin x odd = (1, P) ->
  x < c_p /\ exists Y, okp Y /\ P = (vto_mont ZOps Z.ltb KpZ x, Y, knegm KpZ) /\
    (decp Y * decp Y) mod c_p = (x * x * x + sm2_a * x + sm2_b) mod c_p.
Proof.
  intros [[X0 Y0] Zc0] x odd P Hx. unfold point_from_x_bytes.
  change (km KpZ) with c_p.
  destruct (Z.ltb_spec x c_p) as [Lx|Gx]; cbn [negb]; [|intro H; inversion H].
  destruct (ysq_spec x ltac:(lia)) as (O4 & EY). cbv zeta in O4, EY.
  match goal with |- context [vmodp_mont_sqrt ZOps Z.ltb KpZ ?a] =>
    destruct (vmodp_mont_sqrt ZOps Z.ltb KpZ a) as [ym|] eqn:ES end; [|intro H; inversion H].
  destruct (sqrt_sound _ _ O4 ES) as (Oym & E5).
  destruct (Lneg ym Oym) as [O6 E6].
  intro H. split; [exact Lx|].
  assert (Sq : forall Y, Y = ym \/ Y = vmod_neg ZOps Z.ltb KpZ ym ->
            okp Y /\ (decp Y * decp Y) mod c_p = (x * x * x + sm2_a * x + sm2_b) mod c_p).
  { intros Y [->| ->]; (split; [assumption|]).
    - change (eqm c_p (decp ym * decp ym) (x * x * x + sm2_a * x + sm2_b)). rewrite E5. exact EY.
    - change (eqm c_p (decp (vmod_neg ZOps Z.ltb KpZ ym) * decp (vmod_neg ZOps Z.ltb KpZ ym)) (x * x * x + sm2_a * x + sm2_b)).
      rewrite E6. transitivity (decp ym * decp ym); [unfold eqm; f_equal; ring|]. rewrite E5. exact EY. }
  destruct odd; destruct (is_odd ZOps KpZ (vfrom_mont ZOps Z.ltb KpZ ym)); cbn [negb] in H;
    inversion H; subst; eexists; (split; [|split; [reflexivity|]]); apply Sq; auto.
Qed.

(* ---------------- compress / decompress round trip ---------------- *)
Section RT.
  (* premises: p is prime (used for: no zero divisors) and Fermat's little theorem holds for p
     (a consequence of primality that is not in the standard library); p = 3 (mod 4) is a
     computed fact (C13_constants) *)
  Hypothesis p_prime : prime c_p.
  Hypothesis fermat : forall x, 0 < x < c_p -> x ^ (c_p - 1) mod c_p = 1.

  Lemma no_zero_div : forall a b, (a * b) mod c_p = 0 -> a mod c_p = 0 \/ b mod c_p = 0.
  Proof.
    intros a b H. pose proof c_p_pos.
    apply Z.mod_divide in H; [|lia].
    destruct (prime_mult c_p p_prime a b H) as [D|D]; [left|right]; apply Z.mod_divide; auto; lia.
  Qed.

  (* square roots are unique up to sign *)
  Lemma sqrt_unique : forall u v, 0 <= u < c_p -> 0 <= v < c_p ->
    (u * u) mod c_p = (v * v) mod c_p -> u = v \/ (u + v) mod c_p = 0.
  Proof.
    intros u v Hu Hv E. pose proof c_p_pos.
    assert (Z0 : ((u - v) * (u + v)) mod c_p = 0).
    { replace ((u - v) * (u + v)) with (u * u - v * v) by ring.
      rewrite Zminus_mod, E, Z.sub_diag. apply Z.mod_0_l. lia. }
    destruct (no_zero_div _ _ Z0) as [D|D]; [left|right; exact D].
    destruct (Z.le_gt_cases v u).
    - rewrite Z.mod_small in D by lia. lia.
    - replace (u - v) with (-(v - u)) in D by ring.
      destruct (Z.eq_dec (v - u) 0); [lia|].
      rewrite Z.mod_opp_l_nz in D by (rewrite ?Z.mod_small; lia). rewrite Z.mod_small in D by lia. lia.
  Qed.

  (* the library's square root succeeds on squares *)
  Lemma sqrt_complete : forall a y, okp a -> 0 <= y < c_p -> decp a = (y * y) mod c_p ->
    exists r, vmodp_mont_sqrt ZOps Z.ltb KpZ a = Some r /\ okp r /\
              (decp r = y \/ (decp r + y) mod c_p = 0).
  Proof.
    intros a y Ha Hy Ea. pose proof c_p_pos as Hp.
    unfold vmodp_mont_sqrt.
    pose proof (sqrt_exp_ok a Ha) as Or. pose proof (sqrt_exp_val a Ha) as Vr.
    remember (vmont_exp ZOps Z.ltb KpZ a c_sqrt_exp) as r eqn:Er. clear Er.
    destruct (Lsqr r Or) as [Os Es].
    (* decp (r^2) = A^((p+1)/2) = A * y^(p-1) = A *)
    assert (Esq : decp (vmont_sqr ZOps Z.ltb KpZ r) = decp a).
    { assert (Q : eqm c_p (decp (vmont_sqr ZOps Z.ltb KpZ r)) (decp a)).
      { rewrite Es, Vr. rewrite Zmod_eqm.
        rewrite <- Z.pow_add_r by (vm_compute; discriminate).
        replace ((c_p + 1) / 4 + (c_p + 1) / 4) with (1 + (c_p - 1) / 2) by (vm_compute; reflexivity).
        rewrite Z.pow_add_r by (try lia; vm_compute; discriminate). rewrite Z.pow_1_r.
        assert (PW : eqm c_p (decp a ^ ((c_p - 1) / 2)) ((y * y) ^ ((c_p - 1) / 2))).
        { unfold eqm. rewrite Ea. symmetry. apply Zpower_mod. lia. }
        rewrite PW.
        destruct (Z.eq_dec y 0) as [->|Ny].
        - rewrite Ea. rewrite Zmod_eqm. unfold eqm; f_equal.
        - assert (F1 : eqm c_p ((y * y) ^ ((c_p - 1) / 2)) 1).
          { rewrite <- Z.pow_2_r. rewrite <- Z.pow_mul_r by (try lia; vm_compute; discriminate).
            replace (2 * ((c_p - 1) / 2)) with (c_p - 1) by (vm_compute; reflexivity).
            unfold eqm. rewrite fermat by lia. symmetry. apply Z.mod_small. lia. }
          rewrite F1. unfold eqm; f_equal; ring. }
      unfold eqm in Q. pose proof (decp_range (vmont_sqr ZOps Z.ltb KpZ r)). pose proof (decp_range a).
      rewrite !Z.mod_small in Q by lia. exact Q. }
    assert (Eq : vmont_sqr ZOps Z.ltb KpZ r = a) by (apply decp_inj; auto).
    cbn [neqb ZOps]. rewrite Eq, Z.eqb_refl. exists r. split; [reflexivity|]. split; [exact Or|].
    apply sqrt_unique; [apply decp_range | exact Hy |].
    pose proof (decp_range a). change (eqm c_p (decp r * decp r) (y * y)).
    rewrite <- Es. rewrite Eq. unfold eqm. rewrite Ea. apply Z.mod_mod. lia.
  Qed.

  Lemma is_odd_Z : forall a, is_odd ZOps KpZ a = (a mod 2 =? 1).
  Proof. reflexivity. Qed.
  Lemma from_to_mont : forall x, 0 <= x < c_p -> vfrom_mont ZOps Z.ltb KpZ (vto_mont ZOps Z.ltb KpZ x) = x.
  Proof.
    intros x Hx. destruct (to_from_mont_p x Hx) as (D & O & _).
    destruct (to_from_mont_p _ O) as (_ & _ & Fm). rewrite Fm. exact D.
  Qed.
  Lemma from_mont_decp : forall r, okp r -> vfrom_mont ZOps Z.ltb KpZ r = decp r.
  Proof. intros r Hr. destruct (to_from_mont_p r Hr) as (_ & _ & Fm). exact Fm. Qed.
  Lemma to_mont_inj : forall r y, okp r -> 0 <= y < c_p -> decp r = y -> r = vto_mont ZOps Z.ltb KpZ y.
  Proof.
    intros r y Hr Hy E. destruct (to_from_mont_p y Hy) as (D & O & _).
    apply decp_inj; auto. rewrite E. symmetry. exact D.
  Qed.

  (* compressing a valid (normalised) point and decompressing the result gives the same point *)
  Theorem compress_decompress_partial : forall Pin x y, 0 <= x < c_p -> 0 <= y < c_p ->
    (y * y) mod c_p = (x * x * x + sm2_a * x + sm2_b) mod c_p ->
    let P := (vto_mont ZOps Z.ltb KpZ x, vto_mont ZOps Z.ltb KpZ y, knegm KpZ) in
    let prefix := if y mod 2 =? 1 then 3 else 2 in
    point_to_compressed ZOps Z.ltb KpZ P = Some (prefix, x) /\
    point_from_octets ZOps Z.ltb KpZ Pin 33 prefix x 0 = Some (1, P).
  Proof.
    intros Pin x y Hx Hy Hc P prefix. pose proof c_p_pos as Hp. split.
    - unfold point_to_compressed, point_get_xy, point_is_at_infinity, iszero, P.
      cbn [modp_fops f_eqb f_zero f_one f_from_mont neqb ZOps].
      replace (knegm KpZ =? k0 KpZ) with false by reflexivity.
      rewrite Z.eqb_refl. cbn [Z.eqb Pos.eqb negb].
      rewrite !from_to_mont by assumption. rewrite is_odd_Z. reflexivity.
    - apply from_octets_complete. right.
      assert (Epre : (prefix =? 3) = (y mod 2 =? 1)) by (unfold prefix; destruct (y mod 2 =? 1); reflexivity).
      split; [unfold prefix; destruct (y mod 2 =? 1); auto|]. split; [reflexivity|]. rewrite Epre.
      destruct Pin as [[X0 Y0] Zc0]. unfold point_from_x_bytes. change (km KpZ) with c_p.
      replace (x <? c_p) with true by (symmetry; apply Z.ltb_lt; lia). cbn [negb].
      destruct (ysq_spec x Hx) as (O4 & EY). cbv zeta in O4, EY.
      match goal with |- context [vmodp_mont_sqrt ZOps Z.ltb KpZ ?a] => set (ysq := a) in * end.
      assert (Ea : decp ysq = (y * y) mod c_p).
      { pose proof (decp_range ysq). unfold eqm in EY. rewrite Z.mod_small in EY by lia. rewrite EY. symmetry. exact Hc. }
      destruct (sqrt_complete ysq y O4 Hy Ea) as (r & Es & Or & Cases). rewrite Es.
      rewrite (from_mont_decp r Or). rewrite !is_odd_Z.
      destruct (Lneg r Or) as [On En].
      assert (Dr := decp_range r).
      destruct (Z.eq_dec (decp r) y) as [Eq|Neq].
      + (* the root found is y itself: no negation *)
        rewrite Eq. replace (if y mod 2 =? 1 then if negb (y mod 2 =? 1) then vmod_neg ZOps Z.ltb KpZ r else r
                             else if y mod 2 =? 1 then vmod_neg ZOps Z.ltb KpZ r else r) with r
          by (destruct (y mod 2 =? 1); reflexivity).
        unfold P. rewrite <- (to_mont_inj r y Or Hy Eq). reflexivity.
      + (* the root found is p - y: opposite parity, the code negates *)
        destruct Cases as [C|C]; [contradiction|].
        assert (Ey : decp r = c_p - y /\ 0 < y).
        { destruct (Z.eq_dec y 0) as [->|Ny].
          - rewrite Z.add_0_r, Z.mod_small in C by lia. lia.
          - assert ((decp r + y) = c_p); [|lia].
            destruct (Z.lt_ge_cases (decp r + y) c_p) as [L|G]; [rewrite Z.mod_small in C by lia; lia|].
            rewrite (mod_sub_once (decp r + y) c_p) in C by lia. lia. }
        destruct Ey as [Ey Ypos].
        assert (Par : (decp r mod 2 =? 1) = negb (y mod 2 =? 1)).
        { rewrite Ey. assert (Po : c_p mod 2 = 1) by reflexivity.
          rewrite Zminus_mod, Po.
          pose proof (Z.mod_pos_bound y 2 ltac:(lia)).
          assert (y mod 2 = 0 \/ y mod 2 = 1) as [E0|E1] by lia; [rewrite E0 | rewrite E1]; reflexivity. }
        rewrite Par.
        replace (if y mod 2 =? 1 then if negb (negb (y mod 2 =? 1)) then vmod_neg ZOps Z.ltb KpZ r else r
                 else if negb (y mod 2 =? 1) then vmod_neg ZOps Z.ltb KpZ r else r) with (vmod_neg ZOps Z.ltb KpZ r)
          by (destruct (y mod 2 =? 1); reflexivity).
        assert (Dn : decp (vmod_neg ZOps Z.ltb KpZ r) = y).
        { pose proof (decp_range (vmod_neg ZOps Z.ltb KpZ r)). unfold eqm in En.
          rewrite Z.mod_small in En by lia. rewrite En, Ey.
          replace (- (c_p - y)) with (y + (-1) * c_p) by ring. rewrite Z.mod_add by lia. apply Z.mod_small. lia. }
        unfold P. rewrite <- (to_mont_inj _ y On Hy Dn). reflexivity.
  Qed.
End RT.

(* ---------------- sm2_z256_point_equ (the comparison sm2_private_key_from_der uses between
   the recomputed public key [d]G and the one embedded in the container) ---------------- *)
Theorem point_equ_sound : forall X1 Y1 Z1 X2 Y2 Z2,
  okp X1 -> okp Y1 -> okp Z1 -> okp X2 -> okp Y2 -> okp Z2 ->
  point_equ Z FpZ (X1, Y1, Z1) (X2, Y2, Z2) = true ->
  eqm c_p (decp X1 * (decp Z2 * decp Z2)) (decp X2 * (decp Z1 * decp Z1)) /\
  eqm c_p (decp Y1 * (decp Z2 * decp Z2 * decp Z2)) (decp Y2 * (decp Z1 * decp Z1 * decp Z1)).
Proof.
  intros X1 Y1 Z1 X2 Y2 Z2 OX1 OY1 OZ1 OX2 OY2 OZ2. unfold point_equ.
  cbn [FpZ modp_fops f_mul f_sqr f_eqb neqb ZOps].
  destruct (Lsqr Z1 OZ1) as [O1 E1]. destruct (Lsqr Z2 OZ2) as [O2 E2].
  destruct (Lmul X1 _ OX1 O2) as [O3 E3]. destruct (Lmul X2 _ OX2 O1) as [O4 E4].
  destruct (Lmul _ Z1 O1 OZ1) as [O5 E5]. destruct (Lmul _ Z2 O2 OZ2) as [O6 E6].
  destruct (Lmul Y1 _ OY1 O6) as [O7 E7]. destruct (Lmul Y2 _ OY2 O5) as [O8 E8].
  destruct (Z.eqb_spec (vmont_mul ZOps Z.ltb KpZ X1 (vmont_sqr ZOps Z.ltb KpZ Z2))
                       (vmont_mul ZOps Z.ltb KpZ X2 (vmont_sqr ZOps Z.ltb KpZ Z1))) as [EV|NV]; cbn [negb]; [|discriminate].
  intro HV. apply Z.eqb_eq in HV. split.
  - rewrite <- E2, <- E3, <- E1, <- E4, EV. reflexivity.
  - transitivity (decp Y1 * (decp (vmont_sqr ZOps Z.ltb KpZ Z2) * decp Z2)); [rewrite E2; unfold eqm; f_equal; ring|].
    rewrite <- E6, <- E7, HV, E8, E5, E1. unfold eqm; f_equal; ring.
Qed.

(* accepted => equal public keys: P represents (x1, y1) with an invertible Z, Q is the normalised
   point (x2, y2) decoded from the container; invertibility of Z follows from primality and
   Z <> 0 and is an explicit premise *)
Theorem mismatched_pub_rejected_partial : forall X1 Y1 Z1 x1 y1 x2 y2 zi,
  jrepr c_p Z okp decp (X1, Y1, Z1) x1 y1 ->
  0 <= x2 < c_p -> 0 <= y2 < c_p ->
  eqm c_p (decp Z1 * zi) 1 ->
  point_equ Z FpZ (X1, Y1, Z1) (vto_mont ZOps Z.ltb KpZ x2, vto_mont ZOps Z.ltb KpZ y2, knegm KpZ) = true ->
  x1 mod c_p = x2 /\ y1 mod c_p = y2.
Proof.
  intros X1 Y1 Z1 x1 y1 x2 y2 zi (OX & OY & OZ & HX & HY) Hx2 Hy2 Hzi Heq.
  destruct (to_from_mont_p x2 Hx2) as (Dx & Ox & _). destruct (to_from_mont_p y2 Hy2) as (Dy & Oy & _).
  change (decp (vto_mont ZOps Z.ltb KpZ x2) = x2) in Dx. change (decp (vto_mont ZOps Z.ltb KpZ y2) = y2) in Dy.
  assert (O1 : okp (knegm KpZ)) by (vm_compute; split; [discriminate|reflexivity]).
  assert (D1 : decp (knegm KpZ) = 1) by (vm_compute; reflexivity).
  destruct (point_equ_sound _ _ _ _ _ _ OX OY OZ Ox Oy O1 Heq) as (EX & EY).
  rewrite Dx, D1 in EX. rewrite Dy, D1 in EY. pose proof c_p_pos.
  split.
  - assert (E : eqm c_p x1 x2).
    { transitivity (x1 * ((decp Z1 * zi) * (decp Z1 * zi))); [rewrite Hzi; unfold eqm; f_equal; ring|].
      transitivity ((x1 * (decp Z1 * decp Z1)) * (zi * zi)); [unfold eqm; f_equal; ring|].
      rewrite <- HX. transitivity ((decp X1 * (1 * 1)) * (zi * zi)); [unfold eqm; f_equal; ring|].
      rewrite EX. transitivity (x2 * ((decp Z1 * zi) * (decp Z1 * zi))); [unfold eqm; f_equal; ring|].
      rewrite Hzi. unfold eqm; f_equal; ring. }
    unfold eqm in E. rewrite E. apply Z.mod_small. lia.
  - assert (E : eqm c_p y1 y2).
    { transitivity (y1 * ((decp Z1 * zi) * (decp Z1 * zi) * (decp Z1 * zi))); [rewrite Hzi; unfold eqm; f_equal; ring|].
      transitivity ((y1 * (decp Z1 * decp Z1 * decp Z1)) * (zi * zi * zi)); [unfold eqm; f_equal; ring|].
      rewrite <- HY. transitivity ((decp Y1 * (1 * 1 * 1)) * (zi * zi * zi)); [unfold eqm; f_equal; ring|].
      rewrite EY. transitivity (y2 * ((decp Z1 * zi) * (decp Z1 * zi) * (decp Z1 * zi))); [unfold eqm; f_equal; ring|].
      rewrite Hzi. unfold eqm; f_equal; ring. }
    unfold eqm in E. rewrite E. apply Z.mod_small. lia.
Qed.

(* ---------------- sm2_z256_rand_range / sm2_key_generate (control flow) ---------------- *)
Theorem rand_range_spec : forall tries range draws r0 ret r rest,
  rand_range_loop ZOps Z.ltb tries range draws r0 = (ret, r, rest) ->
  (ret = 1 /\ r < range /\ In (Some r) draws) \/ (ret = 0) \/ (ret = -1).
Proof.
  induction tries as [|t IH]; intros range draws r0 ret r rest H; cbn [rand_range_loop] in H.
  - inversion H; subst. right; left; reflexivity.
  - destruct draws as [|[v|] ds].
    + inversion H; subst. right; right; reflexivity.
    + destruct (Z.ltb_spec v range) as [L|G]; cbn [negb] in H.
      * inversion H; subst. left. split; [reflexivity|]. split; [exact L | left; reflexivity].
      * destruct (IH _ _ _ _ _ _ H) as [(E & L & I)|O]; [left; split; [exact E|]; split; [exact L | right; exact I] | right; exact O].
    + inversion H; subst. right; right; reflexivity.
Qed.
(* a value is returned only if it is below the range; at most [tries] draws are consumed *)
Theorem rand_range_draws : forall tries range draws r0 ret r rest,
  rand_range_loop ZOps Z.ltb tries range draws r0 = (ret, r, rest) ->
  (length draws <= length rest + tries)%nat.
Proof.
  induction tries as [|t IH]; intros range draws r0 ret r rest H; cbn [rand_range_loop] in H.
  - inversion H; subst. lia.
  - destruct draws as [|[v|] ds]; try (inversion H; subst; cbn [length]; lia).
    destruct (Z.ltb v range); cbn [negb] in H.
    + inversion H; subst. cbn [length]. lia.
    + apply IH in H. cbn [length]. lia.
Qed.

(* sm2_key_generate returns only scalars in [1, n-2] *)
Theorem key_generate_range : forall fuel draws d0 d,
  key_generate_loop ZOps Z.ltb KpZ fuel (c_n - 1) draws d0 = (1, d) ->
  (forall v, In (Some v) draws -> 0 <= v) ->
  1 <= d <= c_n - 2.
Proof.
  induction fuel as [|f IH]; intros draws d0 d H Hpos; cbn [key_generate_loop] in H; [discriminate|].
  unfold rand_range in H.
  destruct (rand_range_loop ZOps Z.ltb 100 (c_n - 1) draws d0) as [[ret r] rest] eqn:ER.
  destruct (Z.eqb_spec ret 1) as [->|N]; cbn [negb] in H; [|discriminate].
  destruct (rand_range_spec _ _ _ _ _ _ _ ER) as [(_ & L & I)|[E|E]]; try discriminate.
  unfold is0 in H. cbn [neqb ZOps k0 KpZ mk_consts nofZ] in H.
  destruct (Z.eqb_spec r 0) as [Z0|NZ].
  - apply (IH rest r d H). intros v Hv.
    (* rest is a suffix of draws *)
    assert (Suf : forall tries range draws r0 ret r rest, rand_range_loop ZOps Z.ltb tries range draws r0 = (ret, r, rest) ->
                  forall x, In x rest -> In x draws).
    { clear. induction tries as [|t IHt]; intros range draws r0 ret r rest H x Hx; cbn [rand_range_loop] in H.
      - inversion H; subst. exact Hx.
      - destruct draws as [|[v|] ds]; try (inversion H; subst; try right; auto; fail).
        destruct (Z.ltb v range); cbn [negb] in H.
        + inversion H; subst. right. exact Hx.
        + right. eapply IHt; eauto. }
    apply Hpos. eapply Suf; eauto.
  - inversion H; subst. pose proof (Hpos _ I). lia.
Qed.

(* sm2_z256_point_set_xy returns 1 exactly on the points of the curve with reduced coordinates *)
Theorem set_xy_ok_iff : forall Pin x y, 0 <= x -> 0 <= y ->
  fst (point_set_xy ZOps Z.ltb KpZ Pin x y) = 1 <->
  x < c_p /\ y < c_p /\ (y * y) mod c_p = (x * x * x + sm2_a * x + sm2_b) mod c_p.
Proof.
  intros Pin x y Hx Hy. unfold point_set_xy. change (km KpZ) with c_p.
  destruct (Z.ltb_spec x c_p); cbn [negb fst]; [|split; [discriminate | lia]].
  destruct (Z.ltb_spec y c_p); cbn [negb fst]; [|split; [discriminate | lia]].
  pose proof (on_curve_iff x y ltac:(lia) ltac:(lia)) as OC.
  match goal with |- context [if ?c then _ else _] =>
    change c with (point_is_on_curve Z FpZ (vto_mont ZOps Z.ltb KpZ x, vto_mont ZOps Z.ltb KpZ y, knegm KpZ)) end.
  destruct (point_is_on_curve Z FpZ (vto_mont ZOps Z.ltb KpZ x, vto_mont ZOps Z.ltb KpZ y, knegm KpZ)); cbn [fst]; split; intro H1.
  - split; [lia|]. split; [lia|]. apply OC. reflexivity.
  - reflexivity.
  - discriminate H1.
  - destruct H1 as (_ & _ & E). apply OC in E. discriminate E.
Qed.

Lemma from_to_mont' : forall x, 0 <= x < c_p -> vfrom_mont ZOps Z.ltb KpZ (vto_mont ZOps Z.ltb KpZ x) = x.
Proof.
  intros x Hx. destruct (to_from_mont_p x Hx) as (D & O & _).
  destruct (to_from_mont_p _ O) as (_ & _ & Fm). rewrite Fm. exact D.
Qed.
(* on a normalised point get_xy / to_bytes / to_uncompressed_octets return the coordinates *)
Theorem get_xy_normalised : forall x y, 0 <= x < c_p -> 0 <= y < c_p ->
  point_get_xy Z FpZ (vto_mont ZOps Z.ltb KpZ x, vto_mont ZOps Z.ltb KpZ y, knegm KpZ) = (1, x, y) /\
  point_to_uncompressed ZOps Z.ltb KpZ (vto_mont ZOps Z.ltb KpZ x, vto_mont ZOps Z.ltb KpZ y, knegm KpZ) = Some (x, y).
Proof.
  intros x y Hx Hy.
  assert (G : point_get_xy Z FpZ (vto_mont ZOps Z.ltb KpZ x, vto_mont ZOps Z.ltb KpZ y, knegm KpZ) = (1, x, y)).
  { unfold point_get_xy, point_is_at_infinity, iszero.
    cbn [FpZ modp_fops f_eqb f_zero f_one f_from_mont neqb ZOps].
    replace (knegm KpZ =? k0 KpZ) with false by reflexivity. rewrite Z.eqb_refl.
    rewrite !from_to_mont' by assumption. reflexivity. }
  split; [exact G|].
  unfold point_to_uncompressed, point_get_xy, point_is_at_infinity, iszero.
  cbn [modp_fops f_eqb f_zero f_one f_from_mont neqb ZOps].
  replace (knegm KpZ =? k0 KpZ) with false by reflexivity. rewrite Z.eqb_refl.
  rewrite !from_to_mont' by assumption. reflexivity.
Qed.
