From Coq Require Import ZArith List.
From GmVerif Require Import Ec.Num Ec.CurveSpec.
(* sanity pins of the Spec: G is on the curve, [n]G = infinity, [n-1]G = -G,
   and the GB/T 32918.2 appendix key pair (d, [d]G). *)
Example G_on_curve : sm2_on_curve BigOps (SG BigOps) = true.
Proof. vm_compute. reflexivity. Qed.
Example nG_is_infinity : point_toZ BigOps (sm2_mulG BigOps sm2_n) = None.
Proof. vm_compute. reflexivity. Qed.
Example n1G_is_negG :
  point_toZ BigOps (sm2_mulG BigOps (sm2_n - 1)) = point_toZ BigOps (sm2_neg BigOps (SG BigOps)).
Proof. vm_compute. reflexivity. Qed.
Example std_keypair :
  point_toZ BigOps (sm2_mulG BigOps 0x3945208F7B2144B13F36E38AC6D39F95889393692860B51A42FB81EF4DF7C5B8)
  = Some (0x09F9DF311E5421A150DD7D161E4BC5C672179FAD1833FC076BB08FF356F35020,
          0xCCEA490CE26775A52DC6EA718CC1AA600AED05FBF35E084A6632F6072DA9AD13)%Z.
Proof. vm_compute. reflexivity. Qed.
