(* C12 — Impl models of the point / key import and export functions of src/sm2_z256.c and
   src/sm2_key.c (value level; coordinates inside a point are Montgomery residues):
   sm2_z256_point_from_bytes, _set_xy, _from_x_bytes, _from_octets, _to_uncompressed_octets,
   _to_compressed_octets, sm2_key_set_private_key, and the public-key comparison of
   sm2_private_key_from_der.  A C function that writes part of *P before failing is modelled
   with the previous contents of *P as an input, because sm2_z256_point_from_octets goes on to
   use *P after ignoring the failure. *)
From Coq Require Import ZArith List Bool.
From Bignums Require Import BigZ.
From GmVerif Require Import Ec.Num Ec.Mont Ec.Jacobian Ec.ScalarMul.
Import ListNotations.
Local Open Scope Z_scope.

Section P.
  Variable O : numops.
  Variable ltb : T O -> T O -> bool.
  Variable K : mconsts O.                 (* constants of the field p *)
  Variable Kn : mconsts O.                (* constants of the order n (only km is used) *)
  Notation T := (T O).
  Notation fo := (modp_fops O ltb K).
  Notation jpoint := (jpoint T).
  Notation geb a b := (negb (ltb a b)).   (* sm2_z256_cmp(a, b) >= 0 *)

  (* sm2_z256_point_from_bytes(P, in): x, y are the two 32-byte big-endian numbers.
     returns (ret, *P afterwards) *)
  Definition point_from_bytes (Pin : jpoint) (x y : T) : Z * jpoint :=
    let '(X0, Y0, Zc0) := Pin in
    if geb x (km K) then (-1, (x, Y0, Zc0)) else
    if geb y (km K) then (-1, (x, y, Zc0)) else
    if is0 O K x && is0 O K y then (0, point_infinity T fo) else
    let P := (vto_mont O ltb K x, vto_mont O ltb K y, knegm K) in
    if point_is_on_curve T fo P then (1, P) else (-1, P).

  (* sm2_z256_point_set_xy *)
  Definition point_set_xy (Pin : jpoint) (x y : T) : Z * jpoint :=
    if geb x (km K) then (-1, Pin) else
    if geb y (km K) then (-1, Pin) else
    let P := (vto_mont O ltb K x, vto_mont O ltb K y, knegm K) in
    if point_is_on_curve T fo P then (1, P) else (-1, P).

  Definition is_odd (a : T) : bool := neqb O (nmod O a (k2 K)) (k1 K).

  (* sm2_z256_point_from_x_bytes(P, x_bytes, y_is_odd) *)
  Definition point_from_x_bytes (Pin : jpoint) (x : T) (y_is_odd : bool) : Z * jpoint :=
    let '(X0, Y0, Zc0) := Pin in
    if geb x (km K) then (-1, Pin) else
    let xm := vto_mont O ltb K x in
    let y_sqr := vmont_sqr O ltb K xm in
    let y_sqr := vmod_sub O ltb K y_sqr (nofZ O c_mont_three) in
    let y_sqr := vmont_mul O ltb K y_sqr xm in
    let y_sqr := vmod_add O ltb K y_sqr (nofZ O c_mont_b) in
    match vmodp_mont_sqrt O ltb K y_sqr with
    | None => (0, (xm, Y0, Zc0))
    | Some ym =>
      let y := vfrom_mont O ltb K ym in
      let Y := if y_is_odd then (if negb (is_odd y) then vmod_neg O ltb K ym else ym)
               else (if is_odd y then vmod_neg O ltb K ym else ym) in
      (1, (xm, Y, knegm K))
    end.

  (* sm2_z256_point_from_octets before the repair of DESIGN section 5, defect 4 (kept for the
     refutation witnesses): [prefix] = in[0], x, y = the numbers after it.
     None models the read of in[0] when inlen = 0 (out of bounds). *)
  Definition point_from_octets_old (Pin : jpoint) (inlen : Z) (prefix : Z) (x y : T) : option (Z * jpoint) :=
    if inlen =? 0 then None else Some (
    if prefix =? 0 then (if negb (inlen =? 1) then (-1, Pin) else (1, point_infinity T fo))
    else if (prefix =? 2) || (prefix =? 3) then
      if negb (inlen =? 33) then (-1, Pin) else
      let '(r, P) := point_from_x_bytes Pin x (prefix =? 3) in
      if r =? 1 then (1, P) else (-1, P)
    else if prefix =? 4 then
      if negb (inlen =? 65) then (-1, Pin) else
      let '(_, P) := point_from_bytes Pin x y in          (* return value ignored *)
      if point_is_on_curve T fo P then (1, P) else (-1, P)
    else (-1, Pin)).

  (* sm2_z256_point_from_octets(P, in, inlen): inlen = 0 is refused before in[0] is read, 00 is
     refused, the status of from_bytes decides the uncompressed case *)
  Definition point_from_octets (Pin : jpoint) (inlen : Z) (prefix : Z) (x y : T) : option (Z * jpoint) :=
    Some (
    if inlen =? 0 then (-1, Pin)
    else if (prefix =? 2) || (prefix =? 3) then
      if negb (inlen =? 33) then (-1, Pin) else
      let '(r, P) := point_from_x_bytes Pin x (prefix =? 3) in
      if r =? 1 then (1, P) else (-1, P)
    else if prefix =? 4 then
      if negb (inlen =? 65) then (-1, Pin) else
      let '(r, P) := point_from_bytes Pin x y in
      if r =? 1 then (1, P) else (-1, P)
    else (-1, Pin)).

  (* sm2_z256_point_to_uncompressed_octets: None = -1; Some (x, y) = 04 || x || y *)
  Definition point_to_uncompressed (P : jpoint) : option (T * T) :=
    if point_is_at_infinity T fo P then None
    else let '(_, x, y) := point_get_xy T fo P in Some (x, y).

  (* sm2_z256_point_to_compressed_octets before the repair (wrote y where x belongs) *)
  Definition point_to_compressed_old (P : jpoint) : option (Z * T) :=
    let '(r, x, y) := point_get_xy T fo P in
    if negb (r =? 1) then None
    else Some ((if is_odd y then 3 else 2), y).
  (* sm2_z256_point_to_compressed_octets: Some (prefix, body) = (02 | parity of y, x) *)
  Definition point_to_compressed (P : jpoint) : option (Z * T) :=
    let '(r, x, y) := point_get_xy T fo P in
    if negb (r =? 1) then None
    else Some ((if is_odd y then 3 else 2), x).

  (* sm2_key_set_private_key: accepted iff 1 <= d <= n - 2 (compared with n - 1) *)
  Definition scalar_ok (d : T) : bool :=
    negb (is0 O K d) && ltb d (nsub O (km Kn) (k1 K)).
End P.

(* ---------------- scalar generation and hashing to a point ---------------- *)
Section Gen.
  Variable O : numops.
  Variable ltb : T O -> T O -> bool.
  Variable K : mconsts O.
  Notation T := (T O).

  (* sm2_z256_rand_range(r, range): [draws] = what successive rand_bytes((uint8_t * )r, 32) calls
     deliver, already read as the number r (memory is little-endian: r = sum byte_j 256^j);
     None = the entropy source fails.  At most 100 draws.  Returns (ret, r afterwards). *)
  Fixpoint rand_range_loop (tries : nat) (range : T) (draws : list (option T)) (r : T)
    : Z * T * list (option T) :=
    match tries with
    | Datatypes.O => (0, r, draws)                       (* if (!tries) return 0 *)
    | S t =>
      match draws with
      | [] => (-1, r, [])                                (* script exhausted: treated as failure *)
      | None :: rest => (-1, r, rest)
      | Some v :: rest =>
        if negb (ltb v range) then rand_range_loop t range rest v   (* cmp(r, range) >= 0: again *)
        else (1, v, rest)
      end
    end.
  Definition rand_range (range : T) (draws : list (option T)) (r0 : T) : Z * T * list (option T) :=
    rand_range_loop 100 range draws r0.

  (* sm2_key_generate: do { if (rand_range(d, n-1) != 1) return -1; } while (is_zero(d));
     [fuel] bounds the number of outer iterations the model follows *)
  Fixpoint key_generate_loop (fuel : nat) (nm1 : T) (draws : list (option T)) (d0 : T) : Z * T :=
    match fuel with
    | Datatypes.O => (-1, d0)
    | S f =>
      let '(ret, d, rest) := rand_range nm1 draws d0 in
      if negb (ret =? 1) then (-1, d)
      else if is0 O K d then key_generate_loop f nm1 rest d
      else (1, d)
    end.
End Gen.

(* little-endian value of a byte string (how rand_bytes((uint8_t * )r, 32) fills the limbs) *)
Fixpoint le_val (bs : list Z) : Z := match bs with [] => 0 | b :: r => b + 256 * le_val r end.
Fixpoint be_val_acc (bs : list Z) (acc : Z) : Z := match bs with [] => acc | b :: r => be_val_acc r (acc * 256 + b) end.
Definition be_val (bs : list Z) : Z := be_val_acc bs 0.

Section Hash.
  Variable O : numops.
  Variable ltb : T O -> T O -> bool.
  Variable K : mconsts O.
  Variable hash : list Z -> list Z.          (* SM3 on byte lists *)
  Notation T := (T O).
  (* sm2_z256_point_from_hash: x = sm3(data) (minus p once if >= p); try from_x_bytes; on "no such
     point" continue with data := digest.  None = fuel exhausted. *)
  Fixpoint point_from_hash (fuel : nat) (Pin : jpoint T) (data : list Z) (y_is_odd : bool)
    : option (Z * jpoint T) :=
    match fuel with
    | Datatypes.O => None
    | S f =>
      let dgst := hash data in
      let x0 := nofZ O (be_val dgst) in
      let x := if negb (ltb x0 (km K)) then fst (vsub O ltb K x0 (km K)) else x0 in
      let '(ret, P) := point_from_x_bytes O ltb K Pin x y_is_odd in
      if ret =? 1 then Some (1, P)
      else if ret <? 0 then Some (-1, P)
      else point_from_hash f P dgst y_is_odd
    end.
End Hash.
