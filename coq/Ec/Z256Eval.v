(* C13 — evaluation glue for the correspondence run (core.coq_eval): every h_* function
   computes, for one operation of props/C13/harness.c, the result line of
   (a) the limb-level Impl model (Z256.v, binary Z),
   (b) the value-level Impl model (Mont.v / Jacobian.v / ScalarMul.v over BigOps) and
   (c) the Spec (integer mathematics / CurveSpec over BigOps),
   and prints the common line, or MODEL-... when the layers disagree among themselves. *)
From Coq Require Import ZArith List Bool String Ascii.
From Bignums Require Import BigZ.
From GmVerif Require Import Base.HexStr Ec.Num Ec.CurveSpec Ec.Z256 Ec.Mont Ec.Jacobian Ec.Booth Ec.ScalarMul.
Import ListNotations.
Local Open Scope string_scope.
Local Open Scope Z_scope.

(* linear-time hex printing (Base.HexStr.Z_to_hex divides a binary Z per digit) *)
Fixpoint pos_bits (p : positive) : list bool :=
  match p with xH => [true] | xO q => false :: pos_bits q | xI q => true :: pos_bits q end.
Definition z_bits (x : Z) : list bool := match x with Zpos p => pos_bits p | _ => [] end.
Definition nib (b0 b1 b2 b3 : bool) : ascii :=
  hexdigit ((if b0 then 1 else 0) + (if b1 then 2 else 0) + (if b2 then 4 else 0) + (if b3 then 8 else 0)).
Fixpoint hex_acc (n : nat) (bits : list bool) (acc : string) : string :=
  match n with
  | O => acc
  | S k =>
    match bits with
    | b0 :: b1 :: b2 :: b3 :: r => hex_acc k r (String (nib b0 b1 b2 b3) acc)
    | _ => acc
    end
  end.
Definition fast_hex (w : nat) (x : Z) : string :=
  hex_acc w (z_bits x ++ repeat false (4 * w))%list EmptyString.
Definition hx (x : Z) : string := fast_hex 64%nat x.
Definition hx1 (x : Z) : string := fast_hex 1%nat x.
Definition hxl (l : list Z) : string := fast_hex (16 * List.length l)%nat (val l).
Definition hb (x : bigZ) : string := hx (BigZ.to_Z x).
Definition B (x : Z) : bigZ := BigZ.of_Z x.
Definition L (x : Z) : list Z :=
  [Z.land x ones64; Z.land (Z.shiftr x 64) ones64; Z.land (Z.shiftr x 128) ones64; Z.land (Z.shiftr x 192) ones64].
(* small signed decimal (|d| < 100) *)
Definition dec2 (d : Z) : string :=
  let a := Z.abs d in
  (if d <? 0 then "-" else "") ++
  (if a <? 10 then fast_hex 1%nat a else fast_hex 1%nat (a / 10) ++ fast_hex 1%nat (a mod 10)).
Definition sp (a b : string) : string := a ++ " " ++ b.
Fixpoint cat (l : list string) : string :=
  match l with [] => "" | [x] => x | x :: r => x ++ ";" ++ cat r end.
Fixpoint spl (l : list string) : string :=
  match l with [] => "" | [x] => x | x :: r => x ++ " " ++ spl r end.
Definition agree (tag : string) (l : list string) : string :=
  match l with
  | [] => "MODEL-EMPTY"
  | x :: r => if forallb (String.eqb x) r then x else "MODEL-LAYERS-DIFFER " ++ tag ++ " / " ++ spl (map (fun x => "[" ++ x ++ "]") l)
  end.

Definition R256 : Z := 2^256.
Definition bR : bigZ := Eval vm_compute in B (2^256).
Definition bp : bigZ := Eval vm_compute in B sm2_p.
Definition bn : bigZ := Eval vm_compute in B sm2_n.
Definition b0 : bigZ := Eval vm_compute in B 0.
Definition b1 : bigZ := Eval vm_compute in B 1.
Definition b2 : bigZ := Eval vm_compute in B 2.
Definition b3 : bigZ := Eval vm_compute in B 3.
Definition bmod (x m : bigZ) : bigZ := BigZ.modulo x m.
(* Spec-side modular helpers (independent of the Impl code: Euclid inverse, LSB-first power) *)
Definition binv (m x : bigZ) : bigZ := modinv BigOps m x.
Fixpoint bpow_pos (m a : bigZ) (e : positive) : bigZ :=
  match e with
  | xH => a
  | xO e' => let h := bpow_pos m a e' in bmod (BigZ.mul h h) m
  | xI e' => let h := bpow_pos m a e' in bmod (BigZ.mul (bmod (BigZ.mul h h) m) a) m
  end.
Definition bpow (m a : bigZ) (e : Z) : bigZ :=
  match e with Zpos q => bpow_pos m (bmod a m) q | _ => bmod b1 m end.
Definition Rinv_p : bigZ := Eval vm_compute in binv bp bR.
Definition Rinv_n : bigZ := Eval vm_compute in binv bn bR.
Definition s_tomont (m x : bigZ) : bigZ := bmod (BigZ.mul x bR) m.
Definition s_frommont (m rinv x : bigZ) : bigZ := bmod (BigZ.mul x rinv) m.
Notation ltB := BigZ.ltb.
Definition inr (m : bigZ) (x : Z) : bool := BigZ.ltb (B x) m && (0 <=? x).

(* ---------- plain 256-bit operations (limb level vs integers) ---------- *)
Definition h_add (a b : Z) : string :=
  let '(r, c) := z256_add (L a) (L b) in
  let '(r2, c2) := vadd BigOps KpB (B a) (B b) in
  let s := a + b in
  agree "add" [sp (hxl r) (hx1 c); sp (hb r2) (hx1 (BigZ.to_Z c2)); sp (hx (s mod R256)) (hx1 (s / R256))].
Definition h_sub (a b : Z) : string :=
  let '(r, c) := z256_sub (L a) (L b) in
  let '(r2, c2) := vsub BigOps ltB KpB (B a) (B b) in
  let s := a - b in
  agree "sub" [sp (hxl r) (hx1 c); sp (hb r2) (hx1 (BigZ.to_Z c2)); sp (hx (s mod R256)) (hx1 (if s <? 0 then 1 else 0))].
Definition h_mul (a b : Z) : string :=
  agree "mul" [hxl (z256_mul (L a) (L b)); fast_hex 128%nat (BigZ.to_Z (BigZ.mul (B a) (B b)))].
Definition h_cmp (a b : Z) : string :=
  agree "cmp" [dec2 (z256_cmp (L a) (L b)); dec2 (match a ?= b with Lt => -1 | Eq => 0 | Gt => 1 end)].
Definition h_equ (a b : Z) : string :=
  agree "equ" [hx1 (z256_equ (L a) (L b)); hx1 (if a =? b then 1 else 0)].
Definition h_iszero (a : Z) : string :=
  agree "iszero" [hx1 (z256_is_zero (L a)); hx1 (if a =? 0 then 1 else 0)].
Definition h_rshift (a n : Z) : string :=
  agree "rshift" [hxl (z256_rshift (L a) n); hx (a / 2^(n mod 64))].
Definition h_cc (d s mv : Z) : string :=
  agree "cc" [hxl (z256_copy_conditional (L d) (L s) mv); hx (if mv =? 1 then s else d)].
Definition h_booth (a w i : Z) : string :=
  agree "booth" [dec2 (z256_get_booth (L a) w i); dec2 (booth_v a w i)].
Definition h_bytes (a : Z) : string :=
  let bs := map Z.of_N (hex_to_bytes (hx a)) in
  let l := agree "bytes" [hxl (z256_from_bytes bs);
                 bytes_to_hex (map Z.to_N (z256_to_bytes (z256_from_bytes bs))); hx a] in
  spl [l; l; l].

(* ---------- modular add/sub/... : spec only claimed for operands below the modulus;
   outside the domain only the two Impl layers are compared ---------- *)
Definition mod3 (tag : string) (indom : bool) (limb : list Z) (v spec : bigZ) : string :=
  if indom then agree tag [hxl limb; hb v; hb spec] else agree tag [hxl limb; hb v].
Definition h_modp_add (a b : Z) := mod3 "modp_add" (inr bp a && inr bp b)
  (z256_modp_add (L a) (L b)) (vmod_add BigOps ltB KpB (B a) (B b)) (bmod (BigZ.add (B a) (B b)) bp).
Definition h_modp_sub (a b : Z) := mod3 "modp_sub" (inr bp a && inr bp b)
  (z256_modp_sub (L a) (L b)) (vmod_sub BigOps ltB KpB (B a) (B b)) (bmod (BigZ.sub (B a) (B b)) bp).
Definition h_modp_dbl (a : Z) := mod3 "modp_dbl" (inr bp a)
  (z256_modp_dbl (L a)) (vmod_dbl BigOps ltB KpB (B a)) (bmod (BigZ.mul b2 (B a)) bp).
Definition h_modp_tri (a : Z) := mod3 "modp_tri" (inr bp a)
  (z256_modp_tri (L a)) (vmod_tri BigOps ltB KpB (B a)) (bmod (BigZ.mul b3 (B a)) bp).
Definition h_modp_neg (a : Z) := mod3 "modp_neg" (inr bp a)
  (z256_modp_neg (L a)) (vmod_neg BigOps ltB KpB (B a)) (bmod (BigZ.opp (B a)) bp).
Definition h_modp_haf (a : Z) := mod3 "modp_haf" (inr bp a)
  (z256_modp_haf (L a)) (vmod_haf BigOps KpB (B a)) (bmod (BigZ.mul (B a) (binv bp b2)) bp).
Definition h_modn_add (a b : Z) := mod3 "modn_add" (inr bn a && inr bn b)
  (z256_modn_add (L a) (L b)) (vmod_add BigOps ltB KnB (B a) (B b)) (bmod (BigZ.add (B a) (B b)) bn).
Definition h_modn_sub (a b : Z) := mod3 "modn_sub" (inr bn a && inr bn b)
  (z256_modn_sub (L a) (L b)) (vmod_sub BigOps ltB KnB (B a) (B b)) (bmod (BigZ.sub (B a) (B b)) bn).
Definition h_modn_neg (a : Z) := mod3 "modn_neg" (inr bn a)
  (z256_modn_neg (L a)) (vmod_neg BigOps ltB KnB (B a)) (bmod (BigZ.opp (B a)) bn).

(* ---------- Montgomery layer ([lv] = also run the (slow, binary Z) limb level) ---------- *)
Definition mod3l (lv : bool) (tag : string) (indom : bool) (limb : unit -> list Z) (v spec : bigZ) : string :=
  if lv then mod3 tag indom (limb tt) v spec
  else if indom then agree tag [hb v; hb spec] else hb v.
Definition h_modp_mont_mul (lv : bool) (a b : Z) := mod3l lv "modp_mont_mul" (inr bp a && inr bp b)
  (fun _ => z256_modp_mont_mul (L a) (L b)) (vmont_mul BigOps ltB KpB (B a) (B b))
  (bmod (BigZ.mul (BigZ.mul (B a) (B b)) Rinv_p) bp).
Definition h_modp_mont_sqr (lv : bool) (a : Z) := mod3l lv "modp_mont_sqr" (inr bp a)
  (fun _ => z256_modp_mont_mul (L a) (L a)) (vmont_sqr BigOps ltB KpB (B a))
  (bmod (BigZ.mul (BigZ.mul (B a) (B a)) Rinv_p) bp).
Definition h_modp_to_mont (lv : bool) (a : Z) := mod3l lv "modp_to_mont" (inr bp a)
  (fun _ => z256_modp_to_mont (L a)) (vto_mont BigOps ltB KpB (B a)) (s_tomont bp (B a)).
Definition h_modp_from_mont (lv : bool) (a : Z) := mod3l lv "modp_from_mont" (inr bp a)
  (fun _ => z256_modp_from_mont (L a)) (vfrom_mont BigOps ltB KpB (B a)) (s_frommont bp Rinv_p (B a)).
Definition h_modn_mont_mul (lv : bool) (a b : Z) := mod3l lv "modn_mont_mul" (inr bn a && inr bn b)
  (fun _ => z256_modn_mont_mul (L a) (L b)) (vmont_mul BigOps ltB KnB (B a) (B b))
  (bmod (BigZ.mul (BigZ.mul (B a) (B b)) Rinv_n) bn).
Definition h_modn_mont_sqr (lv : bool) (a : Z) := mod3l lv "modn_mont_sqr" (inr bn a)
  (fun _ => z256_modn_mont_mul (L a) (L a)) (vmont_sqr BigOps ltB KnB (B a))
  (bmod (BigZ.mul (BigZ.mul (B a) (B a)) Rinv_n) bn).
Definition h_modn_to_mont (lv : bool) (a : Z) := mod3l lv "modn_to_mont" (inr bn a)
  (fun _ => z256_modn_to_mont (L a)) (vto_mont BigOps ltB KnB (B a)) (s_tomont bn (B a)).
Definition h_modn_from_mont (lv : bool) (a : Z) := mod3l lv "modn_from_mont" (inr bn a)
  (fun _ => z256_modn_from_mont (L a)) (vfrom_mont BigOps ltB KnB (B a)) (s_frommont bn Rinv_n (B a)).

(* value level vs spec only (the limb level is tied to the value level through mont_mul) *)
Definition mod2 (tag : string) (indom : bool) (v spec : bigZ) : string :=
  if indom then agree tag [hb v; hb spec] else hb v.
Definition h_modp_mont_exp (a e : Z) := mod2 "modp_mont_exp" (inr bp a)
  (vmont_exp BigOps ltB KpB (B a) e)
  (s_tomont bp (bpow bp (s_frommont bp Rinv_p (B a)) e)).
Definition h_modp_mont_inv (a : Z) := mod2 "modp_mont_inv" (inr bp a)
  (vmodp_mont_inv BigOps ltB KpB (B a))
  (s_tomont bp (binv bp (s_frommont bp Rinv_p (B a)))).
Definition h_modn_mont_exp (a e : Z) := mod2 "modn_mont_exp" (inr bn a)
  (vmont_exp BigOps ltB KnB (B a) e)
  (s_tomont bn (bpow bn (s_frommont bn Rinv_n (B a)) e)).
Definition h_modn_mont_inv (a : Z) := mod2 "modn_mont_inv" (inr bn a)
  (vmodn_mont_inv BigOps ltB KnB (B a))
  (s_tomont bn (binv bn (s_frommont bn Rinv_n (B a)))).
Definition h_modn_mul (a b : Z) := mod2 "modn_mul" (inr bn a && inr bn b)
  (vmodn_mul BigOps ltB KnB (B a) (B b)) (bmod (BigZ.mul (B a) (B b)) bn).
Definition h_modn_sqr (a : Z) := mod2 "modn_sqr" (inr bn a)
  (vmodn_sqr BigOps ltB KnB (B a)) (bmod (BigZ.mul (B a) (B a)) bn).
Definition h_modn_exp (a e : Z) := mod2 "modn_exp" (inr bn a)
  (vmodn_exp BigOps ltB KnB (B a) e) (bpow bn (B a) e).
Definition h_modn_inv (a : Z) := mod2 "modn_inv" (inr bn a)
  (vmodn_inv BigOps ltB KnB (B a)) (binv bn (B a)).
(* sqrt: "1 r" or "0"; spec: r^2 = a resp. a is a non-residue (Euler) *)
Definition h_modp_mont_sqrt (a : Z) : string :=
  let am := s_frommont bp Rinv_p (B a) in
  match vmodp_mont_sqrt BigOps ltB KpB (B a) with
  | Some r =>
    let rr := s_frommont bp Rinv_p r in
    if negb (inr bp a) || BigZ.eqb (bmod (BigZ.mul rr rr) bp) am then sp "1" (hb r)
    else "MODEL-SPEC-DIFFER sqrt root"
  | None =>
    if negb (inr bp a) || BigZ.eqb (bpow bp am ((sm2_p - 1) / 2)) (BigZ.sub bp b1) then "0"
    else "MODEL-SPEC-DIFFER sqrt none"
  end.

(* ---------- constants of the library against the model's ---------- *)
Definition h_const (name : string) : string :=
  if String.eqb name "P" then hxl SM2_Z256_P
  else if String.eqb name "NEG_P" then hxl SM2_Z256_NEG_P
  else if String.eqb name "P_PRIME" then hxl SM2_Z256_P_PRIME
  else if String.eqb name "MODP_2E512" then hxl SM2_Z256_2e512modp
  else if String.eqb name "SQRT_EXP" then hxl SM2_Z256_SQRT_EXP
  else if String.eqb name "N" then hxl SM2_Z256_N
  else if String.eqb name "N_MINUS_ONE" then hxl SM2_Z256_N_MINUS_ONE
  else if String.eqb name "NEG_N" then hxl SM2_Z256_NEG_N
  else if String.eqb name "N_PRIME" then hxl SM2_Z256_N_PRIME
  else if String.eqb name "N_MINUS_TWO" then hxl SM2_Z256_N_MINUS_TWO
  else if String.eqb name "MODN_2E512" then hxl SM2_Z256_2e512modn
  else if String.eqb name "MONT_B" then hxl SM2_Z256_MODP_MONT_B
  else if String.eqb name "ONE" then hxl SM2_Z256_ONE
  else "MODEL-UNKNOWN-CONST".
(* entry (i, j) of sm2_z256_pre_comp *)
Definition h_pre (i j : Z) : string :=
  let e := nth (Z.to_nat j) (nth (Z.to_nat i) sm2_pre_table []) (0, 0) in
  sp (hx (fst e)) (hx (snd e)).

(* ---------- points ---------- *)
Notation jp := (jpoint bigZ).
Definition Bj (X Y Z : Z) : jp := (B X, B Y, B Z).
Definition hj (P : jp) : string :=
  let '(X, Y, Z) := P in spl [hb X; hb Y; hb Z].
Definition Spt := point BigOps.
(* Spec decoding of a Jacobian/Montgomery triple: None = infinity (Z = 0) *)
Definition dec_f (x : bigZ) : bigZ := s_frommont bp Rinv_p x.
Definition decode (P : jp) : Spt :=
  let '(X, Y, Z) := P in
  let z := dec_f Z in
  if BigZ.eqb z b0 then None else
  let zi := binv bp z in
  let zi2 := bmod (BigZ.mul zi zi) bp in
  Some (bmod (BigZ.mul (dec_f X) zi2) bp, bmod (BigZ.mul (dec_f Y) (bmod (BigZ.mul zi2 zi) bp)) bp).
Definition spt_eqb (P Q : Spt) : bool :=
  match P, Q with
  | None, None => true
  | Some (x1, y1), Some (x2, y2) => BigZ.eqb x1 x2 && BigZ.eqb y1 y2
  | _, _ => false
  end.
Definition hspt (P : Spt) : string :=
  match P with None => "inf" | Some (x, y) => sp (hb x) (hb y) end.
(* a triple is a valid representative: coordinates below p and (infinity or on the curve) *)
Definition valid (P : jp) : bool :=
  let '(X, Y, Z) := P in
  ltB X bp && ltB Y bp && ltB Z bp &&
  match decode P with
  | None => (* the library's convention for infinity: (k^2 : k^3 : 0) *)
    let x := dec_f X in let y := dec_f Y in
    BigZ.eqb (bmod (BigZ.mul (BigZ.mul x x) x) bp) (bmod (BigZ.mul y y) bp)
  | Q => sm2_on_curve BigOps Q
  end.
Definition inrange (P : jp) : bool :=
  let '(X, Y, Z) := P in ltB X bp && ltB Y bp && ltB Z bp.

(* result line of a point operation:
     <raw X Y Z of the Impl model> | <verdict>
   verdict: "ok"      the decoded result equals the Spec value,
            "nospec"  some input is not a valid point (no mathematical claim),
            "BAD <spec affine>"  the Impl model (= the code as it is) contradicts the Spec. *)
Definition verdict (haveSpec : bool) (res : jp) (spec : Spt) : string :=
  if negb haveSpec then "nospec"
  else if spt_eqb (decode res) spec then "ok" else "BAD " ++ hspt spec.
Definition pline (haveSpec : bool) (res : jp) (spec : Spt) : string :=
  hj res ++ " | " ++ verdict haveSpec res spec.
Definition h_pdbl (X Y Z : Z) : string :=
  let P := Bj X Y Z in
  pline (valid P) (point_dbl _ FpB P) (sm2_dbl BigOps (decode P)).
Definition h_padd (X1 Y1 Z1 X2 Y2 Z2 : Z) : string :=
  let P := Bj X1 Y1 Z1 in let Q := Bj X2 Y2 Z2 in
  pline (valid P && valid Q) (point_add _ FpB P Q) (sm2_add BigOps (decode P) (decode Q)).
Definition h_psub (X1 Y1 Z1 X2 Y2 Z2 : Z) : string :=
  let P := Bj X1 Y1 Z1 in let Q := Bj X2 Y2 Z2 in
  pline (valid P && valid Q) (point_sub _ FpB P Q)
        (sm2_add BigOps (decode P) (sm2_neg BigOps (decode Q))).
Definition h_pneg (X Y Z : Z) : string :=
  let P := Bj X Y Z in
  pline (valid P) (point_neg _ FpB P) (sm2_neg BigOps (decode P)).
(* affine second operand: (0,0) encodes infinity *)
Definition aff_j (x y : Z) : jp :=
  if (x =? 0) && (y =? 0) then (knegm KpB, knegm KpB, b0) else (B x, B y, knegm KpB).
Definition h_padd_aff (X1 Y1 Z1 x y : Z) : string :=
  let P := Bj X1 Y1 Z1 in let Q := aff_j x y in
  pline (valid P && valid Q) (point_add_affine _ FpB P (B x, B y))
        (sm2_add BigOps (decode P) (decode Q)).
Definition h_psub_aff (X1 Y1 Z1 x y : Z) : string :=
  let P := Bj X1 Y1 Z1 in let Q := aff_j x y in
  pline (valid P && valid Q) (point_sub_affine _ FpB P (B x, B y))
        (sm2_add BigOps (decode P) (sm2_neg BigOps (decode Q))).
Definition hbool (b : bool) : string := if b then "1" else "0".
Definition h_pequ (X1 Y1 Z1 X2 Y2 Z2 : Z) : string :=
  let P := Bj X1 Y1 Z1 in let Q := Bj X2 Y2 Z2 in
  let r := point_equ _ FpB P Q in
  (* spec only for two finite valid points (the C comment: "equivalent jacobian points") *)
  let fin P := match decode P with None => false | _ => true end in
  if valid P && valid Q && fin P && fin Q
  then agree "pequ" [hbool r; hbool (spt_eqb (decode P) (decode Q))] else hbool r.
Definition h_ponc (X Y Z : Z) : string :=
  let P := Bj X Y Z in
  let r := point_is_on_curve _ FpB P in
  let fin := match decode P with None => false | _ => true end in
  if inrange P && fin then agree "ponc" [hbool r; hbool (sm2_on_curve BigOps (decode P))] else hbool r.
Definition h_pinf (X Y Z : Z) : string := hbool (point_is_at_infinity _ FpB (Bj X Y Z)).
(* get_xy / to_bytes: "ret x y" *)
Definition h_pxy (X Y Z : Z) : string :=
  let P := Bj X Y Z in
  let '(ret, x, y) := point_get_xy _ FpB P in
  let line := spl [hx1 ret; hb x; hb y] in
  if valid P then
    match decode P with
    | None => agree "pxy" [line; spl ["0"; hx 0; hx 0]]
    | Some (sx, sy) => agree "pxy" [line; spl ["1"; hb sx; hb sy]]
    end
  else line.

(* ---------- scalar multiplications ---------- *)
Definition addaff_cur := point_add_affine bigZ FpB.
Definition tabB : list (list (bigZ * bigZ)) := table_to_big sm2_pre_table.
Definition oline (haveSpec : bool) (res : option jp) (spec : Spt) : string :=
  match res with
  | Some r => pline haveSpec r spec
  | None => "MODEL-OOB-TABLE-INDEX"
  end.
Definition h_pmul (k X Y Z : Z) : string :=
  let P := Bj X Y Z in
  oline (valid P) (point_mul _ FpB addaff_cur k P) (sm2_mul BigOps k (decode P)).
Definition h_pmulgen (k : Z) : string :=
  oline true (point_mul_generator _ FpB addaff_cur tabB k) (sm2_mulG BigOps k).
Definition h_pmulsum (t X Y Z s : Z) : string :=
  let P := Bj X Y Z in
  oline (valid P) (point_mul_sum _ FpB addaff_cur tabB t P s)
        (sm2_add BigOps (sm2_mul BigOps t (decode P)) (sm2_mulG BigOps s)).
(* pre-computed table of P: 16 raw points; spec: entry i is [i+1]P *)
Definition h_precomp (X Y Z : Z) : string :=
  let P := Bj X Y Z in
  let T := pre_compute _ FpB addaff_cur P in
  let raw := spl (map hj T) in
  let ok := forallb (fun '(i, Q) => spt_eqb (decode Q) (sm2_mul BigOps (Z.of_nat i + 1) (decode P)))
                    (combine (seq 0 16) T) in
  raw ++ " | " ++ (if negb (valid P) then "nospec" else if ok then "ok" else "BAD").

(* do two raw triples denote the same point (used for the assembly back-end) *)
Definition h_equiv (X1 Y1 Z1 X2 Y2 Z2 : Z) : string :=
  let P := Bj X1 Y1 Z1 in let Q := Bj X2 Y2 Z2 in
  hbool (inrange P && inrange Q && spt_eqb (decode P) (decode Q)).
