(* Theorems about the SM2 encryption / ECDH model (Ec/SM2Enc.v). *)
From Coq Require Import ZifyN ZifyNat ZifyBool.
From GmVerif Require Import Base.ListX Base.Bytes Ec.Num Ec.CurveSpec Hash.MD Hash.SM3 Hash.SM3Proofs
  Hash.Hmac Hash.Instances Hash.C03Lemmas Ec.Sm2Der Ec.Sm2DerProofs Ec.SM2Sign Ec.SM2SignProofs Ec.SM2Enc.
Local Open Scope Z_scope.

Lemma Some_inj {A} (a b : A) : Some a = Some b -> a = b.
Proof. intros H. injection H. auto. Qed.

(* ---------------- hashing pieces ---------------- *)
Lemma c3_hash_spec x2 m y2 : c3_hash x2 m y2 = sm3 (x2 ++ m ++ y2).
Proof.
  unfold c3_hash.
  change (sm3_update (sm3_update (sm3_update sm3_init x2) m) y2)
    with (fold_left sm3_update [x2; m; y2] sm3_init).
  rewrite sm3_stream. cbn [concat]. rewrite app_nil_r. reflexivity.
Qed.

Lemma kdf_spec_length z outlen : length (sm3_kdf_spec z outlen) = outlen.
Proof.
  unfold sm3_kdf_spec, kdf_spec. rewrite firstn_length. apply Nat.min_l.
  assert (H : forall l, length (flat_map (fun ct => sm3 (z ++ ctr_be ct)) l) = (32 * length l)%nat).
  { induction l as [|a l IH]; [reflexivity|]. cbn [flat_map length]. rewrite app_length, sm3_len, IH. lia. }
  rewrite H, seq_length. unfold kdf_nblocks.
  pose proof (Nat.div_mod (outlen + 32 - 1) 32 ltac:(lia)).
  pose proof (Nat.mod_upper_bound (outlen + 32 - 1) 32 ltac:(lia)). lia.
Qed.

Lemma xor_bytes_invol t m : (length m <= length t)%nat -> xor_bytes t (xor_bytes t m) = m.
Proof.
  revert m; induction t as [|a t IH]; intros m H.
  - destruct m; [reflexivity|cbn in H; lia].
  - destruct m as [|b m]; [reflexivity|]. cbn [length] in H.
    unfold xor_bytes in *. cbn [combine map fst snd]. f_equal.
    + rewrite <- N.lxor_assoc, N.lxor_nilpotent, N.lxor_0_l. reflexivity.
    + apply IH. lia.
Qed.

(* ---------------- byte / integer round trips ---------------- *)
Lemma be_to_Z_snoc a b : be_to_Z (a ++ [b]) = be_to_Z a * 256 + Z.of_N b.
Proof. unfold be_to_Z. rewrite be_to_Z_acc_app. reflexivity. Qed.

Lemma be_to_Z_Z_to_be len x : 0 <= x < 256 ^ Z.of_nat len -> be_to_Z (Z_to_be len x) = x.
Proof.
  revert x; induction len as [|len IH]; intros x H.
  - cbn in H. cbn. lia.
  - cbn [Z_to_be]. rewrite be_to_Z_snoc.
    rewrite Nat2Z.inj_succ, Z.pow_succ_r in H by lia.
    rewrite IH by (split; [apply Z.div_pos; lia|apply Z.div_lt_upper_bound; lia]).
    rewrite Z2N.id by (apply Z.mod_pos_bound; lia).
    pose proof (Z.div_mod x 256 ltac:(lia)). lia.
Qed.

Lemma be_to_Z_to32 x : 0 <= x < two256 -> be_to_Z (to32 x) = x.
Proof. intros H. apply be_to_Z_Z_to_be. exact H. Qed.

Lemma to32_length x : length (to32 x) = 32%nat.
Proof. apply Z_to_be_length. Qed.

Lemma firstn32_app (a b : list N) : length a = 32%nat -> firstn 32 (a ++ b) = a.
Proof. intros H. rewrite <- H. rewrite firstn_app, Nat.sub_diag, firstn_all. cbn. apply app_nil_r. Qed.
Lemma skipn32_app (a b : list N) : length a = 32%nat -> skipn 32 (a ++ b) = b.
Proof. intros H. rewrite <- H. rewrite skipn_app, Nat.sub_diag, skipn_all. reflexivity. Qed.

(* ---------------- decryption: what an accepted ciphertext satisfies ---------------- *)
Section AnyOps.
  Variable NO : numops.

  Lemma point_from_bytes_ok b P :
    point_from_bytes NO b = FbOk P ->
    let x := be_to_Z (firstn 32 b) in
    let y := be_to_Z (firstn 32 (skipn 32 b)) in
    x < sm2_p /\ y < sm2_p /\ ~ (x = 0 /\ y = 0) /\
    P = mkpt NO x y /\ sm2_on_curve NO P = true.
  Proof.
    unfold point_from_bytes. cbv zeta.
    set (x := be_to_Z (firstn 32 b)). set (y := be_to_Z (firstn 32 (skipn 32 b))).
    destruct (sm2_p <=? x) eqn:Ex; [discriminate|].
    destruct (sm2_p <=? y) eqn:Ey; [discriminate|].
    destruct ((x =? 0) && (y =? 0)) eqn:E0; [discriminate|].
    destruct (sm2_on_curve NO (mkpt NO x y)) eqn:Ec; [|discriminate].
    intros H. injection H as <-. repeat split; try lia. exact Ec.
  Qed.

  (* C1 outside the field range, the encoding of infinity, or a point off the curve:
     sm2_do_decrypt returns an error *)
  Theorem dec_rejects_bad_c1 d c m :
    do_decrypt NO d c = Some m ->
    let x := be_to_Z (firstn 32 (ct_x c ++ ct_y c)) in
    let y := be_to_Z (firstn 32 (skipn 32 (ct_x c ++ ct_y c))) in
    x < sm2_p /\ y < sm2_p /\ ~ (x = 0 /\ y = 0) /\ sm2_on_curve NO (mkpt NO x y) = true.
  Proof.
    unfold do_decrypt. intros H.
    destruct (point_from_bytes NO (ct_x c ++ ct_y c)) as [C1| |] eqn:E; try discriminate.
    destruct (point_from_bytes_ok _ _ E) as (Hx & Hy & H0 & -> & Hc).
    cbv zeta. repeat split; assumption.
  Qed.

  (* decision rule: accept => C3 is SM3(x2 || M || y2) for (x2, y2) = [d]C1 recomputed from the
     validated C1, M = C2 xor KDF(x2 || y2, |C2|), the KDF output is not all zero and C2 is not empty *)
  Theorem dec_rejects_bad_c3 d c m :
    do_decrypt NO d c = Some m ->
    exists C1, point_from_bytes NO (ct_x c ++ ct_y c) = FbOk C1 /\
      let Q := sm2_mul NO d C1 in
      let x2 := to32 (get_x NO Q) in
      let y2 := to32 (get_y NO Q) in
      let t := sm3_kdf_spec (x2 ++ y2) (length (ct_c c)) in
      all_zero t = false /\ ct_c c <> [] /\
      m = xor_bytes t (ct_c c) /\ ct_hash c = sm3 (x2 ++ m ++ y2).
  Proof.
    unfold do_decrypt. intros H.
    destruct (point_from_bytes NO (ct_x c ++ ct_y c)) as [C1| |] eqn:E; try discriminate.
    exists C1. split; [reflexivity|]. cbv zeta in *.
    rewrite sm2_kdf_eq in H.
    set (x2 := to32 (get_x NO (sm2_mul NO d C1))) in *.
    set (y2 := to32 (get_y NO (sm2_mul NO d C1))) in *.
    destruct (all_zero (sm3_kdf_spec (x2 ++ y2) (length (ct_c c)))) eqn:Ez; [discriminate|].
    destruct (list_eq_dec N.eq_dec _ _) as [Eh|]; [|discriminate].
    apply Some_inj in H. subst m. rewrite c3_hash_spec in Eh.
    repeat split; try reflexivity.
    - intros En. rewrite En in Ez. cbn in Ez. discriminate.
    - symmetry. exact Eh.
  Qed.

  (* strict DER: sm2_decrypt accepts only the canonical encoding of the SM2Cipher it decoded,
     with 32-byte x, y, hash, at most 255 bytes of C2 and no trailing byte *)
  Theorem dec_der_strict d inp m :
    bytes_ok inp = true -> sm2_decrypt NO d inp = Some m ->
    exists c, inp = ct_to_der c /\
      length (ct_x c) = 32%nat /\ length (ct_y c) = 32%nat /\ length (ct_hash c) = 32%nat /\
      (length (ct_c c) <= 255)%nat /\ do_decrypt NO d c = Some m.
  Proof.
    intros Hok H. unfold sm2_decrypt in H.
    destruct (ct_from_der inp) as [[c rest]|] eqn:E; [|discriminate].
    destruct rest; [|discriminate].
    destruct (ct_der_canonical _ _ _ Hok E) as (Eq & Hx & Hy & Hh & Hc).
    rewrite app_nil_r in Eq. exists c. repeat split; assumption.
  Qed.

  (* ---------------- streaming buffers ---------------- *)
  Lemma buf_update_none cap chunks : fold_left (buf_update cap) chunks None = None.
  Proof. induction chunks; [reflexivity|exact IHchunks]. Qed.

  Lemma buf_updates cap chunks b :
    (lenN b <= cap)%N ->
    fold_left (buf_update cap) chunks (Some b) =
    if (lenN (b ++ concat chunks) <=? cap)%N then Some (b ++ concat chunks) else None.
  Proof.
    revert b; induction chunks as [|ch chunks IH]; intros b Hb.
    - cbn [fold_left concat]. rewrite app_nil_r. replace (lenN b <=? cap)%N with true by lia. reflexivity.
    - cbn [fold_left concat buf_update].
      replace (cap <? lenN b)%N with false by lia.
      destruct (cap - lenN b <? lenN ch)%N eqn:E.
      + rewrite buf_update_none. rewrite !lenN_app.
        replace (lenN b + (lenN ch + lenN (concat chunks)) <=? cap)%N with false by lia. reflexivity.
      + rewrite IH by (rewrite lenN_app; lia). rewrite <- app_assoc. reflexivity.
  Qed.

  (* sm2_encrypt_init/update/finish = sm2_encrypt on the concatenation, for every chunking whose
     total length is in 1..255; any other total is an error *)
  Theorem encrypt_stream_eq_oneshot P chunks en :
    encrypt_stream NO P chunks en =
    if ((1 <=? lenN (concat chunks)) && (lenN (concat chunks) <=? 255))%N
    then sm2_encrypt NO P (concat chunks) en else None.
  Proof.
    unfold encrypt_stream. rewrite buf_updates by (cbn; lia). cbn [app].
    destruct (lenN (concat chunks) <=? 255)%N eqn:E1.
    - replace (255 <? lenN (concat chunks))%N with false by lia.
      destruct (lenN (concat chunks) =? 0)%N eqn:E0.
      + replace (1 <=? lenN (concat chunks))%N with false by lia. reflexivity.
      + replace (1 <=? lenN (concat chunks))%N with true by lia. reflexivity.
    - rewrite andb_false_r. reflexivity.
  Qed.

  Theorem decrypt_stream_eq_oneshot d chunks :
    decrypt_stream NO d chunks =
    if ((45 <=? lenN (concat chunks)) && (lenN (concat chunks) <=? 366))%N
    then sm2_decrypt NO d (concat chunks) else None.
  Proof.
    unfold decrypt_stream. rewrite buf_updates by (cbn; lia). cbn [app].
    destruct (lenN (concat chunks) <=? 366)%N eqn:E1.
    - replace (366 <? lenN (concat chunks))%N with false by lia.
      destruct (lenN (concat chunks) <? 45)%N eqn:E0.
      + replace (45 <=? lenN (concat chunks))%N with false by lia. reflexivity.
      + replace (45 <=? lenN (concat chunks))%N with true by lia. reflexivity.
    - rewrite andb_false_r. reflexivity.
  Qed.

  (* ECDH peer import (sm2_z256_point_from_octets as repaired): an accepted uncompressed point has
     coordinates < p, is not the encoding (0,0) of infinity and is on the curve *)
  Theorem from_octets_uncompressed_validated r P :
    point_from_octets NO (4%N :: r) = Some P ->
    let x := be_to_Z (firstn 32 r) in
    let y := be_to_Z (firstn 32 (skipn 32 r)) in
    length r = 64%nat /\ x < sm2_p /\ y < sm2_p /\ ~ (x = 0 /\ y = 0) /\
    P = mkpt NO x y /\ sm2_on_curve NO P = true.
  Proof.
    cbn [point_from_octets]. change (N.eqb 4 2) with false.
    change (N.eqb 4 3) with false. change (N.eqb 4 4) with true. cbv iota.
    destruct (Nat.eqb (length r) 64) eqn:El; cbn [negb]; [|discriminate].
    destruct (point_from_bytes NO r) as [Q| |] eqn:E; try discriminate.
    intros H. apply Some_inj in H. subst Q.
    split; [apply Nat.eqb_eq, El|]. exact (point_from_bytes_ok _ _ E).
  Qed.

  (* every accepted peer is a finite point; the empty string, the encoding 00 of infinity and
     04 || 0^64 are refused *)
  Theorem from_octets_finite b P : point_from_octets NO b = Some P -> P <> None.
  Proof.
    destruct b as [|t r]; [discriminate|]. cbn [point_from_octets].
    assert (Hx : forall odd, from_x_bytes NO r odd = Some P -> P <> None).
    { intros odd. unfold from_x_bytes. destruct (sm2_p <=? be_to_Z r); [discriminate|]. cbv zeta.
      destruct (neqb NO _ _); [|discriminate]. intros H. apply Some_inj in H. subst P. discriminate. }
    destruct (N.eqb t 2); [destruct (Nat.eqb (length r) 32); [apply Hx|discriminate]|].
    destruct (N.eqb t 3); [destruct (Nat.eqb (length r) 32); [apply Hx|discriminate]|].
    destruct (N.eqb t 4); [|discriminate].
    destruct (negb (Nat.eqb (length r) 64)); [discriminate|].
    destruct (point_from_bytes NO r) as [Q| |] eqn:E; try discriminate.
    intros H. apply Some_inj in H. subst Q.
    destruct (point_from_bytes_ok _ _ E) as (_ & _ & _ & -> & _). discriminate.
  Qed.

  Theorem ecdh_rejects_infinity d :
    sm2_ecdh NO d [] = None /\ sm2_ecdh NO d [0%N] = None /\ sm2_ecdh NO d (4%N :: zeros 64) = None.
  Proof. repeat split; reflexivity. Qed.

  Theorem ecdh_peer_validated d peer out :
    sm2_ecdh NO d peer = Some out ->
    exists P, point_from_octets NO peer = Some P /\ P <> None /\
              out = point_bytes NO (sm2_mul NO d P).
  Proof.
    unfold sm2_ecdh. destruct peer as [|t r]; [discriminate|].
    destruct (point_from_octets NO (t :: r)) as [P|] eqn:E; [|discriminate].
    intros H. apply Some_inj in H. exists P. split; [reflexivity|]. split; [exact (from_octets_finite _ _ E)|]. symmetry. exact H.
  Qed.
End AnyOps.

(* ---------------- encryption equals the standard's value for the nonce drawn ---------------- *)
Lemma enc_try_spec P m k :
  enc_try ZOps P m k = if std_kdf_zero P m k then None else Some (std_ct P m k).
Proof.
  unfold enc_try, std_kdf_zero, std_ct. cbv zeta. rewrite sm2_kdf_eq, c3_hash_spec. reflexivity.
Qed.

(* a draw is skipped iff it is 0 or >= n (rand_range / zero test) or makes the KDF output all zero *)
Definition enc_skips (P : point ZOps) (m : list N) (b : list N) : Prop :=
  bad_draw b \/ std_kdf_zero P m (le_to_Z b) = true.

Lemma enc_loop_sound fuel P m en c rest :
  enc_loop ZOps fuel P m en = Some (c, rest) ->
  exists used kb, en = used ++ kb :: rest /\
    Forall (enc_skips P m) used /\
    1 <= le_to_Z kb < n /\ std_kdf_zero P m (le_to_Z kb) = false /\
    c = std_ct P m (le_to_Z kb).
Proof.
  revert en. induction fuel as [|f IH]; intros en H; cbn [enc_loop] in H; [discriminate|].
  destruct (rand_k en) as [[k en1]|] eqn:Ek; [|discriminate].
  unfold rand_k in Ek.
  destruct (rand_k_loop_sound _ _ _ _ Ek) as (used & b & -> & Hkb & Hrng & Hbad).
  assert (Hbad' : Forall (enc_skips P m) used).
  { eapply Forall_impl; [|exact Hbad]. intros x Hx. left. exact Hx. }
  rewrite enc_try_spec in H. subst k.
  destruct (std_kdf_zero P m (le_to_Z b)) eqn:Ez.
  - destruct (IH _ H) as (used2 & kb & -> & Hall2 & Hk2 & Hz2 & Hc).
    exists (used ++ b :: used2), kb. rewrite <- app_assoc. cbn [app].
    split; [reflexivity|]. split; [|split; [exact Hk2|split; assumption]].
    apply Forall_app. split; [exact Hbad'|]. constructor; [right; exact Ez|exact Hall2].
  - apply Some_inj in H. injection H as <- <-.
    exists used, b. split; [reflexivity|]. split; [exact Hbad'|]. split; [exact Hrng|]. split; [exact Ez|reflexivity].
Qed.

Theorem enc_eq_standard P m en c rest :
  do_encrypt ZOps P m en = Some (c, rest) ->
  (1 <= length m <= 255)%nat /\
  exists used kb, en = used ++ kb :: rest /\
    Forall (enc_skips P m) used /\
    1 <= le_to_Z kb < n /\ std_kdf_zero P m (le_to_Z kb) = false /\
    c = std_ct P m (le_to_Z kb).
Proof.
  unfold do_encrypt. destruct (len_ok m) eqn:El; [|discriminate]. intros H.
  split; [unfold len_ok, lenN in El; lia|]. eapply enc_loop_sound, H.
Qed.

(* ---------------- round trip and ECDH symmetry under explicit group-law premises ---------------- *)
Lemma origin_off_curve : sm2_on_curve ZOps (Some (0, 0)) = false.
Proof. vm_compute. reflexivity. Qed.

Section RoundTrip.
  (* [a]([b]G) = [(a b) mod n]G for the affine law (consequence of the group law and ord G = n),
     and closure of the curve equation on multiples of G; premises, not axioms *)
  Hypothesis Hmul : forall a b, 0 <= a -> 0 <= b ->
    sm2_mul ZOps a (sm2_mulG ZOps b) = sm2_mulG ZOps ((a * b) mod n).
  Hypothesis Hcurve : forall k, 1 <= k < n ->
    sm2_mulG ZOps k <> None /\ sm2_on_curve ZOps (sm2_mulG ZOps k) = true.

  Theorem dec_enc_partial d m en c rest :
    0 <= d ->
    do_encrypt ZOps (sm2_mulG ZOps d) m en = Some (c, rest) ->
    do_decrypt ZOps d c = Some m.
  Proof.
    intros Hd H. destruct (enc_eq_standard _ _ _ _ _ H) as (Hlen & used & kb & _ & _ & Hk & Hz & ->).
    set (k := le_to_Z kb) in *.
    destruct (Hcurve k Hk) as [Hnz Hon].
    pose proof (mulG_ok k) as Hok. pose proof p_lt_two256 as Hp.
    destruct (sm2_mulG ZOps k) as [[x1 y1]|] eqn:EG; [|congruence]. clear Hnz.
    unfold pt_ok, pt_okp in Hok.
    unfold do_decrypt, std_ct. cbv zeta. rewrite EG. cbn [ct_x ct_y ct_hash ct_c get_x get_y ntoZ ZOps].
    (* C1 is re-imported unchanged *)
    assert (Epfb : point_from_bytes ZOps (to32 x1 ++ to32 y1) = FbOk (Some (x1, y1))).
    { unfold point_from_bytes. cbv zeta.
      rewrite skipn32_app, firstn32_app by apply to32_length.
      rewrite (firstn_all2 (n:=32) (to32 y1)) by (rewrite to32_length; lia).
      rewrite !be_to_Z_to32 by lia.
      replace (sm2_p <=? x1) with false by lia. replace (sm2_p <=? y1) with false by lia.
      destruct ((x1 =? 0) && (y1 =? 0)) eqn:E0.
      - apply andb_true_iff in E0. destruct E0 as [E1 E2].
        apply Z.eqb_eq in E1, E2. subst x1 y1. exfalso.
        assert (Hf : true = false) by (rewrite <- Hon; exact origin_off_curve). discriminate.
      - unfold mkpt. cbn [nofZ ZOps]. rewrite Hon. reflexivity. }
    rewrite Epfb.
    (* [d][k]G = [k][d]G *)
    assert (EQ : sm2_mul ZOps d (Some (x1, y1)) = sm2_mul ZOps k (sm2_mulG ZOps d)).
    { rewrite <- EG, !Hmul by lia. rewrite Z.mul_comm. reflexivity. }
    rewrite EQ. rewrite sm2_kdf_eq.
    unfold std_kdf_zero in Hz. cbv zeta in Hz.
    set (x2 := to32 (get_x ZOps (sm2_mul ZOps k (sm2_mulG ZOps d)))) in *.
    set (y2 := to32 (get_y ZOps (sm2_mul ZOps k (sm2_mulG ZOps d)))) in *.
    assert (Elen : length (xor_bytes (sm3_kdf_spec (x2 ++ y2) (length m)) m) = length m).
    { unfold xor_bytes. rewrite map_length, combine_length, kdf_spec_length. lia. }
    rewrite Elen, Hz.
    rewrite xor_bytes_invol by (rewrite kdf_spec_length; lia).
    rewrite c3_hash_spec.
    destruct (list_eq_dec N.eq_dec (sm3 (x2 ++ m ++ y2)) (sm3 (x2 ++ m ++ y2))) as [_|Hne]; [reflexivity|congruence].
  Qed.

  (* both parties obtain the same point, the mathematically defined [dA dB]G *)
  Theorem ecdh_symmetric_partial dA dB :
    0 <= dA -> 0 <= dB ->
    do_ecdh ZOps dA (sm2_mulG ZOps dB) = do_ecdh ZOps dB (sm2_mulG ZOps dA) /\
    do_ecdh ZOps dA (sm2_mulG ZOps dB) = sm2_mulG ZOps ((dA * dB) mod n).
  Proof.
    intros Ha Hb. unfold do_ecdh. rewrite !Hmul by assumption. rewrite (Z.mul_comm dB dA). split; reflexivity.
  Qed.
End RoundTrip.

(* DESIGN 5 #4 (sm2_ecdh accepted 00 and 04 || 0^64) was repaired in /repo by a33c088; the model
   above follows the repaired code and ecdh_rejects_infinity is now a theorem. *)
Lemma mul_infinity (NO : numops) d : sm2_mul NO d None = None.
Proof.
  unfold sm2_mul. destruct d as [|q|q]; cbn [pmul]; try reflexivity.
  induction q as [q IH|q IH|]; cbn [pmul_pos]; [rewrite IH|rewrite IH|]; reflexivity.
Qed.

(* ---------------- pre-computed encryption ---------------- *)
(* sm2_encrypt_pre_compute stores exactly (k_i, affine [k_i]G) in every one of the 8 slots, for any
   Jacobian Z coordinates, provided the single shared inversion is correct (batch_inv_correct) *)
Theorem enc_pre_compute_eq_partial zs en ks en' :
  draw_ks 8 en = Some (ks, en') ->
  (let Zs := map (fun i => jac_Z ZOps (sm2_mulG ZOps (nth i ks 0)) (nth i zs 1)) (seq 0 8) in
   let T := nth 7 (f_list sm2_p Zs) 0 in (T * inv_p ZOps T) mod sm2_p = 1 mod sm2_p) ->
  enc_pre_compute ZOps zs en =
  Some (map (fun k => (k, (get_x ZOps (sm2_mulG ZOps k), get_y ZOps (sm2_mulG ZOps k)))) ks, en').
Proof.
  intros Hd Hinv. pose proof (draw_ks_length _ _ _ _ Hd) as Hl. cbv zeta in Hinv.
  unfold enc_pre_compute. rewrite Hd. f_equal. f_equal.
  transitivity (map (fun k => (k, (get_x ZOps (sm2_mulG ZOps k), get_y ZOps (sm2_mulG ZOps k))))
                    (map (fun i => nth i ks 0) (seq 0 8)));
    [|f_equal; rewrite <- Hl; symmetry; apply list_as_map_nth].
  rewrite map_map. apply map_ext_in. intros i Hi. apply in_seq in Hi.
  set (Zs := map (fun i => jac_Z ZOps (sm2_mulG ZOps (nth i ks 0)) (nth i zs 1)) (seq 0 8)) in *.
  assert (HZl : length Zs = 8%nat) by (unfold Zs; rewrite map_length, seq_length; reflexivity).
  pose proof (batch_inv_correct sm2_p p_pos (inv_p ZOps) Zs ltac:(lia)) as Hb.
  rewrite HZl in Hb. specialize (Hb Hinv i ltac:(lia)).
  assert (HZi : nth i Zs 0 = jac_Z ZOps (sm2_mulG ZOps (nth i ks 0)) (nth i zs 1)).
  { unfold Zs. apply (nth_map_seq (fun i => jac_Z ZOps (sm2_mulG ZOps (nth i ks 0)) (nth i zs 1))). lia. }
  rewrite HZi in Hb.
  unfold enc_pre_slot. cbv zeta. f_equal.
  pose proof (mulG_ok (nth i ks 0)) as Hok.
  destruct (sm2_mulG ZOps (nth i ks 0)) as [[x y]|].
  - cbn [jac_X jac_Y jac_Z get_x get_y ntoZ ZOps] in *. unfold pt_ok, pt_okp in Hok.
    f_equal; [apply jac_back_x|apply jac_back_y]; try lia; exact Hb.
  - cbn [jac_Z] in Hb. rewrite Z.mul_0_l, Z.mod_0_l, Z.mod_1_l in Hb by (pose proof p_gt_1; lia). discriminate.
Qed.

(* sm2_do_encrypt_ex with a slot holding (k, [k]G) is the body of sm2_do_encrypt for nonce k *)
Theorem encrypt_ex_eq_encrypt (NO : numops) (P : point NO) k m :
  len_ok m = true ->
  do_encrypt_ex NO P (k, (get_x NO (sm2_mulG NO k), get_y NO (sm2_mulG NO k))) m =
  match enc_try NO P m k with Some c => ExOk c | None => ExRetry end.
Proof.
  intros Hl. unfold do_encrypt_ex, enc_try. rewrite Hl. cbn [negb fst snd]. cbv zeta.
  destruct (all_zero _); reflexivity.
Qed.

Theorem encrypt_ex_bad_length (NO : numops) (P : point NO) pc m :
  len_ok m = false -> do_encrypt_ex NO P pc m = ExErr.
Proof. intros Hl. unfold do_encrypt_ex. rewrite Hl. reflexivity. Qed.

(* ---------------- fixed point-size encryption ---------------- *)
(* sm2_do_encrypt_fixlen: the result is the standard's ciphertext for a nonce of the stream whose
   C1 has exactly the requested DER size (68, 69 or 70) *)
Lemma fix_loop_sound fuel trys P m psize en c rest :
  fix_loop ZOps fuel trys P m psize en = Some (c, rest) ->
  exists used kb, en = used ++ kb :: rest /\
    1 <= le_to_Z kb < n /\ point_der_len ZOps (sm2_mulG ZOps (le_to_Z kb)) = psize /\
    std_kdf_zero P m (le_to_Z kb) = false /\ c = std_ct P m (le_to_Z kb).
Proof.
  revert trys en. induction fuel as [|f IH]; intros trys en H; cbn [fix_loop] in H; [discriminate|].
  destruct (rand_k en) as [[k en1]|] eqn:Ek; [|discriminate].
  unfold rand_k in Ek.
  destruct (rand_k_loop_sound _ _ _ _ Ek) as (used & b & -> & Hkb & Hrng & _). subst k.
  destruct trys as [|t]; [discriminate|].
  destruct (N.eqb (point_der_len ZOps (sm2_mulG ZOps (le_to_Z b))) psize) eqn:Ep.
  - rewrite enc_try_spec in H. destruct (std_kdf_zero P m (le_to_Z b)) eqn:Ez.
    + destruct (IH _ _ H) as (used2 & kb & -> & Hk & Hp & Hz & Hc).
      exists (used ++ b :: used2), kb. rewrite <- app_assoc. cbn [app]. repeat split; try assumption; lia.
    + apply Some_inj in H. injection H as <- <-. exists used, b.
      apply N.eqb_eq in Ep. repeat split; try assumption; try lia.
  - destruct (IH _ _ H) as (used2 & kb & -> & Hk & Hp & Hz & Hc).
    exists (used ++ b :: used2), kb. rewrite <- app_assoc. cbn [app]. repeat split; try assumption; lia.
Qed.

Theorem encrypt_fixlen_sound P m psize en c rest :
  do_encrypt_fixlen ZOps P m psize en = Some (c, rest) ->
  (psize = 68 \/ psize = 69 \/ psize = 70)%N /\ (1 <= length m <= 255)%nat /\
  exists used kb, en = used ++ kb :: rest /\
    1 <= le_to_Z kb < n /\ point_der_len ZOps (sm2_mulG ZOps (le_to_Z kb)) = psize /\
    std_kdf_zero P m (le_to_Z kb) = false /\ c = std_ct P m (le_to_Z kb).
Proof.
  unfold do_encrypt_fixlen. destruct (len_ok m) eqn:El; cbn [negb]; [|discriminate].
  destruct (N.eqb psize 68 || N.eqb psize 69 || N.eqb psize 70) eqn:Ep; [|discriminate].
  intros H. split.
  - apply orb_true_iff in Ep. destruct Ep as [Ep|Ep]; [apply orb_true_iff in Ep; destruct Ep as [Ep|Ep]|];
      apply N.eqb_eq in Ep; lia.
  - split; [unfold len_ok, lenN in El; lia|]. eapply fix_loop_sound, H.
Qed.

Section MoreAnyOps.
  Variable NO : numops.
  (* sm2_ciphertext_print succeeds only on the canonical encoding (same parse as sm2_decrypt) *)
  Theorem ciphertext_print_strict a :
    bytes_ok a = true -> ciphertext_print_ok a = true -> exists c, a = ct_to_der c.
  Proof.
    intros Hok H. unfold ciphertext_print_ok in H.
    destruct (ct_from_der a) as [[c rest]|] eqn:E; [|discriminate]. destruct rest; [|discriminate].
    destruct (ct_der_canonical _ _ _ Hok E) as (Eq & _). rewrite app_nil_r in Eq. exists c. exact Eq.
  Qed.

  (* size queries (out == NULL) answer the maximum for exactly the buffer states that finish accepts *)
  Theorem encrypt_finish_query_spec chunks :
    encrypt_finish_query chunks =
    if ((1 <=? lenN (concat chunks)) && (lenN (concat chunks) <=? 255))%N then Some 366%N else None.
  Proof.
    unfold encrypt_finish_query. rewrite buf_updates by (cbn; lia). cbn [app].
    destruct (lenN (concat chunks) <=? 255)%N eqn:E1.
    - replace (255 <? lenN (concat chunks))%N with false by lia.
      destruct (lenN (concat chunks) =? 0)%N eqn:E0.
      + replace (1 <=? lenN (concat chunks))%N with false by lia. reflexivity.
      + replace (1 <=? lenN (concat chunks))%N with true by lia. reflexivity.
    - rewrite andb_false_r. reflexivity.
  Qed.
  Theorem decrypt_finish_query_spec chunks :
    decrypt_finish_query chunks =
    if ((45 <=? lenN (concat chunks)) && (lenN (concat chunks) <=? 366))%N then Some 255%N else None.
  Proof.
    unfold decrypt_finish_query. rewrite buf_updates by (cbn; lia). cbn [app].
    destruct (lenN (concat chunks) <=? 366)%N eqn:E1.
    - replace (366 <? lenN (concat chunks))%N with false by lia.
      destruct (lenN (concat chunks) <? 45)%N eqn:E0.
      + replace (45 <=? lenN (concat chunks))%N with false by lia. reflexivity.
      + replace (45 <=? lenN (concat chunks))%N with true by lia. reflexivity.
    - rewrite andb_false_r. reflexivity.
  Qed.
End MoreAnyOps.
