(* C13 — negation / subtraction of points preserve the representation relation. *)
From Coq Require Import ZArith List Bool Lia Setoid Morphisms Zdiv.
From GmVerif Require Import Ec.Num Ec.CurveSpec Ec.Z256 Ec.Mont Ec.MontProofs Ec.Jacobian Ec.JacobianProofs.
Import ListNotations.
Local Open Scope Z_scope.

Section Neg.
  Variable p : Z.
  Local Instance eqm_equiv_n : Equivalence (eqm p) := eqm_setoid p.
  Local Instance eqm_mul_n : Proper (eqm p ==> eqm p ==> eqm p) Z.mul := Zmult_eqm p.
  Local Instance eqm_opp_n : Proper (eqm p ==> eqm p) Z.opp := Zopp_eqm p.
  Variable half : Z.
  Variable F : Type.
  Variable fo : fops F.
  Variable ok : F -> Prop.
  Variable dec : F -> Z.
  Hypothesis L : flaws p half F fo ok dec.

  (* sm2_z256_point_neg: (X, -Y, Z) represents (x, -y) *)
  Theorem neg_repr : forall X Y Zc x y,
    jrepr p F ok dec (X, Y, Zc) x y -> jrepr p F ok dec (point_neg F fo (X, Y, Zc)) x (- y).
  Proof.
    intros X Y Zc x y (OX & OY & OZ & HX & HY). unfold point_neg. cbn [jrepr].
    destruct (l_neg _ _ _ _ _ _ L Y OY) as [ON EN].
    split; [exact OX|]. split; [exact ON|]. split; [exact OZ|]. split; [exact HX|].
    rewrite EN, HY. unfold eqm; f_equal; ring.
  Qed.
  (* sm2_z256_point_sub / sub_affine are the additions of the negated operand *)
  Theorem sub_is_add_neg : forall A B, point_sub F fo A B = point_add F fo A (point_neg F fo B).
  Proof. reflexivity. Qed.
  Theorem sub_affine_is_add_neg : forall A B,
    point_sub_affine F fo A B = point_add_affine F fo A (fst B, f_neg fo (snd B)).
  Proof. reflexivity. Qed.
End Neg.

Theorem point_neg_represents : forall X Y Zc x y,
  jrepr c_p Z okp decp (X, Y, Zc) x y -> jrepr c_p Z okp decp (point_neg Z FpZ (X, Y, Zc)) x (- y).
Proof. exact (neg_repr c_p half_p Z FpZ okp decp FpZ_laws). Qed.
