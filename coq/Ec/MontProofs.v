(* C13 — proofs about the Montgomery / modular layer (Ec/Mont.v) and its tie to the
   limb level (Ec/Z256.v). *)
From Coq Require Import ZArith List Bool Lia ZifyBool.
From GmVerif Require Import Ec.Num Ec.CurveSpec Ec.Z256 Ec.Z256Proofs.
From GmVerif Require Import Ec.Mont.
Import ListNotations.
Local Open Scope Z_scope.

(* ---------------- Montgomery reduction over Z: only m * m' = -1 (mod R) is used ---------------- *)
Section Redc.
  Variables R m m' : Z.
  Hypothesis HR : 0 < R.
  Hypothesis Hm : 0 < m < R.
  Hypothesis Hmm' : (m * m') mod R = R - 1.

  Definition redc_t (z : Z) : Z := (((z mod R) * m') mod R) * m.

  Lemma redc_divisible : forall z, (z + redc_t z) mod R = 0.
  Proof.
    intros z. unfold redc_t.
    pose proof (Z.div_mod z R ltac:(lia)) as E0.
    pose proof (Z.div_mod ((z mod R) * m') R ltac:(lia)) as E1.
    pose proof (Z.div_mod (m * m') R ltac:(lia)) as E2. rewrite Hmm' in E2.
    set (r0 := z mod R) in *. set (q0 := z / R) in *.
    set (r1 := (r0 * m') mod R) in *. set (q1 := (r0 * m') / R) in *.
    set (k := (m * m') / R) in *.
    assert (A1 : r1 * m = r0 * (m * m') - R * q1 * m).
    { replace (r0 * (m * m')) with ((r0 * m') * m) by ring. rewrite E1. ring. }
    rewrite E2 in A1.
    replace (z + r1 * m) with ((q0 + r0 * (k + 1) - q1 * m) * R).
    { apply Z.mod_mul. lia. }
    rewrite A1. lia.
  Qed.

  Lemma redc_spec : forall z, 0 <= z < R * m ->
    let r := (z + redc_t z) / R in
    0 <= r < 2 * m /\ (r * R) mod m = z mod m.
  Proof.
    intros z Hz r.
    pose proof (redc_divisible z) as D.
    assert (E : z + redc_t z = r * R).
    { unfold r. pose proof (Z.div_mod (z + redc_t z) R ltac:(lia)). lia. }
    assert (T : 0 <= redc_t z < R * m).
    { unfold redc_t. pose proof (Z.mod_pos_bound ((z mod R) * m') R HR). nia. }
    split.
    - assert (0 <= r * R < 2 * m * R) by lia. nia.
    - rewrite <- E. unfold redc_t. rewrite Z.add_mod by lia.
      rewrite Z.mod_mul by lia. rewrite Z.add_0_r. apply Z.mod_mod. lia.
  Qed.

  Lemma redc_final : forall z, 0 <= z < R * m ->
    let r := (z + redc_t z) / R in
    let res := if m <=? r then r - m else r in
    0 <= res < m /\ (res * R) mod m = z mod m.
  Proof.
    intros z Hz r res. destruct (redc_spec z Hz) as (B & C). fold r in B, C.
    unfold res. destruct (Z.leb_spec m r).
    - split; [lia|]. rewrite <- C. rewrite Z.mul_sub_distr_r.
      rewrite Zminus_mod. rewrite (Z.mul_comm m R), Z.mod_mul by lia.
      rewrite Z.sub_0_r. apply Z.mod_mod. lia.
    - split; [lia|exact C].
  Qed.
End Redc.

(* ---------------- the value-level model over Z ---------------- *)
Record Kok (K : mconsts ZOps) : Prop := {
  okR : kR K = 2^256; okR2 : kR2 K = 2^512;
  ok0 : k0 K = 0; ok1 : k1 K = 1; ok2 : k2 K = 2;
  okm : 0 < km K < 2^256;
  okodd : km K mod 2 = 1;
  okneg : knegm K = 2^256 - km K;
  okm'r : 0 <= km' K < 2^256;
  okm' : (km K * km' K) mod 2^256 = 2^256 - 1;
}.

Ltac zops := cbn [nadd nsub nmul ndiv nmod neqb nofZ ntoZ ZOps T] in *.
Ltac Zify.zify_post_hook ::= Z.div_mod_to_equations.

Lemma mod_sub_once : forall x m, 0 < m -> m <= x < 2 * m -> x mod m = x - m.
Proof. intros. symmetry. apply Z.mod_unique with (q := 1); lia. Qed.
Lemma mod_add_once : forall x m, 0 < m -> - m <= x < 0 -> x mod m = x + m.
Proof. intros. symmetry. apply Z.mod_unique with (q := -1); lia. Qed.

Section VZ.
  Variable K : mconsts ZOps.
  Hypothesis HK : Kok K.
  Let m := km K.
  Notation R := (2^256).

  Lemma vadd_Z : forall a b, vadd ZOps K a b = ((a + b) mod R, (a + b) / R).
  Proof. intros. unfold vadd. zops. rewrite (okR K HK). reflexivity. Qed.
  Lemma vsub_Z : forall a b, vsub ZOps Z.ltb K a b = ((a - b) mod R, if a <? b then 1 else 0).
  Proof. intros. unfold vsub. zops. rewrite (okR K HK), (ok1 K HK), (ok0 K HK). reflexivity. Qed.

  Theorem vmod_add_spec : forall a b, 0 <= a < m -> 0 <= b < m ->
    vmod_add ZOps Z.ltb K a b = (a + b) mod m.
  Proof.
    intros a b Ha Hb. unfold vmod_add. rewrite vadd_Z. unfold is0, vgeb. zops.
    rewrite !vadd_Z, !vsub_Z. cbn [fst]. rewrite (ok0 K HK), (okneg K HK). fold m.
    pose proof (okm K HK) as Hm. fold m in Hm.
    destruct (Z.eqb_spec ((a + b) / R) 0) as [E|E]; cbn [negb].
    - assert (E1 : (a + b) mod R = a + b) by lia. rewrite E1.
      destruct (Z.ltb_spec (a + b) m); cbn [negb].
      + symmetry. apply Z.mod_small. lia.
      + rewrite (Z.mod_small (a + b - m) R) by lia. rewrite (mod_sub_once (a + b) m) by lia. reflexivity.
    - assert (E1 : (a + b) mod R = a + b - R) by lia. rewrite E1.
      replace (a + b - R + (R - m)) with (a + b - m) by ring.
      rewrite (Z.mod_small (a + b - m) R) by lia. rewrite (mod_sub_once (a + b) m) by lia. reflexivity.
  Qed.

  Theorem vmod_sub_spec : forall a b, 0 <= a < m -> 0 <= b < m ->
    vmod_sub ZOps Z.ltb K a b = (a - b) mod m.
  Proof.
    intros a b Ha Hb. unfold vmod_sub. rewrite vsub_Z. unfold is0. zops.
    rewrite !vsub_Z. cbn [fst]. rewrite (ok0 K HK), (okneg K HK). fold m.
    pose proof (okm K HK) as Hm. fold m in Hm.
    destruct (Z.ltb_spec a b); cbn [Z.eqb negb].
    - assert (E1 : (a - b) mod R = a - b + R) by lia. rewrite E1.
      replace (a - b + R - (R - m)) with (a - b + m) by ring.
      rewrite (Z.mod_small (a - b + m) R) by lia. rewrite (mod_add_once (a - b) m) by lia. reflexivity.
    - assert (E1 : (a - b) mod R = a - b) by lia. rewrite E1. symmetry. apply Z.mod_small. lia.
  Qed.

  Theorem vmod_neg_spec : forall a, 0 <= a < m -> vmod_neg ZOps Z.ltb K a = (- a) mod m.
  Proof.
    intros a Ha. unfold vmod_neg, is0. zops. rewrite (ok0 K HK).
    pose proof (okm K HK) as Hm. fold m in Hm.
    destruct (Z.eqb_spec a 0) as [->|N]; [reflexivity|].
    rewrite vsub_Z. cbn [fst]. fold m.
    rewrite (Z.mod_small (m - a) R) by lia. rewrite (mod_add_once (- a) m) by lia. lia.
  Qed.

  Theorem vmod_dbl_spec : forall a, 0 <= a < m -> vmod_dbl ZOps Z.ltb K a = (2 * a) mod m.
  Proof. intros. unfold vmod_dbl. rewrite vmod_add_spec by auto. f_equal. lia. Qed.

  Theorem vmod_tri_spec : forall a, 0 <= a < m -> vmod_tri ZOps Z.ltb K a = (3 * a) mod m.
  Proof.
    intros a Ha. unfold vmod_tri. pose proof (okm K HK) as Hm. fold m in Hm.
    rewrite (vmod_add_spec a a) by auto.
    rewrite vmod_add_spec; auto; [|apply Z.mod_pos_bound; lia].
    rewrite Z.add_mod_idemp_l by lia. f_equal. lia.
  Qed.

  (* haf: the result h satisfies 0 <= h < m and 2 h = a (mod m) *)
  Theorem vmod_haf_spec : forall a, 0 <= a < m ->
    0 <= vmod_haf ZOps K a < m /\ (2 * vmod_haf ZOps K a) mod m = a.
  Proof.
    intros a Ha. unfold vmod_haf. zops. rewrite vadd_Z.
    rewrite (ok2 K HK), (ok1 K HK), (okR K HK). fold m.
    pose proof (okm K HK) as Hm. fold m in Hm. pose proof (okodd K HK) as Ho. fold m in Ho.
    destruct (Z.eqb_spec (a mod 2) 1) as [E|E].
    - replace ((a + m) mod R + (a + m) / R * R) with (a + m)
        by (pose proof (Z.div_mod (a + m) R ltac:(lia)); lia).
      assert (E2 : a + m = 2 * ((a + m) / 2)) by lia.
      split; [lia|]. rewrite <- E2.
      rewrite <- (Z.mod_small a m) at 2 by lia.
      rewrite <- Z.add_mod_idemp_r, Z.mod_same, Z.add_0_r by lia. reflexivity.
    - assert (E2 : a = 2 * (a / 2)) by lia. split; [lia|]. rewrite <- E2. apply Z.mod_small. lia.
  Qed.

  (* ---- Montgomery multiplication: a, b < m  =>  result < m and result * R = a * b (mod m) ---- *)
  Theorem vmont_mul_spec : forall a b, 0 <= a < m -> 0 <= b < m ->
    0 <= vmont_mul ZOps Z.ltb K a b < m /\
    (vmont_mul ZOps Z.ltb K a b * R) mod m = (a * b) mod m.
  Proof.
    intros a b Ha Hb. unfold vmont_mul, is0, vgeb. zops.
    rewrite !vadd_Z, !vsub_Z. cbn [fst].
    rewrite (okR K HK), (okR2 K HK), (ok0 K HK), (okneg K HK). fold m.
    pose proof (okm K HK) as Hm. fold m in Hm. pose proof (okm' K HK) as Hm'. fold m in Hm'.
    set (z := a * b).
    assert (Hz : 0 <= z < R * m) by (unfold z; nia).
    set (t := ((z mod R * km' K) mod R) * m).
    assert (Et : t = redc_t R m (km' K) z) by reflexivity.
    pose proof (redc_final R m (km' K) ltac:(lia) Hm Hm' z Hz) as F. cbn zeta in F.
    rewrite <- Et in F.
    pose proof (redc_spec R m (km' K) ltac:(lia) Hm Hm' z Hz) as G. cbn zeta in G. rewrite <- Et in G.
    pose proof (redc_divisible R m (km' K) ltac:(lia) Hm' z) as D. rewrite <- Et in D.
    set (s := z + t) in *.
    set (r := s / R) in *.
    assert (Es : s = r * R) by (unfold r; pose proof (Z.div_mod s R ltac:(lia)); lia).
    assert (E512 : 2^512 = R * R) by reflexivity.
    destruct G as (Gr & _).
    destruct (Z.eqb_spec (s / 2^512) 0) as [C|C]; cbn [negb].
    - (* no carry out of 512 bits: the high half is r *)
      assert (Hs : 0 <= s < 2^512) by (rewrite E512 in *; nia || lia).
      rewrite (Z.mod_small s) by lia. fold r.
      destruct (Z.leb_spec m r) as [L|L].
      + replace (r <? m) with false by (symmetry; apply Z.ltb_ge; lia). cbn [negb].
        rewrite (Z.mod_small (r - m)) by lia. exact F.
      + replace (r <? m) with true by (symmetry; apply Z.ltb_lt; lia). cbn [negb]. exact F.
    - (* carry: s >= 2^512, true quotient r = high + R, result = high + (R - m) *)
      assert (Hr : R <= r) by (rewrite E512 in *; nia).
      assert (Eh : (s mod 2^512) / R = r - R).
      { rewrite E512. rewrite Es. rewrite Z.mul_mod_distr_r by lia.
        rewrite Z.div_mul by lia. symmetry. apply Z.mod_unique with (q := 1); lia. }
      rewrite Eh. replace (r - R + (R - m)) with (r - m) by ring.
      rewrite (Z.mod_small (r - m)) by lia.
      replace (m <=? r) with true in F by (symmetry; apply Z.leb_le; lia). exact F.
  Qed.
End VZ.

(* ---------------- limb level = value level, for ALL 256-bit operands ---------------- *)
Lemma split_8 : forall l, length l = 8%nat -> limbs_ok l ->
  z256_ok (firstn 4 l) /\ z256_ok (skipn 4 l) /\
  val l = val (firstn 4 l) + 2^256 * val (skipn 4 l).
Proof.
  intros l L H.
  assert (L1 : length (firstn 4 l) = 4%nat) by (rewrite firstn_length; lia).
  assert (L2 : length (skipn 4 l) = 4%nat) by (rewrite skipn_length; lia).
  rewrite <- (firstn_skipn 4 l) in H. apply Forall_app in H. destruct H as [H1 H2].
  repeat split; auto.
  rewrite <- (firstn_skipn 4 l) at 1. rewrite val_app, L1. reflexivity.
Qed.

Lemma val_mod_div_8 : forall l, length l = 8%nat -> limbs_ok l ->
  val (firstn 4 l) = val l mod 2^256 /\ val (skipn 4 l) = val l / 2^256.
Proof.
  intros l L H. destruct (split_8 l L H) as (A & B & E).
  pose proof (val_bounds_256 _ A). pose proof (val_bounds_256 _ B). lia.
Qed.

Definition Kof (m m' negm r2 : list Z) : mconsts ZOps :=
  Build_mconsts ZOps (2^256) (2^512) 0 1 2 (val m) (val m') (val negm) (val r2).

Theorem modm_add_limb_eq : forall m m' negm r2 a b,
  z256_ok m -> z256_ok negm -> z256_ok a -> z256_ok b ->
  z256_ok (z256_modm_add m negm a b) /\
  val (z256_modm_add m negm a b) = vmod_add ZOps Z.ltb (Kof m m' negm r2) (val a) (val b).
Proof.
  intros m m' negm r2 a b Hm Hn Ha Hb. unfold z256_modm_add, vmod_add, vadd, vsub, is0, vgeb. zops.
  cbn [Kof kR k0 km knegm fst snd].
  destruct (add_spec a b Ha Hb) as (R1 & _ & _). destruct (add_value a b Ha Hb) as (V1 & C1).
  destruct (z256_add a b) as [r c]. cbn [fst snd] in *. rewrite <- V1, <- C1.
  destruct (c =? 0); cbn [negb].
  - rewrite cmp_geb by auto.
    replace (negb (val r <? val m)) with (val m <=? val r)
      by (destruct (Z.leb_spec (val m) (val r)); destruct (Z.ltb_spec (val r) (val m)); try reflexivity; lia).
    destruct (val m <=? val r).
    + destruct (sub_spec r m R1 Hm) as (R2 & _ & _). destruct (sub_value r m R1 Hm) as (V2 & _). auto.
    + auto.
  - destruct (add_spec r negm R1 Hn) as (R2 & _ & _). destruct (add_value r negm R1 Hn) as (V2 & _). auto.
Qed.

Theorem modm_sub_limb_eq : forall m m' negm r2 a b,
  z256_ok negm -> z256_ok a -> z256_ok b ->
  z256_ok (z256_modm_sub negm a b) /\
  val (z256_modm_sub negm a b) = vmod_sub ZOps Z.ltb (Kof m m' negm r2) (val a) (val b).
Proof.
  intros m m' negm r2 a b Hn Ha Hb. unfold z256_modm_sub, vmod_sub, vsub, is0. zops.
  cbn [Kof kR k0 k1 knegm fst snd].
  destruct (sub_spec a b Ha Hb) as (R1 & _ & _). destruct (sub_value a b Ha Hb) as (V1 & C1).
  destruct (z256_sub a b) as [r c]. cbn [fst snd] in *. rewrite <- V1. subst c.
  destruct (val a <? val b); cbn [Z.eqb negb].
  - destruct (sub_spec r negm R1 Hn) as (R2 & _ & _). destruct (sub_value r negm R1 Hn) as (V2 & _). auto.
  - auto.
Qed.

Theorem modm_neg_limb_eq : forall m m' negm r2 a, z256_ok m -> z256_ok a ->
  z256_ok (z256_modm_neg m a) /\
  val (z256_modm_neg m a) = vmod_neg ZOps Z.ltb (Kof m m' negm r2) (val a).
Proof.
  intros m m' negm r2 a Hm Ha. unfold z256_modm_neg, vmod_neg, vsub, is0. zops. cbn [Kof kR km k0 fst].
  rewrite (is_zero_spec a Ha).
  destruct (sub_spec m a Hm Ha) as (R1 & _ & _). destruct (sub_value m a Hm Ha) as (V1 & _).
  destruct R1 as [LR OR].
  destruct (Z.eqb_spec (val a) 0) as [Z0|NZ].
  - change (w64 (0 - (1 - 1))) with 0. rewrite map_land_zero. split.
    + split; [rewrite map_length; exact LR | apply limbs_ok_zeros].
    + apply val_zeros.
  - change (w64 (0 - (1 - 0))) with (2^64 - 1). rewrite map_land_ones64 by exact OR.
    split; [split; auto | exact V1].
Qed.

Theorem mont_mul_limb_eq : forall m m' negm r2 a b,
  z256_ok m -> z256_ok m' -> z256_ok negm -> z256_ok a -> z256_ok b ->
  z256_ok (z256_mont_mul m m' negm a b) /\
  val (z256_mont_mul m m' negm a b) = vmont_mul ZOps Z.ltb (Kof m m' negm r2) (val a) (val b).
Proof.
  intros m m' negm r2 a b Hm Hm' Hn Ha Hb.
  unfold z256_mont_mul, vmont_mul, vadd, vsub, is0, vgeb. zops.
  cbn [Kof kR kR2 k0 km km' knegm fst snd].
  destruct (mul_spec a b Ha Hb) as (Lz & Oz & Vz).
  destruct (split_8 _ Lz Oz) as (Oz1 & _ & _). destruct (val_mod_div_8 _ Lz Oz) as (Vz1 & _).
  destruct (mul_spec _ m' Oz1 Hm') as (Lt & Ot & Vt).
  destruct (split_8 _ Lt Ot) as (Ot1 & _ & _). destruct (val_mod_div_8 _ Lt Ot) as (Vt1 & _).
  destruct (mul_spec _ m Ot1 Hm) as (Lu & Ou & Vu).
  set (z := z256_mul a b) in *.
  set (t := z256_mul (firstn 4 z) m') in *.
  set (u := z256_mul (firstn 4 t) m) in *.
  unfold z512_add.
  destruct (zadd_spec z u ltac:(congruence) Oz Ou) as (Os & Cs & Ls & Es).
  rewrite Lz in Es, Ls. change (2^(64 * Z.of_nat 8)) with (2^512) in Es.
  destruct (zadd z u) as [s c]. cbn [fst snd] in *.
  destruct (split_8 _ Ls Os) as (_ & Or & _). destruct (val_mod_div_8 _ Ls Os) as (_ & Vr).
  pose proof (val_bounds s Os) as Bs. rewrite Ls in Bs. change (2^(64 * Z.of_nat 8)) with (2^512) in Bs.
  assert (Vs : val s = (val z + val u) mod 2^512 /\ c = (val z + val u) / 2^512).
  { destruct Cs as [Cs|Cs]; subst c; lia. }
  destruct Vs as (Vs & Vc).
  assert (Ezu : val z + val u = val a * val b + ((val a * val b) mod 2^256 * val m') mod 2^256 * val m).
  { rewrite Vu, Vt1, Vt, Vz1, Vz. reflexivity. }
  rewrite <- Ezu, <- Vc, <- Vs, <- Vr.
  set (r := skipn 4 s) in *.
  destruct (c =? 0); cbn [negb].
  - rewrite cmp_geb by auto.
    replace (negb (val r <? val m)) with (val m <=? val r)
      by (destruct (Z.leb_spec (val m) (val r)); destruct (Z.ltb_spec (val r) (val m)); try reflexivity; lia).
    destruct (val m <=? val r).
    + destruct (sub_spec r m Or Hm) as (R2 & _ & _). destruct (sub_value r m Or Hm) as (V2 & _). auto.
    + auto.
  - destruct (add_spec r negm Or Hn) as (R2 & _ & _). destruct (add_value r negm Or Hn) as (V2 & _). auto.
Qed.

(* ---------------- straight-line programs: the exponent a chain realises ---------------- *)
Definition oadd (a b : option Z) : option Z :=
  match a, b with Some x, Some y => Some (x + y) | _, _ => None end.
Definition runE := run (option Z) oadd (fun e => oadd e e) None.

Section Chain.
  Variable K : mconsts ZOps.
  Hypothesis HK : Kok K.
  Let m := km K.
  Notation R := (2^256).
  Variable Rinv : Z.
  Hypothesis HRinv : (R * Rinv) mod m = 1.
  Notation mm := (vmont_mul ZOps Z.ltb K).
  Notation sq := (vmont_sqr ZOps Z.ltb K).

  (* the number a Montgomery residue stands for *)
  Definition frm (x : Z) : Z := (x * Rinv) mod m.

  Lemma m_pos : 0 < m. Proof. pose proof (okm K HK). unfold m. lia. Qed.

  Lemma frm_mm : forall a b, 0 <= a < m -> 0 <= b < m ->
    0 <= mm a b < m /\ frm (mm a b) = (frm a * frm b) mod m.
  Proof.
    intros a b Ha Hb. destruct (vmont_mul_spec K HK a b Ha Hb) as (B & E). fold m in B, E.
    split; [exact B|]. unfold frm. pose proof m_pos as Hm.
    set (res := mm a b) in *.
    assert (H1 : (res * Rinv) mod m = ((res * R) * (Rinv * Rinv)) mod m).
    { replace (res * R * (Rinv * Rinv)) with ((res * Rinv) * (R * Rinv)) by ring.
      rewrite (Z.mul_mod (res * Rinv)) by lia. rewrite HRinv, Z.mul_1_r, Z.mod_mod by lia. reflexivity. }
    rewrite H1. rewrite (Z.mul_mod (res * R)) by lia. rewrite E.
    rewrite <- Z.mul_mod by lia. rewrite <- Z.mul_mod by lia. f_equal. ring.
  Qed.

  Lemma frm_one : 1 < m -> frm (knegm K) = 1.
  Proof.
    intros H1. unfold frm. rewrite (okneg K HK). fold m.
    replace ((R - m) * Rinv) with (R * Rinv + (- Rinv) * m) by ring.
    rewrite Z.mod_add by lia. rewrite HRinv. reflexivity.
  Qed.

  Variable A : Z.
  (* rel (Some e) x : x is the Montgomery residue of A^e;  rel None x : nothing is known *)
  Definition rel (eo : option Z) (x : Z) : Prop :=
    match eo with
    | None => True
    | Some e => 0 <= e /\ 0 <= x < m /\ frm x = A^e mod m
    end.

  Lemma rel_mul : forall e1 e2 x y, rel e1 x -> rel e2 y -> rel (oadd e1 e2) (mm x y).
  Proof.
    intros [e1|] [e2|] x y H1 H2; cbn [oadd rel]; auto.
    destruct H1 as (P1 & B1 & F1). destruct H2 as (P2 & B2 & F2).
    destruct (frm_mm x y B1 B2) as (B & F). split; [lia|]. split; [exact B|].
    rewrite F, F1, F2. rewrite <- Z.mul_mod by (pose proof m_pos; lia).
    rewrite Z.pow_add_r by lia. reflexivity.
  Qed.

  Lemma rel_get : forall es xs i, Forall2 rel es xs -> rel (getreg _ None es i) (getreg _ (k0 K) xs i).
  Proof.
    unfold getreg. intros es xs i H. revert i. induction H; intros [|i]; cbn [nth rel]; auto.
  Qed.
  Lemma rel_set : forall es xs i e x, Forall2 rel es xs -> rel e x ->
    Forall2 rel (setreg _ es i e) (setreg _ xs i x).
  Proof.
    intros es xs i e x H. revert i. induction H; intros [|i] Hr; cbn [setreg]; constructor; auto.
  Qed.

  Theorem run_rel : forall prog es xs, Forall2 rel es xs ->
    Forall2 rel (runE prog es) (runF ZOps Z.ltb K prog xs).
  Proof.
    unfold runE, runF, run. induction prog as [|st prog IH]; intros es xs H; cbn [fold_left]; auto.
    apply IH. destruct st as [d s|d s1 s2]; cbn [run_step].
    - apply rel_set; auto. unfold vmont_sqr. apply rel_mul; apply rel_get; auto.
    - apply rel_set; auto. apply rel_mul; apply rel_get; auto.
  Qed.
End Chain.

(* ---------------- the constants of the C file ---------------- *)
Lemma KpZ_ok : Kok KpZ.
Proof. constructor; vm_compute; repeat split; try reflexivity; try discriminate. Qed.
Lemma KnZ_ok : Kok KnZ.
Proof. constructor; vm_compute; repeat split; try reflexivity; try discriminate. Qed.
(* the numeric constants of Mont.v are the limb constants of Z256.v *)
Lemma consts_limbs :
  c_p = val SM2_Z256_P /\ c_p' = val SM2_Z256_P_PRIME /\ c_negp = val SM2_Z256_NEG_P /\
  c_r2p = val SM2_Z256_2e512modp /\ c_n = val SM2_Z256_N /\ c_n' = val SM2_Z256_N_PRIME /\
  c_negn = val SM2_Z256_NEG_N /\ c_r2n = val SM2_Z256_2e512modn /\
  c_sqrt_exp = val SM2_Z256_SQRT_EXP /\ c_mont_b = val SM2_Z256_MODP_MONT_B /\
  c_mont_three = val SM2_Z256_MODP_MONT_THREE /\ c_n_minus_two = val SM2_Z256_N_MINUS_TWO.
Proof. repeat split; reflexivity. Qed.
Lemma KpZ_Kof : KpZ = Kof SM2_Z256_P SM2_Z256_P_PRIME SM2_Z256_NEG_P SM2_Z256_2e512modp.
Proof. reflexivity. Qed.
Lemma KnZ_Kof : KnZ = Kof SM2_Z256_N SM2_Z256_N_PRIME SM2_Z256_NEG_N SM2_Z256_2e512modn.
Proof. reflexivity. Qed.
(* what the remaining constants are supposed to be *)
Lemma consts_meaning :
  c_p = sm2_p /\ c_n = sm2_n /\
  (c_p * c_p') mod 2^256 = 2^256 - 1 /\ (c_n * c_n') mod 2^256 = 2^256 - 1 /\
  c_negp = 2^256 - c_p /\ c_negn = 2^256 - c_n /\
  c_r2p = 2^512 mod c_p /\ c_r2n = 2^512 mod c_n /\
  c_sqrt_exp = (c_p + 1) / 4 /\ c_p mod 4 = 3 /\ c_n_minus_two = c_n - 2 /\
  c_mont_b = (sm2_b * 2^256) mod c_p /\ c_mont_three = (3 * 2^256) mod c_p /\
  sm2_a = c_p - 3.
Proof. vm_compute. repeat split; reflexivity. Qed.

Definition Rinv_p : Z := Eval vm_compute in modinv ZOps c_p (2^256).
Definition Rinv_n : Z := Eval vm_compute in modinv ZOps c_n (2^256).
Lemma Rinv_p_ok : (2^256 * Rinv_p) mod c_p = 1. Proof. vm_compute. reflexivity. Qed.
Lemma Rinv_n_ok : (2^256 * Rinv_n) mod c_n = 1. Proof. vm_compute. reflexivity. Qed.

(* ---------------- instantiated statements ---------------- *)
Theorem modp_mont_mul_spec : forall a b, 0 <= a < c_p -> 0 <= b < c_p ->
  0 <= vmont_mul ZOps Z.ltb KpZ a b < c_p /\
  (vmont_mul ZOps Z.ltb KpZ a b * 2^256) mod c_p = (a * b) mod c_p.
Proof. exact (vmont_mul_spec KpZ KpZ_ok). Qed.
Theorem modn_mont_mul_spec : forall a b, 0 <= a < c_n -> 0 <= b < c_n ->
  0 <= vmont_mul ZOps Z.ltb KnZ a b < c_n /\
  (vmont_mul ZOps Z.ltb KnZ a b * 2^256) mod c_n = (a * b) mod c_n.
Proof. exact (vmont_mul_spec KnZ KnZ_ok). Qed.

(* limb code of the two Montgomery multiplications = value-level model, all operands *)
Theorem modp_mont_mul_limbs : forall a b, z256_ok a -> z256_ok b ->
  z256_ok (z256_modp_mont_mul a b) /\
  val (z256_modp_mont_mul a b) = vmont_mul ZOps Z.ltb KpZ (val a) (val b).
Proof.
  intros a b Ha Hb. rewrite KpZ_Kof. apply mont_mul_limb_eq; auto using P_ok, PPRIME_ok, NEGP_ok.
Qed.
Theorem modn_mont_mul_limbs : forall a b, z256_ok a -> z256_ok b ->
  z256_ok (z256_modn_mont_mul a b) /\
  val (z256_modn_mont_mul a b) = vmont_mul ZOps Z.ltb KnZ (val a) (val b).
Proof.
  intros a b Ha Hb. rewrite KnZ_Kof. apply mont_mul_limb_eq; auto using N_ok, NPRIME_ok, NEGN_ok.
Qed.

Ltac numc := vm_compute; repeat split; try reflexivity; try discriminate.
Lemma c_p_pos : 1 < c_p. Proof. reflexivity. Qed.
Lemma c_n_pos : 1 < c_n. Proof. reflexivity. Qed.

(* to_mont / from_mont *)
Theorem to_from_mont_p : forall a, 0 <= a < c_p ->
  frm KpZ Rinv_p (vto_mont ZOps Z.ltb KpZ a) = a /\ 0 <= vto_mont ZOps Z.ltb KpZ a < c_p /\
  vfrom_mont ZOps Z.ltb KpZ a = frm KpZ Rinv_p a.
Proof.
  intros a Ha. unfold vto_mont, vfrom_mont. pose proof c_p_pos as Hp.
  assert (Hr2 : 0 <= kr2 KpZ < c_p) by numc.
  assert (H1 : 0 <= k1 KpZ < c_p) by numc.
  destruct (frm_mm KpZ KpZ_ok Rinv_p Rinv_p_ok a (kr2 KpZ) Ha Hr2) as (B & F).
  destruct (frm_mm KpZ KpZ_ok Rinv_p Rinv_p_ok a (k1 KpZ) Ha H1) as (B1 & F1).
  destruct (vmont_mul_spec KpZ KpZ_ok a (k1 KpZ) Ha H1) as (_ & E1).
  repeat split; try apply B.
  - rewrite F. unfold frm at 1 2. change (km KpZ) with c_p.
    rewrite <- Z.mul_mod by lia.
    replace (a * Rinv_p * (kr2 KpZ * Rinv_p)) with (a * (kr2 KpZ * Rinv_p * Rinv_p)) by ring.
    rewrite Z.mul_mod by lia.
    replace ((kr2 KpZ * Rinv_p * Rinv_p) mod c_p) with 1 by (vm_compute; reflexivity).
    rewrite Z.mul_1_r, Z.mod_mod by lia. apply Z.mod_small. exact Ha.
  - (* from_mont: res * R = a * 1, so res = a * Rinv *)
    unfold frm. change (km KpZ) with c_p in *. set (res := vmont_mul ZOps Z.ltb KpZ a (k1 KpZ)) in *.
    rewrite <- (Z.mod_small res c_p) by exact B1.
    replace res with (res * 1) at 1 by ring. rewrite <- Rinv_p_ok.
    rewrite Z.mul_mod_idemp_r by lia.
    replace (res * (2^256 * Rinv_p)) with ((res * 2^256) * Rinv_p) by ring.
    rewrite Z.mul_mod by lia. rewrite E1. change (k1 KpZ) with 1. rewrite Z.mul_1_r.
    rewrite <- Z.mul_mod by lia. reflexivity.
Qed.

(* the exponents realised by the two inversion chains and by the square-root exponentiation *)
Theorem modp_inv_chain_exponent :
  getreg _ None (runE modp_inv_prog [Some 1; None; None; None; None; None; None]) 6 = Some (c_p - 2).
Proof. vm_compute. reflexivity. Qed.
Theorem modn_inv_chain_exponent :
  getreg _ None (runE modn_inv_prog [Some 1; Some 1]) 1 = Some (c_n - 2).
Proof. vm_compute. reflexivity. Qed.
Theorem sqrt_exponent :
  getreg _ None (runE (exp_prog (bits_msb 256 c_sqrt_exp)) [Some 1; Some 0]) 1 = Some ((c_p + 1) / 4).
Proof. vm_compute. reflexivity. Qed.

(* modp_mont_inv: for a Montgomery residue a of A, the result is the residue of A^(p-2) *)
Theorem modp_mont_inv_pow : forall a, 0 <= a < c_p ->
  let r := vmodp_mont_inv ZOps Z.ltb KpZ a in
  0 <= r < c_p /\ frm KpZ Rinv_p r = (frm KpZ Rinv_p a) ^ (c_p - 2) mod c_p.
Proof.
  intros a Ha r. unfold r, vmodp_mont_inv.
  set (A := frm KpZ Rinv_p a).
  assert (Hrel : rel KpZ Rinv_p A (Some 1) a).
  { cbn [rel]. split; [lia|]. split; [exact Ha|].
    rewrite Z.pow_1_r. unfold A, frm. symmetry. apply Z.mod_mod. change (km KpZ) with c_p. pose proof c_p_pos. lia. }
  assert (H0 : Forall2 (rel KpZ Rinv_p A) [Some 1; None; None; None; None; None; None]
                       [a; k0 KpZ; k0 KpZ; k0 KpZ; k0 KpZ; k0 KpZ; k0 KpZ]).
  { constructor; [exact Hrel|]. repeat (constructor; [exact I|]). constructor. }
  pose proof (run_rel KpZ KpZ_ok Rinv_p Rinv_p_ok A modp_inv_prog _ _ H0) as H.
  pose proof (rel_get KpZ Rinv_p A _ _ 6%nat H) as G.
  rewrite modp_inv_chain_exponent in G. cbn [rel] in G. destruct G as (_ & B & F).
  split; [exact B | exact F].
Qed.

Theorem modn_mont_inv_pow : forall a, 0 <= a < c_n ->
  let r := vmodn_mont_inv ZOps Z.ltb KnZ a in
  0 <= r < c_n /\ frm KnZ Rinv_n r = (frm KnZ Rinv_n a) ^ (c_n - 2) mod c_n.
Proof.
  intros a Ha r. unfold r, vmodn_mont_inv.
  set (A := frm KnZ Rinv_n a).
  assert (Hrel : rel KnZ Rinv_n A (Some 1) a).
  { cbn [rel]. split; [lia|]. split; [exact Ha|].
    rewrite Z.pow_1_r. unfold A, frm. symmetry. apply Z.mod_mod. change (km KnZ) with c_n. pose proof c_n_pos. lia. }
  assert (H0 : Forall2 (rel KnZ Rinv_n A) [Some 1; Some 1] [a; a]) by (constructor; [exact Hrel|]; constructor; [exact Hrel|]; constructor).
  pose proof (run_rel KnZ KnZ_ok Rinv_n Rinv_n_ok A modn_inv_prog _ _ H0) as H.
  pose proof (rel_get KnZ Rinv_n A _ _ 1%nat H) as G.
  rewrite modn_inv_chain_exponent in G. cbn [rel] in G. destruct G as (_ & B & F).
  split; [exact B | exact F].
Qed.

(* ... and A^(m-2) is the inverse as soon as Fermat's little theorem holds for m, i.e. when m is
   prime: an explicit premise (primality of p and n is not proved in this development) *)
Theorem modp_mont_inv_partial :
  (forall x, 0 < x < c_p -> x ^ (c_p - 1) mod c_p = 1) ->
  forall a, 0 < a < c_p ->
  (frm KpZ Rinv_p (vmodp_mont_inv ZOps Z.ltb KpZ a) * frm KpZ Rinv_p a) mod c_p = 1.
Proof.
  intros Fermat a Ha. pose proof c_p_pos as Hp. destruct (modp_mont_inv_pow a ltac:(lia)) as (_ & F). cbn zeta in F.
  rewrite F. set (A := frm KpZ Rinv_p a).
  assert (HA : 0 < A < c_p).
  { unfold A, frm. change (km KpZ) with c_p.
    pose proof (Z.mod_pos_bound (a * Rinv_p) c_p ltac:(lia)).
    assert (a * Rinv_p mod c_p <> 0); [|lia].
    intro E. (* a = a * Rinv * R = 0 *)
    assert (a mod c_p = 0).
    { replace a with (a * 1) by ring. rewrite <- Rinv_p_ok. rewrite Z.mul_mod_idemp_r by lia.
      replace (a * (2^256 * Rinv_p)) with ((a * Rinv_p) * 2^256) by ring.
      rewrite Z.mul_mod by lia. rewrite E. reflexivity. }
    rewrite Z.mod_small in H0 by lia. lia. }
  rewrite Z.mul_mod_idemp_l by lia.
  replace (A ^ (c_p - 2) * A) with (A ^ (c_p - 1)).
  - apply Fermat. exact HA.
  - replace (c_p - 1) with (c_p - 2 + 1) by ring. rewrite Z.pow_add_r by (try lia; vm_compute; discriminate). rewrite Z.pow_1_r. reflexivity.
Qed.

(* limb code, operands below the modulus: the DESIGN form of mont_mul_spec *)
Theorem modp_mont_mul_limb_spec : forall a b, z256_ok a -> z256_ok b -> val a < c_p -> val b < c_p ->
  let r := z256_modp_mont_mul a b in
  z256_ok r /\ 0 <= val r < c_p /\ (val r * 2^256) mod c_p = (val a * val b) mod c_p.
Proof.
  intros a b Ha Hb La Lb r. destruct (modp_mont_mul_limbs a b Ha Hb) as (O & V). fold r in O, V.
  pose proof (val_bounds_256 _ Ha). pose proof (val_bounds_256 _ Hb).
  destruct (modp_mont_mul_spec (val a) (val b) ltac:(lia) ltac:(lia)) as (B & E).
  rewrite V. auto.
Qed.
Theorem modn_mont_mul_limb_spec : forall a b, z256_ok a -> z256_ok b -> val a < c_n -> val b < c_n ->
  let r := z256_modn_mont_mul a b in
  z256_ok r /\ 0 <= val r < c_n /\ (val r * 2^256) mod c_n = (val a * val b) mod c_n.
Proof.
  intros a b Ha Hb La Lb r. destruct (modn_mont_mul_limbs a b Ha Hb) as (O & V). fold r in O, V.
  pose proof (val_bounds_256 _ Ha). pose proof (val_bounds_256 _ Hb).
  destruct (modn_mont_mul_spec (val a) (val b) ltac:(lia) ltac:(lia)) as (B & E).
  rewrite V. auto.
Qed.


(* limb code of sm2_z256_modp_haf = value-level model, all 256-bit operands *)
Theorem modp_haf_limbs : forall a, z256_ok a ->
  z256_ok (z256_modp_haf a) /\ val (z256_modp_haf a) = vmod_haf ZOps KpZ (val a).
Proof.
  intros a Ha. pose proof Ha as Ha'.
  destruct (z256_ok_inv a Ha) as (a0 & a1 & a2 & a3 & -> & A0 & A1 & A2 & A3).
  unfold z256_modp_haf, vmod_haf. cbn [nth]. cbn [nmod nadd nmul ndiv neqb ZOps T].
  change (k2 KpZ) with 2. change (k1 KpZ) with 1. change (kR KpZ) with (2^256). change (km KpZ) with c_p.
  assert (EL : Z.land a0 1 = a0 mod 2) by (change 1 with (Z.ones 1); rewrite Z.land_ones by lia; reflexivity).
  rewrite !EL.
  assert (Par : val [a0; a1; a2; a3] mod 2 = a0 mod 2).
  { cbn [val]. unfold limb_ok in *. lia. }
  rewrite Par. destruct (Z.eqb_spec (a0 mod 2) 1) as [Odd|Even].
  - destruct (add_spec _ _ Ha' P_ok) as (R & C & E). destruct (add_value _ _ Ha' P_ok) as (V & Cv).
    unfold vadd. cbn [nmod nadd ndiv ZOps T]. change (kR KpZ) with (2^256).
    change (val SM2_Z256_P) with c_p in V, Cv, E.
    destruct (z256_add [a0; a1; a2; a3] SM2_Z256_P) as [r c]. cbn [fst snd] in *.
    destruct (z256_ok_inv r R) as (r0 & r1 & r2 & r3 & -> & R0 & R1 & R2 & R3).
    destruct (haf_shift r0 r1 r2 r3 c R0 R1 R2 R3 C) as [O Vh]. cbv zeta in O, Vh.
    cbv beta iota. split; [exact O|]. rewrite Vh, V, Cv. reflexivity.
  - destruct (haf_shift a0 a1 a2 a3 0 A0 A1 A2 A3 ltac:(left; reflexivity)) as [O Vh]. cbv zeta in O, Vh.
    cbv beta iota. split; [exact O|]. rewrite Vh. rewrite Z.mul_0_l, Z.add_0_r. reflexivity.
Qed.

(* ---------------- the modn family: non-Montgomery wrappers ---------------- *)
Lemma frm_n_range : forall x, 0 <= frm KnZ Rinv_n x < c_n.
Proof. intros. unfold frm. change (km KnZ) with c_n. apply Z.mod_pos_bound. reflexivity. Qed.
Theorem to_from_mont_n : forall a, 0 <= a < c_n ->
  frm KnZ Rinv_n (vto_mont ZOps Z.ltb KnZ a) = a /\ 0 <= vto_mont ZOps Z.ltb KnZ a < c_n /\
  vfrom_mont ZOps Z.ltb KnZ a = frm KnZ Rinv_n a.
Proof.
  intros a Ha. unfold vto_mont, vfrom_mont. pose proof c_n_pos as Hp.
  assert (Hr2 : 0 <= kr2 KnZ < c_n) by numc.
  assert (H1 : 0 <= k1 KnZ < c_n) by numc.
  destruct (frm_mm KnZ KnZ_ok Rinv_n Rinv_n_ok a (kr2 KnZ) Ha Hr2) as (B & F).
  destruct (frm_mm KnZ KnZ_ok Rinv_n Rinv_n_ok a (k1 KnZ) Ha H1) as (B1 & F1).
  destruct (vmont_mul_spec KnZ KnZ_ok a (k1 KnZ) Ha H1) as (_ & E1).
  repeat split; try apply B.
  - rewrite F. unfold frm at 1 2. change (km KnZ) with c_n.
    rewrite <- Z.mul_mod by lia.
    replace (a * Rinv_n * (kr2 KnZ * Rinv_n)) with (a * (kr2 KnZ * Rinv_n * Rinv_n)) by ring.
    rewrite Z.mul_mod by lia.
    replace ((kr2 KnZ * Rinv_n * Rinv_n) mod c_n) with 1 by (vm_compute; reflexivity).
    rewrite Z.mul_1_r, Z.mod_mod by lia. apply Z.mod_small. exact Ha.
  - unfold frm. change (km KnZ) with c_n in *. set (res := vmont_mul ZOps Z.ltb KnZ a (k1 KnZ)) in *.
    rewrite <- (Z.mod_small res c_n) by exact B1.
    replace res with (res * 1) at 1 by ring. rewrite <- Rinv_n_ok.
    rewrite Z.mul_mod_idemp_r by lia.
    replace (res * (2^256 * Rinv_n)) with ((res * 2^256) * Rinv_n) by ring.
    rewrite Z.mul_mod by lia. rewrite E1. change (k1 KnZ) with 1. rewrite Z.mul_1_r.
    rewrite <- Z.mul_mod by lia. reflexivity.
Qed.

Theorem modn_mul_spec : forall a b, 0 <= a < c_n -> 0 <= b < c_n ->
  vmodn_mul ZOps Z.ltb KnZ a b = (a * b) mod c_n.
Proof.
  intros a b Ha Hb. unfold vmodn_mul. pose proof c_n_pos.
  destruct (to_from_mont_n a Ha) as (Da & Oa & _). destruct (to_from_mont_n b Hb) as (Db & Ob & _).
  destruct (frm_mm KnZ KnZ_ok Rinv_n Rinv_n_ok _ _ Oa Ob) as (Om & Fm).
  destruct (to_from_mont_n _ Om) as (_ & _ & Ff). rewrite Ff, Fm, Da, Db. reflexivity.
Qed.
Theorem modn_sqr_spec : forall a, 0 <= a < c_n -> vmodn_sqr ZOps Z.ltb KnZ a = (a * a) mod c_n.
Proof. intros a Ha. exact (modn_mul_spec a a Ha Ha). Qed.
Theorem modn_inv_pow : forall a, 0 <= a < c_n ->
  vmodn_inv ZOps Z.ltb KnZ a = a ^ (c_n - 2) mod c_n.
Proof.
  intros a Ha. unfold vmodn_inv.
  destruct (to_from_mont_n a Ha) as (Da & Oa & _).
  destruct (modn_mont_inv_pow _ Oa) as (Oi & Fi). cbv zeta in Oi, Fi.
  destruct (to_from_mont_n _ Oi) as (_ & _ & Ff). rewrite Ff, Fi, Da. reflexivity.
Qed.
(* = the inverse under Fermat's little theorem for n (i.e. n prime): explicit premise *)
Theorem modn_inv_partial :
  (forall x, 0 < x < c_n -> x ^ (c_n - 1) mod c_n = 1) ->
  forall a, 0 < a < c_n -> (vmodn_inv ZOps Z.ltb KnZ a * a) mod c_n = 1.
Proof.
  intros Fermat a Ha. rewrite modn_inv_pow by lia. pose proof c_n_pos.
  rewrite Z.mul_mod_idemp_l by lia.
  replace (a ^ (c_n - 2) * a) with (a ^ (c_n - 1)).
  - apply Fermat. exact Ha.
  - replace (c_n - 1) with (c_n - 2 + 1) by ring. rewrite Z.pow_add_r by (try lia; vm_compute; discriminate).
    rewrite Z.pow_1_r. reflexivity.
Qed.
