(* String-level entry points used by the correspondence checks of C01 / C02
   (core.coq_eval evaluates these with vm_compute over Bignums.BigZ).
   Arguments are hex strings (or Gallina lists of them); each function prints the
   same canonical result line as props/C01/harness.c / props/C02/harness.c. *)
From Coq Require Import String Ascii.
From GmVerif Require Import Base.Bytes Base.HexStr Ec.Num Ec.CurveSpec Hash.MD Hash.SM3
  Hash.Hmac Hash.Instances Ec.Sm2Der Ec.SM2Sign Ec.SM2Enc.
Local Open Scope Z_scope.
Local Open Scope string_scope.

Definition B := BigOps.
Definition hx (s : string) : list N := if String.eqb s "-" then [] else hex_to_bytes s.
Definition hz (s : string) : Z := hex_to_Z s.
Definition z64 (x : Z) : string := Z_to_hex64 x.
Definition bhex (l : list N) : string := match l with [] => "-" | _ => bytes_to_hex l end.
Definition cnt (k : nat) : string := Z_to_hex 4 (Z.of_nat k).

Fixpoint chunk32 (fuel : nat) (l : list N) : list (list N) :=
  match fuel with
  | O => []
  | S f => match l with [] => [] | _ => firstn 32 l :: chunk32 f (skipn 32 l) end
  end.
Definition ent_of (s : string) : ent := let b := hx s in chunk32 (length b) b.
Definition used (e0 e1 : ent) : string := cnt (length e0 - length e1).

(* a public key given as x || y (64 bytes); the harness imports it with
   sm2_z256_point_from_bytes, so only valid points are ever passed *)
Definition pt_of (s : string) : point B :=
  let b := hx s in
  Some (nofZ B (be_to_Z (firstn 32 b)), nofZ B (be_to_Z (skipn 32 b))).
Definition pub_of_d (d : Z) : point B := sm2_mulG B d.

(* ---------------- C01 ---------------- *)
Definition c01_sign (d e en : string) : string :=
  let e0 := ent_of en in
  match do_sign B (hz d) (hz e) e0 with
  | Some ((r, s), e1) => z64 r ++ " " ++ z64 s ++ " " ++ used e0 e1
  | None => "ERR"
  end.
Definition c01_signder (d e en : string) : string :=
  let e0 := ent_of en in
  match sm2_sign B (hz d) (hz e) e0 with
  | Some (sg, e1) => bhex sg ++ " " ++ used e0 e1
  | None => "ERR"
  end.
Definition c01_signfix (d e : string) (siglen : nat) (en : string) : string :=
  let e0 := ent_of en in
  match sm2_sign_fixlen B (hz d) (hz e) siglen e0 with
  | Some (sg, e1) => bhex sg ++ " " ++ used e0 e1
  | None => "ERR"
  end.
Definition ok (b : bool) : string := if b then "OK" else "ERR".
Definition c01_verify (P e r s : string) : string := ok (do_verify B (pt_of P) (hz e) (hz r) (hz s)).
Definition c01_verifyder (P e sg : string) : string := ok (sm2_verify B (pt_of P) (hz e) (hx sg)).
Definition c01_z (P idbuf : string) (idlen : nat) : string :=
  match compute_z B (pt_of P) (hx idbuf) idlen with
  | ZOk z => bhex z
  | ZFault => "FAULT"
  end.
Definition c01_fastsign (fd k x1 e : string) : string :=
  match fast_sign (hz fd) (hz k, hz x1) (hz e) with
  | Some sg => z64 (fst sg) ++ " " ++ z64 (snd sg)
  | None => "ERR"
  end.

Definition id_of (id : option (string * nat)) : option (list N * nat) :=
  match id with None => None | Some (s, l) => Some (hx s, l) end.

(* sm2_sign_init; then per round: updates, finish, reset *)
Fixpoint sstream_rounds (c : sign_ctx) (rounds : list (list string)) (en : ent)
  : option (list string * ent) :=
  match rounds with
  | [] => Some ([], en)
  | chunks :: rest =>
    let c1 := fold_left sign_update (map hx chunks) c in
    match sign_finish B c1 en with
    | None => None
    | Some (sg, c2, en') =>
      match sstream_rounds (sign_reset c2) rest en' with
      | None => None
      | Some (sgs, en'') => Some (bhex sg :: sgs, en'')
      end
    end
  end.
Fixpoint join (sep : string) (l : list string) : string :=
  match l with [] => "" | [x] => x | x :: r => x ++ sep ++ join sep r end.
Definition c01_sstream (d : string) (id : option (string * nat)) (rounds : list (list string)) (en : string) : string :=
  let e0 := ent_of en in
  (* the public key is not needed when id = NULL; avoid the scalar multiplication then *)
  let P := match id with None => None | Some _ => pub_of_d (hz d) end in
  match sign_init B (hz d) P (id_of id) e0 with
  | IErr => "ERR" | IFault => "FAULT"
  | IOk (c, e1) =>
    match sstream_rounds c rounds e1 with
    | None => "ERR"
    | Some (sgs, e2) => join "," sgs ++ " " ++ used e0 e2
    end
  end.
(* as c01_sstream with the public key supplied (saves the model one scalar multiplication) *)
Definition c01_sstreamP (d P : string) (id : option (string * nat)) (rounds : list (list string)) (en : string) : string :=
  let e0 := ent_of en in
  match sign_init B (hz d) (pt_of P) (id_of id) e0 with
  | IErr => "ERR" | IFault => "FAULT"
  | IOk (c, e1) =>
    match sstream_rounds c rounds e1 with
    | None => "ERR"
    | Some (sgs, e2) => join "," sgs ++ " " ++ used e0 e2
    end
  end.
Definition c01_sfinfix (d P : string) (id : option (string * nat)) (chunks : list string) (siglen : nat) (en : string) : string :=
  let e0 := ent_of en in
  match sign_init B (hz d) (pt_of P) (id_of id) e0 with
  | IErr => "ERR" | IFault => "FAULT"
  | IOk (c, e1) =>
    match sign_finish_fixlen B (fold_left sign_update (map hx chunks) c) siglen e1 with
    | None => "ERR"
    | Some (sg, e2) => bhex sg ++ " " ++ used e0 e2
    end
  end.
Definition c01_vstream (P : string) (id : option (string * nat)) (chunks : list string) (sg : string) : string :=
  match verify_init B (pt_of P) (id_of id) with
  | IErr => "ERR" | IFault => "FAULT"
  | IOk c => ok (verify_finish B (fold_left (verify_update B) (map hx chunks) c) (hx sg))
  end.

(* the Spec value of Z for exactly the given ID bytes *)
Definition c01_zspec (P id : string) : string := bhex (z_spec B (pt_of P) (hx id)).

(* one-shot interfaces with the ID: e = SM3(Z || M) computed by the caller, then sm2_sign / sm2_verify *)
Definition c01_sign1 (d P idbuf : string) (idlen : nat) (msg en : string) : string :=
  match compute_z B (pt_of P) (hx idbuf) idlen with
  | ZFault => "FAULT"
  | ZOk z =>
    let e0 := ent_of en in
    match sm2_sign B (hz d) (be_to_Z (sm3 (z ++ hx msg))) e0 with
    | Some (sg, e1) => bhex sg ++ " " ++ used e0 e1
    | None => "ERR"
    end
  end.
Definition c01_vstream1 (P idbuf : string) (idlen : nat) (msg sg : string) : string :=
  match compute_z B (pt_of P) (hx idbuf) idlen with
  | ZFault => "FAULT"
  | ZOk z => ok (sm2_verify B (pt_of P) (be_to_Z (sm3 (z ++ hx msg))) (hx sg))
  end.

(* ---------------- C02 ---------------- *)
Definition ct_line (c : sm2_ct) : string :=
  bhex (ct_x c) ++ " " ++ bhex (ct_y c) ++ " " ++ bhex (ct_hash c) ++ " " ++ bhex (ct_c c).
Definition c02_enc (P m en : string) : string :=
  let e0 := ent_of en in
  match sm2_encrypt B (pt_of P) (hx m) e0 with
  | Some (o, e1) => bhex o ++ " " ++ used e0 e1
  | None => "ERR"
  end.
Definition c02_doenc (P m en : string) : string :=
  let e0 := ent_of en in
  match do_encrypt B (pt_of P) (hx m) e0 with
  | Some (c, e1) => ct_line c ++ " " ++ used e0 e1
  | None => "ERR"
  end.
Definition c02_encfix (P m : string) (psize : N) (en : string) : string :=
  let e0 := ent_of en in
  match sm2_encrypt_fixlen B (pt_of P) (hx m) psize e0 with
  | Some (o, e1) => bhex o ++ " " ++ used e0 e1
  | None => "ERR"
  end.
Definition optb (o : option (list N)) : string := match o with Some m => bhex m | None => "ERR" end.
Definition c02_dec (d ct : string) : string := optb (sm2_decrypt B (hz d) (hx ct)).
Definition c02_dodec (d x y hash c : string) : string :=
  optb (do_decrypt B (hz d) (mkct (hx x) (hx y) (hx hash) (hx c))).
Definition c02_estream (P : string) (chunks : list string) (en : string) : string :=
  let e0 := ent_of en in
  match encrypt_stream B (pt_of P) (map hx chunks) e0 with
  | Some (o, e1) => bhex o ++ " " ++ used e0 e1
  | None => "ERR"
  end.
Definition c02_dstream (d : string) (chunks : list string) : string :=
  optb (decrypt_stream B (hz d) (map hx chunks)).
Definition c02_ecdh (d peer : string) : string := optb (sm2_ecdh B (hz d) (hx peer)).

(* the ciphertext an invalid-curve attacker would send: C1 = Q, an arbitrary pair of field elements
   (not on the curve), C2 / C3 computed for the point that the chord-tangent formulas (which do not
   involve b) give for [d]Q.  A decryptor that skips the on-curve test accepts it. *)
Definition c02_forge_offcurve (d qx qy m : string) : string :=
  let Q := mkpt B (hz qx) (hz qy) in
  let R := sm2_mul B (hz d) Q in
  let x2 := to32 (get_x B R) in
  let y2 := to32 (get_y B R) in
  let t := sm2_kdf (x2 ++ y2) (length (hx m)) in
  ct_line (mkct (to32 (hz qx)) (to32 (hz qy)) (c3_hash x2 (hx m) y2) (xor_bytes t (hx m))).

(* ---------------- pre-computation interfaces (batch inversion) ---------------- *)
(* stand-ins for the unobservable Jacobian Z coordinates (any non-zero values give the same result:
   fast_pre_compute_eq_partial / enc_pre_compute_eq_partial) *)
Definition zs_for (cnt : nat) : list Z := map (fun i => 0x1234567 * Z.of_nat i + 2) (seq 0 cnt).

Definition c01_signpre (en : string) : string :=
  let e0 := ent_of en in
  match fast_pre_compute B (zs_for 32) e0 with
  | Some (pre, e1) => join ";" (map (fun kx => z64 (fst kx) ++ "," ++ z64 (snd kx)) pre) ++ " " ++ used e0 e1
  | None => "ERR"
  end.

Definition slot_str (s : Z * (Z * Z)) : string :=
  z64 (fst s) ++ "," ++ z64 (fst (snd s)) ++ "," ++ z64 (snd (snd s)).
Definition c02_encpre (en : string) : string :=
  let e0 := ent_of en in
  match enc_pre_compute B (zs_for 8) e0 with
  | Some (pre, e1) => join ";" (map slot_str pre) ++ " " ++ used e0 e1
  | None => "ERR"
  end.
Definition ex_str (r : exres) : string :=
  match r with ExOk c => bhex (ct_to_der c) | ExRetry => "RETRY" | ExErr => "ERR" end.
Definition c02_encex (P m k x y : string) : string :=
  ex_str (do_encrypt_ex B (pt_of P) (hz k, (hz x, hz y)) (hx m)).
(* pre-compute, then sm2_do_encrypt_ex with EACH of the 8 slots on the same message *)
Definition c02_encpreex (P m en : string) : string :=
  let e0 := ent_of en in
  match enc_pre_compute B (zs_for 8) e0 with
  | Some (pre, e1) => join "," (map (fun s => ex_str (do_encrypt_ex B (pt_of P) s (hx m))) pre) ++ " " ++ used e0 e1
  | None => "ERR"
  end.

(* SM2_ENC_CTX over several messages (round = updates, finish, reset) *)
Fixpoint ctx_rounds_default (P : point B) (rounds : list (list string)) (en : ent) : option (list string * ent) :=
  match rounds with
  | [] => Some ([], en)
  | chunks :: rest =>
    match encrypt_stream B P (map hx chunks) en with
    | None => None
    | Some (o, en') =>
      match ctx_rounds_default P rest en' with
      | None => None
      | Some (outs, en'') => Some (bhex o :: outs, en'')
      end
    end
  end.
(* default build: sm2_encrypt_finish calls sm2_encrypt *)
Definition c02_ectxr (P : string) (rounds : list (list string)) (en : string) : string :=
  let e0 := ent_of en in
  match ctx_rounds_default (pt_of P) rounds e0 with
  | Some (outs, e1) => join "," outs ++ " " ++ used e0 e1
  | None => "ERR"
  end.
(* library built with -DENABLE_SM2_ENC_PRE_COMPUTE=1 *)
Definition c02_ectxr_pre (P : string) (rounds : list (list string)) (en : string) : string :=
  let e0 := ent_of en in
  match encrypt_ctx_pre B (zs_for 8) (pt_of P) (map (map hx) rounds) e0 with
  | Some (outs, e1) => join "," (map bhex outs) ++ " " ++ used e0 e1
  | None => "ERR"
  end.

(* ---------------- wave 5: key objects, print parsers, size queries, context reuse ---------------- *)
Definition pt_str (P : point B) : string := z64 (get_x B P) ++ z64 (get_y B P).
Definition c01_keygen (en : string) : string :=
  let e0 := ent_of en in
  match key_generate B e0 with
  | Some (d, P, e1) => z64 d ++ " " ++ pt_str P ++ " " ++ used e0 e1
  | None => "ERR"
  end.
Definition c01_setpriv (d : string) : string :=
  match key_set_private B (hz d) with Some (_, P) => pt_str P | None => "ERR" end.
Definition c01_fastkey (d : string) : string :=
  match fast_key B (hz d) with Some f => z64 f | None => "ERR" end.
Definition c01_pkdigest (P : string) : string :=
  match public_key_digest B (pt_of P) with Some h => bhex h | None => "ERR" end.
Definition c01_pkequ (P Q : string) : string := if public_key_equ B (pt_of P) (pt_of Q) then "1" else "0".
Definition c01_sigprint (a : string) : string := ok (signature_print_ok (hx a)).
Definition c02_ctprint (a : string) : string := ok (ciphertext_print_ok (hx a)).
Definition optn (o : option N) : string := match o with Some v => cnt (N.to_nat v) | None => "ERR" end.
Definition c02_equery (chunks : list string) : string := optn (encrypt_finish_query (map hx chunks)).
Definition c02_dquery (chunks : list string) : string := optn (decrypt_finish_query (map hx chunks)).
(* one SM2_DEC_CTX over several ciphertexts (round = updates, finish, reset); an error stops the run *)
Fixpoint dctx_rounds (d : Z) (rounds : list (list string)) : option (list string) :=
  match rounds with
  | [] => Some []
  | chunks :: rest =>
    match decrypt_stream B d (map hx chunks) with
    | None => None
    | Some m => match dctx_rounds d rest with None => None | Some ms => Some (bhex m :: ms) end
    end
  end.
Definition c02_dctxr (d : string) (rounds : list (list string)) : string :=
  match dctx_rounds (hz d) rounds with Some ms => join "," ms | None => "ERR" end.
(* verify context over several (message, signature) pairs with reset in between *)
Fixpoint vctx_rounds (c : verify_ctx B) (rounds : list (list string * string)) : list string :=
  match rounds with
  | [] => []
  | (chunks, sg) :: rest =>
    let c1 := fold_left (verify_update B) (map hx chunks) c in
    ok (verify_finish B c1 (hx sg)) :: vctx_rounds (verify_reset B c1) rest
  end.
Definition c01_vctxr (P : string) (id : option (string * nat)) (rounds : list (list string * string)) : string :=
  match verify_init B (pt_of P) (id_of id) with
  | IErr => "ERR" | IFault => "FAULT"
  | IOk c => join "," (vctx_rounds c rounds)
  end.

(* signing context with a separate entropy script per round; a failing finish (entropy exhausted
   during the refill) is reported as ERR and the caller goes on: reset, next message.  The failed
   sm2_sign_finish leaves num_pre_comp unchanged and only dead pre_comp entries overwritten. *)
Fixpoint sstreamf_rounds (c : sign_ctx) (rounds : list (list string * string)) : list string :=
  match rounds with
  | [] => []
  | (chunks, en) :: rest =>
    let c1 := fold_left sign_update (map hx chunks) c in
    match sign_finish B c1 (ent_of en) with
    | Some (sg, c2, _) => bhex sg :: sstreamf_rounds (sign_reset c2) rest
    | None => "ERR" :: sstreamf_rounds (sign_reset c1) rest
    end
  end.
Definition c01_sstreamf (d P : string) (id : option (string * nat)) (en0 : string)
           (rounds : list (list string * string)) : string :=
  match sign_init B (hz d) (pt_of P) (id_of id) (ent_of en0) with
  | IErr => "ERR" | IFault => "FAULT"
  | IOk (c, _) => join "," (sstreamf_rounds c rounds)
  end.
