(* C13 — signed-window (Booth) recoding: value-level definition of the digit that
   sm2_z256_get_booth(k, w, i) extracts, and the digit list of a scalar.
   The limb-level transcription is Z256.z256_get_booth; BoothProofs.v proves
   (1) limb level = value level, (2) sum d_i 2^(w i) = k, (3) digit range. *)
From Coq Require Import ZArith List.
From GmVerif Require Import Ec.Z256.
Import ListNotations.
Local Open Scope Z_scope.

(* window i looks at bits [w*i-1 .. w*i+w-1] of k (bit -1 is 0) *)
Definition booth_v (k w i : Z) : Z :=
  let v := (2 * k / 2^(w * i)) mod 2^(w + 1) in
  v mod 2^w - (v / 2) mod 2^w.

(* number of windows: (256 + w - 1) / w *)
Definition booth_n (w : Z) : nat := Z.to_nat ((256 + w - 1) / w).

(* digits, least significant window first *)
Definition booth_digits_v (k w : Z) : list Z :=
  map (fun i => booth_v k w (Z.of_nat i)) (seq 0 (booth_n w)).
(* the same through the limb-level code *)
Definition booth_digits (k w : Z) : list Z :=
  map (fun i => z256_get_booth (limbs 4 k) w (Z.of_nat i)) (seq 0 (booth_n w)).

Fixpoint booth_sum (w : Z) (i : Z) (ds : list Z) : Z :=
  match ds with [] => 0 | d :: r => d * 2^(w * i) + booth_sum w (i + 1) r end.
