(* C13 — value-level Impl models of the modular layer of src/sm2_z256.c: the same
   control flow as the limb code, but a z256 is one number in [0, 2^256).  Generic over
   the number operations of Ec/Num.v so that one text serves the proofs (ZOps) and the
   runs inside Coq (BigOps).  Z256Proofs/MontProofs tie the limb level to this level. *)
From Coq Require Import ZArith List Bool.
From Bignums Require Import BigZ.
From GmVerif Require Import Ec.Num.
Import ListNotations.
Local Open Scope Z_scope.

(* constants of one modulus, all as numbers *)
Record mconsts (O : numops) := {
  kR : T O;          (* 2^256 *)
  kR2 : T O;         (* 2^512 *)
  k0 : T O; k1 : T O; k2 : T O;
  km : T O;          (* modulus: SM2_Z256_P / SM2_Z256_N *)
  km' : T O;         (* SM2_Z256_P_PRIME / N_PRIME *)
  knegm : T O;       (* SM2_Z256_NEG_P / NEG_N = mont(1) *)
  kr2 : T O;         (* SM2_Z256_2e512modp / 2e512modn *)
}.
Arguments kR {O}. Arguments kR2 {O}. Arguments k0 {O}. Arguments k1 {O}. Arguments k2 {O}.
Arguments km {O}. Arguments km' {O}. Arguments knegm {O}. Arguments kr2 {O}.

Definition mk_consts (O : numops) (m m' negm r2 : Z) : mconsts O :=
  {| kR := nofZ O (2^256); kR2 := nofZ O (2^512); k0 := nofZ O 0; k1 := nofZ O 1; k2 := nofZ O 2;
     km := nofZ O m; km' := nofZ O m'; knegm := nofZ O negm; kr2 := nofZ O r2 |}.

(* the numeric constants of the C file (checked against the limb constants of Z256.v in
   MontProofs.v and against the compiled library by the correspondence run) *)
Definition c_p : Z := 0xfffffffeffffffffffffffffffffffffffffffff00000000ffffffffffffffff.
Definition c_p' : Z := 0xfffffffc00000001fffffffe00000000ffffffff000000010000000000000001.
Definition c_negp : Z := 0x0000000100000000000000000000000000000000ffffffff0000000000000001.
Definition c_r2p : Z := 0x0000000400000002000000010000000100000002ffffffff0000000200000003.
Definition c_n : Z := 0xfffffffeffffffffffffffffffffffff7203df6b21c6052b53bbf40939d54123.
Definition c_n' : Z := 0x6f39132f82e4c7bc2b0068d3b08941d4df1e8d34fc8319a5327f9e8872350975.
Definition c_negn : Z := 0x000000010000000000000000000000008dfc2094de39fad4ac440bf6c62abedd.
Definition c_r2n : Z := 0x1eb5e412a22b3d3b620fc84c3affe0d43464504ade6fa2fa901192af7c114f20.
Definition c_sqrt_exp : Z := 0x3fffffffbfffffffffffffffffffffffffffffffc00000004000000000000000.
Definition c_mont_b : Z := 0x240fe188ba20e2c8527981505ea51c3c71cf379ae9b537ab90d230632bc0dd42.
Definition c_mont_three : Z := 0x0000000300000000000000000000000000000002fffffffd0000000000000003.
Definition c_n_minus_two : Z := 0xfffffffeffffffffffffffffffffffff7203df6b21c6052b53bbf40939d54121.

Section V.
  Variable O : numops.
  Variable ltb : T O -> T O -> bool.      (* a < b *)
  Notation T := (T O).
  Variable K : mconsts O.

  Definition is0 (x : T) : bool := neqb O x (k0 K).
  (* sm2_z256_add: (low 256 bits, carry) *)
  Definition vadd (a b : T) : T * T :=
    let s := nadd O a b in (nmod O s (kR K), ndiv O s (kR K)).
  (* sm2_z256_sub: (difference mod 2^256, borrow) *)
  Definition vsub (a b : T) : T * T :=
    let d := nsub O a b in (nmod O d (kR K), if ltb a b then k1 K else k0 K).
  Definition vgeb (a b : T) : bool := negb (ltb a b).      (* sm2_z256_cmp(a,b) >= 0 *)

  Definition vmod_add (a b : T) : T :=
    let '(r, c) := vadd a b in
    if negb (is0 c) then fst (vadd r (knegm K))
    else if vgeb r (km K) then fst (vsub r (km K)) else r.
  Definition vmod_sub (a b : T) : T :=
    let '(r, c) := vsub a b in
    if negb (is0 c) then fst (vsub r (knegm K)) else r.
  (* m - a, masked to 0 when a = 0 *)
  Definition vmod_neg (a : T) : T := if is0 a then k0 K else fst (vsub (km K) a).
  Definition vmod_neg_old (a : T) : T := fst (vsub (km K) a).
  Definition vmod_dbl (a : T) : T := vmod_add a a.
  Definition vmod_tri (a : T) : T := vmod_add (vmod_add a a) a.
  (* modp_haf: (a odd ? a + p : a) shifted right by one, the carry entering at bit 255 *)
  Definition vmod_haf (a : T) : T :=
    if neqb O (nmod O a (k2 K)) (k1 K)
    then let '(r, c) := vadd a (km K) in ndiv O (nadd O r (nmul O c (kR K))) (k2 K)
    else ndiv O a (k2 K).

  (* sm2_z256_mod{p,n}_mont_mul *)
  Definition vmont_mul (a b : T) : T :=
    let z := nmul O a b in
    let t := nmul O (nmod O z (kR K)) (km' K) in
    let t := nmul O (nmod O t (kR K)) (km K) in
    let s := nadd O z t in
    let c := ndiv O s (kR2 K) in
    let r := ndiv O (nmod O s (kR2 K)) (kR K) in
    if negb (is0 c) then fst (vadd r (knegm K))
    else if vgeb r (km K) then fst (vsub r (km K)) else r.
  Definition vmont_sqr (a : T) : T := vmont_mul a a.
  Definition vto_mont (a : T) : T := vmont_mul a (kr2 K).
  Definition vfrom_mont (a : T) : T := vmont_mul a (k1 K).

End V.

(* bits of a 64-bit word / 256-bit number, most significant first *)
Definition bits_msb (nbits : nat) (e : Z) : list bool :=
  map (fun i => Z.testbit e (Z.of_nat i)) (rev (seq 0 nbits)).

(* ---- straight-line programs of Montgomery squarings / multiplications ----
   The exponentiation loop and the two inversion addition chains of the C file are
   sequences of  sqr(dst, src)  and  mul(dst, src1, src2)  on a few temporaries; they are
   transcribed as data (one [step] per C statement, loops unrolled by [rep]) and run by
   [run] over any carrier: over field elements this is the Impl model, over exponents
   (mul := +, sqr := doubling) it computes the exponent the chain realises. *)
Inductive step := Sq (d s : nat) | Mu (d s1 s2 : nat).
Fixpoint rep {A} (n : nat) (l : list A) : list A :=
  match n with Datatypes.O => [] | S k => l ++ rep k l end.
Section Run.
  Variable X : Type.
  Variable mul : X -> X -> X.
  Variable sqr : X -> X.
  Variable dflt : X.
  Fixpoint setreg (regs : list X) (i : nat) (v : X) : list X :=
    match regs, i with
    | [], _ => []
    | _ :: r, Datatypes.O => v :: r
    | x :: r, S k => x :: setreg r k v
    end.
  Definition getreg (regs : list X) (i : nat) : X := nth i regs dflt.
  Definition run_step (regs : list X) (st : step) : list X :=
    match st with
    | Sq d s => setreg regs d (sqr (getreg regs s))
    | Mu d s1 s2 => setreg regs d (mul (getreg regs s1) (getreg regs s2))
    end.
  Definition run (prog : list step) (regs : list X) : list X := fold_left run_step prog regs.
End Run.

(* sm2_z256_modp_mont_exp / modn_mont_exp: registers 0 = a, 1 = t (starts at mont(1));
   for every bit from the top: t = t^2; if (bit) t = t*a *)
Definition exp_prog (bits : list bool) : list step :=
  flat_map (fun b : bool => if b then [Sq 1 1; Mu 1 1 0] else [Sq 1 1]) bits.

(* sm2_z256_modp_mont_inv: registers 0 = a, 1..5 = a1..a5, 6 = r; one line per C statement *)
Definition modp_inv_prog : list step :=
  [ Sq 1 0; Mu 2 1 0; Sq 3 2; Sq 3 3; Mu 3 3 2;
    Sq 4 3; Sq 4 4; Sq 4 4; Sq 4 4; Mu 4 4 3;
    Sq 5 4 ] ++ rep 7 [Sq 5 5] ++
  [ Mu 5 5 4 ] ++ rep 8 [Sq 5 5] ++
  [ Mu 5 5 4 ] ++ rep 4 [Sq 5 5] ++
  [ Mu 5 5 3; Sq 5 5; Sq 5 5; Mu 5 5 2; Sq 5 5; Mu 5 5 0;
    Sq 4 5; Mu 3 4 1; Sq 5 4 ] ++ rep 30 [Sq 5 5] ++
  [ Mu 4 5 4; Sq 4 4; Mu 4 4 0; Mu 3 4 2 ] ++ rep 33 [Sq 5 5] ++
  [ Mu 2 5 3; Mu 3 2 3 ] ++ rep 32 [Sq 5 5] ++
  [ Mu 2 5 3; Mu 3 2 3; Mu 4 2 4 ] ++ rep 32 [Sq 5 5] ++
  [ Mu 2 5 3; Mu 3 2 3; Mu 4 2 4 ] ++ rep 32 [Sq 5 5] ++
  [ Mu 2 5 3; Mu 3 2 3; Mu 4 2 4 ] ++ rep 32 [Sq 5 5] ++
  [ Mu 2 5 3; Mu 3 2 3; Mu 4 2 4 ] ++ rep 32 [Sq 5 5] ++
  [ Mu 6 4 5 ].

(* sm2_z256_modn_mont_inv: registers 0 = a, 1 = t (starts as a copy of a) *)
Definition modn_inv_prog : list step :=
  rep 30 [Sq 1 1; Mu 1 1 0] ++ [Sq 1 1] ++ rep 96 [Sq 1 1; Mu 1 1 0] ++
  exp_prog (bits_msb 64 (c_n_minus_two / 2^64 mod 2^64)) ++
  exp_prog (bits_msb 64 (c_n_minus_two mod 2^64)).

Section V2.
  Variable O : numops.
  Variable ltb : T O -> T O -> bool.
  Notation T := (T O).
  Variable K : mconsts O.
  Notation mm := (vmont_mul O ltb K).
  Notation sq := (vmont_sqr O ltb K).
  Definition runF := run T mm sq (k0 K).

  Definition vmont_exp (a : T) (e : Z) : T :=
    getreg T (k0 K) (runF (exp_prog (bits_msb 256 e)) [a; knegm K]) 1.
  Definition vmodp_mont_inv (a : T) : T :=
    let z := k0 K in getreg T (k0 K) (runF modp_inv_prog [a; z; z; z; z; z; z]) 6.
  Definition vmodn_mont_inv (a : T) : T :=
    getreg T (k0 K) (runF modn_inv_prog [a; a]) 1.

  (* sm2_z256_modp_mont_sqrt: Some r when r^2 = a, None for "no root" (return 0) *)
  Definition vmodp_mont_sqrt (a : T) : option T :=
    let r := vmont_exp a c_sqrt_exp in
    if neqb O (sq r) a then Some r else None.

  (* non-Montgomery wrappers of the modn family *)
  Definition vmodn_mul (a b : T) : T :=
    vfrom_mont O ltb K (mm (vto_mont O ltb K a) (vto_mont O ltb K b)).
  Definition vmodn_sqr (a : T) : T := vfrom_mont O ltb K (sq (vto_mont O ltb K a)).
  Definition vmodn_exp (a : T) (e : Z) : T := vfrom_mont O ltb K (vmont_exp (vto_mont O ltb K a) e).
  Definition vmodn_inv (a : T) : T := vfrom_mont O ltb K (vmodn_mont_inv (vto_mont O ltb K a)).
End V2.

(* ---- instances ---- *)
Definition KpZ : mconsts ZOps := mk_consts ZOps c_p c_p' c_negp c_r2p.
Definition KnZ : mconsts ZOps := mk_consts ZOps c_n c_n' c_negn c_r2n.
Definition KpB : mconsts BigOps := Eval vm_compute in mk_consts BigOps c_p c_p' c_negp c_r2p.
Definition KnB : mconsts BigOps := Eval vm_compute in mk_consts BigOps c_n c_n' c_negn c_r2n.
