(* C13 — the BigZ instance of the value-level model (the one executed by the correspondence
   run) computes the same numbers as the Z instance (the one the theorems are about):
   [f_big x] = f_Z [x] for the field-operation layer of Ec/Mont.v, via BigZ.spec_*. *)
From Coq Require Import ZArith List Bool Lia.
From Bignums Require Import BigZ.
From GmVerif Require Import Ec.Num Ec.Mont.
Import ListNotations.
Local Open Scope Z_scope.


Notation tz := BigZ.to_Z.

Record Khom (KB : mconsts BigOps) (KZ : mconsts ZOps) : Prop := {
  hR : (tz (kR KB)) = kR KZ; hR2 : (tz (kR2 KB)) = kR2 KZ;
  h0 : (tz (k0 KB)) = k0 KZ; h1 : (tz (k1 KB)) = k1 KZ; h2 : (tz (k2 KB)) = k2 KZ;
  hm : (tz (km KB)) = km KZ; hm' : (tz (km' KB)) = km' KZ;
  hnegm : (tz (knegm KB)) = knegm KZ; hr2 : (tz (kr2 KB)) = kr2 KZ;
}.

Lemma KpB_hom : Khom KpB KpZ. Proof. constructor; vm_compute; reflexivity. Qed.
Lemma KnB_hom : Khom KnB KnZ. Proof. constructor; vm_compute; reflexivity. Qed.

Section Hom.
  Variable KB : mconsts BigOps.
  Variable KZ : mconsts ZOps.
  Hypothesis H : Khom KB KZ.

  Ltac ops := cbn [nadd nsub nmul ndiv nmod neqb nofZ ntoZ BigOps ZOps T fst snd].
  Ltac hom := repeat first
    [ rewrite BigZ.spec_add | rewrite BigZ.spec_sub | rewrite BigZ.spec_mul
    | rewrite BigZ.spec_div | rewrite BigZ.spec_modulo | rewrite BigZ.spec_eqb | rewrite BigZ.spec_ltb
    | rewrite (hR _ _ H) | rewrite (hR2 _ _ H) | rewrite (h0 _ _ H) | rewrite (h1 _ _ H) | rewrite (h2 _ _ H)
    | rewrite (hm _ _ H) | rewrite (hm' _ _ H) | rewrite (hnegm _ _ H) | rewrite (hr2 _ _ H) ].
  Ltac ifs := repeat match goal with |- context [if ?c then _ else _] => destruct c end.

  Lemma is0_hom : forall a, is0 BigOps KB a = is0 ZOps KZ (tz (a)).
  Proof. intros. unfold is0. ops. hom. reflexivity. Qed.
  Lemma vadd_hom : forall a b,
    (tz (fst (vadd BigOps KB a b))) = fst (vadd ZOps KZ (tz (a)) (tz (b))) /\
    (tz (snd (vadd BigOps KB a b))) = snd (vadd ZOps KZ (tz (a)) (tz (b))).
  Proof. intros. unfold vadd. ops. hom. split; reflexivity. Qed.
  Lemma vsub_hom : forall a b,
    (tz (fst (vsub BigOps BigZ.ltb KB a b))) = fst (vsub ZOps Z.ltb KZ (tz (a)) (tz (b))) /\
    (tz (snd (vsub BigOps BigZ.ltb KB a b))) = snd (vsub ZOps Z.ltb KZ (tz (a)) (tz (b))).
  Proof. intros. unfold vsub. ops. hom. split; [reflexivity|]. destruct ((tz (a)) <? (tz (b))); hom; reflexivity. Qed.

  Theorem vmod_add_hom : forall a b,
    (tz (vmod_add BigOps BigZ.ltb KB a b)) = vmod_add ZOps Z.ltb KZ (tz (a)) (tz (b)).
  Proof.
    intros. unfold vmod_add, vadd, vsub, is0, vgeb. ops. hom.
    ifs; ops; hom; reflexivity.
  Qed.
  Theorem vmod_sub_hom : forall a b,
    (tz (vmod_sub BigOps BigZ.ltb KB a b)) = vmod_sub ZOps Z.ltb KZ (tz (a)) (tz (b)).
  Proof.
    intros. unfold vmod_sub, vsub, is0. ops. hom.
    destruct ((tz (a)) <? (tz (b))); ops; hom; ifs; ops; hom; reflexivity.
  Qed.
  Theorem vmod_neg_hom : forall a,
    (tz (vmod_neg BigOps BigZ.ltb KB a)) = vmod_neg ZOps Z.ltb KZ (tz (a)).
  Proof. intros. unfold vmod_neg, vsub, is0. ops. hom. ifs; ops; hom; reflexivity. Qed.
  Theorem vmod_dbl_hom : forall a,
    (tz (vmod_dbl BigOps BigZ.ltb KB a)) = vmod_dbl ZOps Z.ltb KZ (tz (a)).
  Proof. intros. unfold vmod_dbl. apply vmod_add_hom. Qed.
  Theorem vmod_tri_hom : forall a,
    (tz (vmod_tri BigOps BigZ.ltb KB a)) = vmod_tri ZOps Z.ltb KZ (tz (a)).
  Proof. intros. unfold vmod_tri. rewrite vmod_add_hom, vmod_add_hom. reflexivity. Qed.
  Theorem vmod_haf_hom : forall a,
    (tz (vmod_haf BigOps KB a)) = vmod_haf ZOps KZ (tz (a)).
  Proof. intros. unfold vmod_haf, vadd. ops. hom. ifs; ops; hom; reflexivity. Qed.
  Theorem vmont_mul_hom : forall a b,
    (tz (vmont_mul BigOps BigZ.ltb KB a b)) = vmont_mul ZOps Z.ltb KZ (tz (a)) (tz (b)).
  Proof.
    intros. unfold vmont_mul, vadd, vsub, is0, vgeb. ops. hom.
    ifs; ops; hom; reflexivity.
  Qed.
  Theorem vmont_sqr_hom : forall a,
    (tz (vmont_sqr BigOps BigZ.ltb KB a)) = vmont_sqr ZOps Z.ltb KZ (tz (a)).
  Proof. intros. unfold vmont_sqr. apply vmont_mul_hom. Qed.
  Theorem vto_mont_hom : forall a, (tz (vto_mont BigOps BigZ.ltb KB a)) = vto_mont ZOps Z.ltb KZ (tz (a)).
  Proof. intros. unfold vto_mont. rewrite vmont_mul_hom. hom. reflexivity. Qed.
  Theorem vfrom_mont_hom : forall a, (tz (vfrom_mont BigOps BigZ.ltb KB a)) = vfrom_mont ZOps Z.ltb KZ (tz (a)).
  Proof. intros. unfold vfrom_mont. rewrite vmont_mul_hom. hom. reflexivity. Qed.

  (* straight-line programs (exponentiation, inversion chains) *)
  Lemma setreg_hom : forall regs i v,
    map BigZ.to_Z (setreg bigZ regs i v) = setreg Z (map BigZ.to_Z regs) i (tz (v)).
  Proof. induction regs as [|x r IH]; intros [|i] v; cbn [setreg map]; auto. rewrite IH. reflexivity. Qed.
  Lemma getreg_hom : forall regs i,
    (tz (getreg bigZ (k0 KB) regs i)) = getreg Z (k0 KZ) (map BigZ.to_Z regs) i.
  Proof.
    unfold getreg. induction regs as [|x r IH]; intros [|i]; cbn [nth map]; auto; apply (h0 _ _ H).
  Qed.
  Theorem run_hom : forall prog regs,
    map BigZ.to_Z (runF BigOps BigZ.ltb KB prog regs) = runF ZOps Z.ltb KZ prog (map BigZ.to_Z regs).
  Proof.
    unfold runF, run. induction prog as [|st prog IH]; intros regs; cbn [fold_left]; [reflexivity|].
    rewrite IH. f_equal. destruct st as [d s|d s1 s2]; cbn [run_step].
    - rewrite setreg_hom, vmont_sqr_hom, getreg_hom. reflexivity.
    - rewrite setreg_hom, vmont_mul_hom, !getreg_hom. reflexivity.
  Qed.
  Theorem vmont_exp_hom : forall a e, (tz (vmont_exp BigOps BigZ.ltb KB a e)) = vmont_exp ZOps Z.ltb KZ (tz (a)) e.
  Proof.
    intros. unfold vmont_exp. rewrite getreg_hom, run_hom. cbn [map]. rewrite (hnegm _ _ H). reflexivity.
  Qed.
  Theorem vmodp_mont_inv_hom : forall a, (tz (vmodp_mont_inv BigOps BigZ.ltb KB a)) = vmodp_mont_inv ZOps Z.ltb KZ (tz (a)).
  Proof.
    intros. unfold vmodp_mont_inv. cbv zeta. rewrite getreg_hom, run_hom. cbn [map]. rewrite (h0 _ _ H). reflexivity.
  Qed.
  Theorem vmodn_mont_inv_hom : forall a, (tz (vmodn_mont_inv BigOps BigZ.ltb KB a)) = vmodn_mont_inv ZOps Z.ltb KZ (tz (a)).
  Proof. intros. unfold vmodn_mont_inv. rewrite getreg_hom, run_hom. reflexivity. Qed.
End Hom.

(* ---------------- the point layer over the two instances ---------------- *)
From GmVerif Require Import Ec.Jacobian.
Definition jmap (P : jpoint bigZ) : jpoint Z := let '(X, Y, Zc) := P in ((tz (X)), (tz (Y)), (tz (Zc))).
Definition amap (P : apoint bigZ) : apoint Z := ((tz (fst P)), (tz (snd P))).

Ltac fp := cbn [FpB FpZ modp_fops f_mul f_sqr f_add f_sub f_dbl f_tri f_haf f_neg f_eqb f_zero f_one f_b
                neqb ZOps BigOps].
Ltac homp := repeat first
  [ rewrite (vmont_mul_hom KpB KpZ KpB_hom) | rewrite (vmont_sqr_hom KpB KpZ KpB_hom)
  | rewrite (vmod_add_hom KpB KpZ KpB_hom) | rewrite (vmod_sub_hom KpB KpZ KpB_hom)
  | rewrite (vmod_dbl_hom KpB KpZ KpB_hom) | rewrite (vmod_tri_hom KpB KpZ KpB_hom)
  | rewrite (vmod_haf_hom KpB KpZ KpB_hom) | rewrite (vmod_neg_hom KpB KpZ KpB_hom)
  | rewrite BigZ.spec_eqb
  | rewrite (h0 _ _ KpB_hom) | rewrite (hnegm _ _ KpB_hom) ].
Lemma c_mont_b_hom : (tz (c_mont_b_B)) = c_mont_b. Proof. vm_compute. reflexivity. Qed.

Theorem point_dbl_hom : forall P, jmap (point_dbl bigZ FpB P) = point_dbl Z FpZ (jmap P).
Proof. intros [[X Y] Zc]. unfold point_dbl, jmap. fp. homp. reflexivity. Qed.

Theorem point_neg_hom : forall P, jmap (point_neg bigZ FpB P) = point_neg Z FpZ (jmap P).
Proof. intros [[X Y] Zc]. unfold point_neg, jmap. fp. homp. reflexivity. Qed.

Theorem point_add_hom : forall P Q, jmap (point_add bigZ FpB P Q) = point_add Z FpZ (jmap P) (jmap Q).
Proof.
  intros [[X1 Y1] Z1] [[X2 Y2] Z2]. unfold point_add, iszero. cbv zeta. unfold jmap at 2 3. fp. homp.
  repeat match goal with |- context [if ?c then _ else _] => destruct c end;
    cbn [andb negb]; try apply point_dbl_hom; unfold jmap, point_zero; fp; homp; reflexivity.
Qed.

Theorem point_add_affine_old_hom : forall P Q,
  jmap (point_add_affine_old bigZ FpB P Q) = point_add_affine_old Z FpZ (jmap P) (amap Q).
Proof.
  intros [[X1 Y1] Z1] [x2 y2]. unfold point_add_affine_old, iszero, amap. cbv zeta. unfold jmap at 2. cbn [fst snd]. fp. homp.
  repeat match goal with |- context [if ?c then _ else _] => destruct c end;
    cbn [andb negb]; unfold jmap; fp; homp; reflexivity.
Qed.

Theorem point_add_affine_hom : forall P Q,
  jmap (point_add_affine bigZ FpB P Q) = point_add_affine Z FpZ (jmap P) (amap Q).
Proof.
  intros [[X1 Y1] Z1] [x2 y2]. unfold point_add_affine, iszero. cbv zeta.
  unfold jmap at 2, amap. cbn [fst snd]. fp. homp.
  repeat match goal with |- context [if ?c then _ else _] => destruct c end; cbn [andb negb].
  all: try apply point_dbl_hom.
  all: try (unfold jmap, point_zero; fp; homp; reflexivity).
  all: apply (point_add_affine_old_hom (X1, Y1, Z1) (x2, y2)).
Qed.
