(* C13 — the Jacobian formulas of Ec/Jacobian.v as polynomial identities modulo p, and in
   cross-multiplied form against the affine chord-tangent law (no inversion needed). *)
From Coq Require Import ZArith List Bool Lia Ring Setoid Morphisms Zdiv.
From GmVerif Require Import Ec.Num Ec.CurveSpec Ec.Z256 Ec.Mont Ec.MontProofs Ec.Jacobian.
Import ListNotations.
Local Open Scope Z_scope.

Section Laws.
  Variable p : Z.
  Hypothesis Hp : 0 < p.
  Notation "a == b" := (eqm p a b) (at level 70).

  Local Instance eqm_equiv : Equivalence (eqm p) := eqm_setoid p.
  Local Instance eqm_add_m : Proper (eqm p ==> eqm p ==> eqm p) Z.add := Zplus_eqm p.
  Local Instance eqm_sub_m : Proper (eqm p ==> eqm p ==> eqm p) Z.sub := Zminus_eqm p.
  Local Instance eqm_mul_m : Proper (eqm p ==> eqm p ==> eqm p) Z.mul := Zmult_eqm p.
  Local Instance eqm_opp_m : Proper (eqm p ==> eqm p) Z.opp := Zopp_eqm p.

  (* a polynomial identity over Z is in particular a congruence *)
  Ltac zring := (unfold eqm; f_equal; ring).

  Variable half : Z.
  Hypothesis Hhalf : 2 * half == 1.

  Variable F : Type.
  Variable fo : fops F.
  Variable ok : F -> Prop.          (* a reduced residue *)
  Variable dec : F -> Z.            (* the field element it stands for *)

  (* what the proofs need from the field layer (MontProofs provides it for the real one) *)
  Record flaws : Prop := {
    l_mul : forall a b, ok a -> ok b -> ok (f_mul fo a b) /\ dec (f_mul fo a b) == dec a * dec b;
    l_sqr : forall a, ok a -> ok (f_sqr fo a) /\ dec (f_sqr fo a) == dec a * dec a;
    l_add : forall a b, ok a -> ok b -> ok (f_add fo a b) /\ dec (f_add fo a b) == dec a + dec b;
    l_sub : forall a b, ok a -> ok b -> ok (f_sub fo a b) /\ dec (f_sub fo a b) == dec a - dec b;
    l_dbl : forall a, ok a -> ok (f_dbl fo a) /\ dec (f_dbl fo a) == 2 * dec a;
    l_tri : forall a, ok a -> ok (f_tri fo a) /\ dec (f_tri fo a) == 3 * dec a;
    l_haf : forall a, ok a -> ok (f_haf fo a) /\ dec (f_haf fo a) == half * dec a;
    l_neg : forall a, ok a -> ok (f_neg fo a) /\ dec (f_neg fo a) == - dec a;
  }.
  Hypothesis L : flaws.

  Ltac step H lem :=
    let O := fresh "O" in let E := fresh "E" in
    destruct lem as [O E]; [auto ..|].

  (* ---------- doubling: X3 = M^2 - 8 X Y^2, Y3 = M (4 X Y^2 - X3) - 8 Y^4, Z3 = 2 Y Z,
     M = 3 (X - Z^2)(X + Z^2) = 3 X^2 + a Z^4 for a = -3 ---------- *)
  Theorem dbl_formula : forall X1 Y1 Z1, ok X1 -> ok Y1 -> ok Z1 ->
    let '(X3, Y3, Z3) := point_dbl F fo (X1, Y1, Z1) in
    let X := dec X1 in let Y := dec Y1 in let Z := dec Z1 in
    let M := 3 * X * X - 3 * (Z * Z * Z * Z) in
    ok X3 /\ ok Y3 /\ ok Z3 /\
    dec Z3 == 2 * Y * Z /\
    dec X3 == M * M - 8 * X * Y * Y /\
    dec Y3 == M * (4 * X * Y * Y - dec X3) - 8 * Y * Y * Y * Y.
  Proof.
    intros X1 Y1 Z1 OX OY OZ. unfold point_dbl.
    destruct (l_dbl L Y1 OY) as [O1 E1]. set (S1 := f_dbl fo Y1) in *.
    destruct (l_sqr L Z1 OZ) as [O2 E2]. set (Zsqr := f_sqr fo Z1) in *.
    destruct (l_sqr L S1 O1) as [O3 E3]. set (S2 := f_sqr fo S1) in *.
    destruct (l_mul L Z1 Y1 OZ OY) as [O4 E4]. set (Z3a := f_mul fo Z1 Y1) in *.
    destruct (l_dbl L Z3a O4) as [O5 E5]. set (Z3 := f_dbl fo Z3a) in *.
    destruct (l_add L X1 Zsqr OX O2) as [O6 E6]. set (M1 := f_add fo X1 Zsqr) in *.
    destruct (l_sub L X1 Zsqr OX O2) as [O7 E7]. set (Zs2 := f_sub fo X1 Zsqr) in *.
    destruct (l_sqr L S2 O3) as [O8 E8]. set (Y3a := f_sqr fo S2) in *.
    destruct (l_haf L Y3a O8) as [O9 E9]. set (Y3b := f_haf fo Y3a) in *.
    destruct (l_mul L M1 Zs2 O6 O7) as [O10 E10]. set (M2 := f_mul fo M1 Zs2) in *.
    destruct (l_tri L M2 O10) as [O11 E11]. set (M3 := f_tri fo M2) in *.
    destruct (l_mul L S2 X1 O3 OX) as [O12 E12]. set (S3 := f_mul fo S2 X1) in *.
    destruct (l_dbl L S3 O12) as [O13 E13]. set (tmp0 := f_dbl fo S3) in *.
    destruct (l_sqr L M3 O11) as [O14 E14]. set (X3a := f_sqr fo M3) in *.
    destruct (l_sub L X3a tmp0 O14 O13) as [O15 E15]. set (X3 := f_sub fo X3a tmp0) in *.
    destruct (l_sub L S3 X3 O12 O15) as [O16 E16]. set (S4 := f_sub fo S3 X3) in *.
    destruct (l_mul L S4 M3 O16 O11) as [O17 E17]. set (S5 := f_mul fo S4 M3) in *.
    destruct (l_sub L S5 Y3b O17 O9) as [O18 E18]. set (Y3 := f_sub fo S5 Y3b) in *.
    cbn zeta.
    assert (EM : dec M3 == 3 * dec X1 * dec X1 - 3 * (dec Z1 * dec Z1 * dec Z1 * dec Z1)).
    { rewrite E11, E10, E6, E7, E2. zring. }
    assert (ES3 : dec S3 == 4 * dec X1 * dec Y1 * dec Y1).
    { rewrite E12, E3, E1. zring. }
    assert (EX : dec X3 == (3 * dec X1 * dec X1 - 3 * (dec Z1 * dec Z1 * dec Z1 * dec Z1)) *
                           (3 * dec X1 * dec X1 - 3 * (dec Z1 * dec Z1 * dec Z1 * dec Z1)) -
                           8 * dec X1 * dec Y1 * dec Y1).
    { rewrite E15, E14, E13, EM, ES3. zring. }
    repeat split; auto.
    - rewrite E5, E4. zring.
    - rewrite E18, E17, E16, EM, ES3, EX, E9, E8, E3, E1.
      transitivity ((3 * dec X1 * dec X1 - 3 * (dec Z1 * dec Z1 * dec Z1 * dec Z1)) *
        (4 * dec X1 * dec Y1 * dec Y1 -
         ((3 * dec X1 * dec X1 - 3 * (dec Z1 * dec Z1 * dec Z1 * dec Z1)) *
          (3 * dec X1 * dec X1 - 3 * (dec Z1 * dec Z1 * dec Z1 * dec Z1)) - 8 * dec X1 * dec Y1 * dec Y1)) -
        (2 * half) * (8 * dec Y1 * dec Y1 * dec Y1 * dec Y1)).
      + zring.
      + rewrite Hhalf. zring.
  Qed.

  (* ---------- addition, generic branch (both finite, U1 <> U2):
     U1 = X1 Z2^2, U2 = X2 Z1^2, S1 = Y1 Z2^3, S2 = Y2 Z1^3, H = U2 - U1, R = S2 - S1,
     Z3 = H Z1 Z2, X3 = R^2 - 2 U1 H^2 - H^3, Y3 = R (U1 H^2 - X3) - S1 H^3 ---------- *)
  Theorem add_formula : forall X1 Y1 Z1 X2 Y2 Z2,
    ok X1 -> ok Y1 -> ok Z1 -> ok X2 -> ok Y2 -> ok Z2 ->
    f_eqb fo Z1 (f_zero fo) = false -> f_eqb fo Z2 (f_zero fo) = false ->
    f_eqb fo (f_mul fo X1 (f_sqr fo Z2)) (f_mul fo X2 (f_sqr fo Z1)) = false ->
    let '(X3, Y3, Z3) := point_add F fo (X1, Y1, Z1) (X2, Y2, Z2) in
    let U1 := dec X1 * (dec Z2 * dec Z2) in let U2 := dec X2 * (dec Z1 * dec Z1) in
    let S1 := dec Y1 * (dec Z2 * dec Z2 * dec Z2) in let S2 := dec Y2 * (dec Z1 * dec Z1 * dec Z1) in
    let H := U2 - U1 in let R := S2 - S1 in
    ok X3 /\ ok Y3 /\ ok Z3 /\
    dec Z3 == H * dec Z1 * dec Z2 /\
    dec X3 == R * R - 2 * U1 * (H * H) - H * H * H /\
    dec Y3 == R * (U1 * (H * H) - dec X3) - S1 * (H * H * H).
  Proof.
    intros X1 Y1 Z1 X2 Y2 Z2 OX1 OY1 OZ1 OX2 OY2 OZ2 Hz1 Hz2 Hne.
    unfold point_add, iszero. cbv zeta. rewrite Hz1, Hz2, Hne. cbn [andb negb].
    destruct (l_sqr L Z2 OZ2) as [O1 E1]. set (Z2sqr := f_sqr fo Z2) in *.
    destruct (l_sqr L Z1 OZ1) as [O2 E2]. set (Z1sqr := f_sqr fo Z1) in *.
    destruct (l_mul L Z2sqr Z2 O1 OZ2) as [O3 E3]. set (S1a := f_mul fo Z2sqr Z2) in *.
    destruct (l_mul L Z1sqr Z1 O2 OZ1) as [O4 E4]. set (S2a := f_mul fo Z1sqr Z1) in *.
    destruct (l_mul L S1a Y1 O3 OY1) as [O5 E5]. set (S1 := f_mul fo S1a Y1) in *.
    destruct (l_mul L S2a Y2 O4 OY2) as [O6 E6]. set (S2 := f_mul fo S2a Y2) in *.
    destruct (l_sub L S2 S1 O6 O5) as [O7 E7]. set (R := f_sub fo S2 S1) in *.
    destruct (l_mul L X1 Z2sqr OX1 O1) as [O8 E8]. set (U1 := f_mul fo X1 Z2sqr) in *.
    destruct (l_mul L X2 Z1sqr OX2 O2) as [O9 E9]. set (U2 := f_mul fo X2 Z1sqr) in *.
    destruct (l_sub L U2 U1 O9 O8) as [O10 E10]. set (H := f_sub fo U2 U1) in *.
    destruct (l_sqr L R O7) as [O11 E11]. set (Rsqr := f_sqr fo R) in *.
    destruct (l_mul L H Z1 O10 OZ1) as [O12 E12]. set (rz1 := f_mul fo H Z1) in *.
    destruct (l_sqr L H O10) as [O13 E13]. set (Hsqr := f_sqr fo H) in *.
    destruct (l_mul L rz1 Z2 O12 OZ2) as [O14 E14]. set (res_z := f_mul fo rz1 Z2) in *.
    destruct (l_mul L Hsqr H O13 O10) as [O15 E15]. set (Hcub := f_mul fo Hsqr H) in *.
    destruct (l_mul L U1 Hsqr O8 O13) as [O16 E16]. set (U2b := f_mul fo U1 Hsqr) in *.
    destruct (l_dbl L U2b O16) as [O17 E17]. set (Hsqr2 := f_dbl fo U2b) in *.
    destruct (l_sub L Rsqr Hsqr2 O11 O17) as [O18 E18]. set (rx1 := f_sub fo Rsqr Hsqr2) in *.
    destruct (l_sub L rx1 Hcub O18 O15) as [O19 E19]. set (res_x := f_sub fo rx1 Hcub) in *.
    destruct (l_sub L U2b res_x O16 O19) as [O20 E20]. set (ry1 := f_sub fo U2b res_x) in *.
    destruct (l_mul L S1 Hcub O5 O15) as [O21 E21]. set (S2b := f_mul fo S1 Hcub) in *.
    destruct (l_mul L R ry1 O7 O20) as [O22 E22]. set (ry2 := f_mul fo R ry1) in *.
    destruct (l_sub L ry2 S2b O22 O21) as [O23 E23]. set (res_y := f_sub fo ry2 S2b) in *.
    cbn zeta.
    assert (EU1 : dec U1 == dec X1 * (dec Z2 * dec Z2)) by (rewrite E8, E1; zring).
    assert (EU2 : dec U2 == dec X2 * (dec Z1 * dec Z1)) by (rewrite E9, E2; zring).
    assert (ES1 : dec S1 == dec Y1 * (dec Z2 * dec Z2 * dec Z2)) by (rewrite E5, E3, E1; zring).
    assert (ES2 : dec S2 == dec Y2 * (dec Z1 * dec Z1 * dec Z1)) by (rewrite E6, E4, E2; zring).
    assert (EH : dec H == dec X2 * (dec Z1 * dec Z1) - dec X1 * (dec Z2 * dec Z2)) by (rewrite E10, EU1, EU2; zring).
    assert (ER : dec R == dec Y2 * (dec Z1 * dec Z1 * dec Z1) - dec Y1 * (dec Z2 * dec Z2 * dec Z2)) by (rewrite E7, ES1, ES2; zring).
    repeat split; auto.
    - rewrite E14, E12, EH. zring.
    - rewrite E19, E18, E17, E16, E15, E13, E11, ER, EH, EU1. zring.
    - rewrite E23, E22, E21, E20, E16, E15, E13, ER, EH, EU1, ES1. zring.
  Qed.

  (* ---------- mixed addition (second operand affine, Z2 = 1), the straight-line part:
     U2 = x2 Z1^2, S2 = y2 Z1^3, H = U2 - X1, R = S2 - Y1,
     Z3 = H Z1, X3 = R^2 - 2 X1 H^2 - H^3, Y3 = R (X1 H^2 - X3) - Y1 H^3.
     ([point_add_affine_old]; sm2_z256_point_add_affine takes these formulas exactly when
     H <> 0 or an operand is infinity, see add_affine_generic below).  For H = 0 they give
     Z3 = 0: right (infinity) when R <> 0, wrong when R = 0 (P + P) -- the defect repaired by
     the equal-x branch. ---------- *)
  Theorem add_affine_formula : forall X1 Y1 Z1 x2 y2,
    ok X1 -> ok Y1 -> ok Z1 -> ok x2 -> ok y2 ->
    f_eqb fo Z1 (f_zero fo) = false ->
    f_eqb fo x2 (f_zero fo) && f_eqb fo y2 (f_zero fo) = false ->
    let '(X3, Y3, Z3) := point_add_affine_old F fo (X1, Y1, Z1) (x2, y2) in
    let U2 := dec x2 * (dec Z1 * dec Z1) in let S2 := dec y2 * (dec Z1 * dec Z1 * dec Z1) in
    let H := U2 - dec X1 in let R := S2 - dec Y1 in
    ok X3 /\ ok Y3 /\ ok Z3 /\
    dec Z3 == H * dec Z1 /\
    dec X3 == R * R - 2 * dec X1 * (H * H) - H * H * H /\
    dec Y3 == R * (dec X1 * (H * H) - dec X3) - dec Y1 * (H * H * H).
  Proof.
    intros X1 Y1 Z1 x2 y2 OX1 OY1 OZ1 Ox2 Oy2 Hz1 Hz2.
    unfold point_add_affine_old, iszero. cbv zeta. rewrite Hz1, Hz2.
    destruct (l_sqr L Z1 OZ1) as [O1 E1]. set (Z1sqr := f_sqr fo Z1) in *.
    destruct (l_mul L x2 Z1sqr Ox2 O1) as [O2 E2]. set (U2 := f_mul fo x2 Z1sqr) in *.
    destruct (l_sub L U2 X1 O2 OX1) as [O3 E3]. set (H := f_sub fo U2 X1) in *.
    destruct (l_mul L Z1sqr Z1 O1 OZ1) as [O4 E4]. set (S2a := f_mul fo Z1sqr Z1) in *.
    destruct (l_mul L H Z1 O3 OZ1) as [O5 E5]. set (res_z := f_mul fo H Z1) in *.
    destruct (l_mul L S2a y2 O4 Oy2) as [O6 E6]. set (S2 := f_mul fo S2a y2) in *.
    destruct (l_sub L S2 Y1 O6 OY1) as [O7 E7]. set (R := f_sub fo S2 Y1) in *.
    destruct (l_sqr L H O3) as [O8 E8]. set (Hsqr := f_sqr fo H) in *.
    destruct (l_sqr L R O7) as [O9 E9]. set (Rsqr := f_sqr fo R) in *.
    destruct (l_mul L Hsqr H O8 O3) as [O10 E10]. set (Hcub := f_mul fo Hsqr H) in *.
    destruct (l_mul L X1 Hsqr OX1 O8) as [O11 E11]. set (U2b := f_mul fo X1 Hsqr) in *.
    destruct (l_dbl L U2b O11) as [O12 E12]. set (Hsqr2 := f_dbl fo U2b) in *.
    destruct (l_sub L Rsqr Hsqr2 O9 O12) as [O13 E13]. set (rx1 := f_sub fo Rsqr Hsqr2) in *.
    destruct (l_sub L rx1 Hcub O13 O10) as [O14 E14]. set (res_x := f_sub fo rx1 Hcub) in *.
    destruct (l_sub L U2b res_x O11 O14) as [O15 E15]. set (H2 := f_sub fo U2b res_x) in *.
    destruct (l_mul L Y1 Hcub OY1 O10) as [O16 E16]. set (S2b := f_mul fo Y1 Hcub) in *.
    destruct (l_mul L H2 R O15 O7) as [O17 E17]. set (H3 := f_mul fo H2 R) in *.
    destruct (l_sub L H3 S2b O17 O16) as [O18 E18]. set (res_y := f_sub fo H3 S2b) in *.
    cbn zeta.
    assert (EH : dec H == dec x2 * (dec Z1 * dec Z1) - dec X1) by (rewrite E3, E2, E1; zring).
    assert (ER : dec R == dec y2 * (dec Z1 * dec Z1 * dec Z1) - dec Y1) by (rewrite E7, E6, E4, E1; zring).
    repeat split; auto.
    - rewrite E5, EH. zring.
    - rewrite E14, E13, E12, E11, E10, E9, E8, ER, EH. zring.
    - rewrite E18, E17, E16, E15, E11, E10, E8, ER, EH. zring.
  Qed.

  (* ---------- infinity handling (pure control flow, no field laws) ---------- *)
  Lemma add_inf_l : forall a X2 Y2 Z2 X1 Y1 Z1, a = (X1, Y1, Z1) ->
    f_eqb fo Z1 (f_zero fo) = true -> f_eqb fo Z2 (f_zero fo) = false ->
    point_add F fo a (X2, Y2, Z2) = (X2, Y2, Z2).
  Proof.
    intros a X2 Y2 Z2 X1 Y1 Z1 -> H1 H2. unfold point_add, iszero. cbv zeta.
    rewrite H1, H2. rewrite andb_false_r. cbn [andb negb]. reflexivity.
  Qed.
  Lemma add_inf_r : forall X1 Y1 Z1 X2 Y2 Z2,
    f_eqb fo Z2 (f_zero fo) = true ->
    point_add F fo (X1, Y1, Z1) (X2, Y2, Z2) = (X1, Y1, Z1).
  Proof.
    intros X1 Y1 Z1 X2 Y2 Z2 H2. unfold point_add, iszero. cbv zeta.
    rewrite H2. cbn [negb]. rewrite !andb_false_r.
    destruct (f_eqb fo Z1 (f_zero fo)); reflexivity.
  Qed.
  Lemma add_affine_inf_l : forall X1 Y1 Z1 x2 y2,
    f_eqb fo Z1 (f_zero fo) = true ->
    f_eqb fo x2 (f_zero fo) && f_eqb fo y2 (f_zero fo) = false ->
    point_add_affine F fo (X1, Y1, Z1) (x2, y2) = (x2, y2, f_one fo).
  Proof.
    intros X1 Y1 Z1 x2 y2 H1 H2. unfold point_add_affine, point_add_affine_old, iszero. cbv zeta.
    rewrite H1, H2. cbn [negb andb]. rewrite andb_false_r. reflexivity.
  Qed.
  Lemma add_affine_inf_r : forall X1 Y1 Z1 x2 y2,
    f_eqb fo x2 (f_zero fo) && f_eqb fo y2 (f_zero fo) = true ->
    point_add_affine F fo (X1, Y1, Z1) (x2, y2) = (X1, Y1, Z1).
  Proof.
    intros X1 Y1 Z1 x2 y2 H2. unfold point_add_affine, point_add_affine_old, iszero. cbv zeta.
    rewrite H2. cbn [negb]. rewrite !andb_false_r.
    destruct (f_eqb fo Z1 (f_zero fo)); reflexivity.
  Qed.
  (* H <> 0: the function is its straight-line part *)
  Lemma add_affine_generic : forall X1 Y1 Z1 x2 y2,
    f_eqb fo (f_sub fo (f_mul fo x2 (f_sqr fo Z1)) X1) (f_zero fo) = false ->
    point_add_affine F fo (X1, Y1, Z1) (x2, y2) = point_add_affine_old F fo (X1, Y1, Z1) (x2, y2).
  Proof.
    intros X1 Y1 Z1 x2 y2 HH. unfold point_add_affine, iszero. cbv zeta. rewrite HH. reflexivity.
  Qed.
  (* H = 0 with two finite operands: the branches of the full addition *)
  Lemma add_affine_same_x : forall X1 Y1 Z1 x2 y2,
    f_eqb fo Z1 (f_zero fo) = false ->
    f_eqb fo x2 (f_zero fo) && f_eqb fo y2 (f_zero fo) = false ->
    f_eqb fo (f_sub fo (f_mul fo x2 (f_sqr fo Z1)) X1) (f_zero fo) = true ->
    point_add_affine F fo (X1, Y1, Z1) (x2, y2) =
    if f_eqb fo (f_sub fo (f_mul fo (f_mul fo (f_sqr fo Z1) Z1) y2) Y1) (f_zero fo)
    then point_dbl F fo (X1, Y1, Z1) else point_zero F fo.
  Proof.
    intros X1 Y1 Z1 x2 y2 H1 H2 HH. unfold point_add_affine, iszero. cbv zeta.
    rewrite H1, H2, HH. reflexivity.
  Qed.
  (* equal / opposite finite inputs in the full addition *)
  Lemma add_same_x : forall X1 Y1 Z1 X2 Y2 Z2,
    f_eqb fo Z1 (f_zero fo) = false -> f_eqb fo Z2 (f_zero fo) = false ->
    f_eqb fo (f_mul fo X1 (f_sqr fo Z2)) (f_mul fo X2 (f_sqr fo Z1)) = true ->
    point_add F fo (X1, Y1, Z1) (X2, Y2, Z2) =
    if f_eqb fo (f_mul fo (f_mul fo (f_sqr fo Z2) Z2) Y1) (f_mul fo (f_mul fo (f_sqr fo Z1) Z1) Y2)
    then point_dbl F fo (X1, Y1, Z1) else point_zero F fo.
  Proof.
    intros X1 Y1 Z1 X2 Y2 Z2 H1 H2 HU. unfold point_add, iszero. cbv zeta.
    rewrite H1, H2, HU. cbn [andb negb]. reflexivity.
  Qed.


  (* ---------- cross-multiplied form: the Jacobian results represent the affine
     chord / tangent point (x3, y3) characterised WITHOUT division:
       tangent: x3 (2y)^2 = (3x^2+a)^2 - 2x (2y)^2,   y3 (2y)^3 = (3x^2+a)(x - x3)(2y)^2 - y (2y)^3
       chord  : x3 d^2 = e^2 - (x1+x2) d^2,           y3 d^3 = e (x1 - x3) d^2 - y1 d^3
                (d = x2 - x1, e = y2 - y1)
     "represent": X == x Z^2 and Y == y Z^3 (mod p) ---------- *)
  Definition repr (X Y Z x y : Z) : Prop := X == x * (Z * Z) /\ Y == y * (Z * Z * Z).

  Theorem dbl_cross : forall X Y Z x y a x3 y3 X3 Y3 Z3,
    repr X Y Z x y -> a == -3 ->
    x3 * ((2 * y) * (2 * y)) == (3 * x * x + a) * (3 * x * x + a) - 2 * x * ((2 * y) * (2 * y)) ->
    y3 * ((2 * y) * (2 * y) * (2 * y)) ==
      (3 * x * x + a) * ((x - x3) * ((2 * y) * (2 * y))) - y * ((2 * y) * (2 * y) * (2 * y)) ->
    Z3 == 2 * Y * Z ->
    X3 == (3 * X * X - 3 * (Z * Z * Z * Z)) * (3 * X * X - 3 * (Z * Z * Z * Z)) - 8 * X * Y * Y ->
    Y3 == (3 * X * X - 3 * (Z * Z * Z * Z)) * (4 * X * Y * Y - X3) - 8 * Y * Y * Y * Y ->
    repr X3 Y3 Z3 x3 y3.
  Proof.
    intros X Y Z x y a x3 y3 X3 Y3 Z3 [HX HY] Ha C1 C2 EZ EX EY.
    assert (RX : X3 == x3 * (Z3 * Z3)).
    { rewrite EX, EZ, HX, HY.
      transitivity ((x3 * ((2 * y) * (2 * y))) * (Z * Z * Z * Z * Z * Z * Z * Z)); [|zring].
      rewrite C1, Ha. zring. }
    split; [exact RX|].
    rewrite EY, RX, EZ, HX, HY.
    transitivity ((y3 * ((2 * y) * (2 * y) * (2 * y))) * (Z * Z * Z * Z * Z * Z * Z * Z * Z * Z * Z * Z)); [|zring].
    rewrite C2, Ha.
    (* (x - x3)(2y)^2 still contains x3 (2y)^2 *)
    transitivity ((3 * x * x + -3) * (x * ((2 * y) * (2 * y)) - x3 * ((2 * y) * (2 * y))) *
                  (Z * Z * Z * Z * Z * Z * Z * Z * Z * Z * Z * Z)
                  - y * ((2 * y) * (2 * y) * (2 * y)) * (Z * Z * Z * Z * Z * Z * Z * Z * Z * Z * Z * Z)); [|zring].
    zring.
  Qed.

  Theorem add_cross : forall X1 Y1 Z1 X2 Y2 Z2 x1 y1 x2 y2 x3 y3 X3 Y3 Z3,
    repr X1 Y1 Z1 x1 y1 -> repr X2 Y2 Z2 x2 y2 ->
    let d := x2 - x1 in let e := y2 - y1 in
    x3 * (d * d) == e * e - (x1 + x2) * (d * d) ->
    y3 * (d * d * d) == e * ((x1 - x3) * (d * d)) - y1 * (d * d * d) ->
    let U1 := X1 * (Z2 * Z2) in let U2 := X2 * (Z1 * Z1) in
    let S1 := Y1 * (Z2 * Z2 * Z2) in let S2 := Y2 * (Z1 * Z1 * Z1) in
    let H := U2 - U1 in let R := S2 - S1 in
    Z3 == H * Z1 * Z2 ->
    X3 == R * R - 2 * U1 * (H * H) - H * H * H ->
    Y3 == R * (U1 * (H * H) - X3) - S1 * (H * H * H) ->
    repr X3 Y3 Z3 x3 y3.
  Proof.
    intros X1 Y1 Z1 X2 Y2 Z2 x1 y1 x2 y2 x3 y3 X3 Y3 Z3 [HX1 HY1] [HX2 HY2] d e C1 C2
           U1 U2 S1 S2 H R EZ EX EY.
    subst d e U1 U2 S1 S2 H R.
    set (W := Z1 * Z2).
    assert (RX : X3 == x3 * (Z3 * Z3)).
    { rewrite EX, EZ, HX1, HY1, HX2, HY2.
      transitivity ((x3 * ((x2 - x1) * (x2 - x1))) * (W * W * W * W * W * W)); [|unfold W; zring].
      rewrite C1. unfold W. zring. }
    split; [exact RX|].
    rewrite EY, RX, EZ, HX1, HY1, HX2, HY2.
    transitivity ((y3 * ((x2 - x1) * (x2 - x1) * (x2 - x1))) * (W * W * W * W * W * W * W * W * W));
      [|unfold W; zring].
    rewrite C2. unfold W. zring.
  Qed.

  (* ---------- the code's outputs REPRESENT the affine tangent / chord point (no inverses):
     repr (dec X) (dec Y) (dec Z) x y  means  X = x Z^2, Y = y Z^3 (mod p) ---------- *)
  Definition jrepr (P : F * F * F) (x y : Z) : Prop :=
    let '(X, Y, Zc) := P in ok X /\ ok Y /\ ok Zc /\ repr (dec X) (dec Y) (dec Zc) x y.

  Theorem dbl_repr : forall X1 Y1 Z1 x y a x3 y3,
    jrepr (X1, Y1, Z1) x y -> a == -3 ->
    x3 * ((2 * y) * (2 * y)) == (3 * x * x + a) * (3 * x * x + a) - 2 * x * ((2 * y) * (2 * y)) ->
    y3 * ((2 * y) * (2 * y) * (2 * y)) ==
      (3 * x * x + a) * ((x - x3) * ((2 * y) * (2 * y))) - y * ((2 * y) * (2 * y) * (2 * y)) ->
    jrepr (point_dbl F fo (X1, Y1, Z1)) x3 y3 /\
    dec (snd (point_dbl F fo (X1, Y1, Z1))) == 2 * (y * (dec Z1 * dec Z1 * dec Z1)) * dec Z1.
  Proof.
    intros X1 Y1 Z1 x y a x3 y3 (OX & OY & OZ & Hr) Ha C1 C2.
    pose proof (dbl_formula X1 Y1 Z1 OX OY OZ) as Hf.
    destruct (point_dbl F fo (X1, Y1, Z1)) as [[X3 Y3] Z3]. cbv zeta in Hf.
    destruct Hf as (O1 & O2 & O3 & EZ & EX & EY). cbn [snd]. split.
    - cbn [jrepr]. repeat (split; [assumption|]).
      eapply dbl_cross; eauto.
    - rewrite EZ. destruct Hr as [_ HY]. rewrite HY. reflexivity.
  Qed.

  Theorem add_repr : forall X1 Y1 Z1 X2 Y2 Z2 x1 y1 x2 y2 x3 y3,
    jrepr (X1, Y1, Z1) x1 y1 -> jrepr (X2, Y2, Z2) x2 y2 ->
    f_eqb fo Z1 (f_zero fo) = false -> f_eqb fo Z2 (f_zero fo) = false ->
    f_eqb fo (f_mul fo X1 (f_sqr fo Z2)) (f_mul fo X2 (f_sqr fo Z1)) = false ->
    let d := x2 - x1 in let e := y2 - y1 in
    x3 * (d * d) == e * e - (x1 + x2) * (d * d) ->
    y3 * (d * d * d) == e * ((x1 - x3) * (d * d)) - y1 * (d * d * d) ->
    jrepr (point_add F fo (X1, Y1, Z1) (X2, Y2, Z2)) x3 y3 /\
    dec (snd (point_add F fo (X1, Y1, Z1) (X2, Y2, Z2))) == (x2 - x1) * (dec Z1 * dec Z2) * (dec Z1 * dec Z2) * (dec Z1 * dec Z2).
  Proof.
    intros X1 Y1 Z1 X2 Y2 Z2 x1 y1 x2 y2 x3 y3 (OX1 & OY1 & OZ1 & Hr1) (OX2 & OY2 & OZ2 & Hr2) Hz1 Hz2 Hne d e C1 C2.
    pose proof (add_formula X1 Y1 Z1 X2 Y2 Z2 OX1 OY1 OZ1 OX2 OY2 OZ2 Hz1 Hz2 Hne) as Hf.
    destruct (point_add F fo (X1, Y1, Z1) (X2, Y2, Z2)) as [[X3 Y3] Z3]. cbv zeta in Hf.
    destruct Hf as (O1 & O2 & O3 & EZ & EX & EY). cbn [snd]. split.
    - cbn [jrepr]. repeat (split; [assumption|]).
      eapply (add_cross (dec X1) (dec Y1) (dec Z1) (dec X2) (dec Y2) (dec Z2) x1 y1 x2 y2 x3 y3); eauto.
    - rewrite EZ. destruct Hr1 as [HX1 _]. destruct Hr2 as [HX2 _]. rewrite HX1, HX2. zring.
  Qed.

  (* mixed addition, straight-line part (H <> 0 or not needed: the identities hold regardless),
     second operand affine: dec x2 = x2', dec y2 = y2' and Z2 = 1 *)
  Theorem add_affine_old_repr : forall X1 Y1 Z1 xm ym x1 y1 x3 y3,
    jrepr (X1, Y1, Z1) x1 y1 -> ok xm -> ok ym ->
    f_eqb fo Z1 (f_zero fo) = false ->
    f_eqb fo xm (f_zero fo) && f_eqb fo ym (f_zero fo) = false ->
    let x2 := dec xm in let y2 := dec ym in
    let d := x2 - x1 in let e := y2 - y1 in
    x3 * (d * d) == e * e - (x1 + x2) * (d * d) ->
    y3 * (d * d * d) == e * ((x1 - x3) * (d * d)) - y1 * (d * d * d) ->
    jrepr (point_add_affine_old F fo (X1, Y1, Z1) (xm, ym)) x3 y3 /\
    dec (snd (point_add_affine_old F fo (X1, Y1, Z1) (xm, ym))) == (dec xm - x1) * dec Z1 * dec Z1 * dec Z1.
  Proof.
    intros X1 Y1 Z1 xm ym x1 y1 x3 y3 (OX1 & OY1 & OZ1 & Hr1) Oxm Oym Hz1 Hz2 x2 y2 d e C1 C2.
    pose proof (add_affine_formula X1 Y1 Z1 xm ym OX1 OY1 OZ1 Oxm Oym Hz1 Hz2) as Hf.
    destruct (point_add_affine_old F fo (X1, Y1, Z1) (xm, ym)) as [[X3 Y3] Z3]. cbv zeta in Hf.
    destruct Hf as (O1 & O2 & O3 & EZ & EX & EY). cbn [snd]. split.
    - cbn [jrepr]. repeat (split; [assumption|]).
      apply (add_cross (dec X1) (dec Y1) (dec Z1) (dec xm) (dec ym) 1 x1 y1 x2 y2 x3 y3); auto.
      + split; unfold x2, y2; zring.
      + rewrite EZ. zring.
      + rewrite EX. zring.
      + rewrite EY. zring.
    - rewrite EZ. destruct Hr1 as [HX1 _]. rewrite HX1. zring.
  Qed.
End Laws.

(* ---------- the affine law of CurveSpec satisfies the cross-multiplied characterisation as
   soon as the Euclid inverse it uses is an inverse of the denominator (true when p is prime
   and the denominator is non-zero; an explicit premise here) ---------- *)
Ltac zring := (unfold eqm; f_equal; ring).
Ltac zopsJ := cbn [nadd nsub nmul ndiv nmod neqb nofZ ntoZ ZOps T] in *.


Section Spec.
  Variable p : Z.
  Hypothesis Hp : 0 < p.
  Local Instance eqm_equiv' : Equivalence (eqm p) := eqm_setoid p.
  Local Instance eqm_add_m' : Proper (eqm p ==> eqm p ==> eqm p) Z.add := Zplus_eqm p.
  Local Instance eqm_sub_m' : Proper (eqm p ==> eqm p ==> eqm p) Z.sub := Zminus_eqm p.
  Local Instance eqm_mul_m' : Proper (eqm p ==> eqm p ==> eqm p) Z.mul := Zmult_eqm p.

  (* the tangent / chord formulas of CurveSpec written over Z, with the inverse as a parameter *)
  Definition tan_lam (a x y inv : Z) : Z := (((3 * (x * x mod p)) mod p + a) mod p * inv) mod p.
  Definition tan_x3 (a x y inv : Z) : Z :=
    let lam := tan_lam a x y inv in ((lam * lam mod p - x) mod p - x) mod p.
  Definition tan_y3 (a x y inv : Z) : Z :=
    let lam := tan_lam a x y inv in ((lam * ((x - tan_x3 a x y inv) mod p)) mod p - y) mod p.
  Lemma pdbl_unfold : forall a x y,
    pdbl ZOps p a (Some (x, y)) =
    if y =? 0 then None
    else let inv := finv ZOps p ((y + y) mod p) in Some (tan_x3 a x y inv, tan_y3 a x y inv).
  Proof.
    intros a x y. unfold pdbl. change (neqb ZOps y (zero ZOps)) with (y =? 0).
    destruct (y =? 0); [reflexivity|].
    cbv beta iota zeta delta [fsub fmul fadd nadd nsub nmul nmod nofZ ZOps tan_x3 tan_y3 tan_lam T].
    reflexivity.
  Qed.

  Lemma tangent_cross : forall a x y inv, eqm p (inv * (2 * y)) 1 ->
    let x3 := tan_x3 a x y inv in let y3 := tan_y3 a x y inv in
    eqm p (x3 * ((2 * y) * (2 * y))) ((3 * x * x + a) * (3 * x * x + a) - 2 * x * ((2 * y) * (2 * y))) /\
    eqm p (y3 * ((2 * y) * (2 * y) * (2 * y)))
          ((3 * x * x + a) * ((x - x3) * ((2 * y) * (2 * y))) - y * ((2 * y) * (2 * y) * (2 * y))).
  Proof.
    intros a x y inv HI x3 y3.
    assert (L1 : eqm p (tan_lam a x y inv) ((3 * x * x + a) * inv)).
    { unfold tan_lam. rewrite !Zmod_eqm. zring. }
    split.
    - unfold x3, tan_x3. cbv zeta. rewrite !Zmod_eqm. rewrite L1.
      transitivity (((3 * x * x + a) * (inv * (2 * y))) * ((3 * x * x + a) * (inv * (2 * y)))
                    - 2 * x * ((2 * y) * (2 * y))); [zring|].
      rewrite HI. zring.
    - unfold y3, tan_y3. cbv zeta. fold x3. rewrite !Zmod_eqm. rewrite L1.
      transitivity (((3 * x * x + a) * (inv * (2 * y))) * ((x - x3) * ((2 * y) * (2 * y)))
                    - y * ((2 * y) * (2 * y) * (2 * y))); [zring|].
      rewrite HI. zring.
  Qed.

  Definition chord_lam (x1 y1 x2 y2 inv : Z) : Z := (((y2 - y1) mod p) * inv) mod p.
  Definition chord_x3 (x1 y1 x2 y2 inv : Z) : Z :=
    let lam := chord_lam x1 y1 x2 y2 inv in ((lam * lam mod p - x1) mod p - x2) mod p.
  Definition chord_y3 (x1 y1 x2 y2 inv : Z) : Z :=
    let lam := chord_lam x1 y1 x2 y2 inv in
    ((lam * ((x1 - chord_x3 x1 y1 x2 y2 inv) mod p)) mod p - y1) mod p.
  Lemma padd_unfold : forall a x1 y1 x2 y2, x1 <> x2 ->
    padd ZOps p a (Some (x1, y1)) (Some (x2, y2)) =
    let inv := finv ZOps p ((x2 - x1) mod p) in
    Some (chord_x3 x1 y1 x2 y2 inv, chord_y3 x1 y1 x2 y2 inv).
  Proof.
    intros a x1 y1 x2 y2 Hne. unfold padd. change (neqb ZOps x1 x2) with (x1 =? x2).
    destruct (Z.eqb_spec x1 x2); [contradiction|].
    cbv beta iota zeta delta [fsub fmul fadd nadd nsub nmul nmod nofZ ZOps chord_x3 chord_y3 chord_lam T].
    reflexivity.
  Qed.

  Lemma chord_cross : forall x1 y1 x2 y2 inv, eqm p (inv * (x2 - x1)) 1 ->
    let x3 := chord_x3 x1 y1 x2 y2 inv in let y3 := chord_y3 x1 y1 x2 y2 inv in
    let d := x2 - x1 in let e := y2 - y1 in
    eqm p (x3 * (d * d)) (e * e - (x1 + x2) * (d * d)) /\
    eqm p (y3 * (d * d * d)) (e * ((x1 - x3) * (d * d)) - y1 * (d * d * d)).
  Proof.
    intros x1 y1 x2 y2 inv HI x3 y3 d e. subst d e.
    assert (L1 : eqm p (chord_lam x1 y1 x2 y2 inv) ((y2 - y1) * inv)).
    { unfold chord_lam. rewrite !Zmod_eqm. zring. }
    split.
    - unfold x3, chord_x3. cbv zeta. rewrite !Zmod_eqm. rewrite L1.
      transitivity (((y2 - y1) * (inv * (x2 - x1))) * ((y2 - y1) * (inv * (x2 - x1)))
                    - (x1 + x2) * ((x2 - x1) * (x2 - x1))); [zring|].
      rewrite HI. zring.
    - unfold y3, chord_y3. cbv zeta. fold x3. rewrite !Zmod_eqm. rewrite L1.
      transitivity (((y2 - y1) * (inv * (x2 - x1))) * ((x1 - x3) * ((x2 - x1) * (x2 - x1)))
                    - y1 * ((x2 - x1) * (x2 - x1) * (x2 - x1))); [zring|].
      rewrite HI. zring.
  Qed.
End Spec.

(* ---------- the real field layer (value-level model over Z) satisfies the laws ---------- *)
Section Inst.
  Local Instance eqm_equiv'' : Equivalence (eqm c_p) := eqm_setoid c_p.
  Local Instance eqm_add_m'' : Proper (eqm c_p ==> eqm c_p ==> eqm c_p) Z.add := Zplus_eqm c_p.
  Local Instance eqm_sub_m'' : Proper (eqm c_p ==> eqm c_p ==> eqm c_p) Z.sub := Zminus_eqm c_p.
  Local Instance eqm_mul_m'' : Proper (eqm c_p ==> eqm c_p ==> eqm c_p) Z.mul := Zmult_eqm c_p.
  Local Instance eqm_opp_m'' : Proper (eqm c_p ==> eqm c_p) Z.opp := Zopp_eqm c_p.

  Definition okp (x : Z) : Prop := 0 <= x < c_p.
  Definition decp (x : Z) : Z := frm KpZ Rinv_p x.
  Definition half_p : Z := (c_p + 1) / 2.

  Lemma decp_eqm : forall x, eqm c_p (decp x) (x * Rinv_p).
  Proof. intros. unfold decp, frm. change (km KpZ) with c_p. apply Zmod_eqm. Qed.
  Lemma half_p_ok : eqm c_p (2 * half_p) 1.
  Proof. vm_compute. reflexivity. Qed.
  Lemma okp_mod : forall x, okp (x mod c_p).
  Proof. intros. unfold okp. apply Z.mod_pos_bound. reflexivity. Qed.

  Theorem FpZ_laws : flaws c_p half_p Z FpZ okp decp.
  Proof.
    pose proof c_p_pos as Hp.
    constructor; cbn [FpZ modp_fops f_mul f_sqr f_add f_sub f_dbl f_tri f_haf f_neg].
    - intros a b Ha Hb. destruct (frm_mm KpZ KpZ_ok Rinv_p Rinv_p_ok a b Ha Hb) as (B & E).
      split; [exact B|]. unfold decp. rewrite E. change (km KpZ) with c_p. apply Zmod_eqm.
    - intros a Ha. unfold vmont_sqr.
      destruct (frm_mm KpZ KpZ_ok Rinv_p Rinv_p_ok a a Ha Ha) as (B & E).
      split; [exact B|]. unfold decp. rewrite E. change (km KpZ) with c_p. apply Zmod_eqm.
    - intros a b Ha Hb. rewrite (vmod_add_spec KpZ KpZ_ok a b Ha Hb). change (km KpZ) with c_p.
      split; [apply okp_mod|]. rewrite !decp_eqm. rewrite Zmod_eqm. unfold eqm; f_equal; ring.
    - intros a b Ha Hb. rewrite (vmod_sub_spec KpZ KpZ_ok a b Ha Hb). change (km KpZ) with c_p.
      split; [apply okp_mod|]. rewrite !decp_eqm. rewrite Zmod_eqm. unfold eqm; f_equal; ring.
    - intros a Ha. rewrite (vmod_dbl_spec KpZ KpZ_ok a Ha). change (km KpZ) with c_p.
      split; [apply okp_mod|]. rewrite !decp_eqm. rewrite Zmod_eqm. unfold eqm; f_equal; ring.
    - intros a Ha. rewrite (vmod_tri_spec KpZ KpZ_ok a Ha). change (km KpZ) with c_p.
      split; [apply okp_mod|]. rewrite !decp_eqm. rewrite Zmod_eqm. unfold eqm; f_equal; ring.
    - intros a Ha. destruct (vmod_haf_spec KpZ KpZ_ok a Ha) as (B & E). change (km KpZ) with c_p in *.
      split; [exact B|]. set (h := vmod_haf ZOps KpZ a) in *.
      rewrite !decp_eqm.
      assert (E2 : eqm c_p (2 * h) a).
      { unfold eqm. rewrite E. symmetry. apply Z.mod_small. exact Ha. }
      transitivity ((2 * half_p) * (h * Rinv_p)).
      + rewrite half_p_ok. unfold eqm; f_equal; ring.
      + transitivity (half_p * ((2 * h) * Rinv_p)); [unfold eqm; f_equal; ring|].
        rewrite E2. reflexivity.
    - intros a Ha. rewrite (vmod_neg_spec KpZ KpZ_ok a Ha). change (km KpZ) with c_p.
      split; [apply okp_mod|]. rewrite !decp_eqm. rewrite Zmod_eqm. unfold eqm; f_equal; ring.
  Qed.
End Inst.

(* ---------- the real code against CurveSpec: if the affine law yields (x3, y3) (and its Euclid
   inverse is an inverse of the denominator -- true for prime p), the Jacobian code returns a
   representative of (x3, y3) ---------- *)
Section AgainstSpec.
  Local Instance eqm_equiv3 : Equivalence (eqm c_p) := eqm_setoid c_p.
  Notation jr := (jrepr c_p Z okp decp).
  Lemma sm2_a_m3 : eqm c_p sm2_a (-3). Proof. vm_compute. reflexivity. Qed.

  Theorem point_dbl_represents_pdbl_partial : forall X1 Y1 Z1 x y x3 y3,
    jr (X1, Y1, Z1) x y ->
    pdbl ZOps c_p sm2_a (Some (x, y)) = Some (x3, y3) ->
    eqm c_p (finv ZOps c_p ((y + y) mod c_p) * (2 * y)) 1 ->
    jr (point_dbl Z FpZ (X1, Y1, Z1)) x3 y3.
  Proof.
    intros X1 Y1 Z1 x y x3 y3 Hr Hp Hinv. rewrite pdbl_unfold in Hp.
    remember (finv ZOps c_p ((y + y) mod c_p)) as inv eqn:Ei. clear Ei.
    destruct (y =? 0); [discriminate|]. cbv zeta in Hp. injection Hp as E1 E2. subst x3 y3.
    destruct (tangent_cross c_p sm2_a x y inv Hinv) as (C1 & C2).
    exact (proj1 (dbl_repr c_p half_p half_p_ok Z FpZ okp decp FpZ_laws X1 Y1 Z1 x y sm2_a _ _ Hr sm2_a_m3 C1 C2)).
  Qed.

  Theorem point_add_represents_padd_partial : forall X1 Y1 Z1 X2 Y2 Z2 x1 y1 x2 y2 x3 y3,
    jr (X1, Y1, Z1) x1 y1 -> jr (X2, Y2, Z2) x2 y2 ->
    f_eqb FpZ Z1 (f_zero FpZ) = false -> f_eqb FpZ Z2 (f_zero FpZ) = false ->
    f_eqb FpZ (f_mul FpZ X1 (f_sqr FpZ Z2)) (f_mul FpZ X2 (f_sqr FpZ Z1)) = false ->
    x1 <> x2 ->
    padd ZOps c_p sm2_a (Some (x1, y1)) (Some (x2, y2)) = Some (x3, y3) ->
    eqm c_p (finv ZOps c_p ((x2 - x1) mod c_p) * (x2 - x1)) 1 ->
    jr (point_add Z FpZ (X1, Y1, Z1) (X2, Y2, Z2)) x3 y3.
  Proof.
    intros X1 Y1 Z1 X2 Y2 Z2 x1 y1 x2 y2 x3 y3 Hr1 Hr2 Hz1 Hz2 Hne Hx Hp Hinv.
    pose proof (eq_trans (eq_sym Hp) (padd_unfold c_p sm2_a x1 y1 x2 y2 Hx)) as Hq. clear Hp.
    remember (finv ZOps c_p ((x2 - x1) mod c_p)) as inv eqn:Ei. clear Ei.
    cbv zeta in Hq. injection Hq as E1 E2. subst x3 y3.
    destruct (chord_cross c_p x1 y1 x2 y2 inv Hinv) as (C1 & C2).
    exact (proj1 (add_repr c_p half_p Z FpZ okp decp FpZ_laws X1 Y1 Z1 X2 Y2 Z2 x1 y1 x2 y2 _ _ Hr1 Hr2 Hz1 Hz2 Hne C1 C2)).
  Qed.

  (* the mixed addition as it is, generic case H <> 0, both operands finite *)
  Theorem point_add_affine_represents_padd_partial : forall X1 Y1 Z1 xm ym x1 y1 x3 y3,
    jr (X1, Y1, Z1) x1 y1 -> okp xm -> okp ym ->
    f_eqb FpZ Z1 (f_zero FpZ) = false ->
    f_eqb FpZ xm (f_zero FpZ) && f_eqb FpZ ym (f_zero FpZ) = false ->
    f_eqb FpZ (f_sub FpZ (f_mul FpZ xm (f_sqr FpZ Z1)) X1) (f_zero FpZ) = false ->
    x1 <> decp xm ->
    padd ZOps c_p sm2_a (Some (x1, y1)) (Some (decp xm, decp ym)) = Some (x3, y3) ->
    eqm c_p (finv ZOps c_p ((decp xm - x1) mod c_p) * (decp xm - x1)) 1 ->
    jr (point_add_affine Z FpZ (X1, Y1, Z1) (xm, ym)) x3 y3.
  Proof.
    intros X1 Y1 Z1 xm ym x1 y1 x3 y3 Hr1 Ox Oy Hz1 Hz2 HH Hx Hp Hinv.
    rewrite (add_affine_generic Z FpZ X1 Y1 Z1 xm ym HH).
    pose proof (eq_trans (eq_sym Hp) (padd_unfold c_p sm2_a x1 y1 (decp xm) (decp ym) Hx)) as Hq. clear Hp.
    remember (finv ZOps c_p ((decp xm - x1) mod c_p)) as inv eqn:Ei. clear Ei.
    cbv zeta in Hq. injection Hq as E1 E2. subst x3 y3.
    destruct (chord_cross c_p x1 y1 (decp xm) (decp ym) inv Hinv) as (C1 & C2).
    exact (proj1 (add_affine_old_repr c_p half_p Z FpZ okp decp FpZ_laws X1 Y1 Z1 xm ym x1 y1 _ _ Hr1 Ox Oy Hz1 Hz2 C1 C2)).
  Qed.
  (* ... and in its equal-x branch with R = 0 it is the doubling (previous theorem applies) *)
End AgainstSpec.

(* ---------- the defect of the straight-line mixed addition on equal inputs (the whole of
   sm2_z256_point_add_affine before the repair): for P = G (Jacobian, Z = mont(1)) and the
   affine G it returns the all-zero triple instead of 2G; the function as it is now doubles ---------- *)
Definition G_mont_x : Z := Eval vm_compute in (sm2_Gx * 2^256) mod c_p.
Definition G_mont_y : Z := Eval vm_compute in (sm2_Gy * 2^256) mod c_p.
Theorem add_affine_old_equal_inputs_refuted :
  point_add_affine_old Z FpZ (G_mont_x, G_mont_y, c_negp) (G_mont_x, G_mont_y) = (0, 0, 0) /\
  point_dbl Z FpZ (G_mont_x, G_mont_y, c_negp) <> (0, 0, 0) /\
  point_add_affine Z FpZ (G_mont_x, G_mont_y, c_negp) (G_mont_x, G_mont_y)
    = point_dbl Z FpZ (G_mont_x, G_mont_y, c_negp).
Proof. vm_compute. repeat split; try reflexivity. discriminate. Qed.

(* control flow of sm2_z256_point_add_affine in one statement *)
Theorem add_affine_spec : forall F (fo : fops F) X1 Y1 Z1 x2 y2,
  let H := f_sub fo (f_mul fo x2 (f_sqr fo Z1)) X1 in
  let R := f_sub fo (f_mul fo (f_mul fo (f_sqr fo Z1) Z1) y2) Y1 in
  let exceptional := f_eqb fo H (f_zero fo) && negb (f_eqb fo Z1 (f_zero fo)) &&
                     negb (f_eqb fo x2 (f_zero fo) && f_eqb fo y2 (f_zero fo)) in
  point_add_affine F fo (X1, Y1, Z1) (x2, y2) =
  if exceptional then (if f_eqb fo R (f_zero fo) then point_dbl F fo (X1, Y1, Z1) else point_zero F fo)
  else point_add_affine_old F fo (X1, Y1, Z1) (x2, y2).
Proof. intros. reflexivity. Qed.
