(* Number operations abstracted so that one definition of the curve arithmetic
   is used both for proofs (instance over Z) and for running inside Coq
   (instance over Bignums.BigZ with vm_compute, ~100x faster than binary Z). *)
From Coq Require Import ZArith.
From Bignums Require Import BigZ.

Record numops := {
  T : Type;
  nadd : T -> T -> T;
  nsub : T -> T -> T;
  nmul : T -> T -> T;
  ndiv : T -> T -> T;      (* floor division, as Z.div *)
  nmod : T -> T -> T;      (* as Z.modulo *)
  neqb : T -> T -> bool;
  nofZ : Z -> T;
  ntoZ : T -> Z;
}.

Definition ZOps : numops :=
  {| T := Z; nadd := Z.add; nsub := Z.sub; nmul := Z.mul; ndiv := Z.div; nmod := Z.modulo;
     neqb := Z.eqb; nofZ := fun x => x; ntoZ := fun x => x |}.

Definition BigOps : numops :=
  {| T := bigZ; nadd := BigZ.add; nsub := BigZ.sub; nmul := BigZ.mul; ndiv := BigZ.div;
     nmod := BigZ.modulo; neqb := BigZ.eqb; nofZ := BigZ.of_Z; ntoZ := BigZ.to_Z |}.
