(* C13 — sm2_z256_point_mul_generator: correctness of the window loop for every 256-bit scalar
   under named premises about the point-level operations. *)
From Coq Require Import ZArith List Bool Lia.
From Bignums Require Import BigZ.
From GmVerif Require Import Ec.Num Ec.CurveSpec Ec.Z256 Ec.Mont Ec.Jacobian Ec.Booth Ec.BoothProofs
  Ec.ScalarMul Ec.ScalarMulProofs.
Import ListNotations.
Local Open Scope Z_scope.
Ltac Zify.zify_post_hook ::= idtac.

(* ---------- sm2_z256_point_mul_generator computes [k]G for every 256-bit k, PROVIDED the
   point-level operations mean what they should.  The theorem is about the control flow of the
   model: Booth recoding as extracted by the limb code, table indexing, sign handling, the
   "R is still infinity" flag.  Premises (named, never axioms):
     - the meaning [smul] of scalars is additive (this is where the group law enters),
     - the mixed addition, the negation of an affine point, copy_affine and set_infinity
       denote addition, negation, injection and zero on valid operands,
     - table row i, column j denotes [(j+1) 2^(7 i)]G. ---------- *)
Section GenCorrect.
  Variable F : Type.
  Variable fo : fops F.
  Variable addaff : jpoint F -> apoint F -> jpoint F.
  Variable M : Type.
  Variable madd : M -> M -> M.
  Variable mneg : M -> M.
  Variable mzero : M.
  Variable smul : Z -> M.
  Variable okR : jpoint F -> Prop.
  Variable oke : apoint F -> Prop.
  Variable den : jpoint F -> M.
  Variable dena : apoint F -> M.
  Hypothesis smul_add : forall a b, smul (a + b) = madd (smul a) (smul b).
  Hypothesis smul_neg : forall a, smul (- a) = mneg (smul a).
  Hypothesis den_add : forall R e, okR R -> oke e -> okR (addaff R e) /\ den (addaff R e) = madd (den R) (dena e).
  Hypothesis dena_neg : forall e, oke e -> oke (fst e, f_neg fo (snd e)) /\ dena (fst e, f_neg fo (snd e)) = mneg (dena e).
  Hypothesis den_copy : forall e, oke e -> okR (point_copy_affine F fo e) /\ den (point_copy_affine F fo e) = dena e.
  Hypothesis den_inf : den (point_infinity F fo) = smul 0.

  Notation dflt := (f_zero fo, f_zero fo).
  (* a row with weight wgt: entry j denotes [(j+1) wgt]G *)
  Definition row_ok (row : list (apoint F)) (wgt : Z) : Prop :=
    forall j, (j < 64)%nat -> oke (nth j row dflt) /\ dena (nth j row dflt) = smul ((Z.of_nat j + 1) * wgt).

  Definition item := (list (apoint F) * Z * Z)%type.          (* row, digit, weight *)
  Definition item_ok (t : item) : Prop :=
    let '(row, d, wgt) := t in -64 <= d <= 64 /\ row_ok row wgt.
  Fixpoint lead_ok (L : list item) : Prop :=
    match L with [] => True | (_, d, _) :: L' => 0 <= d /\ (d = 0 -> lead_ok L') end.
  Fixpoint wsum (L : list item) : Z :=
    match L with [] => 0 | (_, d, wgt) :: L' => d * wgt + wsum L' end.

  Lemma entry_pos : forall row wgt d, row_ok row wgt -> 0 < d <= 64 ->
    oke (nth (Z.to_nat (d - 1)) row dflt) /\ dena (nth (Z.to_nat (d - 1)) row dflt) = smul (d * wgt).
  Proof.
    intros row wgt d Hr Hd. destruct (Hr (Z.to_nat (d - 1)) ltac:(lia)) as (O & E).
    split; [exact O|]. rewrite E. f_equal. rewrite Z2Nat.id by lia. ring.
  Qed.

  Lemma gen_loop_correct : forall L R Rinf acc,
    Forall item_ok L ->
    (Rinf = true -> acc = 0 /\ lead_ok L) ->
    (Rinf = false -> okR R /\ den R = smul acc) ->
    exists R' Rinf',
      gen_loop F fo addaff (map (fun t : item => fst (fst t)) L) (map (fun t : item => snd (fst t)) L) R Rinf
        = Some (R', Rinf') /\
      (Rinf' = true -> acc + wsum L = 0) /\
      (Rinf' = false -> okR R' /\ den R' = smul (acc + wsum L)).
  Proof.
    induction L as [|[[row d] wgt] L IH]; intros R Rinf acc HL Ht Hf.
    - cbn [map gen_loop wsum]. exists R, Rinf. split; [reflexivity|]. rewrite Z.add_0_r.
      split; intro E; [apply Ht in E; lia | apply Hf in E; exact E].
    - inversion HL as [|? ? Hit HL']; subst. destruct Hit as (Hd & Hrow).
      cbn [map gen_loop wsum fst snd]. destruct Rinf.
      + destruct (Ht eq_refl) as (-> & Hpos & Hlead).
        destruct (Z.eqb_spec d 0) as [->|Hn0].
        * destruct (IH R true 0 HL' ltac:(intro; split; [reflexivity | apply Hlead; reflexivity])
                       ltac:(discriminate)) as (R' & Ri' & E & A & B).
          exists R', Ri'. split; [exact E|]. rewrite Z.mul_0_l, Z.add_0_l. split; assumption.
        * destruct (Z.ltb_spec d 0); [lia|].
          destruct (entry_pos row wgt d Hrow ltac:(lia)) as (Oe & Ee).
          destruct (den_copy _ Oe) as (Oc & Ec).
          destruct (IH (point_copy_affine F fo (nth (Z.to_nat (d - 1)) row dflt)) false (d * wgt) HL'
                       ltac:(discriminate) ltac:(intro; split; [exact Oc | rewrite Ec; exact Ee]))
            as (R' & Ri' & E & A & B).
          exists R', Ri'. split; [exact E|]. rewrite Z.add_0_l. split; assumption.
      + destruct (Hf eq_refl) as (OR & ER).
        unfold subaff.
        destruct (Z.gtb_spec d 0) as [Hp|Hnp].
        * destruct (entry_pos row wgt d Hrow ltac:(lia)) as (Oe & Ee).
          destruct (den_add R _ OR Oe) as (O2 & E2).
          destruct (IH (addaff R (nth (Z.to_nat (d - 1)) row dflt)) false (acc + d * wgt) HL'
                       ltac:(discriminate)
                       ltac:(intro; split; [exact O2 | rewrite E2, ER, Ee, <- smul_add; reflexivity]))
            as (R' & Ri' & E & A & B).
          exists R', Ri'. split; [exact E|]. rewrite Z.add_assoc. split; assumption.
        * destruct (Z.ltb_spec d 0) as [Hneg|Hz].
          -- destruct (entry_pos row wgt (- d) Hrow ltac:(lia)) as (Oe & Ee).
             destruct (dena_neg _ Oe) as (On & En).
             destruct (den_add R _ OR On) as (O2 & E2).
             destruct (IH (addaff R (fst (nth (Z.to_nat (- d - 1)) row dflt),
                                      f_neg fo (snd (nth (Z.to_nat (- d - 1)) row dflt)))) false (acc + d * wgt) HL'
                          ltac:(discriminate)
                          ltac:(intro; split; [exact O2 |
                                 rewrite E2, ER, En, Ee, <- smul_neg, <- smul_add; f_equal; ring]))
               as (R' & Ri' & E & A & B).
             exists R', Ri'. split; [exact E|]. rewrite Z.add_assoc. split; assumption.
          -- assert (d = 0) by lia. subst d.
             destruct (IH R false acc HL' ltac:(discriminate) ltac:(intro; split; assumption))
               as (R' & Ri' & E & A & B).
             exists R', Ri'. split; [exact E|]. rewrite Z.mul_0_l, Z.add_0_l. split; assumption.
  Qed.

  (* ---- assembling the items from the table and the Booth digits of k ---- *)
  Lemma wsum_app : forall L1 L2, wsum (L1 ++ L2) = wsum L1 + wsum L2.
  Proof. induction L1 as [|[[r d] w] L1 IH]; intros; cbn [app wsum]; [lia | rewrite IH; lia]. Qed.
  Lemma wsum_rev : forall L, wsum (rev L) = wsum L.
  Proof.
    induction L as [|[[r d] w] L IH]; cbn [rev wsum]; [reflexivity|].
    rewrite wsum_app, IH. cbn [wsum]. lia.
  Qed.

  Variable tab : list (list (apoint F)).
  Hypothesis tab_len : length tab = 37%nat.
  Hypothesis tab_ok : forall i, (i < 37)%nat -> row_ok (nth i tab []) (2^(7 * Z.of_nat i)).

  Definition mk_item (k : Z) (i : nat) : item := (nth i tab [], booth_v k 7 (Z.of_nat i), 2^(7 * Z.of_nat i)).
  Definition items (k : Z) (n : nat) : list item := map (mk_item k) (seq 0 n).

  Lemma items_rows_k : forall k, map (fun t : item => fst (fst t)) (items k 37) = tab.
  Proof.
    intro k. unfold items. rewrite map_map. cbn [mk_item fst].
    apply nth_ext with (d := []) (d' := []).
    - rewrite map_length, seq_length. symmetry. exact tab_len.
    - intros i Hi. rewrite map_length, seq_length in Hi.
      rewrite (nth_indep _ [] (nth 0 tab [])) by (rewrite map_length, seq_length; exact Hi).
      change (nth 0 tab []) with ((fun i => nth i tab []) 0%nat).
      rewrite map_nth. rewrite seq_nth by exact Hi. reflexivity.
  Qed.
  Lemma items_digits : forall k n, map (fun t : item => snd (fst t)) (items k n) =
    map (fun i => booth_v k 7 (Z.of_nat i)) (seq 0 n).
  Proof. intros. unfold items. rewrite map_map. reflexivity. Qed.

  Lemma wsum_items : forall k n s,
    wsum (map (mk_item k) (seq s n)) = booth_sum 7 (Z.of_nat s) (map (fun i => booth_v k 7 (Z.of_nat i)) (seq s n)).
  Proof.
    intros k n. induction n as [|n IH]; intros s; cbn [seq map wsum booth_sum mk_item]; [reflexivity|].
    rewrite IH. replace (Z.of_nat s + 1) with (Z.of_nat (S s)) by lia. reflexivity.
  Qed.

  Lemma items_ok : forall k n, 0 <= k -> (n <= 37)%nat -> Forall item_ok (items k n).
  Proof.
    intros k n Hk Hn. unfold items. apply Forall_forall. intros t Ht. apply in_map_iff in Ht.
    destruct Ht as (i & <- & Hi). apply in_seq in Hi. unfold mk_item, item_ok. split.
    - apply booth_range_7; lia.
    - apply tab_ok. lia.
  Qed.

  Lemma items_lead : forall k n,
    (forall i, (i < n)%nat -> (forall j, (i < j < n)%nat -> booth_v k 7 (Z.of_nat j) = 0) ->
               0 <= booth_v k 7 (Z.of_nat i)) ->
    lead_ok (rev (items k n)).
  Proof.
    intros k n. induction n as [|n IH]; intros H; [exact I|].
    unfold items. rewrite seq_S, map_app, rev_app_distr. cbn [map rev app lead_ok mk_item plus].
    split.
    - apply H; [lia | intros j Hj; lia].
    - intro Z0. apply IH. intros i Hi Hz. apply H; [lia|].
      intros j Hj. destruct (Nat.eq_dec j n) as [->|Nj]; [exact Z0 | apply Hz; lia].
  Qed.

  Theorem mul_generator_correct_partial : forall k, 0 <= k < 2^256 ->
    exists R, point_mul_generator F fo addaff tab k = Some R /\ den R = smul k.
  Proof.
    intros k Hk. unfold point_mul_generator.
    rewrite (booth_digits_limbs_7 k Hk). unfold booth_digits_v. change (booth_n 7) with 37%nat.
    assert (Hsum : wsum (rev (items k 37)) = k).
    { rewrite wsum_rev. unfold items. rewrite wsum_items. apply (booth_sum_7 k Hk). }
    assert (E1 : rev tab = map (fun t : item => fst (fst t)) (rev (items k 37)))
      by (rewrite map_rev, items_rows_k; reflexivity).
    assert (E2 : rev (map (fun i => booth_v k 7 (Z.of_nat i)) (seq 0 37)) =
                 map (fun t : item => snd (fst t)) (rev (items k 37)))
      by (rewrite map_rev, items_digits; reflexivity).
    set (Lk := items k 37) in *. rewrite E1, E2.
    destruct (gen_loop_correct (rev Lk) (point_zero F fo) true 0) as (R' & Ri' & E & A & B).
    - apply Forall_rev. unfold Lk. apply items_ok; lia.
    - intros _. split; [reflexivity|]. unfold Lk. apply items_lead. intros i Hi Hz.
      apply (leading_digit_nonneg 7 ltac:(lia) k ltac:(lia) 37%nat i); auto.
      change (2^(7 * Z.of_nat 37)) with (2^259). lia.
    - discriminate.
    - rewrite E. rewrite Hsum, Z.add_0_l in A, B. destruct Ri'.
      + exists (point_infinity F fo). split; [reflexivity|]. rewrite den_inf. f_equal. symmetry. apply A. reflexivity.
      + exists R'. split; [reflexivity|]. apply B. reflexivity.
  Qed.
End GenCorrect.

(* the premises are satisfiable (trivial meaning), which also shows that the model never reads
   the table out of bounds: for every 256-bit k the generator multiplication returns a point *)
Corollary mul_generator_total : forall k, 0 <= k < 2^256 -> exists R, mulgen k = Some R.
Proof.
  intros k Hk. unfold mulgen.
  assert (TL : length sm2_pre_table = 37%nat) by (destruct table_shape; assumption).
  assert (TO : forall i, (i < 37)%nat ->
            row_ok Z FpZ unit (fun _ => tt) (fun _ => True) (fun _ => tt) (nth i sm2_pre_table []) (2^(7 * Z.of_nat i)))
    by (intros i Hi j Hj; split; [exact I | reflexivity]).
  destruct (mul_generator_correct_partial Z FpZ (point_add_affine Z FpZ) unit (fun _ _ => tt) (fun _ => tt)
              (fun _ => tt) (fun _ => True) (fun _ => True) (fun _ => tt) (fun _ => tt)
              ltac:(reflexivity) ltac:(reflexivity)
              ltac:(intros; split; [exact I | reflexivity])
              ltac:(intros; split; [exact I | reflexivity])
              ltac:(intros; split; [exact I | reflexivity])
              ltac:(reflexivity) sm2_pre_table TL TO k Hk) as (R & E & _).
  exists R. exact E.
Qed.
