(* C13 — sm2_z256_point_mul_generator: correctness of the window loop for every 256-bit scalar
   under named premises about the point-level operations. *)
From Coq Require Import ZArith List Bool Lia.
From Bignums Require Import BigZ.
From GmVerif Require Import Ec.Num Ec.CurveSpec Ec.Z256 Ec.Mont Ec.Jacobian Ec.Booth Ec.BoothProofs
  Ec.ScalarMul Ec.ScalarMulProofs.
Import ListNotations.
Local Open Scope Z_scope.
Ltac Zify.zify_post_hook ::= idtac.

(* ---------- sm2_z256_point_mul_generator computes [k]G for every 256-bit k, PROVIDED the
   point-level operations mean what they should.  The theorem is about the control flow of the
   model: Booth recoding as extracted by the limb code, table indexing, sign handling, the
   "R is still infinity" flag.  Premises (named, never axioms):
     - the meaning [smul] of scalars is additive (this is where the group law enters),
     - the mixed addition, the negation of an affine point, copy_affine and set_infinity
       denote addition, negation, injection and zero on valid operands,
     - table row i, column j denotes [(j+1) 2^(7 i)]G. ---------- *)
Section GenCorrect.
  Variable F : Type.
  Variable fo : fops F.
  Variable addaff : jpoint F -> apoint F -> jpoint F.
  Variable M : Type.
  Variable madd : M -> M -> M.
  Variable mneg : M -> M.
  Variable mzero : M.
  Variable smul : Z -> M.
  Variable okR : jpoint F -> Prop.
  Variable oke : apoint F -> Prop.
  Variable den : jpoint F -> M.
  Variable dena : apoint F -> M.
  Hypothesis smul_add : forall a b, smul (a + b) = madd (smul a) (smul b).
  Hypothesis smul_neg : forall a, smul (- a) = mneg (smul a).
  Hypothesis den_add : forall R e, okR R -> oke e -> okR (addaff R e) /\ den (addaff R e) = madd (den R) (dena e).
  Hypothesis dena_neg : forall e, oke e -> oke (fst e, f_neg fo (snd e)) /\ dena (fst e, f_neg fo (snd e)) = mneg (dena e).
  Hypothesis den_copy : forall e, oke e -> okR (point_copy_affine F fo e) /\ den (point_copy_affine F fo e) = dena e.
  Hypothesis den_inf : okR (point_infinity F fo) /\ den (point_infinity F fo) = smul 0.

  Notation dflt := (f_zero fo, f_zero fo).
  (* a row with weight wgt: entry j denotes [(j+1) wgt]G *)
  Definition row_ok (row : list (apoint F)) (wgt : Z) : Prop :=
    forall j, (j < 64)%nat -> oke (nth j row dflt) /\ dena (nth j row dflt) = smul ((Z.of_nat j + 1) * wgt).

  Definition item := (list (apoint F) * Z * Z)%type.          (* row, digit, weight *)
  Definition item_ok (t : item) : Prop :=
    let '(row, d, wgt) := t in -64 <= d <= 64 /\ row_ok row wgt.
  Fixpoint lead_ok (L : list item) : Prop :=
    match L with [] => True | (_, d, _) :: L' => 0 <= d /\ (d = 0 -> lead_ok L') end.
  Fixpoint wsum (L : list item) : Z :=
    match L with [] => 0 | (_, d, wgt) :: L' => d * wgt + wsum L' end.

  Lemma entry_pos : forall row wgt d, row_ok row wgt -> 0 < d <= 64 ->
    oke (nth (Z.to_nat (d - 1)) row dflt) /\ dena (nth (Z.to_nat (d - 1)) row dflt) = smul (d * wgt).
  Proof.
    intros row wgt d Hr Hd. destruct (Hr (Z.to_nat (d - 1)) ltac:(lia)) as (O & E).
    split; [exact O|]. rewrite E. f_equal. rewrite Z2Nat.id by lia. ring.
  Qed.

  Lemma gen_loop_correct : forall L R Rinf acc,
    Forall item_ok L ->
    (Rinf = true -> acc = 0 /\ lead_ok L) ->
    (Rinf = false -> okR R /\ den R = smul acc) ->
    exists R' Rinf',
      gen_loop F fo addaff (map (fun t : item => fst (fst t)) L) (map (fun t : item => snd (fst t)) L) R Rinf
        = Some (R', Rinf') /\
      (Rinf' = true -> acc + wsum L = 0) /\
      (Rinf' = false -> okR R' /\ den R' = smul (acc + wsum L)).
  Proof.
    induction L as [|[[row d] wgt] L IH]; intros R Rinf acc HL Ht Hf.
    - cbn [map gen_loop wsum]. exists R, Rinf. split; [reflexivity|]. rewrite Z.add_0_r.
      split; intro E; [apply Ht in E; lia | apply Hf in E; exact E].
    - inversion HL as [|? ? Hit HL']; subst. destruct Hit as (Hd & Hrow).
      cbn [map gen_loop wsum fst snd]. destruct Rinf.
      + destruct (Ht eq_refl) as (-> & Hpos & Hlead).
        destruct (Z.eqb_spec d 0) as [->|Hn0].
        * destruct (IH R true 0 HL' ltac:(intro; split; [reflexivity | apply Hlead; reflexivity])
                       ltac:(discriminate)) as (R' & Ri' & E & A & B).
          exists R', Ri'. split; [exact E|]. rewrite Z.mul_0_l, Z.add_0_l. split; assumption.
        * destruct (Z.ltb_spec d 0); [lia|].
          destruct (entry_pos row wgt d Hrow ltac:(lia)) as (Oe & Ee).
          destruct (den_copy _ Oe) as (Oc & Ec).
          destruct (IH (point_copy_affine F fo (nth (Z.to_nat (d - 1)) row dflt)) false (d * wgt) HL'
                       ltac:(discriminate) ltac:(intro; split; [exact Oc | rewrite Ec; exact Ee]))
            as (R' & Ri' & E & A & B).
          exists R', Ri'. split; [exact E|]. rewrite Z.add_0_l. split; assumption.
      + destruct (Hf eq_refl) as (OR & ER).
        unfold subaff.
        destruct (Z.gtb_spec d 0) as [Hp|Hnp].
        * destruct (entry_pos row wgt d Hrow ltac:(lia)) as (Oe & Ee).
          destruct (den_add R _ OR Oe) as (O2 & E2).
          destruct (IH (addaff R (nth (Z.to_nat (d - 1)) row dflt)) false (acc + d * wgt) HL'
                       ltac:(discriminate)
                       ltac:(intro; split; [exact O2 | rewrite E2, ER, Ee, <- smul_add; reflexivity]))
            as (R' & Ri' & E & A & B).
          exists R', Ri'. split; [exact E|]. rewrite Z.add_assoc. split; assumption.
        * destruct (Z.ltb_spec d 0) as [Hneg|Hz].
          -- destruct (entry_pos row wgt (- d) Hrow ltac:(lia)) as (Oe & Ee).
             destruct (dena_neg _ Oe) as (On & En).
             destruct (den_add R _ OR On) as (O2 & E2).
             destruct (IH (addaff R (fst (nth (Z.to_nat (- d - 1)) row dflt),
                                      f_neg fo (snd (nth (Z.to_nat (- d - 1)) row dflt)))) false (acc + d * wgt) HL'
                          ltac:(discriminate)
                          ltac:(intro; split; [exact O2 |
                                 rewrite E2, ER, En, Ee, <- smul_neg, <- smul_add; f_equal; ring]))
               as (R' & Ri' & E & A & B).
             exists R', Ri'. split; [exact E|]. rewrite Z.add_assoc. split; assumption.
          -- assert (d = 0) by lia. subst d.
             destruct (IH R false acc HL' ltac:(discriminate) ltac:(intro; split; assumption))
               as (R' & Ri' & E & A & B).
             exists R', Ri'. split; [exact E|]. rewrite Z.mul_0_l, Z.add_0_l. split; assumption.
  Qed.

  (* ---- assembling the items from the table and the Booth digits of k ---- *)
  Lemma wsum_app : forall L1 L2, wsum (L1 ++ L2) = wsum L1 + wsum L2.
  Proof. induction L1 as [|[[r d] w] L1 IH]; intros; cbn [app wsum]; [lia | rewrite IH; lia]. Qed.
  Lemma wsum_rev : forall L, wsum (rev L) = wsum L.
  Proof.
    induction L as [|[[r d] w] L IH]; cbn [rev wsum]; [reflexivity|].
    rewrite wsum_app, IH. cbn [wsum]. lia.
  Qed.

  Variable tab : list (list (apoint F)).
  Hypothesis tab_len : length tab = 37%nat.
  Hypothesis tab_ok : forall i, (i < 37)%nat -> row_ok (nth i tab []) (2^(7 * Z.of_nat i)).

  Definition mk_item (k : Z) (i : nat) : item := (nth i tab [], booth_v k 7 (Z.of_nat i), 2^(7 * Z.of_nat i)).
  Definition items (k : Z) (n : nat) : list item := map (mk_item k) (seq 0 n).

  Lemma items_rows_k : forall k, map (fun t : item => fst (fst t)) (items k 37) = tab.
  Proof.
    intro k. unfold items. rewrite map_map. cbn [mk_item fst].
    apply nth_ext with (d := []) (d' := []).
    - rewrite map_length, seq_length. symmetry. exact tab_len.
    - intros i Hi. rewrite map_length, seq_length in Hi.
      rewrite (nth_indep _ [] (nth 0 tab [])) by (rewrite map_length, seq_length; exact Hi).
      change (nth 0 tab []) with ((fun i => nth i tab []) 0%nat).
      rewrite map_nth. rewrite seq_nth by exact Hi. reflexivity.
  Qed.
  Lemma items_digits : forall k n, map (fun t : item => snd (fst t)) (items k n) =
    map (fun i => booth_v k 7 (Z.of_nat i)) (seq 0 n).
  Proof. intros. unfold items. rewrite map_map. reflexivity. Qed.

  Lemma wsum_items : forall k n s,
    wsum (map (mk_item k) (seq s n)) = booth_sum 7 (Z.of_nat s) (map (fun i => booth_v k 7 (Z.of_nat i)) (seq s n)).
  Proof.
    intros k n. induction n as [|n IH]; intros s; cbn [seq map wsum booth_sum mk_item]; [reflexivity|].
    rewrite IH. replace (Z.of_nat s + 1) with (Z.of_nat (S s)) by lia. reflexivity.
  Qed.

  Lemma items_ok : forall k n, 0 <= k -> (n <= 37)%nat -> Forall item_ok (items k n).
  Proof.
    intros k n Hk Hn. unfold items. apply Forall_forall. intros t Ht. apply in_map_iff in Ht.
    destruct Ht as (i & <- & Hi). apply in_seq in Hi. unfold mk_item, item_ok. split.
    - apply booth_range_7; lia.
    - apply tab_ok. lia.
  Qed.

  Lemma items_lead : forall k n,
    (forall i, (i < n)%nat -> (forall j, (i < j < n)%nat -> booth_v k 7 (Z.of_nat j) = 0) ->
               0 <= booth_v k 7 (Z.of_nat i)) ->
    lead_ok (rev (items k n)).
  Proof.
    intros k n. induction n as [|n IH]; intros H; [exact I|].
    unfold items. rewrite seq_S, map_app, rev_app_distr. cbn [map rev app lead_ok mk_item plus].
    split.
    - apply H; [lia | intros j Hj; lia].
    - intro Z0. apply IH. intros i Hi Hz. apply H; [lia|].
      intros j Hj. destruct (Nat.eq_dec j n) as [->|Nj]; [exact Z0 | apply Hz; lia].
  Qed.

  Theorem mul_generator_correct_partial : forall k, 0 <= k < 2^256 ->
    exists R, point_mul_generator F fo addaff tab k = Some R /\ okR R /\ den R = smul k.
  Proof.
    intros k Hk. unfold point_mul_generator.
    rewrite (booth_digits_limbs_7 k Hk). unfold booth_digits_v. change (booth_n 7) with 37%nat.
    assert (Hsum : wsum (rev (items k 37)) = k).
    { rewrite wsum_rev. unfold items. rewrite wsum_items. apply (booth_sum_7 k Hk). }
    assert (E1 : rev tab = map (fun t : item => fst (fst t)) (rev (items k 37)))
      by (rewrite map_rev, items_rows_k; reflexivity).
    assert (E2 : rev (map (fun i => booth_v k 7 (Z.of_nat i)) (seq 0 37)) =
                 map (fun t : item => snd (fst t)) (rev (items k 37)))
      by (rewrite map_rev, items_digits; reflexivity).
    set (Lk := items k 37) in *. rewrite E1, E2.
    destruct (gen_loop_correct (rev Lk) (point_zero F fo) true 0) as (R' & Ri' & E & A & B).
    - apply Forall_rev. unfold Lk. apply items_ok; lia.
    - intros _. split; [reflexivity|]. unfold Lk. apply items_lead. intros i Hi Hz.
      apply (leading_digit_nonneg 7 ltac:(lia) k ltac:(lia) 37%nat i); auto.
      change (2^(7 * Z.of_nat 37)) with (2^259). lia.
    - discriminate.
    - rewrite E. rewrite Hsum, Z.add_0_l in A, B. destruct Ri'.
      + exists (point_infinity F fo). split; [reflexivity|]. destruct den_inf as [OI EI]. split; [exact OI|].
        rewrite EI. f_equal. symmetry. apply A. reflexivity.
      + exists R'. split; [reflexivity|]. apply B. reflexivity.
  Qed.
End GenCorrect.

(* the premises are satisfiable (trivial meaning), which also shows that the model never reads
   the table out of bounds: for every 256-bit k the generator multiplication returns a point *)
Corollary mul_generator_total : forall k, 0 <= k < 2^256 -> exists R, mulgen k = Some R.
Proof.
  intros k Hk. unfold mulgen.
  assert (TL : length sm2_pre_table = 37%nat) by (destruct table_shape; assumption).
  assert (TO : forall i, (i < 37)%nat ->
            row_ok Z FpZ unit (fun _ => tt) (fun _ => True) (fun _ => tt) (nth i sm2_pre_table []) (2^(7 * Z.of_nat i)))
    by (intros i Hi j Hj; split; [exact I | reflexivity]).
  destruct (mul_generator_correct_partial Z FpZ (point_add_affine Z FpZ) unit (fun _ _ => tt) (fun _ => tt)
              (fun _ => tt) (fun _ => True) (fun _ => True) (fun _ => tt) (fun _ => tt)
              ltac:(reflexivity) ltac:(reflexivity)
              ltac:(intros; split; [exact I | reflexivity])
              ltac:(intros; split; [exact I | reflexivity])
              ltac:(intros; split; [exact I | reflexivity])
              ltac:(split; [exact I | reflexivity]) sm2_pre_table TL TO k Hk) as (R & E & _).
  exists R. exact E.
Qed.

(* ---------- sm2_z256_point_mul (w = 5 signed windows over the table [1..16]P built by
   sm2_z256_point_mul_pre_compute) computes [k]P for every 256-bit k, PROVIDED the point-level
   operations mean what they should (named premises).  Covered: both branches of the table
   construction, the top-window handling, five doublings per window, signed digits. ---------- *)
Section MulCorrect.
  Variable F : Type.
  Variable fo : fops F.
  Variable addaff : jpoint F -> apoint F -> jpoint F.
  Variable M : Type.
  Variable madd : M -> M -> M.
  Variable mneg : M -> M.
  Variable smul : Z -> M.                       (* k |-> [k]P *)
  Variable okR : jpoint F -> Prop.
  Variable den : jpoint F -> M.
  Hypothesis smul_add : forall a b, smul (a + b) = madd (smul a) (smul b).
  Hypothesis smul_neg : forall a, smul (- a) = mneg (smul a).
  Hypothesis den_dbl : forall R, okR R -> okR (point_dbl F fo R) /\ den (point_dbl F fo R) = madd (den R) (den R).
  Hypothesis den_add : forall R Q, okR R -> okR Q ->
    okR (point_add F fo R Q) /\ den (point_add F fo R Q) = madd (den R) (den Q).
  Hypothesis den_neg : forall Q, okR Q -> okR (point_neg F fo Q) /\ den (point_neg F fo Q) = mneg (den Q).
  Hypothesis den_zero : okR (point_zero F fo) /\ den (point_zero F fo) = smul 0.

  Variables X Y Zc : F.
  Notation P := (X, Y, Zc).
  Hypothesis P_ok : okR P.
  Hypothesis P_den : den P = smul 1.
  (* the mixed addition with the affine view of P (used when Z = mont(1)) *)
  Hypothesis den_addaff : forall R, okR R ->
    okR (addaff R (X, Y)) /\ den (addaff R (X, Y)) = madd (den R) (smul 1).

  Definition means (R : jpoint F) (n : Z) : Prop := okR R /\ den R = smul n.

  Lemma means_dbl : forall R n, means R n -> means (point_dbl F fo R) (2 * n).
  Proof.
    intros R n [O E]. destruct (den_dbl R O) as [O2 E2]. split; [exact O2|].
    rewrite E2, E, <- smul_add. f_equal. ring.
  Qed.
  Lemma means_add : forall R Q n m, means R n -> means Q m -> means (point_add F fo R Q) (n + m).
  Proof.
    intros R Q n m [O E] [O' E']. destruct (den_add R Q O O') as [O2 E2]. split; [exact O2|].
    rewrite E2, E, E', <- smul_add. reflexivity.
  Qed.
  Lemma means_sub : forall R Q n m, means R n -> means Q m -> means (point_sub F fo R Q) (n - m).
  Proof.
    intros R Q n m HR [O' E']. unfold point_sub. destruct (den_neg Q O') as [O2 E2].
    replace (n - m) with (n + - m) by ring. apply means_add; [exact HR|].
    split; [exact O2|]. rewrite E2, E', <- smul_neg. reflexivity.
  Qed.
  Lemma means_addaff : forall R n, means R n -> means (addaff R (X, Y)) (n + 1).
  Proof.
    intros R n [O E]. destruct (den_addaff R O) as [O2 E2]. split; [exact O2|].
    rewrite E2, E, <- smul_add. reflexivity.
  Qed.
  Lemma means_P : means P 1. Proof. split; assumption. Qed.

  (* the table: entry j denotes [j+1]P *)
  Definition table_ok (T : list (jpoint F)) : Prop :=
    length T = 16%nat /\ forall j, (j < 16)%nat -> means (nth j T (point_zero F fo)) (Z.of_nat j + 1).

  Lemma pre_compute_ok : table_ok (pre_compute F fo addaff P).
  Proof.
    unfold pre_compute.
    pose proof means_addaff as A.
    pose proof means_P as M1.
    destruct (f_eqb fo Zc (f_one fo)).
    - (* affine branch *)
      set (T0 := (X, Y, Zc)) in *.
      pose proof (means_dbl _ _ M1) as M2. set (T1 := point_dbl F fo T0) in *.
      pose proof (A _ _ M2) as M3. set (T2 := addaff T1 (X, Y)) in *.
      pose proof (means_dbl _ _ M2) as M4. set (T3 := point_dbl F fo T1) in *.
      pose proof (A _ _ M4) as M5. set (T4 := addaff T3 (X, Y)) in *.
      pose proof (means_dbl _ _ M3) as M6. set (T5 := point_dbl F fo T2) in *.
      pose proof (A _ _ M6) as M7. set (T6 := addaff T5 (X, Y)) in *.
      pose proof (means_dbl _ _ M4) as M8. set (T7 := point_dbl F fo T3) in *.
      pose proof (A _ _ M8) as M9. set (T8 := addaff T7 (X, Y)) in *.
      pose proof (means_dbl _ _ M5) as M10. set (T9 := point_dbl F fo T4) in *.
      pose proof (A _ _ M10) as M11. set (T10 := addaff T9 (X, Y)) in *.
      pose proof (means_dbl _ _ M6) as M12. set (T11 := point_dbl F fo T5) in *.
      pose proof (A _ _ M12) as M13. set (T12 := addaff T11 (X, Y)) in *.
      pose proof (means_dbl _ _ M7) as M14. set (T13 := point_dbl F fo T6) in *.
      pose proof (A _ _ M14) as M15. set (T14 := addaff T13 (X, Y)) in *.
      pose proof (means_dbl _ _ M8) as M16. set (T15 := point_dbl F fo T7) in *.
      split; [reflexivity|]. intros j Hj.
      do 16 (destruct j as [|j]; [cbn [nth Z.of_nat]; assumption|]). lia.
    - (* general branch *)
      set (t1 := (X, Y, Zc)) in *.
      pose proof (means_dbl _ _ M1) as M2. set (t2 := point_dbl F fo t1) in *.
      pose proof (means_dbl _ _ M2) as M4. set (t4 := point_dbl F fo t2) in *.
      pose proof (means_dbl _ _ M4) as M8. set (t8 := point_dbl F fo t4) in *.
      pose proof (means_dbl _ _ M8) as M16. set (t16 := point_dbl F fo t8) in *.
      pose proof (means_add _ _ _ _ M2 M1) as M3. set (t3 := point_add F fo t2 t1) in *.
      pose proof (means_dbl _ _ M3) as M6. set (t6 := point_dbl F fo t3) in *.
      pose proof (means_dbl _ _ M6) as M12. set (t12 := point_dbl F fo t6) in *.
      pose proof (means_add _ _ _ _ M3 M2) as M5. set (t5 := point_add F fo t3 t2) in *.
      pose proof (means_dbl _ _ M5) as M10. set (t10 := point_dbl F fo t5) in *.
      pose proof (means_add _ _ _ _ M4 M3) as M7. set (t7 := point_add F fo t4 t3) in *.
      pose proof (means_dbl _ _ M7) as M14. set (t14 := point_dbl F fo t7) in *.
      pose proof (means_add _ _ _ _ M4 M5) as M9. set (t9 := point_add F fo t4 t5) in *.
      pose proof (means_add _ _ _ _ M6 M5) as M11. set (t11 := point_add F fo t6 t5) in *.
      pose proof (means_add _ _ _ _ M7 M6) as M13. set (t13 := point_add F fo t7 t6) in *.
      pose proof (means_add _ _ _ _ M8 M7) as M15. set (t15 := point_add F fo t8 t7) in *.
      split; [reflexivity|]. intros j Hj.
      do 16 (destruct j as [|j]; [cbn [nth Z.of_nat]; assumption|]). lia.
  Qed.

  (* the window loop: Horner evaluation with radix 32 *)
  Fixpoint lead5 (L : list Z) : Prop :=
    match L with [] => True | d :: L' => 0 <= d /\ (d = 0 -> lead5 L') end.
  Fixpoint horner (L : list Z) (acc : Z) : Z :=
    match L with [] => acc | d :: L' => horner L' (32 * acc + d) end.

  Lemma entry5 : forall T d, table_ok T -> 0 < d <= 16 ->
    means (nth (Z.to_nat (d - 1)) T (point_zero F fo)) d.
  Proof.
    intros T d [_ HT] Hd. pose proof (HT (Z.to_nat (d - 1)) ltac:(lia)) as H.
    rewrite Z2Nat.id in H by lia. replace (d - 1 + 1) with d in H by ring. exact H.
  Qed.

  Lemma mul_loop_correct : forall T, table_ok T -> forall L R Rinf acc,
    Forall (fun d => -16 <= d <= 16) L ->
    (Rinf = true -> acc = 0 /\ lead5 L) ->
    (Rinf = false -> means R acc) ->
    exists R' Rinf', mul_loop F fo T L R Rinf = Some (R', Rinf') /\
      (Rinf' = true -> horner L acc = 0) /\
      (Rinf' = false -> means R' (horner L acc)).
  Proof.
    intros T HT. induction L as [|d L IH]; intros R Rinf acc HL Ht Hf.
    - cbn [mul_loop horner]. exists R, Rinf. split; [reflexivity|].
      split; intro E; [apply Ht in E; lia | apply Hf in E; exact E].
    - inversion HL as [|? ? Hd HL']; subst. cbn [mul_loop horner]. destruct Rinf.
      + destruct (Ht eq_refl) as (-> & Hpos & Hlead). rewrite Z.mul_0_r, Z.add_0_l.
        destruct (Z.eqb_spec d 0) as [->|Hn0].
        * apply (IH R true 0 HL'); [intro; split; [reflexivity | apply Hlead; reflexivity] | discriminate].
        * destruct (Z.ltb_spec d 0); [lia|].
          apply (IH _ false d HL'); [discriminate | intro; apply entry5; [exact HT | lia]].
      + pose proof (Hf eq_refl) as HR.
        pose proof (means_dbl _ _ (means_dbl _ _ (means_dbl _ _ (means_dbl _ _ (means_dbl _ _ HR))))) as H32.
        replace (2 * (2 * (2 * (2 * (2 * acc))))) with (32 * acc) in H32 by ring.
        set (R5 := point_dbl F fo (point_dbl F fo (point_dbl F fo (point_dbl F fo (point_dbl F fo R))))) in *.
        destruct (Z.gtb_spec d 0) as [Hp|Hnp].
        * apply (IH _ false (32 * acc + d) HL'); [discriminate|].
          intro. apply means_add; [exact H32 | apply entry5; [exact HT | lia]].
        * destruct (Z.ltb_spec d 0) as [Hneg|Hz].
          -- apply (IH _ false (32 * acc + d) HL'); [discriminate|].
             intro. replace (32 * acc + d) with (32 * acc - (- d)) by ring.
             apply means_sub; [exact H32 | apply entry5; [exact HT | lia]].
          -- assert (d = 0) by lia. subst d. rewrite Z.add_0_r.
             apply (IH _ false (32 * acc) HL'); [discriminate | intro; exact H32].
  Qed.

  (* Horner over the most-significant-first digits = the Booth sum *)
  Fixpoint bs32 (ds : list Z) : Z := match ds with [] => 0 | d :: r => d + 32 * bs32 r end.
  Lemma horner_app : forall L1 L2 acc, horner (L1 ++ L2) acc = horner L2 (horner L1 acc).
  Proof. induction L1; intros; cbn [app horner]; auto. Qed.
  Lemma horner_rev : forall ds, horner (rev ds) 0 = bs32 ds.
  Proof.
    induction ds as [|d r IH]; cbn [rev bs32 horner]; [reflexivity|].
    rewrite horner_app, IH. cbn [horner]. ring.
  Qed.
  Lemma booth_sum_bs32 : forall ds i, 0 <= i -> booth_sum 5 i ds = 2^(5 * i) * bs32 ds.
  Proof.
    induction ds as [|d r IH]; intros i Hi; cbn [booth_sum bs32]; [ring|].
    rewrite IH by lia. replace (5 * (i + 1)) with (5 * i + 5) by ring.
    rewrite Z.pow_add_r by lia. change (2^5) with 32. ring.
  Qed.

  Lemma lead5_rev_digits : forall k n, 0 <= k ->
    (forall i, (i < n)%nat -> (forall j, (i < j < n)%nat -> booth_v k 5 (Z.of_nat j) = 0) ->
               0 <= booth_v k 5 (Z.of_nat i)) ->
    lead5 (rev (map (fun i => booth_v k 5 (Z.of_nat i)) (seq 0 n))).
  Proof.
    intros k n Hk. induction n as [|n IH]; intros H; [exact I|].
    rewrite seq_S, map_app, rev_app_distr. cbn [map rev app lead5 plus]. split.
    - apply H; [lia | intros j Hj; lia].
    - intro Z0. apply IH. intros i Hi Hz. apply H; [lia|].
      intros j Hj. destruct (Nat.eq_dec j n) as [->|Nj]; [exact Z0 | apply Hz; lia].
  Qed.

  Theorem point_mul_correct_partial : forall k, 0 <= k < 2^256 ->
    exists R, point_mul F fo addaff k P = Some R /\ okR R /\ den R = smul k.
  Proof.
    intros k Hk. unfold point_mul, point_mul_ex.
    rewrite (booth_digits_limbs_5 k Hk). unfold booth_digits_v. change (booth_n 5) with 52%nat.
    set (ds := map (fun i => booth_v k 5 (Z.of_nat i)) (seq 0 52)).
    assert (Hsum : horner (rev ds) 0 = k).
    { rewrite horner_rev. pose proof (booth_sum_5 k Hk) as S. unfold booth_digits_v in S.
      change (booth_n 5) with 52%nat in S. fold ds in S. rewrite booth_sum_bs32 in S by lia.
      change (2^(5 * 0)) with 1 in S. lia. }
    destruct (mul_loop_correct _ pre_compute_ok (rev ds) (point_zero F fo) true 0) as (R' & Ri' & E & A & B).
    - apply Forall_rev. unfold ds. apply Forall_forall. intros d Hd. apply in_map_iff in Hd.
      destruct Hd as (i & <- & _). apply booth_range_5; lia.
    - intros _. split; [reflexivity|]. unfold ds. apply lead5_rev_digits; [lia|]. intros i Hi Hz.
      apply (leading_digit_nonneg 5 ltac:(lia) k ltac:(lia) 52%nat i); auto.
      change (2^(5 * Z.of_nat 52)) with (2^260). lia.
    - discriminate.
    - rewrite E. rewrite Hsum in A, B. destruct Ri'.
      + exists (point_zero F fo). split; [reflexivity|]. destruct den_zero as [O Z0].
        split; [exact O|]. rewrite Z0. f_equal. symmetry. apply A. reflexivity.
      + exists R'. split; [reflexivity|]. apply B. reflexivity.
  Qed.
End MulCorrect.

(* ---------- sm2_z256_point_mul_sum: [s]G by the fixed-base routine, [t]P by the windowed
   routine, one full addition ---------- *)
Theorem point_mul_sum_correct_partial :
  forall (F : Type) (fo : fops F) (addaff : jpoint F -> apoint F -> jpoint F) (tab : list (list (apoint F)))
         (M : Type) (madd : M -> M -> M) (okR : jpoint F -> Prop) (den : jpoint F -> M) (gs pt : M)
         (t : Z) (P : jpoint F) (s : Z),
  (forall R Q, okR R -> okR Q -> okR (point_add F fo R Q) /\ den (point_add F fo R Q) = madd (den R) (den Q)) ->
  (exists R, point_mul_generator F fo addaff tab s = Some R /\ okR R /\ den R = gs) ->
  (exists Q, point_mul F fo addaff t P = Some Q /\ okR Q /\ den Q = pt) ->
  exists R, point_mul_sum F fo addaff tab t P s = Some R /\ okR R /\ den R = madd gs pt.
Proof.
  intros F fo addaff tab M madd okR den gs pt t P s Hadd (R & ER & OR & DR) (Q & EQ & OQ & DQ).
  unfold point_mul_sum. rewrite ER, EQ. exists (point_add F fo R Q). split; [reflexivity|].
  destruct (Hadd R Q OR OQ) as [O E]. split; [exact O|]. rewrite E, DR, DQ. reflexivity.
Qed.
