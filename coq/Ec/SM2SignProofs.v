(* Theorems about the SM2 signature model (Ec/SM2Sign.v), proved for the Z instance. *)
From Coq Require Import ZifyN ZifyNat ZifyBool.
From GmVerif Require Import Base.ListX Base.Bytes Ec.Num Ec.CurveSpec Hash.MD Hash.SM3 Hash.SM3Proofs
  Ec.Sm2Der Ec.Sm2DerProofs Ec.SM2Sign.
Local Open Scope Z_scope.

(* ---------------- constants ---------------- *)
Lemma n_pos : 0 < n. Proof. reflexivity. Qed.
Lemma n_lt_two256 : n < two256. Proof. reflexivity. Qed.
Lemma two256_lt_2n : two256 < 2 * n. Proof. reflexivity. Qed.
Lemma p_pos : 0 < sm2_p. Proof. reflexivity. Qed.
Lemma p_lt_two256 : sm2_p < two256. Proof. reflexivity. Qed.

Lemma mod_sub1 m s : 0 < m -> m <= s < 2 * m -> s mod m = s - m.
Proof. intros Hm H. symmetry. apply Z.mod_unique with (q := 1); lia. Qed.
Lemma mod_add1 m s : 0 < m -> - m <= s < 0 -> s mod m = s + m.
Proof. intros Hm H. symmetry. apply Z.mod_unique with (q := -1); lia. Qed.

Lemma red_n_spec a : 0 <= a < two256 -> red_n a = a mod n.
Proof.
  intros H. unfold red_n. pose proof n_pos. pose proof two256_lt_2n.
  destruct (n <=? a) eqn:E.
  - rewrite mod_sub1; lia.
  - rewrite Z.mod_small; lia.
Qed.

Lemma red_n_range a : 0 <= a < two256 -> 0 <= red_n a < n.
Proof. intros H. rewrite red_n_spec by exact H. apply Z.mod_pos_bound, n_pos. Qed.

Lemma modn_add_spec a b : 0 <= a < n -> 0 <= b < n -> modn_add a b = (a + b) mod n.
Proof.
  intros Ha Hb. unfold modn_add. pose proof n_pos. pose proof n_lt_two256. pose proof two256_lt_2n.
  destruct (two256 <=? a + b) eqn:E1.
  - replace (a + b - two256 + (two256 - n)) with (a + b - n) by lia.
    rewrite Z.mod_small by lia. rewrite mod_sub1; lia.
  - destruct (n <=? a + b) eqn:E2.
    + rewrite mod_sub1; lia.
    + rewrite Z.mod_small; lia.
Qed.

Lemma modn_sub_spec a b : 0 <= a < n -> 0 <= b < n -> modn_sub a b = (a - b) mod n.
Proof.
  intros Ha Hb. unfold modn_sub. pose proof n_pos. pose proof n_lt_two256.
  destruct (a <? b) eqn:E.
  - replace (a - b + two256 - (two256 - n)) with (a - b + n) by lia.
    rewrite Z.mod_small by lia. rewrite mod_add1; lia.
  - rewrite Z.mod_small; lia.
Qed.

(* ---------------- byte conversions ---------------- *)
Lemma be_to_Z_acc_nonneg l acc : 0 <= acc -> 0 <= be_to_Z_acc acc l.
Proof. revert acc; induction l as [|b l IH]; intros acc H; cbn [be_to_Z_acc]; [exact H|apply IH; lia]. Qed.
Lemma le_to_Z_nonneg b : 0 <= le_to_Z b.
Proof. apply be_to_Z_acc_nonneg. lia. Qed.
Lemma be_to_Z_nonneg b : 0 <= be_to_Z b.
Proof. apply be_to_Z_acc_nonneg. lia. Qed.

Lemma be_to_Z_acc_app a b acc : be_to_Z_acc acc (a ++ b) = be_to_Z_acc (be_to_Z_acc acc a) b.
Proof. revert acc; induction a as [|x a IH]; intros acc; cbn [app be_to_Z_acc]; [reflexivity|apply IH]. Qed.

Lemma be_to_Z_acc_bound l acc :
  bytes_ok l = true -> 0 <= acc ->
  be_to_Z_acc acc l < (acc + 1) * 256 ^ Z.of_nat (length l).
Proof.
  revert acc; induction l as [|b l IH]; intros acc Hok Hacc.
  - cbn. lia.
  - apply bytes_ok_cons in Hok. destruct Hok as [Hb Hl].
    cbn [be_to_Z_acc length]. rewrite Nat2Z.inj_succ, Z.pow_succ_r by lia.
    specialize (IH (acc * 256 + Z.of_N b) Hl ltac:(lia)).
    assert (0 < 256 ^ Z.of_nat (length l)) by (apply Z.pow_pos_nonneg; lia).
    nia.
Qed.

Lemma be_to_Z_bound32 l : bytes_ok l = true -> length l = 32%nat -> 0 <= be_to_Z l < two256.
Proof.
  intros Hok Hl. split; [apply be_to_Z_nonneg|].
  unfold be_to_Z. pose proof (be_to_Z_acc_bound l 0 Hok ltac:(lia)) as H.
  rewrite Hl in H. exact H.
Qed.

Lemma Z_to_be_length len x : length (Z_to_be len x) = len.
Proof. revert x; induction len as [|len IH]; intros x; cbn [Z_to_be]; [reflexivity|]. rewrite app_length, IH. cbn. lia. Qed.

(* Z_to_be inverts be_to_Z on well-formed byte strings *)
Lemma Z_to_be_be_to_Z l : bytes_ok l = true -> Z_to_be (length l) (be_to_Z l) = l.
Proof.
  induction l as [|b l IH] using rev_ind; intros Hok; [reflexivity|].
  apply bytes_ok_app in Hok. destruct Hok as [Hl Hb]. apply bytes_ok_cons in Hb. destruct Hb as [Hb _].
  rewrite app_length. cbn [length]. replace (length l + 1)%nat with (S (length l)) by lia.
  cbn [Z_to_be]. unfold be_to_Z. rewrite be_to_Z_acc_app. cbn [be_to_Z_acc].
  fold (be_to_Z l).
  replace ((be_to_Z l * 256 + Z.of_N b) / 256) with (be_to_Z l) by lia.
  replace ((be_to_Z l * 256 + Z.of_N b) mod 256) with (Z.of_N b) by lia.
  rewrite IH by exact Hl. rewrite N2Z.id. reflexivity.
Qed.

Lemma to32_be_to_Z l : bytes_ok l = true -> length l = 32%nat -> to32 (be_to_Z l) = l.
Proof. intros Hok Hl. unfold to32. rewrite <- Hl. apply Z_to_be_be_to_Z, Hok. Qed.

(* ---------------- coordinates produced by the affine law are reduced mod p ---------------- *)
Section PtOk.
  Variable p a : Z.
  Hypothesis Hp : 0 < p.
  Definition pt_okp (P : point ZOps) : Prop :=
    match P with None => True | Some (x, y) => 0 <= x < p /\ 0 <= y < p end.
  Lemma pdbl_okp P : pt_okp (pdbl ZOps p a P).
  Proof.
    destruct P as [[x y]|]; [|exact I]. unfold pdbl.
    destruct (neqb ZOps y (zero ZOps)); [exact I|].
    cbv beta zeta. unfold pt_okp, fsub. cbn [nmod ZOps].
    split; apply Z.mod_pos_bound; exact Hp.
  Qed.
  Lemma padd_okp P Q : pt_okp P -> pt_okp Q -> pt_okp (padd ZOps p a P Q).
  Proof.
    intros HP HQ. destruct P as [[x1 y1]|]; [|exact HQ]. destruct Q as [[x2 y2]|]; [|exact HP].
    unfold padd. destruct (neqb ZOps x1 x2).
    - destruct (neqb ZOps (fadd ZOps p y1 y2) (zero ZOps)); [exact I|apply pdbl_okp].
    - cbv beta zeta. unfold pt_okp, fsub. cbn [nmod ZOps].
      split; apply Z.mod_pos_bound; exact Hp.
  Qed.
  Lemma pmul_pos_okp k P : pt_okp P -> pt_okp (pmul_pos ZOps p a k P).
  Proof.
    intros HP. induction k as [k IH|k IH|]; cbn [pmul_pos].
    - apply padd_okp; [exact HP|apply pdbl_okp].
    - apply pdbl_okp.
    - exact HP.
  Qed.
  Lemma pmul_okp k P : pt_okp P -> pt_okp (pmul ZOps p a k P).
  Proof. intros HP. destruct k; cbn [pmul]; [exact I|apply pmul_pos_okp, HP|exact I]. Qed.
End PtOk.

Definition pt_ok (P : point ZOps) : Prop := pt_okp sm2_p P.

Lemma G_ok : pt_ok (SG ZOps).
Proof. unfold pt_ok, pt_okp, SG. cbn [nofZ ZOps]. unfold sm2_Gx, sm2_Gy, sm2_p. lia. Qed.
Lemma mulG_ok k : pt_ok (sm2_mulG ZOps k).
Proof. apply pmul_okp; [exact p_pos|exact G_ok]. Qed.
Lemma mul_ok k P : pt_ok P -> pt_ok (sm2_mul ZOps k P).
Proof. apply pmul_okp, p_pos. Qed.
Lemma add_ok P Q : pt_ok P -> pt_ok Q -> pt_ok (sm2_add ZOps P Q).
Proof. apply padd_okp, p_pos. Qed.

Lemma get_x_range P : pt_ok P -> 0 <= get_x ZOps P < two256.
Proof.
  pose proof p_lt_two256. destruct P as [[x y]|]; cbn [get_x ntoZ ZOps pt_ok pt_okp].
  - unfold pt_ok, pt_okp. lia.
  - intros _. unfold two256. lia.
Qed.

(* r' = (e + x) mod n as computed by the two conditional subtractions and modn_add *)
Lemma r_formula e x : 0 <= e < two256 -> 0 <= x < two256 ->
  modn_add (red_n e) (red_n x) = (e + x) mod n.
Proof.
  intros He Hx. rewrite modn_add_spec by (apply red_n_range; assumption).
  rewrite !red_n_spec by assumption. symmetry. apply Z.add_mod. pose proof n_pos; lia.
Qed.

(* ---------------- verification: the decision rule ---------------- *)
Theorem verify_decision_rule P e r s :
  pt_ok P -> 0 <= e < two256 -> 0 <= r -> 0 <= s ->
  do_verify ZOps P e r s = true -> std_verifies P e r s.
Proof.
  intros HP He Hr Hs H. unfold do_verify in H.
  destruct (r =? 0) eqn:Er0; [discriminate|].
  destruct (n <=? r) eqn:Ern; [discriminate|].
  destruct (s =? 0) eqn:Es0; [discriminate|].
  destruct (n <=? s) eqn:Esn; [discriminate|].
  assert (Hr' : 0 <= r < n) by lia. assert (Hs' : 0 <= s < n) by lia.
  rewrite modn_add_spec in H by assumption.
  destruct ((r + s) mod n =? 0) eqn:Et; [discriminate|].
  apply Z.eqb_eq in H.
  rewrite r_formula in H; [|exact He|].
  - unfold std_verifies. repeat split; lia.
  - apply get_x_range, add_ok; [apply mulG_ok|apply mul_ok, HP].
Qed.

(* and conversely the model accepts every tuple satisfying the standard's equations *)
Theorem verify_accepts_standard P e r s :
  pt_ok P -> 0 <= e < two256 ->
  std_verifies P e r s -> do_verify ZOps P e r s = true.
Proof.
  intros HP He (Hr & Hs & Ht & Heq). unfold do_verify.
  replace (r =? 0) with false by lia. replace (n <=? r) with false by lia.
  replace (s =? 0) with false by lia. replace (n <=? s) with false by lia.
  rewrite modn_add_spec by lia.
  replace ((r + s) mod n =? 0) with false by lia.
  rewrite r_formula; [apply Z.eqb_eq; exact Heq|exact He|].
  apply get_x_range, add_ok; [apply mulG_ok|apply mul_ok, HP].
Qed.

(* ---------------- signing: the value returned is the standard's, for the first good nonce ---------------- *)
Lemma rand_range_sound tries range en k en' :
  rand_range tries range en = Some (k, en') ->
  exists used b, en = used ++ b :: en' /\ k = le_to_Z b /\ k < range /\
                 Forall (fun b' => range <= le_to_Z b') used.
Proof.
  revert en. induction tries as [|t IH]; intros en H; cbn [rand_range] in H; [discriminate|].
  destruct en as [|b en1]; [discriminate|].
  destruct (range <=? le_to_Z b) eqn:E.
  - destruct (IH _ H) as (used & b' & -> & Hk & Hlt & Hall).
    exists (b :: used), b'. repeat split; try assumption. constructor; [lia|exact Hall].
  - inversion H; subst. exists [], b. repeat split; [lia|constructor].
Qed.

Definition bad_draw (b : list N) : Prop := le_to_Z b = 0 \/ n <= le_to_Z b.

Lemma rand_k_loop_sound fuel en k en' :
  rand_k_loop fuel en = Some (k, en') ->
  exists used b, en = used ++ b :: en' /\ k = le_to_Z b /\ 1 <= k < n /\ Forall bad_draw used.
Proof.
  revert en. induction fuel as [|f IH]; intros en H; cbn [rand_k_loop] in H; [discriminate|].
  destruct (rand_range 100 n en) as [[k0 en0]|] eqn:Er; [|discriminate].
  destruct (rand_range_sound _ _ _ _ _ Er) as (used & b & -> & Hk0 & Hlt & Hall).
  assert (Hbad : Forall bad_draw used).
  { eapply Forall_impl; [|exact Hall]. intros x Hx. right. exact Hx. }
  destruct (k0 =? 0) eqn:E0.
  - destruct (IH _ H) as (used2 & b2 & -> & Hk & Hrng & Hall2).
    exists (used ++ b :: used2), b2. rewrite <- app_assoc. cbn [app].
    repeat split; try assumption; try lia.
    apply Forall_app. split; [exact Hbad|]. constructor; [|exact Hall2]. left. lia.
  - inversion H; subst k0 en0. exists used, b.
    pose proof (le_to_Z_nonneg b). repeat split; try assumption; lia.
Qed.

Lemma std_x1_range k : 0 <= std_x1 k < two256.
Proof. apply get_x_range, mulG_ok. Qed.

Lemma std_r_range e k : 0 <= std_r e k < n.
Proof. apply Z.mod_pos_bound, n_pos. Qed.
Lemma std_s_range d e k : 0 <= std_s d e k < n.
Proof. apply Z.mod_pos_bound, n_pos. Qed.

(* the body of the retry loop computes the standard's (r, s) and retries exactly on the
   standard's three conditions *)
Lemma sign_try_spec d e k :
  0 <= d < n - 1 -> 0 <= e < two256 -> 1 <= k < n ->
  sign_try ZOps d (inv_n ZOps (modn_add d 1)) e k =
    if (std_r e k =? 0) || (std_r e k + k =? n) then None
    else if std_s d e k =? 0 then None else Some (std_r e k, std_s d e k).
Proof.
  intros Hd He Hk. pose proof n_pos as Hn. pose proof n_lt_two256. pose proof two256_lt_2n.
  unfold sign_try. cbv zeta. unfold x1_of. fold (std_x1 k).
  rewrite r_formula by (try exact He; apply std_x1_range). fold (std_r e k).
  pose proof (std_r_range e k) as Hr.
  assert (Et : ((std_r e k + k) mod two256 =? n) = (std_r e k + k =? n)).
  { destruct (Z_lt_le_dec (std_r e k + k) two256).
    - rewrite Z.mod_small by lia. reflexivity.
    - rewrite mod_sub1 by lia. lia. }
  rewrite Et.
  destruct ((std_r e k =? 0) || (std_r e k + k =? n)); [reflexivity|].
  assert (Es : modn_mul (inv_n ZOps (modn_add d 1)) (modn_sub k (modn_mul (std_r e k) d)) = std_s d e k).
  { unfold modn_mul, std_s.
    rewrite modn_sub_spec by (try lia; apply Z.mod_pos_bound, Hn).
    rewrite modn_add_spec by lia. rewrite (Z.mod_small (d + 1)) by lia.
    replace (d + 1) with (1 + d) by lia.
    rewrite Zminus_mod_idemp_r, Z.mul_mod_idemp_r by lia. reflexivity. }
  rewrite Es. reflexivity.
Qed.

Lemma sign_try_some d e k r s :
  0 <= d < n - 1 -> 0 <= e < two256 -> 1 <= k < n ->
  sign_try ZOps d (inv_n ZOps (modn_add d 1)) e k = Some (r, s) ->
  std_good d e k /\ r = std_r e k /\ s = std_s d e k.
Proof.
  intros Hd He Hk H. rewrite sign_try_spec in H by assumption.
  destruct ((std_r e k =? 0) || (std_r e k + k =? n)) eqn:E1; [discriminate|].
  destruct (std_s d e k =? 0) eqn:E2; [discriminate|].
  inversion H; subst. unfold std_good. repeat split; lia.
Qed.

Lemma sign_try_none d e k :
  0 <= d < n - 1 -> 0 <= e < two256 -> 1 <= k < n ->
  sign_try ZOps d (inv_n ZOps (modn_add d 1)) e k = None -> ~ std_good d e k.
Proof.
  intros Hd He Hk H. rewrite sign_try_spec in H by assumption. unfold std_good.
  destruct ((std_r e k =? 0) || (std_r e k + k =? n)) eqn:E1; [lia|].
  destruct (std_s d e k =? 0) eqn:E2; [lia|discriminate].
Qed.

Lemma bad_draw_not_good d e b : bad_draw b -> ~ std_good d e (le_to_Z b).
Proof. unfold bad_draw, std_good. lia. Qed.

Lemma sign_loop_sound fuel d e en r s rest :
  0 <= d < n - 1 -> 0 <= e < two256 ->
  sign_loop ZOps fuel d (inv_n ZOps (modn_add d 1)) e en = Some ((r, s), rest) ->
  exists used kb, en = used ++ kb :: rest /\
    Forall (fun b => ~ std_good d e (le_to_Z b)) used /\
    std_good d e (le_to_Z kb) /\ r = std_r e (le_to_Z kb) /\ s = std_s d e (le_to_Z kb).
Proof.
  intros Hd He. revert en. induction fuel as [|f IH]; intros en H; cbn [sign_loop] in H; [discriminate|].
  destruct (rand_k en) as [[k en1]|] eqn:Ek; [|discriminate].
  unfold rand_k in Ek.
  destruct (rand_k_loop_sound _ _ _ _ Ek) as (used & b & -> & Hkb & Hrng & Hbad).
  assert (Hbad' : Forall (fun b => ~ std_good d e (le_to_Z b)) used).
  { eapply Forall_impl; [|exact Hbad]. intros x Hx. apply bad_draw_not_good, Hx. }
  destruct (sign_try ZOps d (inv_n ZOps (modn_add d 1)) e k) as [[r0 s0]|] eqn:Etry.
  - inversion H; subst r0 s0 en1. subst k.
    destruct (sign_try_some _ _ _ _ _ Hd He Hrng Etry) as (Hg & -> & ->).
    exists used, b. split; [reflexivity|]. split; [exact Hbad'|]. split; [exact Hg|]. split; reflexivity.
  - destruct (IH _ H) as (used2 & kb & -> & Hall2 & Hg & Hr & Hs).
    exists (used ++ b :: used2), kb. rewrite <- app_assoc. cbn [app].
    split; [reflexivity|]. split; [|split; [exact Hg|split; assumption]].
    apply Forall_app. split; [exact Hbad'|]. constructor; [|exact Hall2].
    subst k. apply (sign_try_none _ _ _ Hd He Hrng Etry).
Qed.

Theorem sign_eq_standard d e en r s rest :
  0 <= d < n - 1 -> 0 <= e < two256 ->
  do_sign ZOps d e en = Some ((r, s), rest) ->
  exists used kb, en = used ++ kb :: rest /\
    Forall (fun b => ~ std_good d e (le_to_Z b)) used /\
    std_good d e (le_to_Z kb) /\
    r = std_r e (le_to_Z kb) /\ s = std_s d e (le_to_Z kb) /\
    1 <= r < n /\ 1 <= s < n.
Proof.
  intros Hd He H. unfold do_sign in H.
  destruct (modn_add d 1 =? 0); [discriminate|].
  destruct (sign_loop_sound _ _ _ _ _ _ _ Hd He H) as (used & kb & E & Hall & Hg & Hr & Hs).
  exists used, kb.
  pose proof (std_r_range e (le_to_Z kb)). pose proof (std_s_range d e (le_to_Z kb)).
  split; [exact E|]. split; [exact Hall|]. split; [exact Hg|]. split; [exact Hr|]. split; [exact Hs|].
  unfold std_good in Hg. subst r s. lia.
Qed.

(* ---------------- the fast-sign route s = (k + r) d' - r ---------------- *)
Lemma eqm_intro m a b q : a = b + q * m -> a mod m = b mod m.
Proof. intros ->. apply Z_mod_plus_full. Qed.

Theorem fast_sign_alg m k r d inv :
  0 < m -> ((1 + d) * inv) mod m = 1 ->
  ((k + r) * inv - r) mod m = (inv * (k - r * d)) mod m.
Proof.
  intros Hm Hinv.
  pose proof (Z.div_mod ((1 + d) * inv) m ltac:(lia)) as E. rewrite Hinv in E.
  apply eqm_intro with (q := r * ((1 + d) * inv / m)).
  transitivity (inv * (k - r * d) + r * ((1 + d) * inv) - r); [ring|].
  rewrite E at 1. ring.
Qed.

Lemma inv_n_range x : 0 <= inv_n ZOps x < n.
Proof. exact (Z.mod_pos_bound _ n n_pos). Qed.

Lemma fast_key_valid d : 0 <= d < n - 1 -> fast_key ZOps d = Some (inv_n ZOps (1 + d)).
Proof.
  intros Hd. unfold fast_key. replace (n - 1 <=? d) with false by lia.
  rewrite modn_add_spec by lia. rewrite Z.mod_small by lia.
  replace (d + 1) with (1 + d) by lia. reflexivity.
Qed.

(* sm2_fast_sign: whatever it returns passed the three retry conditions and is in range
   (no premise beyond the types of its inputs) *)
Theorem fast_sign_checked fd k x1 e r s :
  0 <= k < n -> 0 <= x1 < n -> 0 <= e < two256 ->
  fast_sign fd (k, x1) e = Some (r, s) ->
  1 <= r < n /\ 1 <= s < n /\ r + k <> n.
Proof.
  intros Hk Hx He H. pose proof n_pos as Hn. unfold fast_sign in H. cbn [fst snd] in H.
  pose proof (red_n_range e He) as Hre.
  rewrite (modn_add_spec (red_n e)) in H by assumption.
  pose proof (Z.mod_pos_bound (red_n e + x1) n Hn) as Hr0.
  set (r0 := (red_n e + x1) mod n) in *.
  rewrite (modn_add_spec k) in H by lia.
  destruct ((r0 =? 0) || ((k + r0) mod n =? 0)) eqn:E1; [discriminate|].
  unfold modn_mul in H.
  rewrite modn_sub_spec in H by (try lia; apply Z.mod_pos_bound, Hn).
  destruct ((((k + r0) mod n * fd) mod n - r0) mod n =? 0) eqn:E2; [discriminate|].
  injection H as <- <-.
  pose proof (Z.mod_pos_bound (((k + r0) mod n * fd) mod n - r0) n Hn).
  repeat split; try lia.
  intros Hrk. replace (k + r0) with n in E1 by lia. rewrite Z.mod_same in E1 by lia.
  rewrite orb_true_r in E1. discriminate.
Qed.

(* with (1+d) d' = 1 (mod n) the fast route s = (k + r) d' - r returns exactly what the body of
   sm2_do_sign's retry loop returns for the same nonce: the standard's (r, s), or "take another
   nonce" on the standard's three conditions *)
Theorem fast_sign_spec_partial d e k :
  0 <= d < n - 1 -> 0 <= e < two256 -> 1 <= k < n ->
  ((1 + d) * inv_n ZOps (1 + d)) mod n = 1 ->
  fast_sign (inv_n ZOps (1 + d)) (pre_entry ZOps k) e =
    if (std_r e k =? 0) || (std_r e k + k =? n) then None
    else if std_s d e k =? 0 then None else Some (std_r e k, std_s d e k).
Proof.
  intros Hd He Hk Hinv. pose proof n_pos as Hn.
  unfold fast_sign, pre_entry. cbn [fst snd]. unfold x1_of. fold (std_x1 k).
  rewrite r_formula by (try exact He; apply std_x1_range). fold (std_r e k).
  pose proof (std_r_range e k) as Hr. pose proof (inv_n_range (1 + d)) as Hi.
  rewrite (modn_add_spec k) by lia.
  assert (Ez : ((k + std_r e k) mod n =? 0) = (std_r e k + k =? n)).
  { destruct (Z_lt_le_dec (k + std_r e k) n).
    - rewrite Z.mod_small by lia. lia.
    - rewrite mod_sub1 by lia. lia. }
  rewrite Ez.
  destruct ((std_r e k =? 0) || (std_r e k + k =? n)); [reflexivity|].
  assert (Es : modn_sub (modn_mul ((k + std_r e k) mod n) (inv_n ZOps (1 + d))) (std_r e k) = std_s d e k).
  { unfold modn_mul. rewrite modn_sub_spec by (try lia; apply Z.mod_pos_bound, Hn).
    rewrite Z.mul_mod_idemp_l, Zminus_mod_idemp_l by lia.
    unfold std_s. apply fast_sign_alg; assumption. }
  rewrite Es. reflexivity.
Qed.

Theorem fast_sign_eq_standard_partial d e k r s :
  0 <= d < n - 1 -> 0 <= e < two256 -> 1 <= k < n ->
  ((1 + d) * inv_n ZOps (1 + d)) mod n = 1 ->
  fast_sign (inv_n ZOps (1 + d)) (pre_entry ZOps k) e = Some (r, s) ->
  std_good d e k /\ r = std_r e k /\ s = std_s d e k.
Proof.
  intros Hd He Hk Hinv H. rewrite fast_sign_spec_partial in H by assumption.
  destruct ((std_r e k =? 0) || (std_r e k + k =? n)) eqn:E1; [discriminate|].
  destruct (std_s d e k =? 0) eqn:E2; [discriminate|].
  injection H as <- <-. unfold std_good. repeat split; lia.
Qed.

(* the fast and the slow route agree nonce by nonce *)
Theorem fast_sign_eq_sign_try_partial d e k :
  0 <= d < n - 1 -> 0 <= e < two256 -> 1 <= k < n ->
  ((1 + d) * inv_n ZOps (1 + d)) mod n = 1 ->
  fast_sign (inv_n ZOps (1 + d)) (pre_entry ZOps k) e =
  sign_try ZOps d (inv_n ZOps (modn_add d 1)) e k.
Proof.
  intros Hd He Hk Hinv. rewrite fast_sign_spec_partial, sign_try_spec by assumption. reflexivity.
Qed.

(* ---------------- completeness under explicit group-law premises ---------------- *)
Lemma s1d_generic m A inv d :
  0 < m -> ((1 + d) * inv) mod m = 1 -> (((inv * A) mod m) * (1 + d)) mod m = A mod m.
Proof.
  intros Hm Hinv. rewrite Z.mul_mod_idemp_l by lia.
  pose proof (Z.div_mod ((1 + d) * inv) m ltac:(lia)) as E. rewrite Hinv in E.
  apply eqm_intro with (q := A * ((1 + d) * inv / m)).
  transitivity (A * ((1 + d) * inv)); [ring|]. rewrite E at 1. ring.
Qed.

Lemma complete_arith m r s k d :
  0 < m -> (s * (1 + d)) mod m = (k - r * d) mod m ->
  ((r + s) * (1 + d)) mod m = (r + k) mod m /\
  (s + ((r + s) mod m * d) mod m) mod m = k mod m.
Proof.
  intros Hm Hs1. split.
  - replace ((r + s) * (1 + d)) with ((r + r * d) + s * (1 + d)) by ring.
    rewrite Z.add_mod, Hs1, <- Z.add_mod by lia. f_equal. ring.
  - rewrite Z.mul_mod_idemp_l, Z.add_mod_idemp_r by lia.
    replace (s + (r + s) * d) with (s * (1 + d) + r * d) by ring.
    rewrite Z.add_mod, Hs1, <- Z.add_mod by lia. f_equal. ring.
Qed.

Section Completeness.
  (* the multiples of G form a cyclic group of order n under the affine law:
     [a]G + [b]G = [(a+b) mod n]G and [a]([b]G) = [(a b) mod n]G.  These are consequences of
     the elliptic-curve group law (associativity, commutativity) and [n]G = O, which are not
     proved here; they are premises of the *_partial theorems below, never axioms. *)
  Hypothesis Hadd : forall a b, 0 <= a -> 0 <= b ->
    sm2_add ZOps (sm2_mulG ZOps a) (sm2_mulG ZOps b) = sm2_mulG ZOps ((a + b) mod n).
  Hypothesis Hmul : forall a b, 0 <= a -> 0 <= b ->
    sm2_mul ZOps a (sm2_mulG ZOps b) = sm2_mulG ZOps ((a * b) mod n).
  Variable d : Z.
  Hypothesis Hd : 0 <= d < n - 1.
  Hypothesis Hinv : ((1 + d) * inv_n ZOps (1 + d)) mod n = 1.

  Lemma s_times_1d e k : (std_s d e k * (1 + d)) mod n = (k - std_r e k * d) mod n.
  Proof. unfold std_s. apply s1d_generic; [exact n_pos|exact Hinv]. Qed.

  Theorem sign_verifies_partial e k :
    0 <= e < two256 -> std_good d e k ->
    std_verifies (sm2_mulG ZOps d) e (std_r e k) (std_s d e k).
  Proof.
    intros He (Hk & Hr0 & Hrk & Hs0). pose proof n_pos as Hn.
    pose proof (std_r_range e k) as Hr. pose proof (std_s_range d e k) as Hs.
    pose proof (s_times_1d e k) as Hs1.
    destruct (complete_arith n _ _ _ _ Hn Hs1) as [Hsum Hk'].
    assert (Hdef : std_r e k = (e + std_x1 k) mod n) by reflexivity.
    revert Hdef.
    generalize dependent (std_s d e k). generalize dependent (std_r e k). intros r Hr0 Hrk Hr s Hs0 Hs Hs1 Hsum Hk' Hdef.
    assert (Ht : (r + s) mod n <> 0).
    { intros Ht. rewrite <- Z.mul_mod_idemp_l, Ht in Hsum by lia.
      rewrite Z.mul_0_l, Z.mod_0_l in Hsum by lia.
      assert (r + k = n); [|lia].
      destruct (Z_lt_le_dec (r + k) n).
      - rewrite Z.mod_small in Hsum; lia.
      - rewrite mod_sub1 in Hsum; lia. }
    unfold std_verifies. split; [lia|]. split; [lia|]. split; [exact Ht|].
    pose proof (Z.mod_pos_bound (r + s) n Hn) as Htr.
    rewrite Hmul by lia. rewrite Hadd by (try lia; apply Z.mod_pos_bound, Hn).
    rewrite Hk', (Z.mod_small k) by lia. symmetry. exact Hdef.
  Qed.

  (* every verification interface accepts what the signing interfaces return *)
  Theorem verify_sign_partial e en r s rest :
    0 <= e < two256 ->
    do_sign ZOps d e en = Some ((r, s), rest) ->
    do_verify ZOps (sm2_mulG ZOps d) e r s = true.
  Proof.
    intros He H.
    destruct (sign_eq_standard _ _ _ _ _ _ Hd He H) as (used & kb & _ & _ & Hg & -> & -> & _).
    apply verify_accepts_standard; [apply mulG_ok|exact He|].
    apply sign_verifies_partial; assumption.
  Qed.
  (* ... and what sm2_fast_sign (hence sm2_sign_finish) returns *)
  Theorem fast_sign_verifies_partial e k r s :
    0 <= e < two256 -> 1 <= k < n ->
    fast_sign (inv_n ZOps (1 + d)) (pre_entry ZOps k) e = Some (r, s) ->
    do_verify ZOps (sm2_mulG ZOps d) e r s = true.
  Proof.
    intros He Hk H.
    destruct (fast_sign_eq_standard_partial _ _ _ _ _ Hd He Hk Hinv H) as (Hg & -> & ->).
    apply verify_accepts_standard; [apply mulG_ok|exact He|].
    apply sign_verifies_partial; assumption.
  Qed.
End Completeness.

Lemma Some_inj {A} (a b : A) : Some a = Some b -> a = b.
Proof. intros H. injection H. auto. Qed.
Lemma Some_inj4 {A B C D} (a a' : A) (b b' : B) (c c' : C) (d d' : D) :
  Some (a, b, c, d) = Some (a', b', c', d') -> a = a' /\ b = b' /\ c = c' /\ d = d'.
Proof. intros H. injection H. auto. Qed.
Lemma IOk_inj {A} (a b : A) : IOk a = IOk b -> a = b.
Proof. intros H. injection H. auto. Qed.

(* ---------------- DER strictness of the verification interfaces ---------------- *)
Lemma sig_from_der_bytes_ok inp r s rest :
  bytes_ok inp = true -> sig_from_der inp = Some ((r, s), rest) ->
  bytes_ok r = true /\ bytes_ok s = true.
Proof.
  intros Hok H. unfold sig_from_der in H.
  destruct (dec_tlv 48 inp) as [[d rest']|] eqn:Eseq; [|discriminate].
  destruct (dec_tlv_rest_ok _ _ _ _ Hok Eseq) as [Hd _].
  destruct (dec_int d) as [[r0 d1]|] eqn:Er; [|discriminate].
  destruct (dec_int_rest_ok _ _ _ Hd Er) as [Hr0 Hd1].
  destruct (dec_int d1) as [[s0 d2]|] eqn:Es; [|discriminate].
  destruct (dec_int_rest_ok _ _ _ Hd1 Es) as [Hs0 _].
  destruct ((32 <? lenN r0) || (32 <? lenN s0) || negb (is_nil d2))%N; [discriminate|].
  inversion H; subst. unfold pad32. rewrite !bytes_ok_app, !bytes_ok_zeros. tauto.
Qed.

Section AnyOps.
  Variable NO : numops.

  (* whatever sm2_verify accepts is exactly the DER encoding produced by sm2_signature_to_der for
     the 32-byte (r, s) it decoded: one SEQUENCE of two minimal non-negative INTEGERs, no trailing
     byte, and (r, s) passes sm2_do_verify *)
  Theorem verify_der_strict P e sg :
    bytes_ok sg = true -> sm2_verify NO P e sg = true ->
    exists r s, length r = 32%nat /\ length s = 32%nat /\
      sg = sig_to_der r s /\
      sig_bytes (be_to_Z r, be_to_Z s) = sg /\
      do_verify NO P e (be_to_Z r) (be_to_Z s) = true.
  Proof.
    intros Hok H. unfold sm2_verify in H. destruct sg as [|b0 sg0]; [discriminate|].
    destruct (sig_from_der (b0 :: sg0)) as [[[r s] rest]|] eqn:E; [|discriminate].
    destruct rest; [|discriminate].
    destruct (sig_der_canonical _ _ _ _ Hok E) as (Eq & Hr & Hs).
    destruct (sig_from_der_bytes_ok _ _ _ _ Hok E) as (Hrok & Hsok).
    rewrite app_nil_r in Eq. exists r, s. repeat split; try assumption.
    unfold sig_bytes. cbn [fst snd]. rewrite !to32_be_to_Z by assumption. symmetry. exact Eq.
  Qed.

  Theorem verify_finish_der_strict c sg :
    bytes_ok sg = true -> verify_finish NO c sg = true ->
    exists r s, length r = 32%nat /\ length s = 32%nat /\ sg = sig_to_der r s /\
      do_verify NO (vc_P NO c) (be_to_Z (sm3_finish (vc_sm3 NO c))) (be_to_Z r) (be_to_Z s) = true.
  Proof.
    intros Hok H. unfold verify_finish in H.
    destruct (sig_from_der sg) as [[[r s] rest]|] eqn:E; [|discriminate].
    destruct rest; [|discriminate].
    destruct (sig_der_canonical _ _ _ _ Hok E) as (Eq & Hr & Hs).
    rewrite app_nil_r in Eq. exists r, s. repeat split; assumption.
  Qed.

  (* ---------------- streaming = one-shot ---------------- *)
  Definition nonempty (l : list N) : bool := match l with [] => false | _ => true end.

  Lemma fold_upd chunks c :
    fold_left upd chunks c = fold_left sm3_update (filter nonempty chunks) c.
  Proof.
    revert c; induction chunks as [|ch chunks IH]; intros c; [reflexivity|].
    cbn [fold_left filter]. destruct ch as [|x ch]; cbn [upd nonempty]; [apply IH|].
    cbn [fold_left]. apply IH.
  Qed.
  Lemma concat_filter_nonempty chunks : concat (filter nonempty chunks) = concat chunks.
  Proof.
    induction chunks as [|ch chunks IH]; [reflexivity|]. cbn [filter concat].
    destruct ch; cbn [nonempty]; [exact IH|]. cbn [concat]. rewrite IH. reflexivity.
  Qed.

  (* the digest handed to the signature equations is SM3(Z || M) for every chunking of M,
     including empty chunks (which the C code skips) *)
  Theorem stream_digest z chunks :
    sm3_finish (fold_left upd chunks (sm3_update sm3_init z)) = sm3 (z ++ concat chunks).
  Proof.
    rewrite fold_upd.
    change (fold_left sm3_update (filter nonempty chunks) (sm3_update sm3_init z))
      with (fold_left sm3_update (z :: filter nonempty chunks) sm3_init).
    rewrite sm3_stream. cbn [concat]. rewrite concat_filter_nonempty. reflexivity.
  Qed.
  Theorem stream_digest_noid chunks :
    sm3_finish (fold_left upd chunks sm3_init) = sm3 (concat chunks).
  Proof. rewrite fold_upd, sm3_stream, concat_filter_nonempty. reflexivity. Qed.

  Lemma verify_updates chunks c :
    fold_left (verify_update NO) chunks c =
    mkvc NO (fold_left upd chunks (vc_sm3 NO c)) (vc_saved NO c) (vc_P NO c).
  Proof.
    revert c; induction chunks as [|ch chunks IH]; intros c; cbn [fold_left]; [destruct c; reflexivity|].
    rewrite IH. reflexivity.
  Qed.
  Lemma sign_updates chunks c :
    fold_left sign_update chunks c =
    mksc (fold_left upd chunks (sc_sm3 c)) (sc_saved c) (sc_d c) (sc_fast c) (sc_pre c) (sc_num c).
  Proof.
    revert c; induction chunks as [|ch chunks IH]; intros c; cbn [fold_left]; [destruct c; reflexivity|].
    rewrite IH. reflexivity.
  Qed.

  Lemma sig_from_der_nil : sig_from_der [] = None.
  Proof. reflexivity. Qed.

  (* sm2_verify_init/update/finish = sm2_verify on SM3(Z || M), for every chunking *)
  Theorem verify_stream_eq_oneshot P buf idlen z c chunks sg :
    compute_z NO P buf idlen = ZOk z ->
    verify_init NO P (Some (buf, idlen)) = IOk c ->
    verify_finish NO (fold_left (verify_update NO) chunks c) sg =
    sm2_verify NO P (be_to_Z (sm3 (z ++ concat chunks))) sg.
  Proof.
    intros Hz Hi. unfold verify_init, init_hash in Hi. rewrite Hz in Hi.
    destruct (Nat.eqb idlen 0 || N.ltb 8191 (N.of_nat idlen)); [discriminate|].
    inversion Hi; subst c. clear Hi.
    rewrite verify_updates. unfold verify_finish, sm2_verify, fast_verify. cbn [vc_sm3 vc_P].
    rewrite stream_digest.
    destruct sg as [|b sg0]; [reflexivity|]. reflexivity.
  Qed.
  Theorem verify_stream_eq_oneshot_noid P c chunks sg :
    verify_init NO P None = IOk c ->
    verify_finish NO (fold_left (verify_update NO) chunks c) sg =
    sm2_verify NO P (be_to_Z (sm3 (concat chunks))) sg.
  Proof.
    intros Hi. cbn in Hi. inversion Hi; subst c. clear Hi.
    rewrite verify_updates. unfold verify_finish, sm2_verify, fast_verify. cbn [vc_sm3 vc_P].
    rewrite stream_digest_noid.
    destruct sg as [|b sg0]; reflexivity.
  Qed.

  (* sm2_sign_finish returns only what sm2_fast_sign accepted for one of the pre-computed nonces *)
  Lemma finish_loop_sound fuel fd dg pre num en sg pre' num' en' :
    finish_loop NO fuel fd dg pre num en = Some (sg, pre', num', en') ->
    exists k, fast_sign fd (pre_entry NO k) dg = Some sg.
  Proof.
    revert pre num en. induction fuel as [|f IH]; intros pre num en H; cbn [finish_loop] in H; [discriminate|].
    destruct (if Nat.eqb num 0
              then match pre_compute en with Some (pre'0, en'0) => Some (pre'0, 32%nat, en'0) | None => None end
              else Some (pre, num, en)) as [[[pre1 num1] en1]|]; [|discriminate].
    destruct (fast_sign fd (pre_entry NO (nth (num1 - 1) pre1 0)) dg) as [sg0|] eqn:Ef.
    - apply Some_inj4 in H. destruct H as (-> & _). exists (nth (num1 - 1) pre1 0). exact Ef.
    - exact (IH _ _ _ H).
  Qed.

  Theorem sign_finish_sound c en bytes c' en' :
    sign_finish NO c en = Some (bytes, c', en') ->
    exists k sg, fast_sign (sc_fast c) (pre_entry NO k) (be_to_Z (sm3_finish (sc_sm3 c))) = Some sg /\
                 bytes = sig_bytes sg.
  Proof.
    unfold sign_finish. intros H.
    destruct (finish_loop NO _ _ _ _ _ _) as [[[[sg pre] num'] en1]|] eqn:E; [|discriminate].
    destruct (finish_loop_sound _ _ _ _ _ _ _ _ _ _ E) as (k & Hk).
    exists k, sg. split; [exact Hk|]. apply Some_inj in H. injection H as <- _ _. reflexivity.
  Qed.

  (* sm2_sign_init/update/finish: the signature is computed from SM3(Z || M) for every chunking *)
  Theorem sign_stream_eq_oneshot d P buf idlen z en c en1 chunks en2 :
    compute_z NO P buf idlen = ZOk z ->
    sign_init NO d P (Some (buf, idlen)) en = IOk (c, en1) ->
    option_map (fun x => fst (fst x)) (sign_finish NO (fold_left sign_update chunks c) en2) =
    option_map (fun x => sig_bytes (fst (fst (fst x))))
      (finish_loop NO (S (32 + length en2)) (sc_fast c) (be_to_Z (sm3 (z ++ concat chunks))) (sc_pre c) 32 en2).
  Proof.
    intros Hz Hi. unfold sign_init, init_hash in Hi. rewrite Hz in Hi.
    destruct (Nat.eqb idlen 0 || N.ltb 8191 (N.of_nat idlen)); [discriminate|].
    destruct (pre_compute en) as [[pre en']|]; [|discriminate].
    apply IOk_inj in Hi. injection Hi as <- <-.
    rewrite sign_updates. unfold sign_finish. cbn [sc_sm3 sc_saved sc_d sc_fast sc_pre sc_num].
    rewrite stream_digest.
    destruct (finish_loop NO _ _ _ _ _ _) as [[[[sg pre1] num'] en3]|]; reflexivity.
  Qed.

  Lemma sign_reset_restores c chunks :
    sc_sm3 (sign_reset (fold_left sign_update chunks c)) = sc_saved c.
  Proof. rewrite sign_updates. reflexivity. Qed.
End AnyOps.

(* ---------------- sm2_compute_z ---------------- *)
Lemma ZOk_inj a b : ZOk a = ZOk b -> a = b.
Proof. intros H. injection H. auto. Qed.

Section ZProofs.
  Variable NO : numops.
  Local Open Scope N_scope.

  Lemma entl_spec idlen : N.of_nat idlen <= 8191 ->
    entl idlen = [N.shiftr (8 * N.of_nat idlen) 8; N.land (8 * N.of_nat idlen) 255].
  Proof.
    intros H. unfold entl. set (l := N.of_nat idlen) in *.
    change 255 with (N.ones 8). rewrite !N.land_ones, !N.shiftr_div_pow2, N.shiftl_mul_pow2.
    change (2 ^ 5) with 32. change (2 ^ 8) with 256. change (2 ^ 3) with 8.
    f_equal; [|f_equal]; lia.
  Qed.

  Lemma z_general_spec P id : N.of_nat (length id) <= 8191 ->
    z_general NO P id (length id) = z_spec NO P id.
  Proof.
    intros H. unfold z_general, z_spec.
    change (sm3_update (sm3_update (sm3_update sm3_init (entl (length id))) id)
                       (curve_params ++ point_bytes NO P))
      with (fold_left sm3_update [entl (length id); id; curve_params ++ point_bytes NO P] sm3_init).
    rewrite sm3_stream. cbn [concat]. rewrite app_nil_r, entl_spec by exact H. reflexivity.
  Qed.

  Lemma z_default_spec P : z_default NO P = z_spec NO P default_id.
  Proof.
    assert (E : [N.shiftr (8 * N.of_nat (length default_id)) 8;
                 N.land (8 * N.of_nat (length default_id)) 255] = [0; 128]) by reflexivity.
    unfold z_spec. cbv zeta. rewrite E. unfold z_default.
    set (m := ([0; 128] ++ default_id ++ curve_params ++ point_bytes NO P)). clearbody m.
    change (sm3_update sm3_init m) with (fold_left sm3_update [m] sm3_init).
    rewrite sm3_stream. cbn [concat]. rewrite app_nil_r. reflexivity.
  Qed.

  Lemma list_eqb_eq a b : list_eqb a b = true -> a = b.
  Proof.
    revert b; induction a as [|x a IH]; intros [|y b] H; try discriminate; [reflexivity|].
    cbn [list_eqb] in H. apply andb_true_iff in H. destruct H as [H1 H2].
    apply N.eqb_eq in H1. subst y. f_equal. apply IH, H2.
  Qed.

  (* Z binds exactly the idlen bytes of the ID: for every buffer, every idlen in 1..8191 *)
  Theorem z_binds_exact_id P buf idlen z :
    N.of_nat idlen <= 8191 ->
    compute_z NO P buf idlen = ZOk z ->
    z = z_spec NO P (firstn idlen buf).
  Proof.
    intros Hlen H. unfold compute_z in H.
    destruct (Nat.ltb (length buf) idlen) eqn:El; [discriminate|]. apply Nat.ltb_ge in El.
    assert (Hl : length (firstn idlen buf) = idlen) by (rewrite firstn_length; lia).
    cbv zeta in H.
    destruct (Nat.eqb idlen 16 && list_eqb (firstn idlen buf) default_id) eqn:E.
    - apply andb_true_iff in E. destruct E as [_ E]. apply list_eqb_eq in E.
      apply ZOk_inj in H. subst z. rewrite E. apply z_default_spec.
    - apply ZOk_inj in H. subst z. rewrite <- Hl at 2. apply z_general_spec. rewrite Hl. exact Hlen.
  Qed.

  (* ... nothing more: bytes of the buffer beyond idlen have no influence *)
  Theorem z_ignores_bytes_after_id P buf idlen :
    (idlen <= length buf)%nat ->
    compute_z NO P buf idlen = compute_z NO P (firstn idlen buf) idlen.
  Proof.
    intros H. unfold compute_z.
    assert (Hl : length (firstn idlen buf) = idlen) by (rewrite firstn_length; lia).
    rewrite Hl. replace (Nat.ltb (length buf) idlen) with false by (symmetry; apply Nat.ltb_ge; lia).
    replace (Nat.ltb idlen idlen) with false by (symmetry; apply Nat.ltb_ge; lia).
    rewrite firstn_firstn, Nat.min_id. reflexivity.
  Qed.

  (* ... nothing less: reading idlen bytes from a shorter buffer is flagged (never silently truncated) *)
  Theorem z_short_buffer_faults P buf idlen :
    (length buf < idlen)%nat -> compute_z NO P buf idlen = ZFault.
  Proof. intros H. unfold compute_z. replace (Nat.ltb (length buf) idlen) with true by (symmetry; apply Nat.ltb_lt; lia). reflexivity. Qed.
End ZProofs.

(* ---------------- the defects repaired in /repo, kept as named Examples on the OLD code shapes ---------------- *)
(* DESIGN 5 #2 (repaired by 227cbe8): strcmp ignored idlen: id = "1234567812345678\0", idlen = 5 gave
   the Z of the 16-byte default ID; the repaired code gives the standard's Z for "12345" *)
Example old_compute_z_ignored_idlen :
  let P := sm2_mulG ZOps 1 in
  let buf := (default_id ++ [0])%N in
  compute_z_old ZOps P buf 5 = ZOk (z_spec ZOps P default_id) /\
  z_spec ZOps P (firstn 5 buf) <> z_spec ZOps P default_id /\
  compute_z ZOps P buf 5 = ZOk (z_spec ZOps P (firstn 5 buf)).
Proof. vm_compute. split; [reflexivity|split; [discriminate|reflexivity]]. Qed.

(* the old comparison read past the end of an unterminated id buffer that is a prefix of the default ID *)
Example old_compute_z_overread :
  compute_z_old ZOps (sm2_mulG ZOps 1) [0x31; 0x32]%N 2 = ZFault /\
  compute_z ZOps (sm2_mulG ZOps 1) [0x31; 0x32]%N 2 <> ZFault.
Proof. vm_compute. split; [reflexivity|discriminate]. Qed.

(* DESIGN 5 #3 (repaired by 05ab786): the old sm2_fast_sign returned r = 0, s = 0, r + k = n;
   sm2_do_verify refuses each; the repaired sm2_fast_sign answers "take another nonce".
   Witnesses with d = 1, k = 1 (x1 = xG): *)
Definition wit_fast := inv_n ZOps 2.
Definition wit_pc := pre_entry ZOps 1.
Example old_fast_sign_r0 :
  let e := n - sm2_Gx in
  fst (fast_sign_old wit_fast wit_pc e) = 0 /\
  do_verify ZOps (sm2_mulG ZOps 1) e (fst (fast_sign_old wit_fast wit_pc e)) (snd (fast_sign_old wit_fast wit_pc e)) = false /\
  fast_sign wit_fast wit_pc e = None.
Proof. vm_compute. repeat split; reflexivity. Qed.
Example old_fast_sign_s0 :
  let e := (1 - sm2_Gx) mod n in
  snd (fast_sign_old wit_fast wit_pc e) = 0 /\
  do_verify ZOps (sm2_mulG ZOps 1) e (fst (fast_sign_old wit_fast wit_pc e)) (snd (fast_sign_old wit_fast wit_pc e)) = false /\
  fast_sign wit_fast wit_pc e = None.
Proof. vm_compute. repeat split; reflexivity. Qed.
Example old_fast_sign_rk :
  let e := n - 1 - sm2_Gx in
  fst (fast_sign_old wit_fast wit_pc e) + 1 = n /\
  do_verify ZOps (sm2_mulG ZOps 1) e (fst (fast_sign_old wit_fast wit_pc e)) (snd (fast_sign_old wit_fast wit_pc e)) = false /\
  fast_sign wit_fast wit_pc e = None.
Proof. vm_compute. repeat split; reflexivity. Qed.
(* sm2_do_sign always retried on the same nonce/digest combinations (entropy exhausted => error) *)
Example do_sign_retries_r0 :
  do_sign ZOps 1 (n - sm2_Gx) [rev (to32 1)] = None.
Proof. vm_compute. reflexivity. Qed.

(* ---------------- Montgomery's trick: every slot gets the inverse of its own Z ---------------- *)
Section BatchInvProofs.
  Variable m : Z.
  Hypothesis Hm : 0 < m.
  Definition eqm (a b : Z) : Prop := a mod m = b mod m.
  Definition lprod (l : list Z) : Z := fold_right Z.mul 1 l.

  Lemma eqm_refl a : eqm a a. Proof. reflexivity. Qed.
  Lemma eqm_trans a b c : eqm a b -> eqm b c -> eqm a c. Proof. unfold eqm; congruence. Qed.
  Lemma eqm_mul a a' b b' : eqm a a' -> eqm b b' -> eqm (a * b) (a' * b').
  Proof. unfold eqm. intros Ha Hb. rewrite (Z.mul_mod a b), (Z.mul_mod a' b'), Ha, Hb by lia. reflexivity. Qed.
  Lemma mulm_eqm a b : eqm (mulm m a b) (a * b).
  Proof. unfold eqm, mulm. apply Z.mod_mod. lia. Qed.
  Lemma mulm_eqm2 a a' b b' : eqm a a' -> eqm b b' -> eqm (mulm m a b) (a' * b').
  Proof. intros Ha Hb. eapply eqm_trans; [apply mulm_eqm|apply eqm_mul; assumption]. Qed.

  Lemma prefs_nth zs : forall acc i, (i < length zs)%nat ->
    eqm (nth i (prefs m acc zs) 0) (acc * lprod (firstn (S i) zs)).
  Proof.
    induction zs as [|z r IH]; intros acc i Hi; [cbn in Hi; lia|].
    cbn [prefs]. destruct i as [|i].
    - cbn [nth firstn lprod fold_right]. eapply eqm_trans; [apply mulm_eqm|].
      replace (acc * (z * 1)) with (acc * z) by ring. apply eqm_refl.
    - cbn [nth]. cbn [length] in Hi. eapply eqm_trans; [apply IH; lia|].
      change (firstn (S (S i)) (z :: r)) with (z :: firstn (S i) r).
      cbn [lprod fold_right]. fold (lprod (firstn (S i) r)).
      replace (acc * (z * lprod (firstn (S i) r))) with (acc * z * lprod (firstn (S i) r)) by ring.
      apply eqm_mul; [apply mulm_eqm|apply eqm_refl].
  Qed.

  Lemma f_list_nth zs i : (i < length zs)%nat ->
    eqm (nth i (f_list m zs) 0) (lprod (firstn (S i) zs)).
  Proof.
    destruct zs as [|z0 r]; intros Hi; [cbn in Hi; lia|]. cbn [f_list].
    destruct i as [|i].
    - cbn [nth firstn lprod fold_right]. replace (z0 * 1) with z0 by ring. apply eqm_refl.
    - cbn [nth]. cbn [length] in Hi. eapply eqm_trans; [apply prefs_nth; lia|].
      change (firstn (S (S i)) (z0 :: r)) with (z0 :: firstn (S i) r). apply eqm_refl.
  Qed.

  Lemma g_list_length zs : length (g_list m zs) = length zs.
  Proof.
    induction zs as [|z r IH]; [reflexivity|]. cbn [g_list]. destruct r as [|z' r']; [reflexivity|].
    cbn [length] in *. rewrite <- IH. reflexivity.
  Qed.

  Lemma g_list_nth zs : forall i, (i < length zs)%nat ->
    eqm (nth i (g_list m zs) 0) (lprod (skipn i zs)).
  Proof.
    induction zs as [|z r IH]; intros i Hi; [cbn in Hi; lia|].
    destruct r as [|z' r'].
    - cbn [length] in Hi. assert (i = 0)%nat by lia. subst i. cbn [g_list nth skipn lprod fold_right].
      replace (z * 1) with z by ring. apply eqm_refl.
    - change (g_list m (z :: z' :: r')) with (mulm m (hd 0 (g_list m (z' :: r'))) z :: g_list m (z' :: r')).
      destruct i as [|i].
      + cbn [nth skipn]. cbn [lprod fold_right]. fold (lprod (z' :: r')).
        rewrite Z.mul_comm. apply mulm_eqm2; [|apply eqm_refl].
        assert (H0 : hd 0 (g_list m (z' :: r')) = nth 0 (g_list m (z' :: r')) 0)
          by (destruct (g_list m (z' :: r')); reflexivity).
        rewrite H0. apply (IH 0%nat). cbn; lia.
      + cbn [nth skipn]. apply IH. cbn [length] in *. lia.
  Qed.

  Lemma lprod_app a b : lprod (a ++ b) = lprod a * lprod b.
  Proof. induction a as [|x a IH]; unfold lprod in *; cbn [app fold_right]; [ring|rewrite IH; ring]. Qed.

  Lemma lprod_split zs i : (i < length zs)%nat ->
    lprod zs = lprod (firstn i zs) * nth i zs 0 * lprod (skipn (S i) zs).
  Proof.
    intros Hi. rewrite <- (firstn_skipn i zs) at 1. rewrite lprod_app.
    destruct (skipn i zs) as [|x t] eqn:E.
    - apply (f_equal (@length Z)) in E. rewrite skipn_length in E. cbn in E. lia.
    - assert (Hn : nth i zs 0 = x).
      { rewrite <- (firstn_skipn i zs) at 1. rewrite app_nth2 by (rewrite firstn_length; lia).
        rewrite firstn_length, E. replace (i - Nat.min i (length zs))%nat with 0%nat by lia. reflexivity. }
      assert (Ht : skipn (S i) zs = t).
      { replace (S i) with (i + 1)%nat by lia. rewrite <- (skipn_skipn_nat 1 i), E. reflexivity. }
      rewrite Hn, Ht. cbn [lprod fold_right]. fold (lprod t). ring.
  Qed.

  (* batch_inv_correct: if the single inversion F of the total product f[N-1] is correct, every
     slot receives the modular inverse of its own Z.  Pure ring algebra modulo m. *)
  Theorem batch_inv_correct inv zs :
    (2 <= length zs)%nat ->
    (nth (length zs - 1) (f_list m zs) 0 * inv (nth (length zs - 1) (f_list m zs) 0)) mod m = 1 mod m ->
    forall i, (i < length zs)%nat ->
      (nth i zs 0 * nth i (batch_inv m inv zs) 0) mod m = 1 mod m.
  Proof.
    intros HN Hinv i Hi. unfold batch_inv. cbv zeta.
    set (N := length zs) in *. set (F := inv (nth (N - 1) (f_list m zs) 0)) in *.
    assert (Hnth : nth i (map (batch_slot m (f_list m zs) (g_list m zs) F N) (seq 0 N)) 0 =
                   batch_slot m (f_list m zs) (g_list m zs) F N i).
    { rewrite nth_indep with (d' := batch_slot m (f_list m zs) (g_list m zs) F N 0%nat)
        by (rewrite map_length, seq_length; exact Hi).
      rewrite map_nth, seq_nth by exact Hi. reflexivity. }
    rewrite Hnth. clear Hnth.
    (* the total product times F is 1 *)
    assert (Htot : eqm (lprod zs * F) 1).
    { eapply eqm_trans; [|exact Hinv]. apply eqm_mul; [|apply eqm_refl].
      unfold eqm. symmetry. pose proof (f_list_nth zs (N - 1)%nat ltac:(lia)) as Hf. unfold eqm in Hf.
      rewrite Hf. replace (S (N - 1)) with N by lia. unfold N. rewrite firstn_all. reflexivity. }
    change ((nth i zs 0 * batch_slot m (f_list m zs) (g_list m zs) F N i) mod m = 1 mod m)
      with (eqm (nth i zs 0 * batch_slot m (f_list m zs) (g_list m zs) F N i) 1).
    eapply eqm_trans; [|exact Htot]. rewrite (lprod_split zs i Hi).
    unfold batch_slot.
    destruct (Nat.eqb i 0) eqn:E0.
    - apply Nat.eqb_eq in E0. subst i. cbn [firstn lprod fold_right].
      replace (1 * nth 0 zs 0 * lprod (skipn 1 zs) * F) with (nth 0 zs 0 * (lprod (skipn 1 zs) * F)) by ring.
      apply eqm_mul; [apply eqm_refl|]. apply mulm_eqm2; [apply g_list_nth; lia|apply eqm_refl].
    - apply Nat.eqb_neq in E0. destruct (Nat.eqb i (N - 1)) eqn:E1.
      + apply Nat.eqb_eq in E1. subst i.
        replace (skipn (S (N - 1)) zs) with (@nil Z) by (symmetry; apply skipn_all2; unfold N; lia).
        cbn [lprod fold_right].
        replace (lprod (firstn (N - 1) zs) * nth (N - 1) zs 0 * 1 * F)
          with (nth (N - 1) zs 0 * (lprod (firstn (N - 1) zs) * F)) by ring.
        apply eqm_mul; [apply eqm_refl|]. apply mulm_eqm2; [|apply eqm_refl].
        pose proof (f_list_nth zs (N - 2)%nat ltac:(lia)) as Hf.
        replace (S (N - 2)) with (N - 1)%nat in Hf by lia. exact Hf.
      + apply Nat.eqb_neq in E1.
        replace (lprod (firstn i zs) * nth i zs 0 * lprod (skipn (S i) zs) * F)
          with (nth i zs 0 * (lprod (skipn (S i) zs) * lprod (firstn i zs) * F)) by ring.
        apply eqm_mul; [apply eqm_refl|]. apply mulm_eqm2; [|apply eqm_refl].
        apply mulm_eqm2.
        * replace (i + 1)%nat with (S i) by lia. apply g_list_nth. lia.
        * pose proof (f_list_nth zs (i - 1)%nat ltac:(lia)) as Hf.
          replace (S (i - 1)) with i in Hf by lia. exact Hf.
  Qed.
End BatchInvProofs.

(* ---------------- the eager pre-computation equals the lazy one ---------------- *)
Lemma p_gt_1 : 1 < sm2_p. Proof. reflexivity. Qed.

Lemma mulm_eq_of_eqm m a b x : 0 < m -> 0 <= x < m -> eqm m (a * b) x -> mulm m a b = x.
Proof. unfold mulm, eqm. intros Hm Hx H. rewrite H. apply Z.mod_small, Hx. Qed.

(* back from Jacobian: x z^2 (z^-1)^2 = x and y z^3 (z^-1)^3 = y *)
Lemma jac_back_x x z zi :
  0 <= x < sm2_p -> (z mod sm2_p * zi) mod sm2_p = 1 mod sm2_p ->
  mulm sm2_p (mulm sm2_p x (mulm sm2_p z z)) (mulm sm2_p zi zi) = x.
Proof.
  intros Hx Hz. pose proof p_pos as Hp.
  apply mulm_eq_of_eqm; [exact Hp|exact Hx|].
  assert (Hzz : eqm sm2_p (z * zi) 1).
  { unfold eqm. rewrite <- Hz. rewrite Z.mul_mod_idemp_l by lia. reflexivity. }
  eapply eqm_trans.
  - apply eqm_mul; [exact Hp| |apply mulm_eqm; exact Hp].
    apply mulm_eqm2; [exact Hp|apply eqm_refl|apply mulm_eqm; exact Hp].
  - replace (x * (z * z) * (zi * zi)) with (x * ((z * zi) * (z * zi))) by ring.
    replace x with (x * (1 * 1)) at 2 by ring.
    apply eqm_mul; [exact Hp|apply eqm_refl|]. apply eqm_mul; assumption.
Qed.

Lemma jac_back_y y z zi :
  0 <= y < sm2_p -> (z mod sm2_p * zi) mod sm2_p = 1 mod sm2_p ->
  mulm sm2_p (mulm sm2_p (mulm sm2_p y (mulm sm2_p z (mulm sm2_p z z))) zi) (mulm sm2_p zi zi) = y.
Proof.
  intros Hy Hz. pose proof p_pos as Hp.
  apply mulm_eq_of_eqm; [exact Hp|exact Hy|].
  assert (Hzz : eqm sm2_p (z * zi) 1).
  { unfold eqm. rewrite <- Hz. rewrite Z.mul_mod_idemp_l by lia. reflexivity. }
  eapply eqm_trans.
  - apply eqm_mul; [exact Hp| |apply mulm_eqm; exact Hp].
    apply mulm_eqm2; [exact Hp| |apply eqm_refl].
    apply mulm_eqm2; [exact Hp|apply eqm_refl|].
    apply mulm_eqm2; [exact Hp|apply eqm_refl|apply mulm_eqm; exact Hp].
  - replace (y * (z * (z * z)) * zi * (zi * zi)) with (y * ((z * zi) * ((z * zi) * (z * zi)))) by ring.
    replace y with (y * (1 * (1 * 1))) at 2 by ring.
    apply eqm_mul; [exact Hp|apply eqm_refl|]. repeat (apply eqm_mul; [exact Hp|assumption|]). assumption.
Qed.

Lemma draw_ks_length cnt en ks en' : draw_ks cnt en = Some (ks, en') -> length ks = cnt.
Proof.
  revert en ks en'. induction cnt as [|c IH]; intros en ks en' H; cbn [draw_ks] in H.
  - apply Some_inj in H. injection H as <- _. reflexivity.
  - destruct (rand_k en) as [[k e1]|]; [|discriminate].
    destruct (draw_ks c e1) as [[ks1 e2]|] eqn:E; [|discriminate].
    apply Some_inj in H. injection H as <- _. cbn [length]. f_equal. eapply IH, E.
Qed.

Lemma nth_map_seq {A} (f : nat -> A) d N i : (i < N)%nat -> nth i (map f (seq 0 N)) d = f i.
Proof.
  intros H. rewrite (nth_indep _ d (f 0%nat)) by (rewrite map_length, seq_length; exact H).
  rewrite (map_nth f (seq 0 N) 0%nat i), seq_nth by exact H. reflexivity.
Qed.

Lemma list_as_map_nth {A} (d : A) (l : list A) : l = map (fun i => nth i l d) (seq 0 (length l)).
Proof.
  induction l as [|x l IH]; [reflexivity|]. cbn [length seq map nth]. f_equal.
  rewrite <- seq_shift, map_map. exact IH.
Qed.

(* sm2_fast_sign_pre_compute (eager, shared inversion) stores exactly (k_i, x([k_i]G) reduced):
   for any Jacobian Z coordinates, provided the single inversion is correct *)
Theorem fast_pre_compute_eq_partial zs en ks en' :
  draw_ks 32 en = Some (ks, en') ->
  (let Zs := map (fun i => jac_Z ZOps (sm2_mulG ZOps (nth i ks 0)) (nth i zs 1)) (seq 0 32) in
   let T := nth 31 (f_list sm2_p Zs) 0 in (T * inv_p ZOps T) mod sm2_p = 1 mod sm2_p) ->
  fast_pre_compute ZOps zs en = Some (map (pre_entry ZOps) ks, en').
Proof.
  intros Hd Hinv. pose proof (draw_ks_length _ _ _ _ Hd) as Hl. cbv zeta in Hinv.
  unfold fast_pre_compute. rewrite Hd. f_equal. f_equal.
  transitivity (map (pre_entry ZOps) (map (fun i => nth i ks 0) (seq 0 32)));
    [|f_equal; rewrite <- Hl; symmetry; apply list_as_map_nth].
  rewrite map_map. apply map_ext_in. intros i Hi. apply in_seq in Hi.
  set (Zs := map (fun i => jac_Z ZOps (sm2_mulG ZOps (nth i ks 0)) (nth i zs 1)) (seq 0 32)) in *.
  assert (HZl : length Zs = 32%nat) by (unfold Zs; rewrite map_length, seq_length; reflexivity).
  pose proof (batch_inv_correct sm2_p p_pos (inv_p ZOps) Zs ltac:(lia)) as Hb.
  rewrite HZl in Hb. specialize (Hb Hinv i ltac:(lia)).
  assert (HZi : nth i Zs 0 = jac_Z ZOps (sm2_mulG ZOps (nth i ks 0)) (nth i zs 1)).
  { unfold Zs. apply (nth_map_seq (fun i => jac_Z ZOps (sm2_mulG ZOps (nth i ks 0)) (nth i zs 1))). lia. }
  rewrite HZi in Hb.
  unfold fast_pre_slot, pre_entry, x1_of. f_equal. f_equal.
  pose proof (mulG_ok (nth i ks 0)) as Hok.
  destruct (sm2_mulG ZOps (nth i ks 0)) as [[x y]|].
  - cbn [jac_X jac_Z get_x ntoZ ZOps] in *. unfold pt_ok, pt_okp in Hok.
    apply jac_back_x; [lia|exact Hb].
  - cbn [jac_Z] in Hb. rewrite Z.mul_0_l, Z.mod_0_l, Z.mod_1_l in Hb by (pose proof p_gt_1; lia). discriminate.
Qed.

(* ---------------- sm2_key.c: key generation / import of a private key ---------------- *)
Lemma keygen_loop_sound fuel en d en' :
  keygen_loop fuel en = Some (d, en') ->
  exists used b, en = used ++ b :: en' /\ d = le_to_Z b /\ 1 <= d < n - 1.
Proof.
  revert en. induction fuel as [|f IH]; intros en H; cbn [keygen_loop] in H; [discriminate|].
  destruct (rand_range 100 (n - 1) en) as [[k0 en0]|] eqn:Er; [|discriminate].
  destruct (rand_range_sound _ _ _ _ _ Er) as (used & b & -> & Hk0 & Hlt & _).
  destruct (k0 =? 0) eqn:E0.
  - destruct (IH _ H) as (used2 & b2 & -> & Hk & Hrng).
    exists (used ++ b :: used2), b2. rewrite <- app_assoc. cbn [app]. repeat split; try assumption; lia.
  - apply Some_inj in H. injection H as <- <-. exists used, b.
    pose proof (le_to_Z_nonneg b). repeat split; try assumption; lia.
Qed.

Section KeyOps.
  Variable NO : numops.
  (* sm2_key_generate: d is one draw of the stream, in [1, n-2], and the public key is [d]G *)
  Theorem key_generate_sound en d P rest :
    key_generate NO en = Some (d, P, rest) ->
    1 <= d <= n - 2 /\ P = sm2_mulG NO d /\
    exists used b, en = used ++ b :: rest /\ d = le_to_Z b.
  Proof.
    unfold key_generate. destruct (keygen_loop (S (length en)) en) as [[d0 e0]|] eqn:E; [|discriminate].
    intros H. apply Some_inj in H. injection H as <- <- <-.
    destruct (keygen_loop_sound _ _ _ _ E) as (used & b & He & Hd & Hr).
    split; [lia|]. split; [reflexivity|]. exists used, b. split; assumption.
  Qed.

  (* sm2_key_set_private_key accepts exactly d in [1, n-2] and derives P = [d]G *)
  Theorem key_set_private_spec d : 0 <= d ->
    key_set_private NO d = if (1 <=? d) && (d <=? n - 2) then Some (d, sm2_mulG NO d) else None.
  Proof.
    intros Hd. unfold key_set_private.
    destruct (d =? 0) eqn:E0; [replace (1 <=? d) with false by lia; reflexivity|].
    destruct (n - 1 <=? d) eqn:E1.
    - replace (d <=? n - 2) with false by lia. rewrite andb_false_r. reflexivity.
    - replace (1 <=? d) with true by lia. replace (d <=? n - 2) with true by lia. reflexivity.
  Qed.

  (* sm2_fast_sign_compute_key: (1 + d)^-1 for d < n - 1, error otherwise *)
  Theorem fast_key_spec d : 0 <= d ->
    fast_key NO d = if d <? n - 1 then Some (inv_n NO (1 + d)) else None.
  Proof.
    intros Hd. unfold fast_key. destruct (n - 1 <=? d) eqn:E.
    - replace (d <? n - 1) with false by lia. reflexivity.
    - replace (d <? n - 1) with true by lia.
      rewrite modn_add_spec by lia. rewrite Z.mod_small by lia.
      replace (d + 1) with (1 + d) by lia. reflexivity.
  Qed.

  (* sm2_public_key_digest = SM3(04 || x || y) *)
  Theorem public_key_digest_spec x y :
    public_key_digest NO (Some (x, y)) = Some (sm3 (4%N :: point_bytes NO (Some (x, y)))).
  Proof.
    unfold public_key_digest.
    set (m := (4%N :: point_bytes NO (Some (x, y)))). clearbody m. apply f_equal.
    change (sm3_update sm3_init m) with (fold_left sm3_update [m] sm3_init).
    rewrite sm3_stream. cbn [concat]. rewrite app_nil_r. reflexivity.
  Qed.

  (* sm2_signature_print succeeds only on the canonical encoding (same parse as sm2_verify) *)
  Theorem signature_print_strict a :
    bytes_ok a = true -> signature_print_ok a = true ->
    exists r s, length r = 32%nat /\ length s = 32%nat /\ a = sig_to_der r s.
  Proof.
    intros Hok H. unfold signature_print_ok in H.
    destruct (sig_from_der a) as [[[r s] rest]|] eqn:E; [|discriminate].
    destruct rest; [|discriminate].
    destruct (sig_der_canonical _ _ _ _ Hok E) as (Eq & Hr & Hs). rewrite app_nil_r in Eq.
    exists r, s. repeat split; assumption.
  Qed.

  (* ---------------- consumption of the entropy stream by the signing loops ---------------- *)
  Definition is_suffix (a b : ent) : Prop := exists pre, b = pre ++ a.
  Lemma is_suffix_refl a : is_suffix a a. Proof. exists []. reflexivity. Qed.
  Lemma is_suffix_trans a b c : is_suffix a b -> is_suffix b c -> is_suffix a c.
  Proof. intros [p1 ->] [p2 ->]. exists (p2 ++ p1). apply app_assoc. Qed.

  Lemma rand_k_suffix en k en' : rand_k en = Some (k, en') -> is_suffix en' en.
  Proof.
    unfold rand_k. intros H. destruct (rand_k_loop_sound _ _ _ _ H) as (used & b & -> & _).
    exists (used ++ [b]). rewrite <- app_assoc. reflexivity.
  Qed.

  Lemma sign_loop_suffix fuel d dinv e en sg rest :
    sign_loop NO fuel d dinv e en = Some (sg, rest) -> is_suffix rest en.
  Proof.
    revert en. induction fuel as [|f IH]; intros en H; cbn [sign_loop] in H; [discriminate|].
    destruct (rand_k en) as [[k en1]|] eqn:Ek; [|discriminate].
    pose proof (rand_k_suffix _ _ _ Ek) as Hs.
    destruct (sign_try NO d dinv e k) as [sg0|].
    - apply Some_inj in H. injection H as _ <-. exact Hs.
    - eapply is_suffix_trans; [apply (IH _ H)|exact Hs].
  Qed.

  Lemma sm2_sign_suffix d e en sg rest : sm2_sign NO d e en = Some (sg, rest) -> is_suffix rest en.
  Proof.
    unfold sm2_sign, do_sign. destruct (modn_add d 1 =? 0); [discriminate|].
    destruct (sign_loop NO _ _ _ _ _) as [[sg0 en1]|] eqn:E; [|discriminate].
    intros H. apply Some_inj in H. injection H as _ <-. exact (sign_loop_suffix _ _ _ _ _ _ _ E).
  Qed.

  (* sm2_sign_fixlen: the result is an ordinary sm2_sign output, produced on a later part of the
     entropy stream, whose DER length is the requested one (70, 71 or 72) *)
  Lemma fixlen_loop_sound trys d e siglen en sg rest :
    fixlen_loop NO trys d e siglen en = Some (sg, rest) ->
    length sg = siglen /\ exists en1, is_suffix en1 en /\ sm2_sign NO d e en1 = Some (sg, rest).
  Proof.
    revert en. induction trys as [|t IH]; intros en H; cbn [fixlen_loop] in H; [discriminate|].
    destruct (sm2_sign NO d e en) as [[sg0 en0]|] eqn:Es; [|discriminate].
    destruct (Nat.eqb (length sg0) siglen) eqn:El.
    - apply Some_inj in H. injection H as <- <-. split; [apply Nat.eqb_eq, El|].
      exists en. split; [apply is_suffix_refl|exact Es].
    - destruct (IH _ H) as (Hl & en1 & Hsuf & Hs). split; [exact Hl|].
      exists en1. split; [|exact Hs]. eapply is_suffix_trans; [exact Hsuf|exact (sm2_sign_suffix _ _ _ _ _ Es)].
  Qed.

  Theorem sign_fixlen_sound d e siglen en sg rest :
    sm2_sign_fixlen NO d e siglen en = Some (sg, rest) ->
    (siglen = 70 \/ siglen = 71 \/ siglen = 72)%nat /\ length sg = siglen /\
    exists en1, is_suffix en1 en /\ sm2_sign NO d e en1 = Some (sg, rest).
  Proof.
    unfold sm2_sign_fixlen.
    destruct (Nat.eqb siglen 70 || Nat.eqb siglen 71 || Nat.eqb siglen 72) eqn:E; [|discriminate].
    intros H. split.
    - apply orb_true_iff in E. destruct E as [E|E]; [apply orb_true_iff in E; destruct E as [E|E]|];
        apply Nat.eqb_eq in E; lia.
    - exact (fixlen_loop_sound _ _ _ _ _ _ _ H).
  Qed.

  (* sm2_sign_finish_fixlen after init / updates = sm2_sign_fixlen on SM3(Z || M) with the stored key *)
  Theorem sign_finish_fixlen_stream d P buf idlen z en c en1 chunks siglen en2 :
    compute_z NO P buf idlen = ZOk z ->
    sign_init NO d P (Some (buf, idlen)) en = IOk (c, en1) ->
    sign_finish_fixlen NO (fold_left sign_update chunks c) siglen en2 =
    if Nat.eqb siglen 0 then None
    else sm2_sign_fixlen NO d (be_to_Z (sm3 (z ++ concat chunks))) siglen en2.
  Proof.
    intros Hz Hi. unfold sign_init, init_hash in Hi. rewrite Hz in Hi.
    destruct (Nat.eqb idlen 0 || N.ltb 8191 (N.of_nat idlen)); [discriminate|].
    destruct (pre_compute en) as [[pre en']|]; [|discriminate].
    apply IOk_inj in Hi. injection Hi as <- <-.
    rewrite sign_updates. unfold sign_finish_fixlen. cbn [sc_sm3 sc_d].
    rewrite stream_digest. reflexivity.
  Qed.

  (* sm2_sign_reset / sm2_verify_reset: the next message is hashed from the saved post-Z state again *)
  Theorem sign_reset_stream d P buf idlen z en c en1 chunks1 chunks2 :
    compute_z NO P buf idlen = ZOk z ->
    sign_init NO d P (Some (buf, idlen)) en = IOk (c, en1) ->
    sm3_finish (sc_sm3 (fold_left sign_update chunks2 (sign_reset (fold_left sign_update chunks1 c)))) =
    sm3 (z ++ concat chunks2).
  Proof.
    intros Hz Hi. unfold sign_init, init_hash in Hi. rewrite Hz in Hi.
    destruct (Nat.eqb idlen 0 || N.ltb 8191 (N.of_nat idlen)); [discriminate|].
    destruct (pre_compute en) as [[pre en']|]; [|discriminate].
    apply IOk_inj in Hi. injection Hi as <- <-.
    rewrite (sign_updates chunks1). unfold sign_reset. cbn [sc_saved sc_d sc_fast sc_pre sc_num].
    rewrite (sign_updates chunks2). cbn [sc_sm3]. apply stream_digest.
  Qed.

  Theorem verify_reset_stream P buf idlen z c chunks1 chunks2 :
    compute_z NO P buf idlen = ZOk z ->
    verify_init NO P (Some (buf, idlen)) = IOk c ->
    sm3_finish (vc_sm3 NO (fold_left (verify_update NO) chunks2
                             (verify_reset NO (fold_left (verify_update NO) chunks1 c)))) =
    sm3 (z ++ concat chunks2).
  Proof.
    intros Hz Hi. unfold verify_init, init_hash in Hi. rewrite Hz in Hi.
    destruct (Nat.eqb idlen 0 || N.ltb 8191 (N.of_nat idlen)); [discriminate|].
    apply IOk_inj in Hi. subst c.
    rewrite (verify_updates NO chunks1). unfold verify_reset. cbn [vc_saved vc_P].
    rewrite (verify_updates NO chunks2). cbn [vc_sm3]. apply stream_digest.
  Qed.
End KeyOps.
