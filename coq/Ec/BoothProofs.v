(* C13 — Booth recoding: the signed digits sum to the scalar, lie in [-2^(w-1), 2^(w-1)],
   and the leading non-zero digit is positive. *)
From Coq Require Import ZArith List Bool Lia.
From GmVerif Require Import Ec.Z256 Ec.Z256Proofs Ec.Booth.
Import ListNotations.
Local Open Scope Z_scope.
Ltac Zify.zify_post_hook ::= Z.div_mod_to_equations.

Lemma booth_aux1 : forall a P, 0 < P -> (a mod (P * 2)) mod P = a mod P.
Proof.
  intros. rewrite Z.rem_mul_r by lia. rewrite (Z.mul_comm P). rewrite Z.mod_add by lia.
  apply Z.mod_mod; lia.
Qed.
Lemma booth_aux2 : forall a P, 0 < P -> ((a mod (P * 2)) / 2) mod P = (a / 2) mod P.
Proof.
  intros. rewrite (Z.mul_comm P 2). rewrite Z.rem_mul_r by lia. rewrite (Z.mul_comm 2).
  rewrite Z.div_add by lia. rewrite Z.div_small by (apply Z.mod_pos_bound; lia).
  rewrite Z.add_0_l. apply Z.mod_mod; lia.
Qed.

Section B.
  Variable w : Z.
  Hypothesis Hw : 0 < w.
  Variable k : Z.
  Hypothesis Hk : 0 <= k.

  (* a_i = floor(2k / 2^(w i)),  b_i = floor(k / 2^(w i)),  g_i = a_i - b_i *)
  Definition ba (i : Z) : Z := 2 * k / 2^(w * i).
  Definition bb (i : Z) : Z := k / 2^(w * i).
  Definition bg (i : Z) : Z := ba i - bb i.

  Lemma pow_w_pos : forall i, 0 <= i -> 0 < 2^(w * i).
  Proof. intros. apply Z.pow_pos_nonneg; nia. Qed.

  Lemma ba_succ : forall i, 0 <= i -> ba (i + 1) = ba i / 2^w.
  Proof.
    intros i Hi. unfold ba. replace (w * (i + 1)) with (w * i + w) by ring.
    rewrite Z.pow_add_r by nia. rewrite Z.div_div; auto.
    - pose proof (pow_w_pos i Hi). lia.
    - apply Z.pow_pos_nonneg; lia.
  Qed.
  Lemma bb_succ : forall i, 0 <= i -> bb (i + 1) = bb i / 2^w.
  Proof.
    intros i Hi. unfold bb. replace (w * (i + 1)) with (w * i + w) by ring.
    rewrite Z.pow_add_r by nia. rewrite Z.div_div; auto.
    - pose proof (pow_w_pos i Hi). lia.
    - apply Z.pow_pos_nonneg; lia.
  Qed.
  Lemma bb_half : forall i, 0 <= i -> bb i = ba i / 2.
  Proof.
    intros i Hi. unfold ba, bb. pose proof (pow_w_pos i Hi).
    rewrite Z.div_div by lia. rewrite (Z.mul_comm (2^(w*i)) 2).
    rewrite Z.div_mul_cancel_l by lia. reflexivity.
  Qed.

  (* the digit in terms of a_i, b_i *)
  Lemma booth_v_ab : forall i, 0 <= i -> booth_v k w i = ba i mod 2^w - bb i mod 2^w.
  Proof.
    intros i Hi. unfold booth_v. fold (ba i). rewrite (bb_half i Hi).
    set (a := ba i). assert (P : 0 < 2^w) by (apply Z.pow_pos_nonneg; lia).
    rewrite Z.pow_add_r by lia. change (2^1) with 2.
    rewrite booth_aux1, booth_aux2 by lia. reflexivity.
  Qed.

  Lemma booth_v_tele : forall i, 0 <= i -> booth_v k w i = bg i - 2^w * bg (i + 1).
  Proof.
    intros i Hi. rewrite booth_v_ab by auto. unfold bg.
    rewrite ba_succ, bb_succ by auto.
    assert (P : 0 < 2^w) by (apply Z.pow_pos_nonneg; lia).
    pose proof (Z.div_mod (ba i) (2^w) ltac:(lia)). pose proof (Z.div_mod (bb i) (2^w) ltac:(lia)). lia.
  Qed.

  (* telescoping sum over windows j, j+1, ..., j+n-1 *)
  Lemma booth_sum_tele : forall n j, 0 <= j ->
    booth_sum w j (map (fun i => booth_v k w (j + Z.of_nat i)) (seq 0 n)) =
    2^(w * j) * bg j - 2^(w * (j + Z.of_nat n)) * bg (j + Z.of_nat n).
  Proof.
    induction n as [|n IH]; intros j Hj.
    - cbn [seq map booth_sum]. rewrite Z.add_0_r. ring.
    - cbn [seq map booth_sum]. rewrite <- seq_shift, map_map.
      rewrite Z.add_0_r.
      rewrite (map_ext _ (fun i => booth_v k w (j + 1 + Z.of_nat i))).
      2:{ intros i. f_equal. lia. }
      rewrite IH by lia. rewrite booth_v_tele by auto.
      replace (j + 1 + Z.of_nat n) with (j + Z.of_nat (S n)) by lia.
      replace (w * (j + 1)) with (w * j + w) by ring. rewrite Z.pow_add_r by nia. ring.
  Qed.

  Lemma bg0 : bg 0 = k.
  Proof. unfold bg, ba, bb. rewrite Z.mul_0_r. change (2^0) with 1. rewrite !Z.div_1_r. ring. Qed.

  Lemma bg_nonneg : forall i, 0 <= i -> 0 <= bg i.
  Proof.
    intros i Hi. unfold bg. rewrite (bb_half i Hi).
    assert (0 <= ba i) by (unfold ba; apply Z.div_pos; [lia | apply pow_w_pos; auto]). lia.
  Qed.
  Lemma bg_zero_above : forall i, 0 <= i -> 2 * k < 2^(w * i) -> bg i = 0.
  Proof.
    intros i Hi Hlt. unfold bg, ba, bb.
    rewrite (Z.div_small (2 * k)) by lia. rewrite (Z.div_small k) by lia. reflexivity.
  Qed.

  Theorem booth_sum_v : forall n, 2 * k < 2^(w * Z.of_nat n) ->
    booth_sum w 0 (map (fun i => booth_v k w (Z.of_nat i)) (seq 0 n)) = k.
  Proof.
    intros n Hn. pose proof (booth_sum_tele n 0 ltac:(lia)) as T.
    rewrite (map_ext _ (fun i => booth_v k w (Z.of_nat i))) in T by (intros; f_equal; lia).
    rewrite T. rewrite Z.add_0_l, Z.mul_0_r, bg0. change (2^0) with 1.
    rewrite bg_zero_above by lia. ring.
  Qed.

  (* if all digits above window i vanish, digit i is >= 0: the first non-zero digit met by the
     top-down loops of point_mul / mul_generator is positive, so T[booth-1] is in range *)
  Theorem leading_digit_nonneg : forall n i, 2 * k < 2^(w * Z.of_nat n) -> (i < n)%nat ->
    (forall j, (i < j < n)%nat -> booth_v k w (Z.of_nat j) = 0) ->
    0 <= booth_v k w (Z.of_nat i).
  Proof.
    intros n i Hn Hi Hz.
    (* sum over windows i+1 .. n-1 is 0, hence g_(i+1) = 0 *)
    pose proof (booth_sum_tele (n - S i) (Z.of_nat (S i)) ltac:(lia)) as T.
    replace (Z.of_nat (S i) + Z.of_nat (n - S i)) with (Z.of_nat n) in T by lia.
    rewrite (bg_zero_above (Z.of_nat n)) in T by lia.
    assert (Z0 : booth_sum w (Z.of_nat (S i))
                  (map (fun i0 => booth_v k w (Z.of_nat (S i) + Z.of_nat i0)) (seq 0 (n - S i))) = 0).
    { assert (G : forall l s, (forall x, In x l -> x = 0) -> booth_sum w s l = 0).
      { induction l as [|x l IHl]; intros s Hl; cbn [booth_sum]; auto.
        rewrite (Hl x) by (left; auto). rewrite IHl by (intros; apply Hl; right; auto). ring. }
      apply G. intros x Hx. apply in_map_iff in Hx. destruct Hx as (t & <- & Ht).
      apply in_seq in Ht. replace (Z.of_nat (S i) + Z.of_nat t) with (Z.of_nat (S i + t)) by lia.
      apply Hz. lia. }
    rewrite Z0 in T.
    assert (G1 : bg (Z.of_nat (S i)) = 0).
    { pose proof (pow_w_pos (Z.of_nat (S i)) ltac:(lia)). nia. }
    rewrite booth_v_tele by lia. replace (Z.of_nat i + 1) with (Z.of_nat (S i)) by lia.
    rewrite G1. pose proof (bg_nonneg (Z.of_nat i) ltac:(lia)). lia.
  Qed.
End B.

(* digit range for the two window sizes in use *)
Theorem booth_range_5 : forall k i, 0 <= k -> 0 <= i -> -16 <= booth_v k 5 i <= 16.
Proof.
  intros k i Hk Hi. rewrite booth_v_ab by lia. rewrite (bb_half 5 ltac:(lia) k i Hi).
  set (a := ba 5 k i). change (2^5) with 32. lia.
Qed.
Theorem booth_range_7 : forall k i, 0 <= k -> 0 <= i -> -64 <= booth_v k 7 i <= 64.
Proof.
  intros k i Hk Hi. rewrite booth_v_ab by lia. rewrite (bb_half 7 ltac:(lia) k i Hi).
  set (a := ba 7 k i). change (2^7) with 128. lia.
Qed.

(* the statements for 256-bit scalars and the window counts of the C code *)
Theorem booth_sum_5 : forall k, 0 <= k < 2^256 -> booth_sum 5 0 (booth_digits_v k 5) = k.
Proof.
  intros k Hk. unfold booth_digits_v. change (booth_n 5) with 52%nat.
  apply booth_sum_v; lia.
Qed.
Theorem booth_sum_7 : forall k, 0 <= k < 2^256 -> booth_sum 7 0 (booth_digits_v k 7) = k.
Proof.
  intros k Hk. unfold booth_digits_v. change (booth_n 7) with 37%nat.
  apply booth_sum_v; lia.
Qed.

(* ---------------- the limb-level code sm2_z256_get_booth = the value-level digit ---------------- *)
Ltac Zify.zify_post_hook ::= idtac.
Lemma mod_mod_pow2 : forall x w n, 0 <= w <= n -> (x mod 2^n) mod 2^w = x mod 2^w.
Proof.
  intros x w n H. replace n with (w + (n - w)) by ring. rewrite Z.pow_add_r by lia.
  assert (0 < 2^w) by (apply Z.pow_pos_nonneg; lia).
  assert (0 < 2^(n - w)) by (apply Z.pow_pos_nonneg; lia).
  rewrite Z.rem_mul_r by lia. rewrite Z.mul_comm, Z.mod_add by lia. apply Z.mod_mod. lia.
Qed.
Lemma land_mask : forall x w, 0 <= w -> Z.land x (Z.shiftl 1 w - 1) = x mod 2^w.
Proof.
  intros x w Hw. rewrite Z.shiftl_1_l. replace (2^w - 1) with (Z.ones w) by (rewrite Z.ones_equiv; lia).
  apply Z.land_ones. exact Hw.
Qed.

(* x mod 2^w and (x/2) mod 2^w only depend on x mod 2^(w+1) *)
Lemma low_bits : forall x y w, 0 <= w -> x mod 2^(w+1) = y mod 2^(w+1) ->
  x mod 2^w = y mod 2^w /\ (x / 2) mod 2^w = (y / 2) mod 2^w.
Proof.
  intros x y w Hw E. rewrite Z.pow_add_r in E by lia. change (2^1) with 2 in E.
  assert (P : 0 < 2^w) by (apply Z.pow_pos_nonneg; lia).
  split.
  - rewrite <- (booth_aux1 x (2^w) P), <- (booth_aux1 y (2^w) P), E. reflexivity.
  - rewrite <- (booth_aux2 x (2^w) P), <- (booth_aux2 y (2^w) P), E. reflexivity.
Qed.

(* the window extraction on two adjacent limbs *)
Lemma window_core : forall X H j w, 0 <= X < 2^64 -> 0 <= H -> 0 <= j < 64 -> 0 < w -> w + 1 <= 64 ->
  let A := (X + 2^64 * H) / 2^j in
  let X1 := H mod 2^64 in
  let wb := if 64 - j <? w + 1
            then Z.lor (Z.shiftr X j) (w64 (Z.shiftl X1 (64 - j))) else Z.shiftr X j in
  wb mod 2^(w+1) = A mod 2^(w+1).
Proof.
  intros X H j w HX HH Hj Hw Hw1 A X1 wb.
  assert (Pj : 0 < 2^j) by (apply Z.pow_pos_nonneg; lia).
  assert (Pc : 0 < 2^(64 - j)) by (apply Z.pow_pos_nonneg; lia).
  assert (E64 : 2^64 = 2^(64 - j) * 2^j) by (rewrite <- Z.pow_add_r by lia; f_equal; lia).
  assert (EA : A = X / 2^j + 2^(64 - j) * H).
  { unfold A. rewrite E64. replace (X + 2^(64 - j) * 2^j * H) with (X + (2^(64 - j) * H) * 2^j) by ring.
    rewrite Z.div_add by lia. reflexivity. }
  assert (Pw : 0 < 2^(w + 1)) by (apply Z.pow_pos_nonneg; lia).
  unfold wb. rewrite !Z.shiftr_div_pow2 by lia.
  destruct (Z.ltb_spec (64 - j) (w + 1)) as [S|S].
  - (* straddle *)
    assert (Lo : 0 <= X / 2^j < 2^(64 - j)).
    { split; [apply Z.div_pos; lia|]. apply Z.div_lt_upper_bound; [lia|]. rewrite Z.mul_comm, <- E64. lia. }
    assert (EW : w64 (Z.shiftl X1 (64 - j)) = Z.shiftl (X1 mod 2^j) (64 - j)).
    { unfold w64. rewrite !Z.shiftl_mul_pow2 by lia. rewrite E64.
      rewrite (Z.mul_comm (2^(64 - j)) (2^j)). rewrite Z.mul_mod_distr_r by lia. reflexivity. }
    rewrite EW. rewrite Z.lor_comm. rewrite lor_shl_add by lia.
    rewrite EA.
    (* H = 2^j * (H / 2^j) + H mod 2^j and X1 mod 2^j = H mod 2^j *)
    assert (EX1 : X1 mod 2^j = H mod 2^j) by (unfold X1; apply mod_mod_pow2; lia).
    rewrite EX1.
    pose proof (Z.div_mod H (2^j) ltac:(lia)) as DM.
    replace (X / 2^j + 2^(64 - j) * H)
      with (H mod 2^j * 2^(64 - j) + X / 2^j + (H / 2^j) * 2^64).
    2:{ rewrite E64. rewrite DM at 3. ring. }
    (* 2^64 = 2^(w+1) * 2^(63-w) *)
    replace (2^64) with (2^(63 - w) * 2^(w + 1)) by (rewrite <- Z.pow_add_r by lia; f_equal; lia).
    rewrite Z.mul_assoc. rewrite Z.mod_add by lia. reflexivity.
  - (* the window lies inside limb X *)
    rewrite EA.
    replace (2^(64 - j)) with (2^(64 - j - (w + 1)) * 2^(w + 1)) by (rewrite <- Z.pow_add_r by lia; f_equal; lia).
    replace (X / 2^j + 2^(64 - j - (w + 1)) * 2^(w + 1) * H)
      with (X / 2^j + (2^(64 - j - (w + 1)) * H) * 2^(w + 1)) by ring.
    rewrite Z.mod_add by lia. reflexivity.
Qed.

(* sm2_z256_get_booth on the limbs of k extracts the value-level Booth digit *)
Theorem get_booth_limbs : forall k w i, 0 <= k < 2^256 -> 0 < w -> w + 1 <= 64 -> 0 <= i ->
  w * i - 1 < 256 ->
  z256_get_booth (limbs 4 k) w i = booth_v k w i.
Proof.
  intros k w i Hk Hw Hw1 Hi Hr.
  assert (Hk0 : 0 <= k) by lia.
  assert (Pw : 0 < 2^w) by (apply Z.pow_pos_nonneg; lia).
  set (W := 2^64) in *.
  set (d1 := k / W). set (d2 := d1 / W). set (d3 := d2 / W).
  assert (E0 : k = k mod W + W * d1) by (unfold d1, W; pose proof (Z.div_mod k (2^64) ltac:(lia)); lia).
  assert (E1 : d1 = d1 mod W + W * d2) by (unfold d2, W; pose proof (Z.div_mod d1 (2^64) ltac:(lia)); lia).
  assert (E2 : d2 = d2 mod W + W * d3) by (unfold d3, W; pose proof (Z.div_mod d2 (2^64) ltac:(lia)); lia).
  assert (B1 : 0 <= d1) by (unfold d1, W; apply Z.div_pos; lia).
  assert (B2 : 0 <= d2) by (unfold d2, W; apply Z.div_pos; lia).
  assert (B3 : 0 <= d3 < W).
  { unfold d3, d2, d1, W. rewrite !Z.div_div by lia. split; [apply Z.div_pos; lia|].
    apply Z.div_lt_upper_bound; lia. }
  assert (L : limbs 4 k = [k mod W; d1 mod W; d2 mod W; d3 mod W]) by reflexivity.
  rewrite L. unfold z256_get_booth.
  rewrite (booth_v_ab w Hw k i Hi).
  destruct (Z.eqb_spec i 0) as [->|Hi0].
  - (* i = 0 *)
    cbn [nth]. rewrite !land_mask by lia. unfold ba, bb. rewrite Z.mul_0_r. change (2^0) with 1.
    rewrite !Z.div_1_r. unfold w64. rewrite Z.shiftl_mul_pow2 by lia. change (2^1) with 2.
    fold W. f_equal.
    + unfold W. rewrite mod_mod_pow2 by lia.
      rewrite Z.mul_mod by lia. rewrite mod_mod_pow2 by lia. rewrite <- Z.mul_mod by lia. f_equal. ring.
    + unfold W. apply mod_mod_pow2. lia.
  - (* i > 0 *)
    set (j0 := i * w - 1).
    assert (Hj0 : 0 <= j0 < 256) by (unfold j0; nia).
    set (n := j0 / 64). set (j := j0 mod 64).
    assert (Hj : 0 <= j < 64) by (unfold j; apply Z.mod_pos_bound; lia).
    assert (Hn : 0 <= n <= 3).
    { unfold n. split; [apply Z.div_pos; lia|]. assert (j0 / 64 < 4) by (apply Z.div_lt_upper_bound; lia). lia. }
    assert (Ej0 : j0 = 64 * n + j) by (unfold n, j; apply Z.div_mod; lia).
    (* ba i = k / 2^j0 *)
    assert (EA : ba w k i = k / 2^j0).
    { unfold ba. replace (w * i) with (1 + j0) by (unfold j0; ring).
      rewrite Z.pow_add_r by lia. change (2^1) with 2.
      rewrite Z.div_mul_cancel_l; [reflexivity | apply Z.pow_nonzero; lia | lia]. }
    rewrite (bb_half w Hw k i Hi). rewrite EA.
    rewrite !land_mask by lia. rewrite (Z.shiftr_div_pow2 _ 1) by lia. change (2^1) with 2.
    (* it suffices to agree modulo 2^(w+1) *)
    match goal with |- ?wb mod _ - (?wb' / 2) mod _ = _ =>
      assert (Core : wb mod 2^(w+1) = (k / 2^j0) mod 2^(w+1)) end.
    2:{ destruct (low_bits _ _ w ltac:(lia) Core) as (C1 & C2). rewrite C1, C2. reflexivity. }
    assert (E2j : 2^j0 = 2^(64 * n) * 2^j) by (rewrite Ej0, Z.pow_add_r by lia; reflexivity).
    assert (Pj : 0 < 2^j) by (apply Z.pow_pos_nonneg; lia).
    rewrite E2j. rewrite <- Z.div_div by (try lia; apply Z.pow_pos_nonneg; lia).
    assert (Cases : n = 0 \/ n = 1 \/ n = 2 \/ n = 3) by lia.
    destruct Cases as [C|[C|[C|C]]]; rewrite C.
    + (* limb 0 *)
      change (Z.to_nat 0) with 0%nat. change (Z.to_nat (0 + 1)) with 1%nat. cbn [nth].
      change (0 <? 3) with true. rewrite andb_true_r.
      change (2^(64 * 0)) with 1. rewrite Z.div_1_r. rewrite E0 at 3.
      apply (window_core (k mod W) d1 j w); try lia. unfold W. apply Z.mod_pos_bound. lia.
    + change (Z.to_nat 1) with 1%nat. change (Z.to_nat (1 + 1)) with 2%nat. cbn [nth].
      change (1 <? 3) with true. rewrite andb_true_r.
      change (2^(64 * 1)) with W. fold d1. rewrite E1 at 3.
      apply (window_core (d1 mod W) d2 j w); try lia. unfold W. apply Z.mod_pos_bound. lia.
    + change (Z.to_nat 2) with 2%nat. change (Z.to_nat (2 + 1)) with 3%nat. cbn [nth].
      change (2 <? 3) with true. rewrite andb_true_r.
      replace (k / 2^(64 * 2)) with d2 by (unfold d2, d1, W; rewrite Z.div_div by lia; reflexivity).
      rewrite E2 at 3.
      apply (window_core (d2 mod W) d3 j w); try lia. unfold W. apply Z.mod_pos_bound. lia.
    + change (Z.to_nat 3) with 3%nat. cbn [nth].
      change (3 <? 3) with false. rewrite andb_false_r.
      replace (k / 2^(64 * 3)) with d3 by (unfold d3, d2, d1, W; rewrite !Z.div_div by lia; reflexivity).
      rewrite (Z.mod_small d3 W) by lia. rewrite Z.shiftr_div_pow2 by lia. reflexivity.
Qed.

(* hence the digits the code extracts sum to the scalar *)
Corollary booth_digits_limbs_5 : forall k, 0 <= k < 2^256 -> booth_digits k 5 = booth_digits_v k 5.
Proof.
  intros k Hk. unfold booth_digits, booth_digits_v. apply map_ext_in. intros i Hin.
  apply in_seq in Hin. change (booth_n 5) with 52%nat in Hin.
  apply get_booth_limbs; lia.
Qed.
Corollary booth_digits_limbs_7 : forall k, 0 <= k < 2^256 -> booth_digits k 7 = booth_digits_v k 7.
Proof.
  intros k Hk. unfold booth_digits, booth_digits_v. apply map_ext_in. intros i Hin.
  apply in_seq in Hin. change (booth_n 7) with 37%nat in Hin.
  apply get_booth_limbs; lia.
Qed.
Theorem booth_code_sum_5 : forall k, 0 <= k < 2^256 -> booth_sum 5 0 (booth_digits k 5) = k.
Proof. intros. rewrite booth_digits_limbs_5 by auto. apply booth_sum_5. auto. Qed.
Theorem booth_code_sum_7 : forall k, 0 <= k < 2^256 -> booth_sum 7 0 (booth_digits k 7) = k.
Proof. intros. rewrite booth_digits_limbs_7 by auto. apply booth_sum_7. auto. Qed.
