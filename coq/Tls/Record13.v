(* TLS 1.3 record protection, transcribed from src/tls13.c:
     tls13_gcm_encrypt, tls13_gcm_decrypt, tls13_record_encrypt, tls13_record_decrypt.

   Generic in the AEAD under the write key:
     [seal nonce aad pt]        = ciphertext || 16-byte tag   (gcm_encrypt, taglen 16)
     [open nonce aad ct tag]    = Some pt | None              (gcm_decrypt)
   The concrete instance (SM4-GCM) is in Tls/Gcm13.v / Tls/Record13Inst.v. *)
From GmVerif Require Import Base.ListX Base.Bytes Tls.Record12.
Local Open Scope nat_scope.

(* nonce = (0^4 || seq_num) xor iv, 12 bytes *)
Definition nonce13 (iv seq : list N) : list N := xor_bytes (zeros 4 ++ seq) iv.

(* aad = 23, 3, 3, (uint8_t)(len >> 8), (uint8_t)len *)
Definition aad13 (len : nat) : list N := [23%N; 3%N; 3%N] ++ u16 len.

(* tls_record_type_name(t) != NULL : 20..23 *)
Definition record_type_known (t : N) : bool :=
  (N.eqb t 20 || N.eqb t 21 || N.eqb t 22 || N.eqb t 23)%bool.

(* the scan   *record_type = 0; while (mlen--) { if (out[mlen] != 0) { *record_type = out[mlen]; break; } }
   over a reversed buffer.  Returns (type, Some remaining_mlen) or (0, None) when the
   loop runs off the beginning: mlen is then (size_t)-1. *)
Fixpoint scan_rev (r : list N) : N * option nat :=
  match r with
  | [] => (0%N, None)
  | b :: r' => if N.eqb b 0 then scan_rev r' else (b, Some (length r'))
  end.

(* result of tls13_gcm_decrypt: success (type, content), or error together with the
   value the function left in *outlen (None = untouched). *)
Inductive dec13 :=
| Dec13Ok (rtype : N) (content : list N)
| Dec13Err (reported_outlen : option N).

Definition size_max : N := 0xFFFFFFFFFFFFFFFF.

Section Record13.
  Variable seal : list N -> list N -> list N -> list N.
  Variable open : list N -> list N -> list N -> list N -> option (list N).

  (* tls13_gcm_encrypt; precondition of the C code: padding_len <= 255
     (mbuf = malloc(inlen + 256)); outside it the model answers None *)
  Definition tls13_gcm_encrypt (iv seq : list N) (rtype : N) (inp : list N) (padding_len : nat)
    : option (list N) :=
    if 255 <? padding_len then None else
    let inner := inp ++ [w8 rtype] ++ zeros padding_len in
    let clen := length inner + 16 in
    Some (seal (nonce13 iv seq) (aad13 clen) inner).

  (* tls13_gcm_decrypt (as repaired by commit 196ee26): the scan
       while (mlen > 0) { mlen--; if (out[mlen] != 0) { *record_type = out[mlen]; break; } }
     cannot run below 0; on an unknown or absent inner type the function stores *outlen = 0 and
     returns -1; *outlen = mlen only on success. *)
  Definition tls13_gcm_decrypt (iv seq inp : list N) : dec13 :=
    let inlen := length inp in
    if inlen <? 16 then Dec13Err None else
    let mlen := inlen - 16 in
    match open (nonce13 iv seq) (aad13 inlen) (firstn mlen inp) (skipn mlen inp) with
    | None => Dec13Err None
    | Some out =>
      match scan_rev (rev out) with
      | (t, Some k) => if record_type_known t then Dec13Ok t (firstn k out) else Dec13Err (Some 0%N)
      | (_, None) => Dec13Err (Some 0%N)
      end
    end.

  (* the code before 196ee26 (DESIGN section 5 #21), kept only for the Example in
     Tls/Record13Proofs.v: `while (mlen--)` left mlen = (size_t)-1 and `*outlen = mlen` was
     executed before the type check *)
  Definition tls13_gcm_decrypt_before_196ee26 (iv seq inp : list N) : dec13 :=
    let inlen := length inp in
    if inlen <? 16 then Dec13Err None else
    let mlen := inlen - 16 in
    match open (nonce13 iv seq) (aad13 inlen) (firstn mlen inp) (skipn mlen inp) with
    | None => Dec13Err None
    | Some out =>
      match scan_rev (rev out) with
      | (t, Some k) =>
        if record_type_known t then Dec13Ok t (firstn k out) else Dec13Err (Some (N.of_nat k))
      | (_, None) => Dec13Err (Some size_max)
      end
    end.

  (* tls13_record_encrypt: record = type, version(2), length(2), fragment *)
  Definition tls13_record_encrypt (iv seq record : list N) (padding_len : nat) : option (list N) :=
    if length record <? 5 then None else
    match tls13_gcm_encrypt iv seq (nth 0 record 0%N) (skipn 5 record) padding_len with
    | None => None
    | Some o => Some ([23%N; 3%N; 3%N] ++ u16 (length o) ++ o)
    end.

  (* tls13_record_decrypt: the five header bytes of the protected record are not read;
     the AAD is rebuilt from enced_recordlen - 5 *)
  Definition tls13_record_decrypt (iv seq enced : list N) : dec13 :=
    if length enced <? 5 then Dec13Err None else
    tls13_gcm_decrypt iv seq (skipn 5 enced).
End Record13.

(* the record that tls13_record_decrypt writes on success *)
Definition record13_plain (t : N) (content : list N) : list N :=
  [t; 3%N; 3%N] ++ u16 (length content) ++ content.
