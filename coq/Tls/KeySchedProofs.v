(* Proofs about the key schedules (Tls/KeySched.v). *)
From Coq Require Import String Ascii.
From GmVerif Require Import Base.ListX Base.Bytes Hash.MD Hash.SM3 Hash.Hmac Hash.Instances
  Hash.C03Lemmas Tls.Record12 Tls.Record12Proofs Tls.Record13 Tls.RecordInst Tls.RecordInstProofs
  Tls.KeySched.
From Coq Require Import ZifyN ZifyNat ZifyBool.
Ltac Zify.zify_post_hook ::= Z.div_mod_to_equations.
Local Open Scope nat_scope.

(* ---------- the label constants are the ASCII strings of the C source ---------- *)
Definition str (s : string) : list N := map N_of_ascii (list_ascii_of_string s).
Example labels_ok :
  str "master secret" = L_master_secret /\ str "key expansion" = L_key_expansion /\
  str "client finished" = L_client_finished /\ str "server finished" = L_server_finished /\
  str "tls13 " = L_tls13 /\ str "derived" = L_derived /\
  str "c hs traffic" = L_c_hs_traffic /\ str "s hs traffic" = L_s_hs_traffic /\
  str "c ap traffic" = L_c_ap_traffic /\ str "s ap traffic" = L_s_ap_traffic /\
  str "key" = L_key /\ str "iv" = L_iv /\ str "finished" = L_finished /\
  str "TLS 1.3, server CertificateVerify" = L_cv13_server /\ str "TLS 1.3, client CertificateVerify" = L_cv13_client.
Proof. repeat split; reflexivity. Qed.

(* ---------- tls_prf = P_hash of RFC 5246 section 5 (with HMAC-SM3) ---------- *)
Lemma hmac_len k m : length (sm3_hmac_spec k m) = 32.
Proof. apply sm3_len. Qed.

Lemma firstn_app_32 (h r : list N) n : length h = 32 ->
  firstn n (h ++ r) = firstn (Nat.min n 32) h ++ firstn (n - Nat.min n 32) r.
Proof.
  intros Hl. rewrite firstn_app, Hl.
  destruct (Nat.le_gt_cases n 32) as [Hle|Hgt].
  - replace (Nat.min n 32) with n by lia. replace (n - 32) with 0 by lia. replace (n - n) with 0 by lia. reflexivity.
  - replace (Nat.min n 32) with 32 by lia. rewrite (firstn_all2 h) by lia. rewrite (firstn_all2 (n:=32) h) by lia. reflexivity.
Qed.

Lemma prf_loop_spec fuel secret A label seed more rem : rem <= fuel ->
  prf_loop fuel secret A [label; seed; more] rem =
  firstn rem (p_hash ((rem + 31) / 32) secret A (label ++ seed ++ more)).
Proof.
  revert A rem; induction fuel as [|f IH]; intros A rem Hr.
  - replace rem with 0 by lia. reflexivity.
  - cbn [prf_loop]. destruct (rem =? 0) eqn:E0.
    + apply Nat.eqb_eq in E0. subst rem. reflexivity.
    + apply Nat.eqb_neq in E0.
      replace ((rem + 31) / 32) with (S ((rem - Nat.min rem 32 + 31) / 32)) by lia.
      cbn [p_hash].
      rewrite !sm3_hmac_stream. cbn [concat]. rewrite !app_nil_r.
      rewrite firstn_app_32 by apply hmac_len.
      rewrite IH by lia. reflexivity.
Qed.

Theorem tls_prf_eq_spec secret label seed more outlen r :
  tls_prf secret label seed more outlen = Some r ->
  r = prf_spec secret label (seed ++ more) outlen.
Proof.
  unfold tls_prf, prf_spec.
  destruct secret as [|s0 secret']; [discriminate|]. destruct seed as [|d0 seed']; [discriminate|].
  set (secret := s0 :: secret'). set (seed := d0 :: seed').
  destruct (outlen =? 0) eqn:E0; [discriminate|]. apply Nat.eqb_neq in E0.
  intros [= <-].
  rewrite prf_loop_spec by lia.
  replace ((outlen + 31) / 32) with (S ((outlen - Nat.min outlen 32 + 31) / 32)) by lia.
  cbn [p_hash]. rewrite !sm3_hmac_stream. cbn [concat]. rewrite !app_nil_r.
  rewrite firstn_app_32 by apply hmac_len. reflexivity.
Qed.

(* the PRF fails only on the argument checks of the C code *)
Theorem tls_prf_total secret label seed more outlen :
  secret <> [] -> seed <> [] -> outlen <> 0 -> exists r, tls_prf secret label seed more outlen = Some r /\ length r = outlen.
Proof.
  intros Hs Hd Ho. unfold tls_prf.
  destruct secret as [|s0 s']; [congruence|]. destruct seed as [|d0 d']; [congruence|].
  destruct (outlen =? 0) eqn:E0; [apply Nat.eqb_eq in E0; congruence|].
  eexists; split; [reflexivity|].
  rewrite prf_loop_spec by lia. rewrite app_length, !firstn_length, sm3_hmac_stream, hmac_len.
  assert (Hp : forall k s A sd, length (p_hash k s A sd) = 32 * k).
  { induction k; intros; cbn [p_hash]; [reflexivity|]. rewrite app_length, hmac_len, IHk. lia. }
  rewrite Hp. lia.
Qed.

(* ---------- both endpoints install matching keys ---------- *)
Theorem keys12_agree pms cr sr :
  let '(cwm, cwk, crm, crk) := client_install12 pms cr sr in
  let '(swm, swk, srm, srk) := server_install12 pms cr sr in
  cwm = srm /\ cwk = srk /\ crm = swm /\ crk = swk.
Proof. cbv beta iota zeta delta [client_install12 server_install12]. repeat split. Qed.

Theorem keys13_agree ecdh_x ch_sh transcript :
  let '(cwk, cwi, crk, cri) := client_install13 ecdh_x ch_sh transcript in
  let '(swk, swi, srk, sri) := server_install13 ecdh_x ch_sh transcript in
  cwk = srk /\ cwi = sri /\ crk = swk /\ cri = swi.
Proof. cbv beta iota zeta delta [client_install13 server_install13]. repeat split. Qed.

(* ---------- end to end: what one side protects with the keys it derived, the other side
   unprotects with the keys it derived, at the same sequence number ---------- *)
Theorem tls12_client_to_server pms cr sr seq hdr payload iv :
  length hdr = 5 -> bytes_ok hdr = true -> hdr_len hdr = length payload ->
  (N.of_nat (length payload) <= 16384)%N ->
  bytes_ok payload = true -> length iv = 16 -> bytes_ok iv = true ->
  let '(cwm, cwk, _, _) := client_install12 pms cr sr in
  let '(_, _, srm, srk) := server_install12 pms cr sr in
  exists enc, record12_encrypt cwm cwk seq (hdr ++ payload) (Some iv) = Some enc /\
              record12_decrypt srm srk seq enc = Some (hdr ++ payload).
Proof.
  intros. cbv beta iota zeta delta [client_install12 server_install12]. cbn [cmac ckey smac skey].
  apply record12_round_trip; assumption.
Qed.

Theorem tls12_server_to_client pms cr sr seq hdr payload iv :
  length hdr = 5 -> bytes_ok hdr = true -> hdr_len hdr = length payload ->
  (N.of_nat (length payload) <= 16384)%N ->
  bytes_ok payload = true -> length iv = 16 -> bytes_ok iv = true ->
  let '(swm, swk, _, _) := server_install12 pms cr sr in
  let '(_, _, crm, crk) := client_install12 pms cr sr in
  exists enc, record12_encrypt swm swk seq (hdr ++ payload) (Some iv) = Some enc /\
              record12_decrypt crm crk seq enc = Some (hdr ++ payload).
Proof.
  intros. cbv beta iota zeta delta [client_install12 server_install12]. cbn [cmac ckey smac skey].
  apply record12_round_trip; assumption.
Qed.

Theorem tls13_client_to_server ecdh_x ch_sh transcript seq t v1 v2 l1 l2 inp pad :
  pad <= 255 -> record_type_known t = true ->
  let '(cwk, cwi, _, _) := client_install13 ecdh_x ch_sh transcript in
  let '(_, _, srk, sri) := server_install13 ecdh_x ch_sh transcript in
  exists enc, record13_encrypt cwk cwi seq ([t; v1; v2; l1; l2] ++ inp) pad = Some enc /\
              record13_decrypt srk sri seq enc = Dec13Ok t inp.
Proof.
  intros. cbv beta iota zeta delta [client_install13 server_install13].
  apply record13_round_trip_sm4; assumption.
Qed.

Theorem tls13_server_to_client ecdh_x ch_sh transcript seq t v1 v2 l1 l2 inp pad :
  pad <= 255 -> record_type_known t = true ->
  let '(swk, swi, _, _) := server_install13 ecdh_x ch_sh transcript in
  let '(_, _, crk, cri) := client_install13 ecdh_x ch_sh transcript in
  exists enc, record13_encrypt swk swi seq ([t; v1; v2; l1; l2] ++ inp) pad = Some enc /\
              record13_decrypt crk cri seq enc = Dec13Ok t inp.
Proof.
  intros. cbv beta iota zeta delta [client_install13 server_install13].
  apply record13_round_trip_sm4; assumption.
Qed.
