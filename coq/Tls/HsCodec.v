(* The handshake message layer of src/tls.c (and the key-exchange forms of src/tls12.c, src/tlcp.c):
   Impl models, mirroring the C control flow, of
     tls_record_set_handshake / tls_record_get_handshake
     tls_record_{set,get}_handshake_{client_hello, server_hello, certificate, certificate_request,
        server_hello_done, client_key_exchange_pke, certificate_verify, finished}
     tls_record_{set,get}_handshake_server_key_exchange_ecdhe, .._client_key_exchange_ecdhe   (tls12.c)
     tlcp_record_{set,get}_handshake_server_key_exchange_pke                                   (tlcp.c)
   and of the byte primitives tls_uintN_{to,from}_bytes, tls_uintNarray_{to,from}_bytes.

   A record is the list of its bytes: 5-byte record header (type, version hi, version lo, length hi, length
   lo) followed by the fragment.  The C functions take only a pointer: the number of bytes they may touch is
   what the header declares.  [rec_wf] states that contract (the buffer holds exactly 5 + declared bytes);
   tls_record_recv establishes it for received records.

   setters:  [SOk r] = returned 1 and produced record r;  [SErr] = returned -1;
             [SUnfinished] = returned 1 although the inner tls_record_set_handshake failed (its status is
             ignored by most setters): header and *recordlen were not written.
   getters:  [Some fields] = returned 1, [None] = returned -1.

   Two things are inputs of this model rather than modelled: [point_ok] (does sm2_z256_point_from_octets accept
   these 65 octets: C12) and [cert_ok] (does x509_cert_from_der accept exactly this byte string as one
   certificate: C15). *)
From GmVerif Require Import Base.ListX Base.Bytes Tls.Record12.
Local Open Scope nat_scope.

(* ---------------- encoders (tls_uintN_to_bytes, tls_uintNarray_to_bytes) ---------------- *)
Definition e8 (n : nat) : list N := [N.of_nat (n mod 256)].
Definition e16 (n : nat) : list N := u16 n.
Definition e24 (n : nat) : list N := [N.of_nat (n / 256 / 256 mod 256); N.of_nat (n / 256 mod 256); N.of_nat (n mod 256)].
Definition e16N (x : N) : list N := [(x / 256) mod 256; x mod 256]%N.
Definition arr8 (d : list N) : list N := e8 (length d) ++ d.
Definition arr16 (d : list N) : list N := e16 (length d) ++ d.
Definition arr24 (d : list N) : list N := e24 (length d) ++ d.

(* ---------------- decoders (tls_uintN_from_bytes, tls_array_from_bytes, tls_uintNarray_from_bytes) -------
   decoded integers stay in N (a 24-bit length may be 16 million: never a nat) *)
Definition d8 (l : list N) : option (N * list N) :=
  match l with b :: r => Some (b, r) | _ => None end.
Definition d16 (l : list N) : option (N * list N) :=
  match l with a :: b :: r => Some ((a * 256 + b)%N, r) | _ => None end.
Definition d24 (l : list N) : option (N * list N) :=
  match l with a :: b :: c :: r => Some (((a * 256 + b) * 256 + c)%N, r) | _ => None end.
Definition darr (n : N) (l : list N) : option (list N * list N) :=
  if (N.of_nat (length l) <? n)%N then None else Some (firstn (N.to_nat n) l, skipn (N.to_nat n) l).
Definition darr8 (l : list N) : option (list N * list N) :=
  match d8 l with Some (n, r) => darr n r | None => None end.
Definition darr16 (l : list N) : option (list N * list N) :=
  match d16 l with Some (n, r) => darr n r | None => None end.
Definition darr24 (l : list N) : option (list N * list N) :=
  match d24 l with Some (n, r) => darr n r | None => None end.

(* ---------------- name tables of src/tls_trace.c ---------------- *)
Definition memN (x : N) (l : list N) : bool := existsb (N.eqb x) l.
Definition protocols : list N := [0x0101; 0x0200; 0x0300; 0x0301; 0x0302; 0x0303; 0x0304; 0xfeff; 0xfefd]%N.
Definition protocol_known (v : N) : bool := memN v protocols.
Definition cipher_suites_known : list N :=
  [0x0000; 0x00c6; 0x00c7; 0xe011; 0xe051; 0xe013; 0xe053; 0xe015; 0xe055; 0xe017; 0xe057; 0xe019; 0xe059;
   0xe01c; 0xe05a; 0x1301; 0x1302; 0x1303; 0x1304; 0x1305; 0x00ff]%N.
Definition cipher_known (c : N) : bool := memN c cipher_suites_known.
Definition handshake_types : list N :=
  [0; 1; 2; 3; 4; 5; 6; 8; 11; 12; 13; 14; 15; 16; 20; 21; 22; 23; 24; 25; 26; 254]%N.
Definition hs_type_known (t : N) : bool := memN t handshake_types.
Definition cert_types_known : list N := [1; 2; 3; 4; 5; 6; 20; 64; 65; 66; 67; 68; 80]%N.
Definition cert_type_known (t : N) : bool := memN t cert_types_known.
Definition curves_known : list N := [22; 23; 24; 25; 26; 27; 28; 29; 30; 31; 32; 33; 41]%N.
Definition curve_known (c : N) : bool := memN c curves_known.

Definition TLS_protocol_tlcp : N := 0x0101.
Definition TLS_protocol_tls12 : N := 0x0303.
Definition max_hs_data : nat := N.to_nat 16380.        (* TLS_MAX_HANDSHAKE_DATA_SIZE = 2^14 - 4 *)
Definition max_plaintext : nat := N.to_nat 16384.
Definition max_certs : nat := N.to_nat 2048.           (* TLS_MAX_CERTIFICATES_SIZE *)
Definition max_sig : nat := 72.                        (* TLS_MAX_SIGNATURE_SIZE = SM2_MAX_SIGNATURE_SIZE *)
Definition max_ca_names : nat := N.to_nat 16377.       (* TLS_MAX_CA_NAMES_SIZE *)

(* ---------------- record header accessors ---------------- *)
Definition rec_type (r : list N) : N := nth 0 r 0%N.
Definition rec_version (r : list N) : N := (nth 1 r 0 * 256 + nth 2 r 0)%N.
Definition rec_len (r : list N) : nat := N.to_nat (nth 3 r 0%N) * 256 + N.to_nat (nth 4 r 0%N).
Definition rec_wf (r : list N) : Prop := length r = 5 + rec_len r.
Definition rec_wfb (r : list N) : bool := length r =? 5 + rec_len r.
(* the fragment the header declares *)
Definition rec_data (r : list N) : list N := firstn (rec_len r) (skipn 5 r).

Inductive sres := SOk (r : list N) | SErr | SUnfinished.

(* ---------------- tls_record_set_handshake ----------------
   rv = the protocol version already present in record[1..2]; data = the handshake body *)
Definition set_handshake (rv : N) (type : N) (data : list N) : option (list N) :=
  if max_hs_data <? length data then None
  else if negb (protocol_known rv) then None
  else if negb (hs_type_known type) then None
  else Some ([22%N] ++ e16N rv ++ e16 (4 + length data) ++ [type mod 256]%N ++ e24 (length data) ++ data).

(* setters that check the result of tls_record_set_handshake / setters that ignore it *)
Definition checked (o : option (list N)) : sres := match o with Some r => SOk r | None => SErr end.
Definition unchecked (o : option (list N)) : sres := match o with Some r => SOk r | None => SUnfinished end.

(* ---------------- tls_record_get_handshake: (type, body) ---------------- *)
Definition get_handshake (r : list N) : option (N * list N) :=
  if negb (protocol_known (rec_version r)) then None
  else if negb (N.eqb (rec_type r) 22) then None
  else
    let hl := rec_len r in
    let h := rec_data r in
    if hl <? 4 then None
    else if max_plaintext <? hl then None
    else
      let t := nth 0 h 0%N in
      if negb (hs_type_known t) then None
      else
        match d24 (skipn 1 h) with
        | Some (dl, body) => if N.eqb (N.of_nat (hl - 4)) dl then Some (t, body) else None
        | None => None
        end.

(* ---------------- ClientHello ---------------- *)
Definition set_client_hello (rv protocol : N) (random sid : list N) (ciphers : list N) (exts : option (list N)) : sres :=
  match ciphers with [] => SErr | _ =>
  if (match sid with [] => false | _ => negb (length sid =? 32) end) then SErr
  else if 64 <? length ciphers then SErr
  else if (match exts with Some [] => true | _ => false end) then SErr
  else if negb (protocol_known protocol) then SErr
  else if negb (forallb cipher_known ciphers) then SErr
  else
    let body0 := e16N protocol ++ random ++ arr8 sid ++ e16 (2 * length ciphers) ++ flat_map e16N ciphers ++ [1%N; 0%N] in
    match exts with
    | Some x =>
      if (protocol <? TLS_protocol_tls12)%N then SErr
      else if max_hs_data <? length body0 + 2 + length x then SErr
      else checked (set_handshake rv 1 (body0 ++ arr16 x))
    | None => checked (set_handshake rv 1 body0)
    end
  end.

(* result: protocol, random, session id, cipher suites (raw bytes), extensions *)
Definition parse_client_hello (rv t : N) (p : list N) : option (N * list N * list N * list N * option (list N)) :=
    if negb (N.eqb t 1) then None else
    match d16 p with Some (ver, p1) =>
    match darr 32%N p1 with Some (random, p2) =>
    match darr8 p2 with Some (sid, p3) =>
    match darr16 p3 with Some (cs, p4) =>
    match darr8 p4 with Some (comp, p5) =>
      if negb (protocol_known ver) then None
      else if 32 <? length sid then None
      else if negb (length cs mod 2 =? 0) then None
      else match p5 with
           | [] => Some (ver, random, sid, cs, None)
           | _ => match darr16 p5 with
                  | Some (x, p6) =>
                    match x with [] => None | _ =>
                    match p6 with [] => Some (ver, random, sid, cs, Some x) | _ => None end end
                  | None => None
                  end
           end
    | None => None end | None => None end | None => None end | None => None end | None => None end.
Definition get_client_hello (r : list N) : option (N * list N * list N * list N * option (list N)) :=
  match get_handshake r with Some (t, p) => parse_client_hello (rec_version r) t p | None => None end.

(* ---------------- ServerHello ---------------- *)
Definition set_server_hello (rv protocol : N) (random sid : list N) (cipher : N) (exts : option (list N)) : sres :=
  if (match sid with [] => false | _ => 32 <? length sid end) then SErr
  else if negb (protocol_known protocol) then SErr
  else if negb (cipher_known cipher) then SErr
  else
    let body0 := e16N protocol ++ random ++ arr8 sid ++ e16N cipher ++ [0%N] in
    match exts with
    | Some x => if (protocol <? TLS_protocol_tls12)%N then SErr else checked (set_handshake rv 2 (body0 ++ arr16 x))
    | None => checked (set_handshake rv 2 body0)
    end.

Definition parse_server_hello (rv t : N) (p : list N) : option (N * list N * list N * N * option (list N)) :=
    if negb (N.eqb t 2) then None else
    match d16 p with Some (ver, p1) =>
    match darr 32%N p1 with Some (random, p2) =>
    match darr8 p2 with Some (sid, p3) =>
    match d16 p3 with Some (cipher, p4) =>
    match d8 p4 with Some (comp, p5) =>
      if negb (protocol_known ver) then None
      else if (ver <? rv)%N then None
      else if 32 <? length sid then None
      else if negb (cipher_known cipher) then None
      else if negb (N.eqb comp 0) then None
      else match p5 with
           | [] => Some (ver, random, sid, cipher, None)
           | _ => match darr16 p5 with
                  | Some (x, p6) =>
                    match x with [] => None | _ =>
                    match p6 with [] => Some (ver, random, sid, cipher, Some x) | _ => None end end
                  | None => None
                  end
           end
    | None => None end | None => None end | None => None end | None => None end | None => None end.
Definition get_server_hello (r : list N) : option (N * list N * list N * N * option (list N)) :=
  match get_handshake r with Some (t, p) => parse_server_hello (rec_version r) t p | None => None end.

(* ---------------- Certificate ---------------- *)
Section Cert.
  Variable cert_ok : list N -> bool.

  (* the loop of tls_record_set_handshake_certificate over the certificates of the chain *)
  Fixpoint cert_entries (certs : list (list N)) (datalen : nat) : option (list N) :=
    match certs with
    | [] => Some []
    | c :: r =>
      if negb (cert_ok c) then None
      else if max_hs_data <? datalen + 3 + length c then None
      else match cert_entries r (datalen + 3 + length c) with
           | Some e => Some (arr24 c ++ e)
           | None => None
           end
    end.
  Definition set_certificate (rv : N) (certs : list (list N)) : sres :=
    match certs with
    | [] => SErr
    | _ => match cert_entries certs 3 with
           | Some e => unchecked (set_handshake rv 11 (arr24 e))
           | None => SErr
           end
    end.

  (* the loop of tls_record_get_handshake_certificate: entries of the list, capacity of the caller's buffer *)
  Fixpoint get_cert_entries (fuel : nat) (l : list N) (total : nat) : option (list (list N)) :=
    match l with
    | [] => Some []
    | _ =>
      match fuel with
      | O => None
      | S f =>
        match darr24 l with
        | Some (a, rest) =>
          if negb (cert_ok a) then None
          else if max_certs <? total + length a then None
          else match get_cert_entries f rest (total + length a) with
               | Some cs => Some (a :: cs)
               | None => None
               end
        | None => None
        end
      end
    end.
  Definition parse_certificate (rv t : N) (p : list N) : option (list (list N)) :=
      if negb (N.eqb t 11) then None else
      match darr24 p with
      | Some (l, _) => get_cert_entries (length l) l 0      (* bytes after the list are not looked at *)
      | None => None
      end.
  Definition get_certificate (r : list N) : option (list (list N)) :=
    match get_handshake r with Some (t, p) => parse_certificate (rec_version r) t p | None => None end.
End Cert.

(* ---------------- ServerKeyExchange (ECDHE, TLS 1.2) ---------------- *)
Section Point.
  Variable point_ok : list N -> bool.

  (* point = the 65 octets sm2_z256_point_to_uncompressed_octets writes *)
  Definition set_ske_ecdhe (rv curve : N) (point sig : list N) : sres :=
    if negb (curve_known curve) then SErr
    else match sig with [] => SErr | _ =>
      if max_sig <? length sig then SErr
      else unchecked (set_handshake rv 12 ([3%N] ++ e16N curve ++ [65%N] ++ point ++ e16N 0x0708 ++ arr16 sig))
    end.
  (* result: curve, point octets, signature *)
  Definition parse_ske_ecdhe (rv t : N) (p : list N) : option (N * list N * list N) :=
      if negb (N.eqb t 12) then None else
      match d8 p with Some (ctype, p1) =>
      match d16 p1 with Some (curve, p2) =>
      match darr8 p2 with Some (oct, p3) =>
      match d16 p3 with Some (alg, p4) =>
      match darr16 p4 with Some (sg, p5) =>
        match p5 with _ :: _ => None | [] =>
        if negb (N.eqb ctype 3) then None
        else if negb (N.eqb curve 41) then None
        else if negb (length oct =? 65) then None
        else if negb (point_ok oct) then None
        else if negb (N.eqb alg 0x0708) then None       (* TLS_sig_sm2sig_sm3 *)
        else Some (41%N, oct, sg)
        end
      | None => None end | None => None end | None => None end | None => None end | None => None end.
  Definition get_ske_ecdhe (r : list N) : option (N * list N * list N) :=
    match get_handshake r with Some (t, p) => parse_ske_ecdhe (rec_version r) t p | None => None end.

  (* ---------------- ClientKeyExchange (ECDHE) ---------------- *)
  Definition set_cke_ecdhe (rv : N) (point : list N) : sres :=
    unchecked (set_handshake rv 16 ([65%N] ++ point)).
  Definition parse_cke_ecdhe (rv t : N) (p : list N) : option (list N) :=
      if negb (N.eqb t 16) then None else
      match darr8 p with
      | Some (oct, p1) =>
        match p1 with _ :: _ => None | [] =>
        if negb (length oct =? 65) then None else if negb (point_ok oct) then None else Some oct end
      | None => None
      end.
  Definition get_cke_ecdhe (r : list N) : option (list N) :=
    match get_handshake r with Some (t, p) => parse_cke_ecdhe (rec_version r) t p | None => None end.
End Point.

(* ---------------- ServerKeyExchange (TLCP, signature only) ---------------- *)
Definition set_ske_pke (rv : N) (sig : list N) : sres :=
  match sig with [] => SErr | _ =>
  if max_sig <? length sig then SErr
  else if negb (N.eqb rv TLS_protocol_tlcp) then SErr
  else unchecked (set_handshake rv 12 (arr16 sig))
  end.
Definition parse_ske_pke (rv t : N) (p : list N) : option (list N) :=
    if negb (N.eqb t 12) then None
    else if negb (N.eqb (rv) TLS_protocol_tlcp) then None
    else match darr16 p with Some (sg, []) => Some sg | _ => None end.
Definition get_ske_pke (r : list N) : option (list N) :=
  match get_handshake r with Some (t, p) => parse_ske_pke (rec_version r) t p | None => None end.

(* ---------------- CertificateRequest ---------------- *)
(* ca_names is a sequence of uint16-prefixed names *)
Fixpoint names_wf (fuel : nat) (l : list N) : bool :=
  match l with
  | [] => true
  | _ => match fuel with
         | O => false
         | S f => match darr16 l with Some (_, rest) => names_wf f rest | None => false end
         end
  end.
Definition set_certificate_request (rv : N) (cert_types ca_names : list N) : sres :=
  if 256 <? length cert_types then SErr
  else if max_ca_names <? length ca_names then SErr
  else if max_hs_data <? 1 + length cert_types + 2 + length ca_names then SErr
  else unchecked (set_handshake rv 13 (arr8 cert_types ++ arr16 ca_names)).
Definition parse_certificate_request (rv t : N) (p : list N) : option (list N * list N) :=
    if negb (N.eqb t 13) then None else
    match darr8 p with Some (types, p1) =>
    match darr16 p1 with Some (names, p2) =>
      match p2 with _ :: _ => None | [] =>
      match types with [] => None | _ =>
      if negb (forallb cert_type_known types) then None
      else if negb (names_wf (length names) names) then None
      else Some (types, names)
      end end
    | None => None end | None => None end.
Definition get_certificate_request (r : list N) : option (list N * list N) :=
  match get_handshake r with Some (t, p) => parse_certificate_request (rec_version r) t p | None => None end.

(* ---------------- ServerHelloDone ---------------- *)
Definition set_server_hello_done (rv : N) : sres := unchecked (set_handshake rv 14 []).
Definition parse_server_hello_done (rv t : N) (p : list N) : option unit :=
  if negb (N.eqb t 14) then None else match p with [] => Some tt | _ => None end.
Definition get_server_hello_done (r : list N) : option unit :=
  match get_handshake r with Some (t, p) => parse_server_hello_done (rec_version r) t p | None => None end.

(* ---------------- ClientKeyExchange (PKE: SM2 ciphertext of the pre-master secret) ---------------- *)
Definition set_cke_pke (rv : N) (enced : list N) : sres :=
  match enced with [] => SErr | _ =>
  if max_hs_data - 2 <? length enced then SErr else unchecked (set_handshake rv 16 (arr16 enced)) end.
Definition parse_cke_pke (rv t : N) (p : list N) : option (list N) :=
  if negb (N.eqb t 16) then None else match darr16 p with Some (e, []) => Some e | _ => None end.
Definition get_cke_pke (r : list N) : option (list N) :=
  match get_handshake r with Some (t, p) => parse_cke_pke (rec_version r) t p | None => None end.

(* ---------------- CertificateVerify ---------------- *)
Definition set_certificate_verify (rv : N) (sig : list N) : sres :=
  match sig with [] => SErr | _ =>
  if max_sig <? length sig then SErr else unchecked (set_handshake rv 15 (arr16 sig)) end.
Definition parse_certificate_verify (rv t : N) (p : list N) : option (list N) :=
  if negb (N.eqb t 15) then None else match darr16 p with Some (s, []) => Some s | _ => None end.
Definition get_certificate_verify (r : list N) : option (list N) :=
  match get_handshake r with Some (t, p) => parse_certificate_verify (rec_version r) t p | None => None end.

(* ---------------- Finished ---------------- *)
Definition set_finished (rv : N) (vd : list N) : sres :=
  if negb ((length vd =? 12) || (length vd =? 32)) then SErr else unchecked (set_handshake rv 20 vd).
Definition parse_finished (rv t : N) (p : list N) : option (list N) :=
    if negb (N.eqb t 20) then None
    else if negb ((length p =? 12) || (length p =? 32)) then None else Some p.
Definition get_finished (r : list N) : option (list N) :=
  match get_handshake r with Some (t, p) => parse_finished (rec_version r) t p | None => None end.

(* ---------------- (pointer, length) arguments ----------------
   [None] = NULL pointer, [Some l] = non-NULL pointer to the bytes l.  For session_id, cert_types, ca_names (as for
   exts above) the setters refuse a non-NULL pointer with length 0; NULL means "absent" and is encoded as the
   empty vector.  The functions above take the list; these are the entry points as C has them. *)
Definition nonnull_empty (o : option (list N)) : bool := match o with Some [] => true | _ => false end.
Definition optl (o : option (list N)) : list N := match o with Some l => l | None => [] end.
Definition set_client_hello_c (rv protocol : N) (random : list N) (sid : option (list N)) (ciphers : list N)
  (exts : option (list N)) : sres :=
  if nonnull_empty sid then SErr else set_client_hello rv protocol random (optl sid) ciphers exts.
Definition set_server_hello_c (rv protocol : N) (random : list N) (sid : option (list N)) (cipher : N)
  (exts : option (list N)) : sres :=
  if nonnull_empty sid then SErr else set_server_hello rv protocol random (optl sid) cipher exts.
Definition set_certificate_request_c (rv : N) (cert_types ca_names : option (list N)) : sres :=
  if nonnull_empty cert_types || nonnull_empty ca_names then SErr
  else set_certificate_request rv (optl cert_types) (optl ca_names).

(* the handshake message (what the drivers hash into the transcript): record + 5, recordlen - 5 *)
Definition hs_message (r : list N) : list N := skipn 5 r.
