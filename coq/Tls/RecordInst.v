(* Concrete instances of the record models: SM4 (Cipher/SM4.v) in CBC with SM3-HMAC
   (Hash/Instances.v) for TLCP / TLS 1.2, SM4-GCM (Tls/Gcm13.v) for TLS 1.3.
   The round keys are computed once per call (as SM4_KEY holds them in C). *)
From GmVerif Require Import Base.ListX Base.Bytes Hash.MD Hash.SM3 Hash.Hmac Hash.Instances
  Cipher.SM4 Tls.Record12 Tls.Record13 Tls.Gcm13.

Definition sm4_E (key : list N) : list N -> list N := sm4_crypt_block (sm4_key_schedule key).
Definition sm4_D (key : list N) : list N -> list N := sm4_crypt_block (rev (sm4_key_schedule key)).

(* the copied, initialised SM3_HMAC_CTX followed by sm3_hmac_update calls and finish *)
Definition hmac_chunks (mackey : list N) (chunks : list (list N)) : list N := sm3_hmac mackey chunks.

Definition cbc12_encrypt (mackey enckey : list N) :=
  tls_cbc_encrypt (sm4_E enckey) (hmac_chunks mackey).
Definition cbc12_decrypt (mackey enckey : list N) :=
  tls_cbc_decrypt (sm4_D enckey) (hmac_chunks mackey).
Definition record12_encrypt (mackey enckey : list N) :=
  tls_record_encrypt (sm4_E enckey) (hmac_chunks mackey).
Definition record12_decrypt (mackey enckey : list N) :=
  tls_record_decrypt (sm4_D enckey) (hmac_chunks mackey).

Definition cbc12_seal_raw (enckey : list N) := cbc_seal_raw (sm4_E enckey).

Definition sm4_gcm_seal (key : list N) := gcm_seal (sm4_E key).
Definition sm4_gcm_open (key : list N) := gcm_open (sm4_E key).

Definition gcm13_encrypt (key : list N) := tls13_gcm_encrypt (sm4_gcm_seal key).
Definition gcm13_decrypt (key : list N) := tls13_gcm_decrypt (sm4_gcm_open key).
Definition record13_encrypt (key : list N) := tls13_record_encrypt (sm4_gcm_seal key).
Definition record13_decrypt (key : list N) := tls13_record_decrypt (sm4_gcm_open key).

(* RFC 8998 appendix A.1 (SM4-GCM) *)
Local Open Scope N_scope.
Definition rep (b : N) (n : nat) : list N := repeat b n.
Example sm4_gcm_rfc8998 :
  sm4_gcm_seal sm4_tv_key
    [0x00;0x00;0x12;0x34;0x56;0x78;0x00;0x00;0x00;0x00;0xAB;0xCD]
    [0xFE;0xED;0xFA;0xCE;0xDE;0xAD;0xBE;0xEF;0xFE;0xED;0xFA;0xCE;0xDE;0xAD;0xBE;0xEF;0xAB;0xAD;0xDA;0xD2]
    (rep 0xAA 8 ++ rep 0xBB 8 ++ rep 0xCC 8 ++ rep 0xDD 8 ++ rep 0xEE 8 ++ rep 0xFF 8 ++ rep 0xEE 8 ++ rep 0xAA 8)
  = [0x17;0xF3;0x99;0xF0;0x8C;0x67;0xD5;0xEE;0x19;0xD0;0xDC;0x99;0x69;0xC4;0xBB;0x7D;
     0x5F;0xD4;0x6F;0xD3;0x75;0x64;0x89;0x06;0x91;0x57;0xB2;0x82;0xBB;0x20;0x07;0x35;
     0xD8;0x27;0x10;0xCA;0x5C;0x22;0xF0;0xCC;0xFA;0x7C;0xBF;0x93;0xD4;0x96;0xAC;0x15;
     0xA5;0x68;0x34;0xCB;0xCF;0x98;0xC3;0x97;0xB4;0x02;0x4A;0x26;0x91;0x23;0x3B;0x8D;
     0x83;0xDE;0x35;0x41;0xE4;0xC2;0xB5;0x81;0x77;0xE0;0x65;0xA9;0xBF;0x7B;0x62;0xEC].
Proof. vm_compute. reflexivity. Qed.
