(* The passive observers of Tls/KeySched.v instantiated with the concrete record models. *)
From GmVerif Require Import Base.ListX Base.Bytes Cipher.SM4 Tls.Record12 Tls.Record13 Tls.Gcm13
  Tls.RecordInst Tls.KeySched.

Definition observe12_sm4 := observe12 record12_decrypt.

Definition unprotect13 (key iv seq rec : list N) : option (N * list N) :=
  match record13_decrypt key iv seq rec with
  | Dec13Ok t c => Some (t, c)
  | Dec13Err _ => None
  end.
Definition observe13_sm4 := observe13 unprotect13.
Definition observe13_msgs_sm4 := observe13_msgs unprotect13.

(* SM4_KEY.rk as 32 big-endian words, for comparison with the installed keys *)
Definition sm4_rk_bytes (key : list N) : list N := flat_map be32 (sm4_key_schedule key).
