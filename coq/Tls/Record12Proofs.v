(* Proofs about the TLCP / TLS 1.2 record model (Tls/Record12.v). *)
From GmVerif Require Import Base.ListX Base.Bytes Tls.Record12.
From Coq Require Import ZifyN ZifyNat ZifyBool.
Ltac Zify.zify_post_hook ::= Z.div_mod_to_equations.
Local Open Scope nat_scope.

(* ---------- byte strings ---------- *)
Lemma bytes_eqb_refl a : bytes_eqb a a = true.
Proof. induction a as [|x a IH]; cbn [bytes_eqb]; [reflexivity|]. rewrite N.eqb_refl, IH. reflexivity. Qed.

Lemma bytes_eqb_eq a b : bytes_eqb a b = true <-> a = b.
Proof.
  split; [|intros ->; apply bytes_eqb_refl].
  revert b; induction a as [|x a IH]; intros [|y b]; cbn [bytes_eqb]; try discriminate; [reflexivity|].
  intros H. apply andb_true_iff in H as [H1 H2]. apply N.eqb_eq in H1. f_equal; auto.
Qed.

Lemma bytes_ok_app a b : bytes_ok (a ++ b) = bytes_ok a && bytes_ok b.
Proof. apply forallb_app. Qed.

Lemma In_firstn' {A} n (l : list A) x : In x (firstn n l) -> In x l.
Proof. revert l; induction n; intros [|y l]; cbn [firstn]; auto; try contradiction. intros [H|H]; [left|right]; auto. Qed.
Lemma bytes_ok_firstn n l : bytes_ok l = true -> bytes_ok (firstn n l) = true.
Proof.
  unfold bytes_ok. rewrite !forallb_forall. intros H x Hx. apply H. eapply In_firstn'; eauto.
Qed.
Lemma In_skipn {A} n (l : list A) x : In x (skipn n l) -> In x l.
Proof. revert l; induction n; intros [|y l]; cbn [skipn]; auto. intros H; right; auto. Qed.
Lemma bytes_ok_skipn n l : bytes_ok l = true -> bytes_ok (skipn n l) = true.
Proof.
  unfold bytes_ok. rewrite !forallb_forall. intros H x Hx. apply H. eapply In_skipn; eauto.
Qed.
Lemma bytes_ok_repeat b n : (b < 256)%N -> bytes_ok (repeat b n) = true.
Proof.
  intros H. apply N.ltb_lt in H. unfold bytes_ok.
  induction n; cbn [repeat forallb]; [reflexivity|]. rewrite IHn, H. reflexivity.
Qed.

Lemma xor_bytes_length a b : length a = length b -> length (xor_bytes a b) = length a.
Proof. intros H. unfold xor_bytes. rewrite map_length, combine_length. lia. Qed.

Lemma xor_bytes_invol a b : length a = length b -> xor_bytes (xor_bytes a b) b = a.
Proof.
  revert b; induction a as [|x a IH]; intros [|y b] H; cbn in H; try discriminate; [reflexivity|].
  unfold xor_bytes in *. cbn [combine map fst snd]. f_equal.
  - rewrite N.lxor_assoc, N.lxor_nilpotent, N.lxor_0_r. reflexivity.
  - apply IH. lia.
Qed.

Lemma lxor_lt256 x y : (x < 256 -> y < 256 -> N.lxor x y < 256)%N.
Proof.
  intros Hx Hy.
  destruct (N.eq_dec (N.lxor x y) 0) as [->|Hz]; [reflexivity|].
  apply N.log2_lt_pow2 with (b := 8%N); [lia|].
  eapply N.le_lt_trans; [apply N.log2_lxor|].
  apply N.max_lub_lt.
  - destruct (N.eq_dec x 0) as [->|]; [cbn; lia|]. apply N.log2_lt_pow2; lia.
  - destruct (N.eq_dec y 0) as [->|]; [cbn; lia|]. apply N.log2_lt_pow2; lia.
Qed.

Lemma xor_bytes_ok a b : bytes_ok a = true -> bytes_ok b = true -> bytes_ok (xor_bytes a b) = true.
Proof.
  revert b; induction a as [|x a IH]; intros [|y b] Ha Hb; try reflexivity.
  unfold xor_bytes, bytes_ok in *. cbn [combine map forallb fst snd] in *.
  apply andb_true_iff in Ha as [Hx Ha]. apply andb_true_iff in Hb as [Hy Hb].
  apply andb_true_iff; split.
  - apply N.ltb_lt. apply lxor_lt256; apply N.ltb_lt; assumption.
  - apply IH; assumption.
Qed.

Lemma firstn_app_exact {A} n (a b : list A) : length a = n -> firstn n (a ++ b) = a.
Proof. intros <-. rewrite firstn_app, Nat.sub_diag, firstn_O, app_nil_r, firstn_all. reflexivity. Qed.
Lemma skipn_app_exact {A} n (a b : list A) : length a = n -> skipn n (a ++ b) = b.
Proof. intros <-. rewrite skipn_app, Nat.sub_diag, skipn_all. reflexivity. Qed.

Section P.
  Variable E D : list N -> list N.
  Variable mac : list (list N) -> list N.

  (* ---------- CBC ---------- *)
  Hypothesis E_len : forall b, length (E b) = 16.
  Hypothesis E_ok : forall b, bytes_ok (E b) = true.
  Hypothesis DE : forall b, length b = 16 -> bytes_ok b = true -> D (E b) = b.

  Lemma cbc_enc_length n iv inp : length (fst (cbc_enc_blocks E n iv inp)) = 16 * n.
  Proof.
    revert iv inp; induction n as [|n IH]; intros iv inp; cbn [cbc_enc_blocks]; [reflexivity|].
    specialize (IH (E (xor_bytes (firstn 16 inp) iv)) (skipn 16 inp)).
    destruct (cbc_enc_blocks E n _ _) as [o iv'] eqn:Eq. cbn [fst] in *.
    rewrite app_length, E_len, IH. lia.
  Qed.

  Lemma cbc_enc_ok n iv inp : bytes_ok (fst (cbc_enc_blocks E n iv inp)) = true.
  Proof.
    revert iv inp; induction n as [|n IH]; intros iv inp; cbn [cbc_enc_blocks]; [reflexivity|].
    specialize (IH (E (xor_bytes (firstn 16 inp) iv)) (skipn 16 inp)).
    destruct (cbc_enc_blocks E n _ _) as [o iv'] eqn:Eq. cbn [fst] in *.
    rewrite bytes_ok_app, E_ok, IH. reflexivity.
  Qed.

  (* two consecutive calls with the chained iv = one call (the C code encrypts the whole
     blocks of the payload and then the 48-byte tail) *)
  Lemma cbc_enc_split a b iv inp :
    cbc_enc_blocks E (a + b) iv inp =
    let '(o1, iv1) := cbc_enc_blocks E a iv inp in
    let '(o2, iv2) := cbc_enc_blocks E b iv1 (skipn (16 * a) inp) in (o1 ++ o2, iv2).
  Proof.
    revert iv inp; induction a as [|a IH]; intros iv inp.
    - cbn [Nat.add cbc_enc_blocks Nat.mul skipn]. destruct (cbc_enc_blocks E b iv inp); reflexivity.
    - cbn [Nat.add cbc_enc_blocks]. rewrite IH.
      replace (16 * S a) with (16 + 16 * a) by lia. rewrite <- skipn_skipn_nat.
      destruct (cbc_enc_blocks E a _ _) as [o1 iv1].
      destruct (cbc_enc_blocks E b iv1 _) as [o2 iv2]. rewrite app_assoc. reflexivity.
  Qed.

  Lemma cbc_dec_enc n iv inp :
    length inp = 16 * n -> bytes_ok inp = true -> length iv = 16 -> bytes_ok iv = true ->
    cbc_dec_blocks D n iv (fst (cbc_enc_blocks E n iv inp)) = inp.
  Proof.
    revert iv inp; induction n as [|n IH]; intros iv inp Hl Hok Hiv Hivok.
    - destruct inp; [reflexivity|cbn in Hl; lia].
    - cbn [cbc_enc_blocks].
      set (c := E (xor_bytes (firstn 16 inp) iv)).
      specialize (IH c (skipn 16 inp)).
      destruct (cbc_enc_blocks E n c (skipn 16 inp)) as [o iv'] eqn:Eq. cbn [fst] in *.
      cbn [cbc_dec_blocks].
      assert (Hc : length c = 16) by apply E_len.
      rewrite (firstn_app_exact 16 c o Hc), (skipn_app_exact 16 c o Hc).
      assert (Hf : length (firstn 16 inp) = 16) by (rewrite firstn_length; lia).
      unfold c at 1. rewrite DE.
      + rewrite xor_bytes_invol by lia.
        rewrite IH.
        * apply firstn_skipn.
        * rewrite skipn_length; lia.
        * apply bytes_ok_skipn; assumption.
        * assumption.
        * apply E_ok.
      + rewrite xor_bytes_length; lia.
      + apply xor_bytes_ok; [apply bytes_ok_firstn|]; assumption.
  Qed.

  Lemma cbc_plain_seal iv body :
    length body mod 16 = 0 -> bytes_ok body = true -> length iv = 16 -> bytes_ok iv = true ->
    cbc_plain D (cbc_seal_raw E iv body) = body.
  Proof.
    intros Hm Hok Hiv Hivok. unfold cbc_plain, cbc_seal_raw.
    set (n := length body / 16).
    assert (Hb : length body = 16 * n) by (unfold n; lia).
    rewrite app_length, cbc_enc_length, Hiv.
    replace ((16 + 16 * n - 16) / 16) with n by lia.
    rewrite (firstn_app_exact 16 iv _ Hiv), (skipn_app_exact 16 iv _ Hiv).
    apply cbc_dec_enc; assumption.
  Qed.

  Hypothesis mac_len : forall c, length (mac c) = 32.
  Hypothesis mac_ok : forall c, bytes_ok (mac c) = true.

  Lemma nth_repeat_lt {A} (x d : A) k n : k < n -> nth k (repeat x n) d = x.
  Proof. revert k; induction n; intros [|k] H; cbn; try lia; auto. apply IHn; lia. Qed.
  Lemma forallb_repeat x n : forallb (N.eqb x) (repeat x n) = true.
  Proof. induction n; cbn; [reflexivity|]. rewrite N.eqb_refl; assumption. Qed.
  Lemma firstn_repeat {A} (x : A) k n : k <= n -> firstn k (repeat x n) = repeat x k.
  Proof. revert n; induction k; intros [|n] H; cbn; try lia; auto. f_equal. apply IHk; lia. Qed.

  (* what the receiver computes on an honestly protected record (any admissible padding),
     presented under sequence number seq' and header hdr' *)
  Lemma decrypt_honest seq hdr payload iv p seq' hdr' :
    (length payload + 33 + p) mod 16 = 0 -> p <= 255 ->
    (N.of_nat (length payload + 33 + p) <= 16672)%N ->
    bytes_ok payload = true -> length iv = 16 -> bytes_ok iv = true ->
    tls_cbc_decrypt D mac seq' hdr' (tls_cbc_encrypt_padded E mac seq hdr payload iv p) =
    if bytes_eqb (mac [seq; hdr; payload]) (mac [seq'; firstn 3 hdr' ++ u16 (length payload); payload])
    then Some payload else None.
  Proof.
    intros Hm Hp Hmax Hok Hiv Hivok.
    unfold tls_cbc_encrypt_padded.
    set (m := mac [seq; hdr; payload]).
    set (x := N.of_nat p).
    set (body := payload ++ m ++ repeat x (p + 1)).
    set (L := length payload) in *.
    assert (Hml : length m = 32) by apply mac_len.
    assert (Hbl : length body = L + 33 + p).
    { unfold body. rewrite !app_length, repeat_length, Hml. fold L. lia. }
    assert (Hbok : bytes_ok body = true).
    { assert (Hmok : bytes_ok m = true) by apply mac_ok.
      unfold body. rewrite !bytes_ok_app, Hok, Hmok, bytes_ok_repeat; [reflexivity|unfold x; lia]. }
    assert (Hct : length (cbc_seal_raw E iv body) = 16 + (L + 33 + p)).
    { unfold cbc_seal_raw. rewrite app_length, cbc_enc_length, Hiv, Hbl. lia. }
    unfold tls_cbc_decrypt.
    rewrite cbc_plain_seal by (try assumption; rewrite Hbl; assumption).
    rewrite Hct.
    replace ((16 + (L + 33 + p)) mod 16 =? 0) with true by (symmetry; apply Nat.eqb_eq; lia).
    replace (16 + (L + 33 + p) <? 64) with false by (symmetry; apply Nat.ltb_ge; lia).
    replace (16688 <? N.of_nat (16 + (L + 33 + p)))%N with false by (symmetry; apply N.ltb_ge; lia).
    cbn [negb orb].
    replace (16 + (L + 33 + p) - 16) with (L + 33 + p) by lia.
    assert (Hpm : length (payload ++ m) = L + 32) by (rewrite app_length, Hml; reflexivity).
    assert (Hlast : nth (L + 33 + p - 1) body 0%N = x).
    { unfold body. rewrite app_assoc, app_nth2 by lia. rewrite Hpm. apply nth_repeat_lt. lia. }
    rewrite Hlast. assert (Hx : N.to_nat x = p) by (unfold x; apply Nat2N.id). rewrite !Hx.
    replace (L + 33 + p <? p + 33) with false by (symmetry; apply Nat.ltb_ge; lia).
    replace (L + 33 + p - p - 1) with (L + 32) by lia.
    assert (Hpad : firstn p (skipn (L + 32) body) = repeat x p).
    { unfold body. rewrite app_assoc, (skipn_app_exact _ _ _ Hpm). apply firstn_repeat. lia. }
    rewrite Hpad. rewrite forallb_repeat. cbn [negb].
    replace (L + 33 + p - 32 - p - 1) with L by lia.
    assert (Hpl : firstn L body = payload) by (unfold body; apply firstn_app_exact; reflexivity).
    assert (Hmm : firstn 32 (skipn L body) = m).
    { unfold body. rewrite (skipn_app_exact L payload _ eq_refl). apply firstn_app_exact; assumption. }
    rewrite Hpl, Hmm. reflexivity.
  Qed.

  Lemma cbc_enc_prefix n iv a b : 16 * n <= length a ->
    cbc_enc_blocks E n iv (a ++ b) = cbc_enc_blocks E n iv a.
  Proof.
    revert iv a; induction n as [|n IH]; intros iv a Hl; cbn [cbc_enc_blocks]; [reflexivity|].
    rewrite firstn_app, skipn_app.
    replace (16 - length a) with 0 by lia. cbn [firstn skipn]. rewrite app_nil_r.
    rewrite (IH _ (skipn 16 a)) by (rewrite skipn_length; lia). reflexivity.
  Qed.

  (* the C sender is the padded sender with the minimal padding *)
  Lemma cbc_encrypt_is_padded seq hdr payload iv :
    (N.of_nat (length payload) <= 16384)%N -> hdr_len hdr = length payload ->
    tls_cbc_encrypt E mac seq hdr payload (Some iv) =
    Some (tls_cbc_encrypt_padded E mac seq hdr payload iv (15 - length payload mod 16)).
  Proof.
    intros Hmax Hh. unfold tls_cbc_encrypt, tls_cbc_encrypt_padded, cbc_seal_raw.
    set (L := length payload) in *.
    replace (16384 <? N.of_nat L)%N with false by (symmetry; apply N.ltb_ge; lia).
    rewrite Hh, Nat.eqb_refl. cbn [negb].
    set (m := mac [seq; hdr; payload]).
    assert (Hml : length m = 32) by apply mac_len.
    set (rem := L mod 16).
    replace (16 - rem - 1) with (15 - rem) by lia.
    set (pad := repeat (N.of_nat (15 - rem)) (15 - rem + 1)).
    assert (Hpl : length pad = 16 - rem) by (unfold pad; rewrite repeat_length; unfold rem; lia).
    assert (E1 : (if 16 <=? L then cbc_enc_blocks E (L / 16) iv payload else ([], iv)) =
                 cbc_enc_blocks E (L / 16) iv payload).
    { destruct (16 <=? L) eqn:E16; [reflexivity|]. apply Nat.leb_gt in E16.
      rewrite Nat.div_small by lia. reflexivity. }
    rewrite E1.
    replace (length (payload ++ m ++ pad) / 16) with (L / 16 + 3).
    2:{ rewrite !app_length, Hml, Hpl. fold L. unfold rem. lia. }
    rewrite cbc_enc_split.
    rewrite cbc_enc_prefix by (fold L; lia).
    destruct (cbc_enc_blocks E (L / 16) iv payload) as [o1 iv1].
    replace (skipn (16 * (L / 16)) (payload ++ m ++ pad)) with (skipn (L - rem) payload ++ m ++ pad).
    2:{ rewrite skipn_app. replace (16 * (L / 16)) with (L - rem) by (unfold rem; lia).
        replace (L - rem - length payload) with 0 by (fold L; lia). reflexivity. }
    destruct (cbc_enc_blocks E 3 iv1 _) as [o2 iv2]. cbn [fst]. reflexivity.
  Qed.

  (* round trip, C sender *)
  Theorem cbc_round_trip seq hdr payload iv :
    (N.of_nat (length payload) <= 16384)%N -> hdr_len hdr = length payload ->
    hdr = firstn 3 hdr ++ u16 (length payload) ->
    bytes_ok payload = true -> length iv = 16 -> bytes_ok iv = true ->
    exists ct, tls_cbc_encrypt E mac seq hdr payload (Some iv) = Some ct /\
               tls_cbc_decrypt D mac seq hdr ct = Some payload.
  Proof.
    intros Hmax Hh Hhdr Hok Hiv Hivok. eexists. split; [apply cbc_encrypt_is_padded; assumption|].
    rewrite decrypt_honest; try assumption; try lia.
    rewrite <- Hhdr, bytes_eqb_refl. reflexivity.
  Qed.

  (* round trip, any padding the receiver allows *)
  Theorem cbc_round_trip_padded seq hdr payload iv p :
    (length payload + 33 + p) mod 16 = 0 -> p <= 255 ->
    (N.of_nat (length payload + 33 + p) <= 16672)%N ->
    hdr = firstn 3 hdr ++ u16 (length payload) ->
    bytes_ok payload = true -> length iv = 16 -> bytes_ok iv = true ->
    tls_cbc_decrypt D mac seq hdr (tls_cbc_encrypt_padded E mac seq hdr payload iv p) = Some payload.
  Proof.
    intros. rewrite decrypt_honest by assumption. rewrite <- H2, bytes_eqb_refl. reflexivity.
  Qed.

  (* an honest record accepted under another sequence number / type / version exhibits a MAC collision *)
  Theorem cbc_misplaced_accept_is_collision seq hdr payload iv p seq' hdr' r :
    (length payload + 33 + p) mod 16 = 0 -> p <= 255 ->
    (N.of_nat (length payload + 33 + p) <= 16672)%N ->
    bytes_ok payload = true -> length iv = 16 -> bytes_ok iv = true ->
    tls_cbc_decrypt D mac seq' hdr' (tls_cbc_encrypt_padded E mac seq hdr payload iv p) = Some r ->
    r = payload /\
    mac [seq; hdr; payload] = mac [seq'; firstn 3 hdr' ++ u16 (length payload); payload].
  Proof.
    intros H1 H2 H3 H4 H5 H6. rewrite decrypt_honest by assumption.
    destruct (bytes_eqb _ _) eqn:Eq; [|discriminate].
    intros [= <-]. split; [reflexivity|]. apply bytes_eqb_eq; assumption.
  Qed.

  Lemma hdr_canon hdr L : length hdr = 5 -> bytes_ok hdr = true -> hdr_len hdr = L ->
    hdr = firstn 3 hdr ++ u16 L.
  Proof.
    intros Hl Hok Hh.
    destruct hdr as [|a [|b [|c [|d [|e [|f r]]]]]]; cbn in Hl; try lia.
    unfold hdr_len in Hh. cbn [nth] in Hh. cbn [firstn app]. unfold u16.
    unfold bytes_ok in Hok. cbn [forallb] in Hok.
    repeat (apply andb_true_iff in Hok as [? Hok]).
    repeat match goal with H : (_ <? _)%N = true |- _ => apply N.ltb_lt in H end.
    subst L. repeat f_equal; lia.
  Qed.

  (* record level: tls_record_decrypt (tls_record_encrypt record) = record *)
  Theorem record_round_trip seq hdr payload iv :
    length hdr = 5 -> bytes_ok hdr = true -> hdr_len hdr = length payload ->
    (N.of_nat (length payload) <= 16384)%N ->
    bytes_ok payload = true -> length iv = 16 -> bytes_ok iv = true ->
    exists enc, tls_record_encrypt E mac seq (hdr ++ payload) (Some iv) = Some enc /\
                tls_record_decrypt D mac seq enc = Some (hdr ++ payload).
  Proof.
    intros Hl Hhok Hh Hmax Hok Hiv Hivok.
    pose proof (hdr_canon hdr _ Hl Hhok Hh) as Hc.
    unfold tls_record_encrypt.
    replace (length (hdr ++ payload) <? 5) with false
      by (symmetry; apply Nat.ltb_ge; rewrite app_length; lia).
    rewrite (firstn_app_exact 5 hdr payload Hl), (skipn_app_exact 5 hdr payload Hl).
    rewrite cbc_encrypt_is_padded by assumption.
    set (ct := tls_cbc_encrypt_padded E mac seq hdr payload iv (15 - length payload mod 16)).
    eexists. split; [reflexivity|].
    assert (H3 : firstn 3 (hdr ++ payload) = firstn 3 hdr).
    { rewrite firstn_app. replace (3 - length hdr) with 0 by lia. cbn [firstn]. apply app_nil_r. }
    rewrite H3.
    assert (Hl3 : length (firstn 3 hdr) = 3) by (rewrite firstn_length; lia).
    set (ehdr := firstn 3 hdr ++ u16 (length ct)).
    assert (Hel : length ehdr = 5) by (unfold ehdr; rewrite app_length, Hl3; reflexivity).
    unfold tls_record_decrypt.
    replace (firstn 3 hdr ++ u16 (length ct) ++ ct) with (ehdr ++ ct)
      by (unfold ehdr; rewrite <- app_assoc; reflexivity).
    replace (length (ehdr ++ ct) <? 5) with false
      by (symmetry; apply Nat.ltb_ge; rewrite app_length; lia).
    rewrite (firstn_app_exact 5 ehdr ct Hel), (skipn_app_exact 5 ehdr ct Hel).
    unfold ct. rewrite decrypt_honest; try assumption; try lia.
    assert (He3 : firstn 3 ehdr = firstn 3 hdr).
    { unfold ehdr. apply firstn_app_exact. assumption. }
    rewrite He3, <- Hc, bytes_eqb_refl.
    assert (He3' : firstn 3 (ehdr ++ tls_cbc_encrypt_padded E mac seq hdr payload iv (15 - length payload mod 16)) = firstn 3 hdr).
    { rewrite firstn_app. replace (3 - length ehdr) with 0 by lia. cbn [firstn]. rewrite app_nil_r. exact He3. }
    rewrite He3'. f_equal. rewrite app_assoc, <- Hc. reflexivity.
  Qed.

  (* under the premise that the MAC does not collide on this one pair of inputs, the honest
     record is rejected under any other sequence number (replay / reorder / deletion on a
     live connection present it under another number: seq_num_incr_fresh below) *)
  Theorem cbc_other_seq_rejected_partial seq hdr payload iv p seq' :
    (length payload + 33 + p) mod 16 = 0 -> p <= 255 ->
    (N.of_nat (length payload + 33 + p) <= 16672)%N ->
    hdr = firstn 3 hdr ++ u16 (length payload) ->
    bytes_ok payload = true -> length iv = 16 -> bytes_ok iv = true ->
    (mac [seq; hdr; payload] = mac [seq'; hdr; payload] -> seq = seq') ->
    seq' <> seq ->
    tls_cbc_decrypt D mac seq' hdr (tls_cbc_encrypt_padded E mac seq hdr payload iv p) = None.
  Proof.
    intros H1 H2 H3 Hh H4 H5 H6 Hinj Hne.
    destruct (tls_cbc_decrypt D mac seq' hdr _) as [r|] eqn:Eq; [|reflexivity].
    apply cbc_misplaced_accept_is_collision in Eq; try assumption.
    destruct Eq as [_ Hc]. rewrite <- Hh in Hc. apply Hinj in Hc. congruence.
  Qed.

  (* same for the authenticated header fields type and version *)
  Theorem cbc_other_header_rejected_partial seq hdr payload iv p hdr' :
    (length payload + 33 + p) mod 16 = 0 -> p <= 255 ->
    (N.of_nat (length payload + 33 + p) <= 16672)%N ->
    hdr = firstn 3 hdr ++ u16 (length payload) ->
    bytes_ok payload = true -> length iv = 16 -> bytes_ok iv = true ->
    (mac [seq; hdr; payload] = mac [seq; firstn 3 hdr' ++ u16 (length payload); payload] ->
     firstn 3 hdr' = firstn 3 hdr) ->
    firstn 3 hdr' <> firstn 3 hdr ->
    tls_cbc_decrypt D mac seq hdr' (tls_cbc_encrypt_padded E mac seq hdr payload iv p) = None.
  Proof.
    intros H1 H2 H3 Hh H4 H5 H6 Hinj Hne.
    destruct (tls_cbc_decrypt D mac seq hdr' _) as [r|] eqn:Eq; [|reflexivity].
    apply cbc_misplaced_accept_is_collision in Eq; try assumption.
    destruct Eq as [_ Hc]. apply Hinj in Hc. congruence.
  Qed.
End P.

(* ---------- the decision rule of the receiver, for arbitrary input (no hypothesis) ---------- *)
Section Rule.
  Variable D : list N -> list N.
  Variable mac : list (list N) -> list N.

  (* ---------- structural rejections (no hypothesis) ---------- *)
  Lemma cbc_decrypt_len_mod16 seq hdr ct :
    length ct mod 16 <> 0 -> tls_cbc_decrypt D mac seq hdr ct = None.
  Proof.
    intros H. unfold tls_cbc_decrypt.
    destruct (length ct mod 16 =? 0) eqn:E1; [apply Nat.eqb_eq in E1; contradiction|].
    reflexivity.
  Qed.

  Lemma cbc_decrypt_too_short seq hdr ct :
    length ct < 64 -> tls_cbc_decrypt D mac seq hdr ct = None.
  Proof.
    intros H. unfold tls_cbc_decrypt.
    destruct (length ct <? 64) eqn:E1; [|apply Nat.ltb_ge in E1; lia].
    rewrite orb_true_r. reflexivity.
  Qed.

  Lemma cbc_decrypt_too_long seq hdr ct :
    (16688 < N.of_nat (length ct))%N -> tls_cbc_decrypt D mac seq hdr ct = None.
  Proof.
    intros H. unfold tls_cbc_decrypt.
    apply N.ltb_lt in H. rewrite H, !orb_true_r. reflexivity.
  Qed.

  Definition accept12 (seq hdr ct p : list N) : Prop :=
    let n := length ct - 16 in
    let out := cbc_plain D ct in
    let pl := nth (n - 1) out 0%N in
    let k := N.to_nat pl in
    length ct mod 16 = 0 /\ 64 <= length ct /\ (N.of_nat (length ct) <= 16688)%N /\
    k + 33 <= n /\
    Forall (fun b => b = pl) (firstn k (skipn (n - k - 1) out)) /\
    p = firstn (n - 33 - k) out /\
    firstn 32 (skipn (n - 33 - k) out) = mac [seq; firstn 3 hdr ++ u16 (n - 33 - k); p].

  Theorem cbc_decrypt_accept_iff seq hdr ct p :
    tls_cbc_decrypt D mac seq hdr ct = Some p <-> accept12 seq hdr ct p.
  Proof.
    unfold tls_cbc_decrypt, accept12.
    set (n := length ct - 16). set (out := cbc_plain D ct).
    set (pl := nth (n - 1) out 0%N). set (k := N.to_nat pl).
    replace (n - 32 - k - 1) with (n - 33 - k) by lia.
    destruct (length ct mod 16 =? 0) eqn:E1; cbn [negb orb].
    2:{ apply Nat.eqb_neq in E1. split; [discriminate|]. intros (H & _). contradiction. }
    apply Nat.eqb_eq in E1.
    destruct (length ct <? 64) eqn:E2; cbn [orb].
    { apply Nat.ltb_lt in E2. split; [discriminate|]. intros (_ & H & _). lia. }
    apply Nat.ltb_ge in E2.
    destruct (16688 <? N.of_nat (length ct))%N eqn:E3.
    { apply N.ltb_lt in E3. split; [discriminate|]. intros (_ & _ & H & _). lia. }
    apply N.ltb_ge in E3.
    destruct (n <? k + 33) eqn:E4.
    { apply Nat.ltb_lt in E4. split; [discriminate|]. intros (_ & _ & _ & H & _). lia. }
    apply Nat.ltb_ge in E4.
    destruct (forallb (N.eqb pl) (firstn k (skipn (n - k - 1) out))) eqn:E5; cbn [negb].
    2:{ split; [discriminate|]. intros (_ & _ & _ & _ & H & _).
        assert (forallb (N.eqb pl) (firstn k (skipn (n - k - 1) out)) = true); [|congruence].
        apply forallb_forall. intros b Hb. rewrite Forall_forall in H. rewrite (H b Hb). apply N.eqb_refl. }
    assert (HF : Forall (fun b => b = pl) (firstn k (skipn (n - k - 1) out))).
    { apply Forall_forall. intros b Hb. rewrite forallb_forall in E5. symmetry. apply N.eqb_eq. apply E5; assumption. }
    destruct (bytes_eqb _ _) eqn:E6.
    - apply bytes_eqb_eq in E6. split.
      + intros [= <-]. repeat split; try assumption; try lia.
      + intros (_ & _ & _ & _ & _ & -> & _). reflexivity.
    - split; [discriminate|]. intros (_ & _ & _ & _ & _ & -> & H).
      apply bytes_eqb_eq in H. congruence.
  Qed.

  (* reported length never exceeds the ciphertext: |p| + 49 <= |ct| *)
  Theorem cbc_decrypt_len seq hdr ct p :
    tls_cbc_decrypt D mac seq hdr ct = Some p -> length p + 49 <= length ct.
  Proof.
    intros H. apply cbc_decrypt_accept_iff in H. unfold accept12 in H.
    destruct H as (_ & H64 & _ & Hk & _ & -> & _).
    rewrite firstn_length. lia.
  Qed.
End Rule.

(* ---------- tls_seq_num_incr ---------- *)
Local Open Scope N_scope.

Lemma be_to_N_acc_spec acc l : be_to_N_acc acc l = acc * 256 ^ N.of_nat (length l) + be_to_N_acc 0 l.
Proof.
  revert acc; induction l as [|b r IH]; intros acc.
  - cbn. lia.
  - cbn [be_to_N_acc length]. rewrite IH, (IH (0 * 256 + b)).
    rewrite Nat2N.inj_succ, N.pow_succ_r'. lia.
Qed.
Lemma be_to_N_cons b r : be_to_N (b :: r) = b * 256 ^ N.of_nat (length r) + be_to_N r.
Proof. unfold be_to_N. cbn [be_to_N_acc]. rewrite be_to_N_acc_spec. f_equal. Qed.

Lemma be_to_N_bound l : bytes_ok l = true -> be_to_N l < 256 ^ N.of_nat (length l).
Proof.
  induction l as [|b r IH]; intros Hok.
  - cbn. lia.
  - unfold bytes_ok in Hok. cbn [forallb] in Hok. apply andb_true_iff in Hok as [Hb Hr].
    apply N.ltb_lt in Hb. specialize (IH Hr).
    rewrite be_to_N_cons. cbn [length]. rewrite Nat2N.inj_succ, N.pow_succ_r'. nia.
Qed.

Lemma incr_be_spec l : bytes_ok l = true ->
  let '(l', c) := incr_be l in
  length l' = length l /\ bytes_ok l' = true /\
  be_to_N l' + (if c then 256 ^ N.of_nat (length l) else 0) = be_to_N l + 1.
Proof.
  induction l as [|b r IH]; intros Hok.
  - cbn. repeat split; reflexivity.
  - unfold bytes_ok in Hok. cbn [forallb] in Hok. apply andb_true_iff in Hok as [Hb Hr].
    apply N.ltb_lt in Hb. specialize (IH Hr).
    cbn [incr_be]. destruct (incr_be r) as [r' c]. destruct IH as (Hl & Hok' & Hv).
    pose proof (be_to_N_bound r Hr) as Hbr.
    pose proof (be_to_N_bound r' Hok') as Hbr'. rewrite Hl in Hbr'.
    set (P := 256 ^ N.of_nat (length r)) in *.
    destruct c.
    + rewrite !be_to_N_cons. cbn [length]. rewrite Hl. fold P.
      rewrite Nat2N.inj_succ, N.pow_succ_r'. fold P.
      split; [lia|]. split.
      { unfold bytes_ok. cbn [forallb]. fold (bytes_ok r'). rewrite Hok'.
        replace ((b + 1) mod 256 <? 256) with true; [reflexivity|]. symmetry. apply N.ltb_lt. apply N.mod_lt. lia. }
      destruct (N.eq_dec b 255) as [->|Hne].
      * replace ((255 + 1) mod 256) with 0 by reflexivity. rewrite N.eqb_refl. lia.
      * replace ((b + 1) mod 256) with (b + 1) by (rewrite N.mod_small; lia).
        replace (b + 1 =? 0) with false by (symmetry; apply N.eqb_neq; lia). nia.
    + rewrite !be_to_N_cons. cbn [length]. rewrite Hl. fold P.
      split; [lia|]. split.
      { unfold bytes_ok. cbn [forallb]. fold (bytes_ok r'). rewrite Hok'.
        apply N.ltb_lt in Hb. rewrite Hb. reflexivity. }
      lia.
Qed.

(* the counter occupies bytes 1..7; byte 0 is never changed *)
Theorem seq_num_incr_spec s : length s = 8%nat -> bytes_ok s = true ->
  let s' := seq_num_incr s in
  length s' = 8%nat /\ bytes_ok s' = true /\ hd 0 s' = hd 0 s /\
  be_to_N (tl s') = (be_to_N (tl s) + 1) mod 2 ^ 56.
Proof.
  intros Hl Hok. destruct s as [|b0 r]; [discriminate|].
  cbn [length] in Hl. unfold bytes_ok in Hok. cbn [forallb] in Hok.
  apply andb_true_iff in Hok as [Hb Hr].
  cbn [seq_num_incr hd tl].
  pose proof (incr_be_spec r Hr) as H. destruct (incr_be r) as [r' c]. cbn [fst].
  destruct H as (Hl' & Hok' & Hv).
  pose proof (be_to_N_bound r Hr) as Hbr. pose proof (be_to_N_bound r' Hok') as Hbr'.
  assert (Hlr : length r = 7%nat) by lia.
  rewrite Hl' in Hbr'. rewrite Hlr in *. change (256 ^ N.of_nat 7) with (2 ^ 56) in *.
  repeat split.
  - cbn [length]. lia.
  - unfold bytes_ok. cbn [forallb]. rewrite Hb. exact Hok'.
  - destruct c.
    + assert (be_to_N r + 1 = 2 ^ 56) by lia. rewrite H, N.mod_same by lia. lia.
    + rewrite N.mod_small; lia.
Qed.

Theorem seq_num_incr_iter s (n : nat) : length s = 8%nat -> bytes_ok s = true ->
  let s' := Nat.iter n seq_num_incr s in
  length s' = 8%nat /\ bytes_ok s' = true /\ hd 0 s' = hd 0 s /\
  be_to_N (tl s') = (be_to_N (tl s) + N.of_nat n) mod 2 ^ 56.
Proof.
  intros Hl Hok. cbv zeta. induction n as [|n IH].
  - cbn [Nat.iter]. repeat split; try assumption.
    pose proof (be_to_N_bound (tl s)) as Hb.
    destruct s as [|b0 r]; [discriminate|]. cbn [tl] in *.
    unfold bytes_ok in Hok. cbn [forallb] in Hok. apply andb_true_iff in Hok as [_ Hr].
    specialize (Hb Hr). cbn [length] in Hl. replace (length r) with 7%nat in Hb by lia.
    change (256 ^ N.of_nat 7) with (2 ^ 56) in Hb. change (N.of_nat 0) with 0. rewrite N.add_0_r, N.mod_small; [reflexivity|exact Hb].
  - change (Nat.iter (S n) seq_num_incr s) with (seq_num_incr (Nat.iter n seq_num_incr s)).
    destruct IH as (H1 & H2 & H3 & H4).
    pose proof (seq_num_incr_spec _ H1 H2) as (G1 & G2 & G3 & G4).
    repeat split; try assumption; try congruence.
    rewrite G4, H4, Nat2N.inj_succ, N.add_mod_idemp_l by lia. f_equal. lia.
Qed.

(* hence any number 0 < n < 2^56 of further records moves the counter away from s *)
Corollary seq_num_incr_fresh s (n : nat) : length s = 8%nat -> bytes_ok s = true ->
  0 < N.of_nat n < 2 ^ 56 -> Nat.iter n seq_num_incr s <> s.
Proof.
  intros Hl Hok Hn Heq.
  pose proof (seq_num_incr_iter s n Hl Hok) as (_ & _ & _ & H). rewrite Heq in H.
  assert (Hb : be_to_N (tl s) < 2 ^ 56).
  { destruct s as [|b0 r]; [discriminate|]. cbn [tl length] in *.
    unfold bytes_ok in Hok. cbn [forallb] in Hok. apply andb_true_iff in Hok as [_ Hr].
    pose proof (be_to_N_bound r Hr) as Hb. replace (length r) with 7%nat in Hb by lia. exact Hb. }
  set (v := be_to_N (tl s)) in *.
  destruct (N.lt_ge_cases (v + N.of_nat n) (2 ^ 56)) as [Hlt|Hge].
  - rewrite N.mod_small in H by assumption. lia.
  - assert (Hm : (v + N.of_nat n) mod 2 ^ 56 = v + N.of_nat n - 2 ^ 56).
    { symmetry. apply N.mod_unique with (q := 1); lia. }
    lia.
Qed.
