(* The TLS 1.3 message forms of src/tls13.c and the extension forms of src/tls_ext.c they use:
     tls13_client_hello_exts_set, tls13_process_client_hello_exts, tls13_server_hello_extensions_get,
     tls13_record_{set,get}_handshake_{encrypted_extensions, certificate_verify, certificate_request,
        certificate, finished}, tls13_certificate_list_to_bytes, tls13_process_certificate_list.
   Conventions as in Tls/HsCodec.v (records = byte lists, [rec_wf] = buffer contract, setters give [sres],
   getters give option; [cert_ok] / [point_ok] are inputs answered by the library).

   Three functions are modelled as REPAIRED (work/patches_tls/fix_tls13_*.patch), the differential run reports
   the code's deviation until the repair is in the tree:
     tls13_server_hello_extensions_get     ignores decoder failures (endless loop / uninitialised read),
     tls13_record_get_handshake_certificate_verify  ignores decoder failures (returns 1, outputs unset),
     tls13_process_client_hello_exts       writes the key_share answer without a capacity check. *)
From GmVerif Require Import Base.ListX Base.Bytes Tls.Record12 Tls.HsCodec.
Local Open Scope nat_scope.

Definition TLS13 : N := 0x0304.
Definition X_supported_groups : N := 10.
Definition X_signature_algorithms : N := 13.
Definition X_supported_versions : N := 43.
Definition X_key_share : N := 51.
Definition curve_sm2 : N := 41.
Definition sig_sm2sm3 : N := 0x0708.

(* Extension: type, uint16-prefixed data *)
Definition ext (t : N) (d : list N) : list N := e16N t ++ arr16 d.
Definition ext_supported_versions_client : list N := ext X_supported_versions (arr8 (e16N TLS13)).
Definition ext_supported_versions_server : list N := ext X_supported_versions (e16N TLS13).
Definition ext_supported_groups : list N := ext X_supported_groups (arr16 (e16N curve_sm2)).
Definition ext_signature_algorithms : list N := ext X_signature_algorithms (arr16 (e16N sig_sm2sm3)).
Definition key_share_entry (pt : list N) : list N := e16N curve_sm2 ++ arr16 pt.
Definition ext_key_share_client (pt : list N) : list N := ext X_key_share (arr16 (key_share_entry pt)).
Definition ext_key_share_server (pt : list N) : list N := ext X_key_share (key_share_entry pt).

(* tls13_client_hello_exts_set: cap = maxlen, pt = the 65 octets of the client's ephemeral point *)
Definition client_hello_exts13 (cap : nat) (pt : list N) : option (list N) :=
  let x := ext_supported_versions_client ++ ext_supported_groups ++ ext_signature_algorithms ++ ext_key_share_client pt in
  if cap <? length x then None else Some x.

(* a list of extensions: (type, data) pairs; None if the bytes are not such a list *)
Fixpoint split_exts (fuel : nat) (l : list N) : option (list (N * list N)) :=
  match l with
  | [] => Some []
  | _ => match fuel with
         | O => None
         | S f => match d16 l with
                  | Some (t, l1) =>
                    match darr16 l1 with
                    | Some (d, l2) => match split_exts f l2 with Some r => Some ((t, d) :: r) | None => None end
                    | None => None
                    end
                  | None => None
                  end
         end
  end.
Definition exts_of (l : list N) : option (list (N * list N)) := split_exts (length l) l.
Definition exts_bytes (xs : list (N * list N)) : list N := flat_map (fun x => ext (fst x) (snd x)) xs.

Section Point13.
  Variable point_ok : list N -> bool.

  (* tls13_process_server_key_share *)
  Definition server_key_share (d : list N) : option (list N) :=
    match d16 d with
    | Some (g, d1) =>
      match darr16 d1 with
      | Some (ke, []) =>
        if negb (N.eqb g curve_sm2) then None
        else if negb (length ke =? 65) then None
        else if negb (point_ok ke) then None else Some ke
      | _ => None
      end
    | None => None
    end.

  (* tls13_server_hello_extensions_get, repaired: result = the key share seen last, if any *)
  Fixpoint sh_exts_loop (xs : list (N * list N)) (acc : option (list N)) : option (option (list N)) :=
    match xs with
    | [] => Some acc
    | (t, d) :: r =>
      if N.eqb t X_supported_versions then
        match d16 d with Some (v, []) => if N.eqb v TLS13 then sh_exts_loop r acc else None | _ => None end
      else if N.eqb t X_key_share then
        match server_key_share d with Some pt => sh_exts_loop r (Some pt) | None => None end
      else sh_exts_loop r acc
    end.
  Definition server_hello_exts13 (l : list N) : option (option (list N)) :=
    match exts_of l with Some xs => sh_exts_loop xs None | None => None end.

  (* tls13_process_client_supported_versions: the versions list *)
  Fixpoint versions_scan (fuel : nat) (l : list N) (seen13 : bool) : option bool :=
    match l with
    | [] => Some seen13
    | _ => match fuel with
           | O => None
           | S f => match d16 l with
                    | Some (v, r) => if negb (protocol_known v) then None else versions_scan f r (seen13 || N.eqb v TLS13)
                    | None => None
                    end
           end
    end.
  Definition client_supported_versions (d : list N) : bool :=
    match darr8 d with
    | Some (vs, []) =>
      if (length vs <? 2) || (254 <? length vs) then false
      else match versions_scan (length vs) vs false with Some true => true | _ => false end
    | _ => false
    end.

  (* tls13_process_client_key_share: the client_shares list; Some pt = the first sm2 share *)
  Fixpoint shares_scan (fuel : nat) (l : list N) : option (list N) :=
    match l with
    | [] => None
    | _ => match fuel with
           | O => None
           | S f => match d16 l with
                    | Some (g, l1) =>
                      match darr16 l1 with
                      | Some (ke, l2) =>
                        if negb (curve_known g) then None
                        else match ke with
                             | [] => None
                             | _ => if N.eqb g curve_sm2 then
                                      (if negb (length ke =? 65) then None else if negb (point_ok ke) then None else Some ke)
                                    else shares_scan f l2
                             end
                      | None => None
                      end
                    | None => None
                    end
           end
    end.
  Definition client_key_share (d : list N) : option (list N) :=
    match darr16 d with Some (shares, []) => shares_scan (length shares) shares | _ => None end.

  (* tls13_process_client_hello_exts, repaired: need = bytes the answers take so far (never reset),
     out = the server extensions written, cpt = the client's point *)
  Fixpoint ch_exts_loop (cap : nat) (spt : list N) (xs : list (N * list N)) (need : nat) (out : list N) (cpt : option (list N))
    : option (option (list N) * list N) :=
    match xs with
    | [] => Some (cpt, out)
    | (t, d) :: r =>
      if N.eqb t X_supported_versions then
        if negb (client_supported_versions d) then None
        else if cap <? need + 6 then None
        else ch_exts_loop cap spt r (need + 6) (out ++ ext_supported_versions_server) cpt
      else if N.eqb t X_key_share then
        if cap <? need + 73 then None
        else match client_key_share d with
             | Some pt => ch_exts_loop cap spt r (need + 73) (out ++ ext_key_share_server spt) (Some pt)
             | None => None
             end
      else ch_exts_loop cap spt r need out cpt
    end.
  Definition process_client_hello_exts13 (cap : nat) (spt : list N) (l : list N) : option (option (list N) * list N) :=
    match exts_of l with Some xs => ch_exts_loop cap spt xs 0 [] None | None => None end.
End Point13.

(* ---------------- EncryptedExtensions ---------------- *)
Definition set_ee13 (rv : N) : sres := unchecked (set_handshake rv 8 (arr16 ext_supported_groups)).
(* neither the handshake type nor trailing bytes are looked at *)
Definition get_ee13 (r : list N) : option unit :=
  match get_handshake r with
  | Some (_, p) => match darr16 p with Some _ => Some tt | None => None end
  | None => None
  end.

(* ---------------- CertificateVerify ---------------- *)
Definition set_cv13 (rv alg : N) (sg : list N) : sres := checked (set_handshake rv 15 (e16N alg ++ arr16 sg)).
(* repaired *)
Definition parse_cv13 (t : N) (p : list N) : option (N * list N) :=
  if negb (N.eqb t 15) then None else
  match d16 p with
  | Some (alg, p1) => match darr16 p1 with Some (sg, []) => Some (alg, sg) | _ => None end
  | None => None
  end.
Definition get_cv13 (r : list N) : option (N * list N) :=
  match get_handshake r with Some (t, p) => parse_cv13 t p | None => None end.

(* ---------------- CertificateRequest ---------------- *)
Definition set_cr13 (rv : N) (ctx exts : list N) : sres := unchecked (set_handshake rv 13 (arr8 ctx ++ arr16 exts)).
Definition parse_cr13 (t : N) (p : list N) : option (list N * list N) :=
  if negb (N.eqb t 13) then None else
  match darr8 p with
  | Some (ctx, p1) => match darr16 p1 with Some (exts, []) => Some (ctx, exts) | _ => None end
  | None => None
  end.
Definition get_cr13 (r : list N) : option (list N * list N) :=
  match get_handshake r with Some (t, p) => parse_cr13 t p | None => None end.

(* ---------------- Certificate ---------------- *)
Section Cert13.
  Variable cert_ok : list N -> bool.
  (* tls13_certificate_list_to_bytes: every certificate followed by an empty extension list; nothing is produced
     (the status is ignored by the caller) when one of them does not parse *)
  Definition cert_entries13 (certs : list (list N)) : list N := flat_map (fun c => arr24 c ++ arr16 []) certs.
  Definition set_cert13 (rv : N) (ctx : list N) (certs : list (list N)) : sres :=
    match certs with
    | [] => SErr
    | _ =>
      let body := if forallb cert_ok certs then arr8 ctx ++ arr24 (cert_entries13 certs) else arr8 ctx in
      if max_hs_data <? length body then SErr else unchecked (set_handshake rv 11 body)
    end.
  Definition parse_cert13 (t : N) (p : list N) : option (list N * list N) :=
    if negb (N.eqb t 11) then None else
    match darr8 p with
    | Some (ctx, p1) =>
      match darr24 p1 with
      | Some (ls, []) => match ls with [] => None | _ => Some (ctx, ls) end
      | _ => None
      end
    | None => None
    end.
  Definition get_cert13 (r : list N) : option (list N * list N) :=
    match get_handshake r with Some (t, p) => parse_cert13 t p | None => None end.
  (* tls13_process_certificate_list: any per-entry extension is refused *)
  Fixpoint cert_list13 (fuel : nat) (l : list N) (total : nat) : option (list (list N)) :=
    match l with
    | [] => Some []
    | _ => match fuel with
           | O => None
           | S f =>
             match darr24 l with
             | Some (c, l1) =>
               match darr16 l1 with
               | Some (ex, l2) =>
                 if negb (cert_ok c) then None
                 else if max_certs <? total + length c then None
                 else match ex with
                      | [] => match cert_list13 f l2 (total + length c) with Some cs => Some (c :: cs) | None => None end
                      | _ => None
                      end
               | None => None
               end
             | None => None
             end
           end
    end.
  Definition process_cert_list13 (l : list N) : option (list (list N)) := cert_list13 (length l) l 0.
End Cert13.

(* ---------------- Finished ---------------- *)
(* None = NULL pointer; no length check in the setter *)
Definition set_fin13 (rv : N) (vd : option (list N)) : sres :=
  match vd with None => SErr | Some v => unchecked (set_handshake rv 20 v) end.
Definition parse_fin13 (t : N) (p : list N) : option (list N) :=
  if negb (N.eqb t 20) then None
  else if negb ((length p =? 32) || (length p =? 48)) then None else Some p.
Definition get_fin13 (r : list N) : option (list N) :=
  match get_handshake r with Some (t, p) => parse_fin13 t p | None => None end.

(* ---------------- TLS 1.2 extension processing (src/tls_ext.c) ----------------
   tls_process_client_hello_exts (server side: answers go into a buffer of [cap] bytes) and
   tls_process_server_hello_exts (client side), with tls_ext_from_bytes and the three per-extension functions each.
   Name tables of src/tls_trace.c (checked against the library at every run: op nametab). *)
Definition extension_types : list N :=
  [0; 1; 2; 3; 4; 5; 6; 7; 8; 9; 10; 11; 12; 13; 14; 15; 16; 17; 18; 19; 20; 21; 22; 23; 24; 25; 26; 27; 28; 29; 30; 31; 32; 33; 34;
   35; 36; 37; 38; 39; 41; 42; 43; 44; 46; 47; 48; 49; 50; 51; 52; 53; 55; 56; 57; 58; 65281]%N.
Definition extension_known (t : N) : bool := memN t extension_types.
Definition signature_schemes : list N :=
  [513; 515; 1025; 1027; 1056; 1281; 1283; 1312; 1537; 1539; 1568; 1800; 2052; 2053; 2054; 2055; 2056; 2057; 2058; 2059; 2074; 2075; 2076]%N.
Definition signature_scheme_known (a : N) : bool := memN a signature_schemes.
Definition point_formats : list N := [0; 1; 2]%N.
Definition point_format_known (f : N) : bool := memN f point_formats.
Definition X_ec_point_formats : N := 11.

(* a vector of uint16: None if an odd byte is left *)
Fixpoint u16s (fuel : nat) (l : list N) : option (list N) :=
  match l with
  | [] => Some []
  | _ => match fuel with
         | O => None
         | S f => match d16 l with
                  | Some (v, r) => match u16s f r with Some vs => Some (v :: vs) | None => None end
                  | None => None
                  end
         end
  end.

(* tls_process_client_ec_point_formats / _supported_groups / _signature_algorithms: does the extension yield an answer *)
Definition client_ec_point_formats (d : list N) : bool :=
  match darr8 d with
  | Some (fs, []) => forallb point_format_known fs && existsb (N.eqb 0) fs
  | _ => false
  end.
Definition client_supported_groups (d : list N) : bool :=
  match darr16 d with
  | Some (gs, []) => match u16s (length gs) gs with
                     | Some vs => forallb curve_known vs && existsb (N.eqb curve_sm2) vs
                     | None => false
                     end
  | _ => false
  end.
(* unknown schemes are skipped; the scan stops at the first sm2sig_sm3 (what follows is not looked at) *)
Fixpoint sigalgs_scan (fuel : nat) (l : list N) : bool :=
  match l with
  | [] => false
  | _ => match fuel with
         | O => false
         | S f => match d16 l with
                  | Some (a, r) => if signature_scheme_known a && N.eqb a sig_sm2sm3 then true else sigalgs_scan f r
                  | None => false
                  end
         end
  end.
Definition client_signature_algorithms (d : list N) : bool :=
  match d with
  | [] => false
  | _ => match darr16 d with Some (algs, []) => sigalgs_scan (length algs) algs | _ => false end
  end.

Definition ext_ec_point_formats_answer : list N := ext X_ec_point_formats (arr8 [0%N]).

Fixpoint ch_exts12_loop (cap : nat) (xs : list (N * list N)) (out : list N) : option (list N) :=
  match xs with
  | [] => Some out
  | (t, d) :: r =>
    if negb (extension_known t) then None
    else if (cap <? length out) || (cap - length out <? 8) then None
    else if N.eqb t X_ec_point_formats then
      (if client_ec_point_formats d then ch_exts12_loop cap r (out ++ ext_ec_point_formats_answer) else None)
    else if N.eqb t X_signature_algorithms then
      (if client_signature_algorithms d then ch_exts12_loop cap r (out ++ ext_signature_algorithms) else None)
    else if N.eqb t X_supported_groups then
      (if client_supported_groups d then ch_exts12_loop cap r (out ++ ext_supported_groups) else None)
    else None
  end.
Definition process_client_hello_exts12 (cap : nat) (l : list N) : option (list N) :=
  match exts_of l with Some xs => ch_exts12_loop cap xs [] | None => None end.

(* client side: exactly one uncompressed format / sm2p256v1 / sm2sig_sm3.  The three outputs as C sets them:
   (ec_point_format, supported_group, signature_algor); the last two are set by the other extension each
   (signature_algorithms sets supported_group, supported_groups sets signature_algor): observation *)
Fixpoint sh_exts12_loop (xs : list (N * list N)) (pf grp sg : option N) : option (option N * option N * option N) :=
  match xs with
  | [] => Some (pf, grp, sg)
  | (t, d) :: r =>
    if negb (extension_known t) then None
    else if N.eqb t X_ec_point_formats then
      match darr8 d with Some ([f], []) => if N.eqb f 0 then sh_exts12_loop r (Some 0%N) grp sg else None | _ => None end
    else if N.eqb t X_signature_algorithms then
      match darr16 d with
      | Some (a, []) => match d16 a with Some (v, []) => if N.eqb v sig_sm2sm3 then sh_exts12_loop r pf (Some curve_sm2) sg else None | _ => None end
      | _ => None
      end
    else if N.eqb t X_supported_groups then
      match darr16 d with
      | Some (a, []) => match d16 a with Some (v, []) => if N.eqb v curve_sm2 then sh_exts12_loop r pf grp (Some sig_sm2sm3) else None | _ => None end
      | _ => None
      end
    else None
  end.
Definition process_server_hello_exts12 (l : list N) : option (option N * option N * option N) :=
  match exts_of l with Some xs => sh_exts12_loop xs None None None | None => None end.
