(* The part of the three handshakes that carries transcript integrity and peer authentication,
   as coded in src/tlcp.c, src/tls12.c, src/tls13.c:

   - every handshake message an endpoint sends or receives is appended to its transcript
     (sm3_update(&sm3_ctx, record + 5, ...) / digest_update) in the order it sees them;
   - the side that finishes first (client in TLCP / TLS 1.2, server in TLS 1.3) sends
       fin1 = F secret1 (H transcript);
     the other side compares the received value with F secret1' (H transcript') (memcmp) and
     aborts on mismatch, appends the received Finished message, and answers
       fin2 = F secret2' (H (transcript' ++ fin_msg fin1_received));
     the first side compares with F secret2 (H (transcript ++ fin_msg fin1)) and aborts on mismatch;
   - each driver returns 1 only at its very end, after a fixed list of guards (Tls/GuardSites.v).

   [F] is tls_prf(master, "client finished" / "server finished", hash, 12) resp.
   tls13_compute_verify_data; [H] is SM3.  The adversary controls everything on the wire: the
   model takes the *received* values as arbitrary inputs. *)
From GmVerif Require Import Base.ListX Base.Bytes Tls.Record12.
Local Open Scope nat_scope.

Section Finished.
  Variable H : list N -> list N.                       (* transcript hash *)
  Variable F1 F2 : list N -> list N -> list N.         (* secret -> hash -> verify_data (first / second Finished) *)
  Variable fin_msg : list N -> list N.                 (* verify_data -> handshake message *)

  (* what an endpoint holds when the Finished exchange starts *)
  Record party := mk_party { sec1 : list N; sec2 : list N; transcript : list N }.

  (* first finisher: sends fin1, later checks the peer's fin2 *)
  Definition first_send (a : party) : list N := F1 (sec1 a) (H (transcript a)).
  Definition first_done (a : party) (fin2_recv : list N) : bool :=
    bytes_eqb fin2_recv (F2 (sec2 a) (H (transcript a ++ fin_msg (first_send a)))).

  (* second finisher: checks the received fin1, then sends fin2 over its transcript extended by
     the Finished message it received; it is done as soon as the check passed *)
  Definition second_done (b : party) (fin1_recv : list N) : bool :=
    bytes_eqb fin1_recv (F1 (sec1 b) (H (transcript b))).
  Definition second_send (b : party) (fin1_recv : list N) : list N :=
    F2 (sec2 b) (H (transcript b ++ fin_msg fin1_recv)).
End Finished.

(* The guards on the path to `return 1` (C09) are in Tls/GuardSites.v. *)
