(* Proofs about the Finished exchange and the guard lists (Tls/Handshake.v). *)
From GmVerif Require Import Base.ListX Base.Bytes Hash.SM3 Tls.Record12 Tls.Record12Proofs
  Tls.KeySched Tls.Handshake.
Local Open Scope nat_scope.

Lemma app_eq_len {A} (a b x y : list A) : a ++ x = b ++ y -> length x = length y -> a = b /\ x = y.
Proof.
  intros He Hl.
  assert (Hab : length a = length b).
  { apply (f_equal (@length A)) in He. rewrite !app_length in He. lia. }
  split.
  - apply (f_equal (firstn (length a))) in He.
    rewrite firstn_app, Nat.sub_diag, firstn_O, app_nil_r, firstn_all in He.
    rewrite Hab, firstn_app, Nat.sub_diag, firstn_O, app_nil_r, firstn_all in He. exact He.
  - apply (f_equal (skipn (length a))) in He.
    rewrite skipn_app, Nat.sub_diag, skipn_all in He. cbn [skipn app] in He.
    rewrite Hab, skipn_app, Nat.sub_diag, skipn_all in He. exact He.
Qed.

Section P.
  Variable H : list N -> list N.
  Variable F1 F2 : list N -> list N -> list N.
  Variable fin_msg : list N -> list N.

  (* decision rule, no assumption: both sides done => both comparisons held on exactly these values *)
  Theorem both_done_rule (a b : party) fin1_recv fin2_recv :
    second_done H F1 b fin1_recv = true -> first_done H F1 F2 fin_msg a fin2_recv = true ->
    fin1_recv = F1 (sec1 b) (H (transcript b)) /\
    fin2_recv = F2 (sec2 a) (H (transcript a ++ fin_msg (first_send H F1 a))).
  Proof.
    unfold second_done, first_done. intros Hb Ha.
    apply bytes_eqb_eq in Hb. apply bytes_eqb_eq in Ha. split; assumption.
  Qed.

  (* a wrong Finished value stops the receiver: structural, no assumption *)
  Theorem wrong_fin1_rejected b fin1_recv :
    fin1_recv <> F1 (sec1 b) (H (transcript b)) -> second_done H F1 b fin1_recv = false.
  Proof.
    intros Hne. unfold second_done. destruct (bytes_eqb _ _) eqn:E; [|reflexivity].
    apply bytes_eqb_eq in E. contradiction.
  Qed.
  Theorem wrong_fin2_rejected a fin2_recv :
    fin2_recv <> F2 (sec2 a) (H (transcript a ++ fin_msg (first_send H F1 a))) ->
    first_done H F1 F2 fin_msg a fin2_recv = false.
  Proof.
    intros Hne. unfold first_done. destruct (bytes_eqb _ _) eqn:E; [|reflexivity].
    apply bytes_eqb_eq in E. contradiction.
  Qed.

  (* transcripts equal, under explicit premises: the second Finished arrives as sent, F2 and H do
     not collide on the two compared inputs, Finished messages of equal-length verify_data have
     equal length and determine the verify_data *)
  Theorem both_done_same_transcript_partial (a b : party) fin1_recv fin2_recv :
    second_done H F1 b fin1_recv = true -> first_done H F1 F2 fin_msg a fin2_recv = true ->
    fin2_recv = second_send H F2 fin_msg b fin1_recv ->
    (* no collision of F2 on this pair *)
    (F2 (sec2 b) (H (transcript b ++ fin_msg fin1_recv)) =
     F2 (sec2 a) (H (transcript a ++ fin_msg (first_send H F1 a))) ->
     sec2 b = sec2 a /\ H (transcript b ++ fin_msg fin1_recv) = H (transcript a ++ fin_msg (first_send H F1 a))) ->
    (* no collision of H on this pair *)
    (H (transcript b ++ fin_msg fin1_recv) = H (transcript a ++ fin_msg (first_send H F1 a)) ->
     transcript b ++ fin_msg fin1_recv = transcript a ++ fin_msg (first_send H F1 a)) ->
    (* framing of the Finished message *)
    length (fin_msg fin1_recv) = length (fin_msg (first_send H F1 a)) ->
    (fin_msg fin1_recv = fin_msg (first_send H F1 a) -> fin1_recv = first_send H F1 a) ->
    transcript b = transcript a /\ fin1_recv = first_send H F1 a /\ sec2 b = sec2 a.
  Proof.
    intros Hb Ha Hfwd HF HH Hlen Hinj.
    destruct (both_done_rule a b _ _ Hb Ha) as [_ H2].
    rewrite Hfwd in H2. unfold second_send in H2.
    destruct (HF H2) as [Hs Hh]. specialize (HH Hh).
    assert (Ht : transcript b = transcript a /\ fin_msg fin1_recv = fin_msg (first_send H F1 a)).
    { apply app_eq_len; assumption. }
    destruct Ht as [Ht Hm]. repeat split; auto.
  Qed.
End P.

(* ---------- the concrete Finished functions of Tls/KeySched.v ---------- *)
Definition F12c (ms h : list N) : list N := or_nil (tls_prf ms L_client_finished h [] 12).
Definition F12s (ms h : list N) : list N := or_nil (tls_prf ms L_server_finished h [] 12).
Lemma F12c_is_client_finished ms t : F12c ms (sm3 t) = client_finished12 ms t.
Proof. reflexivity. Qed.
Lemma F12s_is_server_finished ms t : F12s ms (sm3 t) = server_finished12 ms t.
Proof. reflexivity. Qed.

(* TLCP / TLS 1.2: the client finishes first.  Both done => the values that crossed the wire are the
   schedule's verify_data over each side's own transcript *)
Theorem tls12_both_done_rule (client server : party) cfin_recv sfin_recv :
  second_done sm3 F12c server cfin_recv = true ->
  first_done sm3 F12c F12s finished_msg client sfin_recv = true ->
  cfin_recv = client_finished12 (sec1 server) (transcript server) /\
  sfin_recv = server_finished12 (sec2 client)
                (transcript client ++ finished_msg (client_finished12 (sec1 client) (transcript client))).
Proof. apply both_done_rule. Qed.

(* TLS 1.3: the server finishes first; secrets are the handshake traffic secrets *)
Definition F13 (traffic_secret h : list N) : list N :=
  Hash.Instances.hmacB_sm3 (hkdf_expand_label traffic_secret L_finished [] 32) [h].
Lemma F13_is_verify_data13 s t : F13 s (sm3 t) = verify_data13 s t.
Proof. reflexivity. Qed.
Theorem tls13_both_done_rule (server client : party) sfin_recv cfin_recv :
  second_done sm3 F13 client sfin_recv = true ->
  first_done sm3 F13 F13 finished_msg server cfin_recv = true ->
  sfin_recv = verify_data13 (sec1 client) (transcript client) /\
  cfin_recv = verify_data13 (sec2 server)
                (transcript server ++ finished_msg (verify_data13 (sec1 server) (transcript server))).
Proof. apply both_done_rule. Qed.
