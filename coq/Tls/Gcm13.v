(* GCM (NIST SP 800-38D / GB/T 36624) with a 12-byte nonce and a 16-byte tag over an
   arbitrary 16-byte block function: the AEAD instance used to *run* the TLS 1.3
   record model (src/sm4_gcm.c sm4_gcm_encrypt / sm4_gcm_decrypt as called by
   gcm_encrypt / gcm_decrypt of src/tls13.c).  That sm4_gcm.c equals the standard
   under every API style is the business of C04/C05; here it is only the oracle
   for seal/open, pinned by the RFC 8998 / GB/T vector below and compared with the
   library on every C11 case. *)
From GmVerif Require Import Base.ListX Base.Bytes Tls.Record12.
Local Open Scope N_scope.

Definition R128 : N := N.shiftl 0xE1 120.

(* X . Y in GF(2^128), blocks read as 128-bit big-endian integers (bit 0 of the
   standard = most significant bit) *)
Fixpoint gmul_loop (k : nat) (x z v : N) : N :=
  match k with
  | O => z
  | S k' =>
    let z' := if N.testbit x (N.of_nat k') then N.lxor z v else z in
    let v' := if N.testbit v 0 then N.lxor (N.shiftr v 1) R128 else N.shiftr v 1 in
    gmul_loop k' x z' v'
  end.
Definition gmul (x y : N) : N := gmul_loop 128 x 0 y.

Definition pad16 (l : list N) : list N := l ++ zeros ((16 - length l mod 16) mod 16)%nat.

Fixpoint ghash_blocks (n : nat) (h y : N) (d : list N) : N :=
  match n with
  | O => y
  | S k => ghash_blocks k h (gmul (N.lxor y (be_to_N (firstn 16 d))) h) (skipn 16 d)
  end.
Definition ghash (h : N) (aad ct : list N) : N :=
  let d := pad16 aad ++ pad16 ct ++ be64 (8 * N.of_nat (length aad)) ++ be64 (8 * N.of_nat (length ct)) in
  ghash_blocks (length d / 16) h 0 d.

Section GCM.
  Variable Ek : list N -> list N.

  (* counter block: nonce(12) || be32 ctr *)
  Definition ctr_block (nonce : list N) (c : N) : list N := nonce ++ be32 (c mod 2^32).

  Fixpoint gctr (n : nat) (nonce : list N) (c : N) (d : list N) : list N :=
    match n with
    | O => []
    | S k => xor_bytes (firstn 16 d) (Ek (ctr_block nonce c)) ++ gctr k nonce (c + 1) (skipn 16 d)
    end.
  Definition gctr_all (nonce d : list N) : list N := gctr ((length d + 15) / 16) nonce 2 d.

  Definition gcm_tag (nonce aad ct : list N) : list N :=
    let h := be_to_N (Ek (zeros 16)) in
    xor_bytes (Ek (ctr_block nonce 1)) (N_to_be 16 (ghash h aad ct)).

  Definition gcm_seal (nonce aad pt : list N) : list N :=
    let ct := gctr_all nonce pt in ct ++ gcm_tag nonce aad ct.
  Definition gcm_open (nonce aad ct tag : list N) : option (list N) :=
    if bytes_eqb (gcm_tag nonce aad ct) tag then Some (gctr_all nonce ct) else None.
End GCM.
