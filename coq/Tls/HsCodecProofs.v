(* Proofs about the handshake message layer (Tls/HsCodec.v). *)
From GmVerif Require Import Base.ListX Base.Bytes Tls.Record12 Tls.Record12Proofs Tls.HsCodec.
From Coq Require Import ZifyN ZifyNat ZifyBool.
Ltac Zify.zify_post_hook ::= Z.div_mod_to_equations.
Local Open Scope nat_scope.

(* ---------- primitives: decode (encode x ++ rest) = (x, rest) ---------- *)
Lemma d8_e8 n r : n < 256 -> d8 (e8 n ++ r) = Some (N.of_nat n, r).
Proof. intros H. unfold e8, d8. cbn [app]. rewrite Nat.mod_small by lia. reflexivity. Qed.
Lemma d16_e16 n r : (N.of_nat n < 65536)%N -> d16 (e16 n ++ r) = Some (N.of_nat n, r).
Proof. intros H. unfold e16, u16, d16. cbn [app]. f_equal. f_equal. lia. Qed.
Lemma d24_e24 n r : (N.of_nat n < 16777216)%N -> d24 (e24 n ++ r) = Some (N.of_nat n, r).
Proof. intros H. unfold e24, d24. cbn [app]. f_equal. f_equal. lia. Qed.
Lemma d16_e16N x r : (x < 65536)%N -> d16 (e16N x ++ r) = Some (x, r).
Proof. intros H. unfold e16N, d16. cbn [app]. f_equal. f_equal. lia. Qed.
Lemma darr_app d r : darr (N.of_nat (length d)) (d ++ r) = Some (d, r).
Proof.
  unfold darr. rewrite app_length, Nat2N.id.
  replace (N.of_nat (length d + length r) <? N.of_nat (length d))%N with false by (symmetry; apply N.ltb_ge; lia).
  rewrite (firstn_app_exact _ d r eq_refl), (skipn_app_exact _ d r eq_refl). reflexivity.
Qed.
Lemma darr_n n d r : n = N.of_nat (length d) -> darr n (d ++ r) = Some (d, r).
Proof. intros ->. apply darr_app. Qed.
Lemma darr8_arr8 d r : length d < 256 -> darr8 (arr8 d ++ r) = Some (d, r).
Proof. intros H. unfold darr8, arr8. rewrite <- app_assoc, d8_e8 by assumption. apply darr_app. Qed.
Lemma darr16_arr16 d r : (N.of_nat (length d) < 65536)%N -> darr16 (arr16 d ++ r) = Some (d, r).
Proof. intros H. unfold darr16, arr16. rewrite <- app_assoc, d16_e16 by assumption. apply darr_app. Qed.
Lemma darr24_arr24 d r : (N.of_nat (length d) < 16777216)%N -> darr24 (arr24 d ++ r) = Some (d, r).
Proof. intros H. unfold darr24, arr24. rewrite <- app_assoc, d24_e24 by assumption. apply darr_app. Qed.

Lemma e16_length n : length (e16 n) = 2. Proof. reflexivity. Qed.
Lemma e24_length n : length (e24 n) = 3. Proof. reflexivity. Qed.
Lemma e16N_length x : length (e16N x) = 2. Proof. reflexivity. Qed.
Lemma arr8_length d : length (arr8 d) = 1 + length d. Proof. reflexivity. Qed.
Lemma arr16_length d : length (arr16 d) = 2 + length d. Proof. unfold arr16. rewrite app_length. reflexivity. Qed.
Lemma arr24_length d : length (arr24 d) = 3 + length d. Proof. unfold arr24. rewrite app_length. reflexivity. Qed.

(* the name tables only contain 16-bit / 8-bit values *)
Lemma memN_bound x l b : memN x l = true -> Forall (fun y => (y < b)%N) l -> (x < b)%N.
Proof.
  unfold memN. intros H HF. apply existsb_exists in H as (y & Hy & He). apply N.eqb_eq in He. subst y.
  rewrite Forall_forall in HF. auto.
Qed.
Lemma protocol_known_lt v : protocol_known v = true -> (v < 65536)%N.
Proof. intros H. eapply memN_bound; [exact H|]. unfold protocols. repeat constructor; lia. Qed.
Lemma cipher_known_lt v : cipher_known v = true -> (v < 65536)%N.
Proof. intros H. eapply memN_bound; [exact H|]. unfold cipher_suites_known. repeat constructor; lia. Qed.
Lemma hs_type_known_lt v : hs_type_known v = true -> (v < 256)%N.
Proof. intros H. eapply memN_bound; [exact H|]. unfold handshake_types. repeat constructor; lia. Qed.

(* ---------- the generic frame ---------- *)
Definition frame (rv t : N) (data : list N) : list N :=
  [22%N] ++ e16N rv ++ e16 (4 + length data) ++ [t] ++ e24 (length data) ++ data.

Lemma set_handshake_frame rv t data r : set_handshake rv t data = Some r ->
  r = frame rv t data /\ length data <= max_hs_data /\ protocol_known rv = true /\ hs_type_known t = true.
Proof.
  unfold set_handshake, frame.
  destruct (max_hs_data <? length data) eqn:E1; [discriminate|]. apply Nat.ltb_ge in E1.
  destruct (protocol_known rv) eqn:E2; [|discriminate].
  destruct (hs_type_known t) eqn:E3; [|discriminate]. cbn [negb].
  intros [= <-]. pose proof (hs_type_known_lt t E3) as Hlt. rewrite (N.mod_small t 256 Hlt). auto.
Qed.

Lemma frame_length rv t data : length (frame rv t data) = 9 + length data.
Proof. unfold frame, e16N, e16, u16, e24. rewrite !app_length. cbn [length]. lia. Qed.

Lemma frame_facts rv t data : (rv < 65536)%N -> length data <= max_hs_data ->
  rec_type (frame rv t data) = 22%N /\ rec_version (frame rv t data) = rv /\
  rec_len (frame rv t data) = 4 + length data /\ rec_wf (frame rv t data) /\
  rec_data (frame rv t data) = [t] ++ e24 (length data) ++ data /\
  hs_message (frame rv t data) = [t] ++ e24 (length data) ++ data.
Proof.
  intros Hv Hl. unfold max_hs_data in Hl.
  assert (Hlen : rec_len (frame rv t data) = 4 + length data).
  { unfold rec_len, frame, e16N, e16, u16. cbn [app nth]. lia. }
  assert (Hsk : skipn 5 (frame rv t data) = [t] ++ e24 (length data) ++ data) by reflexivity.
  repeat split.
  - unfold rec_version, frame, e16N. cbn [app nth]. lia.
  - exact Hlen.
  - unfold rec_wf. rewrite Hlen, frame_length. lia.
  - unfold rec_data. rewrite Hlen, Hsk. apply firstn_all2. rewrite !app_length, e24_length. cbn [length]. lia.
Qed.

Theorem get_set_handshake rv t data r : set_handshake rv t data = Some r ->
  get_handshake r = Some (t, data) /\ rec_wf r /\ length r = 9 + length data /\ rec_version r = rv.
Proof.
  intros H. apply set_handshake_frame in H. destruct H as (-> & Hl & Hp & Ht).
  pose proof (protocol_known_lt _ Hp) as Hv.
  destruct (frame_facts rv t data Hv Hl) as (F1 & F2 & F3 & F4 & F5 & _).
  split; [|split; [exact F4|split; [apply frame_length|exact F2]]].
  unfold get_handshake. rewrite F2, Hp, F1, F3, F5. cbn [negb N.eqb Pos.eqb].
  replace (4 + length data <? 4) with false by (symmetry; apply Nat.ltb_ge; lia).
  replace (max_plaintext <? 4 + length data) with false by (symmetry; apply Nat.ltb_ge; unfold max_plaintext, max_hs_data in *; lia).
  cbn [app nth skipn]. rewrite Ht. cbn [negb].
  rewrite d24_e24 by (unfold max_hs_data in Hl; lia).
  replace (4 + length data - 4) with (length data) by lia. rewrite N.eqb_refl. reflexivity.
Qed.

(* every record a setter produces obeys the record size bound: 5 + 2^14 bytes at most *)
Theorem set_handshake_bound rv t data r : set_handshake rv t data = Some r -> (N.of_nat (length r) <= 16389)%N.
Proof.
  intros H. pose proof (set_handshake_frame _ _ _ _ H) as (_ & Hl & _). apply get_set_handshake in H.
  destruct H as (_ & _ & Hlen & _). unfold max_hs_data in Hl. lia.
Qed.

Lemma checked_ok o r : checked o = SOk r -> o = Some r.
Proof. destruct o; cbn; [intros [= ->]; reflexivity|discriminate]. Qed.
Lemma unchecked_ok o r : unchecked o = SOk r -> o = Some r.
Proof. destruct o; cbn; [intros [= ->]; reflexivity|discriminate]. Qed.

(* ---------- Finished ---------- *)
Theorem get_set_finished rv vd r : set_finished rv vd = SOk r ->
  get_finished r = Some vd /\ length r = 9 + length vd.
Proof.
  unfold set_finished. destruct ((length vd =? 12) || (length vd =? 32)) eqn:E; [|discriminate]. cbn [negb].
  intros H. apply unchecked_ok, get_set_handshake in H. destruct H as (Hg & _ & Hl & _).
  split; [|exact Hl]. unfold get_finished. rewrite Hg. unfold parse_finished. rewrite E. reflexivity.
Qed.

(* ---------- ServerHelloDone ---------- *)
Theorem get_set_server_hello_done rv r : set_server_hello_done rv = SOk r ->
  get_server_hello_done r = Some tt /\ length r = 9.
Proof.
  unfold set_server_hello_done. intros H. apply unchecked_ok, get_set_handshake in H. destruct H as (Hg & _ & Hl & _).
  split; [|exact Hl]. unfold get_server_hello_done. rewrite Hg. reflexivity.
Qed.

(* ---------- one uint16-prefixed field: CertificateVerify, ClientKeyExchange (PKE), ServerKeyExchange (TLCP) ---------- *)
Lemma darr16_whole d : (N.of_nat (length d) < 65536)%N -> darr16 (arr16 d) = Some (d, []).
Proof. intros H. rewrite <- (app_nil_r (arr16 d)). apply darr16_arr16. exact H. Qed.

Theorem get_set_certificate_verify rv sg r : set_certificate_verify rv sg = SOk r ->
  get_certificate_verify r = Some sg /\ length r = 11 + length sg.
Proof.
  unfold set_certificate_verify. destruct sg as [|s0 sg'] eqn:Es; [discriminate|]. rewrite <- Es.
  destruct (max_sig <? length sg) eqn:E; [discriminate|]. apply Nat.ltb_ge in E. unfold max_sig in E.
  intros H. apply unchecked_ok, get_set_handshake in H. destruct H as (Hg & _ & Hl & _).
  rewrite arr16_length in Hl. split; [|lia].
  unfold get_certificate_verify. rewrite Hg. unfold parse_certificate_verify. cbn [N.eqb Pos.eqb negb].
  rewrite darr16_whole by lia. reflexivity.
Qed.

Theorem get_set_cke_pke rv e r : set_cke_pke rv e = SOk r ->
  get_cke_pke r = Some e /\ length r = 11 + length e.
Proof.
  unfold set_cke_pke. destruct e as [|e0 e'] eqn:Es; [discriminate|]. rewrite <- Es.
  destruct (max_hs_data - 2 <? length e) eqn:E; [discriminate|]. apply Nat.ltb_ge in E. unfold max_hs_data in E.
  intros H. apply unchecked_ok, get_set_handshake in H. destruct H as (Hg & _ & Hl & _).
  rewrite arr16_length in Hl. split; [|lia].
  unfold get_cke_pke. rewrite Hg. unfold parse_cke_pke. cbn [N.eqb Pos.eqb negb].
  rewrite darr16_whole by lia. reflexivity.
Qed.

Theorem get_set_ske_pke rv sg r : set_ske_pke rv sg = SOk r ->
  get_ske_pke r = Some sg /\ length r = 11 + length sg /\ rv = TLS_protocol_tlcp.
Proof.
  unfold set_ske_pke. destruct sg as [|s0 sg'] eqn:Es; [discriminate|]. rewrite <- Es.
  destruct (max_sig <? length sg) eqn:E; [discriminate|]. apply Nat.ltb_ge in E. unfold max_sig in E.
  destruct (N.eqb rv TLS_protocol_tlcp) eqn:Ev; [|discriminate]. cbn [negb].
  intros H. apply unchecked_ok, get_set_handshake in H. destruct H as (Hg & _ & Hl & Hv).
  rewrite arr16_length in Hl. split; [|split; [lia|apply N.eqb_eq; exact Ev]].
  unfold get_ske_pke. rewrite Hg, Hv. unfold parse_ske_pke. rewrite Ev. cbn [N.eqb Pos.eqb negb].
  rewrite darr16_whole by lia. reflexivity.
Qed.

(* ---------- CertificateRequest ---------- *)
Theorem get_set_certificate_request rv types names r :
  set_certificate_request rv types names = SOk r ->
  types <> [] -> length types <= 255 -> forallb cert_type_known types = true ->
  names_wf (length names) names = true ->
  get_certificate_request r = Some (types, names) /\ length r = 12 + length types + length names.
Proof.
  unfold set_certificate_request.
  destruct (256 <? length types); [discriminate|].
  destruct (max_ca_names <? length names) eqn:E2; [discriminate|]. apply Nat.ltb_ge in E2. unfold max_ca_names in E2.
  destruct (max_hs_data <? _); [discriminate|].
  intros H Hne Hl Hk Hw. apply unchecked_ok, get_set_handshake in H. destruct H as (Hg & _ & Hlen & _).
  rewrite app_length, arr8_length, arr16_length in Hlen. split; [|lia].
  unfold get_certificate_request. rewrite Hg. unfold parse_certificate_request. cbn [N.eqb Pos.eqb negb].
  rewrite darr8_arr8 by lia. rewrite darr16_whole by lia.
  destruct types as [|t0 ts]; [congruence|]. rewrite Hk, Hw. reflexivity.
Qed.

(* ---------- key exchange with an ECDHE point ---------- *)
Lemma darr8_point pt rest : length pt = 65 -> darr8 (65%N :: pt ++ rest) = Some (pt, rest).
Proof.
  intros Hl. change (65%N :: pt ++ rest) with (e8 65 ++ pt ++ rest). rewrite <- Hl.
  rewrite app_assoc. fold (arr8 pt). apply darr8_arr8. lia.
Qed.
Section PointP.
  Variable point_ok : list N -> bool.

  Theorem get_set_cke_ecdhe rv pt r : set_cke_ecdhe rv pt = SOk r ->
    length pt = 65 -> point_ok pt = true ->
    get_cke_ecdhe point_ok r = Some pt /\ length r = 75.
  Proof.
    unfold set_cke_ecdhe. intros H Hl Hok. apply unchecked_ok, get_set_handshake in H. destruct H as (Hg & _ & Hlen & _).
    rewrite app_length in Hlen. cbn [length] in Hlen. split; [|lia].
    unfold get_cke_ecdhe. rewrite Hg. unfold parse_cke_ecdhe. cbn [N.eqb Pos.eqb negb].
    cbn [app]. rewrite <- (app_nil_r pt) at 1. rewrite (darr8_point pt [] Hl).
    rewrite Hl, Hok. reflexivity.
  Qed.

  Theorem get_set_ske_ecdhe rv curve pt sg r : set_ske_ecdhe rv curve pt sg = SOk r ->
    curve = 41%N -> length pt = 65 -> point_ok pt = true ->
    get_ske_ecdhe point_ok r = Some (41%N, pt, sg) /\ length r = 82 + length sg.
  Proof.
    unfold set_ske_ecdhe. destruct (curve_known curve); [|discriminate]. cbn [negb].
    destruct sg as [|s0 sg'] eqn:Es; [discriminate|]. rewrite <- Es.
    destruct (max_sig <? length sg) eqn:E; [discriminate|]. apply Nat.ltb_ge in E. unfold max_sig in E.
    intros H -> Hl Hok. apply unchecked_ok, get_set_handshake in H. destruct H as (Hg & _ & Hlen & _).
    rewrite !app_length, arr16_length, !e16N_length in Hlen. cbn [length] in Hlen. split; [|lia].
    unfold get_ske_ecdhe. rewrite Hg. unfold parse_ske_ecdhe. cbn [N.eqb Pos.eqb negb app d8].
    rewrite d16_e16N by lia.
    rewrite (darr8_point pt _ Hl).
    rewrite d16_e16N by lia. rewrite darr16_whole by lia.
    rewrite Hl, Hok. reflexivity.
  Qed.
End PointP.

(* ---------- Certificate ---------- *)
Section CertP.
  Variable cert_ok : list N -> bool.

  Definition chain_bytes (cs : list (list N)) : nat := fold_right (fun c n => length c + n) 0 cs.
  Definition entries (cs : list (list N)) : list N := concat (map arr24 cs).

  Lemma entries_length cs : length (entries cs) = 3 * length cs + chain_bytes cs.
  Proof.
    unfold entries. induction cs as [|c cs IH]; [reflexivity|].
    cbn [map concat chain_bytes fold_right length]. rewrite app_length, arr24_length, IH. unfold chain_bytes. lia.
  Qed.

  Lemma cert_entries_spec cs dl e : cert_entries cert_ok cs dl = Some e ->
    e = entries cs /\ forallb cert_ok cs = true /\ (cs <> [] -> dl + length e <= max_hs_data).
  Proof.
    revert dl e; induction cs as [|c cs IH]; intros dl e; cbn [cert_entries].
    - intros [= <-]. repeat split. congruence.
    - destruct (cert_ok c) eqn:Ec; [|discriminate]. cbn [negb].
      destruct (max_hs_data <? dl + 3 + length c) eqn:E; [discriminate|]. apply Nat.ltb_ge in E.
      destruct (cert_entries cert_ok cs (dl + 3 + length c)) as [e'|] eqn:Er; [|discriminate].
      assert (Ha : length (arr24 c) = 3 + length c) by apply arr24_length.
      remember (arr24 c) as a eqn:Ea.
      intros He. injection He as <-. destruct (IH _ _ Er) as (-> & Hf & Hb).
      split; [rewrite Ea; reflexivity|]. split; [change (forallb cert_ok (c :: cs)) with (cert_ok c && forallb cert_ok cs); rewrite Ec, Hf; reflexivity|].
      intros _. rewrite app_length, Ha.
      destruct cs as [|c2 cs2]; [change (entries []) with (@nil N); cbn [length]; lia|].
      specialize (Hb ltac:(discriminate)). lia.
  Qed.

  Lemma get_cert_entries_entries cs : forall fuel total,
    length (entries cs) <= fuel -> forallb cert_ok cs = true -> total + chain_bytes cs <= max_certs ->
    get_cert_entries cert_ok fuel (entries cs) total = Some cs.
  Proof.
    induction cs as [|c cs IH]; intros fuel total Hf Hok Hcap.
    - destruct fuel; reflexivity.
    - cbn [forallb] in Hok. apply andb_true_iff in Hok as [Hc Hr].
      change (entries (c :: cs)) with (arr24 c ++ entries cs) in *.
      rewrite app_length, arr24_length in Hf. cbn [chain_bytes fold_right] in Hcap. fold (chain_bytes cs) in Hcap.
      destruct fuel as [|f]; [lia|].
      assert (Hlt : (N.of_nat (length c) < 16777216)%N) by (unfold max_certs in Hcap; lia).
      cbn [get_cert_entries].
      destruct (arr24 c ++ entries cs) as [|x0 l0] eqn:El.
      { unfold arr24, e24 in El. cbn in El. discriminate. }
      rewrite <- El. rewrite darr24_arr24 by exact Hlt. rewrite Hc. cbn [negb].
      replace (max_certs <? total + length c) with false by (symmetry; apply Nat.ltb_ge; lia).
      rewrite IH; [reflexivity|lia|assumption|lia].
  Qed.

  Theorem get_set_certificate rv certs r : set_certificate cert_ok rv certs = SOk r ->
    chain_bytes certs <= max_certs ->
    get_certificate cert_ok r = Some certs /\ length r = 12 + 3 * length certs + chain_bytes certs.
  Proof.
    unfold set_certificate. destruct certs as [|c0 cs0] eqn:Ec; [discriminate|]. rewrite <- Ec.
    destruct (cert_entries cert_ok certs 3) as [e|] eqn:Ee; [|discriminate].
    intros H Hcap. apply unchecked_ok, get_set_handshake in H. destruct H as (Hg & _ & Hlen & _).
    destruct (cert_entries_spec _ _ _ Ee) as (-> & Hok & Hb). specialize (Hb ltac:(subst certs; discriminate)).
    rewrite arr24_length, entries_length in Hlen. split; [|lia].
    unfold get_certificate. rewrite Hg. unfold parse_certificate. cbn [N.eqb Pos.eqb negb].
    rewrite <- (app_nil_r (arr24 (entries certs))).
    rewrite darr24_arr24 by (unfold max_hs_data in Hb; lia).
    apply get_cert_entries_entries; [lia|assumption|lia].
  Qed.
End CertP.

(* ---------- ServerHello ---------- *)
Lemma nonempty_cons {A} (l : list A) : l <> [] -> exists x r, l = x :: r.
Proof. destruct l; [congruence|eauto]. Qed.

Theorem get_set_server_hello rv protocol random sid cipher exts r :
  set_server_hello rv protocol random sid cipher exts = SOk r ->
  length random = 32 -> (rv <= protocol)%N -> exts <> Some [] ->
  (forall x, exts = Some x -> (N.of_nat (length x) < 65536)%N) ->
  get_server_hello r = Some (protocol, random, sid, cipher, exts).
Proof.
  unfold set_server_hello.
  destruct (match sid with [] => false | _ => 32 <? length sid end) eqn:Es; [discriminate|].
  destruct (protocol_known protocol) eqn:Ep; [|discriminate].
  destruct (cipher_known cipher) eqn:Ec; [|discriminate]. cbn [negb].
  intros H Hr Hv Hne Hx.
  assert (Hsid : length sid <= 32).
  { destruct sid as [|s0 s']; [cbn; lia|]. apply Nat.ltb_ge in Es. exact Es. }
  pose proof (protocol_known_lt _ Ep) as Hpl. pose proof (cipher_known_lt _ Ec) as Hcl.
  assert (Hbody : forall tail, parse_server_hello rv 2
            (e16N protocol ++ random ++ arr8 sid ++ e16N cipher ++ [0%N] ++ tail) =
            match tail with
            | [] => Some (protocol, random, sid, cipher, None)
            | _ => match darr16 tail with
                   | Some (x, p6) => match x with [] => None | _ => match p6 with [] => Some (protocol, random, sid, cipher, Some x) | _ => None end end
                   | None => None end
            end).
  { intros tail. unfold parse_server_hello. cbn [N.eqb Pos.eqb negb].
    rewrite d16_e16N by exact Hpl.
    rewrite (darr_n 32%N random) by (rewrite Hr; reflexivity).
    rewrite darr8_arr8 by lia. rewrite d16_e16N by exact Hcl. cbn [app d8].
    rewrite Ep. replace (protocol <? rv)%N with false by (symmetry; apply N.ltb_ge; exact Hv).
    replace (32 <? length sid) with false by (symmetry; apply Nat.ltb_ge; exact Hsid).
    rewrite Ec. reflexivity. }
  destruct exts as [x|].
  - destruct (protocol <? TLS_protocol_tls12)%N; [discriminate|].
    apply checked_ok, get_set_handshake in H. destruct H as (Hg & _ & _ & Hrv).
    unfold get_server_hello. rewrite Hg, Hrv. rewrite <- !app_assoc. rewrite Hbody.
    destruct (nonempty_cons x ltac:(congruence)) as (x0 & x' & Ex).
    assert (Ht : arr16 x = N.of_nat (length x / 256 mod 256) :: N.of_nat (length x mod 256) :: x) by reflexivity.
    rewrite Ht. rewrite <- Ht. rewrite darr16_whole by (apply Hx; reflexivity). rewrite Ex. reflexivity.
  - apply checked_ok, get_set_handshake in H. destruct H as (Hg & _ & _ & Hrv).
    unfold get_server_hello. rewrite Hg, Hrv.
    replace (e16N protocol ++ random ++ arr8 sid ++ e16N cipher ++ [0%N])
      with (e16N protocol ++ random ++ arr8 sid ++ e16N cipher ++ [0%N] ++ []) by (rewrite app_nil_r; reflexivity).
    rewrite Hbody. reflexivity.
Qed.

(* ---------- ClientHello ---------- *)
Lemma flat_e16N_length cs : length (flat_map e16N cs) = 2 * length cs.
Proof. induction cs as [|c cs IH]; [reflexivity|]. cbn [flat_map]. rewrite app_length, IH, e16N_length. cbn [length]. lia. Qed.

Theorem get_set_client_hello rv protocol random sid ciphers exts r :
  set_client_hello rv protocol random sid ciphers exts = SOk r ->
  length random = 32 ->
  get_client_hello r = Some (protocol, random, sid, flat_map e16N ciphers, exts).
Proof.
  unfold set_client_hello. destruct ciphers as [|c0 cs0] eqn:Ecs; [discriminate|]. rewrite <- Ecs.
  destruct (match sid with [] => false | _ => negb (length sid =? 32) end) eqn:Es; [discriminate|].
  destruct (64 <? length ciphers) eqn:E64; [discriminate|]. apply Nat.ltb_ge in E64.
  destruct (match exts with Some [] => true | _ => false end) eqn:Ee; [discriminate|].
  destruct (protocol_known protocol) eqn:Ep; [|discriminate].
  destruct (forallb cipher_known ciphers); [|discriminate]. cbn [negb].
  intros H Hr.
  assert (Hsid : length sid <= 32).
  { destruct sid as [|s0 s']; [cbn; lia|]. apply negb_false_iff, Nat.eqb_eq in Es. lia. }
  pose proof (protocol_known_lt _ Ep) as Hpl.
  set (cb := flat_map e16N ciphers) in *.
  assert (Hcb : length cb = 2 * length ciphers) by apply flat_e16N_length.
  assert (Hbody : forall tail, parse_client_hello rv 1
            (e16N protocol ++ random ++ arr8 sid ++ e16 (2 * length ciphers) ++ cb ++ [1%N; 0%N] ++ tail) =
            match tail with
            | [] => Some (protocol, random, sid, cb, None)
            | _ => match darr16 tail with
                   | Some (x, p6) => match x with [] => None | _ => match p6 with [] => Some (protocol, random, sid, cb, Some x) | _ => None end end
                   | None => None end
            end).
  { intros tail. unfold parse_client_hello. cbn [N.eqb Pos.eqb negb].
    rewrite d16_e16N by exact Hpl.
    rewrite (darr_n 32%N random) by (rewrite Hr; reflexivity).
    rewrite darr8_arr8 by lia.
    rewrite <- Hcb. rewrite (app_assoc (e16 (length cb)) cb). fold (arr16 cb). rewrite darr16_arr16 by lia.
    change ([1%N; 0%N] ++ tail) with (arr8 [0%N] ++ tail). rewrite darr8_arr8 by (cbn; lia).
    rewrite Ep. replace (32 <? length sid) with false by (symmetry; apply Nat.ltb_ge; exact Hsid).
    replace (length cb mod 2 =? 0) with true by (symmetry; apply Nat.eqb_eq; lia). reflexivity. }
  destruct exts as [x|].
  - destruct (protocol <? TLS_protocol_tls12)%N; [discriminate|].
    destruct (max_hs_data <? _) eqn:Em; [discriminate|]. apply Nat.ltb_ge in Em. unfold max_hs_data in Em.
    apply checked_ok, get_set_handshake in H. destruct H as (Hg & _ & _ & Hrv).
    unfold get_client_hello. rewrite Hg, Hrv. rewrite <- !app_assoc. rewrite Hbody.
    destruct x as [|x0 x']; [discriminate|].
    assert (Ht : arr16 (x0 :: x') = N.of_nat (length (x0 :: x') / 256 mod 256) :: N.of_nat (length (x0 :: x') mod 256) :: x0 :: x') by reflexivity.
    rewrite Ht. rewrite <- Ht. rewrite darr16_whole by lia. reflexivity.
  - apply checked_ok, get_set_handshake in H. destruct H as (Hg & _ & _ & Hrv).
    unfold get_client_hello. rewrite Hg, Hrv.
    replace (e16N protocol ++ random ++ arr8 sid ++ e16 (2 * length ciphers) ++ cb ++ [1%N; 0%N])
      with (e16N protocol ++ random ++ arr8 sid ++ e16 (2 * length ciphers) ++ cb ++ [1%N; 0%N] ++ []) by reflexivity.
    rewrite Hbody. reflexivity.
Qed.

Lemma app_eq_len_l {A} (a b x y : list A) : a ++ x = b ++ y -> length a = length b -> a = b /\ x = y.
Proof.
  intros He Hl. split.
  - apply (f_equal (firstn (length a))) in He.
    rewrite firstn_app, Nat.sub_diag, firstn_O, app_nil_r, firstn_all in He.
    rewrite Hl, firstn_app, Nat.sub_diag, firstn_O, app_nil_r, firstn_all in He. exact He.
  - apply (f_equal (skipn (length a))) in He.
    rewrite skipn_app, Nat.sub_diag, skipn_all in He. cbn [skipn app] in He.
    rewrite Hl, skipn_app, Nat.sub_diag, skipn_all in He. exact He.
Qed.

(* ---------- what get_handshake looks at: under the buffer contract, only the message ---------- *)
Lemma rec_data_wf r : rec_wf r -> rec_data r = hs_message r /\ length (hs_message r) = rec_len r.
Proof.
  unfold rec_wf, rec_data, hs_message. intros H.
  assert (Hl : length (skipn 5 r) = rec_len r) by (rewrite skipn_length; lia).
  split; [apply firstn_all2; lia|exact Hl].
Qed.

Definition parse_frame (m : list N) : option (N * list N) :=
  let t := nth 0 m 0%N in
  match d24 (skipn 1 m) with
  | Some (dl, body) => if N.eqb (N.of_nat (length m - 4)) dl then Some (t, body) else None
  | None => None
  end.

Lemma get_handshake_message r tp : rec_wf r -> get_handshake r = Some tp -> parse_frame (hs_message r) = Some tp.
Proof.
  intros Hw. destruct (rec_data_wf r Hw) as [Hd Hl]. unfold get_handshake, parse_frame.
  destruct (protocol_known (rec_version r)); [|discriminate]. destruct (N.eqb (rec_type r) 22); [|discriminate]. cbn [negb].
  destruct (rec_len r <? 4); [discriminate|]. destruct (max_plaintext <? rec_len r); [discriminate|].
  rewrite Hd. destruct (hs_type_known _); [|discriminate]. cbn [negb]. rewrite Hl. auto.
Qed.

(* the receiver's (type, body) of a record depends on the message bytes only *)
Theorem get_handshake_message_det r r' tp tp' : rec_wf r -> rec_wf r' -> hs_message r = hs_message r' ->
  get_handshake r = Some tp -> get_handshake r' = Some tp' -> tp = tp'.
Proof.
  intros Hw Hw' Hm Hg Hg'. apply get_handshake_message in Hg; [|assumption]. apply get_handshake_message in Hg'; [|assumption].
  congruence.
Qed.

(* ---------- handshake messages are self-delimiting: a transcript determines its messages ---------- *)
Definition msg_wf (m : list N) : Prop :=
  exists t body, m = [t] ++ e24 (length body) ++ body /\ (N.of_nat (length body) < 16777216)%N.

Lemma e24_inj a b : (N.of_nat a < 16777216)%N -> (N.of_nat b < 16777216)%N -> e24 a = e24 b -> a = b.
Proof.
  intros Ha Hb H. pose proof (d24_e24 a [] Ha) as Da. pose proof (d24_e24 b [] Hb) as Db.
  rewrite H in Da. rewrite Da in Db. injection Db as Db. lia.
Qed.

Lemma msg_wf_split m m' rest rest' : msg_wf m -> msg_wf m' -> m ++ rest = m' ++ rest' -> m = m' /\ rest = rest'.
Proof.
  intros (t & body & -> & Hb) (t' & body' & -> & Hb') H.
  remember (e24 (length body)) as E eqn:HE. remember (e24 (length body')) as E' eqn:HE'.
  assert (HlE : length E = 3) by (subst E; reflexivity). assert (HlE' : length E' = 3) by (subst E'; reflexivity).
  rewrite <- !app_assoc in H. change ([t] ++ E ++ body ++ rest) with (t :: (E ++ body ++ rest)) in H.
  change ([t'] ++ E' ++ body' ++ rest') with (t' :: (E' ++ body' ++ rest')) in H.
  injection H as Ht H.
  destruct (app_eq_len_l _ _ _ _ H ltac:(congruence)) as [He Hr].
  subst E E'. apply e24_inj in He; [|assumption|assumption].
  destruct (app_eq_len_l _ _ _ _ Hr He) as [-> ->]. subst t'. split; reflexivity.
Qed.

(* a transcript (concatenation of well-framed messages) determines the list of its messages *)
Theorem frames_unique ms : forall ms', Forall msg_wf ms -> Forall msg_wf ms' -> concat ms = concat ms' -> ms = ms'.
Proof.
  induction ms as [|m ms IH]; intros ms' Hw Hw' H.
  - destruct ms' as [|m' ms']; [reflexivity|]. exfalso. inversion Hw' as [|? ? (t & body & -> & _) _]. cbn in H. discriminate.
  - destruct ms' as [|m' ms'].
    + exfalso. inversion Hw as [|? ? (t & body & -> & _) _]. cbn in H. discriminate.
    + inversion Hw as [|? ? Hm Hms]. inversion Hw' as [|? ? Hm' Hms']. subst.
      cbn [concat] in H. destruct (msg_wf_split _ _ _ _ Hm Hm' H) as [-> Hr]. f_equal. apply IH; assumption.
Qed.

(* what a setter produced is a well-framed message *)
Lemma set_handshake_msg_wf rv t data r : set_handshake rv t data = Some r -> msg_wf (hs_message r).
Proof.
  intros H. apply set_handshake_frame in H. destruct H as (-> & Hl & Hp & _).
  destruct (frame_facts rv t data (protocol_known_lt _ Hp) Hl) as (_ & _ & _ & _ & _ & Hm).
  exists t, data. split; [exact Hm|unfold max_hs_data in Hl; lia].
Qed.

(* ---------- strictness of the framing layer: what tls_record_get_handshake accepts is exactly what
   tls_record_set_handshake produces ---------- *)
Definition bytes_ok (l : list N) : Prop := Forall (fun b => (b < 256)%N) l.

Lemma e24_of_bytes a b c n : (a < 256)%N -> (b < 256)%N -> (c < 256)%N ->
  N.of_nat n = ((a * 256 + b) * 256 + c)%N -> e24 n = [a; b; c].
Proof. intros Ha Hb Hc Hn. unfold e24. f_equal; [|f_equal; [|f_equal]]; lia. Qed.
Lemma e16_of_bytes a b n : (a < 256)%N -> (b < 256)%N -> n = N.to_nat a * 256 + N.to_nat b -> e16 n = [a; b].
Proof. intros Ha Hb Hn. unfold e16, u16. f_equal; [|f_equal]; lia. Qed.
Lemma e16N_of_bytes a b : (a < 256)%N -> (b < 256)%N -> e16N (a * 256 + b) = [a; b].
Proof. intros Ha Hb. unfold e16N. f_equal; [|f_equal]; lia. Qed.

Theorem get_handshake_canonical r t body : rec_wf r -> bytes_ok r -> get_handshake r = Some (t, body) ->
  r = frame (rec_version r) t body /\ set_handshake (rec_version r) t body = Some r.
Proof.
  intros Hw Hb Hg.
  assert (Hfr : r = frame (rec_version r) t body /\ length body <= max_hs_data /\
                protocol_known (rec_version r) = true /\ hs_type_known t = true).
  { unfold get_handshake in Hg.
    destruct (protocol_known (rec_version r)) eqn:Ep; [|discriminate].
    destruct (N.eqb (rec_type r) 22) eqn:Et; [|discriminate]. cbn [negb] in Hg. apply N.eqb_eq in Et.
    destruct (rec_len r <? 4) eqn:E4; [discriminate|]. apply Nat.ltb_ge in E4.
    destruct (max_plaintext <? rec_len r) eqn:Em; [discriminate|]. apply Nat.ltb_ge in Em.
    destruct (rec_data_wf r Hw) as [Hd Hl]. rewrite Hd in Hg.
    unfold rec_wf in Hw. unfold hs_message in *.
    destruct r as [|a0 [|a1 [|a2 [|a3 [|a4 m]]]]]; try (cbn [length] in Hw; lia).
    cbn [skipn] in Hg, Hl.
    destruct m as [|t0 [|b0 [|b1 [|b2 bd]]]]; try (cbn [length] in Hl; lia).
    cbn [nth skipn d24] in Hg.
    destruct (hs_type_known t0) eqn:Eh; [|discriminate]. cbn [negb] in Hg.
    destruct (N.eqb _ _) eqn:El in Hg; [|discriminate]. apply N.eqb_eq in El.
    injection Hg as -> ->.
    unfold rec_type in Et. cbn [nth] in Et. subst a0.
    unfold rec_len in Hl, E4, Em, El. cbn [nth] in Hl, E4, Em, El. cbn [length] in Hl.
    unfold bytes_ok in Hb.
    repeat match goal with H : Forall _ (_ :: _) |- _ => inversion H; clear H; subst end.
    unfold max_plaintext in Em. unfold max_hs_data.
    split; [|split; [lia|split; [reflexivity|exact Eh]]].
    unfold frame, rec_version. cbn [nth app].
    rewrite (e16N_of_bytes a1 a2) by assumption.
    rewrite (e16_of_bytes a3 a4) by (try assumption; lia).
    rewrite (e24_of_bytes b0 b1 b2) by (try assumption; lia).
    reflexivity. }
  destruct Hfr as (Hr & Hl & Hp & Ht). split; [exact Hr|].
  unfold set_handshake. rewrite Hp, Ht. cbn [negb].
  replace (max_hs_data <? length body) with false by (symmetry; apply Nat.ltb_ge; exact Hl).
  rewrite (N.mod_small t 256 (hs_type_known_lt t Ht)). f_equal. symmetry. exact Hr.
Qed.

(* a record through which an endpoint saw handshake message (t, body): either it made the record with
   tls_record_set_handshake, or it received it (buffer contract, bytes) and tls_record_get_handshake
   returned (t, body) *)
Definition hs_rec (r : list N) (t : N) (body : list N) : Prop :=
  (exists rv, set_handshake rv t body = Some r) \/
  (rec_wf r /\ bytes_ok r /\ get_handshake r = Some (t, body)).

Lemma hs_rec_made r t body : hs_rec r t body -> exists rv, set_handshake rv t body = Some r.
Proof.
  intros [H|(Hw & Hb & Hg)]; [exact H|]. exists (rec_version r). apply get_handshake_canonical; assumption.
Qed.

Lemma hs_rec_message r t body : hs_rec r t body ->
  hs_message r = [t] ++ e24 (length body) ++ body /\ (N.of_nat (length body) < 16777216)%N.
Proof.
  intros H. destruct (hs_rec_made _ _ _ H) as [rv Hs]. apply set_handshake_frame in Hs.
  destruct Hs as (-> & Hl & Hp & _).
  destruct (frame_facts rv t body (protocol_known_lt _ Hp) Hl) as (_ & _ & _ & _ & _ & Hm).
  split; [exact Hm|unfold max_hs_data in Hl; lia].
Qed.

Lemma hs_rec_msg_wf r t body : hs_rec r t body -> msg_wf (hs_message r).
Proof. intros H. destruct (hs_rec_message _ _ _ H) as [Hm Hl]. exists t, body. auto. Qed.

(* the message bytes determine what was seen *)
Theorem hs_rec_det r r' t t' body body' : hs_rec r t body -> hs_rec r' t' body' ->
  hs_message r = hs_message r' -> t = t' /\ body = body'.
Proof.
  intros H H' He. destruct (hs_rec_message _ _ _ H) as [Hm Hl]. destruct (hs_rec_message _ _ _ H') as [Hm' Hl'].
  rewrite Hm, Hm' in He.
  change ([t] ++ e24 (length body) ++ body) with (t :: (e24 (length body) ++ body)) in He.
  change ([t'] ++ e24 (length body') ++ body') with (t' :: (e24 (length body') ++ body')) in He.
  remember (e24 (length body)) as E. remember (e24 (length body')) as E'.
  injection He as Ht He. subst E E'.
  destruct (app_eq_len_l _ _ _ _ He ltac:(rewrite !e24_length; reflexivity)) as [_ Hb]. auto.
Qed.

(* the log of an endpoint: the handshake records it made or accepted, in order, each with what it saw *)
Definition hs_log := list (list N * (N * list N)).
Definition log_ok (l : hs_log) : Prop := Forall (fun x => hs_rec (fst x) (fst (snd x)) (snd (snd x))) l.
Definition log_bytes (l : hs_log) : list N := concat (map (fun x => hs_message (fst x)) l).
Definition log_seen (l : hs_log) : list (N * list N) := map snd l.

Theorem same_bytes_same_seen (la lb : hs_log) : log_ok la -> log_ok lb -> log_bytes la = log_bytes lb ->
  log_seen la = log_seen lb.
Proof.
  intros Ha Hb He. unfold log_bytes in He.
  assert (Hm : map (fun x => hs_message (fst x)) la = map (fun x => hs_message (fst x)) lb).
  { apply frames_unique; [| |exact He]; apply Forall_map.
    - eapply Forall_impl; [|exact Ha]. intros x Hx. eapply hs_rec_msg_wf; exact Hx.
    - eapply Forall_impl; [|exact Hb]. intros x Hx. eapply hs_rec_msg_wf; exact Hx. }
  clear He. revert lb Hb Hm. unfold log_seen. induction la as [|[r [t b]] la IH]; intros lb Hb Hm.
  - destruct lb; [reflexivity|discriminate].
  - destruct lb as [|[r' [t' b']] lb]; [discriminate|]. cbn [map fst snd] in *. injection Hm as Hm1 Hm2.
    inversion Ha as [|? ? Hx Hxs]. inversion Hb as [|? ? Hy Hys]. subst. cbn [fst snd] in Hx, Hy.
    destruct (hs_rec_det _ _ _ _ _ _ Hx Hy Hm1) as [-> ->]. f_equal. apply IH; assumption.
Qed.

(* ---------- composition with the Finished exchange (Tls/Handshake.v) ----------
   Endpoint a (first finisher) and endpoint b each hold the log of the handshake records they made or
   accepted before the Finished exchange; their transcripts are the message bytes of these logs.  If both
   complete -- under the premises of both_done_same_transcript_partial -- they saw the same sequence of
   (type, body): no handshake record was altered, dropped, added or reordered in between. *)
From GmVerif Require Import Tls.Handshake Tls.HandshakeProofs.

Theorem both_done_same_messages_partial
  (H : list N -> list N) (F1 F2 : list N -> list N -> list N) (fin_msg : list N -> list N)
  (a b : party) (la lb : hs_log) fin1_recv fin2_recv :
  log_ok la -> log_ok lb -> transcript a = log_bytes la -> transcript b = log_bytes lb ->
  second_done H F1 b fin1_recv = true -> first_done H F1 F2 fin_msg a fin2_recv = true ->
  fin2_recv = second_send H F2 fin_msg b fin1_recv ->
  (F2 (sec2 b) (H (transcript b ++ fin_msg fin1_recv)) =
   F2 (sec2 a) (H (transcript a ++ fin_msg (first_send H F1 a))) ->
   sec2 b = sec2 a /\ H (transcript b ++ fin_msg fin1_recv) = H (transcript a ++ fin_msg (first_send H F1 a))) ->
  (H (transcript b ++ fin_msg fin1_recv) = H (transcript a ++ fin_msg (first_send H F1 a)) ->
   transcript b ++ fin_msg fin1_recv = transcript a ++ fin_msg (first_send H F1 a)) ->
  length (fin_msg fin1_recv) = length (fin_msg (first_send H F1 a)) ->
  (fin_msg fin1_recv = fin_msg (first_send H F1 a) -> fin1_recv = first_send H F1 a) ->
  log_seen lb = log_seen la /\ fin1_recv = first_send H F1 a /\ sec2 b = sec2 a.
Proof.
  intros Hla Hlb Hta Htb Hb Ha Hfwd HF HH Hlen Hinj.
  destruct (both_done_same_transcript_partial H F1 F2 fin_msg a b fin1_recv fin2_recv Hb Ha Hfwd HF HH Hlen Hinj)
    as (Ht & Hf & Hs).
  split; [|split; assumption]. apply same_bytes_same_seen; [assumption|assumption|]. congruence.
Qed.

(* the same, read as detection: if the two endpoints did not see the same sequence of handshake
   messages -- some record was altered so that tls_record_get_handshake returned another (type, body), or
   one was dropped, added or reordered -- then they do not both complete *)
Theorem altered_handshake_record_detected_partial
  (H : list N -> list N) (F1 F2 : list N -> list N -> list N) (fin_msg : list N -> list N)
  (a b : party) (la lb : hs_log) fin1_recv fin2_recv :
  log_ok la -> log_ok lb -> transcript a = log_bytes la -> transcript b = log_bytes lb ->
  log_seen lb <> log_seen la ->
  fin2_recv = second_send H F2 fin_msg b fin1_recv ->
  (F2 (sec2 b) (H (transcript b ++ fin_msg fin1_recv)) =
   F2 (sec2 a) (H (transcript a ++ fin_msg (first_send H F1 a))) ->
   sec2 b = sec2 a /\ H (transcript b ++ fin_msg fin1_recv) = H (transcript a ++ fin_msg (first_send H F1 a))) ->
  (H (transcript b ++ fin_msg fin1_recv) = H (transcript a ++ fin_msg (first_send H F1 a)) ->
   transcript b ++ fin_msg fin1_recv = transcript a ++ fin_msg (first_send H F1 a)) ->
  length (fin_msg fin1_recv) = length (fin_msg (first_send H F1 a)) ->
  (fin_msg fin1_recv = fin_msg (first_send H F1 a) -> fin1_recv = first_send H F1 a) ->
  second_done H F1 b fin1_recv = false \/ first_done H F1 F2 fin_msg a fin2_recv = false.
Proof.
  intros Hla Hlb Hta Htb Hne Hfwd HF HH Hlen Hinj.
  destruct (second_done H F1 b fin1_recv) eqn:Eb; [|left; reflexivity].
  destruct (first_done H F1 F2 fin_msg a fin2_recv) eqn:Ea; [|right; reflexivity].
  exfalso. apply Hne.
  exact (proj1 (both_done_same_messages_partial H F1 F2 fin_msg a b la lb fin1_recv fin2_recv
                  Hla Hlb Hta Htb Eb Ea Hfwd HF HH Hlen Hinj)).
Qed.

(* ---------- injectivity: one record is the encoding of one field tuple ---------- *)
Ltac inj_by L := let A := fresh in let B := fresh in
  intros A B; apply L in A; apply L in B; try assumption; destruct A as [A _]; destruct B as [B _];
  rewrite A in B; injection B; auto.

Theorem set_handshake_inj rv rv' t t' d d' r : set_handshake rv t d = Some r -> set_handshake rv' t' d' = Some r ->
  rv = rv' /\ t = t' /\ d = d'.
Proof.
  intros A B. apply get_set_handshake in A. apply get_set_handshake in B.
  destruct A as (A & _ & _ & Av). destruct B as (B & _ & _ & Bv). rewrite A in B. injection B as -> ->.
  repeat split; congruence.
Qed.
Theorem set_finished_inj rv rv' x y r : set_finished rv x = SOk r -> set_finished rv' y = SOk r -> x = y.
Proof. inj_by get_set_finished. Qed.
Theorem set_certificate_verify_inj rv rv' x y r :
  set_certificate_verify rv x = SOk r -> set_certificate_verify rv' y = SOk r -> x = y.
Proof. inj_by get_set_certificate_verify. Qed.
Theorem set_cke_pke_inj rv rv' x y r : set_cke_pke rv x = SOk r -> set_cke_pke rv' y = SOk r -> x = y.
Proof. inj_by get_set_cke_pke. Qed.
Theorem set_ske_pke_inj rv rv' x y r : set_ske_pke rv x = SOk r -> set_ske_pke rv' y = SOk r -> x = y.
Proof. inj_by get_set_ske_pke. Qed.

Theorem set_certificate_request_inj rv rv' ty ty' nm nm' r :
  set_certificate_request rv ty nm = SOk r -> set_certificate_request rv' ty' nm' = SOk r ->
  ty <> [] -> length ty <= 255 -> forallb cert_type_known ty = true -> names_wf (length nm) nm = true ->
  ty' <> [] -> length ty' <= 255 -> forallb cert_type_known ty' = true -> names_wf (length nm') nm' = true ->
  ty = ty' /\ nm = nm'.
Proof.
  intros A B H1 H2 H3 H4 H1' H2' H3' H4'.
  destruct (get_set_certificate_request _ _ _ _ A H1 H2 H3 H4) as [A' _].
  destruct (get_set_certificate_request _ _ _ _ B H1' H2' H3' H4') as [B' _].
  rewrite A' in B'. injection B'; auto.
Qed.

Theorem set_cke_ecdhe_inj (point_ok : list N -> bool) rv rv' pt pt' r :
  set_cke_ecdhe rv pt = SOk r -> set_cke_ecdhe rv' pt' = SOk r ->
  length pt = 65 -> point_ok pt = true -> length pt' = 65 -> point_ok pt' = true -> pt = pt'.
Proof.
  intros A B H1 H2 H1' H2'.
  destruct (get_set_cke_ecdhe point_ok _ _ _ A H1 H2) as [A' _].
  destruct (get_set_cke_ecdhe point_ok _ _ _ B H1' H2') as [B' _]. rewrite A' in B'. injection B'; auto.
Qed.

Theorem set_ske_ecdhe_inj (point_ok : list N -> bool) rv rv' pt pt' sg sg' r :
  set_ske_ecdhe rv 41 pt sg = SOk r -> set_ske_ecdhe rv' 41 pt' sg' = SOk r ->
  length pt = 65 -> point_ok pt = true -> length pt' = 65 -> point_ok pt' = true -> pt = pt' /\ sg = sg'.
Proof.
  intros A B H1 H2 H1' H2'.
  destruct (get_set_ske_ecdhe point_ok _ _ _ _ _ A eq_refl H1 H2) as [A' _].
  destruct (get_set_ske_ecdhe point_ok _ _ _ _ _ B eq_refl H1' H2') as [B' _]. rewrite A' in B'. injection B'; auto.
Qed.

Theorem set_certificate_inj (cert_ok : list N -> bool) rv rv' cs cs' r :
  set_certificate cert_ok rv cs = SOk r -> set_certificate cert_ok rv' cs' = SOk r ->
  chain_bytes cs <= max_certs -> chain_bytes cs' <= max_certs -> cs = cs'.
Proof.
  intros A B H1 H1'.
  destruct (get_set_certificate cert_ok _ _ _ A H1) as [A' _].
  destruct (get_set_certificate cert_ok _ _ _ B H1') as [B' _]. rewrite A' in B'. injection B'; auto.
Qed.

Theorem set_server_hello_inj rv rv' pv pv' rnd rnd' sid sid' c c' ex ex' r :
  set_server_hello rv pv rnd sid c ex = SOk r -> set_server_hello rv' pv' rnd' sid' c' ex' = SOk r ->
  length rnd = 32 -> (rv <= pv)%N -> ex <> Some [] -> (forall x, ex = Some x -> (N.of_nat (length x) < 65536)%N) ->
  length rnd' = 32 -> (rv' <= pv')%N -> ex' <> Some [] -> (forall x, ex' = Some x -> (N.of_nat (length x) < 65536)%N) ->
  pv = pv' /\ rnd = rnd' /\ sid = sid' /\ c = c' /\ ex = ex'.
Proof.
  intros A B H1 H2 H3 H4 H1' H2' H3' H4'.
  pose proof (get_set_server_hello _ _ _ _ _ _ _ A H1 H2 H3 H4) as A'.
  pose proof (get_set_server_hello _ _ _ _ _ _ _ B H1' H2' H3' H4') as B'.
  rewrite A' in B'. injection B'; auto.
Qed.

Lemma flat_e16N_inj cs : forall cs', Forall (fun c => (c < 65536)%N) cs -> Forall (fun c => (c < 65536)%N) cs' ->
  flat_map e16N cs = flat_map e16N cs' -> cs = cs'.
Proof.
  induction cs as [|c cs IH]; intros [|c' cs'] Hc Hc' H; try reflexivity; try discriminate.
  inversion Hc; inversion Hc'; subst. cbn [flat_map] in H. unfold e16N at 1 3 in H. cbn [app] in H.
  injection H as Ha Hb Hr. f_equal; [lia|apply IH; assumption].
Qed.

Lemma set_client_hello_ciphers rv pv rnd sid cs ex r : set_client_hello rv pv rnd sid cs ex = SOk r ->
  Forall (fun c => (c < 65536)%N) cs.
Proof.
  unfold set_client_hello. destruct cs as [|c0 cs0]; [discriminate|]. remember (c0 :: cs0) as cs.
  destruct (match sid with [] => false | _ => _ end); [discriminate|].
  destruct (64 <? length cs); [discriminate|]. destruct (match ex with Some [] => true | _ => false end); [discriminate|].
  destruct (protocol_known pv); [|discriminate]. destruct (forallb cipher_known cs) eqn:E; [|discriminate].
  intros _. rewrite forallb_forall in E. apply Forall_forall. intros x Hx. apply cipher_known_lt. auto.
Qed.

Theorem set_client_hello_inj rv rv' pv pv' rnd rnd' sid sid' cs cs' ex ex' r :
  set_client_hello rv pv rnd sid cs ex = SOk r -> set_client_hello rv' pv' rnd' sid' cs' ex' = SOk r ->
  length rnd = 32 -> length rnd' = 32 ->
  pv = pv' /\ rnd = rnd' /\ sid = sid' /\ cs = cs' /\ ex = ex'.
Proof.
  intros A B H1 H1'.
  pose proof (set_client_hello_ciphers _ _ _ _ _ _ _ A) as Hc. pose proof (set_client_hello_ciphers _ _ _ _ _ _ _ B) as Hc'.
  pose proof (get_set_client_hello _ _ _ _ _ _ _ A H1) as A'.
  pose proof (get_set_client_hello _ _ _ _ _ _ _ B H1') as B'.
  rewrite A' in B'. injection B' as -> -> -> Hcs ->. repeat split; try reflexivity. apply flat_e16N_inj; assumption.
Qed.

(* ---------- every setter goes through tls_record_set_handshake: 5 + 2^14 is never exceeded ---------- *)
Ltac via H :=
  repeat first [ discriminate H
               | match type of H with
                 | (match ?x with _ => _ end) = _ => destruct x
                 end ];
  first [apply checked_ok in H | apply unchecked_ok in H]; eauto.

Lemma set_client_hello_via rv pv rnd sid cs ex r : set_client_hello rv pv rnd sid cs ex = SOk r ->
  exists t d, set_handshake rv t d = Some r.
Proof. intros H. unfold set_client_hello in H. via H. Qed.
Lemma set_server_hello_via rv pv rnd sid c ex r : set_server_hello rv pv rnd sid c ex = SOk r ->
  exists t d, set_handshake rv t d = Some r.
Proof. intros H. unfold set_server_hello in H. via H. Qed.
Lemma set_certificate_via cert_ok rv cs r : set_certificate cert_ok rv cs = SOk r -> exists t d, set_handshake rv t d = Some r.
Proof. intros H. unfold set_certificate in H. via H. Qed.
Lemma set_ske_ecdhe_via rv c pt sg r : set_ske_ecdhe rv c pt sg = SOk r -> exists t d, set_handshake rv t d = Some r.
Proof. intros H. unfold set_ske_ecdhe in H. via H. Qed.
Lemma set_cke_ecdhe_via rv pt r : set_cke_ecdhe rv pt = SOk r -> exists t d, set_handshake rv t d = Some r.
Proof. intros H. unfold set_cke_ecdhe in H. via H. Qed.
Lemma set_ske_pke_via rv sg r : set_ske_pke rv sg = SOk r -> exists t d, set_handshake rv t d = Some r.
Proof. intros H. unfold set_ske_pke in H. via H. Qed.
Lemma set_certificate_request_via rv ty nm r : set_certificate_request rv ty nm = SOk r -> exists t d, set_handshake rv t d = Some r.
Proof. intros H. unfold set_certificate_request in H. via H. Qed.
Lemma set_server_hello_done_via rv r : set_server_hello_done rv = SOk r -> exists t d, set_handshake rv t d = Some r.
Proof. intros H. unfold set_server_hello_done in H. via H. Qed.
Lemma set_cke_pke_via rv e r : set_cke_pke rv e = SOk r -> exists t d, set_handshake rv t d = Some r.
Proof. intros H. unfold set_cke_pke in H. via H. Qed.
Lemma set_certificate_verify_via rv sg r : set_certificate_verify rv sg = SOk r -> exists t d, set_handshake rv t d = Some r.
Proof. intros H. unfold set_certificate_verify in H. via H. Qed.
Lemma set_finished_via rv vd r : set_finished rv vd = SOk r -> exists t d, set_handshake rv t d = Some r.
Proof. intros H. unfold set_finished in H. via H. Qed.

(* one statement: whatever any of the setters returns with status 1 is a well-formed record within capacity *)
Definition made_by_setter (cert_ok : list N -> bool) (r : list N) : Prop :=
  (exists rv pv rnd sid cs ex, set_client_hello rv pv rnd sid cs ex = SOk r) \/
  (exists rv pv rnd sid c ex, set_server_hello rv pv rnd sid c ex = SOk r) \/
  (exists rv cs, set_certificate cert_ok rv cs = SOk r) \/
  (exists rv c pt sg, set_ske_ecdhe rv c pt sg = SOk r) \/
  (exists rv pt, set_cke_ecdhe rv pt = SOk r) \/
  (exists rv sg, set_ske_pke rv sg = SOk r) \/
  (exists rv ty nm, set_certificate_request rv ty nm = SOk r) \/
  (exists rv, set_server_hello_done rv = SOk r) \/
  (exists rv e, set_cke_pke rv e = SOk r) \/
  (exists rv sg, set_certificate_verify rv sg = SOk r) \/
  (exists rv vd, set_finished rv vd = SOk r).

Theorem setters_within_capacity cert_ok r : made_by_setter cert_ok r ->
  rec_wf r /\ (N.of_nat (length r) <= 16389)%N /\ rec_type r = 22%N /\ msg_wf (hs_message r).
Proof.
  intros H.
  assert (Hv : exists rv t d, set_handshake rv t d = Some r).
  { unfold made_by_setter in H.
    repeat match goal with H : _ \/ _ |- _ => destruct H as [H|H] end;
    repeat match goal with H : exists _, _ |- _ => destruct H as [? H] end;
    match goal with H : _ = SOk r |- exists rv, _ => eexists end;
    first [ eapply set_client_hello_via; eassumption | eapply set_server_hello_via; eassumption
          | eapply set_certificate_via; eassumption | eapply set_ske_ecdhe_via; eassumption
          | eapply set_cke_ecdhe_via; eassumption | eapply set_ske_pke_via; eassumption
          | eapply set_certificate_request_via; eassumption | eapply set_server_hello_done_via; eassumption
          | eapply set_cke_pke_via; eassumption | eapply set_certificate_verify_via; eassumption
          | eapply set_finished_via; eassumption ]. }
  destruct Hv as (rv & t & d & Hs).
  pose proof (set_handshake_bound _ _ _ _ Hs) as Hb. pose proof (set_handshake_msg_wf _ _ _ _ Hs) as Hm.
  destruct (get_set_handshake _ _ _ _ Hs) as (_ & Hw & _ & _).
  apply set_handshake_frame in Hs. destruct Hs as (Hr & Hl & Hp & _).
  destruct (frame_facts rv t d (protocol_known_lt _ Hp) Hl) as (Ht & _). rewrite <- Hr in Ht. auto.
Qed.

(* ---------- strictness of the getters: decoders read back exactly one encoding ---------- *)
Lemma bytes_ok_app a b : bytes_ok (a ++ b) <-> bytes_ok a /\ bytes_ok b.
Proof. unfold bytes_ok. apply Forall_app. Qed.

Lemma d8_inv l v r : d8 l = Some (v, r) -> l = v :: r.
Proof. destruct l; [discriminate|]. cbn. intros [= -> ->]. reflexivity. Qed.
Lemma d16_inv l v r : bytes_ok l -> d16 l = Some (v, r) -> l = e16N v ++ r /\ (v < 65536)%N /\ bytes_ok r.
Proof.
  intros Hb. destruct l as [|a [|b l]]; try discriminate. cbn [d16]. intros [= <- <-].
  inversion Hb as [|? ? Ha Hb1]; subst. inversion Hb1 as [|? ? Hb2 Hb3]; subst.
  rewrite (e16N_of_bytes a b Ha Hb2). repeat split; [lia|assumption].
Qed.
Lemma darr_inv n l a r : darr n l = Some (a, r) -> l = a ++ r /\ N.of_nat (length a) = n.
Proof.
  unfold darr. destruct (N.ltb_spec (N.of_nat (length l)) n); [discriminate|]. intros [= <- <-].
  split; [symmetry; apply firstn_skipn|]. rewrite firstn_length. lia.
Qed.
Lemma darr8_inv l a r : bytes_ok l -> darr8 l = Some (a, r) -> l = arr8 a ++ r /\ length a < 256 /\ bytes_ok a /\ bytes_ok r.
Proof.
  intros Hb. unfold darr8. destruct (d8 l) as [[n l1]|] eqn:E; [|discriminate]. apply d8_inv in E. subst l.
  intros H. apply darr_inv in H. destruct H as [-> Hn]. inversion Hb as [|? ? Hn1 Hb1]; subst.
  apply bytes_ok_app in Hb1. destruct Hb1.
  assert (length a < 256) by lia. unfold arr8, e8. rewrite Nat.mod_small by assumption. auto.
Qed.
Lemma darr16_inv l a r : bytes_ok l -> darr16 l = Some (a, r) ->
  l = arr16 a ++ r /\ (N.of_nat (length a) < 65536)%N /\ bytes_ok a /\ bytes_ok r.
Proof.
  intros Hb. unfold darr16. destruct (d16 l) as [[n l1]|] eqn:E; [|discriminate].
  destruct (d16_inv _ _ _ Hb E) as (-> & Hn & Hb1).
  intros H. apply darr_inv in H. destruct H as [-> Hl]. apply bytes_ok_app in Hb1. destruct Hb1.
  split; [|split; [lia|auto]]. unfold arr16, e16, u16, e16N. subst n. cbn [app]. f_equal; [|f_equal]; lia.
Qed.
Lemma darr24_inv l a r : bytes_ok l -> darr24 l = Some (a, r) ->
  l = arr24 a ++ r /\ bytes_ok a /\ bytes_ok r.
Proof.
  intros Hb. unfold darr24. destruct l as [|b0 [|b1 [|b2 l1]]]; try discriminate. cbn [d24].
  intros H. apply darr_inv in H. destruct H as [-> Hl].
  unfold bytes_ok in *.
  repeat match goal with H : Forall _ (_ :: _) |- _ => inversion H; clear H; subst end.
  match goal with H : Forall _ (a ++ r) |- _ => apply Forall_app in H; destruct H end.
  split; [|auto]. unfold arr24. rewrite (e24_of_bytes b0 b1 b2 (length a)) by (try assumption; lia). reflexivity.
Qed.

Lemma bytes_ok_body r t body : rec_wf r -> bytes_ok r -> get_handshake r = Some (t, body) -> bytes_ok body.
Proof.
  intros Hw Hb Hg. destruct (get_handshake_canonical r t body Hw Hb Hg) as [Hr _].
  rewrite Hr in Hb. unfold frame in Hb. rewrite !bytes_ok_app in Hb. tauto.
Qed.

(* shape of the proofs below: get_X r = Some x  ->  r = frame version type (the one body encoding x) *)
Ltac open_get Hg t p E :=
  match type of Hg with (match get_handshake ?r with _ => _ end) = _ =>
    destruct (get_handshake r) as [[t p]|] eqn:E; [|discriminate Hg] end.

Theorem get_finished_canonical r vd : rec_wf r -> bytes_ok r -> get_finished r = Some vd ->
  r = frame (rec_version r) 20 vd /\ set_finished (rec_version r) vd = SOk r.
Proof.
  intros Hw Hb Hg. unfold get_finished in Hg. open_get Hg t p E.
  destruct (get_handshake_canonical r t p Hw Hb E) as [Hr Hs]. unfold parse_finished in Hg.
  destruct (N.eqb_spec t 20); [|discriminate]. cbn [negb] in Hg. subst t.
  destruct ((length p =? 12) || (length p =? 32)) eqn:El; [|discriminate]. cbn [negb] in Hg. injection Hg as <-.
  split; [exact Hr|]. unfold set_finished. rewrite El. cbn [negb]. rewrite Hs. reflexivity.
Qed.

Theorem get_server_hello_done_canonical r : rec_wf r -> bytes_ok r -> get_server_hello_done r = Some tt ->
  r = frame (rec_version r) 14 [] /\ set_server_hello_done (rec_version r) = SOk r.
Proof.
  intros Hw Hb Hg. unfold get_server_hello_done in Hg. open_get Hg t p E.
  destruct (get_handshake_canonical r t p Hw Hb E) as [Hr Hs]. unfold parse_server_hello_done in Hg.
  destruct (N.eqb_spec t 14); [|discriminate]. subst t. destruct p; [|discriminate].
  split; [exact Hr|]. unfold set_server_hello_done. rewrite Hs. reflexivity.
Qed.

Lemma parse_arr16_only p x : bytes_ok p -> match darr16 p with Some (e, []) => Some e | _ => None end = Some x ->
  p = arr16 x.
Proof.
  intros Hb H. destruct (darr16 p) as [[e [|? ?]]|] eqn:E; try discriminate. injection H as ->.
  destruct (darr16_inv _ _ _ Hb E) as (-> & _). apply app_nil_r.
Qed.

Theorem get_cke_pke_canonical r e : rec_wf r -> bytes_ok r -> get_cke_pke r = Some e ->
  r = frame (rec_version r) 16 (arr16 e).
Proof.
  intros Hw Hb Hg. unfold get_cke_pke in Hg. open_get Hg t p E.
  destruct (get_handshake_canonical r t p Hw Hb E) as [Hr Hs]. pose proof (bytes_ok_body r t p Hw Hb E) as Hp.
  unfold parse_cke_pke in Hg. destruct (N.eqb_spec t 16); [|discriminate]. subst t. cbn [negb] in Hg.
  apply parse_arr16_only in Hg; [|assumption]. subst p. exact Hr.
Qed.

Theorem get_certificate_verify_canonical r s : rec_wf r -> bytes_ok r -> get_certificate_verify r = Some s ->
  r = frame (rec_version r) 15 (arr16 s).
Proof.
  intros Hw Hb Hg. unfold get_certificate_verify in Hg. open_get Hg t p E.
  destruct (get_handshake_canonical r t p Hw Hb E) as [Hr Hs]. pose proof (bytes_ok_body r t p Hw Hb E) as Hp.
  unfold parse_certificate_verify in Hg. destruct (N.eqb_spec t 15); [|discriminate]. subst t. cbn [negb] in Hg.
  apply parse_arr16_only in Hg; [|assumption]. subst p. exact Hr.
Qed.

Theorem get_ske_pke_canonical r s : rec_wf r -> bytes_ok r -> get_ske_pke r = Some s ->
  r = frame TLS_protocol_tlcp 12 (arr16 s).
Proof.
  intros Hw Hb Hg. unfold get_ske_pke in Hg. open_get Hg t p E.
  destruct (get_handshake_canonical r t p Hw Hb E) as [Hr Hs]. pose proof (bytes_ok_body r t p Hw Hb E) as Hp.
  unfold parse_ske_pke in Hg. destruct (N.eqb_spec t 12); [|discriminate]. subst t. cbn [negb] in Hg.
  destruct (N.eqb_spec (rec_version r) TLS_protocol_tlcp) as [Ev|]; [|discriminate]. cbn [negb] in Hg.
  apply parse_arr16_only in Hg; [|assumption]. subst p. rewrite Ev in Hr. exact Hr.
Qed.

Theorem get_cke_ecdhe_canonical point_ok r pt : rec_wf r -> bytes_ok r -> get_cke_ecdhe point_ok r = Some pt ->
  r = frame (rec_version r) 16 ([65%N] ++ pt) /\ length pt = 65 /\ point_ok pt = true.
Proof.
  intros Hw Hb Hg. unfold get_cke_ecdhe in Hg. open_get Hg t p E.
  destruct (get_handshake_canonical r t p Hw Hb E) as [Hr Hs]. pose proof (bytes_ok_body r t p Hw Hb E) as Hp.
  unfold parse_cke_ecdhe in Hg. destruct (N.eqb_spec t 16); [|discriminate]. subst t. cbn [negb] in Hg.
  destruct (darr8 p) as [[oct [|? ?]]|] eqn:Ed; try discriminate.
  destruct (Nat.eqb_spec (length oct) 65) as [El|]; [|discriminate]. cbn [negb] in Hg.
  destruct (point_ok oct) eqn:Eo; [|discriminate]. injection Hg as <-.
  destruct (darr8_inv _ _ _ Hp Ed) as (Hpp & _). rewrite app_nil_r in Hpp. unfold arr8, e8 in Hpp. rewrite El in Hpp.
  change (N.of_nat (65 mod 256)) with 65%N in Hpp. subst p. auto.
Qed.

Theorem get_ske_ecdhe_canonical point_ok r c pt sg : rec_wf r -> bytes_ok r ->
  get_ske_ecdhe point_ok r = Some (c, pt, sg) ->
  r = frame (rec_version r) 12 ([3%N] ++ e16N 41 ++ [65%N] ++ pt ++ e16N 0x0708 ++ arr16 sg) /\
  c = 41%N /\ length pt = 65 /\ point_ok pt = true.
Proof.
  intros Hw Hb Hg. unfold get_ske_ecdhe in Hg. open_get Hg t p E.
  destruct (get_handshake_canonical r t p Hw Hb E) as [Hr Hs]. pose proof (bytes_ok_body r t p Hw Hb E) as Hp.
  unfold parse_ske_ecdhe in Hg. destruct (N.eqb_spec t 12); [|discriminate]. subst t. cbn [negb] in Hg.
  destruct (d8 p) as [[ctype p1]|] eqn:E1; [|discriminate]. apply d8_inv in E1. subst p.
  inversion Hp as [|? ? Hc Hp1]; subst.
  destruct (d16 p1) as [[curve p2]|] eqn:E2; [|discriminate]. destruct (d16_inv _ _ _ Hp1 E2) as (-> & _ & Hp2).
  destruct (darr8 p2) as [[oct p3]|] eqn:E3; [|discriminate]. destruct (darr8_inv _ _ _ Hp2 E3) as (-> & _ & _ & Hp3).
  destruct (d16 p3) as [[alg p4]|] eqn:E4; [|discriminate]. destruct (d16_inv _ _ _ Hp3 E4) as (-> & _ & Hp4).
  destruct (darr16 p4) as [[sg0 p5]|] eqn:E5; [|discriminate]. destruct (darr16_inv _ _ _ Hp4 E5) as (-> & _ & _ & _).
  destruct p5; [|discriminate].
  destruct (N.eqb_spec ctype 3); [|discriminate]. destruct (N.eqb_spec curve 41); [|discriminate].
  destruct (Nat.eqb_spec (length oct) 65) as [El|]; [|discriminate]. cbn [negb] in Hg.
  destruct (point_ok oct) eqn:Eo; [|discriminate]. destruct (N.eqb_spec alg 0x0708); [|discriminate]. cbn [negb] in Hg.
  injection Hg as <- <- <-. subst. split; [|auto]. rewrite Hr at 1. f_equal.
  rewrite app_nil_r. unfold arr8, e8. rewrite El. change (N.of_nat (65 mod 256)) with 65%N.
  cbn [app]. reflexivity.
Qed.

Theorem get_certificate_request_canonical r ty nm : rec_wf r -> bytes_ok r ->
  get_certificate_request r = Some (ty, nm) ->
  r = frame (rec_version r) 13 (arr8 ty ++ arr16 nm) /\ ty <> [] /\ length ty < 256 /\
  forallb cert_type_known ty = true /\ names_wf (length nm) nm = true.
Proof.
  intros Hw Hb Hg. unfold get_certificate_request in Hg. open_get Hg t p E.
  destruct (get_handshake_canonical r t p Hw Hb E) as [Hr Hs]. pose proof (bytes_ok_body r t p Hw Hb E) as Hp.
  unfold parse_certificate_request in Hg. destruct (N.eqb_spec t 13); [|discriminate]. subst t. cbn [negb] in Hg.
  destruct (darr8 p) as [[types p1]|] eqn:E1; [|discriminate]. destruct (darr8_inv _ _ _ Hp E1) as (-> & Hl & _ & Hp1).
  destruct (darr16 p1) as [[names p2]|] eqn:E2; [|discriminate]. destruct (darr16_inv _ _ _ Hp1 E2) as (-> & _ & _ & _).
  destruct p2; [|discriminate]. destruct types as [|ty0 tys] eqn:Ety; [discriminate|]. rewrite <- Ety in *.
  destruct (forallb cert_type_known types) eqn:Ef; [|discriminate]. cbn [negb] in Hg.
  destruct (names_wf (length names) names) eqn:En; [|discriminate]. cbn [negb] in Hg. injection Hg as <- <-.
  rewrite app_nil_r in Hr. repeat split; try assumption. rewrite Ety. discriminate.
Qed.

Theorem get_server_hello_canonical r ver random sid cipher exts : rec_wf r -> bytes_ok r ->
  get_server_hello r = Some (ver, random, sid, cipher, exts) ->
  r = frame (rec_version r) 2 (e16N ver ++ random ++ arr8 sid ++ e16N cipher ++ [0%N] ++
                               match exts with Some x => arr16 x | None => [] end) /\
  length random = 32 /\ length sid <= 32 /\ (rec_version r <= ver)%N /\ exts <> Some [].
Proof.
  intros Hw Hb Hg. unfold get_server_hello in Hg. open_get Hg t p E.
  destruct (get_handshake_canonical r t p Hw Hb E) as [Hr Hs]. pose proof (bytes_ok_body r t p Hw Hb E) as Hp.
  unfold parse_server_hello in Hg. destruct (N.eqb_spec t 2); [|discriminate]. subst t. cbn [negb] in Hg.
  destruct (d16 p) as [[v p1]|] eqn:E1; [|discriminate]. destruct (d16_inv _ _ _ Hp E1) as (-> & _ & Hp1).
  destruct (darr 32 p1) as [[rnd p2]|] eqn:E2; [|discriminate]. destruct (darr_inv _ _ _ _ E2) as (-> & Hlr).
  apply bytes_ok_app in Hp1. destruct Hp1 as [_ Hp2].
  destruct (darr8 p2) as [[sd p3]|] eqn:E3; [|discriminate]. destruct (darr8_inv _ _ _ Hp2 E3) as (-> & _ & _ & Hp3).
  destruct (d16 p3) as [[cs p4]|] eqn:E4; [|discriminate]. destruct (d16_inv _ _ _ Hp3 E4) as (-> & _ & Hp4).
  destruct (d8 p4) as [[comp p5]|] eqn:E5; [|discriminate]. apply d8_inv in E5. subst p4.
  inversion Hp4 as [|? ? _ Hp5]; subst.
  destruct (protocol_known v); [|discriminate]. cbn [negb] in Hg.
  destruct (N.ltb_spec v (rec_version r)); [discriminate|].
  destruct (Nat.ltb_spec 32 (length sd)); [discriminate|].
  destruct (cipher_known cs); [|discriminate]. cbn [negb] in Hg.
  destruct (N.eqb_spec comp 0); [|discriminate]. cbn [negb] in Hg. subst comp.
  assert (Hrl : length rnd = 32) by lia.
  destruct p5 as [|x0 p5'] eqn:Ep5.
  - injection Hg as <- <- <- <- <-. split; [exact Hr|]. repeat split; try assumption. discriminate.
  - rewrite <- Ep5 in *. destruct (darr16 p5) as [[x p6]|] eqn:E6; [|discriminate].
    destruct (darr16_inv _ _ _ Hp5 E6) as (Hp5e & _). destruct x as [|x1 xs] eqn:Ex; [discriminate|]. rewrite <- Ex in *.
    destruct p6; [|discriminate]. injection Hg as <- <- <- <- <-. rewrite app_nil_r in Hp5e.
    split; [rewrite Hr at 1; rewrite Hp5e; reflexivity|]. repeat split; try assumption. rewrite Ex. discriminate.
Qed.

(* non-malleability, as a consequence: two accepted records of the same record version carrying the same
   fields are the same record (for the getters above; not for ClientHello and Certificate, see below) *)
Theorem finished_unique_encoding r r' vd : rec_wf r -> bytes_ok r -> rec_wf r' -> bytes_ok r' ->
  rec_version r = rec_version r' -> get_finished r = Some vd -> get_finished r' = Some vd -> r = r'.
Proof.
  intros Hw Hb Hw' Hb' Hv Hg Hg'.
  destruct (get_finished_canonical r vd Hw Hb Hg) as [-> _]. destruct (get_finished_canonical r' vd Hw' Hb' Hg') as [-> _].
  congruence.
Qed.
Theorem server_hello_unique_encoding r r' x : rec_wf r -> bytes_ok r -> rec_wf r' -> bytes_ok r' ->
  rec_version r = rec_version r' -> get_server_hello r = Some x -> get_server_hello r' = Some x -> r = r'.
Proof.
  intros Hw Hb Hw' Hb' Hv Hg Hg'. destruct x as [[[[ver rnd] sid] c] ex].
  destruct (get_server_hello_canonical r _ _ _ _ _ Hw Hb Hg) as [-> _].
  destruct (get_server_hello_canonical r' _ _ _ _ _ Hw' Hb' Hg') as [-> _]. congruence.
Qed.

(* ---------- the lax rules of the getters, as the C code has them (observations) ---------- *)
(* ClientHello: the compression methods vector is skipped, not constrained: two different accepted records
   with the same fields; and an empty cipher suite list is accepted *)
Definition ch_body (comp : list N) : list N :=
  e16N 0x0303 ++ repeat 7%N 32 ++ arr8 [] ++ arr16 (e16N 0xe013) ++ arr8 comp.
Example client_hello_compression_not_constrained :
  let r1 := frame 0x0303 1 (ch_body [0%N]) in let r2 := frame 0x0303 1 (ch_body [1%N; 0%N]) in
  r1 <> r2 /\ get_client_hello r1 = get_client_hello r2 /\ get_client_hello r1 <> None.
Proof. cbv zeta. split; [discriminate|]. split; [reflexivity|discriminate]. Qed.
Example client_hello_empty_cipher_list_accepted :
  get_client_hello (frame 0x0303 1 (e16N 0x0303 ++ repeat 7%N 32 ++ arr8 [] ++ arr16 [] ++ arr8 [0%N])) =
  Some (0x0303%N, repeat 7%N 32, [], [], None).
Proof. reflexivity. Qed.
(* Certificate: bytes after the certificate list are ignored *)
Example certificate_trailing_bytes_ignored :
  let ok := fun _ : list N => true in
  let r1 := frame 0x0303 11 (arr24 (arr24 [48%N; 0%N])) in
  let r2 := frame 0x0303 11 (arr24 (arr24 [48%N; 0%N]) ++ [9%N; 9%N]) in
  get_certificate ok r1 = Some [[48%N; 0%N]] /\ get_certificate ok r2 = Some [[48%N; 0%N]].
Proof. cbv zeta. split; reflexivity. Qed.
(* CertificateVerify: any signature length is accepted by the getter (the setter refuses 0 and > 72) *)
Example certificate_verify_empty_signature_accepted :
  get_certificate_verify (frame 0x0303 15 (arr16 [])) = Some [] /\ set_certificate_verify 0x0303 [] = SErr.
Proof. split; reflexivity. Qed.
(* CertificateRequest setter: 256 certificate types pass the length check, the length byte wraps to 0 *)
Example certificate_request_256_types_wrap :
  exists r, set_certificate_request 0x0303 (repeat 1%N 256) [] = SOk r /\ get_certificate_request r = None.
Proof. eexists. split; [reflexivity|]. vm_compute. reflexivity. Qed.
(* setters that ignore the status of tls_record_set_handshake: success status without a record *)
Example setter_reports_success_without_record :
  set_finished 0x0000 (repeat 0%N 12) = SUnfinished /\ set_server_hello_done 0x1234 = SUnfinished.
Proof. split; reflexivity. Qed.

(* ---------- length formulas of the two hello messages ---------- *)
Ltac len_by H :=
  repeat first [ discriminate H
               | match type of H with
                 | (match ?x with _ => _ end) = _ => destruct x
                 end ];
  first [apply checked_ok in H | apply unchecked_ok in H];
  apply get_set_handshake in H; destruct H as (_ & _ & H & _); rewrite H;
  rewrite ?app_length, ?arr8_length, ?arr16_length, ?e16N_length, ?e16_length, ?flat_e16N_length; cbn [length]; lia.

Theorem set_client_hello_length rv pv rnd sid cs ex r : set_client_hello rv pv rnd sid cs ex = SOk r ->
  length r = 9 + 2 + length rnd + 1 + length sid + 2 + 2 * length cs + 2 +
             match ex with Some x => 2 + length x | None => 0 end.
Proof. intros H. unfold set_client_hello in H. len_by H. Qed.
Theorem set_server_hello_length rv pv rnd sid c ex r : set_server_hello rv pv rnd sid c ex = SOk r ->
  length r = 9 + 2 + length rnd + 1 + length sid + 2 + 1 + match ex with Some x => 2 + length x | None => 0 end.
Proof. intros H. unfold set_server_hello in H. len_by H. Qed.

(* ---------- the Finished message of Tls/KeySched.v is the codec's: framing premises discharged ---------- *)
From GmVerif Require Import Tls.KeySched.
Lemma finished_msg_codec rv vd r : set_finished rv vd = SOk r -> hs_message r = finished_msg vd.
Proof.
  intros H. unfold set_finished in H. destruct ((length vd =? 12) || (length vd =? 32)) eqn:El; [|discriminate].
  cbn [negb] in H. apply unchecked_ok in H. apply set_handshake_frame in H. destruct H as (-> & Hl & Hp & _).
  destruct (frame_facts rv 20 vd (protocol_known_lt _ Hp) Hl) as (_ & _ & _ & _ & _ & ->).
  unfold finished_msg. apply Bool.orb_true_iff in El. destruct El as [El|El]; apply Nat.eqb_eq in El; rewrite El; reflexivity.
Qed.
Lemma finished_msg_length vd : length (finished_msg vd) = 4 + length vd.
Proof. unfold finished_msg. rewrite app_length. reflexivity. Qed.
Lemma finished_msg_inj x y : finished_msg x = finished_msg y -> x = y.
Proof. unfold finished_msg. cbn [app]. intros H. injection H. auto. Qed.

Theorem altered_handshake_record_detected_finished_partial
  (H : list N -> list N) (F1 F2 : list N -> list N -> list N)
  (a b : party) (la lb : hs_log) fin1_recv fin2_recv :
  log_ok la -> log_ok lb -> transcript a = log_bytes la -> transcript b = log_bytes lb ->
  log_seen lb <> log_seen la ->
  fin2_recv = second_send H F2 finished_msg b fin1_recv ->
  length fin1_recv = length (first_send H F1 a) ->
  (F2 (sec2 b) (H (transcript b ++ finished_msg fin1_recv)) =
   F2 (sec2 a) (H (transcript a ++ finished_msg (first_send H F1 a))) ->
   sec2 b = sec2 a /\ H (transcript b ++ finished_msg fin1_recv) = H (transcript a ++ finished_msg (first_send H F1 a))) ->
  (H (transcript b ++ finished_msg fin1_recv) = H (transcript a ++ finished_msg (first_send H F1 a)) ->
   transcript b ++ finished_msg fin1_recv = transcript a ++ finished_msg (first_send H F1 a)) ->
  second_done H F1 b fin1_recv = false \/ first_done H F1 F2 finished_msg a fin2_recv = false.
Proof.
  intros Hla Hlb Hta Htb Hne Hfwd Hlen HF HH.
  apply (altered_handshake_record_detected_partial H F1 F2 finished_msg a b la lb fin1_recv fin2_recv); try assumption.
  - rewrite !finished_msg_length. lia.
  - apply finished_msg_inj.
Qed.

(* ---------- the entry points with (pointer, length) arguments reduce to the list forms ---------- *)
Lemma set_client_hello_c_ok rv pv rnd sid cs ex r : set_client_hello_c rv pv rnd sid cs ex = SOk r ->
  set_client_hello rv pv rnd (optl sid) cs ex = SOk r /\ sid <> Some [].
Proof. unfold set_client_hello_c. destruct sid as [[|]|]; cbn; intros H; try discriminate; split; auto; discriminate. Qed.
Lemma set_server_hello_c_ok rv pv rnd sid c ex r : set_server_hello_c rv pv rnd sid c ex = SOk r ->
  set_server_hello rv pv rnd (optl sid) c ex = SOk r /\ sid <> Some [].
Proof. unfold set_server_hello_c. destruct sid as [[|]|]; cbn; intros H; try discriminate; split; auto; discriminate. Qed.
Lemma set_certificate_request_c_ok rv ty nm r : set_certificate_request_c rv ty nm = SOk r ->
  set_certificate_request rv (optl ty) (optl nm) = SOk r /\ ty <> Some [] /\ nm <> Some [].
Proof.
  unfold set_certificate_request_c. destruct ty as [[|]|]; destruct nm as [[|]|]; cbn; intros H; try discriminate;
  repeat split; auto; discriminate.
Qed.
