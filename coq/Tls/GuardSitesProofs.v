(* Proofs about guard lists (Tls/GuardSites.v). *)
From Coq Require Import String List Bool Arith Lia.
From GmVerif Require Import Tls.GuardSites.
Import ListNotations.
Local Open Scope string_scope.

Lemma strs_eqb_eq a b : strs_eqb a b = true -> a = b.
Proof.
  revert b; induction a as [|x a IH]; intros [|y b]; cbn; try discriminate; [reflexivity|].
  intros H. apply andb_true_iff in H as [H1 H2]. apply String.eqb_eq in H1. f_equal; auto.
Qed.
Lemma spec_eqb_eq a b : spec_eqb a b = true -> a = b.
Proof.
  destruct a as [[[k1 c1] t1] x1], b as [[[k2 c2] t2] x2]. cbn.
  intros H. repeat (apply andb_true_iff in H; destruct H as [H ?]).
  apply String.eqb_eq in H. repeat match goal with Hx : String.eqb _ _ = true |- _ => apply String.eqb_eq in Hx end.
  match goal with Hx : strs_eqb _ _ = true |- _ => apply strs_eqb_eq in Hx end. subst. reflexivity.
Qed.

(* an empty difference means the extracted table is, row for row, the list the model assumes *)
Theorem guard_diff_sound fn ext exp : guard_diff fn ext exp = [] -> map strip ext = exp.
Proof.
  revert exp; induction ext as [|r ext IH]; intros [|g exp]; cbn [guard_diff map]; try discriminate; [reflexivity|].
  destruct (spec_eqb (strip r) g) eqn:E; [|discriminate].
  intros H. apply spec_eqb_eq in E. rewrite E, (IH _ H). reflexivity.
Qed.

(* the driver returned 1 => every tested guard whose enclosing conditions held has passed *)
Theorem done_from_guard l : forall i v cond, done_from i l v cond = true ->
  forall j k c t x, nth_error l j = Some (k, c, t, x) -> k = "guard" -> is_tested t = true ->
  forallb cond x = true -> v (i + j) = true.
Proof.
  induction l as [|[[[k0 c0] t0] x0] l IH]; intros i v cond Hd j k c t x Hn Hk Ht Hc.
  - destruct j; discriminate.
  - cbn [done_from] in Hd. apply andb_true_iff in Hd as [H0 Hr].
    destruct j as [|j]; cbn [nth_error] in Hn.
    + injection Hn as -> -> -> ->. subst k. rewrite Ht, Hc in H0. cbn in H0. rewrite Nat.add_0_r. exact H0.
    + replace (i + S j) with (S i + j) by lia. eapply IH; eauto.
Qed.

Theorem driver_done_guard l v cond : driver_done l v cond = true ->
  forall c t x, has_guard l c t x = true -> is_tested t = true -> forallb cond x = true ->
  exists j, nth_error l j = Some ("guard", c, t, x) /\ v j = true.
Proof.
  intros Hd c t x Hh Ht Hc. unfold has_guard in Hh. apply existsb_exists in Hh as (g & Hin & Hg).
  apply spec_eqb_eq in Hg. subst g. apply In_nth_error in Hin as [j Hj].
  exists j. split; [exact Hj|]. exact (done_from_guard l 0 v cond Hd j _ _ _ _ Hj eq_refl Ht Hc).
Qed.

(* every driver list is well formed (single success exit, last, at top level; every guard tested)
   and contains the authentication guards of the property, at top level or under exactly the
   client-authentication / anchors-configured condition *)
Definition ANCH := "conn->ca_certs_len".
Definition CAUTH := "client_verify".
Theorem required_guards_present :
  (well_formed tlcp_do_connect_guards &&
   has_guard tlcp_do_connect_guards "x509_certs_verify_tlcp" "!=1" [ANCH] &&
   has_guard tlcp_do_connect_guards "sm2_verify_finish" "!=1" [] &&
   has_guard tlcp_do_connect_guards "memcmp(verify_data,local_verify_data)" "!=0" []) &&
  (well_formed tls12_do_connect_guards &&
   has_guard tls12_do_connect_guards "x509_certs_verify" "!=1" [] &&
   has_guard tls12_do_connect_guards "tls_verify_server_ecdh_params" "!=1" [] &&
   has_guard tls12_do_connect_guards "memcmp(verify_data,local_verify_data)" "!=0" []) &&
  (well_formed tls13_do_connect_guards &&
   has_guard tls13_do_connect_guards "x509_certs_verify" "!=1" [] &&
   has_guard tls13_do_connect_guards "tls13_verify_certificate_verify" "!=1" [] &&
   has_guard tls13_do_connect_guards "memcmp(server_verify_data,verify_data)" "!=0" []) &&
  (well_formed tlcp_do_accept_guards &&
   has_guard tlcp_do_accept_guards "tls_record_get_handshake_certificate" "!=1" [ANCH] &&
   has_guard tlcp_do_accept_guards "x509_certs_verify" "!=1" [ANCH] &&
   has_guard tlcp_do_accept_guards "x509_certs_get_cert_by_index" "!=1" [CAUTH] &&
   has_guard tlcp_do_accept_guards "sm2_verify_finish" "!=1" [CAUTH] &&
   has_guard tlcp_do_accept_guards "memcmp(verify_data,local_verify_data)" "!=0" []) &&
  (well_formed tls12_do_accept_guards &&
   has_guard tls12_do_accept_guards "tls_record_get_handshake_certificate" "!=1" [ANCH] &&
   has_guard tls12_do_accept_guards "x509_certs_verify" "!=1" [ANCH] &&
   has_guard tls12_do_accept_guards "x509_certs_get_cert_by_index" "!=1" [CAUTH] &&
   has_guard tls12_do_accept_guards "tls_client_verify_finish" "!=1" [CAUTH] &&
   has_guard tls12_do_accept_guards "memcmp(verify_data,local_verify_data)" "!=0" []) &&
  (well_formed tls13_do_accept_guards &&
   has_guard tls13_do_accept_guards "tls13_process_certificate_list" "!=1" [CAUTH] &&
   has_guard tls13_do_accept_guards "x509_certs_get_cert_by_index" "!=1" [CAUTH] &&
   has_guard tls13_do_accept_guards "x509_certs_verify" "!=1" [CAUTH] &&
   has_guard tls13_do_accept_guards "tls13_verify_certificate_verify" "!=1" [CAUTH] &&
   has_guard tls13_do_accept_guards "memcmp(client_verify_data,verify_data)" "!=0" []) = true.
Proof. vm_compute. reflexivity. Qed.

(* the gap the list makes explicit: without configured anchors (condition false) a TLCP client
   reaches its success exit although the chain check (row 1) would fail *)
Example tlcp_client_without_anchors_skips_chain :
  driver_done tlcp_do_connect_guards (fun i => negb (Nat.eqb i 1)) (fun _ => false) = true.
Proof. vm_compute. reflexivity. Qed.
