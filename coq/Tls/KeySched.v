(* Key schedules of the three protocols, transcribed from
     src/tls.c    tls_prf (P_SM3 of GM/T 0024 / RFC 5246 section 5)
     src/tlcp.c, src/tls12.c   master secret, key block and its split, Finished verify_data
     src/tls13.c  tls13_hkdf_extract, tls13_hkdf_expand_label, tls13_derive_secret,
                  the schedule steps 1 to 12 of tls13_do_connect / tls13_do_accept,
                  tls13_compute_verify_data
   on top of the SM3 / HMAC / HKDF models of Hash/*.  Both endpoints' derivations are written
   down separately (client_ and server_ definitions) as the C code has them, and proved equal in
   Tls/KeySchedProofs.v. *)
From GmVerif Require Import Base.ListX Base.Bytes Hash.MD Hash.SM3 Hash.Hmac Hash.Instances
  Tls.Record12.
Local Open Scope nat_scope.

(* ASCII labels as byte lists (Tls/KeySchedProofs.v checks them against the string literals) *)
Definition L_master_secret : list N := [109; 97; 115; 116; 101; 114; 32; 115; 101; 99; 114; 101; 116]%N.   (* L_master_secret *)
Definition L_key_expansion : list N := [107; 101; 121; 32; 101; 120; 112; 97; 110; 115; 105; 111; 110]%N.   (* L_key_expansion *)
Definition L_client_finished : list N := [99; 108; 105; 101; 110; 116; 32; 102; 105; 110; 105; 115; 104; 101; 100]%N.   (* L_client_finished *)
Definition L_server_finished : list N := [115; 101; 114; 118; 101; 114; 32; 102; 105; 110; 105; 115; 104; 101; 100]%N.   (* L_server_finished *)
Definition L_tls13 : list N := [116; 108; 115; 49; 51; 32]%N.   (* L_tls13 *)
Definition L_derived : list N := [100; 101; 114; 105; 118; 101; 100]%N.   (* L_derived *)
Definition L_c_hs_traffic : list N := [99; 32; 104; 115; 32; 116; 114; 97; 102; 102; 105; 99]%N.   (* L_c_hs_traffic *)
Definition L_s_hs_traffic : list N := [115; 32; 104; 115; 32; 116; 114; 97; 102; 102; 105; 99]%N.   (* L_s_hs_traffic *)
Definition L_c_ap_traffic : list N := [99; 32; 97; 112; 32; 116; 114; 97; 102; 102; 105; 99]%N.   (* L_c_ap_traffic *)
Definition L_s_ap_traffic : list N := [115; 32; 97; 112; 32; 116; 114; 97; 102; 102; 105; 99]%N.   (* L_s_ap_traffic *)
Definition L_key : list N := [107; 101; 121]%N.   (* L_key *)
Definition L_iv : list N := [105; 118]%N.   (* L_iv *)
Definition L_finished : list N := [102; 105; 110; 105; 115; 104; 101; 100]%N.   (* L_finished *)

(* ================= TLCP / TLS 1.2 ================= *)

(* tls_prf.  The label, seed and more are fed as separate sm3_hmac_update calls. *)
Fixpoint prf_loop (fuel : nat) (secret : list N) (A : list N) (ls : list (list N)) (outlen : nat) : list N :=
  match fuel with
  | O => []
  | S f =>
    if outlen =? 0 then [] else
    let A' := sm3_hmac secret [A] in
    let h := sm3_hmac secret (A' :: ls) in
    let len := Nat.min outlen 32 in
    firstn len h ++ prf_loop f secret A' ls (outlen - len)
  end.
Definition tls_prf (secret label seed more : list N) (outlen : nat) : option (list N) :=
  match secret, seed with
  | [], _ | _, [] => None                   (* !secretlen || !seedlen *)
  | _, _ =>
    if outlen =? 0 then None else
    let ls := [label; seed; more] in
    let A := sm3_hmac secret ls in
    let h := sm3_hmac secret (A :: ls) in
    let len := Nat.min outlen 32 in
    Some (firstn len h ++ prf_loop outlen secret A ls (outlen - len))
  end.

(* Spec: P_hash(secret, seed) = HMAC(secret, A(1) + seed) + HMAC(secret, A(2) + seed) + ...
   A(0) = seed, A(i) = HMAC(secret, A(i-1));   PRF(secret, label, seed) = P_hash(secret, label + seed) *)
Fixpoint p_hash (n : nat) (secret A seed : list N) : list N :=
  match n with
  | O => []
  | S k => let A' := sm3_hmac_spec secret A in
           sm3_hmac_spec secret (A' ++ seed) ++ p_hash k secret A' seed
  end.
Definition prf_spec (secret label seed : list N) (outlen : nat) : list N :=
  firstn outlen (p_hash ((outlen + 31) / 32) secret (label ++ seed) (label ++ seed)).

Definition or_nil (o : option (list N)) : list N := match o with Some l => l | None => [] end.

(* master secret and key block (tlcp.c 388-402 / 870-883, tls12.c 480-493 / 952-961) *)
Definition master_secret12 (pms cr sr : list N) : list N :=
  or_nil (tls_prf pms L_master_secret cr sr 48).
Definition key_block12 (ms cr sr : list N) : list N :=
  or_nil (tls_prf ms L_key_expansion sr cr 96).

Record keys12 := mk_keys12 { cmac : list N; smac : list N; ckey : list N; skey : list N }.
Definition split_key_block (kb : list N) : keys12 :=
  mk_keys12 (firstn 32 kb) (firstn 32 (skipn 32 kb)) (firstn 16 (skipn 64 kb)) (firstn 16 (skipn 80 kb)).

(* what each endpoint installs: (write MAC key, write cipher key, read MAC key, read cipher key) *)
Definition client_install12 (pms cr sr : list N) :=
  let k := split_key_block (key_block12 (master_secret12 pms cr sr) cr sr) in
  (cmac k, ckey k, smac k, skey k).
Definition server_install12 (pms cr sr : list N) :=
  let k := split_key_block (key_block12 (master_secret12 pms cr sr) cr sr) in
  (smac k, skey k, cmac k, ckey k).

(* Finished verify_data (12 bytes) over the SM3 hash of the handshake messages so far *)
Definition verify_data12 (ms : list N) (label : list N) (transcript : list N) : list N :=
  or_nil (tls_prf ms label (sm3 transcript) [] 12).
Definition client_finished12 ms transcript := verify_data12 ms L_client_finished transcript.
Definition server_finished12 ms transcript := verify_data12 ms L_server_finished transcript.

(* Finished handshake message: type 20, uint24 length 12, verify_data *)
Definition finished_msg (vd : list N) : list N := [20%N; 0%N; 0%N; N.of_nat (length vd)] ++ vd.

(* ---- passive observer of a TLCP / TLS 1.2 handshake ----
   plain   : the handshake records before the client's ChangeCipherSpec, in the order the
             client sent / received them (each = 5-byte header ++ handshake message)
   cfin, sfin : the protected Finished records of client and server
   Result: master secret, key block, and whether each Finished opens under the derived keys at
   sequence number 0 and carries the verify_data the schedule prescribes. *)
Definition zero_seq : list N := zeros 8.
Definition hs_random (msg : list N) : list N := firstn 32 (skipn 6 msg).

Section Observe12.
  (* record unprotection under (mac key, cipher key): instantiated with record12_decrypt *)
  Variable unprotect : list N -> list N -> list N -> list N -> option (list N).

  Definition observe12 (pms : list N) (plain : list (list N)) (cfin sfin : list N)
    : list N * list N * bool * bool :=
    let msgs := map (skipn 5) plain in
    let cr := hs_random (nth 0 msgs []) in
    let sr := hs_random (nth 1 msgs []) in
    let ms := master_secret12 pms cr sr in
    let kb := key_block12 ms cr sr in
    let k := split_key_block kb in
    let t1 := concat msgs in
    let cmsg := finished_msg (client_finished12 ms t1) in
    let cok := match unprotect (cmac k) (ckey k) zero_seq cfin with
               | Some r => bytes_eqb (skipn 5 r) cmsg && N.eqb (nth 0 r 0%N) 22
               | None => false end in
    let t2 := t1 ++ cmsg in
    let smsg := finished_msg (server_finished12 ms t2) in
    let sok := match unprotect (smac k) (skey k) zero_seq sfin with
               | Some r => bytes_eqb (skipn 5 r) smsg && N.eqb (nth 0 r 0%N) 22
               | None => false end in
    (ms, kb, cok, sok).
End Observe12.

(* ================= TLS 1.3 ================= *)

Definition u8len (l : list N) : N := N.of_nat (length l) mod 256.

(* tls13_hkdf_expand_label: HkdfLabel = uint16 length, uint8-prefixed L_tls13 + label,
   uint8-prefixed context; the return value of hkdf_expand is not checked by the C code *)
Definition hkdf_label (label : list N) (context : list N) (outlen : nat) : list N :=
  u16 outlen ++ [N.of_nat ((6 + length label) mod 256)] ++ L_tls13 ++ label
  ++ [u8len context] ++ context.
Definition hkdf_expand_label (secret : list N) (label : list N) (context : list N) (outlen : nat) : list N :=
  or_nil (sm3_hkdf_expand secret (hkdf_label label context outlen) outlen).
(* tls13_derive_secret(secret, label, dgst_ctx): context = hash of the messages so far *)
Definition derive_secret (secret : list N) (label : list N) (messages : list N) : list N :=
  hkdf_expand_label secret label (sm3 messages) 32.
(* tls13_hkdf_extract *)
Definition hkdf_extract13 (salt ikm : list N) : list N := sm3_hkdf_extract salt ikm.

Record secrets13 := mk_secrets13 {
  hs_secret : list N; c_hs : list N; s_hs : list N; master13 : list N }.

(* steps [1] [5] [6] [7] [8] [9] [10]: from the ECDHE x-coordinate and ClientHello||ServerHello *)
Definition handshake_secrets13 (ecdh_x ch_sh : list N) : secrets13 :=
  let early := hkdf_extract13 (zeros 32) (zeros 32) in
  let d1 := derive_secret early L_derived [] in
  let hs := hkdf_extract13 d1 ecdh_x in
  let c := derive_secret hs L_c_hs_traffic ch_sh in
  let s := derive_secret hs L_s_hs_traffic ch_sh in
  let d2 := derive_secret hs L_derived [] in
  mk_secrets13 hs c s (hkdf_extract13 d2 (zeros 32)).

Definition traffic_key (secret : list N) : list N := hkdf_expand_label secret L_key [] 16.
Definition traffic_iv (secret : list N) : list N := hkdf_expand_label secret L_iv [] 12.

(* steps [11] [12]: application traffic secrets from the transcript through server Finished *)
Definition c_ap_secret (master transcript : list N) := derive_secret master L_c_ap_traffic transcript.
Definition s_ap_secret (master transcript : list N) := derive_secret master L_s_ap_traffic transcript.

(* tls13_compute_verify_data: HMAC(finished_key, Transcript-Hash) via the generic hmac() *)
Definition verify_data13 (traffic_secret transcript : list N) : list N :=
  let fk := hkdf_expand_label traffic_secret L_finished [] 32 in
  hmacB_sm3 fk [sm3 transcript].

(* the endpoints' installed application keys: (write key, write iv, read key, read iv) *)
Definition client_install13 (ecdh_x ch_sh transcript : list N) :=
  let m := master13 (handshake_secrets13 ecdh_x ch_sh) in
  (traffic_key (c_ap_secret m transcript), traffic_iv (c_ap_secret m transcript),
   traffic_key (s_ap_secret m transcript), traffic_iv (s_ap_secret m transcript)).
Definition server_install13 (ecdh_x ch_sh transcript : list N) :=
  let m := master13 (handshake_secrets13 ecdh_x ch_sh) in
  (traffic_key (s_ap_secret m transcript), traffic_iv (s_ap_secret m transcript),
   traffic_key (c_ap_secret m transcript), traffic_iv (c_ap_secret m transcript)).

(* ================= what the authentication signatures sign =================
   The passive observer recomputes these byte strings from the records on the wire; the check then
   verifies the signature seen on the wire over them with the certificate's public key by calling
   sm2_verify directly -- so a change of the signed content made consistently on both ends of the
   handshake code is noticed. *)
Definition L_cv13_server : list N := [84; 76; 83; 32; 49; 46; 51; 44; 32; 115; 101; 114; 118; 101; 114; 32; 67; 101; 114; 116; 105; 102; 105; 99; 97; 116; 101; 86; 101; 114; 105; 102; 121]%N.   (* "TLS 1.3, server CertificateVerify" *)
Definition L_cv13_client : list N := [84; 76; 83; 32; 49; 46; 51; 44; 32; 99; 108; 105; 101; 110; 116; 32; 67; 101; 114; 116; 105; 102; 105; 99; 97; 116; 101; 86; 101; 114; 105; 102; 121]%N.   (* "TLS 1.3, client CertificateVerify" *)
(* tls13_sign_certificate_verify / tls13_verify_certificate_verify: 64 spaces, context string, 0,
   Transcript-Hash(ClientHello .. Certificate); SM2 identity "TLSv1.3+GM+Cipher+Suite" *)
Definition cv13_content (server : bool) (transcript : list N) : list N :=
  repeat 32%N 64 ++ (if server then L_cv13_server else L_cv13_client) ++ [0%N] ++ sm3 transcript.
(* TLS 1.2 ServerKeyExchange (tls_sign_server_ecdh_params): client_random, server_random, the 69-byte
   ServerECDHParams (named_curve 3, curve id, 65, uncompressed point) *)
Definition ske12_signed (cr sr params : list N) : list N := cr ++ sr ++ params.
(* TLCP ServerKeyExchange: client_random, server_random, uint24 length, encryption certificate *)
Definition u24 (n : nat) : list N := [N.of_nat (n / 256 / 256 mod 256); N.of_nat (n / 256 mod 256); N.of_nat (n mod 256)].
Definition ske_tlcp_signed (cr sr enc_cert : list N) : list N := cr ++ sr ++ u24 (length enc_cert) ++ enc_cert.
(* client CertificateVerify: TLCP signs the SM3 hash of the handshake messages so far, TLS 1.2 signs the
   messages themselves (the tls_client_verify functions); both with the default SM2 identity *)
Definition cv_tlcp_signed (transcript : list N) : list N := sm3 transcript.
Definition cv12_signed (transcript : list N) : list N := transcript.

(* ---- passive observer of a TLS 1.3 handshake ----
   ch, sh : the plaintext ClientHello / ServerHello records; srv, cli : the protected
   handshake records of server ({EncryptedExtensions} .. {Finished}) and client
   ([{Certificate} {CertificateVerify}] {Finished}).  Each flight is opened with the handshake
   traffic keys at sequence numbers 0,1,2,..; the last message of each flight must be the
   Finished the schedule prescribes. *)
Section Observe13.
  (* record unprotection (key, iv, seq, protected record) -> Some (type, content) *)
  Variable unprotect : list N -> list N -> list N -> list N -> option (N * list N).

  Definition seq_of_nat (n : nat) : list N := zeros 4 ++ be32 (N.of_nat n).

  (* open a flight; returns (handshake messages in order, all opened as type 22) *)
  Fixpoint open_flight (key iv : list N) (n : nat) (recs : list (list N)) : option (list (list N)) :=
    match recs with
    | [] => Some []
    | r :: rest =>
      match unprotect key iv (seq_of_nat n) r with
      | Some (t, c) =>
        if N.eqb t 22 then
          match open_flight key iv (S n) rest with
          | Some ms => Some (c :: ms)
          | None => None
          end
        else None
      | None => None
      end
    end.

  Definition flight_ok (traffic_secret before : list N) (msgs : list (list N)) : bool :=
    match rev msgs with
    | [] => false
    | fin :: prev_rev =>
      bytes_eqb fin (finished_msg (verify_data13 traffic_secret (before ++ concat (rev prev_rev))))
    end.

  (* the opened flights themselves (handshake messages of server and client), for the signature check *)
  Definition observe13_msgs (ecdh_x ch sh : list N) (srv cli : list (list N)) : list (list N) * list (list N) :=
    let s := handshake_secrets13 ecdh_x (skipn 5 ch ++ skipn 5 sh) in
    (match open_flight (traffic_key (s_hs s)) (traffic_iv (s_hs s)) 0 srv with Some m => m | None => [] end,
     match open_flight (traffic_key (c_hs s)) (traffic_iv (c_hs s)) 0 cli with Some m => m | None => [] end).

  (* result: client app key/iv, server app key/iv, server flight ok, client flight ok *)
  Definition observe13 (ecdh_x ch sh : list N) (srv cli : list (list N))
    : list N * list N * list N * list N * bool * bool :=
    let t0 := skipn 5 ch ++ skipn 5 sh in
    let s := handshake_secrets13 ecdh_x t0 in
    let sm := open_flight (traffic_key (s_hs s)) (traffic_iv (s_hs s)) 0 srv in
    let cm := open_flight (traffic_key (c_hs s)) (traffic_iv (c_hs s)) 0 cli in
    let smsgs := match sm with Some m => m | None => [] end in
    let cmsgs := match cm with Some m => m | None => [] end in
    let t1 := t0 ++ concat smsgs in
    let sok := match sm with Some m => flight_ok (s_hs s) t0 m | None => false end in
    let cok := match cm with Some m => flight_ok (c_hs s) t1 m | None => false end in
    let cap := c_ap_secret (master13 s) t1 in
    let sap := s_ap_secret (master13 s) t1 in
    (traffic_key cap, traffic_iv cap, traffic_key sap, traffic_iv sap, sok, cok).
End Observe13.
