(* Proofs about the TLS 1.3 record model (Tls/Record13.v), for any AEAD. *)
From GmVerif Require Import Base.ListX Base.Bytes Tls.Record12 Tls.Record12Proofs Tls.Record13.
From Coq Require Import ZifyN ZifyNat ZifyBool.
Ltac Zify.zify_post_hook ::= Z.div_mod_to_equations.
Local Open Scope nat_scope.

Lemma zeros_repeat n : zeros n = repeat 0%N n.
Proof. induction n; cbn; congruence. Qed.
Lemma rev_zeros n : rev (zeros n) = zeros n.
Proof.
  rewrite zeros_repeat. induction n; cbn [repeat rev]; [reflexivity|].
  rewrite IHn. clear. induction n; cbn; congruence.
Qed.
Lemma scan_rev_zeros n l : scan_rev (zeros n ++ l) = scan_rev l.
Proof. induction n; cbn [zeros app scan_rev]; [reflexivity|]. rewrite N.eqb_refl. assumption. Qed.

(* what the scan found *)
Lemma scan_rev_some r t k : scan_rev r = (t, Some k) ->
  t <> 0%N /\ exists z r', r = zeros z ++ t :: r' /\ length r' = k.
Proof.
  revert t k; induction r as [|b r IH]; intros t k; cbn [scan_rev]; [discriminate|].
  destruct (N.eqb b 0) eqn:Eb.
  - apply N.eqb_eq in Eb. subst b. intros H. destruct (IH _ _ H) as (Ht & z & r' & -> & Hl).
    split; [assumption|]. exists (S z), r'. split; [reflexivity|assumption].
  - apply N.eqb_neq in Eb. intros [= <- <-]. split; [assumption|]. exists 0, r. split; reflexivity.
Qed.
Lemma scan_rev_none r t : scan_rev r = (t, None) -> r = zeros (length r) /\ t = 0%N.
Proof.
  revert t; induction r as [|b r IH]; intros t; cbn [scan_rev].
  - intros [= <-]. split; reflexivity.
  - destruct (N.eqb b 0) eqn:Eb; [|discriminate].
    apply N.eqb_eq in Eb. subst b. intros H. destruct (IH _ H) as [Hr Ht].
    split; [|assumption]. cbn [length zeros]. f_equal. assumption.
Qed.
Lemma scan_rev_all_zero n : scan_rev (zeros n) = (0%N, None).
Proof. induction n; cbn [zeros scan_rev]; [reflexivity|]. rewrite N.eqb_refl. assumption. Qed.

Lemma known_w8 t : record_type_known t = true -> w8 t = t /\ t <> 0%N.
Proof.
  unfold record_type_known. intros H.
  repeat (apply orb_true_iff in H as [H|H]); apply N.eqb_eq in H; subst t; split; (reflexivity || discriminate).
Qed.

(* nonce = (0^4 || seq) xor iv determines seq *)
Lemma xor_bytes_cancel a b c : length a = length c -> length b = length c ->
  xor_bytes a c = xor_bytes b c -> a = b.
Proof.
  intros Ha Hb H. rewrite <- (xor_bytes_invol a c Ha), <- (xor_bytes_invol b c Hb). rewrite H. reflexivity.
Qed.
Lemma nonce13_inj iv seq seq' : length iv = 12 -> length seq = 8 -> length seq' = 8 ->
  nonce13 iv seq = nonce13 iv seq' -> seq = seq'.
Proof.
  intros Hi Hs Hs' H. unfold nonce13 in H.
  apply xor_bytes_cancel in H; [|rewrite app_length; cbn; lia|rewrite app_length; cbn; lia].
  apply app_inv_head in H. assumption.
Qed.

Section P13.
  Variable seal : list N -> list N -> list N -> list N.
  Variable open : list N -> list N -> list N -> list N -> option (list N).

  (* ---------- structural facts, no hypothesis on the AEAD ---------- *)
  Theorem gcm13_decrypt_short iv seq inp : length inp < 16 ->
    tls13_gcm_decrypt open iv seq inp = Dec13Err None.
  Proof.
    intros H. unfold tls13_gcm_decrypt.
    replace (length inp <? 16) with true by (symmetry; apply Nat.ltb_lt; assumption). reflexivity.
  Qed.

  (* decision rule: a record is accepted only if the AEAD opened exactly these bytes under the
     nonce iv xor seq and the AAD rebuilt from the *presented* length, and the opened inner
     plaintext is content || known non-zero type || zeros *)
  Theorem gcm13_decrypt_accept iv seq inp t c :
    tls13_gcm_decrypt open iv seq inp = Dec13Ok t c ->
    16 <= length inp /\ record_type_known t = true /\ t <> 0%N /\
    exists k, open (nonce13 iv seq) (aad13 (length inp))
                   (firstn (length inp - 16) inp) (skipn (length inp - 16) inp)
              = Some (c ++ [t] ++ zeros k).
  Proof.
    unfold tls13_gcm_decrypt.
    destruct (length inp <? 16) eqn:E1; [discriminate|]. apply Nat.ltb_ge in E1.
    destruct (open _ _ _ _) as [out|] eqn:Eo; [|discriminate].
    destruct (scan_rev (rev out)) as [t' [k|]] eqn:Es; [|discriminate].
    destruct (record_type_known t') eqn:Ek; [|discriminate].
    intros [= <- <-].
    apply scan_rev_some in Es. destruct Es as (Ht & z & r' & Hr & Hl).
    split; [assumption|]. split; [assumption|]. split; [assumption|].
    exists z. f_equal.
    assert (Hout : out = rev r' ++ [t'] ++ zeros z).
    { rewrite <- (rev_involutive out), Hr, rev_app_distr. cbn [rev]. rewrite rev_zeros, <- app_assoc. reflexivity. }
    rewrite <- Hl, <- rev_length. rewrite Hout at 2.
    rewrite (firstn_app_exact _ (rev r') _ eq_refl). exact Hout.
  Qed.

  (* an inner plaintext consisting only of zero bytes (all padding, no content type) is rejected
     cleanly: error return, 0 left in *outlen *)
  Theorem gcm13_decrypt_all_padding iv seq inp n : 16 <= length inp ->
    open (nonce13 iv seq) (aad13 (length inp))
         (firstn (length inp - 16) inp) (skipn (length inp - 16) inp) = Some (zeros n) ->
    tls13_gcm_decrypt open iv seq inp = Dec13Err (Some 0%N).
  Proof.
    intros Hl Ho. unfold tls13_gcm_decrypt.
    replace (length inp <? 16) with false by (symmetry; apply Nat.ltb_ge; assumption).
    rewrite Ho, rev_zeros, scan_rev_all_zero. reflexivity.
  Qed.

  (* whatever the input, a failing call leaves *outlen untouched or 0: nothing larger than the
     ciphertext can reach conn->datalen *)
  Theorem gcm13_decrypt_err_outlen iv seq inp v :
    tls13_gcm_decrypt open iv seq inp = Dec13Err (Some v) -> v = 0%N.
  Proof.
    unfold tls13_gcm_decrypt.
    destruct (length inp <? 16); [discriminate|].
    destruct (open _ _ _ _) as [out|]; [|discriminate].
    destruct (scan_rev (rev out)) as [t [k|]].
    - destruct (record_type_known t); [discriminate|]. intros [= <-]. reflexivity.
    - intros [= <-]. reflexivity.
  Qed.

  (* the behaviour before commit 196ee26, for the record *)
  Example gcm13_decrypt_all_padding_before_fix iv seq inp n : 16 <= length inp ->
    open (nonce13 iv seq) (aad13 (length inp))
         (firstn (length inp - 16) inp) (skipn (length inp - 16) inp) = Some (zeros n) ->
    tls13_gcm_decrypt_before_196ee26 open iv seq inp = Dec13Err (Some size_max).
  Proof.
    intros Hl Ho. unfold tls13_gcm_decrypt_before_196ee26.
    replace (length inp <? 16) with false by (symmetry; apply Nat.ltb_ge; assumption).
    rewrite Ho, rev_zeros, scan_rev_all_zero. reflexivity.
  Qed.

  (* every non-Ok outcome is an error return; the only Ok outcomes are described by gcm13_decrypt_accept *)

  (* ---------- with the AEAD laws ---------- *)
  Hypothesis seal_len : forall n a p, length (seal n a p) = length p + 16.
  Hypothesis open_seal : forall n a p,
    open n a (firstn (length p) (seal n a p)) (skipn (length p) (seal n a p)) = Some p.
  Hypothesis open_len : forall n a c t p, open n a c t = Some p -> length p = length c.

  Theorem gcm13_decrypt_len iv seq inp t c :
    tls13_gcm_decrypt open iv seq inp = Dec13Ok t c -> length c + 17 <= length inp.
  Proof.
    intros H. apply gcm13_decrypt_accept in H. destruct H as (Hl & _ & _ & k & Ho).
    apply open_len in Ho. rewrite !app_length, firstn_length in Ho. cbn [length] in Ho. lia.
  Qed.

  Theorem gcm13_round_trip iv seq t inp pad :
    pad <= 255 -> record_type_known t = true ->
    exists ct, tls13_gcm_encrypt seal iv seq t inp pad = Some ct /\
               length ct = length inp + 1 + pad + 16 /\
               tls13_gcm_decrypt open iv seq ct = Dec13Ok t inp.
  Proof.
    intros Hp Hk. destruct (known_w8 t Hk) as [Hw Hnz].
    unfold tls13_gcm_encrypt.
    replace (255 <? pad) with false by (symmetry; apply Nat.ltb_ge; assumption).
    rewrite Hw. set (inner := inp ++ [t] ++ zeros pad).
    assert (Hil : length inner = length inp + 1 + pad).
    { unfold inner. rewrite !app_length, zeros_length. cbn [length]. lia. }
    eexists. split; [reflexivity|]. split; [rewrite seal_len; lia|].
    unfold tls13_gcm_decrypt. rewrite seal_len.
    replace (length inner + 16 <? 16) with false by (symmetry; apply Nat.ltb_ge; lia).
    replace (length inner + 16 - 16) with (length inner) by lia.
    rewrite open_seal.
    assert (Hr : rev inner = zeros pad ++ t :: rev inp).
    { unfold inner. rewrite !rev_app_distr. cbn [rev app]. rewrite rev_zeros, <- app_assoc. reflexivity. }
    rewrite Hr, scan_rev_zeros. cbn [scan_rev].
    replace (N.eqb t 0) with false by (symmetry; apply N.eqb_neq; assumption).
    rewrite Hk, rev_length. f_equal. unfold inner. apply firstn_app_exact. reflexivity.
  Qed.

  (* record level *)
  Theorem record13_round_trip iv seq t v1 v2 l1 l2 inp pad :
    pad <= 255 -> record_type_known t = true ->
    exists enc, tls13_record_encrypt seal iv seq ([t; v1; v2; l1; l2] ++ inp) pad = Some enc /\
                tls13_record_decrypt open iv seq enc = Dec13Ok t inp.
  Proof.
    intros Hp Hk. destruct (gcm13_round_trip iv seq t inp pad Hp Hk) as (ct & He & Hl & Hd).
    unfold tls13_record_encrypt.
    replace (length ([t; v1; v2; l1; l2] ++ inp) <? 5) with false
      by (symmetry; apply Nat.ltb_ge; rewrite app_length; cbn [length]; lia).
    cbn [app nth skipn]. rewrite He. eexists. split; [reflexivity|].
    unfold tls13_record_decrypt. cbn [app length u16 skipn].
    destruct (S (S (S (S (S (length ct))))) <? 5) eqn:E5; [apply Nat.ltb_lt in E5; lia|].
    exact Hd.
  Qed.

  (* an honest record accepted under another sequence number means the AEAD opened it under a
     nonce different from the sealing nonce (a forgery of the AEAD) *)
  Theorem gcm13_misplaced_accept_is_forgery iv seq seq' t inp pad ct t' c' :
    length iv = 12 -> length seq = 8 -> length seq' = 8 -> seq' <> seq ->
    tls13_gcm_encrypt seal iv seq t inp pad = Some ct ->
    tls13_gcm_decrypt open iv seq' ct = Dec13Ok t' c' ->
    nonce13 iv seq' <> nonce13 iv seq /\
    exists out, open (nonce13 iv seq') (aad13 (length ct))
                     (firstn (length ct - 16) ct) (skipn (length ct - 16) ct) = Some out.
  Proof.
    intros Hi Hs Hs' Hne He Hd. split.
    - intros H. apply nonce13_inj in H; auto.
    - apply gcm13_decrypt_accept in Hd. destruct Hd as (_ & _ & _ & k & Ho). eexists; exact Ho.
  Qed.
End P13.
