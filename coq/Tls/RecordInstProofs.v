(* Discharging the section hypotheses of the record theorems for the concrete instances:
   SM4 (inversion theorem of Cipher/SM4Proofs.v), SM3-HMAC (C03), and the GCM of Tls/Gcm13.v. *)
From GmVerif Require Import Base.ListX Base.Bytes Hash.MD Hash.SM3 Hash.Hmac Hash.Instances
  Hash.C03Lemmas Cipher.SM4 Tls.Record12 Tls.Record12Proofs Tls.Record13 Tls.Record13Proofs
  Tls.Gcm13 Tls.RecordInst.
From GmVerif Require Cipher.SM4Proofs.
From Coq Require Import ZifyN ZifyNat ZifyBool.
Ltac Zify.zify_post_hook ::= Z.div_mod_to_equations.
Local Open Scope nat_scope.

(* ---------- SM4 ---------- *)
Lemma sm4_E_len key b : length (sm4_E key b) = 16.
Proof. apply SM4Proofs.sm4_crypt_block_length. Qed.
Lemma sm4_E_ok key b : bytes_ok (sm4_E key b) = true.
Proof. apply SM4Proofs.sm4_crypt_block_ok. Qed.
Lemma sm4_DE key b : length b = 16 -> bytes_ok b = true -> sm4_D key (sm4_E key b) = b.
Proof. apply SM4Proofs.sm4_crypt_block_rev. Qed.

(* ---------- SM3-HMAC ---------- *)
Lemma be32_ok x : bytes_ok (be32 x) = true.
Proof.
  unfold be32, bytes_ok, w8. cbn [forallb].
  assert (H : forall y, (N.land y 255 <? 256)%N = true).
  { intros y. apply N.ltb_lt. change 255%N with (N.ones 8). rewrite N.land_ones. apply N.mod_lt. discriminate. }
  rewrite !H. reflexivity.
Qed.
Lemma sm3_ok m : bytes_ok (sm3 m) = true.
Proof.
  unfold sm3, md_hash, sm3_out. set (s := foldn _ _ _ _ _ _). clearbody s.
  induction s as [|x s IH]; cbn [flat_map]; [reflexivity|].
  rewrite bytes_ok_app, be32_ok, IH. reflexivity.
Qed.
Lemma hmac_chunks_len mk c : length (hmac_chunks mk c) = 32.
Proof. unfold hmac_chunks. rewrite sm3_hmac_stream. apply sm3_len. Qed.
Lemma hmac_chunks_ok mk c : bytes_ok (hmac_chunks mk c) = true.
Proof. unfold hmac_chunks. rewrite sm3_hmac_stream. apply sm3_ok. Qed.
(* the three sm3_hmac_update calls hash the concatenation (C03) *)
Lemma hmac_chunks_concat mk c : hmac_chunks mk c = sm3_hmac_spec mk (concat c).
Proof. apply sm3_hmac_stream. Qed.

(* ---------- GCM of Tls/Gcm13.v: seal/open laws (only the forward block function is used) ---------- *)
Section G.
  Variable Ek : list N -> list N.
  Hypothesis Ek_len : forall b, length (Ek b) = 16.

  Lemma xor_bytes_len_le a b : length a <= length b -> length (xor_bytes a b) = length a.
  Proof. intros H. unfold xor_bytes. rewrite map_length, combine_length. lia. Qed.
  Lemma xor_bytes_invol_le a b : length a <= length b -> xor_bytes (xor_bytes a b) b = a.
  Proof.
    revert b; induction a as [|x a IH]; intros [|y b] H; cbn in H; try lia; try reflexivity.
    unfold xor_bytes in *. cbn [combine map fst snd]. f_equal.
    - rewrite N.lxor_assoc, N.lxor_nilpotent, N.lxor_0_r. reflexivity.
    - apply IH. lia.
  Qed.

  Lemma gctr_nil n nonce c : gctr Ek n nonce c [] = [].
  Proof. revert c; induction n; intros c; cbn [gctr firstn skipn]; [reflexivity|]. rewrite IHn. reflexivity. Qed.

  Lemma gctr_length n nonce c d : length d <= 16 * n -> length (gctr Ek n nonce c d) = length d.
  Proof.
    revert c d; induction n as [|n IH]; intros c d H.
    - destruct d; [reflexivity|cbn in H; lia].
    - cbn [gctr]. rewrite app_length, xor_bytes_len_le by (rewrite firstn_length, Ek_len; lia).
      rewrite IH by (rewrite skipn_length; lia). rewrite firstn_length, skipn_length. lia.
  Qed.

  Lemma gctr_invol n nonce c d : length d <= 16 * n ->
    gctr Ek n nonce c (gctr Ek n nonce c d) = d.
  Proof.
    revert c d; induction n as [|n IH]; intros c d H.
    - destruct d; [reflexivity|cbn in H; lia].
    - cbn [gctr]. set (ks := Ek (ctr_block nonce c)).
      assert (Hks : length ks = 16) by apply Ek_len.
      set (x := xor_bytes (firstn 16 d) ks).
      assert (Hx : length x = Nat.min 16 (length d)).
      { unfold x. rewrite xor_bytes_len_le by (rewrite firstn_length; lia). apply firstn_length. }
      destruct (Nat.le_gt_cases 16 (length d)) as [Hge|Hlt].
      + assert (Hx16 : length x = 16) by lia.
        rewrite (firstn_app_exact 16 x _ Hx16), (skipn_app_exact 16 x _ Hx16).
        unfold x. rewrite xor_bytes_invol_le by (rewrite firstn_length; lia).
        rewrite IH by (rewrite skipn_length; lia). apply firstn_skipn.
      + rewrite (skipn_all2 d) by lia. rewrite gctr_nil, app_nil_r.
        rewrite (firstn_all2 x) by lia. rewrite (skipn_all2 x) by lia. rewrite gctr_nil, app_nil_r.
        unfold x. rewrite (firstn_all2 d) by lia. apply xor_bytes_invol_le. lia.
  Qed.

  Lemma gctr_all_length nonce d : length (gctr_all Ek nonce d) = length d.
  Proof. unfold gctr_all. apply gctr_length. lia. Qed.
  Lemma gctr_all_invol nonce d : gctr_all Ek nonce (gctr_all Ek nonce d) = d.
  Proof. unfold gctr_all. rewrite gctr_length by lia. apply gctr_invol. lia. Qed.

  Lemma N_to_be_length n x : length (N_to_be n x) = n.
  Proof. revert x; induction n; intros x; cbn [N_to_be]; [reflexivity|]. rewrite app_length, IHn. cbn. lia. Qed.

  Lemma gcm_tag_length nonce aad ct : length (gcm_tag Ek nonce aad ct) = 16.
  Proof. unfold gcm_tag. rewrite xor_bytes_len_le; rewrite Ek_len; [reflexivity|rewrite N_to_be_length; lia]. Qed.

  Lemma gcm_seal_len n a p : length (gcm_seal Ek n a p) = length p + 16.
  Proof. unfold gcm_seal. rewrite app_length, gctr_all_length, gcm_tag_length. reflexivity. Qed.

  Lemma gcm_open_seal n a p :
    gcm_open Ek n a (firstn (length p) (gcm_seal Ek n a p)) (skipn (length p) (gcm_seal Ek n a p)) = Some p.
  Proof.
    unfold gcm_seal. set (ct := gctr_all Ek n p).
    assert (Hc : length ct = length p) by apply gctr_all_length.
    rewrite (firstn_app_exact _ ct _ Hc), (skipn_app_exact _ ct _ Hc).
    unfold gcm_open. rewrite bytes_eqb_refl. unfold ct. rewrite gctr_all_invol. reflexivity.
  Qed.

  Lemma gcm_open_len n a c t p : gcm_open Ek n a c t = Some p -> length p = length c.
  Proof.
    unfold gcm_open. destruct (bytes_eqb _ _); [|discriminate]. intros [= <-]. apply gctr_all_length.
  Qed.

  (* decision rule of the AEAD itself: opened => the presented tag equals the recomputed one *)
  Lemma gcm_open_tag n a c t p : gcm_open Ek n a c t = Some p -> t = gcm_tag Ek n a c.
  Proof.
    unfold gcm_open. destruct (bytes_eqb _ _) eqn:E; [|discriminate]. intros _.
    symmetry. apply bytes_eqb_eq. assumption.
  Qed.
End G.

Lemma sm4_seal_len key n a p : length (sm4_gcm_seal key n a p) = length p + 16.
Proof. apply gcm_seal_len. apply sm4_E_len. Qed.
Lemma sm4_open_seal key n a p :
  sm4_gcm_open key n a (firstn (length p) (sm4_gcm_seal key n a p)) (skipn (length p) (sm4_gcm_seal key n a p)) = Some p.
Proof. apply gcm_open_seal. apply sm4_E_len. Qed.
Lemma sm4_open_len key n a c t p : sm4_gcm_open key n a c t = Some p -> length p = length c.
Proof. apply gcm_open_len. apply sm4_E_len. Qed.

(* ---------- closed concrete theorems ---------- *)
Theorem cbc12_round_trip mackey enckey seq hdr payload iv :
  (N.of_nat (length payload) <= 16384)%N -> hdr_len hdr = length payload ->
  hdr = firstn 3 hdr ++ u16 (length payload) ->
  bytes_ok payload = true -> length iv = 16 -> bytes_ok iv = true ->
  exists ct, cbc12_encrypt mackey enckey seq hdr payload (Some iv) = Some ct /\
             cbc12_decrypt mackey enckey seq hdr ct = Some payload.
Proof.
  exact (cbc_round_trip (sm4_E enckey) (sm4_D enckey) (hmac_chunks mackey) (sm4_E_len enckey)
    (sm4_E_ok enckey) (sm4_DE enckey) (hmac_chunks_len mackey) (hmac_chunks_ok mackey) seq hdr payload iv).
Qed.

Theorem record12_round_trip mackey enckey seq hdr payload iv :
  length hdr = 5 -> bytes_ok hdr = true -> hdr_len hdr = length payload ->
  (N.of_nat (length payload) <= 16384)%N ->
  bytes_ok payload = true -> length iv = 16 -> bytes_ok iv = true ->
  exists enc, record12_encrypt mackey enckey seq (hdr ++ payload) (Some iv) = Some enc /\
              record12_decrypt mackey enckey seq enc = Some (hdr ++ payload).
Proof.
  exact (record_round_trip (sm4_E enckey) (sm4_D enckey) (hmac_chunks mackey) (sm4_E_len enckey)
    (sm4_E_ok enckey) (sm4_DE enckey) (hmac_chunks_len mackey) (hmac_chunks_ok mackey) seq hdr payload iv).
Qed.

Theorem cbc12_round_trip_any_padding mackey enckey seq hdr payload iv p :
  (length payload + 33 + p) mod 16 = 0 -> p <= 255 ->
  (N.of_nat (length payload + 33 + p) <= 16672)%N ->
  hdr = firstn 3 hdr ++ u16 (length payload) ->
  bytes_ok payload = true -> length iv = 16 -> bytes_ok iv = true ->
  cbc12_decrypt mackey enckey seq hdr
    (tls_cbc_encrypt_padded (sm4_E enckey) (hmac_chunks mackey) seq hdr payload iv p) = Some payload.
Proof.
  exact (cbc_round_trip_padded (sm4_E enckey) (sm4_D enckey) (hmac_chunks mackey) (sm4_E_len enckey)
    (sm4_E_ok enckey) (sm4_DE enckey) (hmac_chunks_len mackey) (hmac_chunks_ok mackey) seq hdr payload iv p).
Qed.

(* accepted under another sequence number / type / version => HMAC-SM3 collision between the two
   13-byte-prefixed messages (RFC 2104 HMAC over the concatenation, by C03) *)
Theorem cbc12_misplaced_accept_is_hmac_collision mackey enckey seq hdr payload iv p seq' hdr' r :
  (length payload + 33 + p) mod 16 = 0 -> p <= 255 ->
  (N.of_nat (length payload + 33 + p) <= 16672)%N ->
  bytes_ok payload = true -> length iv = 16 -> bytes_ok iv = true ->
  cbc12_decrypt mackey enckey seq' hdr'
    (tls_cbc_encrypt_padded (sm4_E enckey) (hmac_chunks mackey) seq hdr payload iv p) = Some r ->
  r = payload /\
  sm3_hmac_spec mackey (seq ++ hdr ++ payload) =
  sm3_hmac_spec mackey (seq' ++ (firstn 3 hdr' ++ u16 (length payload)) ++ payload).
Proof.
  intros H1 H2 H3 H4 H5 H6 H7.
  pose proof (cbc_misplaced_accept_is_collision (sm4_E enckey) (sm4_D enckey) (hmac_chunks mackey)
    (sm4_E_len enckey) (sm4_E_ok enckey) (sm4_DE enckey) (hmac_chunks_len mackey) (hmac_chunks_ok mackey)
    seq hdr payload iv p seq' hdr' r H1 H2 H3 H4 H5 H6 H7) as [Hr Hc].
  split; [assumption|].
  rewrite !hmac_chunks_concat in Hc. cbn [concat] in Hc. rewrite !app_nil_r in Hc. exact Hc.
Qed.

Theorem gcm13_round_trip_sm4 key iv seq t inp pad :
  pad <= 255 -> record_type_known t = true ->
  exists ct, gcm13_encrypt key iv seq t inp pad = Some ct /\
             length ct = length inp + 1 + pad + 16 /\
             gcm13_decrypt key iv seq ct = Dec13Ok t inp.
Proof.
  exact (gcm13_round_trip _ _ (sm4_seal_len key) (sm4_open_seal key) (sm4_open_len key) iv seq t inp pad).
Qed.

Theorem record13_round_trip_sm4 key iv seq t v1 v2 l1 l2 inp pad :
  pad <= 255 -> record_type_known t = true ->
  exists enc, record13_encrypt key iv seq ([t; v1; v2; l1; l2] ++ inp) pad = Some enc /\
              record13_decrypt key iv seq enc = Dec13Ok t inp.
Proof.
  exact (record13_round_trip _ _ (sm4_seal_len key) (sm4_open_seal key) (sm4_open_len key) iv seq t v1 v2 l1 l2 inp pad).
Qed.

Theorem gcm13_decrypt_len_sm4 key iv seq inp t c :
  gcm13_decrypt key iv seq inp = Dec13Ok t c -> length c + 17 <= length inp.
Proof.
  exact (gcm13_decrypt_len _ _ (sm4_seal_len key) (sm4_open_seal key) (sm4_open_len key) iv seq inp t c).
Qed.

Lemma sm4_open_tag key n a c t p : sm4_gcm_open key n a c t = Some p -> t = gcm_tag (sm4_E key) n a c.
Proof. exact (gcm_open_tag (sm4_E key) n a c t p). Qed.
Lemma acc_A key iv seq inp t c : gcm13_decrypt key iv seq inp = Dec13Ok t c ->
  exists k, sm4_gcm_open key (nonce13 iv seq) (aad13 (length inp))
            (firstn (length inp - 16) inp) (skipn (length inp - 16) inp) = Some (c ++ [t] ++ zeros k).
Proof. intros H. exact (proj2 (proj2 (proj2 (gcm13_decrypt_accept (sm4_gcm_open key) iv seq inp t c H)))). Qed.
Theorem gcm13_accept_tag_sm4 key iv seq inp t c :
  gcm13_decrypt key iv seq inp = Dec13Ok t c ->
  skipn (length inp - 16) inp =
  gcm_tag (sm4_E key) (nonce13 iv seq) (aad13 (length inp)) (firstn (length inp - 16) inp).
Proof.
  intros H. destruct (acc_A _ _ _ _ _ _ H) as [k Ho]. exact (sm4_open_tag _ _ _ _ _ _ Ho).
Qed.
