(* TLCP / TLS 1.2 record protection, transcribed from src/tls.c:
     tls_cbc_encrypt, tls_cbc_decrypt, tls_record_encrypt, tls_record_decrypt,
     tls_seq_num_incr, and sm4_cbc_{en,de}crypt_blocks of src/sm4.c.

   The section is generic in the block cipher under the write key ([E] the
   encryption direction, [D] the decryption direction, both on 16-byte blocks)
   and in the MAC under the write MAC key ([mac], fed in chunks exactly like the
   three sm3_hmac_update calls of the C code).  Instances.v-style concrete
   instantiation (SM4, SM3-HMAC) is in Tls/Record12Inst.v.

   Error returns (-1) are [None]; lengths and indices are [nat]; bytes are [N]. *)
From GmVerif Require Import Base.ListX Base.Bytes.
Local Open Scope nat_scope.

(* byte-string equality (gmssl_secure_memcmp(a, b, n) == 0 on equal-length operands) *)
Fixpoint bytes_eqb (a b : list N) : bool :=
  match a, b with
  | [], [] => true
  | x :: a', y :: b' => N.eqb x y && bytes_eqb a' b'
  | _, _ => false
  end.

(* uint16 big-endian of a length: (uint8_t)(n >> 8), (uint8_t)n *)
Definition u16 (n : nat) : list N := [N.of_nat (n / 256 mod 256); N.of_nat (n mod 256)].
(* ((size_t)h[3] << 8) + h[4] *)
Definition hdr_len (h : list N) : nat := N.to_nat (nth 3 h 0%N * 256 + nth 4 h 0%N).

(* tls_seq_num_incr: for (i = 7; i > 0; i--) { seq[i]++; if (seq[i]) break; }
   -- byte 0 is never touched: the counter is 56 bits wide as coded.
   [incr_be l] = (l + 1 mod 256^|l|, carry-out). *)
Fixpoint incr_be (l : list N) : list N * bool :=
  match l with
  | [] => ([], true)
  | b :: r =>
    let (r', c) := incr_be r in
    if c then (((b + 1) mod 256)%N :: r', N.eqb ((b + 1) mod 256) 0) else (b :: r', false)
  end.
Definition seq_num_incr (s : list N) : list N :=
  match s with
  | [] => []
  | b0 :: r => b0 :: fst (incr_be r)
  end.

Section Record12.
  Variable E D : list N -> list N.
  Variable mac : list (list N) -> list N.

  (* sm4_cbc_encrypt_blocks(key, iv, in, nblocks, out): returns (out, updated iv) *)
  Fixpoint cbc_enc_blocks (n : nat) (iv inp : list N) : list N * list N :=
    match n with
    | O => ([], iv)
    | S k =>
      let c := E (xor_bytes (firstn 16 inp) iv) in
      let (o, iv') := cbc_enc_blocks k c (skipn 16 inp) in
      (c ++ o, iv')
    end.
  (* sm4_cbc_decrypt_blocks *)
  Fixpoint cbc_dec_blocks (n : nat) (iv inp : list N) : list N :=
    match n with
    | O => []
    | S k =>
      let c := firstn 16 inp in
      xor_bytes (D c) iv ++ cbc_dec_blocks k c (skipn 16 inp)
    end.

  (* tls_cbc_encrypt.  [iv] = the 16 bytes served by rand_bytes (None: the source failed). *)
  Definition tls_cbc_encrypt (seq header inp : list N) (iv : option (list N)) : option (list N) :=
    let inlen := length inp in
    if (16384 <? N.of_nat inlen)%N then None
    else if negb (hdr_len header =? inlen) then None
    else
      let rem := inlen mod 16 in
      let m := mac [seq; header; inp] in
      let padding_len := 16 - rem - 1 in
      let last_blocks := skipn (inlen - rem) inp ++ m ++ repeat (N.of_nat padding_len) (padding_len + 1) in
      match iv with
      | None => None
      | Some iv0 =>
        let '(o1, iv1) := if 16 <=? inlen then cbc_enc_blocks (inlen / 16) iv0 inp else ([], iv0) in
        let '(o2, _) := cbc_enc_blocks 3 iv1 last_blocks in
        Some (iv0 ++ o1 ++ o2)
      end.

  (* a sender free to choose any padding the receiver's check allows (RFC 5246 6.2.3.2:
     up to 255 bytes): iv || CBC(body), |body| a multiple of 16.  Spec-level; the C
     sender always uses the minimal padding. *)
  Definition cbc_seal_raw (iv body : list N) : list N :=
    iv ++ fst (cbc_enc_blocks (length body / 16) iv body).
  Definition tls_cbc_encrypt_padded (seq header inp iv : list N) (padding_len : nat) : list N :=
    cbc_seal_raw iv (inp ++ mac [seq; header; inp] ++ repeat (N.of_nat padding_len) (padding_len + 1)).

  (* the plaintext buffer produced by tls_cbc_decrypt before any check *)
  Definition cbc_plain (inp : list N) : list N :=
    cbc_dec_blocks ((length inp - 16) / 16) (firstn 16 inp) (skipn 16 inp).

  (* tls_cbc_decrypt *)
  Definition tls_cbc_decrypt (seq enced_header inp : list N) : option (list N) :=
    let inlen := length inp in
    if negb (inlen mod 16 =? 0) || (inlen <? 64) || (16688 <? N.of_nat inlen)%N   (* 16 + 2^14 + 32 + 256 *) then None
    else
      let n := inlen - 16 in
      let out := cbc_plain inp in
      let pl := nth (n - 1) out 0%N in
      let padding_len := N.to_nat pl in
      (* padding = out + n - padding_len - 1;  if (padding < out + 32) error *)
      if n <? padding_len + 33 then None
      else if negb (forallb (N.eqb pl) (firstn padding_len (skipn (n - padding_len - 1) out))) then None
      else
        let outlen := n - 32 - padding_len - 1 in
        let header := firstn 3 enced_header ++ u16 outlen in
        let payload := firstn outlen out in
        let m := mac [seq; header; payload] in
        if bytes_eqb (firstn 32 (skipn outlen out)) m then Some payload else None.

  (* tls_record_encrypt: record = header(5) || fragment *)
  Definition tls_record_encrypt (seq record : list N) (iv : option (list N)) : option (list N) :=
    if length record <? 5 then None   (* inlen - 5 wraps to a huge size_t: refused by the 2^14 bound *)
    else
      match tls_cbc_encrypt seq (firstn 5 record) (skipn 5 record) iv with
      | None => None
      | Some o => Some (firstn 3 record ++ u16 (length o) ++ o)
      end.

  (* tls_record_decrypt *)
  Definition tls_record_decrypt (seq record : list N) : option (list N) :=
    if length record <? 5 then None
    else
      match tls_cbc_decrypt seq (firstn 5 record) (skipn 5 record) with
      | None => None
      | Some p => Some (firstn 3 record ++ u16 (length p) ++ p)
      end.
End Record12.
