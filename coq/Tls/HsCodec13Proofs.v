(* Proofs about the TLS 1.3 message forms (Tls/HsCodec13.v). *)
From GmVerif Require Import Base.ListX Base.Bytes Tls.Record12 Tls.Record12Proofs Tls.HsCodec Tls.HsCodecProofs Tls.HsCodec13.
From Coq Require Import ZifyN ZifyNat ZifyBool.
Ltac Zify.zify_post_hook ::= Z.div_mod_to_equations.
Local Open Scope nat_scope.

Lemma ext_length t d : length (ext t d) = 4 + length d.
Proof. unfold ext. rewrite app_length, e16N_length, arr16_length. lia. Qed.

(* ---------- CertificateVerify ---------- *)
Theorem get_set_cv13 rv alg sg r : set_cv13 rv alg sg = SOk r -> (alg < 65536)%N ->
  get_cv13 r = Some (alg, sg) /\ length r = 13 + length sg.
Proof.
  unfold set_cv13. intros H Ha. apply checked_ok in H. pose proof (set_handshake_frame _ _ _ _ H) as (_ & Hl & _).
  apply get_set_handshake in H. destruct H as (Hg & _ & Hlen & _).
  rewrite app_length, e16N_length, arr16_length in Hl, Hlen. unfold max_hs_data in Hl.
  unfold get_cv13. rewrite Hg. unfold parse_cv13. cbn [N.eqb Pos.eqb negb].
  rewrite d16_e16N by assumption. rewrite <- (app_nil_r (arr16 sg)), darr16_arr16 by lia. split; [reflexivity|lia].
Qed.

Theorem get_cv13_canonical r alg sg : rec_wf r -> bytes_ok r -> get_cv13 r = Some (alg, sg) ->
  r = frame (rec_version r) 15 (e16N alg ++ arr16 sg) /\ set_cv13 (rec_version r) alg sg = SOk r.
Proof.
  intros Hw Hb Hg. unfold get_cv13 in Hg. open_get Hg t p E.
  destruct (get_handshake_canonical r t p Hw Hb E) as [Hr Hs]. pose proof (bytes_ok_body r t p Hw Hb E) as Hp.
  unfold parse_cv13 in Hg. destruct (N.eqb_spec t 15); [|discriminate]. subst t. cbn [negb] in Hg.
  destruct (d16 p) as [[a p1]|] eqn:E1; [|discriminate]. destruct (d16_inv _ _ _ Hp E1) as (-> & _ & Hp1).
  destruct (darr16 p1) as [[s [|? ?]]|] eqn:E2; try discriminate. injection Hg as -> ->.
  destruct (darr16_inv _ _ _ Hp1 E2) as (-> & _). rewrite app_nil_r in *.
  split; [exact Hr|]. unfold set_cv13. rewrite Hs. reflexivity.
Qed.

Theorem set_cv13_inj rv rv' a a' s s' r : set_cv13 rv a s = SOk r -> set_cv13 rv' a' s' = SOk r ->
  (a < 65536)%N -> (a' < 65536)%N -> a = a' /\ s = s'.
Proof.
  intros A B Ha Ha'. destruct (get_set_cv13 _ _ _ _ A Ha) as [A' _]. destruct (get_set_cv13 _ _ _ _ B Ha') as [B' _].
  rewrite A' in B'. injection B'; auto.
Qed.

(* ---------- CertificateRequest ---------- *)
Theorem get_set_cr13 rv ctx exts r : set_cr13 rv ctx exts = SOk r -> length ctx < 256 ->
  get_cr13 r = Some (ctx, exts) /\ length r = 12 + length ctx + length exts.
Proof.
  unfold set_cr13. intros H Hc. apply unchecked_ok in H. pose proof (set_handshake_frame _ _ _ _ H) as (_ & Hl & _).
  apply get_set_handshake in H. destruct H as (Hg & _ & Hlen & _).
  rewrite app_length, arr8_length, arr16_length in Hl, Hlen. unfold max_hs_data in Hl.
  unfold get_cr13. rewrite Hg. unfold parse_cr13. cbn [N.eqb Pos.eqb negb].
  rewrite darr8_arr8 by assumption. rewrite <- (app_nil_r (arr16 exts)), darr16_arr16 by lia. split; [reflexivity|lia].
Qed.

Theorem get_cr13_canonical r ctx exts : rec_wf r -> bytes_ok r -> get_cr13 r = Some (ctx, exts) ->
  r = frame (rec_version r) 13 (arr8 ctx ++ arr16 exts) /\ set_cr13 (rec_version r) ctx exts = SOk r.
Proof.
  intros Hw Hb Hg. unfold get_cr13 in Hg. open_get Hg t p E.
  destruct (get_handshake_canonical r t p Hw Hb E) as [Hr Hs]. pose proof (bytes_ok_body r t p Hw Hb E) as Hp.
  unfold parse_cr13 in Hg. destruct (N.eqb_spec t 13); [|discriminate]. subst t. cbn [negb] in Hg.
  destruct (darr8 p) as [[c p1]|] eqn:E1; [|discriminate]. destruct (darr8_inv _ _ _ Hp E1) as (-> & _ & _ & Hp1).
  destruct (darr16 p1) as [[x [|? ?]]|] eqn:E2; try discriminate. injection Hg as -> ->.
  destruct (darr16_inv _ _ _ Hp1 E2) as (-> & _). rewrite app_nil_r in *.
  split; [exact Hr|]. unfold set_cr13. rewrite Hs. reflexivity.
Qed.

Theorem set_cr13_inj rv rv' c c' x x' r : set_cr13 rv c x = SOk r -> set_cr13 rv' c' x' = SOk r ->
  length c < 256 -> length c' < 256 -> c = c' /\ x = x'.
Proof.
  intros A B Hc Hc'. destruct (get_set_cr13 _ _ _ _ A Hc) as [A' _]. destruct (get_set_cr13 _ _ _ _ B Hc') as [B' _].
  rewrite A' in B'. injection B'; auto.
Qed.

(* ---------- Finished ---------- *)
Theorem get_set_fin13 rv vd r : set_fin13 rv (Some vd) = SOk r -> length vd = 32 \/ length vd = 48 ->
  get_fin13 r = Some vd /\ length r = 9 + length vd.
Proof.
  unfold set_fin13. intros H Hl. apply unchecked_ok in H. apply get_set_handshake in H. destruct H as (Hg & _ & Hlen & _).
  unfold get_fin13. rewrite Hg. unfold parse_fin13. cbn [N.eqb Pos.eqb negb].
  replace ((length vd =? 32) || (length vd =? 48)) with true; [auto|].
  destruct Hl as [-> | ->]; reflexivity.
Qed.

Theorem get_fin13_canonical r vd : rec_wf r -> bytes_ok r -> get_fin13 r = Some vd ->
  r = frame (rec_version r) 20 vd /\ set_fin13 (rec_version r) (Some vd) = SOk r /\ (length vd = 32 \/ length vd = 48).
Proof.
  intros Hw Hb Hg. unfold get_fin13 in Hg. open_get Hg t p E.
  destruct (get_handshake_canonical r t p Hw Hb E) as [Hr Hs]. unfold parse_fin13 in Hg.
  destruct (N.eqb_spec t 20); [|discriminate]. subst t. cbn [negb] in Hg.
  destruct ((length p =? 32) || (length p =? 48)) eqn:El; [|discriminate]. cbn [negb] in Hg. injection Hg as <-.
  split; [exact Hr|]. split; [unfold set_fin13; rewrite Hs; reflexivity|]. lia.
Qed.

Theorem set_fin13_inj rv rv' x y r : set_fin13 rv (Some x) = SOk r -> set_fin13 rv' (Some y) = SOk r -> x = y.
Proof.
  unfold set_fin13. intros A B. apply unchecked_ok in A. apply unchecked_ok in B.
  destruct (set_handshake_inj _ _ _ _ _ _ _ A B) as (_ & _ & H). exact H.
Qed.

(* ---------- EncryptedExtensions ---------- *)
Theorem get_set_ee13 rv r : set_ee13 rv = SOk r -> get_ee13 r = Some tt /\ length r = 19.
Proof.
  unfold set_ee13. intros H. apply unchecked_ok in H. apply get_set_handshake in H. destruct H as (Hg & _ & Hlen & _).
  unfold get_ee13. rewrite Hg. split; [reflexivity|exact Hlen].
Qed.
(* observation: neither the handshake type nor trailing bytes are checked *)
Example ee13_type_and_trailing_bytes_not_checked :
  get_ee13 (frame 0x0303 11 (arr16 [] ++ [7%N])) = Some tt.
Proof. reflexivity. Qed.
(* observation: the Finished setter takes any length and ignores the status of tls_record_set_handshake *)
Example fin13_setter_unchecked :
  (exists r, set_fin13 0x0303 (Some [1%N]) = SOk r) /\ set_fin13 0x0000 (Some (repeat 0%N 32)) = SUnfinished.
Proof. split; [eexists; reflexivity|reflexivity]. Qed.

(* ---------- Certificate ---------- *)
Section Cert13P.
  Variable cert_ok : list N -> bool.

  Lemma cert_entries13_length certs : length (cert_entries13 certs) = 5 * length certs + chain_bytes certs.
  Proof.
    induction certs as [|c cs IH]; [reflexivity|]. unfold cert_entries13 in *. cbn [flat_map chain_bytes length].
    rewrite !app_length, IH, arr24_length, arr16_length. cbn [length]. unfold chain_bytes. cbn [map fold_right list_sum]. lia.
  Qed.

  Theorem get_set_cert13 rv ctx certs r : set_cert13 cert_ok rv ctx certs = SOk r ->
    forallb cert_ok certs = true -> length ctx < 256 ->
    get_cert13 r = Some (ctx, cert_entries13 certs) /\ length r = 13 + length ctx + 5 * length certs + chain_bytes certs.
  Proof.
    unfold set_cert13. intros H Hok Hc. destruct certs as [|c0 cs] eqn:Ec; [discriminate|]. rewrite <- Ec in *. rewrite Hok in H.
    destruct (max_hs_data <? _) eqn:Em; [discriminate|]. apply Nat.ltb_ge in Em.
    rewrite app_length, arr8_length, arr24_length, cert_entries13_length in Em. unfold max_hs_data in Em.
    apply unchecked_ok in H. apply get_set_handshake in H. destruct H as (Hg & _ & Hlen & _).
    rewrite app_length, arr8_length, arr24_length, cert_entries13_length in Hlen.
    unfold get_cert13. rewrite Hg. unfold parse_cert13. cbn [N.eqb Pos.eqb negb].
    rewrite darr8_arr8 by assumption. rewrite <- (app_nil_r (arr24 _)), darr24_arr24 by (rewrite cert_entries13_length; lia).
    split; [|lia]. destruct (cert_entries13 certs) eqn:Ee; [|reflexivity].
    exfalso. apply (f_equal (@length N)) in Ee. rewrite cert_entries13_length, Ec in Ee. cbn [length] in Ee. lia.
  Qed.

  (* the certificate_list the setter wrote is read back as the certificates, within the callers' 2048 bytes *)
  Lemma cert_list13_S f l total : l <> [] ->
    cert_list13 cert_ok (S f) l total =
    match darr24 l with
    | Some (c, l1) =>
      match darr16 l1 with
      | Some (ex, l2) =>
        if negb (cert_ok c) then None
        else if max_certs <? total + length c then None
        else match ex with
             | [] => match cert_list13 cert_ok f l2 (total + length c) with Some cs => Some (c :: cs) | None => None end
             | _ => None
             end
      | None => None
      end
    | None => None
    end.
  Proof. destruct l; [congruence|reflexivity]. Qed.

  Lemma cert_list13_entries certs : forall fuel total,
    forallb cert_ok certs = true -> total + chain_bytes certs <= max_certs -> length (cert_entries13 certs) <= fuel ->
    cert_list13 cert_ok fuel (cert_entries13 certs) total = Some certs.
  Proof.
    induction certs as [|c cs IH]; intros fuel total Hok Hb Hf.
    - destruct fuel; reflexivity.
    - cbn [forallb] in Hok. apply andb_prop in Hok. destruct Hok as [Hc Hcs].
      assert (Hcb : chain_bytes (c :: cs) = length c + chain_bytes cs) by reflexivity. rewrite Hcb in Hb. unfold max_certs in Hb.
      assert (He : cert_entries13 (c :: cs) = arr24 c ++ arr16 [] ++ cert_entries13 cs).
      { unfold cert_entries13. cbn [flat_map]. rewrite <- app_assoc. reflexivity. }
      rewrite He in *. rewrite !app_length, arr24_length, arr16_length in Hf. cbn [length] in Hf.
      destruct fuel as [|f]; [lia|].
      rewrite cert_list13_S.
      2:{ intros Hn. apply (f_equal (@length N)) in Hn. rewrite app_length, arr24_length in Hn. cbn [length] in Hn. lia. }
      rewrite darr24_arr24 by lia. rewrite darr16_arr16 by (cbn; lia).
      rewrite Hc. cbn [negb]. replace (max_certs <? total + length c) with false by (symmetry; apply Nat.ltb_ge; unfold max_certs; lia).
      rewrite IH; [reflexivity|assumption|unfold max_certs; lia|lia].
  Qed.

  Theorem process_cert_list13_entries certs : forallb cert_ok certs = true -> chain_bytes certs <= max_certs ->
    process_cert_list13 cert_ok (cert_entries13 certs) = Some certs.
  Proof. intros Hok Hb. unfold process_cert_list13. apply cert_list13_entries; [assumption|lia|lia]. Qed.

  Theorem set_cert13_inj rv rv' ctx ctx' cs cs' r :
    set_cert13 cert_ok rv ctx cs = SOk r -> set_cert13 cert_ok rv' ctx' cs' = SOk r ->
    forallb cert_ok cs = true -> forallb cert_ok cs' = true -> length ctx < 256 -> length ctx' < 256 ->
    chain_bytes cs <= max_certs -> chain_bytes cs' <= max_certs -> ctx = ctx' /\ cs = cs'.
  Proof.
    intros A B Ho Ho' Hc Hc' Hb Hb'.
    destruct (get_set_cert13 _ _ _ _ A Ho Hc) as [A' _]. destruct (get_set_cert13 _ _ _ _ B Ho' Hc') as [B' _].
    rewrite A' in B'. injection B' as -> He. split; [reflexivity|].
    pose proof (process_cert_list13_entries cs Ho Hb) as P. pose proof (process_cert_list13_entries cs' Ho' Hb') as P'.
    rewrite He in P. rewrite P in P'. injection P'; auto.
  Qed.

  Theorem get_cert13_canonical r ctx ls : rec_wf r -> bytes_ok r -> get_cert13 r = Some (ctx, ls) ->
    r = frame (rec_version r) 11 (arr8 ctx ++ arr24 ls) /\ ls <> [].
  Proof.
    intros Hw Hb Hg. unfold get_cert13 in Hg. open_get Hg t p E.
    destruct (get_handshake_canonical r t p Hw Hb E) as [Hr Hs]. pose proof (bytes_ok_body r t p Hw Hb E) as Hp.
    unfold parse_cert13 in Hg. destruct (N.eqb_spec t 11); [|discriminate]. subst t. cbn [negb] in Hg.
    destruct (darr8 p) as [[c p1]|] eqn:E1; [|discriminate]. destruct (darr8_inv _ _ _ Hp E1) as (-> & _ & _ & Hp1).
    destruct (darr24 p1) as [[x [|? ?]]|] eqn:E2; try discriminate. destruct x as [|x0 xs] eqn:Ex; [discriminate|]. rewrite <- Ex in *.
    injection Hg as -> ->. destruct (darr24_inv _ _ _ Hp1 E2) as (-> & _). rewrite app_nil_r in *.
    split; [exact Hr|]. rewrite Ex. discriminate.
  Qed.
End Cert13P.

(* ---------- capacity: every TLS 1.3 setter output is a record within 5 + 2^14 ---------- *)
Ltac via13 H := repeat first [ discriminate H | match type of H with (match ?x with _ => _ end) = _ => destruct x end ];
  first [apply checked_ok in H | apply unchecked_ok in H]; eauto.
Definition made_by_setter13 (cert_ok : list N -> bool) (r : list N) : Prop :=
  (exists rv, set_ee13 rv = SOk r) \/ (exists rv a s, set_cv13 rv a s = SOk r) \/ (exists rv c x, set_cr13 rv c x = SOk r) \/
  (exists rv c cs, set_cert13 cert_ok rv c cs = SOk r) \/ (exists rv v, set_fin13 rv v = SOk r).
Theorem setters13_within_capacity cert_ok r : made_by_setter13 cert_ok r ->
  rec_wf r /\ (N.of_nat (length r) <= 16389)%N /\ rec_type r = 22%N /\ msg_wf (hs_message r).
Proof.
  intros H.
  assert (Hv : exists rv t d, set_handshake rv t d = Some r).
  { destruct H as [(rv & H)|[(rv & a & s & H)|[(rv & c & x & H)|[(rv & c & cs & H)|(rv & v & H)]]]]; exists rv.
    - unfold set_ee13 in H. via13 H.
    - unfold set_cv13 in H. via13 H.
    - unfold set_cr13 in H. via13 H.
    - unfold set_cert13 in H. via13 H.
    - unfold set_fin13 in H. via13 H. }
  destruct Hv as (rv & t & d & Hs).
  pose proof (set_handshake_bound _ _ _ _ Hs) as Hb. pose proof (set_handshake_msg_wf _ _ _ _ Hs) as Hm.
  destruct (get_set_handshake _ _ _ _ Hs) as (_ & Hw & _ & _).
  apply set_handshake_frame in Hs. destruct Hs as (Hr & Hl & Hp & _).
  destruct (frame_facts rv t d (protocol_known_lt _ Hp) Hl) as (Ht & _). rewrite <- Hr in Ht. auto.
Qed.

(* ---------- extension lists of the hello messages ---------- *)
Lemma client_hello_exts13_cap cap pt x : client_hello_exts13 cap pt = Some x -> length x <= cap /\ length x = 33 + length pt.
Proof.
  unfold client_hello_exts13. cbv zeta.
  assert (Hl : length (ext_supported_versions_client ++ ext_supported_groups ++ ext_signature_algorithms ++ ext_key_share_client pt) = 33 + length pt).
  { rewrite !app_length. unfold ext_key_share_client, key_share_entry. rewrite ext_length, arr16_length, app_length, arr16_length, e16N_length.
    change (length ext_supported_versions_client) with 7. change (length ext_supported_groups) with 8. change (length ext_signature_algorithms) with 8. lia. }
  destruct (cap <? _) eqn:E; [discriminate|]. apply Nat.ltb_ge in E. intros [= <-]. split; [exact E|exact Hl].
Qed.

Section Ext13P.
  Variable point_ok : list N -> bool.

  (* the answers of the server never exceed the capacity it was given (the repaired check) *)
  Lemma ch_exts_loop_cap cap spt : length spt = 65 -> forall xs need out cpt res,
    length out = need -> need <= cap ->
    ch_exts_loop point_ok cap spt xs need out cpt = Some res -> length (snd res) <= cap.
  Proof.
    intros Hs. induction xs as [|[t d] r IH]; intros need out cpt res Hl Hn H.
    - cbn in H. injection H as <-. cbn. lia.
    - cbn [ch_exts_loop] in H.
      destruct (N.eqb t X_supported_versions).
      + destruct (client_supported_versions d); [|discriminate]. cbn [negb] in H.
        destruct (cap <? need + 6) eqn:E; [discriminate|]. apply Nat.ltb_ge in E.
        eapply IH; [| |exact H]; [rewrite app_length; unfold ext_supported_versions_server; rewrite ext_length, e16N_length; lia|lia].
      + destruct (N.eqb t X_key_share).
        * destruct (cap <? need + 73) eqn:E; [discriminate|]. apply Nat.ltb_ge in E.
          destruct (client_key_share point_ok d); [|discriminate].
          eapply IH; [| |exact H]; [|lia].
          rewrite app_length. unfold ext_key_share_server, key_share_entry. rewrite ext_length, app_length, arr16_length, e16N_length. lia.
        * eapply IH; eassumption.
  Qed.
  Theorem process_client_hello_exts13_within_capacity cap spt l cpt out : length spt = 65 ->
    process_client_hello_exts13 point_ok cap spt l = Some (cpt, out) -> length out <= cap.
  Proof.
    intros Hs H. unfold process_client_hello_exts13 in H. destruct (exts_of l) as [xs|]; [|discriminate].
    exact (ch_exts_loop_cap cap spt Hs xs 0 [] None (cpt, out) eq_refl (Nat.le_0_l _) H).
  Qed.
End Ext13P.

(* ---------- extension lists: bytes <-> (type, data) pairs ---------- *)
Definition ext_ok (x : N * list N) : Prop := (fst x < 65536)%N /\ (N.of_nat (length (snd x)) < 65536)%N.

Lemma split_exts_S f l : l <> [] ->
  split_exts (S f) l = match d16 l with
                       | Some (t, l1) => match darr16 l1 with
                                         | Some (d, l2) => match split_exts f l2 with Some r => Some ((t, d) :: r) | None => None end
                                         | None => None end
                       | None => None end.
Proof. destruct l; [congruence|reflexivity]. Qed.

Lemma exts_bytes_cons t d xs : exts_bytes ((t, d) :: xs) = ext t d ++ exts_bytes xs.
Proof. reflexivity. Qed.

Theorem split_exts_bytes xs : forall fuel, Forall ext_ok xs -> length (exts_bytes xs) <= fuel ->
  split_exts fuel (exts_bytes xs) = Some xs.
Proof.
  induction xs as [|[t d] xs IH]; intros fuel Hok Hf.
  - destruct fuel; reflexivity.
  - inversion Hok as [|? ? [Ht Hd] Hoks]; subst. cbn [fst snd] in Ht, Hd.
    rewrite exts_bytes_cons in *. rewrite app_length, ext_length in Hf. destruct fuel as [|f]; [lia|].
    rewrite split_exts_S.
    2:{ intros Hn. apply (f_equal (@length N)) in Hn. rewrite app_length, ext_length in Hn. cbn [length] in Hn. lia. }
    unfold ext. rewrite <- !app_assoc. rewrite d16_e16N by assumption. rewrite darr16_arr16 by assumption.
    rewrite IH; [reflexivity|assumption|lia].
Qed.
Theorem exts_of_bytes xs : Forall ext_ok xs -> exts_of (exts_bytes xs) = Some xs.
Proof. intros H. unfold exts_of. apply split_exts_bytes; [assumption|lia]. Qed.
Theorem exts_bytes_inj xs ys : Forall ext_ok xs -> Forall ext_ok ys -> exts_bytes xs = exts_bytes ys -> xs = ys.
Proof. intros Hx Hy H. pose proof (exts_of_bytes xs Hx) as A. rewrite H, (exts_of_bytes ys Hy) in A. injection A; auto. Qed.

Section Ext13RT.
  Variable point_ok : list N -> bool.

  Lemma server_key_share_entry pt : length pt = 65 -> point_ok pt = true ->
    server_key_share point_ok (key_share_entry pt) = Some pt.
  Proof.
    intros Hl Hp. unfold server_key_share, key_share_entry. rewrite d16_e16N by reflexivity.
    rewrite <- (app_nil_r (arr16 pt)), darr16_arr16 by (rewrite Hl; reflexivity).
    cbn [N.eqb curve_sm2 Pos.eqb negb]. rewrite Hl, Hp. reflexivity.
  Qed.

  (* what the server answers, the client reads back *)
  Theorem server_hello_exts13_answer spt : length spt = 65 -> point_ok spt = true ->
    server_hello_exts13 point_ok (ext_supported_versions_server ++ ext_key_share_server spt) = Some (Some spt).
  Proof.
    intros Hl Hp.
    assert (He : ext_supported_versions_server ++ ext_key_share_server spt =
                 exts_bytes [(X_supported_versions, e16N TLS13); (X_key_share, key_share_entry spt)]).
    { unfold exts_bytes. cbn [flat_map fst snd]. rewrite app_nil_r. reflexivity. }
    unfold server_hello_exts13. rewrite He, exts_of_bytes.
    2:{ repeat constructor; cbn [fst snd]; try reflexivity. unfold key_share_entry. rewrite app_length, arr16_length, Hl. reflexivity. }
    cbn [sh_exts_loop]. change (N.eqb X_supported_versions X_supported_versions) with true. cbv iota.
    change (d16 (e16N TLS13)) with (Some (TLS13, @nil N)). cbv iota. change (N.eqb TLS13 TLS13) with true. cbv iota.
    change (N.eqb X_key_share X_supported_versions) with false. change (N.eqb X_key_share X_key_share) with true. cbv iota.
    rewrite server_key_share_entry by assumption. reflexivity.
  Qed.

  Lemma client_key_share_entry pt : length pt = 65 -> point_ok pt = true ->
    client_key_share point_ok (arr16 (key_share_entry pt)) = Some pt.
  Proof.
    intros Hl Hp. unfold client_key_share.
    assert (Hk : length (key_share_entry pt) = 69) by (unfold key_share_entry; rewrite app_length, arr16_length, Hl; reflexivity).
    rewrite <- (app_nil_r (arr16 _)), darr16_arr16 by (rewrite Hk; reflexivity). rewrite Hk.
    unfold key_share_entry. change 69 with (S 68). cbn [shares_scan].
    remember (e16N curve_sm2 ++ arr16 pt) as K. destruct K as [|k0 K']; [apply (f_equal (@length N)) in HeqK; rewrite app_length in HeqK; cbn in HeqK; lia|].
    rewrite HeqK. rewrite d16_e16N by reflexivity. rewrite <- (app_nil_r (arr16 pt)), darr16_arr16 by (rewrite Hl; reflexivity).
    change (curve_known curve_sm2) with true. cbn [negb]. destruct pt as [|p0 pt']; [discriminate|].
    change (N.eqb curve_sm2 curve_sm2) with true. cbv iota. rewrite Hl, Hp. reflexivity.
  Qed.

  (* what the client offers, the server accepts and answers within 79 bytes *)
  Theorem process_client_hello_exts13_offer cap cap' pt spt x : client_hello_exts13 cap' pt = Some x ->
    length pt = 65 -> point_ok pt = true -> 79 <= cap ->
    process_client_hello_exts13 point_ok cap spt x =
      Some (Some pt, ext_supported_versions_server ++ ext_key_share_server spt).
  Proof.
    intros Hx Hl Hp Hc. unfold client_hello_exts13 in Hx. cbv zeta in Hx. destruct (cap' <? _); [discriminate|].
    replace x with (ext_supported_versions_client ++ ext_supported_groups ++ ext_signature_algorithms ++ ext_key_share_client pt) by congruence. clear Hx.
    assert (He : ext_supported_versions_client ++ ext_supported_groups ++ ext_signature_algorithms ++ ext_key_share_client pt =
                 exts_bytes [(X_supported_versions, arr8 (e16N TLS13)); (X_supported_groups, arr16 (e16N curve_sm2));
                             (X_signature_algorithms, arr16 (e16N sig_sm2sm3)); (X_key_share, arr16 (key_share_entry pt))]).
    { unfold exts_bytes. cbn [flat_map fst snd]. rewrite app_nil_r. reflexivity. }
    unfold process_client_hello_exts13. rewrite He, exts_of_bytes.
    2:{ repeat constructor; cbn [fst snd]; try reflexivity. rewrite arr16_length. unfold key_share_entry. rewrite app_length, arr16_length, Hl. reflexivity. }
    cbn [ch_exts_loop].
    change (N.eqb X_supported_versions X_supported_versions) with true. cbv iota.
    change (client_supported_versions (arr8 (e16N TLS13))) with true. cbn [negb].
    replace (cap <? 0 + 6) with false by (symmetry; apply Nat.ltb_ge; lia).
    change (N.eqb X_supported_groups X_supported_versions) with false. change (N.eqb X_supported_groups X_key_share) with false.
    change (N.eqb X_signature_algorithms X_supported_versions) with false. change (N.eqb X_signature_algorithms X_key_share) with false.
    change (N.eqb X_key_share X_supported_versions) with false. change (N.eqb X_key_share X_key_share) with true. cbv iota.
    replace (cap <? 0 + 6 + 73) with false by (symmetry; apply Nat.ltb_ge; lia).
    rewrite client_key_share_entry by assumption. reflexivity.
  Qed.
End Ext13RT.

(* ---------- TLS 1.2 extension processing: the server's answers stay within the capacity it was given ---------- *)
Lemma ch_exts12_loop_cap cap : forall xs out res, length out <= cap ->
  ch_exts12_loop cap xs out = Some res -> length res <= cap.
Proof.
  induction xs as [|[t d] r IH]; intros out res Hl H.
  - cbn in H. injection H as <-. exact Hl.
  - cbn [ch_exts12_loop] in H. destruct (extension_known t); [|discriminate]. cbn [negb] in H.
    destruct ((cap <? length out) || (cap - length out <? 8)) eqn:E; [discriminate|].
    apply Bool.orb_false_iff in E. destruct E as [E1 E2]. apply Nat.ltb_ge in E1. apply Nat.ltb_ge in E2.
    destruct (N.eqb t X_ec_point_formats).
    { destruct (client_ec_point_formats d); [|discriminate]. eapply IH; [|exact H]. rewrite app_length. change (length ext_ec_point_formats_answer) with 6. lia. }
    destruct (N.eqb t X_signature_algorithms).
    { destruct (client_signature_algorithms d); [|discriminate]. eapply IH; [|exact H]. rewrite app_length. change (length ext_signature_algorithms) with 8. lia. }
    destruct (N.eqb t X_supported_groups); [|discriminate].
    destruct (client_supported_groups d); [|discriminate]. eapply IH; [|exact H]. rewrite app_length. change (length ext_supported_groups) with 8. lia.
Qed.
Theorem process_client_hello_exts12_within_capacity cap l out :
  process_client_hello_exts12 cap l = Some out -> length out <= cap.
Proof.
  unfold process_client_hello_exts12. destruct (exts_of l) as [xs|]; [|discriminate]. apply ch_exts12_loop_cap. cbn. lia.
Qed.

(* what the TLS 1.2 server answers to the three extensions, the client accepts *)
Theorem process_server_hello_exts12_answer cap out :
  process_client_hello_exts12 cap (ext X_ec_point_formats (arr8 [0%N]) ++ ext_supported_groups ++ ext_signature_algorithms) = Some out ->
  process_server_hello_exts12 out = Some (Some 0%N, Some curve_sm2, Some sig_sm2sm3).
Proof.
  intros H. unfold process_client_hello_exts12 in H.
  change (exts_of (ext X_ec_point_formats (arr8 [0%N]) ++ ext_supported_groups ++ ext_signature_algorithms))
    with (Some [(X_ec_point_formats, arr8 [0%N]); (X_supported_groups, arr16 (e16N curve_sm2)); (X_signature_algorithms, arr16 (e16N sig_sm2sm3))]) in H.
  cbn [ch_exts12_loop] in H.
  change (extension_known X_ec_point_formats) with true in H. change (extension_known X_supported_groups) with true in H.
  change (extension_known X_signature_algorithms) with true in H. cbn [negb] in H.
  repeat match type of H with (if ?c then None else _) = _ => destruct c; [discriminate|] end.
  change (N.eqb X_ec_point_formats X_ec_point_formats) with true in H. cbv iota in H.
  change (client_ec_point_formats (arr8 [0%N])) with true in H. cbv iota in H.
  repeat match type of H with (if ?c then None else _) = _ => destruct c; [discriminate|] end.
  change (N.eqb X_supported_groups X_ec_point_formats) with false in H. change (N.eqb X_supported_groups X_signature_algorithms) with false in H.
  change (N.eqb X_supported_groups X_supported_groups) with true in H. cbv iota in H.
  change (client_supported_groups (arr16 (e16N curve_sm2))) with true in H. cbv iota in H.
  repeat match type of H with (if ?c then None else _) = _ => destruct c; [discriminate|] end.
  change (N.eqb X_signature_algorithms X_ec_point_formats) with false in H. change (N.eqb X_signature_algorithms X_signature_algorithms) with true in H. cbv iota in H.
  change (client_signature_algorithms (arr16 (e16N sig_sm2sm3))) with true in H. cbv iota in H.
  injection H as <-. reflexivity.
Qed.
