(* Proofs about the application data path model (Tls/Stream.v). *)
From GmVerif Require Import Base.ListX Base.Bytes Tls.Stream.
From Coq Require Import ZifyN ZifyNat ZifyBool.
Local Open Scope nat_scope.

(* bytes the receiver has not yet handed to the application *)
Definition pending (s : dir_state) : list N := rbuf s ++ concat (chan s).
(* both ends count the same records: sender = receiver + records in flight *)
Definition lockstep (s : dir_state) : Prop := sseq s = rseq s + length (chan s).

Lemma concat_snoc {A} (l : list (list A)) x : concat (l ++ [x]) = concat l ++ x.
Proof. rewrite concat_app. cbn [concat]. rewrite app_nil_r. reflexivity. Qed.

Section P.
  Variable clamp : option nat.
  Variable cap : option nat.
  Variable allow_empty : bool.
  Hypothesis clamp_pos : forall c, clamp = Some c -> 0 < c.

  Lemma send1_ok s inp s' n : inp <> [] -> send1 clamp cap allow_empty s inp = Ok (s', n) ->
    0 < n <= length inp /\
    s' = mk_dir (chan s ++ [firstn n inp]) (rbuf s) (S (sseq s)) (rseq s) /\
    (forall c, clamp = Some c -> n <= c) /\ (forall k, cap = Some k -> n <= k).
  Proof.
    intros Hne. unfold send1. destruct inp as [|b inp']; [congruence|]. clear Hne.
    set (inp := b :: inp'). assert (Hl : 0 < length inp) by (cbn; lia). clearbody inp.
    set (m := match clamp with Some c => Nat.min c (length inp) | None => length inp end).
    assert (Hm : 0 < m <= length inp /\ forall c, clamp = Some c -> m <= c).
    { unfold m. destruct clamp as [c|] eqn:Ec.
      - pose proof (clamp_pos c eq_refl). split; [lia|]. intros c' [= <-]. lia.
      - split; [lia|]. discriminate. }
    clearbody m. destruct Hm as [Hm1 Hm2].
    destruct cap as [k|].
    - destruct (k <? m) eqn:Ek; [discriminate|]. apply Nat.ltb_ge in Ek.
      intros [= <- <-]. repeat split; try lia; auto. intros k' [= <-]. assumption.
    - intros [= <- <-]. repeat split; try lia; auto. discriminate.
  Qed.

  (* a send with datalen 0: refused, or one empty record and one sequence number *)
  Lemma send1_empty s s' n : send1 clamp cap allow_empty s [] = Ok (s', n) ->
    allow_empty = true /\ n = 0 /\ s' = mk_dir (chan s ++ [[]]) (rbuf s) (S (sseq s)) (rseq s).
  Proof. unfold send1. destruct allow_empty; [|discriminate]. intros [= <- <-]. auto. Qed.

  Lemma write_all_S f s inp : inp <> [] ->
    write_all clamp cap allow_empty (S f) s inp =
    match send1 clamp cap allow_empty s inp with
    | Ok (s', n) =>
      match write_all clamp cap allow_empty f s' (skipn n inp) with
      | Ok (s'', ns) => Ok (s'', n :: ns)
      | Err => Err | Fault => Fault
      end
    | Err => Err | Fault => Fault
    end.
  Proof. destruct inp; [congruence|reflexivity]. Qed.

  Lemma write_all_ok fuel s inp s' ns : write_all clamp cap allow_empty fuel s inp = Ok (s', ns) ->
    pending s' = pending s ++ inp /\ rbuf s' = rbuf s /\
    sseq s' = sseq s + length ns /\ rseq s' = rseq s /\
    length (chan s') = length (chan s) + length ns /\
    Forall (fun n => 0 < n /\ (forall c, clamp = Some c -> n <= c)) ns.
  Proof.
    revert s inp s' ns; induction fuel as [|f IH]; intros s inp s' ns.
    - destruct inp; cbn [write_all]; [|discriminate].
      intros [= <- <-]. unfold pending. rewrite app_nil_r. cbn. repeat split; try lia. constructor.
    - destruct (list_eq_dec N.eq_dec inp []) as [->|Hne].
      { cbn [write_all]. intros [= <- <-]. unfold pending. rewrite app_nil_r. cbn. repeat split; try lia. constructor. }
      rewrite write_all_S by assumption.
      destruct (send1 clamp cap allow_empty s inp) as [[s1 n]| |] eqn:Es; try discriminate.
      destruct (write_all clamp cap allow_empty f s1 (skipn n inp)) as [[s2 ns']| |] eqn:Ew; try discriminate.
      intros [= <- <-].
      apply send1_ok in Es; [|assumption]. destruct Es as (Hn & -> & Hc & _).
      apply IH in Ew. destruct Ew as (Hp & Hr & Hs & Hq & Hcl & Hf).
      cbn [rbuf sseq rseq chan] in *. repeat split.
      + rewrite Hp. unfold pending. cbn [rbuf chan]. rewrite concat_snoc, <- !app_assoc, firstn_skipn. reflexivity.
      + assumption.
      + cbn [length]. lia.
      + assumption.
      + rewrite Hcl, app_length. cbn [length]. lia.
      + constructor; [split; [lia|assumption]|assumption].
  Qed.

  Lemma recv1_ok s n s' d : recv1 s n = Ok (s', d) ->
    pending s = d ++ pending s' /\ length d <= n /\ (lockstep s -> lockstep s').
  Proof.
    unfold recv1. destruct (n =? 0); [discriminate|].
    destruct (rbuf s) as [|b r] eqn:Er.
    - destruct (chan s) as [|rec c] eqn:Ec; [discriminate|].
      intros [= <- <-]. unfold pending, lockstep. rewrite Er, Ec. cbn [rbuf chan concat app sseq rseq length].
      rewrite app_assoc, firstn_skipn. repeat split; [rewrite firstn_length; lia|lia].
    - intros [= <- <-]. unfold pending, lockstep. rewrite Er. cbn [rbuf chan sseq rseq].
      rewrite app_assoc, firstn_skipn. repeat split; [rewrite firstn_length; lia|auto].
  Qed.

  (* stream fidelity: whatever has been written is, in order and unmodified, what has been
     read followed by what is still buffered / in flight *)
  Theorem stream_fidelity ops s s' reads recs :
    run clamp cap allow_empty ops s = Ok (s', reads, recs) ->
    pending s ++ written ops = concat reads ++ pending s'.
  Proof.
    revert s s' reads recs; induction ops as [|o ops IH]; intros s s' reads recs.
    - cbn [run]. intros [= <- <- <-]. cbn. rewrite app_nil_r. reflexivity.
    - destruct o as [d|n|]; cbn [run written].
      + destruct (write_all clamp cap allow_empty (length d) s d) as [[s1 ns]| |] eqn:Ew; try discriminate.
        destruct (run clamp cap allow_empty ops s1) as [[[s2 rd] rc]| |] eqn:Er; try discriminate.
        intros [= <- <- <-]. apply write_all_ok in Ew. destruct Ew as (Hp & _).
        apply IH in Er. rewrite app_assoc, <- Hp. exact Er.
      + destruct (recv1 s n) as [[s1 d]| |] eqn:Ev; try discriminate.
        destruct (run clamp cap allow_empty ops s1) as [[[s2 rd] rc]| |] eqn:Er; try discriminate.
        intros [= <- <- <-]. apply recv1_ok in Ev. destruct Ev as (Hp & _).
        apply IH in Er. cbn [concat]. rewrite Hp, <- !app_assoc, Er. reflexivity.
      + destruct (send1 clamp cap allow_empty s []) as [[s1 n]| |] eqn:Es; try discriminate.
        destruct (run clamp cap allow_empty ops s1) as [[[s2 rd] rc]| |] eqn:Er; try discriminate.
        intros [= <- <- <-]. apply send1_empty in Es. destruct Es as (_ & _ & ->).
        apply IH in Er. rewrite <- Er. unfold pending. cbn [rbuf chan]. rewrite concat_snoc, app_nil_r. reflexivity.
  Qed.

  Corollary stream_fidelity_drained ops s' reads recs :
    run clamp cap allow_empty ops dir_init = Ok (s', reads, recs) -> pending s' = [] ->
    concat reads = written ops.
  Proof.
    intros H Hp. apply stream_fidelity in H. rewrite Hp, app_nil_r in H. cbn in H. symmetry. exact H.
  Qed.

  (* one sequence number per record on each side, never out of step *)
  Theorem seq_lockstep ops s s' reads recs :
    run clamp cap allow_empty ops s = Ok (s', reads, recs) -> lockstep s -> lockstep s'.
  Proof.
    revert s s' reads recs; induction ops as [|o ops IH]; intros s s' reads recs.
    - cbn [run]. intros [= <- <- <-]. auto.
    - destruct o as [d|n|]; cbn [run].
      + destruct (write_all clamp cap allow_empty (length d) s d) as [[s1 ns]| |] eqn:Ew; try discriminate.
        destruct (run clamp cap allow_empty ops s1) as [[[s2 rd] rc]| |] eqn:Er; try discriminate.
        intros [= <- <- <-] Hl. apply write_all_ok in Ew. destruct Ew as (_ & _ & Hs & Hq & Hc & _).
        eapply IH; [exact Er|]. unfold lockstep in *. lia.
      + destruct (recv1 s n) as [[s1 d]| |] eqn:Ev; try discriminate.
        destruct (run clamp cap allow_empty ops s1) as [[[s2 rd] rc]| |] eqn:Er; try discriminate.
        intros [= <- <- <-] Hl. apply recv1_ok in Ev. destruct Ev as (_ & _ & Hk).
        eapply IH; [exact Er|auto].
      + destruct (send1 clamp cap allow_empty s []) as [[s1 n]| |] eqn:Es; try discriminate.
        destruct (run clamp cap allow_empty ops s1) as [[[s2 rd] rc]| |] eqn:Er; try discriminate.
        intros [= <- <- <-] Hl. apply send1_empty in Es. destruct Es as (_ & _ & ->).
        eapply IH; [exact Er|]. unfold lockstep in *. cbn [sseq rseq chan]. rewrite app_length. cbn [length]. lia.
  Qed.

  (* every record a Write produced is non-empty and respects the clamp *)
  Theorem record_sizes ops s s' reads recs :
    run clamp cap allow_empty ops s = Ok (s', reads, recs) ->
    Forall (Forall (fun n => (n = 0 -> allow_empty = true) /\ (forall c, clamp = Some c -> n <= c))) recs.
  Proof.
    revert s s' reads recs; induction ops as [|o ops IH]; intros s s' reads recs.
    - cbn [run]. intros [= <- <- <-]. constructor.
    - destruct o as [d|n|]; cbn [run].
      + destruct (write_all clamp cap allow_empty (length d) s d) as [[s1 ns]| |] eqn:Ew; try discriminate.
        destruct (run clamp cap allow_empty ops s1) as [[[s2 rd] rc]| |] eqn:Er; try discriminate.
        intros [= <- <- <-]. apply write_all_ok in Ew. destruct Ew as (_ & _ & _ & _ & _ & Hf).
        constructor; [|eapply IH; eassumption].
        eapply Forall_impl; [|exact Hf]. intros n [Hn Hc]. split; [lia|assumption].
      + destruct (recv1 s n) as [[s1 d]| |] eqn:Ev; try discriminate.
        destruct (run clamp cap allow_empty ops s1) as [[[s2 rd] rc]| |] eqn:Er; try discriminate.
        intros [= <- <- <-]. eapply IH; eassumption.
      + destruct (send1 clamp cap allow_empty s []) as [[s1 n]| |] eqn:Es; try discriminate.
        destruct (run clamp cap allow_empty ops s1) as [[[s2 rd] rc]| |] eqn:Er; try discriminate.
        intros [= <- <- <-]. apply send1_empty in Es. destruct Es as (Ha & -> & _).
        constructor; [|eapply IH; eassumption].
        constructor; [|constructor]. split; [auto|intros; lia].
  Qed.

  (* an empty record is a record like any other: sending it and receiving it advances the
     sequence number on both sides by one and delivers zero bytes *)
  Theorem empty_record_consumes_seq s s1 n s2 d outlen :
    chan s = [] -> rbuf s = [] ->
    send1 clamp cap allow_empty s [] = Ok (s1, n) -> recv1 s1 outlen = Ok (s2, d) ->
    n = 0 /\ d = [] /\ sseq s2 = S (sseq s) /\ rseq s2 = S (rseq s) /\ chan s2 = [] /\ rbuf s2 = [].
  Proof.
    intros Hc Hr Hs Hv. apply send1_empty in Hs. destruct Hs as (_ & -> & ->).
    unfold recv1 in Hv. cbn [rbuf chan sseq rseq] in Hv. rewrite Hr, Hc in Hv. cbn [app] in Hv.
    destruct (outlen =? 0); [discriminate|]. injection Hv as <- <-.
    cbn [sseq rseq chan rbuf]. rewrite firstn_nil, skipn_nil. repeat split; reflexivity.
  Qed.

  (* without a capacity limit (tls_send: the clamp keeps every record inside conn->record)
     a write of any size succeeds *)
  Lemma write_all_total fuel s inp : cap = None -> length inp <= fuel ->
    exists s' ns, write_all clamp cap allow_empty fuel s inp = Ok (s', ns).
  Proof.
    intros Hc. revert s inp; induction fuel as [|f IH]; intros s inp Hl.
    - destruct inp; [|cbn in Hl; lia]. cbn. eauto.
    - destruct (list_eq_dec N.eq_dec inp []) as [->|Hne]; [cbn; eauto|].
      rewrite write_all_S by assumption.
      destruct (send1 clamp cap allow_empty s inp) as [[s1 n]| |] eqn:Es.
      + pose proof (send1_ok _ _ _ _ Hne Es) as (Hn & _).
        destruct (IH s1 (skipn n inp)) as (s2 & ns & Hw); [rewrite skipn_length; lia|].
        rewrite Hw. eauto.
      + exfalso. unfold send1 in Es. rewrite Hc in Es. destruct inp; [congruence|discriminate].
      + exfalso. unfold send1 in Es. rewrite Hc in Es. destruct inp; [congruence|discriminate].
  Qed.
End P.

(* ---------- the two instances ---------- *)
Lemma clamp12_pos c : Some max_plain = Some c -> 0 < c.
Proof. intros [= <-]. unfold max_plain. lia. Qed.
Lemma clamp13_pos c : @None nat = Some c -> 0 < c.
Proof. discriminate. Qed.

Theorem stream12_fidelity ops s' reads recs :
  run12 ops dir_init = Ok (s', reads, recs) -> written ops = concat reads ++ pending s'.
Proof. intros H. apply (stream_fidelity _ _ _ clamp12_pos) in H. exact H. Qed.

Theorem stream13_fidelity ops s' reads recs :
  run13 ops dir_init = Ok (s', reads, recs) -> written ops = concat reads ++ pending s'.
Proof. intros H. apply (stream_fidelity _ _ _ clamp12_pos) in H. exact H. Qed.

(* TLCP / TLS 1.2: a script never faults, and fails only at a Read (empty buffer size or no
   record available) -- never at a Write, whatever its size *)
Theorem stream12_writes_total ops s : (forall o, In o ops -> exists d, o = Write d) ->
  exists s' recs, run12 ops s = Ok (s', [], recs).
Proof.
  revert s; induction ops as [|o ops IH]; intros s Hw.
  - cbn. eauto.
  - destruct (Hw o (or_introl eq_refl)) as [d ->]. unfold run12 in *. cbn [run].
    destruct (write_all_total (Some max_plain) None false clamp12_pos (length d) s d eq_refl (le_n _)) as (s1 & ns & Hok).
    rewrite Hok. destruct (IH s1) as (s2 & recs & Hr); [intros; apply Hw; right; assumption|].
    rewrite Hr. eauto.
Qed.

Theorem stream12_record_sizes ops s s' reads recs :
  run12 ops s = Ok (s', reads, recs) -> Forall (Forall (fun n => 0 < n <= max_plain)) recs.
Proof.
  intros H. apply (record_sizes _ _ _ clamp12_pos) in H.
  eapply Forall_impl; [|exact H]. intros l Hl. eapply Forall_impl; [|exact Hl].
  intros n [Hn Hc]. split; [|apply Hc; reflexivity].
  destruct n; [specialize (Hn eq_refl); discriminate|lia].
Qed.

(* TLS 1.3 (tls13_send with the clamp of commit c5b289c): writes of any size succeed; records are
   at most 2^14 bytes, and empty only when the application sent an empty buffer *)
Theorem stream13_writes_total ops s : (forall o, In o ops -> exists d, o = Write d) ->
  exists s' recs, run13 ops s = Ok (s', [], recs).
Proof.
  revert s; induction ops as [|o ops IH]; intros s Hw.
  - cbn. eauto.
  - destruct (Hw o (or_introl eq_refl)) as [d ->]. unfold run13 in *. cbn [run].
    destruct (write_all_total (Some max_plain) None true clamp12_pos (length d) s d eq_refl (le_n _)) as (s1 & ns & Hok).
    rewrite Hok. destruct (IH s1) as (s2 & recs & Hr); [intros; apply Hw; right; assumption|].
    rewrite Hr. eauto.
Qed.

Theorem stream13_record_sizes ops s s' reads recs :
  run13 ops s = Ok (s', reads, recs) -> Forall (Forall (fun n => n <= max_plain)) recs.
Proof.
  intros H. apply (record_sizes _ _ _ clamp12_pos) in H.
  eapply Forall_impl; [|exact H]. intros l Hl. eapply Forall_impl; [|exact Hl].
  intros n [_ Hc]. apply Hc; reflexivity.
Qed.

(* an empty TLS 1.3 application record (tls13_send with datalen 0) consumes one sequence number
   on each side and delivers nothing; tls_send refuses datalen 0 *)
Theorem stream13_empty_record s s1 n s2 d outlen :
  chan s = [] -> rbuf s = [] ->
  send1 (Some max_plain) None true s [] = Ok (s1, n) -> recv1 s1 outlen = Ok (s2, d) ->
  n = 0 /\ d = [] /\ sseq s2 = S (sseq s) /\ rseq s2 = S (rseq s) /\ chan s2 = [] /\ rbuf s2 = [].
Proof. apply empty_record_consumes_seq. Qed.
Theorem stream12_empty_send_refused s : send1 (Some max_plain) None false s [] = Err.
Proof. reflexivity. Qed.

(* for the record: tls13_send before c5b289c had no clamp; a write larger than 18415 bytes ran
   over conn->record (DESIGN section 5 #22) *)
Example stream13_oversize_write_faulted_before_fix d r s :
  cap13 < length d -> run13_before_c5b289c (Write d :: r) s = Fault.
Proof.
  intros H. unfold run13_before_c5b289c. cbn [run].
  assert (Hne : d <> []) by (destruct d; [cbn in H; lia|discriminate]).
  assert (Hw : write_all None (Some cap13) true (length d) s d = Fault).
  { destruct (length d) as [|f] eqn:El; [lia|].
    rewrite (write_all_S None (Some cap13) true f s d Hne).
    unfold send1. destruct d as [|b d']; [congruence|]. rewrite El.
    replace (cap13 <? S f) with true by (symmetry; apply Nat.ltb_lt; lia). reflexivity. }
  rewrite Hw. reflexivity.
Qed.

(* ---------- both directions: sending never touches what the sender has received ---------- *)
Section D.
  Variable clamp cap : option nat.
  Variable allow_empty refuse : bool.

  Theorem dsend_keeps_incoming d client inp d' n :
    dsend clamp cap allow_empty refuse d client inp = Ok (d', n) -> incoming d' client = incoming d client.
  Proof.
    unfold dsend. destruct (refuse && has_pending d client); [discriminate|].
    destruct (send1 _ _ _ _ _) as [[x m]| |]; try discriminate. intros [= <- <-].
    destruct client; reflexivity.
  Qed.
  Theorem dwrite_keeps_incoming d client inp d' ns :
    dwrite clamp cap allow_empty refuse d client inp = Ok (d', ns) -> incoming d' client = incoming d client.
  Proof.
    unfold dwrite. destruct inp as [|b inp']; [intros [= <- <-]; reflexivity|].
    destruct (refuse && has_pending d client); [discriminate|].
    destruct (write_all _ _ _ _ _ _) as [[x m]| |]; try discriminate. intros [= <- <-].
    destruct client; reflexivity.
  Qed.
  (* receiving never touches what the receiver is sending *)
  Theorem drecv_keeps_outgoing d client outlen d' data :
    drecv d client outlen = Ok (d', data) -> outgoing d' client = outgoing d client.
  Proof.
    unfold drecv. destruct (recv1 _ _) as [[x m]| |]; try discriminate. intros [= <- <-].
    destruct client; reflexivity.
  Qed.
End D.

(* TLCP / TLS 1.2 (shared conn->databuf): a send while received data is still buffered is refused *)
Theorem tls12_send_refused_while_pending d client inp :
  has_pending d client = true -> dsend (Some max_plain) None false true d client inp = Err.
Proof. intros H. unfold dsend. rewrite H. reflexivity. Qed.
(* TLS 1.3: a partially read record survives a write on the same endpoint: the rest of it is what
   the next receive calls deliver *)
Theorem tls13_write_keeps_partial_record d client inp d' ns outlen :
  dwrite (Some max_plain) None true false d client inp = Ok (d', ns) ->
  drecv d' client outlen = match recv1 (incoming d client) outlen with
                           | Ok (x, data) => Ok (set_incoming d' client x, data)
                           | Err => Err | Fault => Fault end.
Proof. intros H. unfold drecv. rewrite (dwrite_keeps_incoming _ _ _ _ _ _ _ _ _ H). reflexivity. Qed.
