(* C09: the guard lists of the six handshake drivers as the model assumes them, and what
   "the driver returned 1" means over such a list.

   A row is (kind, callee, comparison applied to the result, enclosing conditions):
     ("guard", f, "!=1", ctx)   the driver evaluates   if (f(...) != 1) { ...; goto end; }
                                inside the `if` blocks named by ctx (source text, top level = [])
     ("success", "ret=1", "-", [])   the single success exit, at the function's top level, last.
   tools/guard_sites.py extracts the same rows (plus line numbers) from the clang AST of the
   current src/tlcp.c, src/tls12.c, src/tls13.c on every run of the C09 check; the check proves
   [guard_diff extracted expected = []] for all six drivers, so a deleted, moved, newly
   conditional or differently compared guard -- or a new success exit -- breaks an obligation
   that names the site.  The lists below are therefore not free-hand: they are the lists the
   check holds the source to. *)
From Coq Require Import String List Bool Arith DecimalString.
Import ListNotations.
Local Open Scope string_scope.

Definition guard_spec : Type := (string * string * string * list string)%type.
Definition guard_row : Type := (string * string * string * list string * nat)%type.

Definition tlcp_do_connect_guards : list guard_spec := [
  ("guard", "tls_record_get_handshake_certificate", "!=1", []);
  ("guard", "x509_certs_verify_tlcp", "!=1", ["conn->ca_certs_len"]);
  ("guard", "x509_certs_get_cert_by_index", "!=1", []);
  ("guard", "x509_certs_get_cert_by_index", "!=1", []);
  ("guard", "sm2_verify_finish", "!=1", []);
  ("guard", "tls_record_decrypt", "!=1", []);
  ("guard", "memcmp(verify_data,local_verify_data)", "!=0", []);
  ("success", "ret=1", "-", [])
].
Definition tlcp_do_accept_guards : list guard_spec := [
  ("guard", "x509_certs_get_cert_by_index", "!=1", []);
  ("guard", "tls_record_get_handshake_certificate", "!=1", ["conn->ca_certs_len"]);
  ("guard", "x509_certs_verify", "!=1", ["conn->ca_certs_len"]);
  ("guard", "sm2_decrypt", "!=1", []);
  ("guard", "x509_certs_get_cert_by_index", "!=1", ["client_verify"]);
  ("guard", "sm2_verify_finish", "!=1", ["client_verify"]);
  ("guard", "tls_record_decrypt", "!=1", []);
  ("guard", "memcmp(verify_data,local_verify_data)", "!=0", []);
  ("success", "ret=1", "-", [])
].
Definition tls12_do_connect_guards : list guard_spec := [
  ("guard", "tls_record_get_handshake_certificate", "!=1", []);
  ("guard", "x509_certs_verify", "!=1", []);
  ("guard", "x509_certs_get_cert_by_index", "!=1", []);
  ("guard", "tls_verify_server_ecdh_params", "!=1", []);
  ("guard", "tls_record_decrypt", "!=1", []);
  ("guard", "memcmp(verify_data,local_verify_data)", "!=0", []);
  ("success", "ret=1", "-", [])
].
Definition tls12_do_accept_guards : list guard_spec := [
  ("guard", "tls_record_get_handshake_certificate", "!=1", ["conn->ca_certs_len"]);
  ("guard", "x509_certs_verify", "!=1", ["conn->ca_certs_len"]);
  ("guard", "x509_certs_get_cert_by_index", "!=1", ["client_verify"]);
  ("guard", "tls_client_verify_finish", "!=1", ["client_verify"]);
  ("guard", "tls_record_decrypt", "!=1", []);
  ("guard", "memcmp(verify_data,local_verify_data)", "!=0", []);
  ("success", "ret=1", "-", [])
].
Definition tls13_do_connect_guards : list guard_spec := [
  ("guard", "tls13_record_decrypt", "!=1", []);
  ("guard", "tls13_record_decrypt", "!=1", []);
  ("guard", "tls13_record_decrypt", "!=1", ["type==TLS_handshake_certificate_request"]);
  ("guard", "tls13_record_get_handshake_certificate", "!=1", []);
  ("guard", "tls13_process_certificate_list", "!=1", []);
  ("guard", "x509_certs_get_cert_by_index", "!=1", []);
  ("guard", "x509_certs_verify", "!=1", []);
  ("guard", "tls13_record_decrypt", "!=1", []);
  ("guard", "tls13_verify_certificate_verify", "!=1", []);
  ("guard", "tls13_record_decrypt", "!=1", []);
  ("guard", "memcmp(server_verify_data,verify_data)", "!=0", []);
  ("success", "ret=1", "-", [])
].
Definition tls13_do_accept_guards : list guard_spec := [
  ("guard", "tls13_record_decrypt", "!=1", ["client_verify"]);
  ("guard", "tls13_record_get_handshake_certificate", "!=1", ["client_verify"]);
  ("guard", "tls13_process_certificate_list", "!=1", ["client_verify"]);
  ("guard", "x509_certs_get_cert_by_index", "!=1", ["client_verify"]);
  ("guard", "x509_certs_verify", "!=1", ["client_verify"]);
  ("guard", "tls13_record_decrypt", "!=1", ["client_verify"]);
  ("guard", "tls13_verify_certificate_verify", "!=1", ["client_verify"]);
  ("guard", "tls13_record_decrypt", "!=1", []);
  ("guard", "memcmp(client_verify_data,verify_data)", "!=0", []);
  ("success", "ret=1", "-", [])
].

(* ---------- comparing an extracted table with an expected list ---------- *)
Fixpoint strs_eqb (a b : list string) : bool :=
  match a, b with
  | [], [] => true
  | x :: a', y :: b' => String.eqb x y && strs_eqb a' b'
  | _, _ => false
  end.
Definition spec_eqb (a b : guard_spec) : bool :=
  let '(k1, c1, t1, x1) := a in let '(k2, c2, t2, x2) := b in
  String.eqb k1 k2 && String.eqb c1 c2 && String.eqb t1 t2 && strs_eqb x1 x2.
Definition strip (r : guard_row) : guard_spec := let '(k, c, t, x, _) := r in (k, c, t, x).
Definition show_spec (g : guard_spec) : string :=
  let '(k, c, t, x) := g in k ++ " " ++ c ++ " " ++ t ++ " [" ++ String.concat " & " x ++ "]".
Definition show_nat (n : nat) : string := NilEmpty.string_of_uint (Nat.to_uint n).

(* messages naming the first site where the source and the model part ways *)
Fixpoint guard_diff (fn : string) (ext : list guard_row) (exp : list guard_spec) : list string :=
  match ext, exp with
  | [], [] => []
  | r :: ext', g :: exp' =>
    if spec_eqb (strip r) g then guard_diff fn ext' exp'
    else [fn ++ ": line " ++ show_nat (snd r) ++ ": source has `" ++ show_spec (strip r) ++ "`, model expects `" ++ show_spec g ++ "`"]
  | r :: _, [] => [fn ++ ": line " ++ show_nat (snd r) ++ ": source has an extra site `" ++ show_spec (strip r) ++ "`"]
  | [], g :: _ => [fn ++ ": source lacks the site `" ++ show_spec g ++ "` (and everything after it)"]
  end.

(* ---------- what "returned 1" means over a guard list ----------
   [v i]   = the i-th guard's call returned the value that lets the driver continue
   [cond c] = the run-time condition with source text c held
   The driver reaches its success exit iff every guard whose enclosing conditions hold passed. *)
Definition is_tested (t : string) : bool :=
  String.eqb t "!=1" || String.eqb t "!=0".
Fixpoint done_from (i : nat) (l : list guard_spec) (v : nat -> bool) (cond : string -> bool) : bool :=
  match l with
  | [] => true
  | (k, c, t, x) :: r =>
    (if String.eqb k "guard" && is_tested t && forallb cond x then v i else true) && done_from (S i) r v cond
  end.
Definition driver_done := done_from 0.

(* the authentication guards each driver must contain: (callee, comparison, admissible context) *)
Definition has_guard (l : list guard_spec) (c t : string) (x : list string) : bool :=
  existsb (fun g => spec_eqb g ("guard", c, t, x)) l.
Definition well_formed (l : list guard_spec) : bool :=
  match rev l with
  | g :: r => spec_eqb g ("success", "ret=1", "-", []) &&
              forallb (fun '(k, _, t, _) => String.eqb k "guard" && is_tested t) r
  | [] => false
  end.
