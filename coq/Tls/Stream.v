(* Application data path of one direction of a connection, transcribed from
     src/tls.c    tls_send -> tls_encrypt_send (clamp at TLS_MAX_PLAINTEXT_SIZE = 2^14,
                  one record and one tls_seq_num_incr per call, *sentlen = bytes taken),
                  tls_recv (conn->data / conn->datalen buffering, one record pulled when empty)
     src/tls13.c  tls13_send (same clamp at 2^14 since commit c5b289c; before it the whole buffer
                  became one record written at conn->record + 5: DESIGN section 5 #22),
                  tls13_recv / tls13_do_recv.
   Record protection is abstracted to "the receiver obtains the payload the sender protected,
   in FIFO order" -- that is C11's round trip composed with the key agreement of KeySched.v.

   [clamp]  Some 16384 for tls_send and tls13_send (None described tls13_send before c5b289c).
   [cap]    largest write that stays inside conn->record (None: no limit is reachable because
            of the clamp; Some 18415 described the unclamped tls13_send: 5 + n + 1 + 16 <= 18437).
            A larger write is a memory fault in the C code; the model answers [Fault]. *)
From GmVerif Require Import Base.ListX Base.Bytes.
Local Open Scope nat_scope.

Inductive res (A : Type) := Ok (a : A) | Err | Fault.
Arguments Ok {A} a. Arguments Err {A}. Arguments Fault {A}.

Record dir_state := mk_dir {
  chan : list (list N);      (* protected records in flight, oldest first (their payloads) *)
  rbuf : list N;             (* receiver: conn->data[0 .. datalen) *)
  sseq : nat;                (* sender's sequence number for this direction *)
  rseq : nat                 (* receiver's sequence number for this direction *)
}.
Definition dir_init : dir_state := mk_dir [] [] 0 0.

Section Stream.
  Variable clamp : option nat.
  Variable cap : option nat.
  (* does the send function accept datalen = 0?  tls_send / tls_encrypt_send refuse it
     (`!in || !inlen`); tls13_send does not test it and emits a record whose inner plaintext is
     just the content type: an EMPTY application record, which is a record like any other (one
     sequence number on each side). *)
  Variable allow_empty : bool.

  (* one call of tls_send / tls13_send: returns the new state and *sentlen *)
  Definition send1 (s : dir_state) (inp : list N) : res (dir_state * nat) :=
    match inp with
    | [] => if allow_empty
            then Ok (mk_dir (chan s ++ [[]]) (rbuf s) (S (sseq s)) (rseq s), 0)
            else Err                         (* !in || !inlen *)
    | _ =>
      let n := match clamp with Some c => Nat.min c (length inp) | None => length inp end in
      match cap with
      | Some k => if k <? n then Fault else
                  Ok (mk_dir (chan s ++ [firstn n inp]) (rbuf s) (S (sseq s)) (rseq s), n)
      | None => Ok (mk_dir (chan s ++ [firstn n inp]) (rbuf s) (S (sseq s)) (rseq s), n)
      end
    end.

  (* the application's write loop: call send until the whole buffer has been taken *)
  Fixpoint write_all (fuel : nat) (s : dir_state) (inp : list N) : res (dir_state * list nat) :=
    match inp with
    | [] => Ok (s, [])
    | _ =>
      match fuel with
      | O => Err
      | S f =>
        match send1 s inp with
        | Ok (s', n) =>
          match write_all f s' (skipn n inp) with
          | Ok (s'', ns) => Ok (s'', n :: ns)
          | Err => Err | Fault => Fault
          end
        | Err => Err | Fault => Fault
        end
      end
    end.

  (* one call of tls_recv / tls13_recv with an output buffer of outlen bytes.
     Err = the call fails or would block (no record available). *)
  Definition recv1 (s : dir_state) (outlen : nat) : res (dir_state * list N) :=
    if outlen =? 0 then Err else
    match rbuf s with
    | [] =>
      match chan s with
      | [] => Err
      | r :: c => Ok (mk_dir c (skipn outlen r) (sseq s) (S (rseq s)), firstn outlen r)
      end
    | d => Ok (mk_dir (chan s) (skipn outlen d) (sseq s) (rseq s), firstn outlen d)
    end.

  (* Write = the application's write loop; SendEmpty = one send call with datalen 0 *)
  Inductive op := Write (data : list N) | Read (outlen : nat) | SendEmpty.

  (* run a script; collect what each Read returned and the record sizes of each Write *)
  Fixpoint run (ops : list op) (s : dir_state) : res (dir_state * list (list N) * list (list nat)) :=
    match ops with
    | [] => Ok (s, [], [])
    | Write d :: r =>
      match write_all (length d) s d with
      | Ok (s', ns) =>
        match run r s' with
        | Ok (s'', reads, recs) => Ok (s'', reads, ns :: recs)
        | Err => Err | Fault => Fault
        end
      | Err => Err | Fault => Fault
      end
    | SendEmpty :: r =>
      match send1 s [] with
      | Ok (s', n) =>
        match run r s' with
        | Ok (s'', reads, recs) => Ok (s'', reads, [n] :: recs)
        | Err => Err | Fault => Fault
        end
      | Err => Err | Fault => Fault
      end
    | Read n :: r =>
      match recv1 s n with
      | Ok (s', d) =>
        match run r s' with
        | Ok (s'', reads, recs) => Ok (s'', d :: reads, recs)
        | Err => Err | Fault => Fault
        end
      | Err => Err | Fault => Fault
      end
    end.

  Fixpoint written (ops : list op) : list N :=
    match ops with
    | [] => []
    | Write d :: r => d ++ written r
    | Read _ :: r => written r
    | SendEmpty :: r => written r
    end.
End Stream.

(* ---- both directions of a connection: the endpoints share one buffer for sending and receiving ----
   conn->databuf holds the unread remainder of a received record (conn->data / conn->datalen) AND
   is where tls_encrypt_send assembles the outgoing plaintext record.  tls_encrypt_send therefore
   refuses to send while received data is pending ("recv all buffered data before send");
   tls13_send encrypts from the caller's buffer and must leave the pending data alone.
   [refuse_when_pending] = true for TLCP / TLS 1.2, false for TLS 1.3. *)
Record duplex := mk_duplex { c2s : dir_state; s2c : dir_state }.
Definition duplex_init : duplex := mk_duplex dir_init dir_init.

Section Duplex.
  Variable clamp : option nat.
  Variable cap : option nat.
  Variable allow_empty : bool.
  Variable refuse_when_pending : bool.

  Definition outgoing (d : duplex) (client : bool) : dir_state := if client then c2s d else s2c d.
  Definition incoming (d : duplex) (client : bool) : dir_state := if client then s2c d else c2s d.
  Definition set_outgoing (d : duplex) (client : bool) (x : dir_state) : duplex :=
    if client then mk_duplex x (s2c d) else mk_duplex (c2s d) x.
  Definition set_incoming (d : duplex) (client : bool) (x : dir_state) : duplex :=
    if client then mk_duplex (c2s d) x else mk_duplex x (s2c d).
  Definition has_pending (d : duplex) (client : bool) : bool :=
    match rbuf (incoming d client) with [] => false | _ => true end.

  (* one send call on an endpoint *)
  Definition dsend (d : duplex) (client : bool) (inp : list N) : res (duplex * nat) :=
    if refuse_when_pending && has_pending d client then Err else
    match send1 clamp cap allow_empty (outgoing d client) inp with
    | Ok (x, n) => Ok (set_outgoing d client x, n)
    | Err => Err | Fault => Fault
    end.
  (* the application's write loop on an endpoint (the pending data does not change during it) *)
  Definition dwrite (d : duplex) (client : bool) (inp : list N) : res (duplex * list nat) :=
    match inp with
    | [] => Ok (d, [])
    | _ =>
      if refuse_when_pending && has_pending d client then Err else
      match write_all clamp cap allow_empty (length inp) (outgoing d client) inp with
      | Ok (x, ns) => Ok (set_outgoing d client x, ns)
      | Err => Err | Fault => Fault
      end
    end.
  (* one receive call on an endpoint *)
  Definition drecv (d : duplex) (client : bool) (outlen : nat) : res (duplex * list N) :=
    match recv1 (incoming d client) outlen with
    | Ok (x, data) => Ok (set_incoming d client x, data)
    | Err => Err | Fault => Fault
    end.
End Duplex.

(* the two instances *)
Definition max_plain : nat := N.to_nat 16384.
Definition cap13 : nat := N.to_nat 18415.
Definition run12 := run (Some max_plain) None false.
Definition run13 := run (Some max_plain) None true.
(* tls13_send before commit c5b289c (no clamp), kept only for the Example in Tls/StreamProofs.v *)
Definition run13_before_c5b289c := run None (Some cap13) true.
