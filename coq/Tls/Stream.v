(* Application data path of one direction of a connection, transcribed from
     src/tls.c    tls_send -> tls_encrypt_send (clamp at TLS_MAX_PLAINTEXT_SIZE = 2^14,
                  one record and one tls_seq_num_incr per call, *sentlen = bytes taken),
                  tls_recv (conn->data / conn->datalen buffering, one record pulled when empty)
     src/tls13.c  tls13_send (same clamp at 2^14 since commit c5b289c; before it the whole buffer
                  became one record written at conn->record + 5: DESIGN section 5 #22),
                  tls13_recv / tls13_do_recv.
   Record protection is abstracted to "the receiver obtains the payload the sender protected,
   in FIFO order" -- that is C11's round trip composed with the key agreement of KeySched.v.

   [clamp]  Some 16384 for tls_send and tls13_send (None described tls13_send before c5b289c).
   [cap]    largest write that stays inside conn->record (None: no limit is reachable because
            of the clamp; Some 18415 described the unclamped tls13_send: 5 + n + 1 + 16 <= 18437).
            A larger write is a memory fault in the C code; the model answers [Fault]. *)
From GmVerif Require Import Base.ListX Base.Bytes.
Local Open Scope nat_scope.

Inductive res (A : Type) := Ok (a : A) | Err | Fault.
Arguments Ok {A} a. Arguments Err {A}. Arguments Fault {A}.

Record dir_state := mk_dir {
  chan : list (list N);      (* protected records in flight, oldest first (their payloads) *)
  rbuf : list N;             (* receiver: conn->data[0 .. datalen) *)
  sseq : nat;                (* sender's sequence number for this direction *)
  rseq : nat                 (* receiver's sequence number for this direction *)
}.
Definition dir_init : dir_state := mk_dir [] [] 0 0.

Section Stream.
  Variable clamp : option nat.
  Variable cap : option nat.
  (* does the send function accept datalen = 0?  tls_send / tls_encrypt_send refuse it
     (`!in || !inlen`); tls13_send does not test it and emits a record whose inner plaintext is
     just the content type: an EMPTY application record, which is a record like any other (one
     sequence number on each side). *)
  Variable allow_empty : bool.

  (* one call of tls_send / tls13_send: returns the new state and *sentlen *)
  Definition send1 (s : dir_state) (inp : list N) : res (dir_state * nat) :=
    match inp with
    | [] => if allow_empty
            then Ok (mk_dir (chan s ++ [[]]) (rbuf s) (S (sseq s)) (rseq s), 0)
            else Err                         (* !in || !inlen *)
    | _ =>
      let n := match clamp with Some c => Nat.min c (length inp) | None => length inp end in
      match cap with
      | Some k => if k <? n then Fault else
                  Ok (mk_dir (chan s ++ [firstn n inp]) (rbuf s) (S (sseq s)) (rseq s), n)
      | None => Ok (mk_dir (chan s ++ [firstn n inp]) (rbuf s) (S (sseq s)) (rseq s), n)
      end
    end.

  (* the application's write loop: call send until the whole buffer has been taken *)
  Fixpoint write_all (fuel : nat) (s : dir_state) (inp : list N) : res (dir_state * list nat) :=
    match inp with
    | [] => Ok (s, [])
    | _ =>
      match fuel with
      | O => Err
      | S f =>
        match send1 s inp with
        | Ok (s', n) =>
          match write_all f s' (skipn n inp) with
          | Ok (s'', ns) => Ok (s'', n :: ns)
          | Err => Err | Fault => Fault
          end
        | Err => Err | Fault => Fault
        end
      end
    end.

  (* one call of tls_recv / tls13_recv with an output buffer of outlen bytes.
     Err = the call fails or would block (no record available). *)
  Definition recv1 (s : dir_state) (outlen : nat) : res (dir_state * list N) :=
    if outlen =? 0 then Err else
    match rbuf s with
    | [] =>
      match chan s with
      | [] => Err
      | r :: c => Ok (mk_dir c (skipn outlen r) (sseq s) (S (rseq s)), firstn outlen r)
      end
    | d => Ok (mk_dir (chan s) (skipn outlen d) (sseq s) (rseq s), firstn outlen d)
    end.

  (* Write = the application's write loop; SendEmpty = one send call with datalen 0 *)
  Inductive op := Write (data : list N) | Read (outlen : nat) | SendEmpty.

  (* run a script; collect what each Read returned and the record sizes of each Write *)
  Fixpoint run (ops : list op) (s : dir_state) : res (dir_state * list (list N) * list (list nat)) :=
    match ops with
    | [] => Ok (s, [], [])
    | Write d :: r =>
      match write_all (length d) s d with
      | Ok (s', ns) =>
        match run r s' with
        | Ok (s'', reads, recs) => Ok (s'', reads, ns :: recs)
        | Err => Err | Fault => Fault
        end
      | Err => Err | Fault => Fault
      end
    | SendEmpty :: r =>
      match send1 s [] with
      | Ok (s', n) =>
        match run r s' with
        | Ok (s'', reads, recs) => Ok (s'', reads, [n] :: recs)
        | Err => Err | Fault => Fault
        end
      | Err => Err | Fault => Fault
      end
    | Read n :: r =>
      match recv1 s n with
      | Ok (s', d) =>
        match run r s' with
        | Ok (s'', reads, recs) => Ok (s'', d :: reads, recs)
        | Err => Err | Fault => Fault
        end
      | Err => Err | Fault => Fault
      end
    end.

  Fixpoint written (ops : list op) : list N :=
    match ops with
    | [] => []
    | Write d :: r => d ++ written r
    | Read _ :: r => written r
    | SendEmpty :: r => written r
    end.
End Stream.

(* the two instances *)
Definition max_plain : nat := N.to_nat 16384.
Definition cap13 : nat := N.to_nat 18415.
Definition run12 := run (Some max_plain) None false.
Definition run13 := run (Some max_plain) None true.
(* tls13_send before commit c5b289c (no clamp), kept only for the Example in Tls/StreamProofs.v *)
Definition run13_before_c5b289c := run None (Some cap13) true.
