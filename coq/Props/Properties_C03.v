(* C03 — Hash, MAC and KDF interfaces equal their standards under every chunking.
   This file contains only the final statements; every proof is one [exact]. *)
From GmVerif Require Import Base.ListX Base.Bytes Hash.MD Hash.SM3 Hash.SM3Proofs
  Hash.SHA2 Hash.SHA2Proofs Hash.Hmac Hash.HmacProofs Hash.Instances Hash.C03Lemmas
  Hash.SM3Unrolled Hash.SM3UnrolledProofs
  Gen.HashTables Hash.HashTablesProofs Hash.Sha2Consts.

Theorem C03_sm3_stream : forall chunks : list (list N),
  sm3_finish (fold_left sm3_update chunks sm3_init) = sm3 (concat chunks).
Proof. exact sm3_stream. Qed.
Print Assumptions C03_sm3_stream.

Theorem C03_sha1_stream : forall chunks : list (list N),
  sha1_finish (fold_left sha1_update chunks sha1_init) = sha1 (concat chunks).
Proof. exact sha1_stream. Qed.
Print Assumptions C03_sha1_stream.

Theorem C03_sha224_stream : forall chunks : list (list N),
  sha224_finish (fold_left sha256_update chunks sha224_init) = sha224 (concat chunks).
Proof. exact sha224_stream. Qed.
Print Assumptions C03_sha224_stream.

Theorem C03_sha256_stream : forall chunks : list (list N),
  sha256_finish (fold_left sha256_update chunks sha256_init) = sha256 (concat chunks).
Proof. exact sha256_stream. Qed.
Print Assumptions C03_sha256_stream.

(* SHA-512/224 and SHA-512/256: reachable only through the generic digest dispatch *)
Theorem C03_sha512_224_stream : forall chunks : list (list N),
  (N.of_nat (length (concat chunks) / 128) < 2^64)%N ->
  sha512_224_finish (fold_left sha512_update chunks sha512_224_init) = sha512_224 (concat chunks).
Proof. exact sha512_224_stream. Qed.
Print Assumptions C03_sha512_224_stream.

Theorem C03_sha512_256_stream : forall chunks : list (list N),
  (N.of_nat (length (concat chunks) / 128) < 2^64)%N ->
  sha512_256_finish (fold_left sha512_update chunks sha512_256_init) = sha512_256 (concat chunks).
Proof. exact sha512_256_stream. Qed.
Print Assumptions C03_sha512_256_stream.

(* their initial values are what the standard's IV generation function (FIPS 180-4 5.3.6.1/2) yields *)
Theorem C03_sha512t_iv_is_generated :
  flat_map be64 H512_224 = sha512t_iv_gen [0x53;0x48;0x41;0x2d;0x35;0x31;0x32;0x2f;0x32;0x32;0x34]%N /\
  flat_map be64 H512_256 = sha512t_iv_gen [0x53;0x48;0x41;0x2d;0x35;0x31;0x32;0x2f;0x32;0x35;0x36]%N.
Proof. exact sha512t_iv_is_generated. Qed.
Print Assumptions C03_sha512t_iv_is_generated.

Theorem C03_sha384_stream : forall chunks : list (list N),
  (N.of_nat (length (concat chunks) / 128) < 2^64)%N ->
  sha384_finish (fold_left sha512_update chunks sha384_init) = sha384 (concat chunks).
Proof. exact sha384_stream. Qed.
Print Assumptions C03_sha384_stream.

Theorem C03_sha512_stream : forall chunks : list (list N),
  (N.of_nat (length (concat chunks) / 128) < 2^64)%N ->
  sha512_finish (fold_left sha512_update chunks sha512_init) = sha512 (concat chunks).
Proof. exact sha512_stream. Qed.
Print Assumptions C03_sha512_stream.

(* the block counter / length field: what sm3_finish writes equals the standard's
   64-bit bit length, for every number of absorbed blocks (including > 2^32 bits) *)
Theorem C03_length_field : forall (k r : nat), (r < 64)%nat ->
  len64_impl (N.of_nat k mod 2^64) r = len64_spec (N.of_nat (k * 64 + r)).
Proof. exact len64_impl_ok. Qed.
Print Assumptions C03_length_field.

Theorem C03_sm3_hmac_stream : forall key (chunks : list (list N)),
  sm3_hmac key chunks = sm3_hmac_spec key (concat chunks).
Proof. exact sm3_hmac_stream. Qed.
Print Assumptions C03_sm3_hmac_stream.

Theorem C03_hmac_generic_stream : forall key (chunks : list (list N)),
  hmacB_sm3 key chunks = hmac_spec sm3 64 key (concat chunks) /\
  hmacB_sha1 key chunks = hmac_spec sha1 64 key (concat chunks) /\
  hmacB_sha224 key chunks = hmac_spec sha224 64 key (concat chunks) /\
  hmacB_sha256 key chunks = hmac_spec sha256 64 key (concat chunks).
Proof. exact hmac_generic_stream. Qed.
Print Assumptions C03_hmac_generic_stream.

(* the same over the 128-byte-block digests (SHA-384, SHA-512, SHA-512/224, SHA-512/256), below 2^64 blocks *)
Theorem C03_hmac_generic_stream_wide : forall key (chunks : list (list N)),
  (N.of_nat ((length key + 192 + length (concat chunks)) / 128) < 2^64)%N ->
  hmacB_sha384 key chunks = hmac_spec sha384 128 key (concat chunks) /\
  hmacB_sha512 key chunks = hmac_spec sha512 128 key (concat chunks) /\
  hmacB_sha512_224 key chunks = hmac_spec sha512_224 128 key (concat chunks) /\
  hmacB_sha512_256 key chunks = hmac_spec sha512_256 128 key (concat chunks).
Proof. exact hmac_generic_stream_wide. Qed.
Print Assumptions C03_hmac_generic_stream_wide.

(* hmac_finish_and_verify (src/hmac.c) accepts exactly the MAC the standard defines *)
Theorem C03_hmac_verify_generic : forall key (chunks : list (list N)) mac,
  (hmacB_verify_sm3 key chunks mac = true <-> mac = hmac_spec sm3 64 key (concat chunks)) /\
  (hmacB_verify_sha1 key chunks mac = true <-> mac = hmac_spec sha1 64 key (concat chunks)) /\
  (hmacB_verify_sha224 key chunks mac = true <-> mac = hmac_spec sha224 64 key (concat chunks)) /\
  (hmacB_verify_sha256 key chunks mac = true <-> mac = hmac_spec sha256 64 key (concat chunks)).
Proof. exact hmac_verify_generic. Qed.
Print Assumptions C03_hmac_verify_generic.

(* sm3_digest_* (src/sm3_digest.c): plain SM3 without a key, SM3-HMAC with a 12..64-byte key,
   refused for other key lengths; every chunking, empty chunks included *)
Theorem C03_sm3_digest_api : forall key (chunks : list (list N)),
  sm3_digest_api key chunks = sm3_digest_api_spec key (concat chunks).
Proof. exact sm3_digest_api_eq. Qed.
Print Assumptions C03_sm3_digest_api.

Theorem C03_sm3_kdf_stream : forall (chunks : list (list N)) outlen,
  sm3_kdf_stream chunks outlen = sm3_kdf_spec (concat chunks) outlen.
Proof. exact sm3_kdf_stream_eq. Qed.
Print Assumptions C03_sm3_kdf_stream.

Theorem C03_sm2_kdf : forall z outlen, sm2_kdf z outlen = sm3_kdf_spec z outlen.
Proof. exact sm2_kdf_eq. Qed.
Print Assumptions C03_sm2_kdf.

Theorem C03_pbkdf2 : forall pass salt count outlen,
  sm3_pbkdf2 pass salt count outlen = sm3_pbkdf2_spec pass salt count outlen.
Proof. exact sm3_pbkdf2_eq. Qed.
Print Assumptions C03_pbkdf2.

Theorem C03_hkdf_extract : forall salt ikm,
  sm3_hkdf_extract salt ikm = sm3_hkdf_extract_spec salt ikm /\
  sha256_hkdf_extract salt ikm = sha256_hkdf_extract_spec salt ikm.
Proof. exact hkdf_extract_both. Qed.
Print Assumptions C03_hkdf_extract.

(* HKDF-Expand (RFC 5869): the loop of hkdf.c equals T(1)||T(2)||... truncated to L for
   every L up to 255 digests, and is refused (counter wrap) beyond. *)
Theorem C03_hkdf_expand : forall prk info L,
  (L <= 255 * 32 ->
     sm3_hkdf_expand prk info L = Some (sm3_hkdf_expand_spec prk info L) /\
     sha256_hkdf_expand prk info L = Some (sha256_hkdf_expand_spec prk info L)) /\
  (255 * 32 < L -> sm3_hkdf_expand prk info L = None /\ sha256_hkdf_expand prk info L = None).
Proof. exact hkdf_expand_both. Qed.
Print Assumptions C03_hkdf_expand.

(* The same from ANY installed chaining state and block counter (the context structs
   are public): this is the form in which the "> 2^32 bits" clause is exercised against
   the implementation without hashing 512 MiB. *)
Theorem C03_from_state_64 : forall compress out st nb (chunks : list (list N)),
  from_state_impl compress out 64 8 len64_impl st nb chunks
  = from_state_spec compress out 64 8 len64_spec st nb (concat chunks).
Proof. exact from_state_64. Qed.
Print Assumptions C03_from_state_64.

Theorem C03_from_state_128 : forall compress out st nb (chunks : list (list N)),
  (nb + N.of_nat (length (concat chunks) / 128) < 2^64)%N ->
  from_state_impl compress out 128 16 len128_impl st nb chunks
  = from_state_spec compress out 128 16 len128_spec st nb (concat chunks).
Proof. exact from_state_128. Qed.
Print Assumptions C03_from_state_128.

(* The default build's unrolled, role-rotating, schedule-on-the-fly compression function
   (literal K table, GG16 as ((y^z)&x)^z) equals the standard's rounds form used above. *)
Theorem C03_sm3_unrolled_eq_rounds : forall st blk,
  sm3_compress_unrolled st blk = sm3_compress st blk.
Proof. exact sm3_unrolled_eq_rounds. Qed.
Print Assumptions C03_sm3_unrolled_eq_rounds.

(* Source-derived tables: the round constants and initial values in src/sm3.c, src/sm3_sse.c,
   src/sha1.c, src/sha256.c, src/sha512.c, src/digest.c (copied into Gen/HashTables.v by tools/consts_hash.py on
   every run) are the constants of the Spec, and the literal K table of the unrolled model is the
   source's. *)
Theorem C03_hash_tables :
  c_sm3_K = sm3_K_spec /\ c_sm3_iv = sm3_iv /\ c_sm3sse_K = sm3_K_spec /\ c_sm3sse_iv = sm3_iv /\
  c_sha1_K = sha1_K_spec /\ c_sha1_iv = H1 /\
  c_sha256_K = K256 /\ c_sha256_iv = H256 /\ c_sha224_iv = H224 /\
  c_sha512_K = K512 /\ c_sha512_iv = H512 /\ c_sha384_iv = H384 /\
  c_sha512_224_iv = H512_224 /\ c_sha512_256_iv = H512_256.
Proof. exact hash_tables_ok. Qed.
Print Assumptions C03_hash_tables.

Theorem C03_unrolled_K_table_is_source : K_table = c_sm3_K.
Proof. exact unrolled_K_table_is_source. Qed.
Print Assumptions C03_unrolled_K_table_is_source.

(* The Spec's SHA-2 constants are the ones FIPS 180-4 defines arithmetically (fraction bits of
   the cube / square roots of the first primes), by exact integer-root bracketing. *)
Theorem C03_sha2_constants_are_fips180 :
  all2 (root_ok 3 32) (firstn 64 primes80) K256 = true /\
  all2 (root_ok 3 64) primes80 K512 = true /\
  all2 (root_ok 2 32) (firstn 8 primes80) H256 = true /\
  all2 (root_ok 2 64) (firstn 8 primes80) H512 = true /\
  all2 (root_ok 2 64) primes_9_16 H384 = true /\
  all2 (fun p c => root_ok 2 64 p (N.shiftl (N.shiftr (frac_root 2 64 p) 32) 32 + c)) primes_9_16 H224 = true.
Proof. exact sha2_constants_are_fips180. Qed.
Print Assumptions C03_sha2_constants_are_fips180.

Theorem C03_sha1_K_is_square_roots :
  all2 (fun p c => is_iroot 2 (p * 2 ^ 60) c) [2; 3; 5; 10]%N [sha1_k 0; sha1_k 20; sha1_k 40; sha1_k 60] = true.
Proof. exact sha1_K_is_square_roots. Qed.
Print Assumptions C03_sha1_K_is_square_roots.
