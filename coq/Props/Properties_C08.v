(* C08 — honest peers agree on keys and deliver data intact.  Final statements only.
   Models: Tls/KeySched.v (key schedules of TLCP / TLS 1.2 / TLS 1.3), Tls/Stream.v (data path),
   Tls/Record*.v (record protection).  Handshake message construction, certificate handling
   and the SM2 operations are observed at run time by the check, not modelled. *)
From GmVerif Require Import Base.ListX Base.Bytes Hash.Instances Tls.Record12 Tls.Record13
  Tls.RecordInst Tls.KeySched Tls.KeySchedProofs Tls.Stream Tls.StreamProofs.
Local Open Scope nat_scope.

(* tls_prf is P_hash of RFC 5246 section 5 over HMAC-SM3 (label, seed and extra seed fed as chunks) *)
Theorem C08_tls_prf_is_p_hash : forall secret label seed more outlen r,
  tls_prf secret label seed more outlen = Some r ->
  r = prf_spec secret label (seed ++ more) outlen.
Proof. exact tls_prf_eq_spec. Qed.
Print Assumptions C08_tls_prf_is_p_hash.

Theorem C08_tls_prf_total : forall secret label seed more outlen,
  secret <> [] -> seed <> [] -> outlen <> 0 ->
  exists r, tls_prf secret label seed more outlen = Some r /\ length r = outlen.
Proof. exact tls_prf_total. Qed.
Print Assumptions C08_tls_prf_total.

(* both endpoints' derivations are the same function of (pre-master secret, randoms) resp.
   (ECDHE result, ClientHello||ServerHello, transcript): write keys of one = read keys of the other *)
Theorem C08_keys12_agree : forall pms cr sr,
  let '(cwm, cwk, crm, crk) := client_install12 pms cr sr in
  let '(swm, swk, srm, srk) := server_install12 pms cr sr in
  cwm = srm /\ cwk = srk /\ crm = swm /\ crk = swk.
Proof. exact keys12_agree. Qed.
Print Assumptions C08_keys12_agree.

Theorem C08_keys13_agree : forall ecdh_x ch_sh transcript,
  let '(cwk, cwi, crk, cri) := client_install13 ecdh_x ch_sh transcript in
  let '(swk, swi, srk, sri) := server_install13 ecdh_x ch_sh transcript in
  cwk = srk /\ cwi = sri /\ crk = swk /\ cri = swi.
Proof. exact keys13_agree. Qed.
Print Assumptions C08_keys13_agree.

(* end to end: a record protected with the keys one side derived is recovered with the keys the
   other side derived, for every sequence number, type, payload of 0..16384 bytes, IV / padding *)
Theorem C08_tls12_client_to_server : forall pms cr sr seq hdr payload iv,
  length hdr = 5 -> bytes_ok hdr = true -> hdr_len hdr = length payload ->
  (N.of_nat (length payload) <= 16384)%N ->
  bytes_ok payload = true -> length iv = 16 -> bytes_ok iv = true ->
  let '(cwm, cwk, _, _) := client_install12 pms cr sr in
  let '(_, _, srm, srk) := server_install12 pms cr sr in
  exists enc, record12_encrypt cwm cwk seq (hdr ++ payload) (Some iv) = Some enc /\
              record12_decrypt srm srk seq enc = Some (hdr ++ payload).
Proof. exact tls12_client_to_server. Qed.
Print Assumptions C08_tls12_client_to_server.

Theorem C08_tls12_server_to_client : forall pms cr sr seq hdr payload iv,
  length hdr = 5 -> bytes_ok hdr = true -> hdr_len hdr = length payload ->
  (N.of_nat (length payload) <= 16384)%N ->
  bytes_ok payload = true -> length iv = 16 -> bytes_ok iv = true ->
  let '(swm, swk, _, _) := server_install12 pms cr sr in
  let '(_, _, crm, crk) := client_install12 pms cr sr in
  exists enc, record12_encrypt swm swk seq (hdr ++ payload) (Some iv) = Some enc /\
              record12_decrypt crm crk seq enc = Some (hdr ++ payload).
Proof. exact tls12_server_to_client. Qed.
Print Assumptions C08_tls12_server_to_client.

Theorem C08_tls13_client_to_server : forall ecdh_x ch_sh transcript seq t v1 v2 l1 l2 inp pad,
  pad <= 255 -> record_type_known t = true ->
  let '(cwk, cwi, _, _) := client_install13 ecdh_x ch_sh transcript in
  let '(_, _, srk, sri) := server_install13 ecdh_x ch_sh transcript in
  exists enc, record13_encrypt cwk cwi seq ([t; v1; v2; l1; l2] ++ inp) pad = Some enc /\
              record13_decrypt srk sri seq enc = Dec13Ok t inp.
Proof. exact tls13_client_to_server. Qed.
Print Assumptions C08_tls13_client_to_server.

Theorem C08_tls13_server_to_client : forall ecdh_x ch_sh transcript seq t v1 v2 l1 l2 inp pad,
  pad <= 255 -> record_type_known t = true ->
  let '(swk, swi, _, _) := server_install13 ecdh_x ch_sh transcript in
  let '(_, _, crk, cri) := client_install13 ecdh_x ch_sh transcript in
  exists enc, record13_encrypt swk swi seq ([t; v1; v2; l1; l2] ++ inp) pad = Some enc /\
              record13_decrypt crk cri seq enc = Dec13Ok t inp.
Proof. exact tls13_server_to_client. Qed.
Print Assumptions C08_tls13_server_to_client.

(* stream fidelity: for every script of writes (any sizes) and reads (any buffer sizes), what was
   written is exactly, in order, what was read followed by what is still buffered / in flight *)
Theorem C08_stream12_fidelity : forall ops s' reads recs,
  run12 ops dir_init = Ok (s', reads, recs) -> written ops = concat reads ++ pending s'.
Proof. exact stream12_fidelity. Qed.
Print Assumptions C08_stream12_fidelity.

Theorem C08_stream13_fidelity : forall ops s' reads recs,
  run13 ops dir_init = Ok (s', reads, recs) -> written ops = concat reads ++ pending s'.
Proof. exact stream13_fidelity. Qed.
Print Assumptions C08_stream13_fidelity.

(* TLCP / TLS 1.2: a write of any size succeeds, as non-empty records of at most 2^14 bytes *)
Theorem C08_stream12_writes_total : forall ops s, (forall o, In o ops -> exists d, o = Write d) ->
  exists s' recs, run12 ops s = Ok (s', [], recs).
Proof. exact stream12_writes_total. Qed.
Print Assumptions C08_stream12_writes_total.

Theorem C08_stream12_record_sizes : forall ops s s' reads recs,
  run12 ops s = Ok (s', reads, recs) -> Forall (Forall (fun n => 0 < n <= max_plain)) recs.
Proof. exact stream12_record_sizes. Qed.
Print Assumptions C08_stream12_record_sizes.

(* one sequence number per record, sender and receiver never out of step *)
Theorem C08_seq_lockstep : forall clamp cap allow_empty, (forall c, clamp = Some c -> 0 < c) ->
  forall ops s s' reads recs,
  run clamp cap allow_empty ops s = Ok (s', reads, recs) -> lockstep s -> lockstep s'.
Proof. exact seq_lockstep. Qed.
Print Assumptions C08_seq_lockstep.

(* TLS 1.3 (tls13_send clamps at 2^14 since commit c5b289c): a write of any size succeeds, as
   non-empty records of at most 2^14 bytes *)
Theorem C08_stream13_writes_total : forall ops s, (forall o, In o ops -> exists d, o = Write d) ->
  exists s' recs, run13 ops s = Ok (s', [], recs).
Proof. exact stream13_writes_total. Qed.
Print Assumptions C08_stream13_writes_total.

Theorem C08_stream13_record_sizes : forall ops s s' reads recs,
  run13 ops s = Ok (s', reads, recs) -> Forall (Forall (fun n => n <= max_plain)) recs.
Proof. exact stream13_record_sizes. Qed.
Print Assumptions C08_stream13_record_sizes.

(* an empty application record (tls13_send with datalen 0) is a record like any other: one
   sequence number on each side, zero bytes delivered; scripts may contain it anywhere (the
   fidelity and lockstep theorems above quantify over SendEmpty too).  tls_send refuses datalen 0. *)
Theorem C08_stream13_empty_record : forall s s1 n s2 d outlen,
  chan s = [] -> rbuf s = [] ->
  send1 (Some max_plain) None true s [] = Ok (s1, n) -> recv1 s1 outlen = Ok (s2, d) ->
  n = 0 /\ d = [] /\ sseq s2 = S (sseq s) /\ rseq s2 = S (rseq s) /\ chan s2 = [] /\ rbuf s2 = [].
Proof. exact stream13_empty_record. Qed.
Print Assumptions C08_stream13_empty_record.

Theorem C08_stream12_empty_send_refused : forall s, send1 (Some max_plain) None false s [] = Err.
Proof. exact stream12_empty_send_refused. Qed.
Print Assumptions C08_stream12_empty_send_refused.

(* both directions share conn->databuf on an endpoint.  TLCP / TLS 1.2: tls_encrypt_send refuses to
   send while received data is still buffered.  TLS 1.3: a write on an endpoint leaves its partially
   read record alone -- the following receive calls deliver exactly what they would have delivered. *)
Theorem C08_tls12_send_refused_while_pending : forall d client inp,
  has_pending d client = true -> dsend (Some max_plain) None false true d client inp = Err.
Proof. exact tls12_send_refused_while_pending. Qed.
Print Assumptions C08_tls12_send_refused_while_pending.

Theorem C08_tls13_write_keeps_partial_record : forall d client inp d' ns outlen,
  dwrite (Some max_plain) None true false d client inp = Ok (d', ns) ->
  drecv d' client outlen = match recv1 (incoming d client) outlen with
                           | Ok (x, data) => Ok (set_incoming d' client x, data)
                           | Err => Err | Fault => Fault end.
Proof. exact tls13_write_keeps_partial_record. Qed.
Print Assumptions C08_tls13_write_keeps_partial_record.

Theorem C08_send_keeps_received_data : forall clamp cap allow_empty refuse d client inp d' ns,
  dwrite clamp cap allow_empty refuse d client inp = Ok (d', ns) -> incoming d' client = incoming d client.
Proof. exact dwrite_keeps_incoming. Qed.
Print Assumptions C08_send_keeps_received_data.
