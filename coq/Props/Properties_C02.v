(* C02 — SM2 encryption and ECDH are correct and reject malformed ciphertexts.
   Only final statements; every proof is one [exact].
   Models: Ec/SM2Enc.v (Impl models of src/sm2_enc.c, src/sm2_exch.c and the point import of
   src/sm2_z256.c), Ec/Sm2Der.v (SM2Cipher DER). *)
From Coq Require Import String.
From GmVerif Require Import Base.Bytes Base.HexStr Ec.Num Ec.CurveSpec Hash.MD Hash.SM3 Hash.Hmac Hash.Instances
  Ec.Sm2Der Ec.Sm2DerProofs Ec.SM2Sign Ec.SM2SignProofs Ec.SM2Enc Ec.SM2EncProofs Ec.Sm2DerRoundTrip Ec.Sm2Vectors.
Local Open Scope Z_scope.

(* C1 with a coordinate >= p, the encoding (0,0) of infinity, or off the curve: error *)
Theorem C02_dec_rejects_bad_c1 : forall (NO : numops) d c m,
  do_decrypt NO d c = Some m ->
  let x := be_to_Z (firstn 32 (ct_x c ++ ct_y c)) in
  let y := be_to_Z (firstn 32 (skipn 32 (ct_x c ++ ct_y c))) in
  x < sm2_p /\ y < sm2_p /\ ~ (x = 0 /\ y = 0) /\ sm2_on_curve NO (mkpt NO x y) = true.
Proof. exact dec_rejects_bad_c1. Qed.
Print Assumptions C02_dec_rejects_bad_c1.

(* decision rule of decryption: accepted => C3 = SM3(x2 || M || y2) for (x2,y2) = [d]C1, with
   M = C2 xor KDF(x2||y2), KDF output not all zero, C2 not empty *)
Theorem C02_dec_rejects_bad_c3 : forall (NO : numops) d c m,
  do_decrypt NO d c = Some m ->
  exists C1, point_from_bytes NO (ct_x c ++ ct_y c) = FbOk C1 /\
    let Q := sm2_mul NO d C1 in
    let x2 := to32 (get_x NO Q) in
    let y2 := to32 (get_y NO Q) in
    let t := sm3_kdf_spec (x2 ++ y2) (length (ct_c c)) in
    all_zero t = false /\ ct_c c <> [] /\
    m = xor_bytes t (ct_c c) /\ ct_hash c = sm3 (x2 ++ m ++ y2).
Proof. exact dec_rejects_bad_c3. Qed.
Print Assumptions C02_dec_rejects_bad_c3.

(* strict DER of SM2Cipher: what sm2_ciphertext_from_der accepts is byte-for-byte what
   sm2_ciphertext_to_der produces for the decoded structure (+ unread rest); field sizes 32/32/32/<=255 *)
Theorem C02_ct_der_canonical : forall inp c rest,
  bytes_ok inp = true -> ct_from_der inp = Some (c, rest) ->
  inp = ct_to_der c ++ rest /\
  length (ct_x c) = 32%nat /\ length (ct_y c) = 32%nat /\
  length (ct_hash c) = 32%nat /\ (length (ct_c c) <= 255)%nat.
Proof. exact ct_der_canonical. Qed.
Print Assumptions C02_ct_der_canonical.

Theorem C02_dec_der_strict : forall (NO : numops) d inp m,
  bytes_ok inp = true -> sm2_decrypt NO d inp = Some m ->
  exists c, inp = ct_to_der c /\
    length (ct_x c) = 32%nat /\ length (ct_y c) = 32%nat /\ length (ct_hash c) = 32%nat /\
    (length (ct_c c) <= 255)%nat /\ do_decrypt NO d c = Some m.
Proof. exact dec_der_strict. Qed.
Print Assumptions C02_dec_der_strict.

(* the ciphertext equals the GB/T 32918.4 value for the first nonce of the entropy stream that is
   in [1, n-1] and does not make the KDF output all zero *)
Theorem C02_enc_eq_standard : forall (P : point ZOps) m (en : ent) c rest,
  do_encrypt ZOps P m en = Some (c, rest) ->
  (1 <= length m <= 255)%nat /\
  exists used kb, en = used ++ kb :: rest /\
    Forall (enc_skips P m) used /\
    1 <= le_to_Z kb < n /\ std_kdf_zero P m (le_to_Z kb) = false /\
    c = std_ct P m (le_to_Z kb).
Proof. exact enc_eq_standard. Qed.
Print Assumptions C02_enc_eq_standard.

(* round trip, under the explicit group-law premises [a]([b]G) = [(a b) mod n]G and closure of
   the curve equation on the multiples of G *)
Theorem C02_dec_enc_partial :
  (forall a b, 0 <= a -> 0 <= b ->
     sm2_mul ZOps a (sm2_mulG ZOps b) = sm2_mulG ZOps ((a * b) mod n)) ->
  (forall k, 1 <= k < n ->
     sm2_mulG ZOps k <> None /\ sm2_on_curve ZOps (sm2_mulG ZOps k) = true) ->
  forall d m (en : ent) c rest, 0 <= d ->
    do_encrypt ZOps (sm2_mulG ZOps d) m en = Some (c, rest) ->
    do_decrypt ZOps d c = Some m.
Proof. exact dec_enc_partial. Qed.
Print Assumptions C02_dec_enc_partial.

Theorem C02_ecdh_symmetric_partial :
  (forall a b, 0 <= a -> 0 <= b ->
     sm2_mul ZOps a (sm2_mulG ZOps b) = sm2_mulG ZOps ((a * b) mod n)) ->
  forall dA dB, 0 <= dA -> 0 <= dB ->
    do_ecdh ZOps dA (sm2_mulG ZOps dB) = do_ecdh ZOps dB (sm2_mulG ZOps dA) /\
    do_ecdh ZOps dA (sm2_mulG ZOps dB) = sm2_mulG ZOps ((dA * dB) mod n).
Proof. exact ecdh_symmetric_partial. Qed.
Print Assumptions C02_ecdh_symmetric_partial.

(* streaming contexts: plain buffering, equal to the one-shot call for every chunking *)
Theorem C02_encrypt_stream_eq_oneshot : forall (NO : numops) (P : point NO) chunks (en : ent),
  encrypt_stream NO P chunks en =
  if ((1 <=? lenN (concat chunks)) && (lenN (concat chunks) <=? 255))%N
  then sm2_encrypt NO P (concat chunks) en else None.
Proof. exact encrypt_stream_eq_oneshot. Qed.
Print Assumptions C02_encrypt_stream_eq_oneshot.

Theorem C02_decrypt_stream_eq_oneshot : forall (NO : numops) d chunks,
  decrypt_stream NO d chunks =
  if ((45 <=? lenN (concat chunks)) && (lenN (concat chunks) <=? 366))%N
  then sm2_decrypt NO d (concat chunks) else None.
Proof. exact decrypt_stream_eq_oneshot. Qed.
Print Assumptions C02_decrypt_stream_eq_oneshot.

(* ECDH peer import (sm2_z256_point_from_octets as repaired by a33c088): an accepted uncompressed
   point has coordinates < p, is not (0,0) and is on the curve; every accepted peer is finite *)
Theorem C02_ecdh_peer_uncompressed_validated : forall (NO : numops) r P,
  point_from_octets NO (4%N :: r) = Some P ->
  let x := be_to_Z (firstn 32 r) in
  let y := be_to_Z (firstn 32 (skipn 32 r)) in
  length r = 64%nat /\ x < sm2_p /\ y < sm2_p /\ ~ (x = 0 /\ y = 0) /\
  P = mkpt NO x y /\ sm2_on_curve NO P = true.
Proof. exact from_octets_uncompressed_validated. Qed.
Print Assumptions C02_ecdh_peer_uncompressed_validated.

Theorem C02_ecdh_peer_validated : forall (NO : numops) d peer out,
  sm2_ecdh NO d peer = Some out ->
  exists P, point_from_octets NO peer = Some P /\ P <> None /\
            out = point_bytes NO (sm2_mul NO d P).
Proof. exact ecdh_peer_validated. Qed.
Print Assumptions C02_ecdh_peer_validated.

(* the empty string and both encodings of the point at infinity are refused (DESIGN 5 #4, repaired) *)
Theorem C02_ecdh_rejects_infinity : forall (NO : numops) d,
  sm2_ecdh NO d [] = None /\ sm2_ecdh NO d [0%N] = None /\ sm2_ecdh NO d (4%N :: zeros 64) = None.
Proof. exact ecdh_rejects_infinity. Qed.
Print Assumptions C02_ecdh_rejects_infinity.

(* ---- the decoder accepts the encoder's output; byte-level round trip ---- *)
Theorem C02_ct_der_roundtrip : forall c rest,
  length (ct_x c) = 32%nat -> length (ct_y c) = 32%nat -> length (ct_hash c) = 32%nat ->
  (length (ct_c c) <= 255)%nat -> bytes_ok (ct_x c) = true -> bytes_ok (ct_y c) = true ->
  ct_from_der (ct_to_der c ++ rest) = Some (c, rest).
Proof. exact ct_der_roundtrip. Qed.
Print Assumptions C02_ct_der_roundtrip.

Theorem C02_sm2_decrypt_sm2_encrypt_partial :
  (forall a b, 0 <= a -> 0 <= b ->
     sm2_mul ZOps a (sm2_mulG ZOps b) = sm2_mulG ZOps ((a * b) mod n)) ->
  (forall k, 1 <= k < n ->
     sm2_mulG ZOps k <> None /\ sm2_on_curve ZOps (sm2_mulG ZOps k) = true) ->
  forall d m (en : ent) ct rest, 0 <= d ->
    sm2_encrypt ZOps (sm2_mulG ZOps d) m en = Some (ct, rest) ->
    sm2_decrypt ZOps d ct = Some m.
Proof. exact sm2_decrypt_sm2_encrypt_partial. Qed.
Print Assumptions C02_sm2_decrypt_sm2_encrypt_partial.

(* ---- pins: the GB/T 32918.4 example is reproduced (and decrypts) on the BigZ instance; the
   premises of the *_partial theorems hold on samples (not vacuous) ---- *)
Example C02_premise_instances :
  eqpt (sm2_mul BigOps vd (sm2_mulG BigOps vk)) (sm2_mul BigOps vk (sm2_mulG BigOps vd)) = true /\
  sm2_on_curve BigOps (sm2_mulG BigOps vk) = true.
Proof. exact (conj (proj1 (proj2 (proj2 premise_mul_instances))) (proj1 premise_curve_instances)). Qed.
Print Assumptions C02_premise_instances.

Example C02_std_ciphertext :
  match do_encrypt BigOps (sm2_mulG BigOps vd) (HexStr.hex_to_bytes "656e6372797074696f6e207374616e64617264") [rev (to32 vk)] with
  | Some (c, _) =>
      be_to_Z (ct_x c) = 0x04EBFC718E8D1798620432268E77FEB6415E2EDE0E073C0F4F640ECD2E149A73 /\
      be_to_Z (ct_y c) = 0xE858F9D81E5430A57B36DAAB8F950A3C64E6EE6A63094D99283AFF767E124DF0 /\
      be_to_Z (ct_hash c) = 0x59983C18F809E262923C53AEC295D30383B54E39D609D160AFCB1908D0BD8766 /\
      HexStr.bytes_to_hex (ct_c c) = "21886ca989ca9c7d58087307ca93092d651efa"%string /\
      do_decrypt BigOps vd c = Some (HexStr.hex_to_bytes "656e6372797074696f6e207374616e64617264")
  | None => False
  end.
Proof. exact std_ciphertext. Qed.
Print Assumptions C02_std_ciphertext.

(* ---- pre-computed nonces: sm2_encrypt_pre_compute / sm2_do_encrypt_ex ---- *)
Theorem C02_batch_inv_correct : forall m, 0 < m -> forall (inv : Z -> Z) (zs : list Z),
  (2 <= length zs)%nat ->
  (nth (length zs - 1) (f_list m zs) 0 * inv (nth (length zs - 1) (f_list m zs) 0)) mod m = 1 mod m ->
  forall i, (i < length zs)%nat ->
    (nth i zs 0 * nth i (batch_inv m inv zs) 0) mod m = 1 mod m.
Proof. exact batch_inv_correct. Qed.
Print Assumptions C02_batch_inv_correct.

(* every one of the 8 slots holds (k_i, affine [k_i]G), for any Jacobian Z coordinates *)
Theorem C02_enc_pre_compute_eq_partial : forall zs (en : ent) ks en',
  draw_ks 8 en = Some (ks, en') ->
  (let Zs := map (fun i => jac_Z ZOps (sm2_mulG ZOps (nth i ks 0)) (nth i zs 1)) (seq 0 8) in
   let T := nth 7 (f_list sm2_p Zs) 0 in (T * inv_p ZOps T) mod sm2_p = 1 mod sm2_p) ->
  enc_pre_compute ZOps zs en =
  Some (map (fun k => (k, (get_x ZOps (sm2_mulG ZOps k), get_y ZOps (sm2_mulG ZOps k)))) ks, en').
Proof. exact enc_pre_compute_eq_partial. Qed.
Print Assumptions C02_enc_pre_compute_eq_partial.

(* the ciphertext from a pre-computed slot (k, [k]G) is the one sm2_do_encrypt makes with nonce k *)
Theorem C02_encrypt_ex_eq_encrypt : forall (NO : numops) (P : point NO) k m,
  len_ok m = true ->
  do_encrypt_ex NO P (k, (get_x NO (sm2_mulG NO k), get_y NO (sm2_mulG NO k))) m =
  match enc_try NO P m k with Some c => ExOk c | None => ExRetry end.
Proof. exact encrypt_ex_eq_encrypt. Qed.
Print Assumptions C02_encrypt_ex_eq_encrypt.

(* ---- wave 5: fixed point-size encryption, print parse, size queries ---- *)
Theorem C02_encrypt_fixlen_sound : forall (P : point ZOps) m psize (en : ent) c rest,
  do_encrypt_fixlen ZOps P m psize en = Some (c, rest) ->
  (psize = 68 \/ psize = 69 \/ psize = 70)%N /\ (1 <= length m <= 255)%nat /\
  exists used kb, en = used ++ kb :: rest /\
    1 <= le_to_Z kb < n /\ point_der_len ZOps (sm2_mulG ZOps (le_to_Z kb)) = psize /\
    std_kdf_zero P m (le_to_Z kb) = false /\ c = std_ct P m (le_to_Z kb).
Proof. exact encrypt_fixlen_sound. Qed.
Print Assumptions C02_encrypt_fixlen_sound.

Theorem C02_ciphertext_print_strict : forall a,
  bytes_ok a = true -> ciphertext_print_ok a = true -> exists c, a = ct_to_der c.
Proof. exact ciphertext_print_strict. Qed.
Print Assumptions C02_ciphertext_print_strict.

Theorem C02_encrypt_finish_query_spec : forall chunks,
  encrypt_finish_query chunks =
  if ((1 <=? lenN (concat chunks)) && (lenN (concat chunks) <=? 255))%N then Some 366%N else None.
Proof. exact encrypt_finish_query_spec. Qed.
Print Assumptions C02_encrypt_finish_query_spec.

Theorem C02_decrypt_finish_query_spec : forall chunks,
  decrypt_finish_query chunks =
  if ((45 <=? lenN (concat chunks)) && (lenN (concat chunks) <=? 366))%N then Some 255%N else None.
Proof. exact decrypt_finish_query_spec. Qed.
Print Assumptions C02_decrypt_finish_query_spec.
