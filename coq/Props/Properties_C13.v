(* C13 — SM2 big-number and curve arithmetic equals integer mathematics.
   This file contains only the final statements; every proof is one [exact]. *)
From Coq Require Import ZArith List Bool Zdiv.
From Bignums Require Import BigZ.
From GmVerif Require Import Ec.Num Ec.CurveSpec Ec.Z256 Ec.Z256Proofs Ec.Mont Ec.MontProofs
  Ec.Jacobian Ec.JacobianProofs Ec.Booth Ec.BoothProofs Ec.ScalarMul Ec.ScalarMulProofs Ec.ScalarMulGenProofs Ec.MontBigProofs Ec.MontExpProofs
  Ec.JacobianMoreProofs Ec.Point Ec.PointProofs.
Import ListNotations.
Local Open Scope Z_scope.

(* ---- limb level (4 x 64-bit limbs, carry chains as written) = integers ---- *)
Theorem C13_add_spec : forall a b, z256_ok a -> z256_ok b ->
  z256_ok (fst (z256_add a b)) /\
  (snd (z256_add a b) = 0 \/ snd (z256_add a b) = 1) /\
  val (fst (z256_add a b)) + 2^256 * snd (z256_add a b) = val a + val b.
Proof. exact add_spec. Qed.
Print Assumptions C13_add_spec.

Theorem C13_sub_spec : forall a b, z256_ok a -> z256_ok b ->
  z256_ok (fst (z256_sub a b)) /\
  (snd (z256_sub a b) = 0 \/ snd (z256_sub a b) = 1) /\
  val (fst (z256_sub a b)) - 2^256 * snd (z256_sub a b) = val a - val b.
Proof. exact sub_spec. Qed.
Print Assumptions C13_sub_spec.

Theorem C13_mul_spec : forall a b, z256_ok a -> z256_ok b ->
  length (z256_mul a b) = 8%nat /\ limbs_ok (z256_mul a b) /\ val (z256_mul a b) = val a * val b.
Proof. exact mul_spec. Qed.
Print Assumptions C13_mul_spec.

Theorem C13_cmp_spec : forall a b, z256_ok a -> z256_ok b ->
  z256_cmp a b = (if val a >? val b then 1 else if val a <? val b then -1 else 0).
Proof. exact cmp_spec. Qed.
Print Assumptions C13_cmp_spec.

Theorem C13_modp_add_spec : forall a b, z256_ok a -> z256_ok b -> val a < vP -> val b < vP ->
  z256_ok (z256_modp_add a b) /\ val (z256_modp_add a b) = (val a + val b) mod vP.
Proof. exact modp_add_spec. Qed.
Print Assumptions C13_modp_add_spec.

Theorem C13_modp_sub_spec : forall a b, z256_ok a -> z256_ok b -> val a < vP -> val b < vP ->
  z256_ok (z256_modp_sub a b) /\ val (z256_modp_sub a b) = (val a - val b) mod vP.
Proof. exact modp_sub_spec. Qed.
Print Assumptions C13_modp_sub_spec.

Theorem C13_modp_neg_spec : forall a, z256_ok a -> val a < vP ->
  z256_ok (z256_modp_neg a) /\ val (z256_modp_neg a) = (- val a) mod vP.
Proof. exact modp_neg_spec. Qed.
Print Assumptions C13_modp_neg_spec.

(* before the repair the function returned p for a = 0 (witness about the old formula) *)
Theorem C13_modp_neg_old_zero_refuted : forall a, z256_ok SM2_Z256_P -> z256_ok a -> val a = 0 ->
  val (z256_modm_neg_old SM2_Z256_P a) = val SM2_Z256_P.
Proof. exact (modm_neg_old_zero SM2_Z256_P). Qed.
Print Assumptions C13_modp_neg_old_zero_refuted.

(* the constant-time zero and equality tests *)
Theorem C13_is_zero_spec : forall a, z256_ok a -> z256_is_zero a = if val a =? 0 then 1 else 0.
Proof. exact is_zero_spec. Qed.
Print Assumptions C13_is_zero_spec.

Theorem C13_equ_spec : forall a b, z256_ok a -> z256_ok b -> z256_equ a b = if val a =? val b then 1 else 0.
Proof. exact equ_spec. Qed.
Print Assumptions C13_equ_spec.

Theorem C13_modp_dbl_spec : forall a, z256_ok a -> val a < vP ->
  z256_ok (z256_modp_dbl a) /\ val (z256_modp_dbl a) = (2 * val a) mod vP.
Proof. exact modp_dbl_spec. Qed.
Print Assumptions C13_modp_dbl_spec.

Theorem C13_modp_tri_spec : forall a, z256_ok a -> val a < vP ->
  z256_ok (z256_modp_tri a) /\ val (z256_modp_tri a) = (3 * val a) mod vP.
Proof. exact modp_tri_spec. Qed.
Print Assumptions C13_modp_tri_spec.

Theorem C13_modn_add_spec : forall a b, z256_ok a -> z256_ok b -> val a < vN -> val b < vN ->
  z256_ok (z256_modn_add a b) /\ val (z256_modn_add a b) = (val a + val b) mod vN.
Proof. exact modn_add_spec. Qed.
Print Assumptions C13_modn_add_spec.

Theorem C13_modn_sub_spec : forall a b, z256_ok a -> z256_ok b -> val a < vN -> val b < vN ->
  z256_ok (z256_modn_sub a b) /\ val (z256_modn_sub a b) = (val a - val b) mod vN.
Proof. exact modn_sub_spec. Qed.
Print Assumptions C13_modn_sub_spec.

Theorem C13_modn_neg_spec : forall a, z256_ok a -> val a < vN ->
  z256_ok (z256_modn_neg a) /\ val (z256_modn_neg a) = (- val a) mod vN.
Proof. exact modn_neg_spec. Qed.
Print Assumptions C13_modn_neg_spec.

(* ---- Montgomery reduction over Z: only m * m' = -1 (mod R) is used ---- *)
Theorem C13_montgomery_reduction : forall R m m', 0 < R -> 0 < m < R -> (m * m') mod R = R - 1 ->
  forall z, 0 <= z < R * m ->
  let r := (z + redc_t R m m' z) / R in
  let res := if m <=? r then r - m else r in
  0 <= res < m /\ (res * R) mod m = z mod m.
Proof. exact redc_final. Qed.
Print Assumptions C13_montgomery_reduction.

(* the limb code of sm2_z256_modp_mont_mul / modn_mont_mul, operands below the modulus *)
Theorem C13_modp_mont_mul_spec : forall a b, z256_ok a -> z256_ok b -> val a < c_p -> val b < c_p ->
  let r := z256_modp_mont_mul a b in
  z256_ok r /\ 0 <= val r < c_p /\ (val r * 2^256) mod c_p = (val a * val b) mod c_p.
Proof. exact modp_mont_mul_limb_spec. Qed.
Print Assumptions C13_modp_mont_mul_spec.

Theorem C13_modn_mont_mul_spec : forall a b, z256_ok a -> z256_ok b -> val a < c_n -> val b < c_n ->
  let r := z256_modn_mont_mul a b in
  z256_ok r /\ 0 <= val r < c_n /\ (val r * 2^256) mod c_n = (val a * val b) mod c_n.
Proof. exact modn_mont_mul_limb_spec. Qed.
Print Assumptions C13_modn_mont_mul_spec.

(* limb level = value level for ALL 256-bit operands (also outside [0,m)) *)
Theorem C13_mont_mul_limbs_eq_value : forall m m' negm r2 a b,
  z256_ok m -> z256_ok m' -> z256_ok negm -> z256_ok a -> z256_ok b ->
  z256_ok (z256_mont_mul m m' negm a b) /\
  val (z256_mont_mul m m' negm a b) = vmont_mul ZOps Z.ltb (Kof m m' negm r2) (val a) (val b).
Proof. exact mont_mul_limb_eq. Qed.
Print Assumptions C13_mont_mul_limbs_eq_value.

Theorem C13_modm_add_limbs_eq_value : forall m m' negm r2 a b,
  z256_ok m -> z256_ok negm -> z256_ok a -> z256_ok b ->
  z256_ok (z256_modm_add m negm a b) /\
  val (z256_modm_add m negm a b) = vmod_add ZOps Z.ltb (Kof m m' negm r2) (val a) (val b).
Proof. exact modm_add_limb_eq. Qed.
Print Assumptions C13_modm_add_limbs_eq_value.

Theorem C13_modm_sub_limbs_eq_value : forall m m' negm r2 a b,
  z256_ok negm -> z256_ok a -> z256_ok b ->
  z256_ok (z256_modm_sub negm a b) /\
  val (z256_modm_sub negm a b) = vmod_sub ZOps Z.ltb (Kof m m' negm r2) (val a) (val b).
Proof. exact modm_sub_limb_eq. Qed.
Print Assumptions C13_modm_sub_limbs_eq_value.

(* the constants of the C file mean what their comments say *)
Theorem C13_constants :
  c_p = sm2_p /\ c_n = sm2_n /\
  (c_p * c_p') mod 2^256 = 2^256 - 1 /\ (c_n * c_n') mod 2^256 = 2^256 - 1 /\
  c_negp = 2^256 - c_p /\ c_negn = 2^256 - c_n /\
  c_r2p = 2^512 mod c_p /\ c_r2n = 2^512 mod c_n /\
  c_sqrt_exp = (c_p + 1) / 4 /\ c_p mod 4 = 3 /\ c_n_minus_two = c_n - 2 /\
  c_mont_b = (sm2_b * 2^256) mod c_p /\ c_mont_three = (3 * 2^256) mod c_p /\
  sm2_a = c_p - 3.
Proof. exact consts_meaning. Qed.
Print Assumptions C13_constants.

Theorem C13_constants_limbs :
  c_p = val SM2_Z256_P /\ c_p' = val SM2_Z256_P_PRIME /\ c_negp = val SM2_Z256_NEG_P /\
  c_r2p = val SM2_Z256_2e512modp /\ c_n = val SM2_Z256_N /\ c_n' = val SM2_Z256_N_PRIME /\
  c_negn = val SM2_Z256_NEG_N /\ c_r2n = val SM2_Z256_2e512modn /\
  c_sqrt_exp = val SM2_Z256_SQRT_EXP /\ c_mont_b = val SM2_Z256_MODP_MONT_B /\
  c_mont_three = val SM2_Z256_MODP_MONT_THREE /\ c_n_minus_two = val SM2_Z256_N_MINUS_TWO.
Proof. exact consts_limbs. Qed.
Print Assumptions C13_constants_limbs.

(* value-level field operations used by the point formulas *)
Theorem C13_modp_haf_spec : forall a, 0 <= a < c_p ->
  0 <= vmod_haf ZOps KpZ a < c_p /\ (2 * vmod_haf ZOps KpZ a) mod c_p = a.
Proof. exact (vmod_haf_spec KpZ KpZ_ok). Qed.
Print Assumptions C13_modp_haf_spec.

Theorem C13_to_from_mont : forall a, 0 <= a < c_p ->
  frm KpZ Rinv_p (vto_mont ZOps Z.ltb KpZ a) = a /\ 0 <= vto_mont ZOps Z.ltb KpZ a < c_p /\
  vfrom_mont ZOps Z.ltb KpZ a = frm KpZ Rinv_p a.
Proof. exact to_from_mont_p. Qed.
Print Assumptions C13_to_from_mont.

(* ---- inversion chains: the exponent realised is m - 2 (exponent arithmetic by computation
   over the transcribed straight-line programs) ---- *)
Theorem C13_modp_inv_chain_exponent :
  getreg _ None (runE modp_inv_prog [Some 1; None; None; None; None; None; None]) 6 = Some (c_p - 2).
Proof. exact modp_inv_chain_exponent. Qed.
Print Assumptions C13_modp_inv_chain_exponent.

Theorem C13_modn_inv_chain_exponent :
  getreg _ None (runE modn_inv_prog [Some 1; Some 1]) 1 = Some (c_n - 2).
Proof. exact modn_inv_chain_exponent. Qed.
Print Assumptions C13_modn_inv_chain_exponent.

Theorem C13_sqrt_exponent :
  getreg _ None (runE (exp_prog (bits_msb 256 c_sqrt_exp)) [Some 1; Some 0]) 1 = Some ((c_p + 1) / 4).
Proof. exact sqrt_exponent. Qed.
Print Assumptions C13_sqrt_exponent.

Theorem C13_modp_mont_inv_pow : forall a, 0 <= a < c_p ->
  let r := vmodp_mont_inv ZOps Z.ltb KpZ a in
  0 <= r < c_p /\ frm KpZ Rinv_p r = (frm KpZ Rinv_p a) ^ (c_p - 2) mod c_p.
Proof. exact modp_mont_inv_pow. Qed.
Print Assumptions C13_modp_mont_inv_pow.

Theorem C13_modn_mont_inv_pow : forall a, 0 <= a < c_n ->
  let r := vmodn_mont_inv ZOps Z.ltb KnZ a in
  0 <= r < c_n /\ frm KnZ Rinv_n r = (frm KnZ Rinv_n a) ^ (c_n - 2) mod c_n.
Proof. exact modn_mont_inv_pow. Qed.
Print Assumptions C13_modn_mont_inv_pow.

(* = the inverse under Fermat's little theorem for p (i.e. p prime): explicit premise *)
Theorem C13_modp_mont_inv_partial :
  (forall x, 0 < x < c_p -> x ^ (c_p - 1) mod c_p = 1) ->
  forall a, 0 < a < c_p ->
  (frm KpZ Rinv_p (vmodp_mont_inv ZOps Z.ltb KpZ a) * frm KpZ Rinv_p a) mod c_p = 1.
Proof. exact modp_mont_inv_partial. Qed.
Print Assumptions C13_modp_mont_inv_partial.

(* ---- Booth recoding ---- *)
Theorem C13_booth_sum_5 : forall k, 0 <= k < 2^256 -> booth_sum 5 0 (booth_digits_v k 5) = k.
Proof. exact booth_sum_5. Qed.
Print Assumptions C13_booth_sum_5.

Theorem C13_booth_sum_7 : forall k, 0 <= k < 2^256 -> booth_sum 7 0 (booth_digits_v k 7) = k.
Proof. exact booth_sum_7. Qed.
Print Assumptions C13_booth_sum_7.

(* ... for the digits the limb code sm2_z256_get_booth extracts *)
Theorem C13_get_booth_limbs : forall k w i, 0 <= k < 2^256 -> 0 < w -> w + 1 <= 64 -> 0 <= i ->
  w * i - 1 < 256 ->
  z256_get_booth (limbs 4 k) w i = booth_v k w i.
Proof. exact get_booth_limbs. Qed.
Print Assumptions C13_get_booth_limbs.

Theorem C13_booth_code_sum_5 : forall k, 0 <= k < 2^256 -> booth_sum 5 0 (booth_digits k 5) = k.
Proof. exact booth_code_sum_5. Qed.
Print Assumptions C13_booth_code_sum_5.

Theorem C13_booth_code_sum_7 : forall k, 0 <= k < 2^256 -> booth_sum 7 0 (booth_digits k 7) = k.
Proof. exact booth_code_sum_7. Qed.
Print Assumptions C13_booth_code_sum_7.

Theorem C13_booth_range_5 : forall k i, 0 <= k -> 0 <= i -> -16 <= booth_v k 5 i <= 16.
Proof. exact booth_range_5. Qed.
Print Assumptions C13_booth_range_5.

Theorem C13_booth_range_7 : forall k i, 0 <= k -> 0 <= i -> -64 <= booth_v k 7 i <= 64.
Proof. exact booth_range_7. Qed.
Print Assumptions C13_booth_range_7.

Theorem C13_booth_leading_digit : forall w, 0 < w -> forall k, 0 <= k ->
  forall n i, 2 * k < 2^(w * Z.of_nat n) -> (i < n)%nat ->
  (forall j, (i < j < n)%nat -> booth_v k w (Z.of_nat j) = 0) ->
  0 <= booth_v k w (Z.of_nat i).
Proof. exact leading_digit_nonneg. Qed.
Print Assumptions C13_booth_leading_digit.

(* ---- Jacobian formulas of the value-level model over Z (coordinates = Montgomery residues,
   decp = the field element a residue stands for), as congruences modulo p ---- *)
Theorem C13_point_dbl_formula : forall X1 Y1 Z1, okp X1 -> okp Y1 -> okp Z1 ->
  let '(X3, Y3, Z3) := point_dbl Z FpZ (X1, Y1, Z1) in
  let X := decp X1 in let Y := decp Y1 in let Zc := decp Z1 in
  let M := 3 * X * X - 3 * (Zc * Zc * Zc * Zc) in
  okp X3 /\ okp Y3 /\ okp Z3 /\
  eqm c_p (decp Z3) (2 * Y * Zc) /\
  eqm c_p (decp X3) (M * M - 8 * X * Y * Y) /\
  eqm c_p (decp Y3) (M * (4 * X * Y * Y - decp X3) - 8 * Y * Y * Y * Y).
Proof. exact (dbl_formula c_p half_p half_p_ok Z FpZ okp decp FpZ_laws). Qed.
Print Assumptions C13_point_dbl_formula.

Theorem C13_point_add_formula : forall X1 Y1 Z1 X2 Y2 Z2,
  okp X1 -> okp Y1 -> okp Z1 -> okp X2 -> okp Y2 -> okp Z2 ->
  f_eqb FpZ Z1 (f_zero FpZ) = false -> f_eqb FpZ Z2 (f_zero FpZ) = false ->
  f_eqb FpZ (f_mul FpZ X1 (f_sqr FpZ Z2)) (f_mul FpZ X2 (f_sqr FpZ Z1)) = false ->
  let '(X3, Y3, Z3) := point_add Z FpZ (X1, Y1, Z1) (X2, Y2, Z2) in
  let U1 := decp X1 * (decp Z2 * decp Z2) in let U2 := decp X2 * (decp Z1 * decp Z1) in
  let S1 := decp Y1 * (decp Z2 * decp Z2 * decp Z2) in let S2 := decp Y2 * (decp Z1 * decp Z1 * decp Z1) in
  let H := U2 - U1 in let R := S2 - S1 in
  okp X3 /\ okp Y3 /\ okp Z3 /\
  eqm c_p (decp Z3) (H * decp Z1 * decp Z2) /\
  eqm c_p (decp X3) (R * R - 2 * U1 * (H * H) - H * H * H) /\
  eqm c_p (decp Y3) (R * (U1 * (H * H) - decp X3) - S1 * (H * H * H)).
Proof. exact (add_formula c_p half_p Z FpZ okp decp FpZ_laws). Qed.
Print Assumptions C13_point_add_formula.

(* the straight-line formulas of the mixed addition; sm2_z256_point_add_affine uses them
   exactly when H <> 0 or an operand is infinity (C13_point_add_affine_control below) *)
Theorem C13_point_add_affine_formula : forall X1 Y1 Z1 x2 y2,
  okp X1 -> okp Y1 -> okp Z1 -> okp x2 -> okp y2 ->
  f_eqb FpZ Z1 (f_zero FpZ) = false ->
  f_eqb FpZ x2 (f_zero FpZ) && f_eqb FpZ y2 (f_zero FpZ) = false ->
  let '(X3, Y3, Z3) := point_add_affine_old Z FpZ (X1, Y1, Z1) (x2, y2) in
  let U2 := decp x2 * (decp Z1 * decp Z1) in let S2 := decp y2 * (decp Z1 * decp Z1 * decp Z1) in
  let H := U2 - decp X1 in let R := S2 - decp Y1 in
  okp X3 /\ okp Y3 /\ okp Z3 /\
  eqm c_p (decp Z3) (H * decp Z1) /\
  eqm c_p (decp X3) (R * R - 2 * decp X1 * (H * H) - H * H * H) /\
  eqm c_p (decp Y3) (R * (decp X1 * (H * H) - decp X3) - decp Y1 * (H * H * H)).
Proof. exact (add_affine_formula c_p half_p Z FpZ okp decp FpZ_laws). Qed.
Print Assumptions C13_point_add_affine_formula.

(* cross-multiplied: these formulas represent the affine tangent / chord point *)
Theorem C13_dbl_represents_tangent : forall p X Y Zc x y a x3 y3 X3 Y3 Z3,
  repr p X Y Zc x y -> eqm p a (-3) ->
  eqm p (x3 * ((2 * y) * (2 * y))) ((3 * x * x + a) * (3 * x * x + a) - 2 * x * ((2 * y) * (2 * y))) ->
  eqm p (y3 * ((2 * y) * (2 * y) * (2 * y)))
        ((3 * x * x + a) * ((x - x3) * ((2 * y) * (2 * y))) - y * ((2 * y) * (2 * y) * (2 * y))) ->
  eqm p Z3 (2 * Y * Zc) ->
  eqm p X3 ((3 * X * X - 3 * (Zc * Zc * Zc * Zc)) * (3 * X * X - 3 * (Zc * Zc * Zc * Zc)) - 8 * X * Y * Y) ->
  eqm p Y3 ((3 * X * X - 3 * (Zc * Zc * Zc * Zc)) * (4 * X * Y * Y - X3) - 8 * Y * Y * Y * Y) ->
  repr p X3 Y3 Z3 x3 y3.
Proof. exact dbl_cross. Qed.
Print Assumptions C13_dbl_represents_tangent.

Theorem C13_add_represents_chord : forall p X1 Y1 Z1 X2 Y2 Z2 x1 y1 x2 y2 x3 y3 X3 Y3 Z3,
  repr p X1 Y1 Z1 x1 y1 -> repr p X2 Y2 Z2 x2 y2 ->
  let d := x2 - x1 in let e := y2 - y1 in
  eqm p (x3 * (d * d)) (e * e - (x1 + x2) * (d * d)) ->
  eqm p (y3 * (d * d * d)) (e * ((x1 - x3) * (d * d)) - y1 * (d * d * d)) ->
  let U1 := X1 * (Z2 * Z2) in let U2 := X2 * (Z1 * Z1) in
  let S1 := Y1 * (Z2 * Z2 * Z2) in let S2 := Y2 * (Z1 * Z1 * Z1) in
  let H := U2 - U1 in let R := S2 - S1 in
  eqm p Z3 (H * Z1 * Z2) ->
  eqm p X3 (R * R - 2 * U1 * (H * H) - H * H * H) ->
  eqm p Y3 (R * (U1 * (H * H) - X3) - S1 * (H * H * H)) ->
  repr p X3 Y3 Z3 x3 y3.
Proof. exact add_cross. Qed.
Print Assumptions C13_add_represents_chord.

(* CurveSpec's affine law satisfies the cross-multiplied characterisation when its Euclid
   inverse is an inverse of the denominator (premise; true for prime p) *)
Theorem C13_spec_tangent_partial : forall p a x y inv, eqm p (inv * (2 * y)) 1 ->
  let x3 := tan_x3 p a x y inv in let y3 := tan_y3 p a x y inv in
  eqm p (x3 * ((2 * y) * (2 * y))) ((3 * x * x + a) * (3 * x * x + a) - 2 * x * ((2 * y) * (2 * y))) /\
  eqm p (y3 * ((2 * y) * (2 * y) * (2 * y)))
        ((3 * x * x + a) * ((x - x3) * ((2 * y) * (2 * y))) - y * ((2 * y) * (2 * y) * (2 * y))).
Proof. exact tangent_cross. Qed.
Print Assumptions C13_spec_tangent_partial.

Theorem C13_spec_tangent_is_pdbl : forall p a x y,
  pdbl ZOps p a (Some (x, y)) =
  if y =? 0 then None
  else let inv := finv ZOps p ((y + y) mod p) in Some (tan_x3 p a x y inv, tan_y3 p a x y inv).
Proof. exact pdbl_unfold. Qed.
Print Assumptions C13_spec_tangent_is_pdbl.

Theorem C13_spec_chord_partial : forall p x1 y1 x2 y2 inv, eqm p (inv * (x2 - x1)) 1 ->
  let x3 := chord_x3 p x1 y1 x2 y2 inv in let y3 := chord_y3 p x1 y1 x2 y2 inv in
  let d := x2 - x1 in let e := y2 - y1 in
  eqm p (x3 * (d * d)) (e * e - (x1 + x2) * (d * d)) /\
  eqm p (y3 * (d * d * d)) (e * ((x1 - x3) * (d * d)) - y1 * (d * d * d)).
Proof. exact chord_cross. Qed.
Print Assumptions C13_spec_chord_partial.

Theorem C13_spec_chord_is_padd : forall p a x1 y1 x2 y2, x1 <> x2 ->
  padd ZOps p a (Some (x1, y1)) (Some (x2, y2)) =
  let inv := finv ZOps p ((x2 - x1) mod p) in
  Some (chord_x3 p x1 y1 x2 y2 inv, chord_y3 p x1 y1 x2 y2 inv).
Proof. exact padd_unfold. Qed.
Print Assumptions C13_spec_chord_is_padd.

(* the real point code against CurveSpec: whenever the affine law yields (x3, y3) -- and its
   Euclid inverse is an inverse of the denominator, which holds for prime p -- the Jacobian code
   returns a representative of (x3, y3): X3 = x3 Z3^2, Y3 = y3 Z3^3 (mod p), coordinates reduced *)
Theorem C13_point_dbl_represents_pdbl_partial : forall X1 Y1 Z1 x y x3 y3,
  jrepr c_p Z okp decp (X1, Y1, Z1) x y ->
  pdbl ZOps c_p sm2_a (Some (x, y)) = Some (x3, y3) ->
  eqm c_p (finv ZOps c_p ((y + y) mod c_p) * (2 * y)) 1 ->
  jrepr c_p Z okp decp (point_dbl Z FpZ (X1, Y1, Z1)) x3 y3.
Proof. exact point_dbl_represents_pdbl_partial. Qed.
Print Assumptions C13_point_dbl_represents_pdbl_partial.

Theorem C13_point_add_represents_padd_partial : forall X1 Y1 Z1 X2 Y2 Z2 x1 y1 x2 y2 x3 y3,
  jrepr c_p Z okp decp (X1, Y1, Z1) x1 y1 -> jrepr c_p Z okp decp (X2, Y2, Z2) x2 y2 ->
  f_eqb FpZ Z1 (f_zero FpZ) = false -> f_eqb FpZ Z2 (f_zero FpZ) = false ->
  f_eqb FpZ (f_mul FpZ X1 (f_sqr FpZ Z2)) (f_mul FpZ X2 (f_sqr FpZ Z1)) = false ->
  x1 <> x2 ->
  padd ZOps c_p sm2_a (Some (x1, y1)) (Some (x2, y2)) = Some (x3, y3) ->
  eqm c_p (finv ZOps c_p ((x2 - x1) mod c_p) * (x2 - x1)) 1 ->
  jrepr c_p Z okp decp (point_add Z FpZ (X1, Y1, Z1) (X2, Y2, Z2)) x3 y3.
Proof. exact point_add_represents_padd_partial. Qed.
Print Assumptions C13_point_add_represents_padd_partial.

Theorem C13_point_add_affine_represents_padd_partial : forall X1 Y1 Z1 xm ym x1 y1 x3 y3,
  jrepr c_p Z okp decp (X1, Y1, Z1) x1 y1 -> okp xm -> okp ym ->
  f_eqb FpZ Z1 (f_zero FpZ) = false ->
  f_eqb FpZ xm (f_zero FpZ) && f_eqb FpZ ym (f_zero FpZ) = false ->
  f_eqb FpZ (f_sub FpZ (f_mul FpZ xm (f_sqr FpZ Z1)) X1) (f_zero FpZ) = false ->
  x1 <> decp xm ->
  padd ZOps c_p sm2_a (Some (x1, y1)) (Some (decp xm, decp ym)) = Some (x3, y3) ->
  eqm c_p (finv ZOps c_p ((decp xm - x1) mod c_p) * (decp xm - x1)) 1 ->
  jrepr c_p Z okp decp (point_add_affine Z FpZ (X1, Y1, Z1) (xm, ym)) x3 y3.
Proof. exact point_add_affine_represents_padd_partial. Qed.
Print Assumptions C13_point_add_affine_represents_padd_partial.

(* infinity / equal-x control flow of the full addition and of the mixed addition *)
Theorem C13_point_add_infinity_left : forall F (fo : fops F) a X2 Y2 Z2 X1 Y1 Z1, a = (X1, Y1, Z1) ->
  f_eqb fo Z1 (f_zero fo) = true -> f_eqb fo Z2 (f_zero fo) = false ->
  point_add F fo a (X2, Y2, Z2) = (X2, Y2, Z2).
Proof. exact add_inf_l. Qed.
Print Assumptions C13_point_add_infinity_left.

Theorem C13_point_add_infinity_right : forall F (fo : fops F) X1 Y1 Z1 X2 Y2 Z2,
  f_eqb fo Z2 (f_zero fo) = true ->
  point_add F fo (X1, Y1, Z1) (X2, Y2, Z2) = (X1, Y1, Z1).
Proof. exact add_inf_r. Qed.
Print Assumptions C13_point_add_infinity_right.

Theorem C13_point_add_equal_x : forall F (fo : fops F) X1 Y1 Z1 X2 Y2 Z2,
  f_eqb fo Z1 (f_zero fo) = false -> f_eqb fo Z2 (f_zero fo) = false ->
  f_eqb fo (f_mul fo X1 (f_sqr fo Z2)) (f_mul fo X2 (f_sqr fo Z1)) = true ->
  point_add F fo (X1, Y1, Z1) (X2, Y2, Z2) =
  if f_eqb fo (f_mul fo (f_mul fo (f_sqr fo Z2) Z2) Y1) (f_mul fo (f_mul fo (f_sqr fo Z1) Z1) Y2)
  then point_dbl F fo (X1, Y1, Z1) else point_zero F fo.
Proof. exact add_same_x. Qed.
Print Assumptions C13_point_add_equal_x.

Theorem C13_point_add_affine_infinity_left : forall F (fo : fops F) X1 Y1 Z1 x2 y2,
  f_eqb fo Z1 (f_zero fo) = true ->
  f_eqb fo x2 (f_zero fo) && f_eqb fo y2 (f_zero fo) = false ->
  point_add_affine F fo (X1, Y1, Z1) (x2, y2) = (x2, y2, f_one fo).
Proof. exact add_affine_inf_l. Qed.
Print Assumptions C13_point_add_affine_infinity_left.

Theorem C13_point_add_affine_infinity_right : forall F (fo : fops F) X1 Y1 Z1 x2 y2,
  f_eqb fo x2 (f_zero fo) && f_eqb fo y2 (f_zero fo) = true ->
  point_add_affine F fo (X1, Y1, Z1) (x2, y2) = (X1, Y1, Z1).
Proof. exact add_affine_inf_r. Qed.
Print Assumptions C13_point_add_affine_infinity_right.

(* ---- control flow of sm2_z256_point_add_affine (with the equal-x branch) ---- *)
Theorem C13_point_add_affine_control : forall F (fo : fops F) X1 Y1 Z1 x2 y2,
  let H := f_sub fo (f_mul fo x2 (f_sqr fo Z1)) X1 in
  let R := f_sub fo (f_mul fo (f_mul fo (f_sqr fo Z1) Z1) y2) Y1 in
  let exceptional := f_eqb fo H (f_zero fo) && negb (f_eqb fo Z1 (f_zero fo)) &&
                     negb (f_eqb fo x2 (f_zero fo) && f_eqb fo y2 (f_zero fo)) in
  point_add_affine F fo (X1, Y1, Z1) (x2, y2) =
  if exceptional then (if f_eqb fo R (f_zero fo) then point_dbl F fo (X1, Y1, Z1) else point_zero F fo)
  else point_add_affine_old F fo (X1, Y1, Z1) (x2, y2).
Proof. exact add_affine_spec. Qed.
Print Assumptions C13_point_add_affine_control.

(* witness about the old formula: without the equal-x branch P + P gave (0,0,0) *)
Theorem C13_add_affine_old_equal_inputs_refuted :
  point_add_affine_old Z FpZ (G_mont_x, G_mont_y, c_negp) (G_mont_x, G_mont_y) = (0, 0, 0) /\
  point_dbl Z FpZ (G_mont_x, G_mont_y, c_negp) <> (0, 0, 0) /\
  point_add_affine Z FpZ (G_mont_x, G_mont_y, c_negp) (G_mont_x, G_mont_y)
    = point_dbl Z FpZ (G_mont_x, G_mont_y, c_negp).
Proof. exact add_affine_old_equal_inputs_refuted. Qed.
Print Assumptions C13_add_affine_old_equal_inputs_refuted.

(* ---- scalar multiplication by the generator: the table, and the refutation at k = n - 70 ---- *)
Theorem C13_table_is_spec_recurrence :
  sm2_pre_table = map (map table_entry_Z) (spec_table BigOps).
Proof. exact table_is_spec_recurrence. Qed.
Print Assumptions C13_table_is_spec_recurrence.

Theorem C13_table_shape :
  length sm2_pre_table = 37%nat /\
  forallb (fun row => (length row =? 64)%nat && forallb (fun e => negb ((fst e =? 0) && (snd e =? 0))) row)
          sm2_pre_table = true.
Proof. exact table_shape. Qed.
Print Assumptions C13_table_shape.

(* sm2_z256_point_mul_generator computes [k]G for EVERY 256-bit k, provided the point-level
   operations mean what they should (named premises; the additivity of smul is where the group
   law enters).  The proof covers Booth recoding as extracted by the limb code, table indexing,
   sign handling and the "R is still infinity" flag. *)
Theorem C13_mul_generator_correct_partial :
  forall (F : Type) (fo : fops F) (addaff : jpoint F -> apoint F -> jpoint F)
         (M : Type) (madd : M -> M -> M) (mneg : M -> M) (smul : Z -> M)
         (okR : jpoint F -> Prop) (oke : apoint F -> Prop) (den : jpoint F -> M) (dena : apoint F -> M),
  (forall a b, smul (a + b) = madd (smul a) (smul b)) ->
  (forall a, smul (- a) = mneg (smul a)) ->
  (forall R e, okR R -> oke e -> okR (addaff R e) /\ den (addaff R e) = madd (den R) (dena e)) ->
  (forall e, oke e -> oke (fst e, f_neg fo (snd e)) /\ dena (fst e, f_neg fo (snd e)) = mneg (dena e)) ->
  (forall e, oke e -> okR (point_copy_affine F fo e) /\ den (point_copy_affine F fo e) = dena e) ->
  okR (point_infinity F fo) /\ den (point_infinity F fo) = smul 0 ->
  forall tab : list (list (apoint F)),
  length tab = 37%nat ->
  (forall i, (i < 37)%nat -> row_ok F fo M smul oke dena (nth i tab []) (2^(7 * Z.of_nat i))) ->
  forall k, 0 <= k < 2^256 ->
  exists R, point_mul_generator F fo addaff tab k = Some R /\ okR R /\ den R = smul k.
Proof. exact mul_generator_correct_partial. Qed.
Print Assumptions C13_mul_generator_correct_partial.

(* sm2_z256_point_mul: [k]P for EVERY 256-bit k under the same kind of premises; covers both
   branches of the table construction [1..16]P, the top-window handling, the five doublings per
   window and the signed digits *)
Theorem C13_point_mul_correct_partial :
  forall (F : Type) (fo : fops F) (addaff : jpoint F -> apoint F -> jpoint F)
         (M : Type) (madd : M -> M -> M) (mneg : M -> M) (smul : Z -> M)
         (okR : jpoint F -> Prop) (den : jpoint F -> M),
  (forall a b, smul (a + b) = madd (smul a) (smul b)) ->
  (forall a, smul (- a) = mneg (smul a)) ->
  (forall R, okR R -> okR (point_dbl F fo R) /\ den (point_dbl F fo R) = madd (den R) (den R)) ->
  (forall R Q, okR R -> okR Q -> okR (point_add F fo R Q) /\ den (point_add F fo R Q) = madd (den R) (den Q)) ->
  (forall Q, okR Q -> okR (point_neg F fo Q) /\ den (point_neg F fo Q) = mneg (den Q)) ->
  okR (point_zero F fo) /\ den (point_zero F fo) = smul 0 ->
  forall X Y Zc : F,
  okR (X, Y, Zc) -> den (X, Y, Zc) = smul 1 ->
  (forall R, okR R -> okR (addaff R (X, Y)) /\ den (addaff R (X, Y)) = madd (den R) (smul 1)) ->
  forall k, 0 <= k < 2^256 ->
  exists R, point_mul F fo addaff k (X, Y, Zc) = Some R /\ okR R /\ den R = smul k.
Proof. exact point_mul_correct_partial. Qed.
Print Assumptions C13_point_mul_correct_partial.

Theorem C13_point_mul_sum_correct_partial :
  forall (F : Type) (fo : fops F) (addaff : jpoint F -> apoint F -> jpoint F) (tab : list (list (apoint F)))
         (M : Type) (madd : M -> M -> M) (okR : jpoint F -> Prop) (den : jpoint F -> M) (gs pt : M)
         (t : Z) (P : jpoint F) (s : Z),
  (forall R Q, okR R -> okR Q -> okR (point_add F fo R Q) /\ den (point_add F fo R Q) = madd (den R) (den Q)) ->
  (exists R, point_mul_generator F fo addaff tab s = Some R /\ okR R /\ den R = gs) ->
  (exists Q, point_mul F fo addaff t P = Some Q /\ okR Q /\ den Q = pt) ->
  exists R, point_mul_sum F fo addaff tab t P s = Some R /\ okR R /\ den R = madd gs pt.
Proof. exact point_mul_sum_correct_partial. Qed.
Print Assumptions C13_point_mul_sum_correct_partial.

(* in particular the model never indexes the table out of bounds *)
Theorem C13_mul_generator_total : forall k, 0 <= k < 2^256 -> exists R, mulgen k = Some R.
Proof. exact mul_generator_total. Qed.
Print Assumptions C13_mul_generator_total.

(* witness about the old mixed addition: k = n - 70 gave infinity *)
Theorem C13_mul_generator_old_refuted :
  exists k, 0 <= k < 2^256 /\
    option_map decodeZ (mulgen_old k) <> Some (point_toZ BigOps (sm2_mulG BigOps k)).
Proof. exact mul_generator_old_refuted. Qed.
Print Assumptions C13_mul_generator_old_refuted.

(* ---- the BigZ instance of the model (the one the correspondence run executes) computes the
   same numbers as the Z instance (the one the theorems above are about) ---- *)
Theorem C13_big_mont_mul_hom : forall a b,
  BigZ.to_Z (vmont_mul BigOps BigZ.ltb KpB a b) = vmont_mul ZOps Z.ltb KpZ (BigZ.to_Z a) (BigZ.to_Z b) /\
  BigZ.to_Z (vmont_mul BigOps BigZ.ltb KnB a b) = vmont_mul ZOps Z.ltb KnZ (BigZ.to_Z a) (BigZ.to_Z b).
Proof. exact (fun a b => conj (vmont_mul_hom KpB KpZ KpB_hom a b) (vmont_mul_hom KnB KnZ KnB_hom a b)). Qed.
Print Assumptions C13_big_mont_mul_hom.

Theorem C13_big_field_ops_hom : forall a b,
  BigZ.to_Z (vmod_add BigOps BigZ.ltb KpB a b) = vmod_add ZOps Z.ltb KpZ (BigZ.to_Z a) (BigZ.to_Z b) /\
  BigZ.to_Z (vmod_sub BigOps BigZ.ltb KpB a b) = vmod_sub ZOps Z.ltb KpZ (BigZ.to_Z a) (BigZ.to_Z b) /\
  BigZ.to_Z (vmod_neg BigOps BigZ.ltb KpB a) = vmod_neg ZOps Z.ltb KpZ (BigZ.to_Z a) /\
  BigZ.to_Z (vmod_dbl BigOps BigZ.ltb KpB a) = vmod_dbl ZOps Z.ltb KpZ (BigZ.to_Z a) /\
  BigZ.to_Z (vmod_tri BigOps BigZ.ltb KpB a) = vmod_tri ZOps Z.ltb KpZ (BigZ.to_Z a) /\
  BigZ.to_Z (vmod_haf BigOps KpB a) = vmod_haf ZOps KpZ (BigZ.to_Z a) /\
  BigZ.to_Z (vto_mont BigOps BigZ.ltb KpB a) = vto_mont ZOps Z.ltb KpZ (BigZ.to_Z a) /\
  BigZ.to_Z (vfrom_mont BigOps BigZ.ltb KpB a) = vfrom_mont ZOps Z.ltb KpZ (BigZ.to_Z a) /\
  BigZ.to_Z (vmodp_mont_inv BigOps BigZ.ltb KpB a) = vmodp_mont_inv ZOps Z.ltb KpZ (BigZ.to_Z a) /\
  BigZ.to_Z (vmodn_mont_inv BigOps BigZ.ltb KnB a) = vmodn_mont_inv ZOps Z.ltb KnZ (BigZ.to_Z a) /\
  (forall e, BigZ.to_Z (vmont_exp BigOps BigZ.ltb KpB a e) = vmont_exp ZOps Z.ltb KpZ (BigZ.to_Z a) e).
Proof.
  exact (fun a b => conj (vmod_add_hom KpB KpZ KpB_hom a b) (conj (vmod_sub_hom KpB KpZ KpB_hom a b)
    (conj (vmod_neg_hom KpB KpZ KpB_hom a) (conj (vmod_dbl_hom KpB KpZ KpB_hom a) (conj (vmod_tri_hom KpB KpZ KpB_hom a)
    (conj (vmod_haf_hom KpB KpZ KpB_hom a) (conj (vto_mont_hom KpB KpZ KpB_hom a) (conj (vfrom_mont_hom KpB KpZ KpB_hom a)
    (conj (vmodp_mont_inv_hom KpB KpZ KpB_hom a) (conj (vmodn_mont_inv_hom KnB KnZ KnB_hom a)
    (vmont_exp_hom KpB KpZ KpB_hom a))))))))))).
Qed.
Print Assumptions C13_big_field_ops_hom.

Theorem C13_big_point_ops_hom : forall P Q A,
  jmap (point_dbl bigZ FpB P) = point_dbl Z FpZ (jmap P) /\
  jmap (point_add bigZ FpB P Q) = point_add Z FpZ (jmap P) (jmap Q) /\
  jmap (point_neg bigZ FpB P) = point_neg Z FpZ (jmap P) /\
  jmap (point_add_affine bigZ FpB P A) = point_add_affine Z FpZ (jmap P) (amap A).
Proof.
  exact (fun P Q A => conj (point_dbl_hom P) (conj (point_add_hom P Q) (conj (point_neg_hom P) (point_add_affine_hom P A)))).
Qed.
Print Assumptions C13_big_point_ops_hom.

(* ---- wave 5: helpers, modn wrappers, exponentiation, square root, shifts ---- *)
Theorem C13_copy_conditional_spec : forall dst src move, z256_ok dst -> z256_ok src -> move = 0 \/ move = 1 ->
  z256_copy_conditional dst src move = if move =? 1 then src else dst.
Proof. exact copy_conditional_spec. Qed.
Print Assumptions C13_copy_conditional_spec.

Theorem C13_bytes_roundtrip : forall bs, length bs = 32%nat -> Forall byte_ok bs ->
  z256_ok (z256_from_bytes bs) /\
  z256_to_bytes (z256_from_bytes bs) = bs /\
  val (z256_from_bytes bs) = fold_left (fun acc b => acc * 256 + b) bs 0.
Proof. exact bytes_roundtrip. Qed.
Print Assumptions C13_bytes_roundtrip.

Theorem C13_rshift_spec : forall a nbits, z256_ok a -> 0 <= nbits ->
  z256_ok (z256_rshift a nbits) /\ val (z256_rshift a nbits) = val a / 2^(nbits mod 64).
Proof. exact rshift_spec. Qed.
Print Assumptions C13_rshift_spec.

(* limb code of modp_haf = value-level model (all operands); with C13_modp_haf_spec: exact halving *)
Theorem C13_modp_haf_limbs : forall a, z256_ok a ->
  z256_ok (z256_modp_haf a) /\ val (z256_modp_haf a) = vmod_haf ZOps KpZ (val a).
Proof. exact modp_haf_limbs. Qed.
Print Assumptions C13_modp_haf_limbs.

Theorem C13_modm_neg_limbs_eq_value : forall m m' negm r2 a, z256_ok m -> z256_ok a ->
  z256_ok (z256_modm_neg m a) /\
  val (z256_modm_neg m a) = vmod_neg ZOps Z.ltb (Kof m m' negm r2) (val a).
Proof. exact modm_neg_limb_eq. Qed.
Print Assumptions C13_modm_neg_limbs_eq_value.

(* the modn family (sm2_z256_modn_to_mont / from_mont / mul / sqr / exp / inv) *)
Theorem C13_to_from_mont_n : forall a, 0 <= a < c_n ->
  frm KnZ Rinv_n (vto_mont ZOps Z.ltb KnZ a) = a /\ 0 <= vto_mont ZOps Z.ltb KnZ a < c_n /\
  vfrom_mont ZOps Z.ltb KnZ a = frm KnZ Rinv_n a.
Proof. exact to_from_mont_n. Qed.
Print Assumptions C13_to_from_mont_n.

Theorem C13_modn_mul_spec : forall a b, 0 <= a < c_n -> 0 <= b < c_n ->
  vmodn_mul ZOps Z.ltb KnZ a b = (a * b) mod c_n.
Proof. exact modn_mul_spec. Qed.
Print Assumptions C13_modn_mul_spec.

Theorem C13_modn_sqr_spec : forall a, 0 <= a < c_n -> vmodn_sqr ZOps Z.ltb KnZ a = (a * a) mod c_n.
Proof. exact modn_sqr_spec. Qed.
Print Assumptions C13_modn_sqr_spec.

Theorem C13_modn_inv_pow : forall a, 0 <= a < c_n -> vmodn_inv ZOps Z.ltb KnZ a = a ^ (c_n - 2) mod c_n.
Proof. exact modn_inv_pow. Qed.
Print Assumptions C13_modn_inv_pow.

Theorem C13_modn_inv_partial :
  (forall x, 0 < x < c_n -> x ^ (c_n - 1) mod c_n = 1) ->
  forall a, 0 < a < c_n -> (vmodn_inv ZOps Z.ltb KnZ a * a) mod c_n = 1.
Proof. exact modn_inv_partial. Qed.
Print Assumptions C13_modn_inv_partial.

(* mont_exp for an arbitrary exponent: the loop reads the 256 low bits of e *)
Theorem C13_modp_mont_exp_spec : forall a e, 0 <= a < c_p -> 0 <= e ->
  let r := vmont_exp ZOps Z.ltb KpZ a e in
  0 <= r < c_p /\ frm KpZ Rinv_p r = (frm KpZ Rinv_p a) ^ (e mod 2^256) mod c_p.
Proof. exact modp_mont_exp_spec. Qed.
Print Assumptions C13_modp_mont_exp_spec.

Theorem C13_modn_mont_exp_spec : forall a e, 0 <= a < c_n -> 0 <= e ->
  let r := vmont_exp ZOps Z.ltb KnZ a e in
  0 <= r < c_n /\ frm KnZ Rinv_n r = (frm KnZ Rinv_n a) ^ (e mod 2^256) mod c_n.
Proof. exact modn_mont_exp_spec. Qed.
Print Assumptions C13_modn_mont_exp_spec.

Theorem C13_modn_exp_spec : forall a e, 0 <= a < c_n -> 0 <= e ->
  vmodn_exp ZOps Z.ltb KnZ a e = a ^ (e mod 2^256) mod c_n.
Proof. exact modn_exp_spec. Qed.
Print Assumptions C13_modn_exp_spec.

(* sm2_z256_modp_mont_sqrt: a returned root is a root; on squares a root is returned (prime + Fermat) *)
Theorem C13_sqrt_sound : forall a r, okp a -> vmodp_mont_sqrt ZOps Z.ltb KpZ a = Some r ->
  okp r /\ eqm c_p (decp r * decp r) (decp a).
Proof. exact sqrt_sound. Qed.
Print Assumptions C13_sqrt_sound.

Theorem C13_sqrt_complete_partial :
  Znumtheory.prime c_p -> (forall x, 0 < x < c_p -> x ^ (c_p - 1) mod c_p = 1) ->
  forall a y, okp a -> 0 <= y < c_p -> decp a = (y * y) mod c_p ->
  exists r, vmodp_mont_sqrt ZOps Z.ltb KpZ a = Some r /\ okp r /\
            (decp r = y \/ (decp r + y) mod c_p = 0).
Proof. exact sqrt_complete. Qed.
Print Assumptions C13_sqrt_complete_partial.

(* negation / subtraction of points *)
Theorem C13_point_neg_represents : forall X Y Zc x y,
  jrepr c_p Z okp decp (X, Y, Zc) x y -> jrepr c_p Z okp decp (point_neg Z FpZ (X, Y, Zc)) x (- y).
Proof. exact point_neg_represents. Qed.
Print Assumptions C13_point_neg_represents.

Theorem C13_point_sub_is_add_neg : forall F (fo : fops F) A B,
  point_sub F fo A B = point_add F fo A (point_neg F fo B) /\
  forall Ba, point_sub_affine F fo A Ba = point_add_affine F fo A (fst Ba, f_neg fo (snd Ba)).
Proof. exact (fun F fo A B => conj (sub_is_add_neg F fo A B) (sub_affine_is_add_neg F fo A)). Qed.
Print Assumptions C13_point_sub_is_add_neg.

(* get_xy / to_bytes on a normalised point *)
Theorem C13_get_xy_normalised : forall x y, 0 <= x < c_p -> 0 <= y < c_p ->
  point_get_xy Z FpZ (vto_mont ZOps Z.ltb KpZ x, vto_mont ZOps Z.ltb KpZ y, knegm KpZ) = (1, x, y) /\
  point_to_uncompressed ZOps Z.ltb KpZ (vto_mont ZOps Z.ltb KpZ x, vto_mont ZOps Z.ltb KpZ y, knegm KpZ) = Some (x, y).
Proof. exact get_xy_normalised. Qed.
Print Assumptions C13_get_xy_normalised.
