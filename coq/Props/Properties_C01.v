(* C01 — SM2 signatures are complete, sound and bound to message, ID and key.
   This file contains only the final statements; every proof is one [exact].
   Models: Ec/SM2Sign.v (Impl models of src/sm2_sign.c over the affine curve Spec of
   Ec/CurveSpec.v), Ec/Sm2Der.v (DER layer).  ZOps = the instance over Z. *)
From GmVerif Require Import Base.Bytes Ec.Num Ec.CurveSpec Hash.MD Hash.SM3
  Ec.Sm2Der Ec.Sm2DerProofs Ec.SM2Sign Ec.SM2SignProofs Ec.SM2Enc Ec.SM2EncProofs Ec.Sm2DerRoundTrip Ec.Sm2Vectors.
Local Open Scope Z_scope.

(* sm2_do_verify / sm2_fast_verify accept only if the GB/T 32918.2 equations hold with
   r, s in [1, n-1] and t = r + s <> 0 *)
Theorem C01_verify_decision_rule : forall (P : point ZOps) (e r s : Z),
  pt_ok P -> 0 <= e < two256 -> 0 <= r -> 0 <= s ->
  do_verify ZOps P e r s = true ->
  1 <= r < n /\ 1 <= s < n /\ (r + s) mod n <> 0 /\
  (e + get_x ZOps (sm2_add ZOps (sm2_mulG ZOps s) (sm2_mul ZOps ((r + s) mod n) P))) mod n = r.
Proof. exact verify_decision_rule. Qed.
Print Assumptions C01_verify_decision_rule.

(* ... and they accept every tuple for which the equations hold *)
Theorem C01_verify_accepts_standard : forall (P : point ZOps) (e r s : Z),
  pt_ok P -> 0 <= e < two256 -> std_verifies P e r s -> do_verify ZOps P e r s = true.
Proof. exact verify_accepts_standard. Qed.
Print Assumptions C01_verify_accepts_standard.

(* sm2_do_sign returns the standard's (r, s) for the first nonce of the entropy stream that
   passes the standard's conditions (k in [1,n-1], r <> 0, r + k <> n, s <> 0); 1 <= r, s < n *)
Theorem C01_sign_eq_standard : forall d e (en : ent) r s rest,
  0 <= d < n - 1 -> 0 <= e < two256 ->
  do_sign ZOps d e en = Some ((r, s), rest) ->
  exists used kb, en = used ++ kb :: rest /\
    Forall (fun b => ~ std_good d e (le_to_Z b)) used /\
    std_good d e (le_to_Z kb) /\
    r = std_r e (le_to_Z kb) /\ s = std_s d e (le_to_Z kb) /\
    1 <= r < n /\ 1 <= s < n.
Proof. exact sign_eq_standard. Qed.
Print Assumptions C01_sign_eq_standard.

(* the ring identity behind sm2_fast_sign: (k + r) d' - r = d' (k - r d) when (1 + d) d' = 1 *)
Theorem C01_fast_sign_alg : forall m k r d inv,
  0 < m -> ((1 + d) * inv) mod m = 1 ->
  ((k + r) * inv - r) mod m = (inv * (k - r * d)) mod m.
Proof. exact fast_sign_alg. Qed.
Print Assumptions C01_fast_sign_alg.

(* sm2_fast_sign (repaired by 05ab786): whatever it returns passed the three retry conditions *)
Theorem C01_fast_sign_checked : forall fd k x1 e r s,
  0 <= k < n -> 0 <= x1 < n -> 0 <= e < two256 ->
  fast_sign fd (k, x1) e = Some (r, s) ->
  1 <= r < n /\ 1 <= s < n /\ r + k <> n.
Proof. exact fast_sign_checked. Qed.
Print Assumptions C01_fast_sign_checked.

(* with (1+d) d' = 1 it returns the standard's pair for its pre-computed nonce, or asks for another
   nonce exactly on the standard's three conditions; it agrees with sm2_do_sign's loop body *)
Theorem C01_fast_sign_eq_standard_partial : forall d e k r s,
  0 <= d < n - 1 -> 0 <= e < two256 -> 1 <= k < n ->
  ((1 + d) * inv_n ZOps (1 + d)) mod n = 1 ->
  fast_sign (inv_n ZOps (1 + d)) (pre_entry ZOps k) e = Some (r, s) ->
  std_good d e k /\ r = std_r e k /\ s = std_s d e k.
Proof. exact fast_sign_eq_standard_partial. Qed.
Print Assumptions C01_fast_sign_eq_standard_partial.

Theorem C01_fast_sign_eq_sign_try_partial : forall d e k,
  0 <= d < n - 1 -> 0 <= e < two256 -> 1 <= k < n ->
  ((1 + d) * inv_n ZOps (1 + d)) mod n = 1 ->
  fast_sign (inv_n ZOps (1 + d)) (pre_entry ZOps k) e =
  sign_try ZOps d (inv_n ZOps (modn_add d 1)) e k.
Proof. exact fast_sign_eq_sign_try_partial. Qed.
Print Assumptions C01_fast_sign_eq_sign_try_partial.

(* sm2_sign_finish returns only signatures that sm2_fast_sign accepted for a pre-computed nonce *)
Theorem C01_sign_finish_sound : forall (NO : numops) c (en : ent) bytes c' en',
  sign_finish NO c en = Some (bytes, c', en') ->
  exists k sg, fast_sign (sc_fast c) (pre_entry NO k) (be_to_Z (sm3_finish (sc_sm3 c))) = Some sg /\
               bytes = sig_bytes sg.
Proof. exact sign_finish_sound. Qed.
Print Assumptions C01_sign_finish_sound.

(* completeness: what sm2_do_sign returns is accepted by sm2_do_verify for the matching public
   key, under the explicit premises that the multiples of G form a cyclic group of order n under
   the affine chord-tangent law, and that the computed (1+d)^-1 is an inverse *)
Theorem C01_verify_sign_partial :
  (forall a b, 0 <= a -> 0 <= b ->
     sm2_add ZOps (sm2_mulG ZOps a) (sm2_mulG ZOps b) = sm2_mulG ZOps ((a + b) mod n)) ->
  (forall a b, 0 <= a -> 0 <= b ->
     sm2_mul ZOps a (sm2_mulG ZOps b) = sm2_mulG ZOps ((a * b) mod n)) ->
  forall d, 0 <= d < n - 1 -> ((1 + d) * inv_n ZOps (1 + d)) mod n = 1 ->
  forall e (en : ent) r s rest, 0 <= e < two256 ->
    do_sign ZOps d e en = Some ((r, s), rest) ->
    do_verify ZOps (sm2_mulG ZOps d) e r s = true.
Proof. exact verify_sign_partial. Qed.
Print Assumptions C01_verify_sign_partial.

Theorem C01_sign_verifies_partial :
  (forall a b, 0 <= a -> 0 <= b ->
     sm2_add ZOps (sm2_mulG ZOps a) (sm2_mulG ZOps b) = sm2_mulG ZOps ((a + b) mod n)) ->
  (forall a b, 0 <= a -> 0 <= b ->
     sm2_mul ZOps a (sm2_mulG ZOps b) = sm2_mulG ZOps ((a * b) mod n)) ->
  forall d, 0 <= d < n - 1 -> ((1 + d) * inv_n ZOps (1 + d)) mod n = 1 ->
  forall e k, 0 <= e < two256 -> std_good d e k ->
    std_verifies (sm2_mulG ZOps d) e (std_r e k) (std_s d e k).
Proof. exact sign_verifies_partial. Qed.
Print Assumptions C01_sign_verifies_partial.

(* what sm2_fast_sign / sm2_sign_finish return verifies, under the same premises *)
Theorem C01_fast_sign_verifies_partial :
  (forall a b, 0 <= a -> 0 <= b ->
     sm2_add ZOps (sm2_mulG ZOps a) (sm2_mulG ZOps b) = sm2_mulG ZOps ((a + b) mod n)) ->
  (forall a b, 0 <= a -> 0 <= b ->
     sm2_mul ZOps a (sm2_mulG ZOps b) = sm2_mulG ZOps ((a * b) mod n)) ->
  forall d, 0 <= d < n - 1 -> ((1 + d) * inv_n ZOps (1 + d)) mod n = 1 ->
  forall e k r s, 0 <= e < two256 -> 1 <= k < n ->
    fast_sign (inv_n ZOps (1 + d)) (pre_entry ZOps k) e = Some (r, s) ->
    do_verify ZOps (sm2_mulG ZOps d) e r s = true.
Proof. exact fast_sign_verifies_partial. Qed.
Print Assumptions C01_fast_sign_verifies_partial.

(* strict DER: whatever sm2_signature_from_der accepts is byte-for-byte what
   sm2_signature_to_der produces for the decoded value, followed by the unread rest *)
Theorem C01_sig_der_canonical : forall inp r s rest,
  bytes_ok inp = true -> sig_from_der inp = Some ((r, s), rest) ->
  inp = sig_to_der r s ++ rest /\ length r = 32%nat /\ length s = 32%nat.
Proof. exact sig_der_canonical. Qed.
Print Assumptions C01_sig_der_canonical.

(* sm2_verify (for every numops instance): accepted => the input is exactly the canonical
   encoding of the (r, s) that passed sm2_do_verify; no trailing byte *)
Theorem C01_verify_der_strict : forall (NO : numops) (P : point NO) e sg,
  bytes_ok sg = true -> sm2_verify NO P e sg = true ->
  exists r s, length r = 32%nat /\ length s = 32%nat /\
    sg = sig_to_der r s /\
    sig_bytes (be_to_Z r, be_to_Z s) = sg /\
    do_verify NO P e (be_to_Z r) (be_to_Z s) = true.
Proof. exact verify_der_strict. Qed.
Print Assumptions C01_verify_der_strict.

Theorem C01_verify_finish_der_strict : forall (NO : numops) (c : verify_ctx NO) sg,
  bytes_ok sg = true -> verify_finish NO c sg = true ->
  exists r s, length r = 32%nat /\ length s = 32%nat /\ sg = sig_to_der r s /\
    do_verify NO (vc_P NO c) (be_to_Z (sm3_finish (vc_sm3 NO c))) (be_to_Z r) (be_to_Z s) = true.
Proof. exact verify_finish_der_strict. Qed.
Print Assumptions C01_verify_finish_der_strict.

(* streaming: the digest is SM3(Z || M) for every chunking (empty chunks included) *)
Theorem C01_stream_digest : forall z (chunks : list (list N)),
  sm3_finish (fold_left upd chunks (sm3_update sm3_init z)) = sm3 (z ++ concat chunks).
Proof. exact stream_digest. Qed.
Print Assumptions C01_stream_digest.

Theorem C01_verify_stream_eq_oneshot : forall (NO : numops) (P : point NO) buf idlen z c chunks sg,
  compute_z NO P buf idlen = ZOk z ->
  verify_init NO P (Some (buf, idlen)) = IOk c ->
  verify_finish NO (fold_left (verify_update NO) chunks c) sg =
  sm2_verify NO P (be_to_Z (sm3 (z ++ concat chunks))) sg.
Proof. exact verify_stream_eq_oneshot. Qed.
Print Assumptions C01_verify_stream_eq_oneshot.

Theorem C01_sign_stream_eq_oneshot : forall (NO : numops) d (P : point NO) buf idlen z en c en1 chunks en2,
  compute_z NO P buf idlen = ZOk z ->
  sign_init NO d P (Some (buf, idlen)) en = IOk (c, en1) ->
  option_map (fun x => fst (fst x)) (sign_finish NO (fold_left sign_update chunks c) en2) =
  option_map (fun x => sig_bytes (fst (fst (fst x))))
    (finish_loop NO (S (32 + length en2)) (sc_fast c) (be_to_Z (sm3 (z ++ concat chunks))) (sc_pre c) 32 en2).
Proof. exact sign_stream_eq_oneshot. Qed.
Print Assumptions C01_sign_stream_eq_oneshot.

(* Z binds exactly the idlen bytes of the ID (sm2_compute_z as repaired by 227cbe8): nothing more,
   nothing less, for every buffer and every idlen in 1..8191 *)
Theorem C01_z_binds_exact_id : forall (NO : numops) (P : point NO) buf idlen z,
  (N.of_nat idlen <= 8191)%N ->
  compute_z NO P buf idlen = ZOk z ->
  z = z_spec NO P (firstn idlen buf).
Proof. exact z_binds_exact_id. Qed.
Print Assumptions C01_z_binds_exact_id.

Theorem C01_z_ignores_bytes_after_id : forall (NO : numops) (P : point NO) buf idlen,
  (idlen <= length buf)%nat ->
  compute_z NO P buf idlen = compute_z NO P (firstn idlen buf) idlen.
Proof. exact z_ignores_bytes_after_id. Qed.
Print Assumptions C01_z_ignores_bytes_after_id.

(* ---- the defects repaired in /repo (227cbe8, 05ab786), as Examples on the OLD code shapes:
   old result, why it violated the property, and what the repaired model answers ---- *)
Example C01_old_compute_z_ignored_idlen :
  let P := sm2_mulG ZOps 1 in
  let buf := (default_id ++ [0])%N in
  compute_z_old ZOps P buf 5 = ZOk (z_spec ZOps P default_id) /\
  z_spec ZOps P (firstn 5 buf) <> z_spec ZOps P default_id /\
  compute_z ZOps P buf 5 = ZOk (z_spec ZOps P (firstn 5 buf)).
Proof. exact old_compute_z_ignored_idlen. Qed.
Print Assumptions C01_old_compute_z_ignored_idlen.

Example C01_old_fast_sign_r0 :
  let e := n - sm2_Gx in
  fst (fast_sign_old wit_fast wit_pc e) = 0 /\
  do_verify ZOps (sm2_mulG ZOps 1) e (fst (fast_sign_old wit_fast wit_pc e)) (snd (fast_sign_old wit_fast wit_pc e)) = false /\
  fast_sign wit_fast wit_pc e = None.
Proof. exact old_fast_sign_r0. Qed.
Print Assumptions C01_old_fast_sign_r0.

Example C01_old_fast_sign_s0 :
  let e := (1 - sm2_Gx) mod n in
  snd (fast_sign_old wit_fast wit_pc e) = 0 /\
  do_verify ZOps (sm2_mulG ZOps 1) e (fst (fast_sign_old wit_fast wit_pc e)) (snd (fast_sign_old wit_fast wit_pc e)) = false /\
  fast_sign wit_fast wit_pc e = None.
Proof. exact old_fast_sign_s0. Qed.
Print Assumptions C01_old_fast_sign_s0.

Example C01_old_fast_sign_rk :
  let e := n - 1 - sm2_Gx in
  fst (fast_sign_old wit_fast wit_pc e) + 1 = n /\
  do_verify ZOps (sm2_mulG ZOps 1) e (fst (fast_sign_old wit_fast wit_pc e)) (snd (fast_sign_old wit_fast wit_pc e)) = false /\
  fast_sign wit_fast wit_pc e = None.
Proof. exact old_fast_sign_rk. Qed.
Print Assumptions C01_old_fast_sign_rk.

(* ---- the decoder accepts the encoder's output; byte-level completeness ---- *)
Theorem C01_sig_der_roundtrip : forall r s rest,
  length r = 32%nat -> length s = 32%nat -> bytes_ok r = true -> bytes_ok s = true ->
  sig_from_der (sig_to_der r s ++ rest) = Some ((r, s), rest).
Proof. exact sig_der_roundtrip. Qed.
Print Assumptions C01_sig_der_roundtrip.

Theorem C01_verify_of_sig_bytes : forall (NO : numops) (P : point NO) e r s,
  0 <= r < two256 -> 0 <= s < two256 ->
  sm2_verify NO P e (sig_bytes (r, s)) = do_verify NO P e r s.
Proof. exact verify_of_sig_bytes. Qed.
Print Assumptions C01_verify_of_sig_bytes.

(* sm2_verify accepts the bytes returned by sm2_sign (same premises as C01_verify_sign_partial) *)
Theorem C01_sm2_verify_sm2_sign_partial :
  (forall a b, 0 <= a -> 0 <= b ->
     sm2_add ZOps (sm2_mulG ZOps a) (sm2_mulG ZOps b) = sm2_mulG ZOps ((a + b) mod n)) ->
  (forall a b, 0 <= a -> 0 <= b ->
     sm2_mul ZOps a (sm2_mulG ZOps b) = sm2_mulG ZOps ((a * b) mod n)) ->
  forall d e (en : ent) sg rest,
    0 <= d < n - 1 -> ((1 + d) * inv_n ZOps (1 + d)) mod n = 1 -> 0 <= e < two256 ->
    sm2_sign ZOps d e en = Some (sg, rest) ->
    sm2_verify ZOps (sm2_mulG ZOps d) e sg = true.
Proof. exact sm2_verify_sm2_sign_partial. Qed.
Print Assumptions C01_sm2_verify_sm2_sign_partial.

(* ---- pins: the GB/T 32918.2 Annex A example is reproduced by the Impl models (BigZ, vm_compute),
   and the premises of the *_partial theorems hold on samples (they are not vacuous) ---- *)
Example C01_std_signature : do_sign BigOps vd ve [rev (to32 vk)] = Some ((vr, vs), []).
Proof. exact std_signature. Qed.
Print Assumptions C01_std_signature.
Example C01_std_signature_verifies : do_verify BigOps (sm2_mulG BigOps vd) ve vr vs = true.
Proof. exact std_signature_verifies. Qed.
Print Assumptions C01_std_signature_verifies.
Example C01_premise_instances :
  eqpt (sm2_add BigOps (sm2_mulG BigOps (n - 3)) (sm2_mulG BigOps 10)) (sm2_mulG BigOps 7) = true /\
  eqpt (sm2_mul BigOps vk (sm2_mulG BigOps vd)) (sm2_mulG BigOps ((vk * vd) mod n)) = true /\
  ((1 + vd) * inv_n BigOps (1 + vd)) mod n = 1.
Proof.
  exact (conj (proj1 (proj2 premise_add_instances))
        (conj (proj1 (proj2 premise_mul_instances)) (proj1 premise_inverse_instances))).
Qed.
Print Assumptions C01_premise_instances.

(* ---- Montgomery's trick as coded in sm2_fast_sign_pre_compute / sm2_encrypt_pre_compute ---- *)
(* one correct inversion of the total product gives every slot the inverse of its own Z (ring algebra mod m) *)
Theorem C01_batch_inv_correct : forall m, 0 < m -> forall (inv : Z -> Z) (zs : list Z),
  (2 <= length zs)%nat ->
  (nth (length zs - 1) (f_list m zs) 0 * inv (nth (length zs - 1) (f_list m zs) 0)) mod m = 1 mod m ->
  forall i, (i < length zs)%nat ->
    (nth i zs 0 * nth i (batch_inv m inv zs) 0) mod m = 1 mod m.
Proof. exact batch_inv_correct. Qed.
Print Assumptions C01_batch_inv_correct.

(* hence all 32 slots of sm2_fast_sign_pre_compute hold (k_i, x([k_i]G) reduced mod n), whatever the
   Jacobian Z coordinates were; premise: the shared inversion (egcd here, a^(p-2) in C) is correct *)
Theorem C01_fast_pre_compute_eq_partial : forall zs (en : ent) ks en',
  draw_ks 32 en = Some (ks, en') ->
  (let Zs := map (fun i => jac_Z ZOps (sm2_mulG ZOps (nth i ks 0)) (nth i zs 1)) (seq 0 32) in
   let T := nth 31 (f_list sm2_p Zs) 0 in (T * inv_p ZOps T) mod sm2_p = 1 mod sm2_p) ->
  fast_pre_compute ZOps zs en = Some (map (pre_entry ZOps) ks, en').
Proof. exact fast_pre_compute_eq_partial. Qed.
Print Assumptions C01_fast_pre_compute_eq_partial.

(* ---- wave 5: key objects, fixed-length signing, context reset ---- *)
Theorem C01_key_generate_sound : forall (NO : numops) (en : ent) d P rest,
  key_generate NO en = Some (d, P, rest) ->
  1 <= d <= n - 2 /\ P = sm2_mulG NO d /\
  exists used b, en = used ++ b :: rest /\ d = le_to_Z b.
Proof. exact key_generate_sound. Qed.
Print Assumptions C01_key_generate_sound.

Theorem C01_key_set_private_spec : forall (NO : numops) d, 0 <= d ->
  key_set_private NO d = if (1 <=? d) && (d <=? n - 2) then Some (d, sm2_mulG NO d) else None.
Proof. exact key_set_private_spec. Qed.
Print Assumptions C01_key_set_private_spec.

Theorem C01_fast_key_spec : forall (NO : numops) d, 0 <= d ->
  fast_key NO d = if d <? n - 1 then Some (inv_n NO (1 + d)) else None.
Proof. exact fast_key_spec. Qed.
Print Assumptions C01_fast_key_spec.

Theorem C01_public_key_digest_spec : forall (NO : numops) x y,
  public_key_digest NO (Some (x, y)) = Some (sm3 (4%N :: point_bytes NO (Some (x, y)))).
Proof. exact public_key_digest_spec. Qed.
Print Assumptions C01_public_key_digest_spec.

Theorem C01_signature_print_strict : forall a,
  bytes_ok a = true -> signature_print_ok a = true ->
  exists r s, length r = 32%nat /\ length s = 32%nat /\ a = sig_to_der r s.
Proof. exact signature_print_strict. Qed.
Print Assumptions C01_signature_print_strict.

(* sm2_sign_fixlen returns an ordinary sm2_sign output of the requested length, made from a later
   part of the same entropy stream *)
Theorem C01_sign_fixlen_sound : forall (NO : numops) d e siglen (en : ent) sg rest,
  sm2_sign_fixlen NO d e siglen en = Some (sg, rest) ->
  (siglen = 70 \/ siglen = 71 \/ siglen = 72)%nat /\ length sg = siglen /\
  exists en1, is_suffix en1 en /\ sm2_sign NO d e en1 = Some (sg, rest).
Proof. exact sign_fixlen_sound. Qed.
Print Assumptions C01_sign_fixlen_sound.

Theorem C01_sign_finish_fixlen_stream : forall (NO : numops) d (P : point NO) buf idlen z en c en1 chunks siglen en2,
  compute_z NO P buf idlen = ZOk z ->
  sign_init NO d P (Some (buf, idlen)) en = IOk (c, en1) ->
  sign_finish_fixlen NO (fold_left sign_update chunks c) siglen en2 =
  if Nat.eqb siglen 0 then None
  else sm2_sign_fixlen NO d (be_to_Z (sm3 (z ++ concat chunks))) siglen en2.
Proof. exact sign_finish_fixlen_stream. Qed.
Print Assumptions C01_sign_finish_fixlen_stream.

(* reset: the next message of a reused context is hashed as SM3(Z || M2) again *)
Theorem C01_sign_reset_stream : forall (NO : numops) d (P : point NO) buf idlen z en c en1 chunks1 chunks2,
  compute_z NO P buf idlen = ZOk z ->
  sign_init NO d P (Some (buf, idlen)) en = IOk (c, en1) ->
  sm3_finish (sc_sm3 (fold_left sign_update chunks2 (sign_reset (fold_left sign_update chunks1 c)))) =
  sm3 (z ++ concat chunks2).
Proof. exact sign_reset_stream. Qed.
Print Assumptions C01_sign_reset_stream.

Theorem C01_verify_reset_stream : forall (NO : numops) (P : point NO) buf idlen z c chunks1 chunks2,
  compute_z NO P buf idlen = ZOk z ->
  verify_init NO P (Some (buf, idlen)) = IOk c ->
  sm3_finish (vc_sm3 NO (fold_left (verify_update NO) chunks2
                           (verify_reset NO (fold_left (verify_update NO) chunks1 c)))) =
  sm3 (z ++ concat chunks2).
Proof. exact verify_reset_stream. Qed.
Print Assumptions C01_verify_reset_stream.
