(* C16 — CMS messages round-trip for every signer/recipient set and reject tampering.
   Only final statements; every proof is one [exact].  The model is symbolic in the
   cryptography and concrete in the control flow of src/cms.c (see Pki/Cms.v). *)
From Coq Require Import NArith List Bool.
From GmVerif Require Import Pki.Cms Pki.CmsProofs Pki.X509Codec Pki.X509CodecProofs Pki.CmsCodec Pki.CmsCodecProofs.
Import ListNotations.
Open Scope N_scope.

Theorem C16_sign_verify_roundtrip : forall signers c,
  signers <> [] -> Forall signer_ok signers -> certs_consistent (map s_cert signers) ->
  exists sd, cms_sign repaired signers c = Some sd /\ cms_verify sd = Some (c, map s_cert signers).
Proof. exact (fun signers c => sign_verify_roundtrip repaired signers c eq_refl). Qed.
Print Assumptions C16_sign_verify_roundtrip.

Theorem C16_multi_signer_refuted_legacy :
  exists signers c, signers <> [] /\ Forall signer_ok signers /\ certs_consistent (map s_cert signers) /\
    exists sd, cms_sign legacy signers c = Some sd /\ cms_verify sd = None.
Proof. exact multi_signer_refuted_legacy. Qed.
Print Assumptions C16_multi_signer_refuted_legacy.

Theorem C16_no_signer_no_verify : forall sd, sd_infos sd = [] -> cms_verify sd = None.
Proof. exact no_signer_no_verify. Qed.
Print Assumptions C16_no_signer_no_verify.

Theorem C16_verify_decision_rule : forall sd c cs, cms_verify sd = Some (c, cs) ->
  c = sd_content sd /\ cs = sd_certs sd /\ sd_infos sd <> [] /\
  forall i, In i (sd_infos sd) -> exists sc, find_cert (sd_certs sd) (fst i) = Some sc /\
     pub_of (fst (snd i)) = c_pub sc /\ snd (snd i) = c.
Proof. exact verify_decision_rule. Qed.
Print Assumptions C16_verify_decision_rule.

Theorem C16_signed_content_change_rejected : forall f signers c c' sd,
  cms_sign f signers c = Some sd -> c' <> c ->
  cms_verify (mk_signed c' (sd_certs sd) (sd_infos sd)) = None.
Proof. exact signed_content_change_rejected. Qed.
Print Assumptions C16_signed_content_change_rejected.

Theorem C16_recipient_opens : forall rcpts c k key iv ct,
  certs_consistent rcpts -> In c rcpts -> pub_of (k_priv k) = c_pub c -> k_pub k = c_pub c ->
  exists ed, cms_envelop rcpts key iv ct = Some ed /\ cms_deenvelop repaired ed k c = Some ct.
Proof. exact (fun rcpts c k key iv ct => recipient_opens repaired rcpts c k key iv ct eq_refl). Qed.
Print Assumptions C16_recipient_opens.

Theorem C16_recipient_opens_refuted_legacy :
  exists rcpts c k key iv ct, certs_consistent rcpts /\ In c rcpts /\ pub_of (k_priv k) = c_pub c /\ k_pub k = c_pub c /\
    exists ed, cms_envelop rcpts key iv ct = Some ed /\ cms_deenvelop legacy ed k c = None.
Proof. exact recipient_opens_refuted_legacy. Qed.
Print Assumptions C16_recipient_opens_refuted_legacy.

Theorem C16_wrong_recipient_fails : forall f ed k c,
  ~ In (c_id c) (map fst (ed_rcpts ed)) -> cms_deenvelop f ed k c = None.
Proof. exact wrong_recipient_fails. Qed.
Print Assumptions C16_wrong_recipient_fails.

Theorem C16_wrong_private_key_fails : forall f rcpts c k key iv ct ed,
  cms_envelop rcpts key iv ct = Some ed -> certs_consistent rcpts -> In c rcpts ->
  pub_of (k_priv k) <> c_pub c -> cms_deenvelop f ed k c = None.
Proof. exact wrong_private_key_fails. Qed.
Print Assumptions C16_wrong_private_key_fails.

Theorem C16_encrypt_decrypt_roundtrip : forall key iv c, cms_decrypt key (cms_encrypt key iv c) = Some c.
Proof. exact encrypt_decrypt_roundtrip. Qed.
Print Assumptions C16_encrypt_decrypt_roundtrip.

Theorem C16_sign_and_envelop_roundtrip : forall signers rcpts c k key iv ct crls,
  signers <> [] -> Forall signer_ok signers -> certs_consistent (map s_cert signers) ->
  certs_consistent rcpts -> In c rcpts -> pub_of (k_priv k) = c_pub c -> k_pub k = c_pub c ->
  exists m, cms_sign_and_envelop repaired signers rcpts key iv ct crls = Some m /\
            cms_deenvelop_and_verify repaired m k c = Some ct.
Proof. exact (fun signers rcpts c k key iv ct crls => sign_and_envelop_roundtrip repaired signers rcpts c k key iv ct crls eq_refl eq_refl eq_refl). Qed.
Print Assumptions C16_sign_and_envelop_roundtrip.

Theorem C16_sign_and_envelop_without_crls_refuted_legacy :
  forall signers rcpts key iv ct, cms_sign_and_envelop legacy signers rcpts key iv ct false = None.
Proof. exact sign_and_envelop_without_crls_refuted_legacy. Qed.
Print Assumptions C16_sign_and_envelop_without_crls_refuted_legacy.

(* signer certificate / recipient info selection by (issuer, serial): x509_certs_get_cert_by_
   issuer_and_serial_number and the match in cms_recipient_info_decrypt_from_der.  Found means the
   first element whose issuer AND serial are byte-for-byte the wanted ones; an element whose serial
   is a proper prefix or extension is passed over.  ([c_id] of Pki/Cms.v abstracts such a pair.) *)
Theorem C16_lookup_by_issuer_serial_exact : forall A (l : list (keyed A)) issuer serial a,
  find_by_issuer_serial l issuer serial = FHit a <->
  exists pre post, l = pre ++ Some (issuer, serial, a) :: post /\
    Forall (fun e => exists i s x, e = Some (i, s, x) /\ ~ (i = issuer /\ s = serial)) pre.
Proof. exact find_by_issuer_serial_hit. Qed.
Print Assumptions C16_lookup_by_issuer_serial_exact.

Theorem C16_lookup_by_issuer_serial_none : forall A (l : list (keyed A)) issuer serial,
  find_by_issuer_serial l issuer serial = FNone <->
  Forall (fun e => exists i s x, e = Some (i, s, x) /\ ~ (i = issuer /\ s = serial)) l.
Proof. exact find_by_issuer_serial_none. Qed.
Print Assumptions C16_lookup_by_issuer_serial_none.

Theorem C16_prefix_serial_is_skipped : forall A (l : list (keyed A)) issuer serial extra x,
  extra <> [] ->
  find_by_issuer_serial (Some (issuer, serial ++ extra, x) :: l) issuer serial = find_by_issuer_serial l issuer serial /\
  find_by_issuer_serial (Some (issuer, serial, x) :: l) issuer (serial ++ extra) = find_by_issuer_serial l issuer (serial ++ extra).
Proof. exact prefix_serial_is_skipped. Qed.
Print Assumptions C16_prefix_serial_is_skipped.

(* ---- the DER layer of the messages (Pki/CmsCodec.v): what the low-level writers cms_*_to_der emit is a
   SEQUENCE over positional fields, and each structure reads back field by field through the layout its
   reader walks.  The byte-level models are compared with the library on every run (op cmsenc); the
   readers' own models and their memory-safety theorems are C06/C14's (Codec/Cms.v). *)
Theorem C16_der_issuer_and_serial_roundtrip : forall issuer serial e,
  serial <> [] ->
  ias_to_der (Some issuer) (Some serial) = Some e -> len e < 2147483648 ->
  struct_from_der ias_layout e = Some [Some (T_SEQ, issuer); Some (T_INT, integer_content serial)].
Proof. exact ias_roundtrip. Qed.
Print Assumptions C16_der_issuer_and_serial_roundtrip.

Theorem C16_der_signer_info_roundtrip : forall issuer serial iasc da authed sa sig unauthed e,
  ias_to_der issuer serial = Some (tlv T_SEQ iasc) ->
  signer_info_to_der 1 issuer serial (Some (tlv T_SEQ da)) authed (Some (tlv T_SEQ sa)) (Some sig) unauthed = Some e ->
  len e < 2147483648 ->
  struct_from_der signer_info_layout e =
    Some [Some (T_INT, [1]); Some (T_SEQ, iasc); Some (T_SEQ, da); opt_value (T_CTX 0) authed;
          Some (T_SEQ, sa); Some (T_OCT, sig); opt_value (T_CTX 1) unauthed].
Proof. exact signer_info_roundtrip. Qed.
Print Assumptions C16_der_signer_info_roundtrip.

Theorem C16_der_recipient_info_roundtrip : forall issuer serial iasc pa ek e,
  ias_to_der issuer serial = Some (tlv T_SEQ iasc) ->
  recipient_info_to_der 1 issuer serial (Some (tlv T_SEQ pa)) (Some ek) = Some e ->
  len e < 2147483648 ->
  struct_from_der recipient_info_layout e =
    Some [Some (T_INT, [1]); Some (T_SEQ, iasc); Some (T_SEQ, pa); Some (T_OCT, ek)].
Proof. exact recipient_info_roundtrip. Qed.
Print Assumptions C16_der_recipient_info_roundtrip.

Theorem C16_der_signed_data_roundtrip : forall dalgs dc cic certs crls sis e,
  digest_algors_to_der dalgs = Some (tlv T_SET dc) -> sis <> [] ->
  signed_data_to_der 1 dalgs (Some (tlv T_SEQ cic)) certs crls (Some sis) = Some e ->
  len e < 2147483648 ->
  struct_from_der signed_data_layout e =
    Some [Some (T_INT, [1]); Some (T_SET, dc); Some (T_SEQ, cic); opt_value (T_CTX 0) certs;
          opt_value (T_CTX 1) crls; Some (T_SET, sis)].
Proof. exact signed_data_roundtrip. Qed.
Print Assumptions C16_der_signed_data_roundtrip.

Theorem C16_der_enveloped_data_roundtrip : forall ris ecic e,
  ris <> [] ->
  enveloped_data_to_der 1 (Some ris) (Some (tlv T_SEQ ecic)) = Some e -> len e < 2147483648 ->
  struct_from_der enveloped_data_layout e = Some [Some (T_INT, [1]); Some (T_SET, ris); Some (T_SEQ, ecic)].
Proof. exact enveloped_data_roundtrip. Qed.
Print Assumptions C16_der_enveloped_data_roundtrip.

Theorem C16_der_signed_and_enveloped_data_roundtrip : forall ris dalgs dc ecic certs crls sis e,
  ris <> [] -> sis <> [] -> digest_algors_to_der dalgs = Some (tlv T_SET dc) ->
  signed_and_enveloped_data_to_der 1 (Some ris) dalgs (Some (tlv T_SEQ ecic)) certs crls (Some sis) = Some e ->
  len e < 2147483648 ->
  struct_from_der signed_and_enveloped_data_layout e =
    Some [Some (T_INT, [1]); Some (T_SET, ris); Some (T_SET, dc); Some (T_SEQ, ecic);
          opt_value (T_CTX 0) certs; opt_value (T_CTX 1) crls; Some (T_SET, sis)].
Proof. exact signed_and_enveloped_data_roundtrip. Qed.
Print Assumptions C16_der_signed_and_enveloped_data_roundtrip.

(* the writers refuse what no reader could hand back: a missing or empty SET of signer / recipient infos,
   a missing issuer or serial number, another SignerInfo / RecipientInfo version *)
Theorem C16_der_writers_refuse : forall issuer serial dalgs ci certs crls eci v da au sa sg un pa ek,
  signed_data_to_der v dalgs ci certs crls None = None /\
  signed_data_to_der v dalgs ci certs crls (Some []) = None /\
  enveloped_data_to_der v None eci = None /\
  enveloped_data_to_der v (Some []) eci = None /\
  ias_to_der None serial = None /\ ias_to_der issuer None = None /\ ias_to_der issuer (Some []) = None /\
  (v <> 1 -> signer_info_to_der v issuer serial da au sa sg un = None) /\
  (v <> 1 -> recipient_info_to_der v issuer serial pa ek = None).
Proof. exact encoders_refuse. Qed.
Print Assumptions C16_der_writers_refuse.
