(* C04 (AEAD / stream-cipher half: GF(2^128)/GHASH, GCM, CCM, AES, ZUC, ChaCha20) -- final statements only.
   Theorems over all inputs of the models; the remaining Impl-vs-Spec relations are compared at run
   time by the C04b correspondence (listed in the evidence assumptions).  What the code computed
   before commits a37c004 / 27e8567 / d8f414a / fef12f3 is recorded as Examples in CCMProofs.v. *)
From GmVerif Require Import Base.ListX Base.Bytes Hash.MD Cipher.SM4 Cipher.GF128 Cipher.GF128Proofs Cipher.GF128Comm Cipher.GCM
  Cipher.CCM Cipher.AES Cipher.AESProofs Cipher.ZUC Cipher.ZUCProofs Cipher.ChaCha Cipher.ChaChaProofs Cipher.Aead Cipher.AeadProofs Cipher.GCMProofs Cipher.CCMProofs Cipher.AeadInstProofs.

(* ---- GF(2^128) ---- *)
Theorem C04b_gf128_mul_spec :
  forall a b : N, gf_mul_horner a b = gf_mul_alg1 a b.
Proof. exact gf_mul_horner_eq_alg1. Qed.
Print Assumptions C04b_gf128_mul_spec.

Theorem C04b_gf128_mul_linear :
  forall a a' b : N,
  gf_mul_horner (N.lxor a a') b = N.lxor (gf_mul_horner a b) (gf_mul_horner a' b).
Proof. exact gf_mul_horner_lxor_l. Qed.
Print Assumptions C04b_gf128_mul_linear.

(* the two-limb loop of src/gf128.c on (lo, hi) 64-bit words = that product on r0 + 2^64 r1 *)
Theorem C04b_gf128_mul_limbs :
  forall a b : gf, L64 (fst a) -> L64 (snd a) -> L64 (fst b) -> L64 (snd b) ->
  poly (gf128_mul a b) = gf_mul_horner (poly a) (poly b) /\
  L64 (fst (gf128_mul a b)) /\ L64 (snd (gf128_mul a b)).
Proof. exact gf128_mul_eq_horner. Qed.
Print Assumptions C04b_gf128_mul_limbs.

(* GHASH as coded (limb pairs, gf128_from_bytes bit reversal) = GHASH over the polynomial product *)
Theorem C04b_ghash_as_coded_eq_poly :
  forall H, limbs_ok H -> forall k X d, limbs_ok X ->
  poly (MD.foldn gf (ghash_step H) 16 k X d) = ghash_poly k (poly H) (poly X) d /\
  limbs_ok (MD.foldn gf (ghash_step H) 16 k X d).
Proof. exact ghash_foldn_poly. Qed.
Print Assumptions C04b_ghash_as_coded_eq_poly.

Theorem C04b_gf_from_bytes_limbs_ok : forall p, limbs_ok (gf_from_bytes p).
Proof. exact gf_from_bytes_ok. Qed.
Print Assumptions C04b_gf_from_bytes_limbs_ok.

Theorem C04b_gf128_mul_by_2 :
  forall a : gf, L64 (fst a) -> L64 (snd a) ->
  poly (gf128_mul_by_2 a) = xtime (poly a) /\ L64 (fst (gf128_mul_by_2 a)) /\ L64 (snd (gf128_mul_by_2 a)).
Proof. exact gf128_mul_by_2_poly. Qed.
Print Assumptions C04b_gf128_mul_by_2.

Theorem C04b_gf128_one_is_unit : forall a : N, gf_mul_horner a (poly gf_one) = a.
Proof. exact gf_mul_horner_one. Qed.
Print Assumptions C04b_gf128_one_is_unit.

(* ghash() as coded = GHASH_H(A || 0* || C || 0* || [len A]_64 || [len C]_64) of SP 800-38D *)
Theorem C04b_ghash_eq_sp800_38d : forall h aad c : list N, ghash h aad c = ghash_spec h aad c.
Proof. exact ghash_eq_spec. Qed.
Print Assumptions C04b_ghash_eq_sp800_38d.

(* ---- GHASH: incremental = one-shot for every chunking ---- *)
Theorem C04b_ghash_stream :
  forall (h aad : list N) (chunks : list (list N)),
  ghash_finish (fold_left ghash_update chunks (ghash_init h aad)) = ghash h aad (concat chunks).
Proof. exact ghash_stream. Qed.
Print Assumptions C04b_ghash_stream.

(* ---- GCM: decrypt inverts encrypt; streaming decrypt = one-shot decrypt for every chunking ---- *)
Theorem C04b_gcm_dec_enc :
  forall E, (forall x, length (E x) = 16%nat) ->
  forall iv aad taglen chk p c t,
  gcm_encrypt E chk iv aad p taglen = Ok (c, t) -> gcm_decrypt E chk iv aad c t = Ok p.
Proof. exact gcm_dec_accepts_enc. Qed.
Print Assumptions C04b_gcm_dec_enc.

Theorem C04b_gcm_decrypt_stream_eq_oneshot :
  forall E, (forall x, length (E x) = 16%nat) ->
  forall iv aad taglen, gcm_iv_ok (length iv) && gcm_tag_ok taglen = true ->
  forall chunks, (N.of_nat (length (concat chunks)) <= int_max)%N ->
  (taglen <= length (concat chunks))%nat ->
  let all := concat chunks in
  gcm_decrypt_stream E 16 iv aad taglen chunks =
  gcm_decrypt E true iv aad (firstn (length all - taglen) all) (skipn (length all - taglen) all).
Proof. exact gcm_stream_eq_oneshot. Qed.
Print Assumptions C04b_gcm_decrypt_stream_eq_oneshot.

(* the one-shot function as coded (byte-carry counter, GHASH loops, J0) = SP 800-38D section 7 *)
Theorem C04b_gcm_eq_sp800_38d :
  forall E, (forall x, length (E x) = 16%nat) ->
  forall chk iv aad p t r, bytes_ok iv = true ->
  gcm_encrypt E chk iv aad p t = Ok r -> r = gcm_spec_encrypt E iv aad p t.
Proof. exact gcm_eq_sp800_38d. Qed.
Print Assumptions C04b_gcm_eq_sp800_38d.

(* encrypt side: init / update* / finish under every chunking = the one-shot function *)
Theorem C04b_gcm_encrypt_stream_eq_oneshot :
  forall E iv aad taglen, gcm_iv_ok (length iv) && gcm_tag_ok taglen = true ->
  forall chunks, (N.of_nat (length (concat chunks)) <= int_max)%N ->
  gcm_encrypt_stream E 16 iv aad taglen chunks =
  match gcm_encrypt E true iv aad (concat chunks) taglen with
  | Ok (c, t) => Ok (c ++ t)
  | _ => Err
  end.
Proof. exact gcm_encrypt_stream_eq_oneshot. Qed.
Print Assumptions C04b_gcm_encrypt_stream_eq_oneshot.

(* sm4_gcm_decrypt_update reads only its input, for every tag length, window state and chunk *)
Theorem C04b_gcm_dec_update_reads_in_bounds :
  forall (c : gcm_ctx) (d : list N), gcm_dec_update_overread c d = 0%nat.
Proof. exact gcm_dec_update_reads_in_bounds. Qed.
Print Assumptions C04b_gcm_dec_update_reads_in_bounds.

(* ---- CCM: the code computes the RFC 3610 function and decrypt inverts encrypt ---- *)
Theorem C04b_ccm_eq_rfc3610 :
  forall E iv aad p M r,
  ccm_encrypt E iv aad p M = Ok r -> r = ccm_spec_encrypt E iv aad p M.
Proof. exact ccm_eq_rfc3610. Qed.
Print Assumptions C04b_ccm_eq_rfc3610.

Theorem C04b_ccm_dec_enc :
  forall E iv aad, (forall x, length (E x) = 16%nat) ->
  forall p taglen c tag,
  ccm_encrypt E iv aad p taglen = Ok (c, tag) -> ccm_decrypt E iv aad c tag = Ok p.
Proof. exact ccm_dec_accepts_enc. Qed.
Print Assumptions C04b_ccm_dec_enc.

(* ---- ZUC: zuc_encrypt reads exactly its input, for every length ---- *)
Theorem C04b_zuc_encrypt_reads_in_bounds :
  forall inlen, zuc_encrypt_overread inlen = 0%nat.
Proof. exact zuc_encrypt_reads_in_bounds. Qed.
Print Assumptions C04b_zuc_encrypt_reads_in_bounds.

(* ZUC_CTX init / update* / finish under every chunking = one call of zuc_encrypt *)
Theorem C04b_zuc_encrypt_stream :
  forall key iv chunks,
  let '(c, out) := zrun (zuc_encrypt_init key iv) chunks [] in
  out ++ zuc_encrypt_finish c
  = snd (zuc_encrypt (length (concat chunks)) (zuc_init key iv) (concat chunks)).
Proof. exact zuc_encrypt_stream. Qed.
Print Assumptions C04b_zuc_encrypt_stream.

(* the LFSR cells stay 31-bit values under both LFSR modes *)
Theorem C04b_zuc_lfsr_init_mode_range :
  forall l u, Forall c31 l -> c31 u -> Forall c31 (lfsr_init_mode l u).
Proof. exact lfsr_init_mode_c31. Qed.
Print Assumptions C04b_zuc_lfsr_init_mode_range.

Theorem C04b_zuc_lfsr_work_mode_range :
  forall l, Forall c31 l -> Forall c31 (lfsr_work_mode l).
Proof. exact lfsr_work_mode_c31. Qed.
Print Assumptions C04b_zuc_lfsr_work_mode_range.

Theorem C04b_zuc_mac_stream :
  forall key iv chunks tail nbits,
  zuc_mac_finish (fold_left zuc_mac_update chunks (zuc_mac_init key iv)) tail nbits =
  zuc_mac_finish (zuc_mac_init key iv) (concat chunks ++ tail) (8 * length (concat chunks) + nbits).
Proof. exact zuc_mac_stream. Qed.
Print Assumptions C04b_zuc_mac_stream.

Theorem C04b_zuc256_mac_stream :
  forall key iv macbits chunks tail nbits,
  zuc256_mac_finish (fold_left zuc256_mac_update chunks (zuc256_mac_init key iv macbits)) tail nbits =
  zuc256_mac_finish (zuc256_mac_init key iv macbits) (concat chunks ++ tail) (8 * length (concat chunks) + nbits).
Proof. exact zuc256_mac_stream. Qed.
Print Assumptions C04b_zuc256_mac_stream.

(* ---- the HMAC modes, encrypt side: streaming under every chunking = the whole-message form ---- *)
Theorem C04b_cbc_hmac_encrypt_stream :
  forall key iv aad chunks,
  sm4_cbc_sm3_hmac_encrypt key iv aad chunks = cbc_hmac_spec_encrypt key iv aad (concat chunks).
Proof. exact sm4_cbc_sm3_hmac_encrypt_stream. Qed.
Print Assumptions C04b_cbc_hmac_encrypt_stream.

Theorem C04b_ctr_hmac_encrypt_stream :
  forall key iv aad chunks,
  sm4_ctr_sm3_hmac_encrypt key iv aad chunks = ctr_hmac_spec_encrypt key iv aad (concat chunks).
Proof. exact sm4_ctr_sm3_hmac_encrypt_stream. Qed.
Print Assumptions C04b_ctr_hmac_encrypt_stream.

(* ---- aes_modes.c ---- *)
Theorem C04b_aes_cbc_padding_dec_enc :
  forall key, (length key = 16 \/ length key = 24 \/ length key = 32)%nat ->
  forall iv p, blk_ok iv -> bytes_ok p = true ->
  cbc_pad_decrypt (aes_decrypt_block key) false iv (cbc_pad_encrypt (aes_encrypt_block16 key) iv p) = Ok p.
Proof. exact aes_cbc_pad_dec_enc. Qed.
Print Assumptions C04b_aes_cbc_padding_dec_enc.

Theorem C04b_aes_ctr_involution :
  forall key, (length key = 16 \/ length key = 24 \/ length key = 32)%nat ->
  forall ctr d, ctr128_crypt (aes_encrypt_block16 key) ctr (ctr128_crypt (aes_encrypt_block16 key) ctr d) = d.
Proof. exact aes_ctr_invol. Qed.
Print Assumptions C04b_aes_ctr_involution.

Theorem C04b_aes_gcm_dec_enc :
  forall key, (length key = 16 \/ length key = 24 \/ length key = 32)%nat ->
  forall iv aad taglen p c t,
  aes_gcm_encrypt key iv aad p taglen = Ok (c, t) -> aes_gcm_decrypt key iv aad c t = Ok p.
Proof. exact aes_gcm_dec_accepts_enc. Qed.
Print Assumptions C04b_aes_gcm_dec_enc.

(* ---- AES: decryption inverts encryption for every key of 16/24/32 bytes and every block ---- *)
Theorem C04b_aes_dec_enc :
  forall key blk : list N,
  (length key = 16 \/ length key = 24 \/ length key = 32)%nat ->
  length blk = 16%nat -> Forall (fun b => (b < 256)%N) blk ->
  aes_decrypt_block key (aes_encrypt_block key blk) = blk.
Proof. exact aes_dec_enc. Qed.
Print Assumptions C04b_aes_dec_enc.

(* ---- AES: finite sweeps (all 256 bytes) used by the theorem above ---- *)
Theorem C04b_aes_sbox_is_fips197 :
  forallb (fun b => N.eqb (S_box b) (sbox_spec b)) bytes256 = true.
Proof. exact aes_S_spec. Qed.
Print Assumptions C04b_aes_sbox_is_fips197.

Theorem C04b_aes_sbox_inverse :
  forallb (fun b => N.eqb (S_inv_box (S_box b)) b) bytes256 = true.
Proof. exact aes_S_inv_S. Qed.
Print Assumptions C04b_aes_sbox_inverse.

Theorem C04b_aes_shift_rows_inverse :
  forall s : list N, length s = 16%nat -> inv_shift_rows (shift_rows s) = s.
Proof. exact aes_shift_rows_inv. Qed.
Print Assumptions C04b_aes_shift_rows_inverse.

(* ---- ChaCha20 (src/chacha20.c) ---- *)
(* chacha20_generate_keystream(state, counts, out) on a context built by chacha20_init: the bytes are
   RFC 8439's keystream -- the block function at counters c, c+1, ..., c+counts-1 (the uint32_t
   counter wraps modulo 2^32) -- and the context left behind is the one for counter c+counts *)
Theorem C04b_chacha20_keystream_is_rfc8439_blocks :
  forall key nonce n c,
  chacha20_keystream n (chacha20_init key nonce c) =
  (chacha20_init key nonce (c + N.of_nat n),
   flat_map (fun i => chacha20_block (chacha20_init key nonce (c + N.of_nat i))) (seq 0 n)).
Proof. exact keystream_blocks. Qed.
Print Assumptions C04b_chacha20_keystream_is_rfc8439_blocks.

(* chunking invariance from any 16-word context: one call for n+m blocks = a call for n, then one for m *)
Theorem C04b_chacha20_keystream_chunking :
  forall n m st,
  chacha20_keystream (n + m) st =
  let '(st1, r1) := chacha20_keystream n st in
  let '(st2, r2) := chacha20_keystream m st1 in (st2, r1 ++ r2).
Proof. exact keystream_app. Qed.
Print Assumptions C04b_chacha20_keystream_chunking.

(* exactly 64*counts bytes are produced and the context keeps its 16 words *)
Theorem C04b_chacha20_keystream_length :
  forall n st, length st = 16%nat ->
  length (snd (chacha20_keystream n st)) = (64 * n)%nat /\ length (fst (chacha20_keystream n st)) = 16%nat.
Proof. exact keystream_length. Qed.
Print Assumptions C04b_chacha20_keystream_length.

(* state->d[12]++ changes word 12 only, by +1 modulo 2^32 *)
Theorem C04b_chacha20_counter_step :
  forall s i, length s = 16%nat -> (i < 16)%nat ->
  nth i (bump s) 0%N = if (i =? 12)%nat then add32 (nth i s 0%N) 1%N else nth i s 0%N.
Proof. exact bump_nth. Qed.
Print Assumptions C04b_chacha20_counter_step.

(* the counter argument is taken modulo 2^32 *)
Theorem C04b_chacha20_counter_wraps :
  forall key nonce c, chacha20_init key nonce (c mod 2 ^ 32)%N = chacha20_init key nonce c.
Proof. exact init_counter_mod. Qed.
Print Assumptions C04b_chacha20_counter_wraps.

(* ---- ZUC / ZUC-256 keystream generator: splitting the request (src/zuc.c zuc_generate_keystream,
        zuc_generate_keyword, zuc256_generate_keystream = the same loop) ---- *)
Theorem C04b_zuc_keystream_chunking :
  forall n m s,
  zuc_keystream (n + m) s =
  let '(s1, z1) := zuc_keystream n s in
  let '(s2, z2) := zuc_keystream m s1 in (s2, z1 ++ z2).
Proof. exact zuc_keystream_app. Qed.
Print Assumptions C04b_zuc_keystream_chunking.

Theorem C04b_zuc_keyword_is_one_word_keystream :
  forall s, zuc_keystream 1 s = let '(s1, z) := zuc_keyword s in (s1, [z]).
Proof. exact zuc_keystream_one. Qed.
Print Assumptions C04b_zuc_keyword_is_one_word_keystream.

Theorem C04b_zuc_keystream_length :
  forall n s, length (snd (zuc_keystream n s)) = n.
Proof. exact zuc_keystream_length. Qed.
Print Assumptions C04b_zuc_keystream_length.

(* ---- GF(2^128) product: bilinear and commutative ---- *)
Theorem C04b_gf128_mul_linear_r :
  forall a b b' : N,
  gf_mul_horner a (N.lxor b b') = N.lxor (gf_mul_horner a b) (gf_mul_horner a b').
Proof. exact gf_mul_horner_lxor_r. Qed.
Print Assumptions C04b_gf128_mul_linear_r.

Theorem C04b_gf128_mul_zero_r :
  forall a : N, gf_mul_horner a 0 = 0%N.
Proof. exact gf_mul_horner_0_r. Qed.
Print Assumptions C04b_gf128_mul_zero_r.

(* on all 128-bit operands (reduced by bilinearity to the 128 x 128 table x^i.x^j = x^j.x^i, computed in the kernel) *)
Theorem C04b_gf128_mul_comm :
  forall a b : N, (a < 2 ^ 128)%N -> (b < 2 ^ 128)%N -> gf_mul_horner a b = gf_mul_horner b a.
Proof. exact gf_mul_horner_comm. Qed.
Print Assumptions C04b_gf128_mul_comm.

(* the two-limb loop of src/gf128.c itself: gf128_mul(r, a, b) = gf128_mul(r, b, a) for all 64-bit limb pairs *)
Theorem C04b_gf128_mul_limbs_comm :
  forall a b : gf, L64 (fst a) -> L64 (snd a) -> L64 (fst b) -> L64 (snd b) -> gf128_mul a b = gf128_mul b a.
Proof. exact gf128_mul_comm. Qed.
Print Assumptions C04b_gf128_mul_limbs_comm.
