(* C04 (AEAD / stream-cipher half: GF(2^128)/GHASH, GCM, CCM, AES, ZUC, ChaCha20) -- final statements only.
   Theorems over all inputs of the models; the remaining Impl-vs-Spec relations are compared at run
   time by the C04b correspondence (listed in the evidence assumptions).  What the code computed
   before commits a37c004 / 27e8567 / d8f414a / fef12f3 is recorded as Examples in CCMProofs.v. *)
From GmVerif Require Import Base.ListX Base.Bytes Cipher.SM4 Cipher.GF128 Cipher.GF128Proofs Cipher.GCM
  Cipher.CCM Cipher.AES Cipher.ZUC Cipher.Aead Cipher.AeadProofs Cipher.GCMProofs Cipher.CCMProofs.

(* ---- GF(2^128) ---- *)
Theorem C04b_gf128_mul_spec :
  forall a b : N, gf_mul_horner a b = gf_mul_alg1 a b.
Proof. exact gf_mul_horner_eq_alg1. Qed.
Print Assumptions C04b_gf128_mul_spec.

Theorem C04b_gf128_mul_linear :
  forall a a' b : N,
  gf_mul_horner (N.lxor a a') b = N.lxor (gf_mul_horner a b) (gf_mul_horner a' b).
Proof. exact gf_mul_horner_lxor_l. Qed.
Print Assumptions C04b_gf128_mul_linear.

(* ---- GHASH: incremental = one-shot for every chunking ---- *)
Theorem C04b_ghash_stream :
  forall (h aad : list N) (chunks : list (list N)),
  ghash_finish (fold_left ghash_update chunks (ghash_init h aad)) = ghash h aad (concat chunks).
Proof. exact ghash_stream. Qed.
Print Assumptions C04b_ghash_stream.

(* ---- GCM: decrypt inverts encrypt; streaming decrypt = one-shot decrypt for every chunking ---- *)
Theorem C04b_gcm_dec_enc :
  forall E, (forall x, length (E x) = 16%nat) ->
  forall iv aad taglen chk p c t,
  gcm_encrypt E chk iv aad p taglen = Ok (c, t) -> gcm_decrypt E chk iv aad c t = Ok p.
Proof. exact gcm_dec_accepts_enc. Qed.
Print Assumptions C04b_gcm_dec_enc.

Theorem C04b_gcm_decrypt_stream_eq_oneshot :
  forall E, (forall x, length (E x) = 16%nat) ->
  forall iv aad taglen, gcm_iv_ok (length iv) && gcm_tag_ok taglen = true ->
  forall chunks, (N.of_nat (length (concat chunks)) <= int_max)%N ->
  (taglen <= length (concat chunks))%nat ->
  let all := concat chunks in
  gcm_decrypt_stream E 16 iv aad taglen chunks =
  gcm_decrypt E true iv aad (firstn (length all - taglen) all) (skipn (length all - taglen) all).
Proof. exact gcm_stream_eq_oneshot. Qed.
Print Assumptions C04b_gcm_decrypt_stream_eq_oneshot.

(* sm4_gcm_decrypt_update reads only its input, for every tag length, window state and chunk *)
Theorem C04b_gcm_dec_update_reads_in_bounds :
  forall (c : gcm_ctx) (d : list N), gcm_dec_update_overread c d = 0%nat.
Proof. exact gcm_dec_update_reads_in_bounds. Qed.
Print Assumptions C04b_gcm_dec_update_reads_in_bounds.

(* ---- CCM: the code computes the RFC 3610 function and decrypt inverts encrypt ---- *)
Theorem C04b_ccm_eq_rfc3610 :
  forall E iv aad p M r,
  ccm_encrypt E iv aad p M = Ok r -> r = ccm_spec_encrypt E iv aad p M.
Proof. exact ccm_eq_rfc3610. Qed.
Print Assumptions C04b_ccm_eq_rfc3610.

Theorem C04b_ccm_dec_enc :
  forall E iv aad, (forall x, length (E x) = 16%nat) ->
  forall p taglen c tag,
  ccm_encrypt E iv aad p taglen = Ok (c, tag) -> ccm_decrypt E iv aad c tag = Ok p.
Proof. exact ccm_dec_accepts_enc. Qed.
Print Assumptions C04b_ccm_dec_enc.

(* ---- ZUC: zuc_encrypt reads exactly its input, for every length ---- *)
Theorem C04b_zuc_encrypt_reads_in_bounds :
  forall inlen, zuc_encrypt_overread inlen = 0%nat.
Proof. exact zuc_encrypt_reads_in_bounds. Qed.
Print Assumptions C04b_zuc_encrypt_reads_in_bounds.

(* ---- AES: finite sweeps (all 256 bytes); the composite aes_dec_enc is NOT proved ---- *)
Theorem C04b_aes_sbox_is_fips197 :
  forallb (fun b => N.eqb (S_box b) (sbox_spec b)) bytes256 = true.
Proof. exact aes_S_spec. Qed.
Print Assumptions C04b_aes_sbox_is_fips197.

Theorem C04b_aes_sbox_inverse :
  forallb (fun b => N.eqb (S_inv_box (S_box b)) b) bytes256 = true.
Proof. exact aes_S_inv_S. Qed.
Print Assumptions C04b_aes_sbox_inverse.

Theorem C04b_aes_shift_rows_inverse :
  forall s : list N, length s = 16%nat -> inv_shift_rows (shift_rows s) = s.
Proof. exact aes_shift_rows_inv. Qed.
Print Assumptions C04b_aes_shift_rows_inverse.
