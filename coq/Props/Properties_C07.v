(* C07 — Certificate chain validation is sound and complete for the supported profile.
   Only final statements; every proof is one [exact].
   [repaired] / [legacy] : the Impl model with / without the two one-line repairs of
   x509_exts_check and x509_certs_verify_tlcp (see Pki/X509Path.v). *)
From Coq Require Import ZArith NArith List Bool.
From GmVerif Require Import Pki.X509Path Pki.X509PathProofs Pki.X509Toolkit.
Import ListNotations.
Open Scope Z_scope.

(* soundness, TLS form: acceptance implies the property's predicate *)
Theorem C07_verify_sound : forall now r depth store chain,
  certs_verify repaired now r depth store chain = true -> valid_chain now r depth store chain.
Proof. exact (fun now r depth store chain => certs_verify_sound repaired now r depth store chain eq_refl). Qed.
Print Assumptions C07_verify_sound.

(* soundness, TLCP two-certificate form *)
Theorem C07_verify_tlcp_sound : forall now r depth store chain,
  certs_verify_tlcp repaired now r depth store chain = true -> valid_chain_tlcp now r depth store chain.
Proof. exact (fun now r depth store chain => certs_verify_tlcp_sound repaired now r depth store chain eq_refl eq_refl). Qed.
Print Assumptions C07_verify_tlcp_sound.

(* the tree as found (before the repairs) violates soundness: a trust anchor / an
   intermediate issuer without basicConstraints is accepted *)
Theorem C07_verify_sound_refuted_legacy :
  exists now r depth store chain,
    certs_verify legacy now r depth store chain = true /\ ~ valid_chain now r depth store chain.
Proof. exact verify_sound_refuted_legacy. Qed.
Print Assumptions C07_verify_sound_refuted_legacy.

Theorem C07_verify_sound_refuted_legacy_intermediate :
  exists now r depth store chain,
    certs_verify legacy now r depth store chain = true /\ ~ valid_chain now r depth store chain.
Proof. exact verify_sound_refuted_legacy_intermediate. Qed.
Print Assumptions C07_verify_sound_refuted_legacy_intermediate.

(* the tree as found checks TLCP client chains with the server usage types *)
Theorem C07_verify_tlcp_sound_refuted_legacy :
  exists now depth store chain,
    certs_verify_tlcp legacy now RoleClient depth store chain = true /\
    ~ valid_chain_tlcp now RoleClient depth store chain.
Proof. exact verify_tlcp_sound_refuted_legacy. Qed.
Print Assumptions C07_verify_tlcp_sound_refuted_legacy.

(* completeness on toolkit-built chains within the depth limit, for every setting of the
   repairs (TLS), resp. every setting that checks client chains as client chains (TLCP) *)
Theorem C07_verify_complete : forall f now r depth store chain,
  r <> RoleInvalid -> toolkit_chain now r store chain ->
  Z.of_nat (length chain) <= depth + 1 ->
  certs_verify f now r depth store chain = true.
Proof. exact certs_verify_complete. Qed.
Print Assumptions C07_verify_complete.

Theorem C07_verify_tlcp_complete : forall f now r depth store chain,
  r <> RoleInvalid -> (r = RoleClient -> fix_tlcp_role f = true) ->
  toolkit_chain_tlcp now r store chain ->
  Z.of_nat (length chain) <= depth + 2 ->
  certs_verify_tlcp f now r depth store chain = true.
Proof. exact certs_verify_tlcp_complete. Qed.
Print Assumptions C07_verify_tlcp_complete.

(* the premises of completeness are satisfiable *)
Theorem C07_toolkit_chain_inhabited :
  toolkit_chain 1500 RoleServer [ex_root] [ex_leaf; ex_ca] /\
  toolkit_chain_tlcp 1500 RoleServer [ex_root] [ex_leaf; ex_kenc; ex_ca].
Proof. exact (conj toolkit_chain_inhabited toolkit_chain_tlcp_inhabited). Qed.
Print Assumptions C07_toolkit_chain_inhabited.

(* facts that hold with and without the repairs *)
Theorem C07_depth_respected : forall f now r depth store chain,
  certs_verify f now r depth store chain = true -> Z.of_nat (length chain) <= depth + 1.
Proof. exact depth_respected. Qed.
Print Assumptions C07_depth_respected.

Theorem C07_pathlen_respected : forall now r depth store chain,
  certs_verify repaired now r depth store chain = true ->
  forall k i ca pl, nth_error (tl chain) k = Some i -> effective_bc i = Some (ca, pl) -> 0 <= pl -> Z.of_nat k <= pl.
Proof. exact (fun now r depth store chain => pathlen_respected_by_verify repaired now r depth store chain eq_refl). Qed.
Print Assumptions C07_pathlen_respected.

Theorem C07_unknown_critical_rejected : forall f now r depth store chain c x,
  In c chain -> In x (c_exts c) -> x_body x = XUnknown -> x_critical x = 1 ->
  certs_verify f now r depth store chain = false.
Proof. exact unknown_critical_rejected. Qed.
Print Assumptions C07_unknown_critical_rejected.

Theorem C07_validity_window : forall f now r depth store chain c,
  In c chain -> (now < c_not_before c \/ c_not_after c < now) ->
  certs_verify f now r depth store chain = false.
Proof. exact validity_window. Qed.
Print Assumptions C07_validity_window.

Theorem C07_validity_ends_inclusive : forall nb na, nb <= na -> na - nb <= X509_VALIDITY_MAX_SECONDS ->
  validity_check nb na nb = true /\ validity_check nb na na = true /\
  validity_check nb na (nb - 1) = false /\ validity_check nb na (na + 1) = false.
Proof. exact validity_check_inclusive. Qed.
Print Assumptions C07_validity_ends_inclusive.

Theorem C07_trust_anchor_by_subject : forall store subj c,
  get_cert_by_subject store subj = inr c <->
  exists pre post, store = pre ++ c :: post /\ c_subject c = subj /\ get_details_ok c = true /\
    Forall (fun x => get_details_ok x = true /\ c_subject x <> subj) pre.
Proof. exact trust_anchor_by_subject. Qed.
Print Assumptions C07_trust_anchor_by_subject.

(* signature algorithm identifiers: "verifies under its public key" is reachable only through
   "declares sm2sign-with-sm3 AND the SM2 signature verifies" (it is a conjunct of [issued_by] inside
   [valid_chain]); stated on its own, for every setting of the repairs *)
Theorem C07_non_sm2_algorithm_never_verifies : forall c ca,
  c_outer_alg c <> AlgSM2 -> verify_by_ca c ca = false.
Proof. exact non_sm2_algorithm_never_verifies. Qed.
Print Assumptions C07_non_sm2_algorithm_never_verifies.

Theorem C07_accepted_chain_is_sm2_signed : forall f now r depth store chain,
  certs_verify f now r depth store chain = true ->
  Forall (fun c => c_outer_alg c = AlgSM2 /\ c_inner_alg c = AlgSM2) chain.
Proof. exact accepted_chain_is_sm2_signed. Qed.
Print Assumptions C07_accepted_chain_is_sm2_signed.

Theorem C07_other_algorithm_rejected : forall f now r depth store chain c,
  In c chain -> (c_outer_alg c <> AlgSM2 \/ c_inner_alg c <> AlgSM2) ->
  certs_verify f now r depth store chain = false.
Proof. exact other_algorithm_rejected. Qed.
Print Assumptions C07_other_algorithm_rejected.

(* validity is decided over unbounded integers (time_t differences are never truncated or wrapped) *)
Theorem C07_validity_check_exact : forall nb na now : Z,
  validity_check nb na now = true <-> (nb <= na /\ na - nb <= X509_VALIDITY_MAX_SECONDS /\ nb <= now <= na).
Proof. exact validity_check_exact. Qed.
Print Assumptions C07_validity_check_exact.

Theorem C07_validity_no_wraparound : forall nb na now k,
  0 < k -> validity_check (now + k) na now = false /\ validity_check nb (now - k) now = false.
Proof. exact validity_no_wraparound. Qed.
Print Assumptions C07_validity_no_wraparound.

(* a self-issued CA certificate counts against depth and pathLen like any other (C07_depth_respected and
   C07_pathlen_respected quantify over all names); pinned on a key-rollover chain *)
Example C07_self_issued_ca_counts :
  (forall f, In f [legacy; repaired] ->
     certs_verify f 1500 RoleServer 2 [ro_root 2] [ro_leaf; ro_new; ro_old 1] = true /\
     certs_verify f 1500 RoleServer 1 [ro_root 2] [ro_leaf; ro_new; ro_old 1] = false /\
     certs_verify f 1500 RoleServer 2 [ro_root 2] [ro_leaf; ro_new; ro_old 0] = false /\
     certs_verify f 1500 RoleServer 2 [ro_root 1] [ro_leaf; ro_new; ro_old 1] = false).
Proof. exact self_issued_ca_counts. Qed.
Print Assumptions C07_self_issued_ca_counts.
