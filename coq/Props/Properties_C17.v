(* C17 — SM9: field tower and hash-to-range agree with integer mathematics; scheme correctness
   over an abstract pairing.  Only final statements; every proof is one [exact].
   NOT proved here (tested by props/C17): that sm9_z256_pairing is bilinear, non-degenerate and of
   order N; the Frobenius maps as p-power maps; the G1/G2 point formulas; modn_mul / modn_inv. *)
From Coq Require Import ZArith List.
From GmVerif Require Import Base.Bytes Codec.Der Codec.DerProofs Sm9.Sm9Der.
From GmVerif Require Import Sm9.TowerFrob.
From GmVerif Require Import Sm9.Fermat Sm9.Tower Sm9.TowerProofs Sm9.TowerInv Sm9.C17Lemmas Sm9.ModN Sm9.ModNProofs Sm9.Sm9Scheme.
Open Scope Z_scope.

(* ---- Fp: the C operations (one conditional subtraction, p - a, shift with +p) are congruent to
   integer arithmetic, for all integers *)
Theorem C17_fp_ops : forall x y : Z,
  fadd x y mod p = (x + y) mod p /\ fsub x y mod p = (x - y) mod p /\ fneg x mod p = (- x) mod p /\
  fdbl x mod p = (2 * x) mod p /\ ftri x mod p = (3 * x) mod p /\ fmul x y mod p = (x * y) mod p /\
  (2 * fhaf x) mod p = x mod p /\
  fmont (x * 2 ^ 256) (y * 2 ^ 256) mod p = (x * y * 2 ^ 256) mod p.
Proof. exact fp_ops. Qed.
Print Assumptions C17_fp_ops.

(* the Impl values stay in [0,p]; canonical operands give canonical results (since c2dbe37 no
   operation turns canonical input into the non-canonical zero p) *)
Theorem C17_fp_range : forall x y : Z, 0 <= x <= p -> 0 <= y <= p ->
  0 <= fadd x y <= p /\ 0 <= fsub x y <= p /\ 0 <= fneg x <= p /\ 0 <= fhaf x <= p /\ 0 <= fmul x y < p.
Proof. exact fp_range. Qed.
Print Assumptions C17_fp_range.

Theorem C17_fp_canonical : forall x y : Z, 0 <= x < p -> 0 <= y < p ->
  0 <= fadd x y < p /\ 0 <= fsub x y < p /\ 0 <= fneg x < p /\ 0 <= fhaf x < p /\ 0 <= fmul x y < p.
Proof. exact fp_canonical. Qed.
Print Assumptions C17_fp_canonical.

(* square-and-multiply (sm9_z256_modp_mont_pow) computes the power *)
Theorem C17_fp_pow : forall x e : Z, 0 <= e -> fpow x e mod p = (x ^ e) mod p.
Proof. exact fpow_spec. Qed.
Print Assumptions C17_fp_pow.

(* ---- Fp2 = Fp[u]/(u^2+2): every coded formula equals the quotient-ring operation *)
Theorem C17_fp2_ops : forall (a b : T2) (k : Z),
  canon2 (I2add a b) = canon2 (S2add a b) /\ canon2 (I2sub a b) = canon2 (S2sub a b) /\
  canon2 (I2neg a) = canon2 (S2neg a) /\ canon2 (I2dbl a) = canon2 (S2add a a) /\
  canon2 (I2tri a) = canon2 (S2add (S2add a a) a) /\
  canon2 (S2add (I2haf a) (I2haf a)) = canon2 a /\
  canon2 (I2mul a b) = canon2 (S2mul a b) /\ canon2 (I2mul_u a b) = canon2 (S2mul S2u (S2mul a b)) /\
  canon2 (I2mul_fp a k) = canon2 (S2scale k a) /\
  canon2 (I2sqr a) = canon2 (S2mul a a) /\ canon2 (I2sqr_u a) = canon2 (S2mul S2u (S2mul a a)) /\
  canon2 (I2a_mul_u a) = canon2 (S2mul S2u a) /\ canon2 (I2conj a) = canon2 (S2conj a).
Proof. exact fp2_ops. Qed.
Print Assumptions C17_fp2_ops.

(* ---- Fp4 = Fp2[v]/(v^2-u) *)
Theorem C17_fp4_ops : forall (a b : T4) (k : Z) (c : T2),
  canon4 (I4add a b) = canon4 (S4add a b) /\ canon4 (I4sub a b) = canon4 (S4sub a b) /\
  canon4 (I4neg a) = canon4 (S4neg a) /\ canon4 (I4dbl a) = canon4 (S4add a a) /\
  canon4 (S4add (I4haf a) (I4haf a)) = canon4 a /\
  canon4 (I4mul a b) = canon4 (S4mul a b) /\ canon4 (I4mul_v a b) = canon4 (S4mul S4v (S4mul a b)) /\
  canon4 (I4mul_fp a k) = canon4 (S4scale k a) /\ canon4 (I4mul_fp2 a c) = canon4 (S4scale2 c a) /\
  canon4 (I4sqr a) = canon4 (S4mul a a) /\ canon4 (I4sqr_v a) = canon4 (S4mul S4v (S4mul a a)) /\
  canon4 (I4a_mul_v a) = canon4 (S4mul S4v a) /\ canon4 (I4conj a) = canon4 (S4conj a).
Proof. exact fp4_ops. Qed.
Print Assumptions C17_fp4_ops.

(* ---- Fp12 = Fp4[w]/(w^3-v): Karatsuba product, the special squaring, powers, sparse line product *)
Theorem C17_fp12_ops : forall (a b : T12) (k : Z) (l0 l1 l2 : T2),
  canon12 (I12add a b) = canon12 (S12add a b) /\ canon12 (I12sub a b) = canon12 (S12sub a b) /\
  canon12 (I12neg a) = canon12 (S12neg a) /\ canon12 (I12dbl a) = canon12 (S12add a a) /\
  canon12 (I12tri a) = canon12 (S12add (S12add a a) a) /\
  canon12 (I12mul a b) = canon12 (S12mul a b) /\ canon12 (I12sqr a) = canon12 (S12mul a a) /\
  canon12 (I12pow a k) = canon12 (S12pow a k) /\
  canon12 (I12line_mul a l0 l1 l2) = canon12 (S12mul a (S12line l0 l1 l2)).
Proof. exact fp12_ops. Qed.
Print Assumptions C17_fp12_ops.

(* ---- inverses: x * inv x = 1 whenever the norm the code inverts is a unit mod p.
   Premise: p is prime (no primality certificate can be checked with the installed libraries);
   Fermat's little theorem is proved from it in Sm9/Fermat.v.  norm2 a = a0^2 + 2 a1^2,
   norm4 a = norm2 (a1^2 u - a0^2), D12 a = the Fp4 element fp12_inv inverts in the branch taken. *)
Theorem C17_tower_inverses_partial : Znumtheory.prime p ->
  (forall a : T2, norm2 a mod p <> 0 -> canon2 (I2mul a (I2inv a)) = canon2 S2one) /\
  (forall a : T4, norm4 a mod p <> 0 -> canon4 (I4mul a (I4inv a)) = canon4 S4one) /\
  (forall a : T12, norm4 (D12 a) mod p <> 0 -> canon12 (I12mul a (I12inv a)) = canon12 S12one).
Proof. exact tower_inverses_prime. Qed.
Print Assumptions C17_tower_inverses_partial.

(* Fermat's little theorem, proved from primality (used above) *)
Theorem C17_fermat_little : forall q : Z, Znumtheory.prime q -> forall a : Z, a mod q <> 0 -> a ^ (q - 1) mod q = 1.
Proof. exact Fermat.fermat_little. Qed.
Print Assumptions C17_fermat_little.

(* inversion after negation, the case that returned 0 before c2dbe37: fp12_neg keeps a2 = 0
   recognisable and the negated element is inverted correctly *)
Theorem C17_fp12_inv_neg_partial : Znumtheory.prime p -> forall a : T12,
  I4is_zero (c2 a) = true -> norm4 (D12 a) mod p <> 0 ->
  I4is_zero (c2 (I12neg a)) = true /\
  canon12 (I12mul (I12neg a) (I12inv (I12neg a))) = canon12 S12one.
Proof. exact fp12_inv_neg. Qed.
Print Assumptions C17_fp12_inv_neg_partial.

Example C17_fp12_inv_neg_one :
  I12neg I12one = (((p - 1, 0), (0, 0)), ((0, 0), (0, 0)), ((0, 0), (0, 0))) /\
  canon12 (I12mul (I12neg I12one) (I12inv (I12neg I12one))) = canon12 I12one.
Proof. exact I12inv_neg_one_now. Qed.
Print Assumptions C17_fp12_inv_neg_one.

(* history: the old negation p - a gave the non-canonical -1 below, on which fp12_inv (whose
   bitwise branch test is unchanged) returns 0 *)
Example C17_fp12_inv_old_neg_refuted :
  fneg_old 0 = p /\ canon12 noncanonical_minus_one = canon12 (S12neg S12one) /\
  canon12 (I12inv noncanonical_minus_one) = canon12 I12zero.
Proof. exact I12inv_old_neg_refuted. Qed.
Print Assumptions C17_fp12_inv_old_neg_refuted.

(* the stored Frobenius constants are the powers of (-2)^((p-1)/12) *)
Theorem C17_frobenius_constants :
  alpha1 = fpow (p - 2) ((p - 1) / 12) /\ alpha2 = fmul alpha1 alpha1 /\ alpha3 = fmul alpha2 alpha1 /\
  alpha4 = fmul alpha3 alpha1 /\ alpha5 = fmul alpha4 alpha1 /\ fmul alpha5 alpha1 = p - 1 /\ beta = alpha3.
Proof. exact frobenius_constants. Qed.
Print Assumptions C17_frobenius_constants.

(* ---- hash to range (sm9_z256_modn_from_hash, used by H1 and H2) *)
Theorem C17_hash_spec_range : forall z : Z, 1 <= from_hash_spec z <= Nord - 1.
Proof. exact from_hash_spec_range. Qed.
Print Assumptions C17_hash_spec_range.

(* the Barrett estimate is never above the quotient and misses it only for tiny residues *)
Theorem C17_hash_quotient_bounds : forall z : Z, 0 <= z < 2 ^ 320 ->
  fh_quot z * (Nord - 1) <= z /\ z - (fh_quot z + 1) * (Nord - 1) < 2 ^ 192 + 2 ^ 64.
Proof. exact fh_quot_bounds. Qed.
Print Assumptions C17_hash_quotient_bounds.

(* sm9_z256_modn_from_hash (with the correction step of 3d68e44) is the standard's map
   (Ha mod (N-1)) + 1 for EVERY 320-bit Ha, hence lands in [1, N-1] *)
Theorem C17_hash_to_range : forall z : Z, 0 <= z < 2 ^ 320 -> from_hash_impl z = from_hash_spec z.
Proof. exact from_hash_ok. Qed.
Print Assumptions C17_hash_to_range.

Theorem C17_hash_impl_range : forall z : Z, 0 <= z < 2 ^ 320 -> 1 <= from_hash_impl z <= Nord - 1.
Proof. exact from_hash_range. Qed.
Print Assumptions C17_hash_impl_range.

(* history: the function before 3d68e44 (no correction step) mapped Ha = N-1 to 0 and small
   residues off by one; the repaired function is right on the same inputs *)
Example C17_hash_to_range_old_refuted :
  from_hash_impl_old (Nord - 1) = 0 /\ from_hash_spec (Nord - 1) = 1 /\
  from_hash_impl_old (3 * (Nord - 1) + 5) = 5 /\ from_hash_spec (3 * (Nord - 1) + 5) = 6 /\
  from_hash_impl (Nord - 1) = 1 /\ from_hash_impl (3 * (Nord - 1) + 5) = 6.
Proof. exact from_hash_old_refuted. Qed.
Print Assumptions C17_hash_to_range_old_refuted.

(* sm9_z256_modn_add / _sub on reduced scalars *)
Theorem C17_modn_add_sub : forall a b : Z, 0 <= a < Nord -> 0 <= b < Nord ->
  modn_add a b = (a + b) mod Nord /\ modn_sub a b = (a - b) mod Nord.
Proof. exact (fun a b Ha Hb => conj (modn_add_ok a b Ha Hb) (modn_sub_ok a b Ha Hb)). Qed.
Print Assumptions C17_modn_add_sub.

(* ---- schemes over an abstract pairing setting S satisfying [pairing_laws S] *)
Theorem C17_verify_sign_partial : forall S : setting, pairing_laws S ->
  forall Msg (H2 : Msg -> sGT S -> Z) ks h1 t1inv r m sg,
  ((h1 + ks) * t1inv) mod sN S = 1 mod sN S ->
  Ssign S H2 (Ssign_key S ks t1inv) (SPpubs S ks) r m = Some sg ->
  Sverify S H2 (SPpubs S ks) h1 m sg = true.
Proof. exact verify_sign_partial. Qed.
Print Assumptions C17_verify_sign_partial.

Theorem C17_decrypt_encrypt_partial : forall S : setting, pairing_laws S ->
  forall Key Bytes Tag (KDF : sG1 S -> sGT S -> Key) (xor : Key -> Bytes -> Bytes) (mac : Key -> Bytes -> Tag)
         (tag_eqb : Tag -> Tag -> bool),
  (forall k m, xor k (xor k m) = m) -> (forall t, tag_eqb t t = true) ->
  forall ke h1 t1inv r m,
  ((h1 + ke) * t1inv) mod sN S = 1 mod sN S ->
  Sdecrypt S KDF xor mac tag_eqb (Senc_key S ke t1inv) (Sencrypt S KDF xor mac (SPpube S ke) h1 r m) = Some m.
Proof. exact decrypt_encrypt_partial. Qed.
Print Assumptions C17_decrypt_encrypt_partial.

Theorem C17_exchange_agrees_partial : forall S : setting, pairing_laws S ->
  forall SK (KDFx : sG1 S -> sG1 S -> sGT S -> sGT S -> sGT S -> SK) ke hA hB tAinv tBinv rA rB,
  ((hA + ke) * tAinv) mod sN S = 1 mod sN S -> ((hB + ke) * tBinv) mod sN S = 1 mod sN S ->
  let RA := Sexch_RA S (SPpube S ke) hB rA in
  let RBsk := Sexch_B S KDFx (SPpube S ke) hA rB (Senc_key S ke tBinv) RA in
  Sexch_A S KDFx (SPpube S ke) rA (Senc_key S ke tAinv) RA (fst RBsk) = snd RBsk.
Proof. exact exchange_agrees_partial. Qed.
Print Assumptions C17_exchange_agrees_partial.

(* the premises are satisfiable *)
Theorem C17_pairing_laws_satisfiable : pairing_laws toy.
Proof. exact pairing_laws_satisfiable. Qed.
Print Assumptions C17_pairing_laws_satisfiable.

(* decision rules: acceptance is exactly "recomputed hash / tag equals the presented one" *)
Theorem C17_verify_decision : forall S : setting, forall Msg (H2 : Msg -> sGT S -> Z) pubs h1 m sg,
  Sverify S H2 pubs h1 m sg = true <->
  H2 m (verify_w (sG1 S) (sG2 S) (sGT S) (sP1 S) (sP2 S) (sadd2 S) (ssmul2 S) (smulT S) (spowT S) (se S) pubs h1 sg) = fst sg.
Proof. exact (fun S Msg H2 => verify_decision (sG1 S) (sG2 S) (sGT S) (sP1 S) (sP2 S) (sadd2 S) (ssmul2 S) (smulT S) (spowT S) (se S) Msg H2). Qed.
Print Assumptions C17_verify_decision.

Theorem C17_decrypt_decision : forall S : setting,
  forall Key Bytes Tag (KDF : sG1 S -> sGT S -> Key) (xor : Key -> Bytes -> Bytes) (mac : Key -> Bytes -> Tag)
         (tag_eqb : Tag -> Tag -> bool) de C c2 c3 m,
  Sdecrypt S KDF xor mac tag_eqb de (C, c2, c3) = Some m ->
  tag_eqb c3 (mac (kem_decrypt (sG1 S) (sG2 S) (sGT S) (se S) Key KDF de C) c2) = true /\
  m = xor (kem_decrypt (sG1 S) (sG2 S) (sGT S) (se S) Key KDF de C) c2.
Proof. exact (fun S Key Bytes Tag KDF xor mac tag_eqb => decrypt_decision (sG1 S) (sG2 S) (sGT S) (se S) Key KDF Bytes Tag xor mac tag_eqb). Qed.
Print Assumptions C17_decrypt_decision.

(* ---- DER layer of the SM9 signature and ciphertext (Sm9/Sm9Der.v, on the primitives of Codec/Der.v).
   [sig_decode] = sm9_signature_from_der + the leftover check of sm9_verify_finish;
   [ct_decode] = sm9_ciphertext_from_der + the leftover check of sm9_decrypt + the 255-byte bound;
   [point_ok] = the point decoder's verdict on the 65 octets (any predicate). *)
Theorem C17_sig_der_roundtrip : forall (point_ok : list N -> bool) (h S : list N),
  (Der.len h = 32 -> Der.len S = 65 -> Bytes.be_to_N h < sm9_N -> point_ok S = true ->
   sig_decode point_ok (sig_to_der h S) = Der.Ok (h, S))%N.
Proof. exact sig_roundtrip. Qed.
Print Assumptions C17_sig_der_roundtrip.

(* every accepted buffer is exactly the 104-byte canonical encoding of what was decoded: no
   trailing bytes inside or outside the SEQUENCE, minimal lengths, right tags, unused-bits = 0 *)
Theorem C17_sig_der_canonical : forall (point_ok : list N -> bool) (inp h S : list N),
  (DerProofs.bytes_okP inp -> Der.len inp <= Der.INT_MAX ->
   sig_decode point_ok inp = Der.Ok (h, S) -> inp = sig_to_der h S /\ Der.len inp = 104)%N.
Proof. exact sig_canonical. Qed.
Print Assumptions C17_sig_der_canonical.

(* hence any extension or truncation of an accepted signature is refused *)
Theorem C17_sig_der_length_strict : forall (point_ok : list N -> bool) (inp inp' h S : list N) v,
  (DerProofs.bytes_okP inp -> DerProofs.bytes_okP inp' -> Der.len inp' <= Der.INT_MAX -> Der.len inp <= Der.INT_MAX ->
   sig_decode point_ok inp = Der.Ok (h, S) -> Der.len inp' <> Der.len inp -> sig_decode point_ok inp' <> Der.Ok v)%N.
Proof. exact sig_length_strict. Qed.
Print Assumptions C17_sig_der_length_strict.

Theorem C17_ct_der_roundtrip : forall (point_ok : list N -> bool) (C1 c3 c2 : list N),
  (Der.len C1 = 65 -> Der.len c3 = 32 -> Der.len c2 <= 255 -> point_ok C1 = true ->
   ct_decode point_ok (ct_to_der C1 c3 c2) = Der.Ok (C1, c3, c2))%N.
Proof. exact ct_roundtrip. Qed.
Print Assumptions C17_ct_der_roundtrip.

Theorem C17_ct_der_canonical : forall (point_ok : list N -> bool) (inp C1 c3 c2 : list N),
  (DerProofs.bytes_okP inp -> Der.len inp <= Der.INT_MAX ->
   ct_decode point_ok inp = Der.Ok (C1, c3, c2) -> inp = ct_to_der C1 c3 c2 /\ Der.len c2 <= 255)%N.
Proof. exact ct_canonical. Qed.
Print Assumptions C17_ct_der_canonical.

(* an accepted ciphertext followed by anything is refused (so is every proper prefix of an accepted one) *)
Theorem C17_ct_der_extension_refused : forall (point_ok : list N -> bool) (inp x C1 c3 c2 : list N) v,
  (DerProofs.bytes_okP (inp ++ x) -> Der.len (inp ++ x) <= Der.INT_MAX ->
   ct_decode point_ok inp = Der.Ok (C1, c3, c2) -> x <> nil -> ct_decode point_ok (inp ++ x) <> Der.Ok v)%N.
Proof. exact ct_extension_refused. Qed.
Print Assumptions C17_ct_der_extension_refused.

(* ---- predicates of the tower: true exactly when ALL coefficients agree *)
Theorem C17_tower_predicates :
  (forall a b : T2, I2equ a b = true <-> a = b) /\ (forall a b : T4, I4equ a b = true <-> a = b) /\
  (forall a b : T12, I12equ a b = true <-> a = b) /\
  (forall a : T2, I2is_zero a = true <-> a = I2zero) /\ (forall a : T2, I2is_one a = true <-> a = I2one) /\
  (forall a : T4, I4is_zero a = true <-> a = I4zero).
Proof. exact tower_predicates. Qed.
Print Assumptions C17_tower_predicates.

(* ---- the shared helper of the four password-encrypted key loaders never writes more than the
   capacity of any caller's buffer (capacities = source-derived table [info_caller_caps]) *)
Theorem C17_key_info_copy_within_capacity :
  Forall (fun cap : N => forall l : N, info_helper_copy cap l <> Der.Fault) info_caller_caps.
Proof. exact info_copy_within_capacity. Qed.
Print Assumptions C17_key_info_copy_within_capacity.

(* ---- Frobenius maps: the coded maps (stored constants, conjugations, sign flips) equal the maps
   sum z_i w^i |-> sum conj^j(z_i) s^i w^i with s = (-2)^((p^j-1)/12) (resp. /4 on Fp4) computed from p.
   That these are x |-> x^(p^j) is not proved (tested: frobpow ops). *)
Theorem C17_fp2_frobenius : forall a : T2, canon2 (I2conj a) = canon2 (S2cj 1 a).
Proof. exact fp2_frobenius_ok. Qed.
Print Assumptions C17_fp2_frobenius.

Theorem C17_fp4_frobenius : forall a : T4,
  canon4 (I4frobenius a) = S4frob 1 a /\ canon4 (I4frobenius2 a) = S4frob 2 a /\ canon4 (I4frobenius3 a) = S4frob 3 a.
Proof. exact fp4_frobenius_ok. Qed.
Print Assumptions C17_fp4_frobenius.

Theorem C17_fp12_frobenius : forall x : T12,
  canon12 (I12frobenius x) = S12frob 1 x /\ canon12 (I12frobenius2 x) = S12frob 2 x /\
  canon12 (I12frobenius3 x) = S12frob 3 x /\ canon12 (I12frobenius6 x) = S12frob 6 x.
Proof. exact fp12_frobenius_ok. Qed.
Print Assumptions C17_fp12_frobenius.

(* ---- wave 5: scalar arithmetic mod N, key-extraction scalar, H1/H2, fp2 division *)
(* sm9_z256_modn_mul (Barrett with the stored constant, one conditional subtraction) on reduced operands *)
Theorem C17_modn_mul : forall a b : Z, 0 <= a < Nord -> 0 <= b < Nord -> modn_mul a b = (a * b) mod Nord.
Proof. exact modn_mul_ok. Qed.
Print Assumptions C17_modn_mul.

Theorem C17_modn_pow : forall a e : Z, 0 <= a < Nord -> 0 < e -> modn_pow a e = (a ^ e) mod Nord.
Proof. exact modn_pow_ok. Qed.
Print Assumptions C17_modn_pow.

(* sm9_z256_modn_inv = a^(N-2) inverts when N is prime (premise) *)
Theorem C17_modn_inv_partial : forall a : Z, Znumtheory.prime Nord -> 0 < a < Nord ->
  0 <= modn_inv a < Nord /\ (a * modn_inv a) mod Nord = 1.
Proof. exact modn_inv_ok. Qed.
Print Assumptions C17_modn_inv_partial.

(* the scalar computed by sm9_*_master_key_extract_key: error exactly when H1 + k = 0 mod N, otherwise the
   t2 = k * t1inv with (H1 + k) * t1inv = 1 mod N that C17_verify_sign_partial etc. take as premise *)
Theorem C17_extract_t2_partial : forall h1 k : Z, Znumtheory.prime Nord -> 0 <= h1 < Nord -> 0 <= k < Nord ->
  match extract_t2 h1 k with
  | None => (h1 + k) mod Nord = 0
  | Some t2 => 0 <= t2 < Nord /\ (t2 * (h1 + k)) mod Nord = k mod Nord /\
               exists t1inv, ((h1 + k) * t1inv) mod Nord = 1 mod Nord /\ t2 = (k * t1inv) mod Nord
  end.
Proof. exact extract_t2_ok. Qed.
Print Assumptions C17_extract_t2_partial.

(* H1 (sm9_z256_hash1) and H2 (inside sm9_do_sign / sm9_do_verify) equal the standard's maps into [1, N-1] *)
Theorem C17_hash1 : forall (id : list N) (hid : N),
  sm9_hash1_impl id hid = sm9_hash1_spec id hid /\ 1 <= sm9_hash1_impl id hid <= Nord - 1.
Proof. exact sm9_hash1_ok. Qed.
Print Assumptions C17_hash1.
Theorem C17_hash2 : forall m w : list N,
  sm9_hash2_impl m w = sm9_hash2_spec m w /\ 1 <= sm9_hash2_impl m w <= Nord - 1.
Proof. exact sm9_hash2_ok. Qed.
Print Assumptions C17_hash2.

Theorem C17_fp2_div_partial : Znumtheory.prime p -> forall a b : T2, norm2 b mod p <> 0 ->
  canon2 (I2mul (I2div a b) b) = canon2 a.
Proof. exact fp2_div_ok. Qed.
Print Assumptions C17_fp2_div_partial.

(* ---- sm9_z256_rand_range (since c0d02d5): the value handed to sign / KEM / exchange / key generation is
   the first of at most 100 draws lying in [1, range-1]; earlier draws were 0 or >= range.  In particular the
   nonce r and the master keys (range = N) are never 0 and never >= N. *)
Theorem C17_rand_range : forall (range : Z) (draws : list (option Z)) (r : Z) (k : nat),
  (forall d, In (Some d) draws -> 0 <= d) ->
  rand_range range draws = RR_ok r k ->
  1 <= r <= range - 1 /\
  exists pre post, draws = map Some pre ++ Some r :: post /\ k = (length pre + 1)%nat /\ (k <= 100)%nat /\
                   Forall (fun d => d = 0 \/ range <= d) pre.
Proof. exact rand_range_spec. Qed.
Print Assumptions C17_rand_range.

(* history: before c0d02d5 a zero draw was accepted (and used as nonce / master key) *)
Example C17_rand_range_old_zero_refuted :
  rand_range_old Nord (Some 0 :: Some 5 :: nil) = RR_ok 0 1 /\ rand_range Nord (Some 0 :: Some 5 :: nil) = RR_ok 5 2.
Proof. exact rand_range_old_zero_refuted. Qed.
Print Assumptions C17_rand_range_old_zero_refuted.
