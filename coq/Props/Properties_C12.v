(* C12 — imported keys and points are validated on every path.
   This file contains only the final statements; every proof is one [exact]. *)
From Coq Require Import ZArith List Bool Znumtheory.
From GmVerif Require Import Ec.Num Ec.CurveSpec Ec.Mont Ec.MontProofs Ec.Jacobian Ec.JacobianProofs
  Ec.Point Ec.PointProofs.
Import ListNotations.
Local Open Scope Z_scope.

(* sm2_z256_point_from_bytes returns 1 exactly on the valid public points *)
Theorem C12_from_bytes_ok_iff : forall Pin x y, 0 <= x -> 0 <= y ->
  fst (point_from_bytes ZOps Z.ltb KpZ Pin x y) = 1 <->
  x < c_p /\ y < c_p /\ ~ (x = 0 /\ y = 0) /\
  (y * y) mod c_p = (x * x * x + sm2_a * x + sm2_b) mod c_p.
Proof. exact from_bytes_ok_iff. Qed.
Print Assumptions C12_from_bytes_ok_iff.

Theorem C12_from_bytes_result : forall Pin x y P,
  point_from_bytes ZOps Z.ltb KpZ Pin x y = (1, P) ->
  P = (vto_mont ZOps Z.ltb KpZ x, vto_mont ZOps Z.ltb KpZ y, knegm KpZ).
Proof. exact from_bytes_result. Qed.
Print Assumptions C12_from_bytes_result.

(* the curve test of the library on a normalised point decides the curve equation *)
Theorem C12_on_curve_iff : forall x y, 0 <= x < c_p -> 0 <= y < c_p ->
  point_is_on_curve Z FpZ (vto_mont ZOps Z.ltb KpZ x, vto_mont ZOps Z.ltb KpZ y, knegm KpZ) = true <->
  (y * y) mod c_p = (x * x * x + sm2_a * x + sm2_b) mod c_p.
Proof. exact on_curve_iff. Qed.
Print Assumptions C12_on_curve_iff.

(* private scalars: accepted iff 1 <= d <= n - 2 *)
Theorem C12_scalar_range : forall d, 0 <= d ->
  scalar_ok ZOps Z.ltb KpZ KnZ d = true <-> 1 <= d <= c_n - 2.
Proof. exact scalar_range. Qed.
Print Assumptions C12_scalar_range.

(* sm2_z256_point_from_octets: uncompressed octets are accepted exactly on the valid public
   points (never infinity); success always comes from from_bytes / from_x_bytes; 00, other
   prefixes and the empty input are refused *)
Theorem C12_from_octets_uncompressed_ok_iff : forall Pin x y, 0 <= x -> 0 <= y ->
  (exists P, point_from_octets ZOps Z.ltb KpZ Pin 65 4 x y = Some (1, P)) <->
  x < c_p /\ y < c_p /\ ~ (x = 0 /\ y = 0) /\
  (y * y) mod c_p = (x * x * x + sm2_a * x + sm2_b) mod c_p.
Proof. exact from_octets_uncompressed_ok_iff. Qed.
Print Assumptions C12_from_octets_uncompressed_ok_iff.

Theorem C12_from_octets_result_normalised : forall Pin x y P,
  point_from_octets ZOps Z.ltb KpZ Pin 65 4 x y = Some (1, P) ->
  P = (vto_mont ZOps Z.ltb KpZ x, vto_mont ZOps Z.ltb KpZ y, knegm KpZ).
Proof. exact from_octets_result_normalised. Qed.
Print Assumptions C12_from_octets_result_normalised.

Theorem C12_from_octets_sound : forall Pin inlen prefix x y P,
  point_from_octets ZOps Z.ltb KpZ Pin inlen prefix x y = Some (1, P) ->
  (prefix = 4 /\ inlen = 65 /\ point_from_bytes ZOps Z.ltb KpZ Pin x y = (1, P)) \/
  ((prefix = 2 \/ prefix = 3) /\ inlen = 33 /\
   point_from_x_bytes ZOps Z.ltb KpZ Pin x (prefix =? 3) = (1, P)).
Proof. exact from_octets_sound. Qed.
Print Assumptions C12_from_octets_sound.

Theorem C12_from_octets_complete : forall Pin inlen prefix x y P,
  (prefix = 4 /\ inlen = 65 /\ point_from_bytes ZOps Z.ltb KpZ Pin x y = (1, P)) \/
  ((prefix = 2 \/ prefix = 3) /\ inlen = 33 /\
   point_from_x_bytes ZOps Z.ltb KpZ Pin x (prefix =? 3) = (1, P)) ->
  point_from_octets ZOps Z.ltb KpZ Pin inlen prefix x y = Some (1, P).
Proof. exact from_octets_complete. Qed.
Print Assumptions C12_from_octets_complete.

Theorem C12_from_octets_refuses : forall Pin inlen prefix x y,
  inlen = 0 \/ (prefix <> 2 /\ prefix <> 3 /\ prefix <> 4) ->
  point_from_octets ZOps Z.ltb KpZ Pin inlen prefix x y = Some (-1, Pin).
Proof. exact from_octets_refuses. Qed.
Print Assumptions C12_from_octets_refuses.

(* witnesses about the decoder before the repair: 04||0^64 and 00 were accepted as the point at
   infinity, and an empty input was read out of bounds *)
Theorem C12_from_octets_old_refuted :
  point_from_octets_old ZOps Z.ltb KpZ pin0 65 4 0 0 = Some (1, point_infinity Z FpZ) /\
  point_from_octets_old ZOps Z.ltb KpZ pin0 1 0 0 0 = Some (1, point_infinity Z FpZ) /\
  point_from_octets_old ZOps Z.ltb KpZ pin0 0 0 0 0 = None.
Proof. exact from_octets_old_refuted. Qed.
Print Assumptions C12_from_octets_old_refuted.

(* compressed points: sm2_z256_point_from_x_bytes succeeds only with x < p and a point on the curve *)
Theorem C12_from_x_bytes_sound : forall Pin x odd P, 0 <= x ->
  point_from_x_bytes ZOps Z.ltb KpZ Pin x odd = (1, P) ->
  x < c_p /\ exists Y, okp Y /\ P = (vto_mont ZOps Z.ltb KpZ x, Y, knegm KpZ) /\
    (decp Y * decp Y) mod c_p = (x * x * x + sm2_a * x + sm2_b) mod c_p.
Proof. exact from_x_bytes_sound. Qed.
Print Assumptions C12_from_x_bytes_sound.

(* compressing a valid point and decompressing the result returns the same point; premises:
   p prime (no zero divisors => square roots unique up to sign) and Fermat's little theorem
   for p (a consequence of primality absent from the standard library); p = 3 (mod 4) is computed *)
Theorem C12_compress_decompress_partial :
  prime c_p -> (forall x, 0 < x < c_p -> x ^ (c_p - 1) mod c_p = 1) ->
  forall Pin x y, 0 <= x < c_p -> 0 <= y < c_p ->
  (y * y) mod c_p = (x * x * x + sm2_a * x + sm2_b) mod c_p ->
  let P := (vto_mont ZOps Z.ltb KpZ x, vto_mont ZOps Z.ltb KpZ y, knegm KpZ) in
  let prefix := if y mod 2 =? 1 then 3 else 2 in
  point_to_compressed ZOps Z.ltb KpZ P = Some (prefix, x) /\
  point_from_octets ZOps Z.ltb KpZ Pin 33 prefix x 0 = Some (1, P).
Proof. exact compress_decompress_partial. Qed.
Print Assumptions C12_compress_decompress_partial.

(* private-key containers: sm2_private_key_from_der compares the recomputed [d]G with the embedded
   public key through sm2_z256_point_equ; acceptance implies equal affine points (invertibility of
   Z follows from primality and Z <> 0: explicit premise) *)
Theorem C12_point_equ_sound : forall X1 Y1 Z1 X2 Y2 Z2,
  okp X1 -> okp Y1 -> okp Z1 -> okp X2 -> okp Y2 -> okp Z2 ->
  point_equ Z FpZ (X1, Y1, Z1) (X2, Y2, Z2) = true ->
  Zdiv.eqm c_p (decp X1 * (decp Z2 * decp Z2)) (decp X2 * (decp Z1 * decp Z1)) /\
  Zdiv.eqm c_p (decp Y1 * (decp Z2 * decp Z2 * decp Z2)) (decp Y2 * (decp Z1 * decp Z1 * decp Z1)).
Proof. exact point_equ_sound. Qed.
Print Assumptions C12_point_equ_sound.

Theorem C12_mismatched_pub_rejected_partial : forall X1 Y1 Z1 x1 y1 x2 y2 zi,
  jrepr c_p Z okp decp (X1, Y1, Z1) x1 y1 ->
  0 <= x2 < c_p -> 0 <= y2 < c_p ->
  Zdiv.eqm c_p (decp Z1 * zi) 1 ->
  point_equ Z FpZ (X1, Y1, Z1) (vto_mont ZOps Z.ltb KpZ x2, vto_mont ZOps Z.ltb KpZ y2, knegm KpZ) = true ->
  x1 mod c_p = x2 /\ y1 mod c_p = y2.
Proof. exact mismatched_pub_rejected_partial. Qed.
Print Assumptions C12_mismatched_pub_rejected_partial.

(* witness about the old compression: it wrote y where x belongs *)
Theorem C12_compress_old_refuted :
  point_to_compressed_old ZOps Z.ltb KpZ Gj = Some (2, sm2_Gy) /\
  point_to_compressed ZOps Z.ltb KpZ Gj = Some (2, sm2_Gx) /\
  sm2_Gx <> sm2_Gy.
Proof. exact compress_old_refuted. Qed.
Print Assumptions C12_compress_old_refuted.

(* wave 5: sm2_z256_point_set_xy, scalar generation *)
Theorem C12_set_xy_ok_iff : forall Pin x y, 0 <= x -> 0 <= y ->
  fst (point_set_xy ZOps Z.ltb KpZ Pin x y) = 1 <->
  x < c_p /\ y < c_p /\ (y * y) mod c_p = (x * x * x + sm2_a * x + sm2_b) mod c_p.
Proof. exact set_xy_ok_iff. Qed.
Print Assumptions C12_set_xy_ok_iff.

(* sm2_z256_rand_range returns 1 only with a drawn value below the range *)
Theorem C12_rand_range_spec : forall tries range draws r0 ret r rest,
  rand_range_loop ZOps Z.ltb tries range draws r0 = (ret, r, rest) ->
  (ret = 1 /\ r < range /\ In (Some r) draws) \/ (ret = 0) \/ (ret = -1).
Proof. exact rand_range_spec. Qed.
Print Assumptions C12_rand_range_spec.

(* sm2_key_generate returns only scalars in [1, n-2] *)
Theorem C12_key_generate_range : forall fuel draws d0 d,
  key_generate_loop ZOps Z.ltb KpZ fuel (c_n - 1) draws d0 = (1, d) ->
  (forall v, In (Some v) draws -> 0 <= v) ->
  1 <= d <= c_n - 2.
Proof. exact key_generate_range. Qed.
Print Assumptions C12_key_generate_range.
