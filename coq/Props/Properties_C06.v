(* C06 — No memory-safety violation on untrusted input: the modelled decoders.
   In the models (Codec/Der.v, Hex.v, Base64.v, Time.v) every read of the C code is a pattern
   match on the bytes that are really there and every write into a caller array checks the
   declared capacity; [Fault] is an access outside.  The theorems say: for EVERY input no
   decoder reaches [Fault], the unread remainder is a suffix of the input (consumed <= length),
   and counts / output sizes stay within the declared capacities.  They are about [Fixed], the
   code after the proposed patches; the witnesses at the end show the pinned code faulting. *)
From GmVerif Require Import Base.ListX Base.Bytes Codec.Der Codec.DerProofs Codec.SafetyProofs
  Codec.Hex Codec.HexProofs Codec.Base64 Codec.Base64Proofs Codec.Base64Safety Codec.Time Codec.TimeProofs Codec.Pkcs Codec.Pem Codec.PemProofs Codec.PkcsProofs Codec.PkcsOpen.
Local Open Scope N_scope.

Theorem C06_length_no_fault : forall inp, len_from_der inp <> Fault.
Proof. exact len_from_der_nofault. Qed.
Print Assumptions C06_length_no_fault.

Theorem C06_length_consumes_prefix : forall inp l rest,
  len_from_der inp = Ok (l, rest) -> l <= len rest /\ exists pre, inp = pre ++ rest /\ pre <> [].
Proof. exact len_from_der_consumes. Qed.
Print Assumptions C06_length_consumes_prefix.

Theorem C06_type_no_fault : forall tag inp, type_from_der tag inp <> Fault.
Proof. exact type_from_der_nofault. Qed.
Print Assumptions C06_type_no_fault.

Theorem C06_type_within_input : forall tag inp d rest,
  type_from_der tag inp = Ok (d, rest) -> proper_suffix_of rest inp /\ len d <= len inp.
Proof. exact type_from_der_suffix. Qed.
Print Assumptions C06_type_within_input.

Theorem C06_nonempty_type_no_fault : forall tag inp, nonempty_type_from_der tag inp <> Fault.
Proof. exact nonempty_type_from_der_nofault. Qed.
Print Assumptions C06_nonempty_type_no_fault.

Theorem C06_any_no_fault : forall inp, any_type_from_der inp <> Fault /\ any_from_der inp <> Fault.
Proof. exact any_nofault. Qed.
Print Assumptions C06_any_no_fault.

Theorem C06_any_within_input : forall inp a rest, any_from_der inp = Ok (a, rest) -> inp = a ++ rest /\ a <> [].
Proof. exact any_from_der_suffix. Qed.
Print Assumptions C06_any_within_input.

Theorem C06_boolean_no_fault : forall tag inp, boolean_from_der tag inp <> Fault.
Proof. exact boolean_from_der_nofault. Qed.
Print Assumptions C06_boolean_no_fault.

Theorem C06_integer_no_fault : forall tag inp, integer_from_der tag inp <> Fault.
Proof. exact integer_from_der_nofault. Qed.
Print Assumptions C06_integer_no_fault.

Theorem C06_integer_within_input : forall tag inp a rest,
  integer_from_der tag inp = Ok (a, rest) -> proper_suffix_of rest inp.
Proof. exact integer_from_der_suffix. Qed.
Print Assumptions C06_integer_within_input.

Theorem C06_int_no_fault : forall tag inp, int_from_der Fixed tag inp <> Fault.
Proof. exact int_from_der_fixed_nofault. Qed.
Print Assumptions C06_int_no_fault.

Theorem C06_bit_string_no_fault : forall m tag inp,
  bit_string_from_der m tag inp <> Fault /\ bit_octets_from_der m tag inp <> Fault /\ bits_from_der m tag inp <> Fault.
Proof. exact bit_string_family_nofault. Qed.
Print Assumptions C06_bit_string_no_fault.

Theorem C06_null_no_fault : forall inp, null_from_der inp <> Fault.
Proof. exact null_from_der_nofault. Qed.
Print Assumptions C06_null_no_fault.

(* nodes[32]: at most 32 arcs are written, none beyond the array *)
Theorem C06_oid_octets_capacity : forall cap inp, OID_MAX_NODES <= cap ->
  match oid_from_octets Fixed cap inp with
  | Ok ns => 2 <= len ns <= OID_MAX_NODES
  | Fault => False
  | _ => True
  end.
Proof. exact oid_from_octets_fixed_safe. Qed.
Print Assumptions C06_oid_octets_capacity.

Theorem C06_oid_der_no_fault : forall cap tag inp, OID_MAX_NODES <= cap -> oid_from_der Fixed cap tag inp <> Fault.
Proof. exact oid_from_der_fixed_nofault. Qed.
Print Assumptions C06_oid_der_no_fault.

Theorem C06_oid_arc_no_fault : forall m inp, node_from_base128 m inp <> Fault.
Proof. exact node_from_base128_nofault. Qed.
Print Assumptions C06_oid_arc_no_fault.

(* nums[max_nums]: at most max_nums elements are written *)
Theorem C06_seq_of_int_capacity : forall cap maxn inp, maxn <= cap ->
  match seq_of_int_from_der Fixed cap maxn inp with
  | Ok (ns, rest) => len ns <= maxn /\ proper_suffix_of rest inp
  | Fault => False
  | _ => True
  end.
Proof. exact seq_of_int_from_der_fixed_safe. Qed.
Print Assumptions C06_seq_of_int_capacity.

Theorem C06_string_no_fault : forall valid tag inp, string_from_der valid tag inp <> Fault.
Proof. exact string_from_der_nofault. Qed.
Print Assumptions C06_string_no_fault.

Theorem C06_utf8_scanner_within_input : forall m inp,
  utf8char_from_bytes m inp <> Fault /\ (forall r, utf8char_from_bytes m inp = Ok r -> proper_suffix_of r inp).
Proof. exact utf8_scanner_within. Qed.
Print Assumptions C06_utf8_scanner_within_input.

Theorem C06_time_no_fault : forall utc tag inp, time_from_der utc tag inp <> Fault.
Proof. exact time_from_der_nofault. Qed.
Print Assumptions C06_time_no_fault.

Theorem C06_sm2_signature_no_fault : forall inp, sm2_sig_from_der inp <> Fault.
Proof. exact sm2_sig_from_der_nofault. Qed.
Print Assumptions C06_sm2_signature_no_fault.

Theorem C06_hex_no_fault : forall t, hex_to_bytes Fixed t <> Fault.
Proof. exact hex_to_bytes_fixed_nofault. Qed.
Print Assumptions C06_hex_no_fault.

Theorem C06_hex_output_within_capacity : forall t, hex_written t <= len t / 2.
Proof. exact hex_written_le. Qed.
Print Assumptions C06_hex_output_within_capacity.

Theorem C06_base64_block_no_fault : forall f n, decode_block_m Fixed f n <> Fault.
Proof. exact decode_block_m_fixed_nofault. Qed.
Print Assumptions C06_base64_block_no_fault.

Theorem C06_base64_block_capacity : forall f n o, decode_block f n = Ok o -> len o <= 3 * (n / 4).
Proof. exact decode_block_capacity. Qed.
Print Assumptions C06_base64_block_capacity.

Theorem C06_base64_decode_update_capacity : forall (buf inp : list N) (rv : Z) (buf' o : list N),
  decode_update buf inp = (rv, buf', o) ->
  len o <= 3 * ((len buf + len inp) / 4) /\ (len buf < 64 -> len buf' < 64) /\ (-1 <= rv <= 1)%Z.
Proof. exact decode_update_capacity. Qed.
Print Assumptions C06_base64_decode_update_capacity.

Theorem C06_base64_decode_finish_capacity : forall buf o, decode_finish buf = Ok o -> len o <= 3 * (len buf / 4).
Proof. exact decode_finish_capacity. Qed.
Print Assumptions C06_base64_decode_finish_capacity.

(* the 80-byte enc_data buffer: a decoding context never holds a blank, so its flush cannot fault *)
Theorem C06_base64_context_no_fault : forall (buf inp : list N) (rv : Z) (buf' o : list N),
  decode_update buf inp = (rv, buf', o) -> bufok buf -> bufok buf'.
Proof. exact decode_update_bufok. Qed.
Print Assumptions C06_base64_context_no_fault.

(* ---- PEM reader: declared capacity, local 128-byte line buffer, no Fault *)
Theorem C06_pem_read_no_fault : forall name inp maxlen, pem_read name inp maxlen <> Fault.
Proof. exact pem_read_nofault. Qed.
Print Assumptions C06_pem_read_no_fault.

Theorem C06_pem_read_within_capacity : forall name inp maxlen d rest,
  pem_read name inp maxlen = Ok (d, rest) -> len d <= maxlen.
Proof. exact pem_read_capacity. Qed.
Print Assumptions C06_pem_read_within_capacity.

Theorem C06_pem_read_line_buffer : forall inp raw rest buf rv buf' o, len buf < 64 ->
  fgets inp = Some (raw, rest) -> decode_update buf (chomp (cstr raw)) = (rv, buf', o) ->
  len (chomp (cstr raw)) <= 79 /\ len o <= 105 /\ len buf' < 64 /\ (bufok buf -> bufok buf').
Proof. exact pem_step_capacity. Qed.
Print Assumptions C06_pem_read_line_buffer.

Theorem C06_pem_read_consumes_prefix : forall name inp maxlen d rest,
  pem_read name inp maxlen = Ok (d, rest) -> exists pre, inp = pre ++ rest.
Proof. exact pem_read_rest_suffix. Qed.
Print Assumptions C06_pem_read_consumes_prefix.

(* ---- composite decoders: algorithm identifiers, PBES2 / EncryptedPrivateKeyInfo, SM2 ciphertext and keys *)
Theorem C06_algorithm_identifiers_no_fault : forall inp,
  pk_algor_from_der inp <> Fault /\ enc_algor_from_der inp <> Fault /\ pbkdf2_params_from_der inp <> Fault.
Proof. exact (fun inp => conj (pk_algor_from_der_nofault inp) (conj (enc_algor_from_der_nofault inp) (pbkdf2_params_from_der_nofault inp))). Qed.
Print Assumptions C06_algorithm_identifiers_no_fault.

Theorem C06_encrypted_private_key_info_no_fault : forall inp, p8e_from_der inp <> Fault.
Proof. exact p8e_from_der_nofault. Qed.
Print Assumptions C06_encrypted_private_key_info_no_fault.

Theorem C06_sm2_ciphertext_no_fault : forall inp, sm2_ct_from_der inp <> Fault.
Proof. exact sm2_ct_from_der_nofault. Qed.
Print Assumptions C06_sm2_ciphertext_no_fault.

Theorem C06_sm2_keys_no_fault : forall pub_of pt_ok inp,
  sm2_priv_from_der pub_of pt_ok inp <> Fault /\ sm2_p8_from_der pub_of pt_ok inp <> Fault.
Proof. exact (fun pub_of pt_ok inp => conj (sm2_priv_from_der_nofault pub_of pt_ok inp) (sm2_p8_from_der_nofault pub_of pt_ok inp)). Qed.
Print Assumptions C06_sm2_keys_no_fault.

Theorem C06_encrypted_key_open_no_fault : forall pub_of pt_ok kdf cbcdec pass inp,
  sm2_p8_open_c pub_of pt_ok kdf cbcdec pass inp <> Fault.
Proof. exact sm2_p8_open_c_nofault. Qed.
Print Assumptions C06_encrypted_key_open_no_fault.

(* ---- wave 5: the X.509 extension / name / certificate decoders (Codec/X509.v) and the SM9 key containers
   (Codec/Sm9Key.v).  [Fault] in these models is an access outside the buffer, a write past a capacity, or a
   loop that does not end within its fuel (the length of its data): never-Fault includes termination. *)
From GmVerif Require Import Codec.OidTables Codec.X509 Codec.X509Proofs Codec.Sm9Key Codec.Sm9KeyProofs.

Theorem C06_x509_digest_algorithm_no_fault :
  forall (fx : bool) (inp : list N), digest_algor_from_der fx inp <> Fault.
Proof. exact digest_algor_from_der_nofault. Qed.
Print Assumptions C06_x509_digest_algorithm_no_fault.

Theorem C06_x509_signature_algorithm_no_fault :
  forall inp : list N, sign_algor_from_der inp <> Fault.
Proof. exact sign_algor_from_der_nofault. Qed.
Print Assumptions C06_x509_signature_algorithm_no_fault.

Theorem C06_x509_pke_algorithm_no_fault :
  forall inp : list N, pke_algor_from_der inp <> Fault.
Proof. exact pke_algor_from_der_nofault. Qed.
Print Assumptions C06_x509_pke_algorithm_no_fault.

Theorem C06_x509_extension_id_no_fault :
  forall inp : list N, ext_id_from_der inp <> Fault.
Proof. exact ext_id_from_der_nofault. Qed.
Print Assumptions C06_x509_extension_id_no_fault.

Theorem C06_x509_extension_no_fault :
  forall inp : list N, ext_from_der inp <> Fault.
Proof. exact ext_from_der_nofault. Qed.
Print Assumptions C06_x509_extension_no_fault.

Theorem C06_x509_extensions_lookup_no_fault :
  forall (d : list N) (oid : Z), exts_get_ext_by_oid d oid <> Fault.
Proof. exact exts_get_ext_by_oid_nofault. Qed.
Print Assumptions C06_x509_extensions_lookup_no_fault.

Theorem C06_x509_other_name_no_fault :
  forall inp : list N, other_name_from_der inp <> Fault.
Proof. exact other_name_from_der_nofault. Qed.
Print Assumptions C06_x509_other_name_no_fault.

Theorem C06_x509_general_name_no_fault :
  forall inp : list N, general_name_from_der inp <> Fault.
Proof. exact general_name_from_der_nofault. Qed.
Print Assumptions C06_x509_general_name_no_fault.

Theorem C06_x509_general_names_scan_no_fault :
  forall (d : list N) (c : Z), general_names_scan d c <> Fault.
Proof. exact general_names_scan_nofault. Qed.
Print Assumptions C06_x509_general_names_scan_no_fault.

Theorem C06_x509_general_names_get_first_no_fault :
  forall (d : list N) (c : Z), general_names_get_first d c <> Fault.
Proof. exact general_names_get_first_nofault. Qed.
Print Assumptions C06_x509_general_names_get_first_no_fault.

Theorem C06_x509_uri_as_general_names_no_fault :
  forall (tag : N) (inp : list N), uri_as_general_names_from_der tag inp <> Fault.
Proof. exact uri_as_general_names_from_der_nofault. Qed.
Print Assumptions C06_x509_uri_as_general_names_no_fault.

Theorem C06_x509_authority_key_identifier_no_fault :
  forall inp : list N, aki_from_der inp <> Fault.
Proof. exact aki_from_der_nofault. Qed.
Print Assumptions C06_x509_authority_key_identifier_no_fault.

Theorem C06_x509_basic_constraints_no_fault :
  forall inp : list N, basic_constraints_from_der inp <> Fault.
Proof. exact basic_constraints_from_der_nofault. Qed.
Print Assumptions C06_x509_basic_constraints_no_fault.

Theorem C06_x509_display_text_no_fault :
  forall inp : list N, display_text_from_der inp <> Fault.
Proof. exact display_text_from_der_nofault. Qed.
Print Assumptions C06_x509_display_text_no_fault.

Theorem C06_x509_notice_reference_no_fault :
  forall (cap : N) (inp : list N), notice_reference_from_der cap inp <> Fault.
Proof. exact notice_reference_from_der_nofault. Qed.
Print Assumptions C06_x509_notice_reference_no_fault.

Theorem C06_x509_user_notice_no_fault :
  forall (cap : N) (inp : list N), user_notice_from_der cap inp <> Fault.
Proof. exact user_notice_from_der_nofault. Qed.
Print Assumptions C06_x509_user_notice_no_fault.

Theorem C06_x509_policy_qualifier_info_no_fault :
  forall inp : list N, policy_qualifier_info_from_der inp <> Fault.
Proof. exact policy_qualifier_info_from_der_nofault. Qed.
Print Assumptions C06_x509_policy_qualifier_info_no_fault.

Theorem C06_x509_cert_policy_id_no_fault :
  forall inp : list N, cert_policy_id_from_der inp <> Fault.
Proof. exact cert_policy_id_from_der_nofault. Qed.
Print Assumptions C06_x509_cert_policy_id_no_fault.

Theorem C06_x509_policy_information_no_fault :
  forall inp : list N, policy_information_from_der inp <> Fault.
Proof. exact policy_information_from_der_nofault. Qed.
Print Assumptions C06_x509_policy_information_no_fault.

Theorem C06_x509_policy_mapping_no_fault :
  forall inp : list N, policy_mapping_from_der inp <> Fault.
Proof. exact policy_mapping_from_der_nofault. Qed.
Print Assumptions C06_x509_policy_mapping_no_fault.

Theorem C06_x509_attribute_no_fault :
  forall inp : list N, attribute_from_der inp <> Fault.
Proof. exact attribute_from_der_nofault. Qed.
Print Assumptions C06_x509_attribute_no_fault.

Theorem C06_x509_general_subtree_no_fault :
  forall inp : list N, general_subtree_from_der inp <> Fault.
Proof. exact general_subtree_from_der_nofault. Qed.
Print Assumptions C06_x509_general_subtree_no_fault.

Theorem C06_x509_name_constraints_no_fault :
  forall inp : list N, name_constraints_from_der inp <> Fault.
Proof. exact name_constraints_from_der_nofault. Qed.
Print Assumptions C06_x509_name_constraints_no_fault.

Theorem C06_x509_policy_constraints_no_fault :
  forall inp : list N, policy_constraints_from_der inp <> Fault.
Proof. exact policy_constraints_from_der_nofault. Qed.
Print Assumptions C06_x509_policy_constraints_no_fault.

Theorem C06_x509_key_purpose_no_fault :
  forall inp : list N, key_purpose_from_der inp <> Fault.
Proof. exact key_purpose_from_der_nofault. Qed.
Print Assumptions C06_x509_key_purpose_no_fault.

Theorem C06_x509_ext_key_usage_within_capacity :
  forall (cap : N) (inp : list N),
  match ext_key_usage_from_der cap inp with
  | Ok (ids, _) => len ids <= cap
  | Fault => False
  | _ => True
  end.
Proof. exact ext_key_usage_from_der_safe. Qed.
Print Assumptions C06_x509_ext_key_usage_within_capacity.

Theorem C06_x509_distribution_point_name_no_fault :
  forall inp : list N, distribution_point_name_from_der inp <> Fault.
Proof. exact distribution_point_name_from_der_nofault. Qed.
Print Assumptions C06_x509_distribution_point_name_no_fault.

Theorem C06_x509_uri_as_distribution_point_name_no_fault :
  forall (u0 : ptr) (inp : list N), uri_as_dpn_from_der u0 inp <> Fault.
Proof. exact uri_as_dpn_from_der_nofault. Qed.
Print Assumptions C06_x509_uri_as_distribution_point_name_no_fault.

Theorem C06_x509_uri_as_explicit_distribution_point_name_no_fault :
  forall (u0 : ptr) (i : N) (inp : list N), uri_as_explicit_dpn_from_der u0 i inp <> Fault.
Proof. exact uri_as_explicit_dpn_from_der_nofault. Qed.
Print Assumptions C06_x509_uri_as_explicit_distribution_point_name_no_fault.

Theorem C06_x509_uri_as_distribution_point_no_fault :
  forall (u0 : ptr) (inp : list N), uri_as_dp_from_der u0 inp <> Fault.
Proof. exact uri_as_dp_from_der_nofault. Qed.
Print Assumptions C06_x509_uri_as_distribution_point_no_fault.

Theorem C06_x509_uri_as_distribution_points_no_fault :
  forall (fx : bool) (inp : list N), uri_as_dps_from_der fx inp <> Fault.
Proof. exact uri_as_dps_from_der_nofault. Qed.
Print Assumptions C06_x509_uri_as_distribution_points_no_fault.

Theorem C06_x509_access_method_no_fault :
  forall inp : list N, access_method_from_der inp <> Fault.
Proof. exact access_method_from_der_nofault. Qed.
Print Assumptions C06_x509_access_method_no_fault.

Theorem C06_x509_access_description_no_fault :
  forall inp : list N, access_description_from_der inp <> Fault.
Proof. exact access_description_from_der_nofault. Qed.
Print Assumptions C06_x509_access_description_no_fault.

Theorem C06_x509_authority_info_access_no_fault :
  forall inp : list N, aia_from_der inp <> Fault.
Proof. exact aia_from_der_nofault. Qed.
Print Assumptions C06_x509_authority_info_access_no_fault.

Theorem C06_x509_directory_name_no_fault :
  forall inp : list N, directory_name_from_der inp <> Fault.
Proof. exact directory_name_from_der_nofault. Qed.
Print Assumptions C06_x509_directory_name_no_fault.

Theorem C06_x509_explicit_directory_name_no_fault :
  forall (i : N) (inp : list N), explicit_directory_name_from_der i inp <> Fault.
Proof. exact explicit_directory_name_from_der_nofault. Qed.
Print Assumptions C06_x509_explicit_directory_name_no_fault.

Theorem C06_x509_edi_party_name_no_fault :
  forall inp : list N, edi_party_name_from_der inp <> Fault.
Proof. exact edi_party_name_from_der_nofault. Qed.
Print Assumptions C06_x509_edi_party_name_no_fault.

Theorem C06_x509_attr_type_and_value_no_fault :
  forall inp : list N, attr_type_and_value_from_der inp <> Fault.
Proof. exact attr_type_and_value_from_der_nofault. Qed.
Print Assumptions C06_x509_attr_type_and_value_no_fault.

Theorem C06_x509_rdn_check_no_fault :
  forall d : list N, rdn_check d <> Fault.
Proof. exact rdn_check_nofault. Qed.
Print Assumptions C06_x509_rdn_check_no_fault.

Theorem C06_x509_rdn_no_fault :
  forall inp : list N, rdn_from_der inp <> Fault.
Proof. exact rdn_from_der_nofault. Qed.
Print Assumptions C06_x509_rdn_no_fault.

Theorem C06_x509_name_check_no_fault :
  forall d : list N, name_check d <> Fault.
Proof. exact name_check_nofault. Qed.
Print Assumptions C06_x509_name_check_no_fault.

Theorem C06_x509_explicit_version_no_fault :
  forall (i : N) (inp : list N), explicit_version_from_der i inp <> Fault.
Proof. exact explicit_version_from_der_nofault. Qed.
Print Assumptions C06_x509_explicit_version_no_fault.

Theorem C06_x509_time_no_fault :
  forall inp : list N, x509_time_from_der inp <> Fault.
Proof. exact x509_time_from_der_nofault. Qed.
Print Assumptions C06_x509_time_no_fault.

Theorem C06_x509_validity_no_fault :
  forall inp : list N, validity_from_der inp <> Fault.
Proof. exact validity_from_der_nofault. Qed.
Print Assumptions C06_x509_validity_no_fault.

Theorem C06_x509_explicit_extensions_no_fault :
  forall (i : N) (inp : list N), explicit_exts_from_der i inp <> Fault.
Proof. exact explicit_exts_from_der_nofault. Qed.
Print Assumptions C06_x509_explicit_extensions_no_fault.

Theorem C06_x509_tbs_certificate_no_fault :
  forall (pt_ok : list N -> bool) (inp : list N), tbs_cert_from_der pt_ok inp <> Fault.
Proof. exact tbs_cert_from_der_nofault. Qed.
Print Assumptions C06_x509_tbs_certificate_no_fault.

Theorem C06_x509_signed_no_fault :
  forall inp : list N, signed_from_der inp <> Fault.
Proof. exact signed_from_der_nofault. Qed.
Print Assumptions C06_x509_signed_no_fault.

Theorem C06_x509_cert_get_details_no_fault :
  forall (pt_ok : list N -> bool) (a : list N), cert_get_details pt_ok a <> Fault.
Proof. exact cert_get_details_nofault. Qed.
Print Assumptions C06_x509_cert_get_details_no_fault.

Theorem C06_x509_certificate_no_fault :
  forall (pt_ok : list N -> bool) (inp : list N), cert_from_der pt_ok inp <> Fault.
Proof. exact cert_from_der_nofault. Qed.
Print Assumptions C06_x509_certificate_no_fault.

Theorem C06_loop_find_terminates_within_data :
  forall (A : Type) (step : list N -> res (A * list N)) (hit : A -> bool),
  (forall d : list N, step d <> Fault) ->
  shrinks step ->
  forall (fuel : nat) (d : list N), (length d <= fuel)%nat -> find_loop fuel step hit d <> Fault.
Proof. exact @find_loop_nofault. Qed.
Print Assumptions C06_loop_find_terminates_within_data.

Theorem C06_loop_fold_terminates_within_data :
  forall (A S : Type) (step : list N -> res (A * list N)) (cont : S -> bool) (upd : S -> A -> res S),
  (forall d : list N, step d <> Fault) ->
  shrinks step ->
  (forall (s : S) (a : A), upd s a <> Fault) ->
  forall (fuel : nat) (s : S) (d : list N),
  (length d <= fuel)%nat -> fold_loop fuel step cont upd s d <> Fault.
Proof. exact @fold_loop_nofault. Qed.
Print Assumptions C06_loop_fold_terminates_within_data.

Theorem C06_sm9_oid_no_fault :
  forall inp : list N, sm9_oid_from_der inp <> Fault.
Proof. exact sm9_oid_from_der_nofault. Qed.
Print Assumptions C06_sm9_oid_no_fault.

Theorem C06_sm9_algorithm_identifier_no_fault :
  forall inp : list N, sm9_algor_from_der inp <> Fault.
Proof. exact sm9_algor_from_der_nofault. Qed.
Print Assumptions C06_sm9_algorithm_identifier_no_fault.

Theorem C06_sm9_private_key_info_no_fault :
  forall inp : list N, s9_pki_from_der inp <> Fault.
Proof. exact s9_pki_from_der_nofault. Qed.
Print Assumptions C06_sm9_private_key_info_no_fault.

Theorem C06_sm9_sign_master_key_no_fault :
  forall (g2_ok : list N -> bool) (inp : list N), sign_msk_from_der g2_ok inp <> Fault.
Proof. exact sign_msk_from_der_nofault. Qed.
Print Assumptions C06_sm9_sign_master_key_no_fault.

Theorem C06_sm9_sign_master_public_key_no_fault :
  forall (g2_ok : list N -> bool) (inp : list N), sign_mpk_from_der g2_ok inp <> Fault.
Proof. exact sign_mpk_from_der_nofault. Qed.
Print Assumptions C06_sm9_sign_master_public_key_no_fault.

Theorem C06_sm9_sign_key_no_fault :
  forall (g1_ok g2_ok : list N -> bool) (inp : list N), sign_key_from_der g1_ok g2_ok inp <> Fault.
Proof. exact sign_key_from_der_nofault. Qed.
Print Assumptions C06_sm9_sign_key_no_fault.

Theorem C06_sm9_enc_master_key_no_fault :
  forall (g1_ok : list N -> bool) (inp : list N), enc_msk_from_der g1_ok inp <> Fault.
Proof. exact enc_msk_from_der_nofault. Qed.
Print Assumptions C06_sm9_enc_master_key_no_fault.

Theorem C06_sm9_enc_master_public_key_no_fault :
  forall (g1_ok : list N -> bool) (inp : list N), enc_mpk_from_der g1_ok inp <> Fault.
Proof. exact enc_mpk_from_der_nofault. Qed.
Print Assumptions C06_sm9_enc_master_public_key_no_fault.

Theorem C06_sm9_enc_key_no_fault :
  forall (g1_ok g2_ok : list N -> bool) (inp : list N), enc_key_from_der g1_ok g2_ok inp <> Fault.
Proof. exact enc_key_from_der_nofault. Qed.
Print Assumptions C06_sm9_enc_key_no_fault.

Theorem C06_sm9_signature_no_fault :
  forall (g1_ok : list N -> bool) (inp : list N), sm9_sig_from_der g1_ok inp <> Fault.
Proof. exact sm9_sig_from_der_nofault. Qed.
Print Assumptions C06_sm9_signature_no_fault.

Theorem C06_sm9_ciphertext_no_fault :
  forall (g1_ok : list N -> bool) (inp : list N), sm9_ct_from_der g1_ok inp <> Fault.
Proof. exact sm9_ct_from_der_nofault. Qed.
Print Assumptions C06_sm9_ciphertext_no_fault.

Theorem C06_sm9_encrypted_key_open_no_fault :
  forall (g1_ok g2_ok : list N -> bool) (kdf : list N -> list N -> Z -> list N)
  (cbcdec : list N -> list N -> list N -> option (list N)) (pass inp : list N),
  sign_msk_open g2_ok kdf cbcdec pass inp <> Fault /\
  sign_key_open g1_ok g2_ok kdf cbcdec pass inp <> Fault /\
  enc_msk_open g1_ok kdf cbcdec pass inp <> Fault /\
  enc_key_open g1_ok g2_ok kdf cbcdec pass inp <> Fault.
Proof. exact sm9_open_nofault. Qed.
Print Assumptions C06_sm9_encrypted_key_open_no_fault.


(* ---- wave 5: CRL and certificate request decoders (Codec/Crl.v) *)
From GmVerif Require Import Codec.Crl Codec.CrlProofs.

Theorem C06_crl_reason_no_fault :
  forall inp : list N, crl_reason_from_der inp <> Fault.
Proof. exact crl_reason_from_der_nofault. Qed.
Print Assumptions C06_crl_reason_no_fault.

Theorem C06_crl_entry_extension_id_no_fault :
  forall inp : list N, crl_entry_ext_id_from_der inp <> Fault.
Proof. exact crl_entry_ext_id_from_der_nofault. Qed.
Print Assumptions C06_crl_entry_extension_id_no_fault.

Theorem C06_crl_entry_extension_no_fault :
  forall inp : list N, crl_entry_ext_from_der inp <> Fault.
Proof. exact crl_entry_ext_from_der_nofault. Qed.
Print Assumptions C06_crl_entry_extension_no_fault.

Theorem C06_crl_entry_extension_values_no_fault :
  forall (rs dt : Z) (ci : ptr) (inp : list N), crl_entry_ext_from_der_ex rs dt ci inp <> Fault.
Proof. exact crl_entry_ext_from_der_ex_nofault. Qed.
Print Assumptions C06_crl_entry_extension_values_no_fault.

Theorem C06_crl_entry_extensions_get_no_fault :
  forall d : list N, crl_entry_exts_get d <> Fault.
Proof. exact crl_entry_exts_get_nofault. Qed.
Print Assumptions C06_crl_entry_extensions_get_no_fault.

Theorem C06_crl_entry_extensions_no_fault :
  forall inp : list N, crl_entry_exts_from_der inp <> Fault.
Proof. exact crl_entry_exts_from_der_nofault. Qed.
Print Assumptions C06_crl_entry_extensions_no_fault.

Theorem C06_crl_entry_extensions_check_no_fault :
  forall d : list N, crl_entry_exts_check d <> Fault.
Proof. exact crl_entry_exts_check_nofault. Qed.
Print Assumptions C06_crl_entry_extensions_check_no_fault.

Theorem C06_crl_revoked_cert_no_fault :
  forall inp : list N, revoked_cert_from_der inp <> Fault.
Proof. exact revoked_cert_from_der_nofault. Qed.
Print Assumptions C06_crl_revoked_cert_no_fault.

Theorem C06_crl_revoked_cert_values_no_fault :
  forall inp : list N, revoked_cert_from_der_ex inp <> Fault.
Proof. exact revoked_cert_from_der_ex_nofault. Qed.
Print Assumptions C06_crl_revoked_cert_values_no_fault.

Theorem C06_crl_find_by_serial_in_list_no_fault :
  forall d serial : list N, revoked_certs_find_by_serial d serial <> Fault.
Proof. exact revoked_certs_find_by_serial_nofault. Qed.
Print Assumptions C06_crl_find_by_serial_in_list_no_fault.

Theorem C06_crl_extension_id_no_fault :
  forall inp : list N, crl_ext_id_from_der_ex inp <> Fault.
Proof. exact crl_ext_id_from_der_ex_nofault. Qed.
Print Assumptions C06_crl_extension_id_no_fault.

Theorem C06_crl_issuing_distribution_point_no_fault :
  forall inp : list N, issuing_distribution_point_from_der inp <> Fault.
Proof. exact issuing_distribution_point_from_der_nofault. Qed.
Print Assumptions C06_crl_issuing_distribution_point_no_fault.

Theorem C06_crl_extension_no_fault :
  forall inp : list N, crl_ext_from_der_ex inp <> Fault.
Proof. exact crl_ext_from_der_ex_nofault. Qed.
Print Assumptions C06_crl_extension_no_fault.

Theorem C06_crl_extensions_check_no_fault :
  forall d : list N, crl_exts_check d <> Fault.
Proof. exact crl_exts_check_nofault. Qed.
Print Assumptions C06_crl_extensions_check_no_fault.

Theorem C06_crl_tbs_no_fault :
  forall inp : list N, tbs_crl_from_der inp <> Fault.
Proof. exact tbs_crl_from_der_nofault. Qed.
Print Assumptions C06_crl_tbs_no_fault.

Theorem C06_crl_parse_no_fault :
  forall inp : list N, crl_from_der_ex inp <> Fault.
Proof. exact crl_from_der_ex_nofault. Qed.
Print Assumptions C06_crl_parse_no_fault.

Theorem C06_crl_get_details_no_fault :
  forall a : list N, crl_get_details a <> Fault.
Proof. exact crl_get_details_nofault. Qed.
Print Assumptions C06_crl_get_details_no_fault.

Theorem C06_crl_check_no_fault :
  forall (a : list N) (now : Z), crl_check a now <> Fault.
Proof. exact crl_check_nofault. Qed.
Print Assumptions C06_crl_check_no_fault.

Theorem C06_crl_get_issuer_no_fault :
  forall a : list N, crl_get_issuer a <> Fault.
Proof. exact crl_get_issuer_nofault. Qed.
Print Assumptions C06_crl_get_issuer_no_fault.

Theorem C06_crl_get_revoked_certs_no_fault :
  forall a : list N, crl_get_revoked_certs a <> Fault.
Proof. exact crl_get_revoked_certs_nofault. Qed.
Print Assumptions C06_crl_get_revoked_certs_no_fault.

Theorem C06_crl_find_revoked_cert_no_fault :
  forall a serial : list N, crl_find_revoked_cert_by_serial_number a serial <> Fault.
Proof. exact crl_find_revoked_cert_by_serial_number_nofault. Qed.
Print Assumptions C06_crl_find_revoked_cert_no_fault.

Theorem C06_crl_from_der_no_fault :
  forall inp : list N, crl_from_der inp <> Fault.
Proof. exact crl_from_der_nofault. Qed.
Print Assumptions C06_crl_from_der_no_fault.

Theorem C06_request_info_no_fault :
  forall (pt_ok : list N -> bool) (inp : list N), request_info_from_der pt_ok inp <> Fault.
Proof. exact request_info_from_der_nofault. Qed.
Print Assumptions C06_request_info_no_fault.

Theorem C06_request_get_details_no_fault :
  forall (pt_ok : list N -> bool) (a : list N), req_get_details pt_ok a <> Fault.
Proof. exact req_get_details_nofault. Qed.
Print Assumptions C06_request_get_details_no_fault.

Theorem C06_request_from_der_no_fault :
  forall (pt_ok : list N -> bool) (inp : list N), req_from_der pt_ok inp <> Fault.
Proof. exact req_from_der_nofault. Qed.
Print Assumptions C06_request_from_der_no_fault.


(* ---- wave 5: CMS decoders (Codec/Cms.v).  digest_algors[max] is an explicit capacity; the decrypting levels write the
   caller's content buffer (capacity ccap, the rule proved is "a buffer as long as the input suffices") and key[32];
   SM4-CBC, SM2 decryption, SM3 and SM2 verification are parameters of the keyed models. *)
From GmVerif Require Import Codec.Cms Codec.CmsProofs.

Theorem C06_cms_x509_encryption_algorithm_no_fault :
  forall inp : list N, x509_enc_algor_from_der inp <> Fault.
Proof. exact x509_enc_algor_from_der_nofault. Qed.
Print Assumptions C06_cms_x509_encryption_algorithm_no_fault.

Theorem C06_cms_content_type_no_fault :
  forall inp : list N, cms_content_type_from_der inp <> Fault.
Proof. exact cms_content_type_from_der_nofault. Qed.
Print Assumptions C06_cms_content_type_no_fault.

Theorem C06_cms_content_info_no_fault :
  forall inp : list N, cms_content_info_from_der inp <> Fault.
Proof. exact cms_content_info_from_der_nofault. Qed.
Print Assumptions C06_cms_content_info_no_fault.

Theorem C06_cms_data_no_fault :
  forall inp : list N, cms_data_from_der inp <> Fault.
Proof. exact cms_data_from_der_nofault. Qed.
Print Assumptions C06_cms_data_no_fault.

Theorem C06_cms_enced_content_info_no_fault :
  forall inp : list N, cms_enced_content_info_from_der inp <> Fault.
Proof. exact cms_enced_content_info_from_der_nofault. Qed.
Print Assumptions C06_cms_enced_content_info_no_fault.

Theorem C06_cms_encrypted_data_no_fault :
  forall inp : list N, cms_encrypted_data_from_der inp <> Fault.
Proof. exact cms_encrypted_data_from_der_nofault. Qed.
Print Assumptions C06_cms_encrypted_data_no_fault.

Theorem C06_cms_issuer_and_serial_number_no_fault :
  forall inp : list N, cms_issuer_and_serial_number_from_der inp <> Fault.
Proof. exact cms_issuer_and_serial_number_from_der_nofault. Qed.
Print Assumptions C06_cms_issuer_and_serial_number_no_fault.

Theorem C06_cms_signer_info_no_fault :
  forall (fx : bool) (inp : list N), cms_signer_info_from_der fx inp <> Fault.
Proof. exact cms_signer_info_from_der_nofault. Qed.
Print Assumptions C06_cms_signer_info_no_fault.

Theorem C06_cms_signer_infos_no_fault :
  forall inp : list N, cms_signer_infos_from_der inp <> Fault.
Proof. exact cms_signer_infos_from_der_nofault. Qed.
Print Assumptions C06_cms_signer_infos_no_fault.

Theorem C06_cms_recipient_infos_no_fault :
  forall inp : list N, cms_recipient_infos_from_der inp <> Fault.
Proof. exact cms_recipient_infos_from_der_nofault. Qed.
Print Assumptions C06_cms_recipient_infos_no_fault.

Theorem C06_cms_digest_algorithms_within_capacity :
  forall (fx fxcap : bool) (cap maxn : N) (inp : list N),
  da_bound fxcap maxn <= cap ->
  match cms_digest_algors_from_der fx fxcap cap maxn inp with
  | Ok (ids, _) => len ids <= da_bound fxcap maxn /\ ids <> []
  | Fault => False
  | _ => True
  end.
Proof. exact cms_digest_algors_from_der_safe. Qed.
Print Assumptions C06_cms_digest_algorithms_within_capacity.

Theorem C06_cms_digest_algorithms_no_fault :
  forall (fx fxcap : bool) (cap maxn : N) (inp : list N),
  da_bound fxcap maxn <= cap -> cms_digest_algors_from_der fx fxcap cap maxn inp <> Fault.
Proof. exact cms_digest_algors_from_der_nofault. Qed.
Print Assumptions C06_cms_digest_algorithms_no_fault.

Theorem C06_cms_signed_data_within_capacity :
  forall (fx fxcap : bool) (cap maxn : N) (inp : list N),
  da_bound fxcap maxn <= cap ->
  match cms_signed_data_from_der fx fxcap cap maxn inp with
  | Ok (_, ids, _, _, _, _, _, _) => len ids <= da_bound fxcap maxn /\ ids <> []
  | Fault => False
  | _ => True
  end.
Proof. exact cms_signed_data_from_der_safe. Qed.
Print Assumptions C06_cms_signed_data_within_capacity.

Theorem C06_cms_signed_data_no_fault :
  forall (fx fxcap : bool) (cap maxn : N) (inp : list N),
  da_bound fxcap maxn <= cap -> cms_signed_data_from_der fx fxcap cap maxn inp <> Fault.
Proof. exact cms_signed_data_from_der_nofault. Qed.
Print Assumptions C06_cms_signed_data_no_fault.

Theorem C06_cms_recipient_info_no_fault :
  forall inp : list N, cms_recipient_info_from_der inp <> Fault.
Proof. exact cms_recipient_info_from_der_nofault. Qed.
Print Assumptions C06_cms_recipient_info_no_fault.

Theorem C06_cms_enveloped_data_no_fault :
  forall inp : list N, cms_enveloped_data_from_der inp <> Fault.
Proof. exact cms_enveloped_data_from_der_nofault. Qed.
Print Assumptions C06_cms_enveloped_data_no_fault.

Theorem C06_cms_signed_and_enveloped_data_within_capacity :
  forall (fx fxcap : bool) (cap maxn : N) (inp : list N),
  da_bound fxcap maxn <= cap ->
  match cms_signed_and_enveloped_data_from_der fx fxcap cap maxn inp with
  | Ok (_, _, ids, _, _, _, _, _) => len ids <= da_bound fxcap maxn /\ ids <> []
  | Fault => False
  | _ => True
  end.
Proof. exact cms_signed_and_enveloped_data_from_der_safe. Qed.
Print Assumptions C06_cms_signed_and_enveloped_data_within_capacity.

Theorem C06_cms_signed_and_enveloped_data_no_fault :
  forall (fx fxcap : bool) (cap maxn : N) (inp : list N),
  da_bound fxcap maxn <= cap -> cms_signed_and_enveloped_data_from_der fx fxcap cap maxn inp <> Fault.
Proof. exact cms_signed_and_enveloped_data_from_der_nofault. Qed.
Print Assumptions C06_cms_signed_and_enveloped_data_no_fault.

Theorem C06_cms_key_agreement_info_no_fault :
  forall (pt_ok : list N -> bool) (inp : list N), cms_key_agreement_info_from_der pt_ok inp <> Fault.
Proof. exact cms_key_agreement_info_from_der_nofault. Qed.
Print Assumptions C06_cms_key_agreement_info_no_fault.

Theorem C06_cms_enced_content_decrypt_within_caller_buffer :
  (list N -> bool) ->
  forall cbcdec : list N -> list N -> list N -> option (list N),
  (list N -> option (list N)) ->
  (list N -> list N) ->
  (list N -> list N -> list N -> bool) ->
  forall (ccap : N) (key inp : list N),
  cbc_shortens cbcdec ->
  len inp <= ccap ->
  match cms_enced_content_info_decrypt_from_der cbcdec ccap key inp with
  | Ok (_, _, pt, _, _, _) => len pt <= ccap
  | Fault => False
  | _ => True
  end.
Proof. exact cms_enced_content_info_decrypt_from_der_safe. Qed.
Print Assumptions C06_cms_enced_content_decrypt_within_caller_buffer.

Theorem C06_cms_encrypted_data_decrypt_within_caller_buffer :
  (list N -> bool) ->
  forall cbcdec : list N -> list N -> list N -> option (list N),
  (list N -> option (list N)) ->
  (list N -> list N) ->
  (list N -> list N -> list N -> bool) ->
  forall (ccap : N) (key inp : list N),
  cbc_shortens cbcdec ->
  len inp <= ccap ->
  match cms_encrypted_data_decrypt_from_der cbcdec ccap key inp with
  | Ok (_, _, pt, _, _, _) => len pt <= ccap
  | Fault => False
  | _ => True
  end.
Proof. exact cms_encrypted_data_decrypt_from_der_safe. Qed.
Print Assumptions C06_cms_encrypted_data_decrypt_within_caller_buffer.

Theorem C06_cms_recipient_info_decrypt_within_key_buffer :
  forall (sm2dec : list N -> option (list N)) (ri rs : list N) (maxlen : N) (inp : list N),
  match cms_recipient_info_decrypt_from_der sm2dec ri rs maxlen inp with
  | Ok (Some k, _) => len k <= maxlen
  | Fault => False
  | _ => True
  end.
Proof. exact cms_recipient_info_decrypt_from_der_safe. Qed.
Print Assumptions C06_cms_recipient_info_decrypt_within_key_buffer.

Theorem C06_cms_recipient_infos_open_within_key_buffer :
  forall (sm2dec : list N -> option (list N)) (ri rs ris : list N),
  match cms_recipient_infos_open sm2dec ri rs ris with
  | Ok key => len key <= 32
  | Fault => False
  | _ => True
  end.
Proof. exact cms_recipient_infos_open_safe. Qed.
Print Assumptions C06_cms_recipient_infos_open_within_key_buffer.

Theorem C06_cms_enveloped_data_decrypt_within_caller_buffer :
  (list N -> bool) ->
  forall (cbcdec : list N -> list N -> list N -> option (list N)) (sm2dec : list N -> option (list N)),
  (list N -> list N) ->
  (list N -> list N -> list N -> bool) ->
  forall (ccap : N) (ri rs inp : list N),
  cbc_shortens cbcdec ->
  len inp <= ccap ->
  match cms_enveloped_data_decrypt_from_der cbcdec sm2dec ccap ri rs inp with
  | Ok (_, pt, _, _, _, _) => len pt <= ccap
  | Fault => False
  | _ => True
  end.
Proof. exact cms_enveloped_data_decrypt_from_der_safe. Qed.
Print Assumptions C06_cms_enveloped_data_decrypt_within_caller_buffer.

Theorem C06_cms_certs_lookup_no_fault :
  forall pt_ok : list N -> bool,
  (list N -> list N -> list N -> option (list N)) ->
  (list N -> option (list N)) ->
  (list N -> list N) ->
  (list N -> list N -> list N -> bool) ->
  forall d issuer serial : list N,
  certs_get_cert_by_issuer_and_serial_number pt_ok d issuer serial <> Fault.
Proof. exact certs_get_cert_by_issuer_and_serial_number_nofault. Qed.
Print Assumptions C06_cms_certs_lookup_no_fault.

Theorem C06_cms_signer_info_verify_no_fault :
  forall pt_ok : list N -> bool,
  (list N -> list N -> list N -> option (list N)) ->
  (list N -> option (list N)) ->
  forall (sm3 : list N -> list N) (sm2ver : list N -> list N -> list N -> bool) 
  (fx : bool) (pre certs inp : list N),
  cms_signer_info_verify_from_der pt_ok sm3 sm2ver fx pre certs inp <> Fault.
Proof. exact cms_signer_info_verify_from_der_nofault. Qed.
Print Assumptions C06_cms_signer_info_verify_no_fault.

Theorem C06_cms_signer_infos_verify_no_fault :
  forall pt_ok : list N -> bool,
  (list N -> list N -> list N -> option (list N)) ->
  (list N -> option (list N)) ->
  forall (sm3 : list N -> list N) (sm2ver : list N -> list N -> list N -> bool) 
  (fx : bool) (pre certs sis : list N),
  cms_signer_infos_verify pt_ok sm3 sm2ver fx pre certs sis <> Fault.
Proof. exact cms_signer_infos_verify_nofault. Qed.
Print Assumptions C06_cms_signer_infos_verify_no_fault.

Theorem C06_cms_content_info_header_within_128 :
  (list N -> bool) ->
  (list N -> list N -> list N -> option (list N)) ->
  (list N -> option (list N)) ->
  (list N -> list N) ->
  (list N -> list N -> list N -> bool) ->
  forall (ct : Z) (n : N) (hdr : list N), cms_content_info_header_to_der ct n = Ok hdr -> len hdr <= 24.
Proof. exact cms_content_info_header_to_der_len. Qed.
Print Assumptions C06_cms_content_info_header_within_128.

Theorem C06_cms_signed_data_verify_no_fault :
  forall pt_ok : list N -> bool,
  (list N -> list N -> list N -> option (list N)) ->
  (list N -> option (list N)) ->
  forall (sm3 : list N -> list N) (sm2ver : list N -> list N -> list N -> bool) 
  (fx : bool) (inp : list N), cms_signed_data_verify_from_der pt_ok sm3 sm2ver fx true inp <> Fault.
Proof. exact cms_signed_data_verify_from_der_nofault. Qed.
Print Assumptions C06_cms_signed_data_verify_no_fault.

Theorem C06_cms_signed_and_enveloped_decipher_within_caller_buffer :
  forall (pt_ok : list N -> bool) (cbcdec : list N -> list N -> list N -> option (list N))
  (sm2dec : list N -> option (list N)) (sm3 : list N -> list N)
  (sm2ver : list N -> list N -> list N -> bool) (fx : bool) (ccap : N) (ri rs inp : list N),
  cbc_shortens cbcdec ->
  len inp <= ccap ->
  match
  cms_signed_and_enveloped_data_decipher_from_der pt_ok cbcdec sm2dec sm3 sm2ver fx true ccap ri rs
  inp
  with
  | Ok (_, pt, _, _, _, _, _, _, _) => len pt <= ccap
  | Fault => False
  | _ => True
  end.
Proof. exact cms_signed_and_enveloped_data_decipher_from_der_safe. Qed.
Print Assumptions C06_cms_signed_and_enveloped_decipher_within_caller_buffer.

Theorem C06_refuted_cms_digest_algorithms_overrun :
  let sm3a := [48; 10; 6; 8; 42; 129; 28; 207; 85; 1; 131; 17] in
  let inp := [49; 60] ++ sm3a ++ sm3a ++ sm3a ++ sm3a ++ sm3a in
  cms_digest_algors_from_der true false 4 4 inp = Fault /\
  cms_digest_algors_from_der true true 4 4 inp = Err /\
  cms_digest_algors_from_der true false 5 4 inp = Ok ([13%Z; 13%Z; 13%Z; 13%Z; 13%Z], []).
Proof. exact cms_digest_algors_asis_overrun. Qed.
Print Assumptions C06_refuted_cms_digest_algorithms_overrun.


(* ---- the intermediate PKCS#5 / PKCS#8 levels and identifier decoders, each on its own *)
Theorem C06_named_curve_no_fault :
  forall inp : list N, curve_from_der inp <> Fault.
Proof. exact curve_from_der_nofault. Qed.
Print Assumptions C06_named_curve_no_fault.

Theorem C06_sm2_algorithm_identifier_no_fault :
  forall inp : list N, sm2_algor_from_der inp <> Fault.
Proof. exact sm2_algor_from_der_nofault. Qed.
Print Assumptions C06_sm2_algorithm_identifier_no_fault.

Theorem C06_pbkdf2_prf_no_fault :
  forall inp : list N, prf_from_der inp <> Fault.
Proof. exact prf_from_der_nofault. Qed.
Print Assumptions C06_pbkdf2_prf_no_fault.

Theorem C06_pbkdf2_algorithm_no_fault :
  forall inp : list N, pbkdf2_algor_from_der inp <> Fault.
Proof. exact pbkdf2_algor_from_der_nofault. Qed.
Print Assumptions C06_pbkdf2_algorithm_no_fault.

Theorem C06_pbes2_enc_algorithm_no_fault :
  forall inp : list N, pbes2_enc_algor_from_der inp <> Fault.
Proof. exact pbes2_enc_algor_from_der_nofault. Qed.
Print Assumptions C06_pbes2_enc_algorithm_no_fault.

Theorem C06_pbes2_params_no_fault :
  forall inp : list N, pbes2_params_from_der inp <> Fault.
Proof. exact pbes2_params_from_der_nofault. Qed.
Print Assumptions C06_pbes2_params_no_fault.

Theorem C06_pbes2_algorithm_no_fault :
  forall inp : list N, pbes2_algor_from_der inp <> Fault.
Proof. exact pbes2_algor_from_der_nofault. Qed.
Print Assumptions C06_pbes2_algorithm_no_fault.

Theorem C06_oid_table_lookup_no_fault :
  forall (tab : oid_tab) (inp : list N), oid_info_from_der tab inp <> Fault.
Proof. exact oid_info_from_der_nofault. Qed.
Print Assumptions C06_oid_table_lookup_no_fault.


(* ---- witnesses: the literal model of the pinned tree faults *)
Theorem C06_refuted_oid_33_arcs :
  oid_from_octets AsIs 32 (42 :: repeat 1 31) = Fault /\ oid_from_octets Fixed 32 (42 :: repeat 1 31) = Err.
Proof. exact oid_33_arcs_asis_faults. Qed.
Print Assumptions C06_refuted_oid_33_arcs.

Theorem C06_refuted_seq_of_int_overflow :
  seq_of_int_from_der AsIs 1 1 [48; 6; 2; 1; 1; 2; 1; 2] = Fault /\
  seq_of_int_from_der Fixed 1 1 [48; 6; 2; 1; 1; 2; 1; 2] = Err.
Proof. exact seq_of_int_asis_faults. Qed.
Print Assumptions C06_refuted_seq_of_int_overflow.

Theorem C06_refuted_int_shift : int_from_der AsIs 2 [2; 5; 0; 128; 0; 0; 0] = Fault.
Proof. exact int_from_der_asis_faults. Qed.
Print Assumptions C06_refuted_int_shift.

Theorem C06_refuted_hex_odd : hex_to_bytes AsIs [48; 49; 50] = Fault /\ hex_to_bytes Fixed [48; 49; 50] = Err.
Proof. exact hex_odd_asis_faults. Qed.
Print Assumptions C06_refuted_hex_odd.

Theorem C06_refuted_base64_blank_block : decode_block [32; 32; 32; 32] 4 = Fault.
Proof. exact decode_block_blank_faults. Qed.
Print Assumptions C06_refuted_base64_blank_block.
