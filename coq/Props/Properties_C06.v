(* C06 — No memory-safety violation on untrusted input: the modelled decoders.
   In the models (Codec/Der.v, Hex.v, Base64.v, Time.v) every read of the C code is a pattern
   match on the bytes that are really there and every write into a caller array checks the
   declared capacity; [Fault] is an access outside.  The theorems say: for EVERY input no
   decoder reaches [Fault], the unread remainder is a suffix of the input (consumed <= length),
   and counts / output sizes stay within the declared capacities.  They are about [Fixed], the
   code after the proposed patches; the witnesses at the end show the pinned code faulting. *)
From GmVerif Require Import Base.ListX Base.Bytes Codec.Der Codec.DerProofs Codec.SafetyProofs
  Codec.Hex Codec.HexProofs Codec.Base64 Codec.Base64Proofs Codec.Base64Safety Codec.Time Codec.TimeProofs Codec.Pkcs Codec.Pem Codec.PemProofs Codec.PkcsProofs Codec.PkcsOpen.
Local Open Scope N_scope.

Theorem C06_length_no_fault : forall inp, len_from_der inp <> Fault.
Proof. exact len_from_der_nofault. Qed.
Print Assumptions C06_length_no_fault.

Theorem C06_length_consumes_prefix : forall inp l rest,
  len_from_der inp = Ok (l, rest) -> l <= len rest /\ exists pre, inp = pre ++ rest /\ pre <> [].
Proof. exact len_from_der_consumes. Qed.
Print Assumptions C06_length_consumes_prefix.

Theorem C06_type_no_fault : forall tag inp, type_from_der tag inp <> Fault.
Proof. exact type_from_der_nofault. Qed.
Print Assumptions C06_type_no_fault.

Theorem C06_type_within_input : forall tag inp d rest,
  type_from_der tag inp = Ok (d, rest) -> proper_suffix_of rest inp /\ len d <= len inp.
Proof. exact type_from_der_suffix. Qed.
Print Assumptions C06_type_within_input.

Theorem C06_nonempty_type_no_fault : forall tag inp, nonempty_type_from_der tag inp <> Fault.
Proof. exact nonempty_type_from_der_nofault. Qed.
Print Assumptions C06_nonempty_type_no_fault.

Theorem C06_any_no_fault : forall inp, any_type_from_der inp <> Fault /\ any_from_der inp <> Fault.
Proof. exact any_nofault. Qed.
Print Assumptions C06_any_no_fault.

Theorem C06_any_within_input : forall inp a rest, any_from_der inp = Ok (a, rest) -> inp = a ++ rest /\ a <> [].
Proof. exact any_from_der_suffix. Qed.
Print Assumptions C06_any_within_input.

Theorem C06_boolean_no_fault : forall tag inp, boolean_from_der tag inp <> Fault.
Proof. exact boolean_from_der_nofault. Qed.
Print Assumptions C06_boolean_no_fault.

Theorem C06_integer_no_fault : forall tag inp, integer_from_der tag inp <> Fault.
Proof. exact integer_from_der_nofault. Qed.
Print Assumptions C06_integer_no_fault.

Theorem C06_integer_within_input : forall tag inp a rest,
  integer_from_der tag inp = Ok (a, rest) -> proper_suffix_of rest inp.
Proof. exact integer_from_der_suffix. Qed.
Print Assumptions C06_integer_within_input.

Theorem C06_int_no_fault : forall tag inp, int_from_der Fixed tag inp <> Fault.
Proof. exact int_from_der_fixed_nofault. Qed.
Print Assumptions C06_int_no_fault.

Theorem C06_bit_string_no_fault : forall m tag inp,
  bit_string_from_der m tag inp <> Fault /\ bit_octets_from_der m tag inp <> Fault /\ bits_from_der m tag inp <> Fault.
Proof. exact bit_string_family_nofault. Qed.
Print Assumptions C06_bit_string_no_fault.

Theorem C06_null_no_fault : forall inp, null_from_der inp <> Fault.
Proof. exact null_from_der_nofault. Qed.
Print Assumptions C06_null_no_fault.

(* nodes[32]: at most 32 arcs are written, none beyond the array *)
Theorem C06_oid_octets_capacity : forall cap inp, OID_MAX_NODES <= cap ->
  match oid_from_octets Fixed cap inp with
  | Ok ns => 2 <= len ns <= OID_MAX_NODES
  | Fault => False
  | _ => True
  end.
Proof. exact oid_from_octets_fixed_safe. Qed.
Print Assumptions C06_oid_octets_capacity.

Theorem C06_oid_der_no_fault : forall cap tag inp, OID_MAX_NODES <= cap -> oid_from_der Fixed cap tag inp <> Fault.
Proof. exact oid_from_der_fixed_nofault. Qed.
Print Assumptions C06_oid_der_no_fault.

Theorem C06_oid_arc_no_fault : forall m inp, node_from_base128 m inp <> Fault.
Proof. exact node_from_base128_nofault. Qed.
Print Assumptions C06_oid_arc_no_fault.

(* nums[max_nums]: at most max_nums elements are written *)
Theorem C06_seq_of_int_capacity : forall cap maxn inp, maxn <= cap ->
  match seq_of_int_from_der Fixed cap maxn inp with
  | Ok (ns, rest) => len ns <= maxn /\ proper_suffix_of rest inp
  | Fault => False
  | _ => True
  end.
Proof. exact seq_of_int_from_der_fixed_safe. Qed.
Print Assumptions C06_seq_of_int_capacity.

Theorem C06_string_no_fault : forall valid tag inp, string_from_der valid tag inp <> Fault.
Proof. exact string_from_der_nofault. Qed.
Print Assumptions C06_string_no_fault.

Theorem C06_utf8_scanner_within_input : forall m inp,
  utf8char_from_bytes m inp <> Fault /\ (forall r, utf8char_from_bytes m inp = Ok r -> proper_suffix_of r inp).
Proof. exact utf8_scanner_within. Qed.
Print Assumptions C06_utf8_scanner_within_input.

Theorem C06_time_no_fault : forall utc tag inp, time_from_der utc tag inp <> Fault.
Proof. exact time_from_der_nofault. Qed.
Print Assumptions C06_time_no_fault.

Theorem C06_sm2_signature_no_fault : forall inp, sm2_sig_from_der inp <> Fault.
Proof. exact sm2_sig_from_der_nofault. Qed.
Print Assumptions C06_sm2_signature_no_fault.

Theorem C06_hex_no_fault : forall t, hex_to_bytes Fixed t <> Fault.
Proof. exact hex_to_bytes_fixed_nofault. Qed.
Print Assumptions C06_hex_no_fault.

Theorem C06_hex_output_within_capacity : forall t, hex_written t <= len t / 2.
Proof. exact hex_written_le. Qed.
Print Assumptions C06_hex_output_within_capacity.

Theorem C06_base64_block_no_fault : forall f n, decode_block_m Fixed f n <> Fault.
Proof. exact decode_block_m_fixed_nofault. Qed.
Print Assumptions C06_base64_block_no_fault.

Theorem C06_base64_block_capacity : forall f n o, decode_block f n = Ok o -> len o <= 3 * (n / 4).
Proof. exact decode_block_capacity. Qed.
Print Assumptions C06_base64_block_capacity.

Theorem C06_base64_decode_update_capacity : forall (buf inp : list N) (rv : Z) (buf' o : list N),
  decode_update buf inp = (rv, buf', o) ->
  len o <= 3 * ((len buf + len inp) / 4) /\ (len buf < 64 -> len buf' < 64) /\ (-1 <= rv <= 1)%Z.
Proof. exact decode_update_capacity. Qed.
Print Assumptions C06_base64_decode_update_capacity.

Theorem C06_base64_decode_finish_capacity : forall buf o, decode_finish buf = Ok o -> len o <= 3 * (len buf / 4).
Proof. exact decode_finish_capacity. Qed.
Print Assumptions C06_base64_decode_finish_capacity.

(* the 80-byte enc_data buffer: a decoding context never holds a blank, so its flush cannot fault *)
Theorem C06_base64_context_no_fault : forall (buf inp : list N) (rv : Z) (buf' o : list N),
  decode_update buf inp = (rv, buf', o) -> bufok buf -> bufok buf'.
Proof. exact decode_update_bufok. Qed.
Print Assumptions C06_base64_context_no_fault.

(* ---- PEM reader: declared capacity, local 128-byte line buffer, no Fault *)
Theorem C06_pem_read_no_fault : forall name inp maxlen, pem_read name inp maxlen <> Fault.
Proof. exact pem_read_nofault. Qed.
Print Assumptions C06_pem_read_no_fault.

Theorem C06_pem_read_within_capacity : forall name inp maxlen d rest,
  pem_read name inp maxlen = Ok (d, rest) -> len d <= maxlen.
Proof. exact pem_read_capacity. Qed.
Print Assumptions C06_pem_read_within_capacity.

Theorem C06_pem_read_line_buffer : forall inp raw rest buf rv buf' o, len buf < 64 ->
  fgets inp = Some (raw, rest) -> decode_update buf (chomp (cstr raw)) = (rv, buf', o) ->
  len (chomp (cstr raw)) <= 79 /\ len o <= 105 /\ len buf' < 64 /\ (bufok buf -> bufok buf').
Proof. exact pem_step_capacity. Qed.
Print Assumptions C06_pem_read_line_buffer.

Theorem C06_pem_read_consumes_prefix : forall name inp maxlen d rest,
  pem_read name inp maxlen = Ok (d, rest) -> exists pre, inp = pre ++ rest.
Proof. exact pem_read_rest_suffix. Qed.
Print Assumptions C06_pem_read_consumes_prefix.

(* ---- composite decoders: algorithm identifiers, PBES2 / EncryptedPrivateKeyInfo, SM2 ciphertext and keys *)
Theorem C06_algorithm_identifiers_no_fault : forall inp,
  pk_algor_from_der inp <> Fault /\ enc_algor_from_der inp <> Fault /\ pbkdf2_params_from_der inp <> Fault.
Proof. exact (fun inp => conj (pk_algor_from_der_nofault inp) (conj (enc_algor_from_der_nofault inp) (pbkdf2_params_from_der_nofault inp))). Qed.
Print Assumptions C06_algorithm_identifiers_no_fault.

Theorem C06_encrypted_private_key_info_no_fault : forall inp, p8e_from_der inp <> Fault.
Proof. exact p8e_from_der_nofault. Qed.
Print Assumptions C06_encrypted_private_key_info_no_fault.

Theorem C06_sm2_ciphertext_no_fault : forall inp, sm2_ct_from_der inp <> Fault.
Proof. exact sm2_ct_from_der_nofault. Qed.
Print Assumptions C06_sm2_ciphertext_no_fault.

Theorem C06_sm2_keys_no_fault : forall pub_of pt_ok inp,
  sm2_priv_from_der pub_of pt_ok inp <> Fault /\ sm2_p8_from_der pub_of pt_ok inp <> Fault.
Proof. exact (fun pub_of pt_ok inp => conj (sm2_priv_from_der_nofault pub_of pt_ok inp) (sm2_p8_from_der_nofault pub_of pt_ok inp)). Qed.
Print Assumptions C06_sm2_keys_no_fault.

Theorem C06_encrypted_key_open_no_fault : forall pub_of pt_ok kdf cbcdec pass inp,
  sm2_p8_open_c pub_of pt_ok kdf cbcdec pass inp <> Fault.
Proof. exact sm2_p8_open_c_nofault. Qed.
Print Assumptions C06_encrypted_key_open_no_fault.

(* ---- witnesses: the literal model of the pinned tree faults *)
Theorem C06_refuted_oid_33_arcs :
  oid_from_octets AsIs 32 (42 :: repeat 1 31) = Fault /\ oid_from_octets Fixed 32 (42 :: repeat 1 31) = Err.
Proof. exact oid_33_arcs_asis_faults. Qed.
Print Assumptions C06_refuted_oid_33_arcs.

Theorem C06_refuted_seq_of_int_overflow :
  seq_of_int_from_der AsIs 1 1 [48; 6; 2; 1; 1; 2; 1; 2] = Fault /\
  seq_of_int_from_der Fixed 1 1 [48; 6; 2; 1; 1; 2; 1; 2] = Err.
Proof. exact seq_of_int_asis_faults. Qed.
Print Assumptions C06_refuted_seq_of_int_overflow.

Theorem C06_refuted_int_shift : int_from_der AsIs 2 [2; 5; 0; 128; 0; 0; 0] = Fault.
Proof. exact int_from_der_asis_faults. Qed.
Print Assumptions C06_refuted_int_shift.

Theorem C06_refuted_hex_odd : hex_to_bytes AsIs [48; 49; 50] = Fault /\ hex_to_bytes Fixed [48; 49; 50] = Err.
Proof. exact hex_odd_asis_faults. Qed.
Print Assumptions C06_refuted_hex_odd.

Theorem C06_refuted_base64_blank_block : decode_block [32; 32; 32; 32] 4 = Fault.
Proof. exact decode_block_blank_faults. Qed.
Print Assumptions C06_refuted_base64_blank_block.
