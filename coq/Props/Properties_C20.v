(* C20 — independent objects can be used concurrently with sequential results.
   Final statements only.  The interleaving theorems are about the model of Sys/Conc.v; the
   table lemma is instantiated on every check with the table regenerated from the source
   (coq/Gen/GlobalsTable.v, theorem no_written_global, re-proved by vm_compute). *)
From Coq Require Import List String.
From GmVerif Require Import Sys.Conc Sys.Tables.
Import ListNotations.

(* operations that do not touch each other's footprints commute: same results, same store *)
Theorem C20_disjoint_commute : forall (loc val res : Type) (o1 o2 : op loc val res) (s : store loc val),
  wf_op _ _ _ o1 -> wf_op _ _ _ o2 -> no_interference _ _ _ o1 o2 -> no_interference _ _ _ o2 o1 ->
  let s1 := fst (run _ _ _ o1 s) in let s2 := fst (run _ _ _ o2 s) in
  snd (run _ _ _ o2 s1) = snd (run _ _ _ o2 s) /\
  snd (run _ _ _ o1 s2) = snd (run _ _ _ o1 s) /\
  forall l, fst (run _ _ _ o2 s1) l = fst (run _ _ _ o1 s2) l.
Proof. exact disjoint_commute. Qed.
Print Assumptions C20_disjoint_commute.

(* every schedule, any number of threads: a thread whose operations write only objects it owns
   and read only those or never-written globals has, at every point of every interleaving,
   produced exactly the results of its sequential run, and its objects hold the sequential
   contents; globals are unchanged *)
Theorem C20_interleaving_eq_sequential :
  forall (loc val res : Type) (owner : nat -> loc -> Prop) (glob : loc -> Prop) (progs : nat -> list (op loc val res)),
  (forall t u l, t <> u -> owner t l -> owner u l -> False) ->
  (forall t l, owner t l -> glob l -> False) ->
  (forall t o, In o (progs t) -> wf_op _ _ _ o) ->
  (forall t o l, In o (progs t) -> wr _ _ _ o l = true -> owner t l) ->
  (forall t o l, In o (progs t) -> rd _ _ _ o l = true -> owner t l \/ glob l) ->
  forall (s0 : store loc val) (sch : list nat) (t : nat),
  let c := exec _ _ _ sch (mkCfg _ _ _ s0 progs (fun _ => [])) in
  exists done, progs t = (done ++ remaining _ _ _ c t)%list /\
    outs _ _ _ c t = snd (seq_run _ _ _ done s0) /\
    agree _ _ (owner t) (st _ _ _ c) (fst (seq_run _ _ _ done s0)) /\
    agree _ _ glob (st _ _ _ c) s0.
Proof. exact interleaving_eq_sequential. Qed.
Print Assumptions C20_interleaving_eq_sequential.

Theorem C20_finished_thread_sequential :
  forall (loc val res : Type) (owner : nat -> loc -> Prop) (glob : loc -> Prop) (progs : nat -> list (op loc val res)),
  (forall t u l, t <> u -> owner t l -> owner u l -> False) ->
  (forall t l, owner t l -> glob l -> False) ->
  (forall t o, In o (progs t) -> wf_op _ _ _ o) ->
  (forall t o l, In o (progs t) -> wr _ _ _ o l = true -> owner t l) ->
  (forall t o l, In o (progs t) -> rd _ _ _ o l = true -> owner t l \/ glob l) ->
  forall (s0 : store loc val) (sch : list nat) (t : nat),
  let c := exec _ _ _ sch (mkCfg _ _ _ s0 progs (fun _ => [])) in
  remaining _ _ _ c t = [] ->
  outs _ _ _ c t = snd (seq_run _ _ _ (progs t) s0) /\
  agree _ _ (owner t) (st _ _ _ c) (fst (seq_run _ _ _ (progs t) s0)).
Proof. exact finished_thread_sequential. Qed.
Print Assumptions C20_finished_thread_sequential.

(* the table side: for ANY table on which the decidable row predicate evaluates to true, every statement that may
   write a static-storage object is an allow-listed (object, function) pair carrying its guard (today: sdf_method /
   sdf_vendor written by SDF_LoadLibrary / SDF_UnloadLibrary); every other object has no writer at all *)
Theorem C20_globals_table_sound : forall tbl : list global,
  forallb global_ok tbl = true ->
  forall g, In g tbl -> forall w, In w (g_writers g) ->
  exists a, In a allow_list /\ aw_global a = g_name g /\ aw_fn a = w_fn w.
Proof. exact globals_table_sound. Qed.
Print Assumptions C20_globals_table_sound.

Theorem C20_globals_never_written : forall tbl : list global,
  forallb global_ok tbl = true ->
  forall g, In g tbl ->
  (forall a, In a allow_list -> aw_global a <> g_name g) -> g_writers g = [].
Proof. exact globals_never_written. Qed.
Print Assumptions C20_globals_never_written.
