(* C04 — SM4 and the non-AEAD modes match their standards, invert, are chunking-invariant and
   respect the reported output size.  Only final statements; every proof is one [exact].
   (GF128/GHASH/GCM/CCM/AES/ZUC/ChaCha20 statements are in Properties_C04b.v.) *)
From GmVerif Require Import Base.ListX Base.Bytes Cipher.BitsX Cipher.SM4 Gen.Sm4Tables Cipher.SM4Tab
  Cipher.SM4Proofs Cipher.Modes Cipher.SM4Modes Cipher.ModesProofs Cipher.XtsProofs Cipher.SM4ModesProofs Cipher.AesModesProofs Cipher.SM4Unrolled Cipher.SM4UnrolledProofs.

Theorem C04_sm4_dec_enc : forall key blk, length key = 16%nat -> length blk = 16%nat ->
  bytes_ok blk = true -> sm4_decrypt_block key (sm4_encrypt_block key blk) = blk.
Proof. exact sm4_dec_enc. Qed.
Print Assumptions C04_sm4_dec_enc.

Theorem C04_sm4_enc_dec : forall key blk, length blk = 16%nat -> bytes_ok blk = true ->
  sm4_encrypt_block key (sm4_decrypt_block key blk) = blk.
Proof. exact sm4_enc_dec. Qed.
Print Assumptions C04_sm4_enc_dec.

(* every entry of S, FK, CK, T0..T3 in src/sm4.c (regenerated into Gen/Sm4Tables.v on every
   run) equals the value GB/T 32907 defines *)
Theorem C04_sm4_tables : sm4_table_mismatches = [].
Proof. exact sm4_tables_ok. Qed.
Print Assumptions C04_sm4_tables.

(* the table-driven code path of the default build computes the Spec, for all keys and blocks *)
Theorem C04_sm4_table_form_eq_spec : forall key blk,
  sm4_enc_impl key blk = sm4_encrypt_block key blk /\ sm4_dec_impl key blk = sm4_decrypt_block key blk.
Proof. exact (fun key blk => conj (sm4_enc_impl_eq key blk) (sm4_dec_impl_eq key blk)). Qed.
Print Assumptions C04_sm4_table_form_eq_spec.

(* ===================================================================== modes of operation ==
   E = implE key, D = implD key are what the library runs (sm4_encrypt under the encryption resp.
   decryption round keys, table-driven form); by C04_sm4_table_form_eq_spec they are the Spec
   block functions.  [*_stream] = init, every update in order, finish (None = some call failed);
   [ok16 c] = c is 16 bytes, each < 256. *)
Local Open Scope nat_scope.

Theorem C04_impl_block_functions_eq_spec : forall key,
  implE key = specE key /\ implD key = specD key.
Proof. exact (fun key => conj (implE_eq_specE key) (implD_eq_specD key)). Qed.
Print Assumptions C04_impl_block_functions_eq_spec.

Theorem C04_block_cipher_dispatch : forall key blk,
  block_cipher_encrypt (block_cipher_set_encrypt_key BLOCK_CIPHER_sm4 key) blk = sm4_encrypt_block key blk /\
  block_cipher_decrypt (block_cipher_set_decrypt_key BLOCK_CIPHER_sm4 key) blk = sm4_decrypt_block key blk.
Proof. exact block_cipher_sm4_eq. Qed.
Print Assumptions C04_block_cipher_dispatch.

(* ---- ECB ---- *)
Theorem C04_ecb_stream_eq_oneshot : forall key (chunks : list (list N)),
  ecb_stream (implE key) chunks =
    (let m := concat chunks in if length m mod 16 =? 0 then Some (ecb_blocks (implE key) (length m / 16) m) else None) /\
  ecb_stream (implD key) chunks =
    (let m := concat chunks in if length m mod 16 =? 0 then Some (ecb_blocks (implD key) (length m / 16) m) else None).
Proof. exact (fun key chunks => conj (sm4_ecb_encrypt_stream_eq key chunks) (sm4_ecb_decrypt_stream_eq key chunks)). Qed.
Print Assumptions C04_ecb_stream_eq_oneshot.

Theorem C04_ecb_eq_spec : forall key k m, length m = k * 16 ->
  ecb_blocks (implE key) k m = ecb_spec (implE key) m /\ ecb_blocks (implD key) k m = ecb_spec (implD key) m.
Proof. exact sm4_ecb_eq_spec. Qed.
Print Assumptions C04_ecb_eq_spec.

Theorem C04_ecb_dec_enc : forall key k m, length m = k * 16 -> bytes_ok m = true ->
  ecb_blocks (implD key) k (ecb_blocks (implE key) k m) = m.
Proof. exact sm4_ecb_dec_enc. Qed.
Print Assumptions C04_ecb_dec_enc.

Theorem C04_ecb_written_le_reported : forall key F (chunks : list (list N)) d,
  F = implE key \/ F = implD key ->
  match buf_run 16 false (ecb_crypt F) ecb_init chunks with
  | None => False
  | Some (c, _) => match ecb_update F c d with None => False | Some (_, o) => length o <= query16 (length d) end
  end.
Proof. exact sm4_ecb_written. Qed.
Print Assumptions C04_ecb_written_le_reported.

(* ---- CBC with PKCS#7 ---- *)
Theorem C04_cbc_stream_eq_oneshot : forall key iv (chunks : list (list N)), length iv = 16 ->
  cbc_encrypt_stream (implE key) iv chunks = Some (cbc_padding_encrypt (implE key) iv (concat chunks)) /\
  cbc_decrypt_stream (implD key) iv chunks = sm4_cbc_padding_decrypt (implD key) iv (concat chunks).
Proof. exact (fun key iv chunks H => conj (sm4_cbc_encrypt_stream_eq key iv chunks) (sm4_cbc_decrypt_stream_eq key iv chunks H)). Qed.
Print Assumptions C04_cbc_stream_eq_oneshot.

Theorem C04_cbc_eq_spec : forall key iv m, length iv = 16 ->
  cbc_padding_encrypt (implE key) iv m = cbc_pad_enc_spec (implE key) iv m /\
  sm4_cbc_padding_decrypt (implD key) iv m = cbc_pad_dec_spec_strict (implD key) iv m.
Proof. exact (fun key iv m H => conj (sm4_cbc_padding_encrypt_eq_spec key iv m) (sm4i_cbc_padding_decrypt_eq_spec key iv m H)). Qed.
Print Assumptions C04_cbc_eq_spec.

Theorem C04_cbc_dec_enc : forall key iv m, length iv = 16 -> bytes_ok iv = true -> bytes_ok m = true ->
  sm4_cbc_padding_decrypt (implD key) iv (cbc_padding_encrypt (implE key) iv m) = Some m.
Proof. exact sm4i_cbc_dec_enc. Qed.
Print Assumptions C04_cbc_dec_enc.

(* padding removal since 75d04f0 is PKCS#7 proper: accepted exactly when the decrypted string is
   m || p^p with 1 <= p <= 16 (the Spec side of C04_cbc_eq_spec) *)
Theorem C04_pkcs7_unpad_strict_iff : forall P m,
  pkcs7_unpad_strict P = Some m <-> exists p, 1 <= p <= 16 /\ P = m ++ repeat (N.of_nat p) p.
Proof. exact pkcs7_unpad_strict_char. Qed.
Print Assumptions C04_pkcs7_unpad_strict_iff.

(* the rule before 75d04f0 (last byte only; still the rule of aes_cbc_padding_decrypt): .. 05 02 *)
Theorem C04_sm4_cbc_padding_before_75d04f0 :
  let blk := zeros 14 ++ [5%N; 2%N] in
  cbc_padding_decrypt (fun b => b) (zeros 16) blk = Some (zeros 14) /\
  sm4_cbc_padding_decrypt (fun b => b) (zeros 16) blk = None /\
  pkcs7_unpad blk = Some (zeros 14) /\ pkcs7_unpad_strict blk = None.
Proof. exact sm4_cbc_padding_before_75d04f0. Qed.
Print Assumptions C04_sm4_cbc_padding_before_75d04f0.

Theorem C04_cbc_written_le_reported : forall key iv (chunks : list (list N)) d, length iv = 16 ->
  match buf_run 16 false (cbc_enc_crypt (implE key)) (cbc_init iv) chunks with
  | None => False
  | Some (c, _) => match cbc_encrypt_update (implE key) c d with None => False | Some (_, o) => length o <= query16 (length d) end
  end /\
  match buf_run 16 true (cbc_dec_crypt (implD key)) (cbc_init iv) chunks with
  | None => False
  | Some (c, _) => match cbc_decrypt_update (implD key) c d with None => False | Some (_, o) => length o <= query16 (length d) end
  end.
Proof. exact (fun key iv chunks d H => conj (sm4_cbc_encrypt_written key iv chunks d) (sm4_cbc_decrypt_written key iv chunks d H)). Qed.
Print Assumptions C04_cbc_written_le_reported.

(* ---- CTR (128-bit increment) and CTR32, table-driven and byte-wise code ---- *)
Theorem C04_ctr_stream_eq_oneshot : forall key ctr (chunks : list (list N)), ok16 ctr ->
  ctr_stream (ctr_encrypt_blocks (implE key)) ctr chunks =
    Some (snd (ctr_encrypt (ctr_encrypt_blocks (implE key)) ctr (concat chunks))) /\
  ctr_stream (ctr32_encrypt_blocks (implE key)) ctr chunks =
    Some (snd (ctr_encrypt (ctr32_encrypt_blocks (implE key)) ctr (concat chunks))) /\
  ctr_stream (ctr_blocks_sf (implE key) ctr_incr) ctr chunks =
    Some (snd (ctr_encrypt (ctr_blocks_sf (implE key) ctr_incr) ctr (concat chunks))) /\
  ctr_stream (ctr_blocks_sf (implE key) ctr32_incr) ctr chunks =
    Some (snd (ctr_encrypt (ctr_blocks_sf (implE key) ctr32_incr) ctr (concat chunks))).
Proof. exact sm4_ctr_stream_eq. Qed.
Print Assumptions C04_ctr_stream_eq_oneshot.

(* counter block i = big-endian (ctr + i) mod 2^128, resp. inc32 on the last word; output and
   the counter handed back both equal the Spec's *)
Theorem C04_ctr_eq_spec : forall key ctr m, ok16 ctr ->
  ctr_encrypt (ctr_encrypt_blocks (implE key)) ctr m = ctr_spec (implE key) ctr m /\
  ctr_encrypt (ctr_blocks_sf (implE key) ctr_incr) ctr m = ctr_spec (implE key) ctr m /\
  ctr_encrypt (ctr32_encrypt_blocks (implE key)) ctr m = ctr32_spec (implE key) ctr m /\
  ctr_encrypt (ctr_blocks_sf (implE key) ctr32_incr) ctr m = ctr32_spec (implE key) ctr m.
Proof. exact sm4_ctr_eq_spec. Qed.
Print Assumptions C04_ctr_eq_spec.

Theorem C04_ctr_dec_enc : forall key ctr m, ok16 ctr ->
  snd (ctr_encrypt (ctr_encrypt_blocks (implE key)) ctr (snd (ctr_encrypt (ctr_encrypt_blocks (implE key)) ctr m))) = m /\
  snd (ctr_encrypt (ctr32_encrypt_blocks (implE key)) ctr (snd (ctr_encrypt (ctr32_encrypt_blocks (implE key)) ctr m))) = m.
Proof. exact sm4_ctr_dec_enc. Qed.
Print Assumptions C04_ctr_dec_enc.

Theorem C04_ctr_written_le_reported : forall key ctr (chunks : list (list N)) d, ok16 ctr ->
  match buf_run 16 false (ctr_crypt (ctr_encrypt_blocks (implE key))) (ctr_init ctr) chunks with
  | None => False
  | Some (c, _) => match ctr_update (ctr_encrypt_blocks (implE key)) c d with None => False | Some (_, o) => length o <= query16 (length d) end
  end /\
  match buf_run 16 false (ctr_crypt (ctr32_encrypt_blocks (implE key))) (ctr_init ctr) chunks with
  | None => False
  | Some (c, _) => match ctr_update (ctr32_encrypt_blocks (implE key)) c d with None => False | Some (_, o) => length o <= query16 (length d) end
  end.
Proof. exact sm4_ctr_written. Qed.
Print Assumptions C04_ctr_written_le_reported.

(* ---- OFB ---- *)
Theorem C04_ofb_stream_eq_oneshot : forall key iv (chunks : list (list N)),
  ofb_stream (implE key) iv chunks = Some (snd (ofb_encrypt (implE key) iv (concat chunks))).
Proof. exact sm4_ofb_stream_eq. Qed.
Print Assumptions C04_ofb_stream_eq_oneshot.

Theorem C04_ofb_eq_spec : forall key iv m, snd (ofb_encrypt (implE key) iv m) = ofb_spec (implE key) iv m.
Proof. exact sm4_ofb_eq_spec. Qed.
Print Assumptions C04_ofb_eq_spec.

Theorem C04_ofb_dec_enc : forall key iv m,
  snd (ofb_encrypt (implE key) iv (snd (ofb_encrypt (implE key) iv m))) = m.
Proof. exact sm4_ofb_dec_enc. Qed.
Print Assumptions C04_ofb_dec_enc.

Theorem C04_ofb_written_le_reported : forall key iv (chunks : list (list N)) d,
  match buf_run 16 false (ofb_encrypt (implE key)) (ofb_init iv) chunks with
  | None => False
  | Some (c, _) => match ofb_update (implE key) c d with None => False | Some (_, o) => length o <= query16 (length d) end
  end.
Proof. exact sm4_ofb_written. Qed.
Print Assumptions C04_ofb_written_le_reported.

(* ---- CFB-s, every segment size 1..16 ---- *)
Theorem C04_cfb_stream_eq_oneshot : forall key s iv (chunks : list (list N)), 1 <= s <= 16 ->
  cfb_encrypt_stream (implE key) s iv chunks = Some (snd (cfb_encrypt (implE key) s iv (concat chunks))) /\
  cfb_decrypt_stream (implE key) s iv chunks = Some (snd (cfb_decrypt (implE key) s iv (concat chunks))).
Proof. exact sm4_cfb_stream_eq. Qed.
Print Assumptions C04_cfb_stream_eq_oneshot.

Theorem C04_cfb_bad_segment_size_rejected : forall key s iv (chunks : list (list N)), ~ (1 <= s <= 16) ->
  cfb_encrypt_stream (implE key) s iv chunks = None /\ cfb_decrypt_stream (implE key) s iv chunks = None.
Proof. exact sm4_cfb_init_rejects. Qed.
Print Assumptions C04_cfb_bad_segment_size_rejected.

Theorem C04_cfb_eq_spec : forall key s iv m, 1 <= s <= 16 -> length iv = 16 ->
  snd (cfb_encrypt (implE key) s iv m) = cfb_enc_spec (implE key) s iv m /\
  snd (cfb_decrypt (implE key) s iv m) = cfb_dec_spec (implE key) s iv m.
Proof. exact sm4_cfb_eq_spec. Qed.
Print Assumptions C04_cfb_eq_spec.

Theorem C04_cfb_dec_enc : forall key s iv m, 1 <= s <= 16 ->
  snd (cfb_decrypt (implE key) s iv (snd (cfb_encrypt (implE key) s iv m))) = m.
Proof. exact sm4_cfb_dec_enc. Qed.
Print Assumptions C04_cfb_dec_enc.

(* the answer inlen + 16 installed by fix 99a4fc4 bounds what an update writes, for every s *)
Theorem C04_cfb_written_le_reported : forall key s iv (chunks : list (list N)) d, 1 <= s <= 16 ->
  match buf_run s false (cfb_encrypt (implE key) s) (mkb iv []) chunks with
  | None => False
  | Some (c, _) => match cfb_encrypt_update (implE key) s c d with None => False | Some (_, o) => length o <= cfb_query (length d) end
  end /\
  match buf_run s false (cfb_decrypt (implE key) s) (mkb iv []) chunks with
  | None => False
  | Some (c, _) => match cfb_decrypt_update (implE key) s c d with None => False | Some (_, o) => length o <= cfb_query (length d) end
  end.
Proof. exact sm4_cfb_written. Qed.
Print Assumptions C04_cfb_written_le_reported.

(* witness that the pre-fix answer 16*ceil(inlen/16) was too small: s = 3, two bytes pending, 16 more *)
Theorem C04_cfb_prefix_query_refuted :
  let E0 := fun _ : list N => zeros 16 in
  match buf_run 3 false (cfb_encrypt E0 3) (mkb (zeros 16) []) [[0%N; 0%N]] with
  | Some (c, _) =>
    match cfb_encrypt_update E0 3 c (zeros 16) with
    | Some (_, o) => length o = 18 /\ query16 16 = 16
    | None => False
    end
  | None => False
  end.
Proof. exact cfb_prefix_query16_refuted. Qed.
Print Assumptions C04_cfb_prefix_query_refuted.

(* ---- XTS (GB/T 17964 tweak, ciphertext stealing) ---- *)
Theorem C04_xts_dec_enc : forall key1 key2 tweak m, 16 <= length m -> bytes_ok m = true ->
  xts_encrypt (implE key1) (implE key2) xts_mul2 tweak m = Some (xts_encrypt_raw (implE key1) (implE key2) xts_mul2 tweak m) /\
  xts_decrypt (implD key1) (implE key2) xts_mul2 tweak (xts_encrypt_raw (implE key1) (implE key2) xts_mul2 tweak m) = Some m.
Proof. exact sm4_xts_dec_enc. Qed.
Print Assumptions C04_xts_dec_enc.

Theorem C04_xts_short_input_rejected : forall key1 key2 tweak m, length m < 16 ->
  xts_encrypt (implE key1) (implE key2) xts_mul2 tweak m = None /\
  xts_decrypt (implD key1) (implE key2) xts_mul2 tweak m = None.
Proof. exact sm4_xts_short_rejected. Qed.
Print Assumptions C04_xts_short_input_rejected.

(* streaming = one pass over whole data units, each under tweak + i (little-endian); a total that
   is not a whole number of data units is refused by finish; data_unit_size < 16 by init *)
Theorem C04_xts_stream_eq_oneshot : forall key1 key2 dus tw (chunks : list (list N)), 16 <= dus ->
  xts_stream (xts_encrypt_raw (implE key1) (implE key2) xts_mul2) dus tw chunks =
    (let m := concat chunks in
     if length m mod dus =? 0
     then Some (snd (xts_units (xts_encrypt_raw (implE key1) (implE key2) xts_mul2) dus (length m / dus) tw m)) else None) /\
  xts_stream (xts_decrypt_raw (implD key1) (implE key2) xts_mul2) dus tw chunks =
    (let m := concat chunks in
     if length m mod dus =? 0
     then Some (snd (xts_units (xts_decrypt_raw (implD key1) (implE key2) xts_mul2) dus (length m / dus) tw m)) else None).
Proof. exact sm4_xts_stream_eq. Qed.
Print Assumptions C04_xts_stream_eq_oneshot.

Theorem C04_xts_units_eq_spec : forall (f : list N -> list N -> list N) dus tw k m, 0 < dus -> length m = k * dus ->
  snd (xts_units f dus k tw m) = concat (xts_units_spec f tw (segs dus m)).
Proof. exact xts_units_eq_spec. Qed.
Print Assumptions C04_xts_units_eq_spec.

(* ---- CBC-MAC ---- *)
Theorem C04_cbc_mac_stream_eq_spec : forall key (chunks : list (list N)),
  cbc_mac_finish (implE key) (fold_left (cbc_mac_update (implE key)) chunks cbc_mac_init) =
  cbc_mac_spec (implE key) (concat chunks).
Proof. exact sm4_cbc_mac_stream_eq_spec. Qed.
Print Assumptions C04_cbc_mac_stream_eq_spec.

(* ---- encrypting in place (out == in): block i is read before it is written and never again ---- *)
Theorem C04_inplace_eq : forall key n iv buf, n * 16 <= length buf ->
  inplace_loop _ (cbc_enc_step (implE key)) n 0 iv buf =
    (fst (cbc_enc_loop (implE key) n iv buf), snd (cbc_enc_loop (implE key) n iv buf) ++ skipn (n * 16) buf) /\
  inplace_loop _ (ecb_step (implE key)) n 0 tt buf = (tt, ecb_blocks (implE key) n buf ++ skipn (n * 16) buf) /\
  inplace_loop _ (cstep (implE key) ctr_incr) n 0 iv buf =
    (fst (ctr_blocks_sf (implE key) ctr_incr n iv buf), snd (ctr_blocks_sf (implE key) ctr_incr n iv buf) ++ skipn (n * 16) buf).
Proof. exact sm4_inplace_eq. Qed.
Print Assumptions C04_inplace_eq.

(* the transcribed one-shot XTS functions (tweak update through gf128.c's bit-reversed words) =
   the index-form Spec: T_j = x^j * E_K2(tweak), stealing by block indices *)
Theorem C04_xts_eq_spec : forall key1 key2 tweak m, 16 <= length m ->
  xts_encrypt_raw (implE key1) (implE key2) xts_mul2 tweak m =
    xts_enc_spec (implE key1) (implE key2) xts_mul2_spec tweak m /\
  xts_decrypt_raw (implD key1) (implE key2) xts_mul2 tweak m =
    xts_dec_spec (implD key1) (implE key2) xts_mul2_spec tweak m.
Proof. exact sm4_xts_eq_spec. Qed.
Print Assumptions C04_xts_eq_spec.

Theorem C04_xts_mul2_eq_spec : forall T, length T = 16 -> bytes_ok T = true -> xts_mul2 T = xts_mul2_spec T.
Proof. exact xts_mul2_eq_spec. Qed.
Print Assumptions C04_xts_mul2_eq_spec.

(* ===================================================================== src/aes_modes.c ==
   aes_cbc_encrypt/decrypt, aes_cbc_padding_*, aes_ctr_encrypt (chaining value kept as a pointer
   into out/in, byte-count CTR loop) for ANY pair of 16-byte block functions E, D that satisfy the
   four laws below; for AES the inversion law is aes_dec_enc (Cipher/AESProofs.v, other half of
   C04), for SM4 all four are theorems above -- so the premises are satisfiable. *)
Theorem C04_mode_premises_satisfiable : exists E D : list N -> list N,
  (forall b, length (E b) = 16) /\ (forall b, length (D b) = 16) /\ (forall b, bytes_ok (E b) = true) /\
  (forall b, length b = 16 -> bytes_ok b = true -> D (E b) = b).
Proof. exact (ex_intro _ (implE []) (ex_intro _ (implD []) (conj (implE_len []) (conj (implD_len []) (conj (implE_ok []) (implDE [])))))). Qed.
Print Assumptions C04_mode_premises_satisfiable.

Theorem C04_aes_cbc_eq_spec : forall E D : list N -> list N,
  (forall b, length (E b) = 16) -> (forall b, length (D b) = 16) -> (forall b, bytes_ok (E b) = true) ->
  (forall b, length b = 16 -> bytes_ok b = true -> D (E b) = b) ->
  forall iv m, length iv = 16 ->
  aes_cbc_padding_encrypt E iv m = cbc_pad_enc_spec E iv m /\
  aes_cbc_padding_decrypt D iv m = cbc_pad_dec_spec D iv m.
Proof. exact aes_cbc_eq_spec. Qed.
Print Assumptions C04_aes_cbc_eq_spec.

Theorem C04_aes_cbc_blocks_eq_spec : forall (E D : list N -> list N) k iv m, length m = k * 16 ->
  aes_cbc_encrypt E k iv m = cbc_enc_spec E iv m /\ aes_cbc_decrypt D k iv m = cbc_dec_spec D iv m.
Proof. exact aes_cbc_blocks_eq_spec. Qed.
Print Assumptions C04_aes_cbc_blocks_eq_spec.

Theorem C04_aes_cbc_dec_enc : forall E D : list N -> list N,
  (forall b, length (E b) = 16) -> (forall b, length (D b) = 16) -> (forall b, bytes_ok (E b) = true) ->
  (forall b, length b = 16 -> bytes_ok b = true -> D (E b) = b) ->
  forall iv m, length iv = 16 -> bytes_ok iv = true -> bytes_ok m = true ->
  aes_cbc_padding_decrypt D iv (aes_cbc_padding_encrypt E iv m) = Some m.
Proof. exact aes_cbc_dec_enc. Qed.
Print Assumptions C04_aes_cbc_dec_enc.

Theorem C04_aes_cbc_encrypt_inplace : forall E : list N -> list N,
  (forall b, length (E b) = 16) ->
  forall n iv buf, n * 16 <= length buf ->
  snd (inplace_loop _ (cbc_enc_step E) n 0 iv buf) = aes_cbc_encrypt E n iv buf ++ skipn (n * 16) buf.
Proof. exact aes_cbc_encrypt_inplace. Qed.
Print Assumptions C04_aes_cbc_encrypt_inplace.

Theorem C04_aes_ctr_eq_spec : forall E D : list N -> list N,
  (forall b, length (E b) = 16) -> (forall b, length (D b) = 16) -> (forall b, bytes_ok (E b) = true) ->
  (forall b, length b = 16 -> bytes_ok b = true -> D (E b) = b) ->
  forall ctr m, ok16 ctr ->
  aes_ctr_encrypt E ctr m = ctr_spec E ctr m /\
  snd (aes_ctr_encrypt E ctr (snd (aes_ctr_encrypt E ctr m))) = m.
Proof. exact (fun E D h1 h2 h3 h4 ctr m H => conj (aes_ctr_eq_spec E D h1 h2 h3 h4 ctr m H) (aes_ctr_dec_enc E D h1 h2 h3 h4 ctr m H)). Qed.
Print Assumptions C04_aes_ctr_eq_spec.

(* ===================================================================== one level below ==
   sm4_encrypt as written: 32 unrolled ROUND lines over the named registers X0..X4 whose roles
   rotate by one per line, stores from X0, X4, X3, X2 -- equal to the shifting-state loop, hence
   (with the source tables) to the standard; and one iteration of the table-driven
   sm4_cbc_encrypt_blocks on 32-bit words equals the block-level step c = E(blk xor iv). *)
Theorem C04_sm4_unrolled_eq_loop : forall rks blk, length rks = 32 ->
  sm4_encrypt_unrolled rks blk = sm4_encrypt_tab rks blk.
Proof. exact sm4_encrypt_unrolled_eq. Qed.
Print Assumptions C04_sm4_unrolled_eq_loop.

Theorem C04_sm4_unrolled_eq_spec : forall key blk,
  sm4_encrypt_unrolled (sm4_set_encrypt_key key) blk = sm4_encrypt_block key blk /\
  sm4_encrypt_unrolled (sm4_set_decrypt_key key) blk = sm4_decrypt_block key blk.
Proof. exact sm4_unrolled_eq_spec. Qed.
Print Assumptions C04_sm4_unrolled_eq_spec.

Theorem C04_cbc_enc_words_eq_block : forall rks iv blk, length iv = 16 -> bytes_ok iv = true ->
  length blk = 16 -> bytes_ok blk = true ->
  let c := sm4_encrypt_tab rks (xor_bytes blk iv) in
  cbc_enc_words rks (words4 iv) blk = (words4 c, c).
Proof. exact cbc_enc_words_eq. Qed.
Print Assumptions C04_cbc_enc_words_eq_block.

(* ===================================================================== wave 5 ==
   tweak_incr of sm4_xts.c (the data-unit number between XTS data units) = + 1 on the little-endian
   value, wrapping; block_cipher.c's aes128 object: encrypt dispatches to AES-128, decrypt -- as
   coded, (block_cipher_decrypt_func)aes_encrypt -- is NOT the inverse (the object is dead code:
   no build defines ENABLE_AES; reported as an OBSERVATION by the check). *)
Theorem C04_tweak_incr_spec : forall l, bytes_ok l = true ->
  le_to_N (tweak_incr l) = ((le_to_N l + 1) mod 256 ^ N.of_nat (length l))%N /\
  length (tweak_incr l) = length l /\ bytes_ok (tweak_incr l) = true.
Proof. exact tweak_incr_spec. Qed.
Print Assumptions C04_tweak_incr_spec.

Theorem C04_block_cipher_aes128_encrypt : forall key blk, length key = 16 ->
  bc_aes128_encrypt (bc_aes128_set_encrypt_key key) blk = AES.aes_encrypt_block key blk.
Proof. exact bc_aes128_encrypt_eq. Qed.
Print Assumptions C04_block_cipher_aes128_encrypt.

Theorem C04_block_cipher_aes128_decrypt_refuted :
  let k := map N.of_nat (seq 0 16) in
  let ct := [0x69;0xc4;0xe0;0xd8;0x6a;0x7b;0x04;0x30;0xd8;0xcd;0xb7;0x80;0x70;0xb4;0xc5;0x5a]%N in
  AES.aes_decrypt_block k ct = [0x00;0x11;0x22;0x33;0x44;0x55;0x66;0x77;0x88;0x99;0xaa;0xbb;0xcc;0xdd;0xee;0xff]%N /\
  bc_aes128_decrypt (bc_aes128_set_decrypt_key k) ct <> AES.aes_decrypt_block k ct.
Proof. exact bc_aes128_decrypt_refuted. Qed.
Print Assumptions C04_block_cipher_aes128_decrypt_refuted.
