(* C11 — record protection round-trips, rejects altered / replayed / misplaced records.
   Final statements only; every proof is one [exact].  Models: Tls/Record12.v, Record13.v
   (generic), Tls/RecordInst.v (SM4-CBC + SM3-HMAC, SM4-GCM). *)
From GmVerif Require Import Base.ListX Base.Bytes Hash.Instances Cipher.SM4
  Tls.Record12 Tls.Record12Proofs Tls.Record13 Tls.Record13Proofs Tls.Gcm13 Tls.RecordInst
  Tls.RecordInstProofs.
Local Open Scope nat_scope.

(* ---- TLCP / TLS 1.2 : SM4-CBC + SM3-HMAC ---- *)

(* round trip of tls_cbc_encrypt / tls_cbc_decrypt, all keys, sequence numbers, headers, IVs,
   payloads of 0..16384 bytes *)
Theorem C11_cbc12_round_trip : forall mackey enckey seq hdr payload iv,
  (N.of_nat (length payload) <= 16384)%N -> hdr_len hdr = length payload ->
  hdr = firstn 3 hdr ++ u16 (length payload) ->
  bytes_ok payload = true -> length iv = 16 -> bytes_ok iv = true ->
  exists ct, cbc12_encrypt mackey enckey seq hdr payload (Some iv) = Some ct /\
             cbc12_decrypt mackey enckey seq hdr ct = Some payload.
Proof. exact cbc12_round_trip. Qed.
Print Assumptions C11_cbc12_round_trip.

(* record level: tls_record_decrypt (tls_record_encrypt record) = record (type, version, payload) *)
Theorem C11_record12_round_trip : forall mackey enckey seq hdr payload iv,
  length hdr = 5 -> bytes_ok hdr = true -> hdr_len hdr = length payload ->
  (N.of_nat (length payload) <= 16384)%N ->
  bytes_ok payload = true -> length iv = 16 -> bytes_ok iv = true ->
  exists enc, record12_encrypt mackey enckey seq (hdr ++ payload) (Some iv) = Some enc /\
              record12_decrypt mackey enckey seq enc = Some (hdr ++ payload).
Proof. exact record12_round_trip. Qed.
Print Assumptions C11_record12_round_trip.

(* the receiver accepts every padding length the format allows (0..255), not only the sender's *)
Theorem C11_cbc12_round_trip_any_padding : forall mackey enckey seq hdr payload iv p,
  (length payload + 33 + p) mod 16 = 0 -> p <= 255 ->
  (N.of_nat (length payload + 33 + p) <= 16672)%N ->
  hdr = firstn 3 hdr ++ u16 (length payload) ->
  bytes_ok payload = true -> length iv = 16 -> bytes_ok iv = true ->
  cbc12_decrypt mackey enckey seq hdr
    (tls_cbc_encrypt_padded (sm4_E enckey) (hmac_chunks mackey) seq hdr payload iv p) = Some payload.
Proof. exact cbc12_round_trip_any_padding. Qed.
Print Assumptions C11_cbc12_round_trip_any_padding.

(* decision rule, for every input, any block cipher and MAC: accepted <=> length constraints,
   every padding byte equals the padding length, and the MAC recomputed over exactly
   seq || type || version || length(payload) || payload equals the 32 bytes after the payload *)
Theorem C11_cbc_accept_iff_mac : forall (D : list N -> list N) (mac : list (list N) -> list N) seq hdr ct p,
  tls_cbc_decrypt D mac seq hdr ct = Some p <-> accept12 D mac seq hdr ct p.
Proof. exact cbc_decrypt_accept_iff. Qed.
Print Assumptions C11_cbc_accept_iff_mac.

(* reported length never exceeds the ciphertext *)
Theorem C11_cbc_len_le_ciphertext : forall (D : list N -> list N) (mac : list (list N) -> list N) seq hdr ct p,
  tls_cbc_decrypt D mac seq hdr ct = Some p -> length p + 49 <= length ct.
Proof. exact cbc_decrypt_len. Qed.
Print Assumptions C11_cbc_len_le_ciphertext.

(* structural rejections *)
Theorem C11_cbc_len_not_multiple_of_16_rejected :
  forall (D : list N -> list N) (mac : list (list N) -> list N) seq hdr ct,
  length ct mod 16 <> 0 -> tls_cbc_decrypt D mac seq hdr ct = None.
Proof. exact cbc_decrypt_len_mod16. Qed.
Print Assumptions C11_cbc_len_not_multiple_of_16_rejected.

Theorem C11_cbc_too_short_rejected :
  forall (D : list N -> list N) (mac : list (list N) -> list N) seq hdr ct,
  length ct < 64 -> tls_cbc_decrypt D mac seq hdr ct = None.
Proof. exact cbc_decrypt_too_short. Qed.
Print Assumptions C11_cbc_too_short_rejected.

Theorem C11_cbc_too_long_rejected :
  forall (D : list N -> list N) (mac : list (list N) -> list N) seq hdr ct,
  (16688 < N.of_nat (length ct))%N -> tls_cbc_decrypt D mac seq hdr ct = None.
Proof. exact cbc_decrypt_too_long. Qed.
Print Assumptions C11_cbc_too_long_rejected.

(* an honest record accepted under another sequence number, type or version exhibits an
   HMAC-SM3 collision (outright) *)
Theorem C11_cbc12_misplaced_accept_is_hmac_collision :
  forall mackey enckey seq hdr payload iv p seq' hdr' r,
  (length payload + 33 + p) mod 16 = 0 -> p <= 255 ->
  (N.of_nat (length payload + 33 + p) <= 16672)%N ->
  bytes_ok payload = true -> length iv = 16 -> bytes_ok iv = true ->
  cbc12_decrypt mackey enckey seq' hdr'
    (tls_cbc_encrypt_padded (sm4_E enckey) (hmac_chunks mackey) seq hdr payload iv p) = Some r ->
  r = payload /\
  sm3_hmac_spec mackey (seq ++ hdr ++ payload) =
  sm3_hmac_spec mackey (seq' ++ (firstn 3 hdr' ++ u16 (length payload)) ++ payload).
Proof. exact cbc12_misplaced_accept_is_hmac_collision. Qed.
Print Assumptions C11_cbc12_misplaced_accept_is_hmac_collision.

(* hence rejection under the explicit premise that the MAC does not collide on that one pair *)
Theorem C11_cbc_other_seq_rejected_partial :
  forall (E D : list N -> list N) (mac : list (list N) -> list N),
  (forall b, length (E b) = 16) -> (forall b, bytes_ok (E b) = true) ->
  (forall b, length b = 16 -> bytes_ok b = true -> D (E b) = b) ->
  (forall c, length (mac c) = 32) -> (forall c, bytes_ok (mac c) = true) ->
  forall seq hdr payload iv p seq',
  (length payload + 33 + p) mod 16 = 0 -> p <= 255 ->
  (N.of_nat (length payload + 33 + p) <= 16672)%N ->
  hdr = firstn 3 hdr ++ u16 (length payload) ->
  bytes_ok payload = true -> length iv = 16 -> bytes_ok iv = true ->
  (mac [seq; hdr; payload] = mac [seq'; hdr; payload] -> seq = seq') ->
  seq' <> seq ->
  tls_cbc_decrypt D mac seq' hdr (tls_cbc_encrypt_padded E mac seq hdr payload iv p) = None.
Proof. exact cbc_other_seq_rejected_partial. Qed.
Print Assumptions C11_cbc_other_seq_rejected_partial.

Theorem C11_cbc_other_type_version_rejected_partial :
  forall (E D : list N -> list N) (mac : list (list N) -> list N),
  (forall b, length (E b) = 16) -> (forall b, bytes_ok (E b) = true) ->
  (forall b, length b = 16 -> bytes_ok b = true -> D (E b) = b) ->
  (forall c, length (mac c) = 32) -> (forall c, bytes_ok (mac c) = true) ->
  forall seq hdr payload iv p hdr',
  (length payload + 33 + p) mod 16 = 0 -> p <= 255 ->
  (N.of_nat (length payload + 33 + p) <= 16672)%N ->
  hdr = firstn 3 hdr ++ u16 (length payload) ->
  bytes_ok payload = true -> length iv = 16 -> bytes_ok iv = true ->
  (mac [seq; hdr; payload] = mac [seq; firstn 3 hdr' ++ u16 (length payload); payload] ->
   firstn 3 hdr' = firstn 3 hdr) ->
  firstn 3 hdr' <> firstn 3 hdr ->
  tls_cbc_decrypt D mac seq hdr' (tls_cbc_encrypt_padded E mac seq hdr payload iv p) = None.
Proof. exact cbc_other_header_rejected_partial. Qed.
Print Assumptions C11_cbc_other_type_version_rejected_partial.

(* sequence numbers: tls_seq_num_incr is +1 on the 56-bit counter in bytes 1..7 (byte 0 is
   never touched, as coded); after n further records, 0 < n < 2^56, the number differs *)
Theorem C11_seq_num_incr_value : forall s (n : nat), length s = 8 -> bytes_ok s = true ->
  let s' := Nat.iter n seq_num_incr s in
  length s' = 8 /\ bytes_ok s' = true /\ hd 0%N s' = hd 0%N s /\
  be_to_N (tl s') = ((be_to_N (tl s) + N.of_nat n) mod 2 ^ 56)%N.
Proof. exact seq_num_incr_iter. Qed.
Print Assumptions C11_seq_num_incr_value.

Theorem C11_seq_num_fresh : forall s (n : nat), length s = 8 -> bytes_ok s = true ->
  (0 < N.of_nat n < 2 ^ 56)%N -> Nat.iter n seq_num_incr s <> s.
Proof. exact seq_num_incr_fresh. Qed.
Print Assumptions C11_seq_num_fresh.

(* ---- TLS 1.3 : SM4-GCM ---- *)

Theorem C11_gcm13_round_trip : forall key iv seq t inp pad,
  pad <= 255 -> record_type_known t = true ->
  exists ct, gcm13_encrypt key iv seq t inp pad = Some ct /\
             length ct = length inp + 1 + pad + 16 /\
             gcm13_decrypt key iv seq ct = Dec13Ok t inp.
Proof. exact gcm13_round_trip_sm4. Qed.
Print Assumptions C11_gcm13_round_trip.

Theorem C11_record13_round_trip : forall key iv seq t v1 v2 l1 l2 inp pad,
  pad <= 255 -> record_type_known t = true ->
  exists enc, record13_encrypt key iv seq ([t; v1; v2; l1; l2] ++ inp) pad = Some enc /\
              record13_decrypt key iv seq enc = Dec13Ok t inp.
Proof. exact record13_round_trip_sm4. Qed.
Print Assumptions C11_record13_round_trip.

(* decision rule for any AEAD: accepted => the AEAD opened exactly the presented bytes under
   nonce = iv xor (0^4 || seq) and AAD = 23,3,3,presented length; the inner plaintext is
   content || known type || zeros *)
Theorem C11_gcm13_accept_rule :
  forall (open : list N -> list N -> list N -> list N -> option (list N)) iv seq inp t c,
  tls13_gcm_decrypt open iv seq inp = Dec13Ok t c ->
  16 <= length inp /\ record_type_known t = true /\ t <> 0%N /\
  exists k, open (nonce13 iv seq) (aad13 (length inp))
                 (firstn (length inp - 16) inp) (skipn (length inp - 16) inp)
            = Some (c ++ [t] ++ zeros k).
Proof. exact gcm13_decrypt_accept. Qed.
Print Assumptions C11_gcm13_accept_rule.

(* ... and for SM4-GCM the presented tag equals the tag recomputed over exactly these bytes *)
Theorem C11_gcm13_accept_tag : forall key iv seq inp t c,
  gcm13_decrypt key iv seq inp = Dec13Ok t c ->
  skipn (length inp - 16) inp =
  gcm_tag (sm4_E key) (nonce13 iv seq) (aad13 (length inp)) (firstn (length inp - 16) inp).
Proof. exact gcm13_accept_tag_sm4. Qed.
Print Assumptions C11_gcm13_accept_tag.

Theorem C11_gcm13_len_le_ciphertext : forall key iv seq inp t c,
  gcm13_decrypt key iv seq inp = Dec13Ok t c -> length c + 17 <= length inp.
Proof. exact gcm13_decrypt_len_sm4. Qed.
Print Assumptions C11_gcm13_len_le_ciphertext.

Theorem C11_gcm13_too_short_rejected :
  forall (open : list N -> list N -> list N -> list N -> option (list N)) iv seq inp,
  length inp < 16 -> tls13_gcm_decrypt open iv seq inp = Dec13Err None.
Proof. exact gcm13_decrypt_short. Qed.
Print Assumptions C11_gcm13_too_short_rejected.

(* all-padding inner plaintext: rejected cleanly, 0 left in *outlen *)
Theorem C11_gcm13_all_padding_rejected :
  forall (open : list N -> list N -> list N -> list N -> option (list N)) iv seq inp n,
  16 <= length inp ->
  open (nonce13 iv seq) (aad13 (length inp))
       (firstn (length inp - 16) inp) (skipn (length inp - 16) inp) = Some (zeros n) ->
  tls13_gcm_decrypt open iv seq inp = Dec13Err (Some 0%N).
Proof. exact gcm13_decrypt_all_padding. Qed.
Print Assumptions C11_gcm13_all_padding_rejected.

(* for every input: a failing unprotect leaves *outlen untouched or 0 (never a length larger than
   the ciphertext, which tls13_do_recv would keep in conn->datalen) *)
Theorem C11_gcm13_error_reports_no_length :
  forall (open : list N -> list N -> list N -> list N -> option (list N)) iv seq inp v,
  tls13_gcm_decrypt open iv seq inp = Dec13Err (Some v) -> v = 0%N.
Proof. exact gcm13_decrypt_err_outlen. Qed.
Print Assumptions C11_gcm13_error_reports_no_length.

(* the nonce determines the sequence number; an honest record accepted under another sequence
   number means the AEAD opened it under a nonce different from the sealing nonce *)
Theorem C11_nonce13_injective : forall iv seq seq', length iv = 12 -> length seq = 8 -> length seq' = 8 ->
  nonce13 iv seq = nonce13 iv seq' -> seq = seq'.
Proof. exact nonce13_inj. Qed.
Print Assumptions C11_nonce13_injective.
