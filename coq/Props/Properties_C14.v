(* C14 — Encodings round-trip, are canonical, and respect buffer capacities.
   Final statements only; every proof is one [exact].  The models are in Codec/Der.v, Hex.v,
   Base64.v, Time.v; [Fixed] is the model of the code after the patches proposed for the
   defects of the pinned tree, [AsIs] the literal transcription (refutation witnesses below). *)
From GmVerif Require Import Base.ListX Base.Bytes Codec.Der Codec.DerProofs Codec.Hex Codec.HexProofs.
Local Open Scope N_scope.

(* ---- length octets *)
Theorem C14_length_roundtrip : forall l e rest,
  len_to_der l = Some e -> l <= len rest -> len_from_der (e ++ rest) = Ok (l, rest).
Proof. exact len_roundtrip. Qed.
Print Assumptions C14_length_roundtrip.

Theorem C14_length_dry_run : forall l e, len_to_der l = Some e -> len_size l = Some (len e).
Proof. exact len_size_eq. Qed.
Print Assumptions C14_length_dry_run.

Theorem C14_length_canonical : forall inp l rest,
  bytes_okP inp -> len_from_der inp = Ok (l, rest) -> l <= INT_MAX ->
  exists e, len_to_der l = Some e /\ inp = e ++ rest.
Proof. exact len_canonical. Qed.
Print Assumptions C14_length_canonical.

Theorem C14_length_refuses_nonminimal :
  (forall c r, c < 128 -> len_from_der (129 :: c :: r) = Err) /\
  (forall k r, 1 < k <= 4 -> len_from_der ((128 + k) :: 0 :: r) = Err) /\
  (forall r, len_from_der (128 :: r) = Err) /\
  (forall k r, 4 < k < 128 -> len_from_der ((128 + k) :: r) = Err).
Proof. exact len_refuses_nonminimal. Qed.
Print Assumptions C14_length_refuses_nonminimal.

(* ---- generic TLV (OCTET STRING, SEQUENCE, SET, implicit/explicit tags) *)
Theorem C14_type_roundtrip : forall tag d rest,
  len d <= INT_MAX -> type_from_der tag (tag :: len_enc (len d) ++ d ++ rest) = Ok (d, rest).
Proof. exact type_roundtrip. Qed.
Print Assumptions C14_type_roundtrip.

Theorem C14_type_dry_run : forall tag d e, type_to_der tag d = Ok e -> type_size tag d = len e.
Proof. exact type_dry. Qed.
Print Assumptions C14_type_dry_run.

Theorem C14_type_canonical : forall tag inp d rest,
  bytes_okP inp -> len inp <= INT_MAX -> type_from_der tag inp = Ok (d, rest) ->
  inp = tag :: len_enc (len d) ++ d ++ rest.
Proof. exact type_canonical. Qed.
Print Assumptions C14_type_canonical.

(* ---- BOOLEAN *)
Theorem C14_boolean_roundtrip : forall tag val e rest,
  boolean_to_der tag val = Ok e -> boolean_from_der tag (e ++ rest) = Ok (negb (val =? 0)%Z, rest).
Proof. exact boolean_roundtrip. Qed.
Print Assumptions C14_boolean_roundtrip.

Theorem C14_boolean_dry_run : forall tag val e, boolean_to_der tag val = Ok e -> boolean_size val = len e.
Proof. exact boolean_dry. Qed.
Print Assumptions C14_boolean_dry_run.

Theorem C14_boolean_canonical : forall tag inp v rest,
  boolean_from_der tag inp = Ok (v, rest) -> inp = [tag; 1; if v then 255 else 0] ++ rest.
Proof. exact boolean_canonical. Qed.
Print Assumptions C14_boolean_canonical.

Theorem C14_boolean_refuses_bad : forall tag l x rest,
  l <> 1 \/ (x <> 0 /\ x <> 255) -> boolean_from_der tag (tag :: l :: x :: rest) = Err.
Proof. exact boolean_refuses. Qed.
Print Assumptions C14_boolean_refuses_bad.

(* ---- INTEGER, big-endian byte string (signature components, serial numbers, ...) *)
Theorem C14_integer_roundtrip : forall tag a e rest,
  integer_to_der tag (Some a) = Ok e -> len a < INT_MAX ->
  integer_from_der tag (e ++ rest) = Ok (strip0 a, rest).
Proof. exact integer_roundtrip. Qed.
Print Assumptions C14_integer_roundtrip.

Theorem C14_integer_dry_run : forall tag a e, integer_to_der tag a = Ok e -> integer_size a = len e.
Proof. exact integer_dry. Qed.
Print Assumptions C14_integer_dry_run.

Theorem C14_integer_canonical : forall tag inp a rest,
  bytes_okP inp -> len inp <= INT_MAX -> integer_from_der tag inp = Ok (a, rest) ->
  int_norm a /\ exists e, integer_to_der tag (Some a) = Ok e /\ inp = e ++ rest.
Proof. exact integer_canonical. Qed.
Print Assumptions C14_integer_canonical.

Theorem C14_integer_refuses_negative_nonminimal_empty : forall tag r0 l,
  (forall b r1, len_from_der r0 = Ok (l, b :: r1) -> hibit b = true -> integer_from_der tag (tag :: r0) = Err) /\
  (forall c r2, len_from_der r0 = Ok (l, 0 :: c :: r2) -> 1 < l -> hibit c = false -> integer_from_der tag (tag :: r0) = Err) /\
  (forall r, len_from_der r0 = Ok (0, r) -> integer_from_der tag (tag :: r0) = Err).
Proof. exact integer_refuses. Qed.
Print Assumptions C14_integer_refuses_negative_nonminimal_empty.

(* ---- INTEGER held in a C int, 0 .. 2^31-1 *)
Theorem C14_int_roundtrip : forall tag a e rest,
  (0 <= a < 2 ^ 31)%Z -> int_to_der tag a = Ok e -> int_from_der Fixed tag (e ++ rest) = Ok (Z.to_N a, rest).
Proof. exact int_roundtrip. Qed.
Print Assumptions C14_int_roundtrip.

Theorem C14_int_dry_run : forall tag a e, (0 <= a < 2 ^ 31)%Z -> int_to_der tag a = Ok e -> int_size a = len e.
Proof. exact int_dry. Qed.
Print Assumptions C14_int_dry_run.

(* ---- BIT STRING *)
Theorem C14_bit_string_roundtrip : forall tag b nbits e rest,
  len b = (nbits + 7) / 8 -> len b + 1 <= INT_MAX -> bit_string_to_der tag (Some b) nbits = Ok e ->
  bit_string_from_der Fixed tag (e ++ rest) = Ok (b, nbits, rest).
Proof. exact bit_string_roundtrip. Qed.
Print Assumptions C14_bit_string_roundtrip.

Theorem C14_bit_string_dry_run : forall tag b nbits e,
  bit_string_to_der tag b nbits = Ok e -> bit_string_size b nbits = len e.
Proof. exact bit_string_dry. Qed.
Print Assumptions C14_bit_string_dry_run.

(* ---- NULL *)
Theorem C14_null_roundtrip : forall rest, null_from_der (null_to_der ++ rest) = Ok rest.
Proof. exact null_roundtrip. Qed.
Print Assumptions C14_null_roundtrip.

Theorem C14_null_canonical : forall inp rest, null_from_der inp = Ok rest -> inp = null_to_der ++ rest.
Proof. exact null_canonical. Qed.
Print Assumptions C14_null_canonical.

(* ---- OBJECT IDENTIFIER: arcs (32-bit) and octets (2..32 arcs, capacity 32) *)
Theorem C14_oid_arc_roundtrip : forall a rest,
  a < 2 ^ 32 -> node_from_base128 Fixed (node_to_base128 a ++ rest) = Ok (a, rest).
Proof. exact node_roundtrip. Qed.
Print Assumptions C14_oid_arc_roundtrip.

Theorem C14_oid_octets_roundtrip : forall nodes o,
  Forall (fun a => a < 2 ^ 32) nodes -> oid_to_octets Fixed nodes = Ok o -> oid_from_octets Fixed 32 o = Ok nodes.
Proof. exact oid_octets_roundtrip. Qed.
Print Assumptions C14_oid_octets_roundtrip.

Theorem C14_oid_capacity : forall cap inp, OID_MAX_NODES <= cap ->
  match oid_from_octets Fixed cap inp with
  | Ok ns => 2 <= len ns <= OID_MAX_NODES
  | Fault => False
  | _ => True
  end.
Proof. exact oid_from_octets_fixed_safe. Qed.
Print Assumptions C14_oid_capacity.

(* canonicity of OIDs (after the patches): an accepted arc / OID re-encodes to the identical bytes *)
Theorem C14_oid_arc_canonical : forall inp a rest,
  bytes_okP inp -> node_from_base128 Fixed inp = Ok (a, rest) -> a < 2 ^ 32 /\ inp = node_to_base128 a ++ rest.
Proof. exact node_canonical. Qed.
Print Assumptions C14_oid_arc_canonical.

Theorem C14_oid_octets_canonical : forall inp nodes,
  bytes_okP inp -> oid_from_octets Fixed 32 inp = Ok nodes -> oid_to_octets Fixed nodes = Ok inp.
Proof. exact oid_octets_canonical. Qed.
Print Assumptions C14_oid_octets_canonical.

(* ---- SEQUENCE OF INTEGER *)
Theorem C14_seq_of_int_roundtrip : forall cap maxn nums e rest,
  maxn <= cap -> Forall int_range nums -> len nums <= maxn -> len e <= INT_MAX ->
  seq_of_int_to_der nums = Ok e ->
  seq_of_int_from_der Fixed cap maxn (e ++ rest) = Ok (map Z.to_N nums, rest).
Proof. exact seq_of_int_roundtrip. Qed.
Print Assumptions C14_seq_of_int_roundtrip.

Theorem C14_seq_of_int_capacity : forall cap maxn inp, maxn <= cap ->
  match seq_of_int_from_der Fixed cap maxn inp with
  | Ok (ns, rest) => len ns <= maxn /\ proper_suffix_of rest inp
  | Fault => False
  | _ => True
  end.
Proof. exact seq_of_int_from_der_fixed_safe. Qed.
Print Assumptions C14_seq_of_int_capacity.

(* ---- character strings *)
Theorem C14_string_roundtrip : forall valid tag d e rest,
  d <> [] -> len d <= INT_MAX -> string_to_der valid tag (Some d) = Ok e ->
  string_from_der valid tag (e ++ rest) = Ok (d, rest).
Proof. exact string_roundtrip. Qed.
Print Assumptions C14_string_roundtrip.

Theorem C14_string_decoded_is_valid : forall valid tag inp d rest,
  string_from_der valid tag inp = Ok (d, rest) -> valid d = true /\ d <> [] /\ type_from_der tag inp = Ok (d, rest).
Proof. exact string_from_der_valid. Qed.
Print Assumptions C14_string_decoded_is_valid.

Theorem C14_printable_alphabet : forall c, char_is_printable c = existsb (N.eqb c) printable_alphabet.
Proof. exact printable_spec. Qed.
Print Assumptions C14_printable_alphabet.

Theorem C14_utf8_valid_accepted : forall s, utf8_octets s -> s <> [] -> is_utf8_string Fixed s = true.
Proof. exact utf8_valid_accepted. Qed.
Print Assumptions C14_utf8_valid_accepted.

(* ---- SM2 signature SEQUENCE { r INTEGER, s INTEGER } *)
Theorem C14_sm2_signature_roundtrip : forall r s e rest,
  length r = 32%nat -> length s = 32%nat -> sm2_sig_to_der r s = Ok e ->
  sm2_sig_from_der (e ++ rest) = Ok (r, s, rest).
Proof. exact sm2_sig_roundtrip. Qed.
Print Assumptions C14_sm2_signature_roundtrip.

Theorem C14_sm2_signature_dry_run : forall r s e, sm2_sig_to_der r s = Ok e -> sm2_sig_size r s = len e.
Proof. exact sm2_sig_dry. Qed.
Print Assumptions C14_sm2_signature_dry_run.

Theorem C14_sm2_signature_canonical : forall inp r s rest,
  bytes_okP inp -> len inp <= INT_MAX -> sm2_sig_from_der inp = Ok (r, s, rest) ->
  length r = 32%nat /\ length s = 32%nat /\ exists e, sm2_sig_to_der r s = Ok e /\ inp = e ++ rest.
Proof. exact sm2_sig_canonical. Qed.
Print Assumptions C14_sm2_signature_canonical.

(* ---- hex *)
Theorem C14_hex_roundtrip : forall up bs, bytes_okP bs -> hex_to_bytes Fixed (hex_enc up bs) = Ok bs.
Proof. exact hex_roundtrip. Qed.
Print Assumptions C14_hex_roundtrip.

Theorem C14_hex_refuses_malformed : forall t bs, hex_to_bytes Fixed t = Ok bs ->
  len t = 2 * len bs /\ Forall (fun c => hexchar2int c <> None) t.
Proof. exact hex_decode_sound. Qed.
Print Assumptions C14_hex_refuses_malformed.

Theorem C14_hex_capacity : forall t, hex_written t <= len t / 2.
Proof. exact hex_written_le. Qed.
Print Assumptions C14_hex_capacity.

(* ---- refutation witnesses: the literal model of the pinned tree violates the property *)
Theorem C14_refuted_utf8_multibyte :
  utf8_octets [195; 169] /\ is_utf8_string AsIs [195; 169] = false /\ is_utf8_string Fixed [195; 169] = true.
Proof. exact utf8_asis_refuses_e_acute. Qed.
Print Assumptions C14_refuted_utf8_multibyte.

Theorem C14_refuted_utf8_only_ascii : forall s, is_utf8_string AsIs s = true -> Forall (fun b => N.land b 128 = 0) s.
Proof. exact utf8_asis_only_ascii. Qed.
Print Assumptions C14_refuted_utf8_only_ascii.

Theorem C14_refuted_oid_33_arcs :
  oid_from_octets AsIs 32 (42 :: repeat 1 31) = Fault /\ oid_from_octets Fixed 32 (42 :: repeat 1 31) = Err.
Proof. exact oid_33_arcs_asis_faults. Qed.
Print Assumptions C14_refuted_oid_33_arcs.

Theorem C14_refuted_oid_leading_0x80 :
  node_from_base128 AsIs [128; 1] = Ok (1, []) /\ node_from_base128 Fixed [128; 1] = Err /\ node_to_base128 1 = [1].
Proof. exact node_lead80_asis_accepted. Qed.
Print Assumptions C14_refuted_oid_leading_0x80.

Theorem C14_refuted_empty_bit_string :
  bit_string_to_der 3 (Some []) 0 = Ok [3; 1; 0] /\ bit_string_from_der AsIs 3 [3; 1; 0] = Err
  /\ bit_string_from_der Fixed 3 [3; 1; 0] = Ok ([], 0, []).
Proof. exact bit_string_empty_asis_refused. Qed.
Print Assumptions C14_refuted_empty_bit_string.

(* ---- base64 (src/base64.c) *)
From GmVerif Require Import Codec.Base64 Codec.Base64Proofs Codec.Time Codec.TimeProofs.

Theorem C14_base64_block_roundtrip : forall bs, bytes_okP bs ->
  decode_groups (encode_block bs) = Some (bs ++ zeros (padk (length bs))).
Proof. exact groups_roundtrip. Qed.
Print Assumptions C14_base64_block_roundtrip.

Theorem C14_base64_encoder_chunking_invariant : forall chunks,
  encode_chunks [] chunks = encode_all (concat chunks).
Proof. exact encode_chunking_invariant. Qed.
Print Assumptions C14_base64_encoder_chunking_invariant.

(* decoding inverts the encoder for every byte string and EVERY split of the text *)
Theorem C14_base64_stream_roundtrip : forall bs chunks,
  bytes_okP bs -> concat chunks = encode_all bs -> decode_chunks [] chunks = Some bs.
Proof. exact decode_stream_roundtrip. Qed.
Print Assumptions C14_base64_stream_roundtrip.

Theorem C14_base64_stream_roundtrip_both_sides : forall ins chunks,
  bytes_okP (concat ins) -> concat chunks = encode_chunks [] ins -> decode_chunks [] chunks = Some (concat ins).
Proof. exact stream_roundtrip. Qed.
Print Assumptions C14_base64_stream_roundtrip_both_sides.

Theorem C14_base64_decode_capacity : forall (buf inp : list N) (rv : Z) (buf' o : list N),
  decode_update buf inp = (rv, buf', o) ->
  len o <= 3 * ((len buf + len inp) / 4) /\ (len buf < 64 -> len buf' < 64) /\ (-1 <= rv <= 1)%Z.
Proof. exact decode_update_capacity. Qed.
Print Assumptions C14_base64_decode_capacity.

Theorem C14_base64_encode_capacity : forall (buf inp : list N) (rv : N) (buf' o : list N),
  len buf < 48 -> encode_update buf inp = (rv, buf', o) ->
  len o = 65 * ((len buf + len inp) / 48) /\ len buf' = (len buf + len inp) mod 48 /\ len buf' < 48.
Proof. exact encode_update_capacity. Qed.
Print Assumptions C14_base64_encode_capacity.

Theorem C14_base64_refuses_bad_char : forall buf pre c post,
  noeof pre -> ascii2bin c = B64_ERROR -> fst (fst (decode_update buf (pre ++ c :: post))) = (-1)%Z.
Proof. exact decode_refuses_bad_char. Qed.
Print Assumptions C14_base64_refuses_bad_char.

Theorem C14_base64_refuses_data_after_padding : forall buf pre mid c post,
  noeof pre -> noeof mid -> digc c = true ->
  fst (fst (decode_update buf (pre ++ 61 :: mid ++ c :: post))) = (-1)%Z.
Proof. exact decode_refuses_data_after_pad. Qed.
Print Assumptions C14_base64_refuses_data_after_padding.

(* ---- UTCTime / GeneralizedTime *)
Theorem C14_time_roundtrip : forall utc t s, time_to_str utc t = Some s -> time_from_str utc s = Ok t.
Proof. exact time_roundtrip. Qed.
Print Assumptions C14_time_roundtrip.

Theorem C14_time_range : forall utc t, (exists s, time_to_str utc t = Some s) <-> t < limit utc.
Proof. exact time_to_str_defined. Qed.
Print Assumptions C14_time_range.

Theorem C14_time_canonical : forall (utc : bool) (s : list N) (t : N),
  length s = (if utc then 13 else 15)%nat -> time_from_str utc s = Ok t -> time_to_str utc t = Some s.
Proof. exact time_canonical. Qed.
Print Assumptions C14_time_canonical.

Theorem C14_time_der_roundtrip : forall utc tag t e rest,
  time_to_der utc tag (Some t) = Ok e -> time_from_der utc tag (e ++ rest) = Ok (t, rest).
Proof. exact time_der_roundtrip. Qed.
Print Assumptions C14_time_der_roundtrip.

Theorem C14_time_der_dry_run : forall utc tag ot e, time_to_der utc tag ot = Ok e -> time_size utc ot = len e.
Proof. exact time_der_dry. Qed.
Print Assumptions C14_time_der_dry_run.

Theorem C14_time_der_canonical : forall utc tag inp t rest,
  bytes_okP inp -> time_from_der utc tag inp = Ok (t, rest) ->
  exists e, time_to_der utc tag (Some t) = Ok e /\ inp = e ++ rest.
Proof. exact time_der_canonical. Qed.
Print Assumptions C14_time_der_canonical.

(* ---- PEM framing (src/pem.c) over the base64 stream codec *)
From GmVerif Require Import Codec.Pkcs Codec.Pem Codec.PemProofs.

Theorem C14_pem_write_text : forall name data, data <> [] ->
  pem_write name data = Some (pem_header name ++ encode_all data ++ pem_footer name).
Proof. exact pem_write_spec. Qed.
Print Assumptions C14_pem_write_text.

(* read(write x) = x, for every name without NUL/CR/LF of at most 62 characters, every data that
   fits the declared capacity, and whatever follows in the file (left unread) *)
Theorem C14_pem_roundtrip : forall name data text tail maxlen,
  name_ok name -> bytes_okP data -> len data <= maxlen ->
  pem_write name data = Some text -> pem_read name (text ++ tail) maxlen = Ok (data, tail).
Proof. exact pem_roundtrip. Qed.
Print Assumptions C14_pem_roundtrip.

Theorem C14_pem_capacity : forall name inp maxlen d rest,
  pem_read name inp maxlen = Ok (d, rest) -> len d <= maxlen.
Proof. exact pem_read_capacity. Qed.
Print Assumptions C14_pem_capacity.

Theorem C14_pem_refuses_too_small_capacity : forall name data text tail maxlen,
  name_ok name -> bytes_okP data -> maxlen < len data ->
  pem_write name data = Some text -> pem_read name (text ++ tail) maxlen = Err.
Proof. exact pem_read_too_small. Qed.
Print Assumptions C14_pem_refuses_too_small_capacity.

Theorem C14_pem_refuses_bad_char : forall name lines pre c post more maxlen, name_ok name ->
  Forall (fun l => len l <= 78 /\ clean l /\ l <> end_line name) lines ->
  len (pre ++ c :: post) <= 78 -> clean (pre ++ c :: post) -> noeof pre -> ascii2bin c = B64_ERROR ->
  pem_read name (begin_line name ++ 10 :: nl_lines lines ++ (pre ++ c :: post) ++ 10 :: more) maxlen = Err.
Proof. exact pem_read_bad_char. Qed.
Print Assumptions C14_pem_refuses_bad_char.

(* ---- composite objects (src/x509_alg.c, ec.c, pkcs8.c, sm2_key.c, sm2_enc.c) *)
From GmVerif Require Import Codec.PkcsProofs Codec.PkcsOpen.

Theorem C14_public_key_algor_roundtrip : forall id par e rest,
  pk_algor_to_der id par = Ok e ->
  pk_algor_from_der (e ++ rest) = Ok (id, (if (id =? 10)%Z then par else 1%Z), rest).
Proof. exact pk_algor_roundtrip. Qed.
Print Assumptions C14_public_key_algor_roundtrip.

Theorem C14_encryption_algor_roundtrip : forall id iv e rest,
  len iv = 16 -> enc_algor_to_der id iv = Ok e -> enc_algor_from_der (e ++ rest) = Ok (id, iv, rest).
Proof. exact enc_algor_roundtrip. Qed.
Print Assumptions C14_encryption_algor_roundtrip.

(* PBKDF2-params: every presence pattern of the OPTIONAL keyLength / prf; an absent field decodes to -1 *)
Theorem C14_pbkdf2_params_roundtrip : forall salt iter keylen prf e rest,
  salt <> [] -> len salt <= 1048576 -> (0 < iter < 2 ^ 31)%Z ->
  (keylen = -1 \/ 0 <= keylen < 2 ^ 31)%Z -> (prf = -1 \/ prf = 30)%Z ->
  pbkdf2_params_to_der salt iter keylen prf = Ok e ->
  pbkdf2_params_from_der (e ++ rest) = Ok (salt, iter, keylen, prf, rest).
Proof. exact pbkdf2_params_roundtrip. Qed.
Print Assumptions C14_pbkdf2_params_roundtrip.

Theorem C14_encrypted_private_key_info_roundtrip : forall p enced e rest,
  pbes2_ok p -> len enced <= 1048576 -> p8e_to_der p enced = Ok e -> p8e_from_der (e ++ rest) = Ok (p, enced, rest).
Proof. exact p8e_roundtrip. Qed.
Print Assumptions C14_encrypted_private_key_info_roundtrip.

Theorem C14_sm2_ciphertext_roundtrip : forall x y hash c e rest,
  length x = 32%nat -> length y = 32%nat -> len hash = 32 -> len c <= 255 ->
  sm2_ct_to_der x y hash c = Ok e -> sm2_ct_from_der (e ++ rest) = Ok (x, y, hash, c, rest).
Proof. exact sm2_ct_roundtrip. Qed.
Print Assumptions C14_sm2_ciphertext_roundtrip.

Theorem C14_sm2_ciphertext_canonical : forall inp x y h c rest,
  bytes_okP inp -> len inp <= INT_MAX -> sm2_ct_from_der inp = Ok (x, y, h, c, rest) ->
  length x = 32%nat /\ length y = 32%nat /\ len h = 32 /\ len c <= 255 /\
  exists e, sm2_ct_to_der x y h c = Ok e /\ inp = e ++ rest.
Proof. exact sm2_ct_canonical. Qed.
Print Assumptions C14_sm2_ciphertext_canonical.

(* keys: [pub_of d] stands for [d]G and [pt_ok] for the curve-membership test (C12/C13) *)
Theorem C14_sm2_public_key_info_roundtrip : forall (pub_of : list N -> list N) pt_ok xy e rest,
  length xy = 64%nat -> pt_ok (4 :: xy) = true -> sm2_pubinfo_to_der xy = Ok e ->
  sm2_pubinfo_from_der pt_ok (e ++ rest) = Ok (xy, rest).
Proof. exact sm2_pubinfo_roundtrip. Qed.
Print Assumptions C14_sm2_public_key_info_roundtrip.

Theorem C14_sm2_private_key_roundtrip : forall pub_of pt_ok d e rest,
  length d = 32%nat -> d_ok d = true -> length (pub_of d) = 64%nat -> pt_ok (4 :: pub_of d) = true ->
  sm2_priv_to_der pub_of d = Ok e -> sm2_priv_from_der pub_of pt_ok (e ++ rest) = Ok (d, pub_of d, rest).
Proof. exact sm2_priv_roundtrip. Qed.
Print Assumptions C14_sm2_private_key_roundtrip.

Theorem C14_sm2_private_key_info_roundtrip : forall pub_of pt_ok d e rest,
  length d = 32%nat -> d_ok d = true -> length (pub_of d) = 64%nat -> pt_ok (4 :: pub_of d) = true ->
  sm2_p8_to_der pub_of d = Ok e -> sm2_p8_from_der pub_of pt_ok (e ++ rest) = Ok (d, pub_of d, None, rest).
Proof. exact sm2_p8_roundtrip. Qed.
Print Assumptions C14_sm2_private_key_info_roundtrip.

Theorem C14_sm2_private_key_decoded_is_consistent : forall pub_of pt_ok inp d pub rest,
  sm2_priv_from_der pub_of pt_ok inp = Ok (d, pub, rest) ->
  len d = 32 /\ d_ok d = true /\ pub = pub_of d /\ pt_ok (4 :: pub) = true /\ len pub = 64.
Proof. exact sm2_priv_from_der_sound. Qed.
Print Assumptions C14_sm2_private_key_decoded_is_consistent.

(* "opening a password-encrypted key with a wrong password never yields a key", structural form:
   success under ANY password means valid CBC padding under the key derived from that password,
   exactly one PrivateKeyInfo as plaintext, and embedded public key = [d]G *)
Theorem C14_encrypted_key_open_sound : forall pub_of pt_ok kdf cbcdec pass inp d pub attrs rest,
  sm2_p8_open_c pub_of pt_ok kdf cbcdec pass inp = Ok (d, pub, attrs, rest) ->
  attrs = None /\
  exists p enced pt a, p8e_from_der inp = Ok (p, enced, rest)
    /\ cbcdec (kdf pass (p_salt p) (p_iter p)) (p_iv p) enced = Some pt
    /\ sm2_p8_from_der pub_of pt_ok pt = Ok (d, pub, a, [])
    /\ pub = pub_of d /\ d_ok d = true /\ pt_ok (4 :: pub) = true.
Proof. exact sm2_p8_open_c_sound. Qed.
Print Assumptions C14_encrypted_key_open_sound.

Theorem C14_encrypted_key_seal_open_partial : forall pub_of pt_ok kdf cbcdec cbcenc pass p d info e rest,
  (forall key iv x, cbcdec key iv (cbcenc key iv x) = Some x) ->
  pbes2_ok p -> (p_keylen p = -1 \/ p_keylen p = 16)%Z ->
  length d = 32%nat -> d_ok d = true -> length (pub_of d) = 64%nat -> pt_ok (4 :: pub_of d) = true ->
  sm2_p8_to_der pub_of d = Ok info ->
  len (cbcenc (kdf pass (p_salt p) (p_iter p)) (p_iv p) info) <= 256 ->
  p8e_to_der p (cbcenc (kdf pass (p_salt p) (p_iter p)) (p_iv p) info) = Ok e ->
  sm2_p8_open pub_of pt_ok kdf cbcdec pass (e ++ rest) = Ok (d, pub_of d, None, rest).
Proof. exact sm2_p8_seal_open. Qed.
Print Assumptions C14_encrypted_key_seal_open_partial.

(* ---- decode determines the WHOLE target object (an SM2_KEY has a private and a public part):
   a public-key decoder stores the point and the private scalar 0, whatever the target held before *)
Theorem C14_sm2_public_key_decode_determines_whole_key : forall (pub_of : list N -> list N) pt_ok inp k rest,
  sm2_pubkey_from_der pt_ok inp = Ok (k, rest) ->
  k_priv k = zeros 32 /\ len (k_pub k) = 64 /\ pt_ok (4 :: k_pub k) = true.
Proof. exact sm2_pubkey_from_der_whole. Qed.
Print Assumptions C14_sm2_public_key_decode_determines_whole_key.

Theorem C14_sm2_public_key_info_roundtrip_whole_key : forall (pub_of : list N -> list N) pt_ok xy e rest,
  length xy = 64%nat -> pt_ok (4 :: xy) = true -> sm2_pubinfo_to_der xy = Ok e ->
  sm2_pubkeyinfo_from_der pt_ok (e ++ rest) = Ok ({| k_priv := zeros 32; k_pub := xy |}, rest).
Proof. exact sm2_pubkeyinfo_roundtrip. Qed.
Print Assumptions C14_sm2_public_key_info_roundtrip_whole_key.

Theorem C14_sm2_private_key_decode_determines_whole_key : forall pub_of pt_ok inp k rest,
  sm2_privkey_from_der pub_of pt_ok inp = Ok (k, rest) ->
  len (k_priv k) = 32 /\ d_ok (k_priv k) = true /\ k_pub k = pub_of (k_priv k) /\ len (k_pub k) = 64.
Proof. exact sm2_privkey_from_der_whole. Qed.
Print Assumptions C14_sm2_private_key_decode_determines_whole_key.

(* ---- wave 5: asn1_bits, AlgorithmIdentifiers over the library's own OID tables (Codec/OidTables.v is generated
   from the sources), SM9 key containers (Codec/Sm9Key.v; point validity, PBKDF2 and SM4-CBC are parameters, the
   seal/open round trips carry the cipher-inversion premises) *)
From GmVerif Require Import Codec.BitsProofs Codec.OidTables Codec.X509 Codec.X509Proofs Codec.Sm9Key Codec.Sm9KeyProofs.
Theorem C14_bits_roundtrip :
  forall (tag : N) (v : Z) (e rest : list N),
  (0 <= v < 2 ^ 31)%Z ->
  bits_to_der tag v = Ok e -> bits_from_der Fixed tag (e ++ rest) = Ok (Z.to_N v, rest).
Proof. exact bits_roundtrip. Qed.
Print Assumptions C14_bits_roundtrip.

Theorem C14_bits_dry_run_length :
  forall (tag : N) (v : Z) (e : list N), (0 <= v)%Z -> bits_to_der tag v = Ok e -> bits_size v = len e.
Proof. exact bits_dry. Qed.
Print Assumptions C14_bits_dry_run_length.

Theorem C14_bits_decoded_range :
  forall (tag : N) (inp : list N) (v : N) (rest : list N),
  bits_from_der Fixed tag inp = Ok (v, rest) -> v < 2 ^ 31.
Proof. exact bits_from_der_range. Qed.
Print Assumptions C14_bits_decoded_range.

Theorem C14_bits_trailing_zero_bits_accepted :
  bits_to_der 3 0 = Ok [3; 2; 7; 0] /\
  bits_from_der Fixed 3 [3; 2; 7; 0] = Ok (0, []) /\ bits_from_der Fixed 3 [3; 2; 6; 0] = Ok (0, []).
Proof. exact bits_not_canonical. Qed.
Print Assumptions C14_bits_trailing_zero_bits_accepted.

Theorem C14_digest_algorithm_identifier_roundtrip :
  forall (id : Z) (e : list N),
  digest_algor_to_der id = Ok e -> digest_algor_from_der true e = Ok (id, []).
Proof. exact digest_algor_roundtrip. Qed.
Print Assumptions C14_digest_algorithm_identifier_roundtrip.

Theorem C14_signature_algorithm_identifier_roundtrip :
  forall (id : Z) (e : list N), sign_algor_to_der id = Ok e -> sign_algor_from_der e = Ok (id, []).
Proof. exact sign_algor_roundtrip. Qed.
Print Assumptions C14_signature_algorithm_identifier_roundtrip.

Theorem C14_pke_algorithm_identifier_roundtrip :
  forall (id : Z) (e : list N), pke_algor_to_der id = Ok e -> pke_algor_from_der e = Ok (id, PNull, []).
Proof. exact pke_algor_roundtrip. Qed.
Print Assumptions C14_pke_algorithm_identifier_roundtrip.

Theorem C14_oid_tables_injective :
  forallb
  (fun tab : oid_tab =>
  forallb (fun '(id, ns) => match id_of tab ns with
  | Some i => (i =? id)%Z
  | None => false
  end) tab)
  [tab_digest_algors; tab_sign_algors; tab_pke_algors; tab_ext_ids; tab_key_purposes;
  tab_cms_content_types; tab_x509_enc_algors; tab_public_key_algors; tab_named_curves;
  tab_name_types; tab_qt_ids; tab_access_methods; tab_crl_entry_exts; tab_crl_exts] = true.
Proof. exact oid_tables_injective. Qed.
Print Assumptions C14_oid_tables_injective.

Theorem C14_sm9_oid_roundtrip :
  forall (id : Z) (e rest : list N),
  sm9_oid_to_der id = Ok e -> sm9_oid_from_der (e ++ rest) = Ok (id, rest).
Proof. exact sm9_oid_roundtrip. Qed.
Print Assumptions C14_sm9_oid_roundtrip.

Theorem C14_sm9_algorithm_identifier_roundtrip :
  forall (alg par : Z) (e rest : list N),
  sm9_algor_to_der alg par = Ok e -> sm9_algor_from_der (e ++ rest) = Ok (alg, par, rest).
Proof. exact sm9_algor_roundtrip. Qed.
Print Assumptions C14_sm9_algorithm_identifier_roundtrip.

Theorem C14_sm9_private_key_info_roundtrip :
  forall (alg par : Z) (key e rest : list N),
  s9_pki_to_der alg par key = Ok e -> s9_pki_from_der (e ++ rest) = Ok (alg, par, key, rest).
Proof. exact s9_pki_roundtrip. Qed.
Print Assumptions C14_sm9_private_key_info_roundtrip.

Theorem C14_sm9_sign_master_key_roundtrip :
  (list N -> bool) ->
  forall (g2_ok : list N -> bool) (k : sign_msk) (e rest : list N),
  length (sm_ks k) = 32%nat ->
  be_to_N (sm_ks k) < sm9_n ->
  length (sm_Ppubs k) = 128%nat ->
  g2_ok (4 :: sm_Ppubs k) = true ->
  sign_msk_to_der k = Ok e -> sign_msk_from_der g2_ok (e ++ rest) = Ok (k, rest).
Proof. exact sign_msk_roundtrip. Qed.
Print Assumptions C14_sm9_sign_master_key_roundtrip.

Theorem C14_sm9_sign_master_public_key_roundtrip :
  (list N -> bool) ->
  forall (g2_ok : list N -> bool) (k : sign_msk) (e rest : list N),
  length (sm_Ppubs k) = 128%nat ->
  g2_ok (4 :: sm_Ppubs k) = true ->
  sign_mpk_to_der k = Ok e ->
  sign_mpk_from_der g2_ok (e ++ rest) = Ok ({| sm_ks := zeros 32; sm_Ppubs := sm_Ppubs k |}, rest).
Proof. exact sign_mpk_roundtrip. Qed.
Print Assumptions C14_sm9_sign_master_public_key_roundtrip.

Theorem C14_sm9_sign_key_roundtrip :
  forall (g1_ok g2_ok : list N -> bool) (k : sign_key) (e rest : list N),
  length (sk_ds k) = 64%nat ->
  g1_ok (4 :: sk_ds k) = true ->
  length (sk_Ppubs k) = 128%nat ->
  g2_ok (4 :: sk_Ppubs k) = true ->
  sign_key_to_der k = Ok e -> sign_key_from_der g1_ok g2_ok (e ++ rest) = Ok (k, rest).
Proof. exact sign_key_roundtrip. Qed.
Print Assumptions C14_sm9_sign_key_roundtrip.

Theorem C14_sm9_enc_master_key_roundtrip :
  forall g1_ok : list N -> bool,
  (list N -> bool) ->
  forall (k : enc_msk) (e rest : list N),
  length (em_ke k) = 32%nat ->
  be_to_N (em_ke k) < sm9_n ->
  length (em_Ppube k) = 64%nat ->
  g1_ok (4 :: em_Ppube k) = true ->
  enc_msk_to_der k = Ok e -> enc_msk_from_der g1_ok (e ++ rest) = Ok (k, rest).
Proof. exact enc_msk_roundtrip. Qed.
Print Assumptions C14_sm9_enc_master_key_roundtrip.

Theorem C14_sm9_enc_master_public_key_roundtrip :
  forall g1_ok : list N -> bool,
  (list N -> bool) ->
  forall (k : enc_msk) (e rest : list N),
  length (em_Ppube k) = 64%nat ->
  g1_ok (4 :: em_Ppube k) = true ->
  enc_mpk_to_der k = Ok e ->
  enc_mpk_from_der g1_ok (e ++ rest) = Ok ({| em_ke := zeros 32; em_Ppube := em_Ppube k |}, rest).
Proof. exact enc_mpk_roundtrip. Qed.
Print Assumptions C14_sm9_enc_master_public_key_roundtrip.

Theorem C14_sm9_enc_key_roundtrip :
  forall (g1_ok g2_ok : list N -> bool) (k : enc_key) (e rest : list N),
  length (ek_de k) = 128%nat ->
  g2_ok (4 :: ek_de k) = true ->
  length (ek_Ppube k) = 64%nat ->
  g1_ok (4 :: ek_Ppube k) = true ->
  enc_key_to_der k = Ok e -> enc_key_from_der g1_ok g2_ok (e ++ rest) = Ok (k, rest).
Proof. exact enc_key_roundtrip. Qed.
Print Assumptions C14_sm9_enc_key_roundtrip.

Theorem C14_sm9_sign_master_key_decode_sound :
  (list N -> bool) ->
  forall (g2_ok : list N -> bool) (inp : list N) (k : sign_msk) (rest : list N),
  sign_msk_from_der g2_ok inp = Ok (k, rest) ->
  length (sm_ks k) = 32%nat /\
  be_to_N (sm_ks k) < sm9_n /\ len (sm_Ppubs k) = 128 /\ g2_ok (4 :: sm_Ppubs k) = true.
Proof. exact sign_msk_from_der_sound. Qed.
Print Assumptions C14_sm9_sign_master_key_decode_sound.

Theorem C14_sm9_sign_key_decode_sound :
  forall (g1_ok g2_ok : list N -> bool) (inp : list N) (k : sign_key) (rest : list N),
  sign_key_from_der g1_ok g2_ok inp = Ok (k, rest) ->
  len (sk_ds k) = 64 /\
  g1_ok (4 :: sk_ds k) = true /\ len (sk_Ppubs k) = 128 /\ g2_ok (4 :: sk_Ppubs k) = true.
Proof. exact sign_key_from_der_sound. Qed.
Print Assumptions C14_sm9_sign_key_decode_sound.

Theorem C14_sm9_enc_master_key_decode_sound :
  forall g1_ok : list N -> bool,
  (list N -> bool) ->
  forall (inp : list N) (k : enc_msk) (rest : list N),
  enc_msk_from_der g1_ok inp = Ok (k, rest) ->
  length (em_ke k) = 32%nat /\
  be_to_N (em_ke k) < sm9_n /\ len (em_Ppube k) = 64 /\ g1_ok (4 :: em_Ppube k) = true.
Proof. exact enc_msk_from_der_sound. Qed.
Print Assumptions C14_sm9_enc_master_key_decode_sound.

Theorem C14_sm9_enc_key_decode_sound :
  forall (g1_ok g2_ok : list N -> bool) (inp : list N) (k : enc_key) (rest : list N),
  enc_key_from_der g1_ok g2_ok inp = Ok (k, rest) ->
  len (ek_de k) = 128 /\
  g2_ok (4 :: ek_de k) = true /\ len (ek_Ppube k) = 64 /\ g1_ok (4 :: ek_Ppube k) = true.
Proof. exact enc_key_from_der_sound. Qed.
Print Assumptions C14_sm9_enc_key_decode_sound.

Theorem C14_sm9_sign_and_enc_types_distinct :
  forall (g1_ok g2_ok : list N -> bool) (sm : sign_msk) (em : enc_msk) (sk : sign_key) 
  (ek : enc_key) (rest : list N),
  length (sm_ks sm) = 32%nat ->
  length (sm_Ppubs sm) = 128%nat ->
  length (em_ke em) = 32%nat ->
  length (em_Ppube em) = 64%nat ->
  length (sk_ds sk) = 64%nat ->
  length (sk_Ppubs sk) = 128%nat ->
  length (ek_de ek) = 128%nat ->
  length (ek_Ppube ek) = 64%nat ->
  (forall e : list N, sign_msk_to_der sm = Ok e -> enc_msk_from_der g1_ok (e ++ rest) = Err) /\
  (forall e : list N, enc_msk_to_der em = Ok e -> sign_msk_from_der g2_ok (e ++ rest) = Err) /\
  (forall e : list N, sign_mpk_to_der sm = Ok e -> enc_mpk_from_der g1_ok (e ++ rest) = Err) /\
  (forall e : list N, enc_mpk_to_der em = Ok e -> sign_mpk_from_der g2_ok (e ++ rest) = Err) /\
  (forall e : list N, sign_key_to_der sk = Ok e -> enc_key_from_der g1_ok g2_ok (e ++ rest) = Err) /\
  (forall e : list N, enc_key_to_der ek = Ok e -> sign_key_from_der g1_ok g2_ok (e ++ rest) = Err).
Proof. exact sign_enc_types_distinct. Qed.
Print Assumptions C14_sm9_sign_and_enc_types_distinct.

Theorem C14_sm9_signature_roundtrip :
  forall g1_ok : list N -> bool,
  (list N -> bool) ->
  forall h sp e rest : list N,
  length h = 32%nat ->
  be_to_N h < sm9_n ->
  length sp = 64%nat ->
  g1_ok (4 :: sp) = true ->
  sm9_sig_to_der h sp = Ok e -> sm9_sig_from_der g1_ok (e ++ rest) = Ok (h, sp, rest).
Proof. exact sm9_sig_roundtrip. Qed.
Print Assumptions C14_sm9_signature_roundtrip.

Theorem C14_sm9_ciphertext_roundtrip :
  forall g1_ok : list N -> bool,
  (list N -> bool) ->
  forall C1 c2 c3 e rest : list N,
  length C1 = 64%nat ->
  g1_ok (4 :: C1) = true ->
  len c3 = 32 ->
  len c2 <= 1048576 ->
  sm9_ct_to_der C1 c2 c3 = Ok e -> sm9_ct_from_der g1_ok (e ++ rest) = Ok (C1, c2, c3, rest).
Proof. exact sm9_ct_roundtrip. Qed.
Print Assumptions C14_sm9_ciphertext_roundtrip.

Theorem C14_sm9_encrypted_key_open_sound :
  (list N -> bool) ->
  (list N -> bool) ->
  forall (kdf : list N -> list N -> Z -> list N)
  (cbcdec : list N -> list N -> list N -> option (list N)) (K : Type) (ealg epar : Z)
  (dec : list N -> res (K * list N)) (pass inp : list N) (key : K) (rest : list N),
  s9_open_as kdf cbcdec ealg epar dec pass inp = Ok (key, rest) ->
  exists (p : pbes2) (enced pt kb : list N),
  p8e_from_der inp = Ok (p, enced, rest) /\
  cbcdec (kdf pass (p_salt p) (p_iter p)) (p_iv p) enced = Some pt /\
  s9_pki_from_der pt = Ok (ealg, epar, kb, []) /\ dec kb = Ok (key, []).
Proof. exact s9_open_as_inv. Qed.
Print Assumptions C14_sm9_encrypted_key_open_sound.

Theorem C14_sm9_encrypted_key_open_refuses :
  (list N -> bool) ->
  (list N -> bool) ->
  forall (kdf : list N -> list N -> Z -> list N)
  (cbcdec : list N -> list N -> list N -> option (list N)) (pass inp : list N) 
  (p : pbes2) (enced rest : list N),
  p8e_from_der inp = Ok (p, enced, rest) ->
  cbcdec (kdf pass (p_salt p) (p_iter p)) (p_iv p) enced = None \/
  (exists pt : list N,
  cbcdec (kdf pass (p_salt p) (p_iter p)) (p_iv p) enced = Some pt /\
  (forall (alg par : Z) (k : list N), s9_pki_from_der pt <> Ok (alg, par, k, []))) ->
  s9_open kdf cbcdec pass inp = Err.
Proof. exact s9_open_refuses. Qed.
Print Assumptions C14_sm9_encrypted_key_open_refuses.

Theorem C14_sm9_encrypted_key_other_type_refused :
  forall (kdf : list N -> list N -> Z -> list N)
  (cbcdec : list N -> list N -> list N -> option (list N)) (K : Type) (ealg epar : Z)
  (dec : list N -> res (K * list N)) (pass inp : list N) (alg par : Z) (kb rest : list N),
  s9_open kdf cbcdec pass inp = Ok (alg, par, kb, rest) ->
  alg <> ealg \/ par <> epar -> s9_open_as kdf cbcdec ealg epar dec pass inp = Err.
Proof. exact s9_open_as_other_type. Qed.
Print Assumptions C14_sm9_encrypted_key_other_type_refused.

Theorem C14_sm9_sign_master_key_seal_open_partial :
  (list N -> bool) ->
  forall (g2_ok : list N -> bool) (kdf : list N -> list N -> Z -> list N)
  (cbcdec : list N -> list N -> list N -> option (list N))
  (cbcenc : list N -> list N -> list N -> list N),
  (forall key iv x : list N, cbcdec key iv (cbcenc key iv x) = Some x) ->
  (forall key iv x : list N, len x <= 500 -> len (cbcenc key iv x) <= 512) ->
  forall (k : sign_msk) (pass salt iv e rest : list N),
  salt <> [] ->
  len salt <= 1048576 ->
  len iv = 16 ->
  length (sm_ks k) = 32%nat ->
  be_to_N (sm_ks k) < sm9_n ->
  length (sm_Ppubs k) = 128%nat ->
  g2_ok (4 :: sm_Ppubs k) = true ->
  sign_msk_seal kdf cbcenc k pass salt iv = Ok e ->
  sign_msk_open g2_ok kdf cbcdec pass (e ++ rest) = Ok (k, rest).
Proof. exact sign_msk_seal_open. Qed.
Print Assumptions C14_sm9_sign_master_key_seal_open_partial.

Theorem C14_sm9_sign_key_seal_open_partial :
  forall (g1_ok g2_ok : list N -> bool) (kdf : list N -> list N -> Z -> list N)
  (cbcdec : list N -> list N -> list N -> option (list N))
  (cbcenc : list N -> list N -> list N -> list N),
  (forall key iv x : list N, cbcdec key iv (cbcenc key iv x) = Some x) ->
  (forall key iv x : list N, len x <= 500 -> len (cbcenc key iv x) <= 512) ->
  forall (k : sign_key) (pass salt iv e rest : list N),
  salt <> [] ->
  len salt <= 1048576 ->
  len iv = 16 ->
  length (sk_ds k) = 64%nat ->
  g1_ok (4 :: sk_ds k) = true ->
  length (sk_Ppubs k) = 128%nat ->
  g2_ok (4 :: sk_Ppubs k) = true ->
  sign_key_seal kdf cbcenc k pass salt iv = Ok e ->
  sign_key_open g1_ok g2_ok kdf cbcdec pass (e ++ rest) = Ok (k, rest).
Proof. exact sign_key_seal_open. Qed.
Print Assumptions C14_sm9_sign_key_seal_open_partial.

Theorem C14_sm9_enc_master_key_seal_open_partial :
  forall g1_ok : list N -> bool,
  (list N -> bool) ->
  forall (kdf : list N -> list N -> Z -> list N)
  (cbcdec : list N -> list N -> list N -> option (list N))
  (cbcenc : list N -> list N -> list N -> list N),
  (forall key iv x : list N, cbcdec key iv (cbcenc key iv x) = Some x) ->
  (forall key iv x : list N, len x <= 500 -> len (cbcenc key iv x) <= 512) ->
  forall (k : enc_msk) (pass salt iv e rest : list N),
  salt <> [] ->
  len salt <= 1048576 ->
  len iv = 16 ->
  length (em_ke k) = 32%nat ->
  be_to_N (em_ke k) < sm9_n ->
  length (em_Ppube k) = 64%nat ->
  g1_ok (4 :: em_Ppube k) = true ->
  enc_msk_seal kdf cbcenc k pass salt iv = Ok e ->
  enc_msk_open g1_ok kdf cbcdec pass (e ++ rest) = Ok (k, rest).
Proof. exact enc_msk_seal_open. Qed.
Print Assumptions C14_sm9_enc_master_key_seal_open_partial.

Theorem C14_sm9_enc_key_seal_open_partial :
  forall (g1_ok g2_ok : list N -> bool) (kdf : list N -> list N -> Z -> list N)
  (cbcdec : list N -> list N -> list N -> option (list N))
  (cbcenc : list N -> list N -> list N -> list N),
  (forall key iv x : list N, cbcdec key iv (cbcenc key iv x) = Some x) ->
  (forall key iv x : list N, len x <= 500 -> len (cbcenc key iv x) <= 512) ->
  forall (k : enc_key) (pass salt iv e rest : list N),
  salt <> [] ->
  len salt <= 1048576 ->
  len iv = 16 ->
  length (ek_de k) = 128%nat ->
  g2_ok (4 :: ek_de k) = true ->
  length (ek_Ppube k) = 64%nat ->
  g1_ok (4 :: ek_Ppube k) = true ->
  enc_key_seal kdf cbcenc k pass salt iv = Ok e ->
  enc_key_open g1_ok g2_ok kdf cbcdec pass (e ++ rest) = Ok (k, rest).
Proof. exact enc_key_seal_open. Qed.
Print Assumptions C14_sm9_enc_key_seal_open_partial.

Theorem C14_sm9_master_scalar_zero_accepted :
  forall (ok : list N -> bool) (P rest : list N),
  len P + 1 <= 1000 ->
  ok (4 :: P) = true ->
  exists e : list N,
  msk_to_der (zeros 32) P = Ok e /\ msk_from_der (len P + 1) ok (e ++ rest) = Ok (zeros 32, P, rest).
Proof. exact sm9_master_scalar_zero_accepted. Qed.
Print Assumptions C14_sm9_master_scalar_zero_accepted.

(* ---- signed time_t: with the proposed test, every accepted time stamp is >= 0 and round-trips; the text as it stands
   answers 1 with a string that is not a time *)
Theorem C14_time_signed_der_roundtrip :
  forall (utc : bool) (tag : N) (t : Z) (e rest : list N),
  time_to_der_z true utc tag t = Ok e ->
  (0 <= t)%Z /\ time_from_der utc tag (e ++ rest) = Ok (Z.to_N t, rest).
Proof. exact time_der_roundtrip_z. Qed.
Print Assumptions C14_time_signed_der_roundtrip.

Theorem C14_time_signed_range :
  forall (utc : bool) (t : Z),
  (exists s : list N, time_to_str_z true utc t = Some s) <-> (0 <= t)%Z /\ Z.to_N t < limit utc.
Proof. exact time_to_str_z_range. Qed.
Print Assumptions C14_time_signed_range.

Theorem C14_refuted_time_negative_not_a_time :
  time_to_str_z false true (-5) = Some [55; 48; 48; 49; 48; 49; 48; 48; 48; 48; 48; 43; 90] /\
  time_from_str true [55; 48; 48; 49; 48; 49; 48; 48; 48; 48; 48; 43; 90] = Err.
Proof. exact time_negative_asis_not_a_time. Qed.
Print Assumptions C14_refuted_time_negative_not_a_time.

(* ---- wave 5: CMS EncryptedContentInfo / EncryptedData encoders (Codec/Cms.v); the as-is encoder of EncryptedData is refuted *)
From GmVerif Require Import Codec.Cms Codec.CmsProofs.

Theorem C14_cms_content_type_roundtrip :
  forall (ct : Z) (o rest : list N),
  cms_content_type_to_der ct = Ok o ->
  cms_content_type_from_der (o ++ rest) = Ok (ct, rest) /\ len o <= 129.
Proof. exact cms_content_type_rt. Qed.
Print Assumptions C14_cms_content_type_roundtrip.

Theorem C14_cms_x509_encryption_algorithm_roundtrip :
  forall (id : Z) (iv e rest : list N),
  len iv = 16 ->
  x509_enc_algor_to_der id iv = Ok e ->
  x509_enc_algor_from_der (e ++ rest) = Ok (id, iv, rest) /\ len e <= 163.
Proof. exact x509_enc_algor_rt. Qed.
Print Assumptions C14_cms_x509_encryption_algorithm_roundtrip.

Theorem C14_cms_enced_content_info_roundtrip :
  forall (ct alg : Z) (iv : list N) (ec s1 s2 : option (list N)) (e rest : list N),
  len iv = 16 ->
  olen ec + olen s1 + olen s2 <= 1073741824 ->
  cms_enced_content_info_to_der ct alg iv ec s1 s2 = Ok e ->
  cms_enced_content_info_from_der (e ++ rest) = Ok (ct, alg, iv, optp ec, optp s1, optp s2, rest) /\
  len e <= olen ec + olen s1 + olen s2 + 320.
Proof. exact cms_enced_content_info_rt. Qed.
Print Assumptions C14_cms_enced_content_info_roundtrip.

Theorem C14_cms_encrypted_data_roundtrip :
  forall (ct alg : Z) (iv : list N) (ec s1 s2 : option (list N)) (e rest : list N),
  len iv = 16 ->
  olen ec + olen s1 + olen s2 <= 1073741824 ->
  cms_encrypted_data_to_der true 1 ct alg iv ec s1 s2 = Ok e ->
  cms_encrypted_data_from_der (e ++ rest) = Ok (1%Z, ct, alg, iv, optp ec, optp s1, optp s2, rest).
Proof. exact cms_encrypted_data_roundtrip. Qed.
Print Assumptions C14_cms_encrypted_data_roundtrip.

Theorem C14_refuted_cms_encrypted_data_encoder_truncated :
  let iv := [0; 1; 2; 3; 4; 5; 6; 7; 8; 9; 10; 11; 12; 13; 14; 15] in
  cms_encrypted_data_to_der false 1 OID_cms_data OID_sm4_cbc iv (Some [170; 187]) None None =
  Ok [48; 51; 2; 1; 1] /\
  cms_encrypted_data_from_der [48; 51; 2; 1; 1] = Err /\
  (exists e : list N,
  cms_encrypted_data_to_der true 1 OID_cms_data OID_sm4_cbc iv (Some [170; 187]) None None = Ok e /\
  len e = 53 /\
  cms_encrypted_data_from_der e =
  Ok (1%Z, OID_cms_data, OID_sm4_cbc, iv, PBuf [170; 187], PNull, PNull, [])).
Proof. exact cms_encrypted_data_to_der_asis_truncated. Qed.
Print Assumptions C14_refuted_cms_encrypted_data_encoder_truncated.

Theorem C14_cms_encrypted_data_asis_is_header_and_version :
  forall (ver ct alg : Z) (iv : list N) (ec s1 s2 : option (list N)) (e : list N),
  cms_encrypted_data_to_der false ver ct alg iv ec s1 s2 = Ok e ->
  exists v c : list N,
  int_to_der 2 ver = Ok v /\
  cms_enced_content_info_to_der ct alg iv ec s1 s2 = Ok c /\
  e = header_enc 48 (len v + len c) ++ v /\
  cms_encrypted_data_to_der true ver ct alg iv ec s1 s2 = Ok (e ++ c).
Proof. exact cms_encrypted_data_to_der_asis_short. Qed.
Print Assumptions C14_cms_encrypted_data_asis_is_header_and_version.

Theorem C14_cms_recipient_info_trailing_accepted :
  cms_recipient_info_from_der
  [48; 32; 2; 1; 1; 48; 5; 48; 0; 2; 1; 5; 48; 11; 6; 9; 42; 129; 28; 207; 85; 1; 130; 45; 2; 4; 1; 0;
  5; 0; 222; 173; 190; 239] = Ok (1%Z, [], [5], OID_sm2encrypt, PNull, [0], []).
Proof. exact cms_recipient_info_trailing_accepted. Qed.
Print Assumptions C14_cms_recipient_info_trailing_accepted.

Theorem C14_cms_enveloped_data_version_unchecked :
  cms_enveloped_data_from_der
  [48; 35; 2; 1; 2; 49; 28; 48; 26; 2; 1; 1; 48; 5; 48; 0; 2; 1; 5; 48; 11; 6; 9; 42; 129; 28; 207;
  85; 1; 130; 45; 2; 4; 1; 0; 5; 0] =
  Ok
  (2%Z,
  [48; 26; 2; 1; 1; 48; 5; 48; 0; 2; 1; 5; 48; 11; 6; 9; 42; 129; 28; 207; 85; 1; 130; 45; 2; 4; 1; 0],
  [5; 0], []).
Proof. exact cms_enveloped_data_version_unchecked. Qed.
Print Assumptions C14_cms_enveloped_data_version_unchecked.

(* ---- the intermediate PKCS#5 / PKCS#8 levels and the SM2 / curve identifiers, each on its own (they were covered only through
   the outer EncryptedPrivateKeyInfo theorem before) *)
From GmVerif Require Import Codec.Pkcs Codec.PkcsProofs.

Theorem C14_named_curve_roundtrip :
  forall (id : Z) (e rest : list N),
  curve_to_der id = Ok e -> curve_from_der (e ++ rest) = Ok (id, rest).
Proof. exact curve_roundtrip. Qed.
Print Assumptions C14_named_curve_roundtrip.

Theorem C14_sm2_algorithm_identifier_roundtrip :
  forall e rest : list N, sm2_algor_to_der = Ok e -> sm2_algor_from_der (e ++ rest) = Ok rest.
Proof. exact sm2_algor_roundtrip. Qed.
Print Assumptions C14_sm2_algorithm_identifier_roundtrip.

Theorem C14_pbes2_enc_algorithm_roundtrip :
  forall (id : Z) (iv e rest : list N),
  len iv = 16 ->
  pbes2_enc_algor_to_der id iv = Ok e ->
  id = 20%Z /\ pbes2_enc_algor_from_der (e ++ rest) = Ok (20%Z, iv, rest).
Proof. exact pbes2_enc_algor_roundtrip. Qed.
Print Assumptions C14_pbes2_enc_algorithm_roundtrip.

Theorem C14_pbkdf2_prf_roundtrip :
  forall (prf : Z) (ep rest : list N),
  prf = (-1)%Z \/ prf = 30%Z ->
  opt_enc (prf_to_der prf) = Ok ep ->
  not_tag 48 rest -> prf_from_der (ep ++ rest) = Ok (prf, rest) /\ len ep <= 135 /\ not_tag 2 ep.
Proof. exact prf_rt. Qed.
Print Assumptions C14_pbkdf2_prf_roundtrip.

Theorem C14_pbkdf2_algorithm_roundtrip :
  forall (salt : list N) (iter keylen prf : Z) (e rest : list N),
  salt <> [] ->
  len salt <= 1048576 ->
  (0 < iter < 2 ^ 31)%Z ->
  keylen = (-1)%Z \/ (0 <= keylen < 2 ^ 31)%Z ->
  prf = (-1)%Z \/ prf = 30%Z ->
  pbkdf2_algor_to_der salt iter keylen prf = Ok e ->
  pbkdf2_algor_from_der (e ++ rest) = Ok (salt, iter, keylen, prf, rest).
Proof. exact pbkdf2_algor_roundtrip. Qed.
Print Assumptions C14_pbkdf2_algorithm_roundtrip.

Theorem C14_pbes2_params_roundtrip :
  forall (p : pbes2) (e rest : list N),
  pbes2_ok p -> pbes2_params_to_der p = Ok e -> pbes2_params_from_der (e ++ rest) = Ok (p, rest).
Proof. exact pbes2_params_roundtrip. Qed.
Print Assumptions C14_pbes2_params_roundtrip.

Theorem C14_pbes2_algorithm_roundtrip :
  forall (p : pbes2) (e rest : list N),
  pbes2_ok p -> pbes2_algor_to_der p = Ok e -> pbes2_algor_from_der (e ++ rest) = Ok (p, rest).
Proof. exact pbes2_algor_roundtrip. Qed.
Print Assumptions C14_pbes2_algorithm_roundtrip.

