(* C18 — randomised operations are fresh, entropy-driven and fail closed.  Final statements only.
   Model theorems are about Sys/Rand.v (computations over an entropy stream indexed by draw); the
   table lemma is instantiated on every check with the call-site table regenerated from the source
   (coq/Gen/RandSitesTable.v, theorem all_sites_checked, re-proved by vm_compute). *)
From Coq Require Import List NArith ZArith Arith Bool.
From GmVerif Require Import Sys.Rand Sys.Gateway Sys.Tables.
Import ListNotations.

(* single gateway with length guard: nothing is drawn for len = 0 or len > 256 *)
Theorem C18_rand_bytes_guard : forall src len e, len = 0 \/ 256 < len -> run src (rand_bytes len) e = (Err, e).
Proof. exact rand_bytes_guard. Qed.
Print Assumptions C18_rand_bytes_guard.

(* rejection sampling: an accepted value is below the range; at most [tries] draws *)
Theorem C18_rand_range_in_range : forall src t range e v,
  fst (run src (rand_range_loop t range) e) = Ok v -> (v < range)%N.
Proof. exact rand_range_in_range. Qed.
Print Assumptions C18_rand_range_in_range.

Theorem C18_rand_range_bounded : forall src t range e,
  drawn (snd (run src (rand_range_loop t range) e)) <= drawn e + t.
Proof. exact rand_range_bounded. Qed.
Print Assumptions C18_rand_range_bounded.

(* same stream (on the entries consumed) and same inputs => identical outcome *)
Theorem C18_deterministic : forall A src (c : comp A) e src',
  (forall i, drawn e <= i < drawn (snd (run src c e)) -> src' i = src i) ->
  run src' c e = run src c e.
Proof. exact prefix_determined. Qed.
Print Assumptions C18_deterministic.

(* over any history of operations in one stream, whether or not their results are looked at, the
   indices served are 0,1,2,...: successive operations consume disjoint slices, no entry twice *)
Theorem C18_no_reuse : forall A src (cs : list (comp A)),
  let e' := snd (run_all src cs (mkE 0 [])) in
  log e' = seq 0 (drawn e') /\ NoDup (log e').
Proof. exact no_reuse. Qed.
Print Assumptions C18_no_reuse.

(* fail closed: a computation all of whose draws are checked returns Err as soon as a consumed
   entry is a failure, and draws nothing after it *)
Theorem C18_fail_closed : forall A src (c : comp A) e,
  checked c ->
  (exists i, drawn e <= i < drawn (snd (run src c e)) /\ src i = None) ->
  fst (run src c e) = Err.
Proof. exact fail_closed. Qed.
Print Assumptions C18_fail_closed.

Theorem C18_fail_stops : forall A src (c : comp A) e,
  checked c -> forall i, drawn e <= i < drawn (snd (run src c e)) -> src i = None ->
  drawn (snd (run src c e)) = S i.
Proof. exact fail_stops. Qed.
Print Assumptions C18_fail_stops.

(* the modelled operations are of that kind *)
Theorem C18_modelled_operations_checked :
  (forall t range, checked (rand_range_loop t range)) /\
  (forall f range, checked (nonzero_in_range f range)) /\
  (forall lens acc f, checked (script lens acc f)).
Proof. exact (conj rand_range_loop_checked (conj nonzero_in_range_checked script_checked)). Qed.
Print Assumptions C18_modelled_operations_checked.

(* the premise [checked] is necessary: the same script with the status ignored succeeds on a failing
   source with an output taken from the unfilled buffer (the shape of the unchecked call sites) *)
Theorem C18_ignored_result_not_fail_closed :
  let src : stream := fun _ => None in
  let c := script_ignoring [32] [7%N] [] (fun l => Ok (concat l)) in
  fst (run src c (mkE 0 [])) = Ok [7%N] /\ src 0 = None /\ drawn (snd (run src c (mkE 0 []))) = 1.
Proof. exact ignored_result_not_fail_closed. Qed.
Print Assumptions C18_ignored_result_not_fail_closed.

(* stateful contexts (SM2_SIGN_CTX / SM2_ENC_CTX): a pool of pre-computed nonces refilled when empty.  A failed
   refill leaves the pool marked empty, hence over any number of attempts on one context, with the source
   failing at arbitrary draws, no draw is used as nonce twice *)
Theorem C18_failed_refill_marks_pool_empty : forall POOL fails st,
  live st = 0 -> fst (sign_step POOL fails false st) = None -> POOL <> 0 ->
  live (snd (sign_step POOL fails false st)) = 0.
Proof. exact failed_refill_marks_pool_empty. Qed.
Print Assumptions C18_failed_refill_marks_pool_empty.

Theorem C18_pool_no_reuse : forall POOL fails n s0,
  let st := sign_many POOL fails false n (mkP s0 0 0 []) in NoDup (used st).
Proof. exact pool_no_reuse. Qed.
Print Assumptions C18_pool_no_reuse.

(* the order matters: marking the pool full before the fallible refill re-uses draw 1 *)
Theorem C18_marking_before_refill_reuses_a_nonce :
  let fails := fun d => Nat.eqb d 3 in
  used (sign_many 2 fails true 5 (mkP (fun _ => 0) 0 0 [])) = [2; 1; 0; 1] /\
  used (sign_many 2 fails false 5 (mkP (fun _ => 0) 0 0 [])) = [4; 5; 0; 1].
Proof. exact marking_before_refill_reuses_a_nonce. Qed.
Print Assumptions C18_marking_before_refill_reuses_a_nonce.

(* ---- the gateway itself (wave 5).  Bytes are identified by their position in the device's output. *)
(* default build (rand_unix.c): success => exactly len bytes, all from the one successful getentropy() call, 1 <= len <= 256 *)
Theorem C18_gateway_unix_sound : forall nul len att out calls,
  rand_bytes_unix nul len att = (Ok out, calls) ->
  out = seq 0 len /\ 1 <= len <= 256 /\ calls = 1 /\ hd false att = true.
Proof. exact rand_bytes_unix_sound. Qed.
Print Assumptions C18_gateway_unix_sound.

Theorem C18_gateway_unix_failure_is_err : forall nul len att r calls,
  rand_bytes_unix nul len att = (r, calls) -> r = Err \/ exists out, r = Ok out /\ hd false att = true.
Proof. exact rand_bytes_unix_failure_is_err. Qed.
Print Assumptions C18_gateway_unix_failure_is_err.

(* HAVE_GETENTROPY off (rand.c, /dev/urandom): success => one read delivered all len bytes, in order *)
Theorem C18_gateway_urandom_sound : forall nul len op script out calls,
  rand_bytes_urandom nul len op script = (Ok out, calls) -> out = seq 0 len /\ 1 <= len <= 4096 /\ calls = 1.
Proof. exact rand_bytes_urandom_sound. Qed.
Print Assumptions C18_gateway_urandom_sound.

(* any read loop that follows some policy (continue short reads at the right offset or not, retry EINTR up to a bound),
   any fuel, any device behaviour: success => the buffer is exactly the first `want` device bytes in order *)
Theorem C18_read_loop_all_from_source : forall pol fuel want script out calls,
  read_loop pol fuel want [] 0 (max_eintr pol) script 0 = (Ok out, calls) -> out = seq 0 want.
Proof. exact read_loop_all_from_source. Qed.
Print Assumptions C18_read_loop_all_from_source.

(* a loop that never advances the buffer (the seeded rand.c) is not such a loop: it reports success with a stale tail *)
Theorem C18_never_advancing_loop_refuted :
  never_advancing_loop 5 4 4 0 [99; 99; 99; 99] [Deliver 1; Deliver 3] = Ok [1; 2; 3; 99] /\
  fst (read_loop (mkPolicy true 0) 5 4 [] 0 0 [Deliver 1; Deliver 3] 0) = Ok [0; 1; 2; 3].
Proof. exact never_advancing_loop_refuted. Qed.
Print Assumptions C18_never_advancing_loop_refuted.

(* gateway -> stream -> consumer: a gateway failure at any draw a checked consumer makes => the consumer returns Err *)
Theorem C18_gateway_failure_fails_consumer : forall A (c : comp A) e attempts bytes len_of,
  checked c ->
  (exists i, drawn e <= i < drawn (snd (run (stream_of attempts bytes len_of) c e)) /\
             fst (rand_bytes_unix false (len_of i) (attempts i)) = Err) ->
  fst (run (stream_of attempts bytes len_of) c e) = Err.
Proof. exact gateway_failure_fails_consumer. Qed.
Print Assumptions C18_gateway_failure_fails_consumer.

(* table side: on ANY table for which the decidable row predicate holds, the status of every call of an
   entropy-dependent function is used by its caller, and every failure value of the callee (read off its return
   statements) is sent down a different branch than the success value 1 by at least one of the caller's tests:
   `!= 1`, `== 1`, `<= 0` are adequate for {0,-1}; `!f()`, `if (f())`, `== 0` are not adequate for -1; `< 0` not for 0 *)
Theorem C18_rand_table_sound : forall tbl : list rand_site,
  forallb site_ok tbl = true ->
  forall s, In s tbl ->
    s_result_used s = true /\
    forall v, In v (s_fails s) -> exists t, In t (s_tests s) /\ distinguishes t v = true.
Proof. exact rand_table_sound. Qed.
Print Assumptions C18_rand_table_sound.

Theorem C18_distinguishes_sound : forall t v a b,
  distinguishes t v = true -> eval_test t v = Some a -> eval_test t 1%Z = Some b -> a <> b.
Proof. exact distinguishes_sound. Qed.
Print Assumptions C18_distinguishes_sound.
