(* C10 — in-flight tampering with the handshake is always detected.  Final statements only.
   Model: Tls/Handshake.v (Finished exchange with adversary-chosen received values).
   The run-time part of the check is fault enumeration on the implementation. *)
From GmVerif Require Import Base.ListX Base.Bytes Hash.SM3 Tls.Record12 Tls.KeySched
  Tls.Handshake Tls.HandshakeProofs.
Local Open Scope nat_scope.

(* decision rule (no assumption), any hash / Finished function: both sides done => each received
   Finished value equals the receiver's own computation over its own transcript *)
Theorem C10_both_done_rule :
  forall (H : list N -> list N) (F1 F2 : list N -> list N -> list N) (fin_msg : list N -> list N)
         (a b : party) fin1_recv fin2_recv,
  second_done H F1 b fin1_recv = true -> first_done H F1 F2 fin_msg a fin2_recv = true ->
  fin1_recv = F1 (sec1 b) (H (transcript b)) /\
  fin2_recv = F2 (sec2 a) (H (transcript a ++ fin_msg (first_send H F1 a))).
Proof. exact both_done_rule. Qed.
Print Assumptions C10_both_done_rule.

Theorem C10_tls12_both_done_rule : forall (client server : party) cfin_recv sfin_recv,
  second_done sm3 F12c server cfin_recv = true ->
  first_done sm3 F12c F12s finished_msg client sfin_recv = true ->
  cfin_recv = client_finished12 (sec1 server) (transcript server) /\
  sfin_recv = server_finished12 (sec2 client)
                (transcript client ++ finished_msg (client_finished12 (sec1 client) (transcript client))).
Proof. exact tls12_both_done_rule. Qed.
Print Assumptions C10_tls12_both_done_rule.

Theorem C10_tls13_both_done_rule : forall (server client : party) sfin_recv cfin_recv,
  second_done sm3 F13 client sfin_recv = true ->
  first_done sm3 F13 F13 finished_msg server cfin_recv = true ->
  sfin_recv = verify_data13 (sec1 client) (transcript client) /\
  cfin_recv = verify_data13 (sec2 server)
                (transcript server ++ finished_msg (verify_data13 (sec1 server) (transcript server))).
Proof. exact tls13_both_done_rule. Qed.
Print Assumptions C10_tls13_both_done_rule.

(* structural, no assumption: a Finished value other than the expected one stops the receiver *)
Theorem C10_wrong_first_finished_rejected :
  forall (H : list N -> list N) (F1 : list N -> list N -> list N) b fin1_recv,
  fin1_recv <> F1 (sec1 b) (H (transcript b)) -> second_done H F1 b fin1_recv = false.
Proof. exact wrong_fin1_rejected. Qed.
Print Assumptions C10_wrong_first_finished_rejected.

Theorem C10_wrong_second_finished_rejected :
  forall (H : list N -> list N) (F1 F2 : list N -> list N -> list N) (fin_msg : list N -> list N) a fin2_recv,
  fin2_recv <> F2 (sec2 a) (H (transcript a ++ fin_msg (first_send H F1 a))) ->
  first_done H F1 F2 fin_msg a fin2_recv = false.
Proof. exact wrong_fin2_rejected. Qed.
Print Assumptions C10_wrong_second_finished_rejected.

(* both done and the last Finished delivered as sent => equal transcripts, equal first Finished,
   equal secrets -- under the explicit premises that F2 and H do not collide on the one compared
   pair each, and that Finished messages frame their verify_data *)
Theorem C10_both_done_same_transcript_partial :
  forall (H : list N -> list N) (F1 F2 : list N -> list N -> list N) (fin_msg : list N -> list N)
         (a b : party) fin1_recv fin2_recv,
  second_done H F1 b fin1_recv = true -> first_done H F1 F2 fin_msg a fin2_recv = true ->
  fin2_recv = second_send H F2 fin_msg b fin1_recv ->
  (F2 (sec2 b) (H (transcript b ++ fin_msg fin1_recv)) =
   F2 (sec2 a) (H (transcript a ++ fin_msg (first_send H F1 a))) ->
   sec2 b = sec2 a /\ H (transcript b ++ fin_msg fin1_recv) = H (transcript a ++ fin_msg (first_send H F1 a))) ->
  (H (transcript b ++ fin_msg fin1_recv) = H (transcript a ++ fin_msg (first_send H F1 a)) ->
   transcript b ++ fin_msg fin1_recv = transcript a ++ fin_msg (first_send H F1 a)) ->
  length (fin_msg fin1_recv) = length (fin_msg (first_send H F1 a)) ->
  (fin_msg fin1_recv = fin_msg (first_send H F1 a) -> fin1_recv = first_send H F1 a) ->
  transcript b = transcript a /\ fin1_recv = first_send H F1 a /\ sec2 b = sec2 a.
Proof. exact both_done_same_transcript_partial. Qed.
Print Assumptions C10_both_done_same_transcript_partial.
