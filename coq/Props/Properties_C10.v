(* C10 — in-flight tampering with the handshake is always detected.  Final statements only.
   Model: Tls/Handshake.v (Finished exchange with adversary-chosen received values).
   The run-time part of the check is fault enumeration on the implementation. *)
From GmVerif Require Import Base.ListX Base.Bytes Hash.SM3 Tls.Record12 Tls.KeySched
  Tls.Handshake Tls.HandshakeProofs Tls.HsCodec Tls.HsCodecProofs Tls.HsCodec13 Tls.HsCodec13Proofs.
Local Open Scope nat_scope.

(* decision rule (no assumption), any hash / Finished function: both sides done => each received
   Finished value equals the receiver's own computation over its own transcript *)
Theorem C10_both_done_rule :
  forall (H : list N -> list N) (F1 F2 : list N -> list N -> list N) (fin_msg : list N -> list N)
         (a b : party) fin1_recv fin2_recv,
  second_done H F1 b fin1_recv = true -> first_done H F1 F2 fin_msg a fin2_recv = true ->
  fin1_recv = F1 (sec1 b) (H (transcript b)) /\
  fin2_recv = F2 (sec2 a) (H (transcript a ++ fin_msg (first_send H F1 a))).
Proof. exact both_done_rule. Qed.
Print Assumptions C10_both_done_rule.

Theorem C10_tls12_both_done_rule : forall (client server : party) cfin_recv sfin_recv,
  second_done sm3 F12c server cfin_recv = true ->
  first_done sm3 F12c F12s finished_msg client sfin_recv = true ->
  cfin_recv = client_finished12 (sec1 server) (transcript server) /\
  sfin_recv = server_finished12 (sec2 client)
                (transcript client ++ finished_msg (client_finished12 (sec1 client) (transcript client))).
Proof. exact tls12_both_done_rule. Qed.
Print Assumptions C10_tls12_both_done_rule.

Theorem C10_tls13_both_done_rule : forall (server client : party) sfin_recv cfin_recv,
  second_done sm3 F13 client sfin_recv = true ->
  first_done sm3 F13 F13 finished_msg server cfin_recv = true ->
  sfin_recv = verify_data13 (sec1 client) (transcript client) /\
  cfin_recv = verify_data13 (sec2 server)
                (transcript server ++ finished_msg (verify_data13 (sec1 server) (transcript server))).
Proof. exact tls13_both_done_rule. Qed.
Print Assumptions C10_tls13_both_done_rule.

(* structural, no assumption: a Finished value other than the expected one stops the receiver *)
Theorem C10_wrong_first_finished_rejected :
  forall (H : list N -> list N) (F1 : list N -> list N -> list N) b fin1_recv,
  fin1_recv <> F1 (sec1 b) (H (transcript b)) -> second_done H F1 b fin1_recv = false.
Proof. exact wrong_fin1_rejected. Qed.
Print Assumptions C10_wrong_first_finished_rejected.

Theorem C10_wrong_second_finished_rejected :
  forall (H : list N -> list N) (F1 F2 : list N -> list N -> list N) (fin_msg : list N -> list N) a fin2_recv,
  fin2_recv <> F2 (sec2 a) (H (transcript a ++ fin_msg (first_send H F1 a))) ->
  first_done H F1 F2 fin_msg a fin2_recv = false.
Proof. exact wrong_fin2_rejected. Qed.
Print Assumptions C10_wrong_second_finished_rejected.

(* both done and the last Finished delivered as sent => equal transcripts, equal first Finished,
   equal secrets -- under the explicit premises that F2 and H do not collide on the one compared
   pair each, and that Finished messages frame their verify_data *)
Theorem C10_both_done_same_transcript_partial :
  forall (H : list N -> list N) (F1 F2 : list N -> list N -> list N) (fin_msg : list N -> list N)
         (a b : party) fin1_recv fin2_recv,
  second_done H F1 b fin1_recv = true -> first_done H F1 F2 fin_msg a fin2_recv = true ->
  fin2_recv = second_send H F2 fin_msg b fin1_recv ->
  (F2 (sec2 b) (H (transcript b ++ fin_msg fin1_recv)) =
   F2 (sec2 a) (H (transcript a ++ fin_msg (first_send H F1 a))) ->
   sec2 b = sec2 a /\ H (transcript b ++ fin_msg fin1_recv) = H (transcript a ++ fin_msg (first_send H F1 a))) ->
  (H (transcript b ++ fin_msg fin1_recv) = H (transcript a ++ fin_msg (first_send H F1 a)) ->
   transcript b ++ fin_msg fin1_recv = transcript a ++ fin_msg (first_send H F1 a)) ->
  length (fin_msg fin1_recv) = length (fin_msg (first_send H F1 a)) ->
  (fin_msg fin1_recv = fin_msg (first_send H F1 a) -> fin1_recv = first_send H F1 a) ->
  transcript b = transcript a /\ fin1_recv = first_send H F1 a /\ sec2 b = sec2 a.
Proof. exact both_done_same_transcript_partial. Qed.
Print Assumptions C10_both_done_same_transcript_partial.

(* ===== handshake message layer (Tls/HsCodec.v: Impl models of the set_/get_ functions of src/tls.c,
   tls12.c, tlcp.c; correspondence: props/C10/hscodec_harness.c against the extracted model) =====

   (a) round trip: what a setter produced, the getter reads back -- with the length of the record *)
Theorem C10_codec_get_set_handshake :
  forall (rv t : N) (data r : list N),
   set_handshake rv t data = Some r ->
   get_handshake r = Some (t, data) /\ rec_wf r /\ length r = 9 + length data /\ rec_version r = rv.
Proof. exact get_set_handshake. Qed.
Print Assumptions C10_codec_get_set_handshake.

Theorem C10_codec_get_set_client_hello :
  forall (rv protocol : N) (random sid ciphers : list N) (exts : option (list N)) (r : list N),
   set_client_hello rv protocol random sid ciphers exts = SOk r ->
   length random = 32 -> get_client_hello r = Some (protocol, random, sid, flat_map e16N ciphers, exts).
Proof. exact get_set_client_hello. Qed.
Print Assumptions C10_codec_get_set_client_hello.
Theorem C10_codec_get_set_server_hello :
  forall (rv protocol : N) (random sid : list N) (cipher : N) (exts : option (list N)) (r : list N),
   set_server_hello rv protocol random sid cipher exts = SOk r ->
   length random = 32 ->
   (rv <= protocol)%N ->
   exts <> Some [] ->
   (forall x : list N, exts = Some x -> (N.of_nat (length x) < 65536)%N) ->
   get_server_hello r = Some (protocol, random, sid, cipher, exts).
Proof. exact get_set_server_hello. Qed.
Print Assumptions C10_codec_get_set_server_hello.
Theorem C10_codec_get_set_certificate :
  forall (cert_ok : list N -> bool) (rv : N) (certs : list (list N)) (r : list N),
   set_certificate cert_ok rv certs = SOk r ->
   chain_bytes certs <= max_certs ->
   get_certificate cert_ok r = Some certs /\ length r = 12 + 3 * length certs + chain_bytes certs.
Proof. exact get_set_certificate. Qed.
Print Assumptions C10_codec_get_set_certificate.
Theorem C10_codec_get_set_ske_ecdhe :
  forall (point_ok : list N -> bool) (rv curve : N) (pt sg r : list N),
   set_ske_ecdhe rv curve pt sg = SOk r ->
   curve = 41%N ->
   length pt = 65 ->
   point_ok pt = true -> get_ske_ecdhe point_ok r = Some (41%N, pt, sg) /\ length r = 82 + length sg.
Proof. exact get_set_ske_ecdhe. Qed.
Print Assumptions C10_codec_get_set_ske_ecdhe.
Theorem C10_codec_get_set_ske_pke :
  forall (rv : N) (sg r : list N),
   set_ske_pke rv sg = SOk r ->
   get_ske_pke r = Some sg /\ length r = 11 + length sg /\ rv = TLS_protocol_tlcp.
Proof. exact get_set_ske_pke. Qed.
Print Assumptions C10_codec_get_set_ske_pke.
Theorem C10_codec_get_set_certificate_request :
  forall (rv : N) (types names r : list N),
   set_certificate_request rv types names = SOk r ->
   types <> [] ->
   length types <= 255 ->
   forallb cert_type_known types = true ->
   names_wf (length names) names = true ->
   get_certificate_request r = Some (types, names) /\ length r = 12 + length types + length names.
Proof. exact get_set_certificate_request. Qed.
Print Assumptions C10_codec_get_set_certificate_request.
Theorem C10_codec_get_set_server_hello_done :
  forall (rv : N) (r : list N),
   set_server_hello_done rv = SOk r -> get_server_hello_done r = Some tt /\ length r = 9.
Proof. exact get_set_server_hello_done. Qed.
Print Assumptions C10_codec_get_set_server_hello_done.
Theorem C10_codec_get_set_cke_ecdhe :
  forall (point_ok : list N -> bool) (rv : N) (pt r : list N),
   set_cke_ecdhe rv pt = SOk r ->
   length pt = 65 -> point_ok pt = true -> get_cke_ecdhe point_ok r = Some pt /\ length r = 75.
Proof. exact get_set_cke_ecdhe. Qed.
Print Assumptions C10_codec_get_set_cke_ecdhe.
Theorem C10_codec_get_set_cke_pke :
  forall (rv : N) (e r : list N),
   set_cke_pke rv e = SOk r -> get_cke_pke r = Some e /\ length r = 11 + length e.
Proof. exact get_set_cke_pke. Qed.
Print Assumptions C10_codec_get_set_cke_pke.
Theorem C10_codec_get_set_certificate_verify :
  forall (rv : N) (sg r : list N),
   set_certificate_verify rv sg = SOk r -> get_certificate_verify r = Some sg /\ length r = 11 + length sg.
Proof. exact get_set_certificate_verify. Qed.
Print Assumptions C10_codec_get_set_certificate_verify.
Theorem C10_codec_get_set_finished :
  forall (rv : N) (vd r : list N),
   set_finished rv vd = SOk r -> get_finished r = Some vd /\ length r = 9 + length vd.
Proof. exact get_set_finished. Qed.
Print Assumptions C10_codec_get_set_finished.

(* (b) capacity: no setter output exceeds 5 + 4 + 16380 = 16389 <= 5 + 2^14 bytes; it is a well-formed
   handshake record *)
Theorem C10_codec_set_handshake_bound :
  forall (rv t : N) (data r : list N),
   set_handshake rv t data = Some r -> (N.of_nat (length r) <= 16389)%N.
Proof. exact set_handshake_bound. Qed.
Print Assumptions C10_codec_set_handshake_bound.
Theorem C10_codec_setters_within_capacity :
  forall (cert_ok : list N -> bool) (r : list N),
   made_by_setter cert_ok r ->
   rec_wf r /\ (N.of_nat (length r) <= 16389)%N /\ rec_type r = 22%N /\ msg_wf (hs_message r).
Proof. exact setters_within_capacity. Qed.
Print Assumptions C10_codec_setters_within_capacity.

(* (c) strictness.  [rec_wf]: the buffer holds exactly the declared 5 + length bytes; [bytes_ok]: bytes.
   tls_record_get_handshake accepts exactly the records tls_record_set_handshake produces *)
Theorem C10_codec_get_handshake_canonical :
  forall (r : list N) (t : N) (body : list N),
   rec_wf r ->
   bytes_ok r ->
   get_handshake r = Some (t, body) ->
   r = frame (rec_version r) t body /\ set_handshake (rec_version r) t body = Some r.
Proof. exact get_handshake_canonical. Qed.
Print Assumptions C10_codec_get_handshake_canonical.
Theorem C10_codec_get_handshake_message_det :
  forall (r r' : list N) (tp tp' : N * list N),
   rec_wf r ->
   rec_wf r' ->
   hs_message r = hs_message r' -> get_handshake r = Some tp -> get_handshake r' = Some tp' -> tp = tp'.
Proof. exact get_handshake_message_det. Qed.
Print Assumptions C10_codec_get_handshake_message_det.

(* (c) per message: an accepted record is the one encoding of the fields the getter returned: no other
   length fields, no trailing bytes.  (ClientHello, Certificate: not so, see the observations in
   Tls/HsCodecProofs.v: compression methods unconstrained, bytes after the list ignored.) *)
Theorem C10_codec_get_finished_canonical :
  forall r vd : list N,
   rec_wf r ->
   bytes_ok r ->
   get_finished r = Some vd -> r = frame (rec_version r) 20 vd /\ set_finished (rec_version r) vd = SOk r.
Proof. exact get_finished_canonical. Qed.
Print Assumptions C10_codec_get_finished_canonical.
Theorem C10_codec_get_server_hello_done_canonical :
  forall r : list N,
   rec_wf r ->
   bytes_ok r ->
   get_server_hello_done r = Some tt ->
   r = frame (rec_version r) 14 [] /\ set_server_hello_done (rec_version r) = SOk r.
Proof. exact get_server_hello_done_canonical. Qed.
Print Assumptions C10_codec_get_server_hello_done_canonical.
Theorem C10_codec_get_cke_pke_canonical :
  forall r e : list N,
   rec_wf r -> bytes_ok r -> get_cke_pke r = Some e -> r = frame (rec_version r) 16 (arr16 e).
Proof. exact get_cke_pke_canonical. Qed.
Print Assumptions C10_codec_get_cke_pke_canonical.
Theorem C10_codec_get_certificate_verify_canonical :
  forall r s : list N,
   rec_wf r -> bytes_ok r -> get_certificate_verify r = Some s -> r = frame (rec_version r) 15 (arr16 s).
Proof. exact get_certificate_verify_canonical. Qed.
Print Assumptions C10_codec_get_certificate_verify_canonical.
Theorem C10_codec_get_ske_pke_canonical :
  forall r s : list N,
   rec_wf r -> bytes_ok r -> get_ske_pke r = Some s -> r = frame TLS_protocol_tlcp 12 (arr16 s).
Proof. exact get_ske_pke_canonical. Qed.
Print Assumptions C10_codec_get_ske_pke_canonical.
Theorem C10_codec_get_cke_ecdhe_canonical :
  forall (point_ok : list N -> bool) (r pt : list N),
   rec_wf r ->
   bytes_ok r ->
   get_cke_ecdhe point_ok r = Some pt ->
   r = frame (rec_version r) 16 ([65%N] ++ pt) /\ length pt = 65 /\ point_ok pt = true.
Proof. exact get_cke_ecdhe_canonical. Qed.
Print Assumptions C10_codec_get_cke_ecdhe_canonical.
Theorem C10_codec_get_ske_ecdhe_canonical :
  forall (point_ok : list N -> bool) (r : list N) (c : N) (pt sg : list N),
   rec_wf r ->
   bytes_ok r ->
   get_ske_ecdhe point_ok r = Some (c, pt, sg) ->
   r = frame (rec_version r) 12 ([3%N] ++ e16N 41 ++ [65%N] ++ pt ++ e16N 1800 ++ arr16 sg) /\
   c = 41%N /\ length pt = 65 /\ point_ok pt = true.
Proof. exact get_ske_ecdhe_canonical. Qed.
Print Assumptions C10_codec_get_ske_ecdhe_canonical.
Theorem C10_codec_get_certificate_request_canonical :
  forall r ty nm : list N,
   rec_wf r ->
   bytes_ok r ->
   get_certificate_request r = Some (ty, nm) ->
   r = frame (rec_version r) 13 (arr8 ty ++ arr16 nm) /\
   ty <> [] /\ length ty < 256 /\ forallb cert_type_known ty = true /\ names_wf (length nm) nm = true.
Proof. exact get_certificate_request_canonical. Qed.
Print Assumptions C10_codec_get_certificate_request_canonical.
Theorem C10_codec_get_server_hello_canonical :
  forall (r : list N) (ver : N) (random sid : list N) (cipher : N) (exts : option (list N)),
   rec_wf r ->
   bytes_ok r ->
   get_server_hello r = Some (ver, random, sid, cipher, exts) ->
   r =
   frame (rec_version r) 2
     (e16N ver ++
      random ++ arr8 sid ++ e16N cipher ++ [0%N] ++ match exts with
                                                    | Some x => arr16 x
                                                    | None => []
                                                    end) /\
   length random = 32 /\ length sid <= 32 /\ (rec_version r <= ver)%N /\ exts <> Some [].
Proof. exact get_server_hello_canonical. Qed.
Print Assumptions C10_codec_get_server_hello_canonical.
Theorem C10_codec_finished_unique_encoding :
  forall r r' vd : list N,
   rec_wf r ->
   bytes_ok r ->
   rec_wf r' ->
   bytes_ok r' ->
   rec_version r = rec_version r' -> get_finished r = Some vd -> get_finished r' = Some vd -> r = r'.
Proof. exact finished_unique_encoding. Qed.
Print Assumptions C10_codec_finished_unique_encoding.
Theorem C10_codec_server_hello_unique_encoding :
  forall (r r' : list N) (x : N * list N * list N * N * option (list N)),
   rec_wf r ->
   bytes_ok r ->
   rec_wf r' ->
   bytes_ok r' ->
   rec_version r = rec_version r' -> get_server_hello r = Some x -> get_server_hello r' = Some x -> r = r'.
Proof. exact server_hello_unique_encoding. Qed.
Print Assumptions C10_codec_server_hello_unique_encoding.

(* (d) injectivity: one record encodes one tuple of fields *)
Theorem C10_codec_set_handshake_inj :
  forall (rv rv' t t' : N) (d d' r : list N),
   set_handshake rv t d = Some r -> set_handshake rv' t' d' = Some r -> rv = rv' /\ t = t' /\ d = d'.
Proof. exact set_handshake_inj. Qed.
Print Assumptions C10_codec_set_handshake_inj.
Theorem C10_codec_set_client_hello_inj :
  forall (rv rv' pv pv' : N) (rnd rnd' sid sid' cs cs' : list N) (ex ex' : option (list N)) (r : list N),
   set_client_hello rv pv rnd sid cs ex = SOk r ->
   set_client_hello rv' pv' rnd' sid' cs' ex' = SOk r ->
   length rnd = 32 -> length rnd' = 32 -> pv = pv' /\ rnd = rnd' /\ sid = sid' /\ cs = cs' /\ ex = ex'.
Proof. exact set_client_hello_inj. Qed.
Print Assumptions C10_codec_set_client_hello_inj.
Theorem C10_codec_set_server_hello_inj :
  forall (rv rv' pv pv' : N) (rnd rnd' sid sid' : list N) (c c' : N) (ex ex' : option (list N))
     (r : list N),
   set_server_hello rv pv rnd sid c ex = SOk r ->
   set_server_hello rv' pv' rnd' sid' c' ex' = SOk r ->
   length rnd = 32 ->
   (rv <= pv)%N ->
   ex <> Some [] ->
   (forall x : list N, ex = Some x -> (N.of_nat (length x) < 65536)%N) ->
   length rnd' = 32 ->
   (rv' <= pv')%N ->
   ex' <> Some [] ->
   (forall x : list N, ex' = Some x -> (N.of_nat (length x) < 65536)%N) ->
   pv = pv' /\ rnd = rnd' /\ sid = sid' /\ c = c' /\ ex = ex'.
Proof. exact set_server_hello_inj. Qed.
Print Assumptions C10_codec_set_server_hello_inj.
Theorem C10_codec_set_certificate_inj :
  forall (cert_ok : list N -> bool) (rv rv' : N) (cs cs' : list (list N)) (r : list N),
   set_certificate cert_ok rv cs = SOk r ->
   set_certificate cert_ok rv' cs' = SOk r ->
   chain_bytes cs <= max_certs -> chain_bytes cs' <= max_certs -> cs = cs'.
Proof. exact set_certificate_inj. Qed.
Print Assumptions C10_codec_set_certificate_inj.
Theorem C10_codec_set_ske_ecdhe_inj :
  forall (point_ok : list N -> bool) (rv rv' : N) (pt pt' sg sg' r : list N),
   set_ske_ecdhe rv 41 pt sg = SOk r ->
   set_ske_ecdhe rv' 41 pt' sg' = SOk r ->
   length pt = 65 -> point_ok pt = true -> length pt' = 65 -> point_ok pt' = true -> pt = pt' /\ sg = sg'.
Proof. exact set_ske_ecdhe_inj. Qed.
Print Assumptions C10_codec_set_ske_ecdhe_inj.
Theorem C10_codec_set_ske_pke_inj :
  forall (rv rv' : N) (x y r : list N), set_ske_pke rv x = SOk r -> set_ske_pke rv' y = SOk r -> x = y.
Proof. exact set_ske_pke_inj. Qed.
Print Assumptions C10_codec_set_ske_pke_inj.
Theorem C10_codec_set_certificate_request_inj :
  forall (rv rv' : N) (ty ty' nm nm' r : list N),
   set_certificate_request rv ty nm = SOk r ->
   set_certificate_request rv' ty' nm' = SOk r ->
   ty <> [] ->
   length ty <= 255 ->
   forallb cert_type_known ty = true ->
   names_wf (length nm) nm = true ->
   ty' <> [] ->
   length ty' <= 255 ->
   forallb cert_type_known ty' = true -> names_wf (length nm') nm' = true -> ty = ty' /\ nm = nm'.
Proof. exact set_certificate_request_inj. Qed.
Print Assumptions C10_codec_set_certificate_request_inj.
Theorem C10_codec_set_cke_ecdhe_inj :
  forall (point_ok : list N -> bool) (rv rv' : N) (pt pt' r : list N),
   set_cke_ecdhe rv pt = SOk r ->
   set_cke_ecdhe rv' pt' = SOk r ->
   length pt = 65 -> point_ok pt = true -> length pt' = 65 -> point_ok pt' = true -> pt = pt'.
Proof. exact set_cke_ecdhe_inj. Qed.
Print Assumptions C10_codec_set_cke_ecdhe_inj.
Theorem C10_codec_set_cke_pke_inj :
  forall (rv rv' : N) (x y r : list N), set_cke_pke rv x = SOk r -> set_cke_pke rv' y = SOk r -> x = y.
Proof. exact set_cke_pke_inj. Qed.
Print Assumptions C10_codec_set_cke_pke_inj.
Theorem C10_codec_set_certificate_verify_inj :
  forall (rv rv' : N) (x y r : list N),
   set_certificate_verify rv x = SOk r -> set_certificate_verify rv' y = SOk r -> x = y.
Proof. exact set_certificate_verify_inj. Qed.
Print Assumptions C10_codec_set_certificate_verify_inj.
Theorem C10_codec_set_finished_inj :
  forall (rv rv' : N) (x y r : list N), set_finished rv x = SOk r -> set_finished rv' y = SOk r -> x = y.
Proof. exact set_finished_inj. Qed.
Print Assumptions C10_codec_set_finished_inj.

(* (d) handshake messages are self-delimiting: a transcript determines the sequence of messages, and a
   message determines the (type, body) an endpoint saw *)
Theorem C10_codec_frames_unique :
  forall ms ms' : list (list N),
   Forall msg_wf ms -> Forall msg_wf ms' -> concat ms = concat ms' -> ms = ms'.
Proof. exact frames_unique. Qed.
Print Assumptions C10_codec_frames_unique.
Theorem C10_codec_hs_rec_det :
  forall (r r' : list N) (t t' : N) (body body' : list N),
   hs_rec r t body -> hs_rec r' t' body' -> hs_message r = hs_message r' -> t = t' /\ body = body'.
Proof. exact hs_rec_det. Qed.
Print Assumptions C10_codec_hs_rec_det.
Theorem C10_codec_same_bytes_same_seen :
  forall la lb : hs_log,
   log_ok la -> log_ok lb -> log_bytes la = log_bytes lb -> log_seen la = log_seen lb.
Proof. exact same_bytes_same_seen. Qed.
Print Assumptions C10_codec_same_bytes_same_seen.

(* (d) composed with the Finished exchange: under the premises of C10_both_done_same_transcript_partial,
   if both sides complete they saw the same sequence of handshake (type, body); read as detection: a
   handshake record altered so that the receiver's tls_record_get_handshake result differs from what the sender
   encoded (or a dropped / added / reordered one) makes at least one side fail its Finished check *)
Theorem C10_codec_both_done_same_messages_partial :
  forall (H : list N -> list N) (F1 F2 : list N -> list N -> list N) (fin_msg : list N -> list N)
     (a b : party) (la lb : hs_log) (fin1_recv fin2_recv : list N),
   log_ok la ->
   log_ok lb ->
   transcript a = log_bytes la ->
   transcript b = log_bytes lb ->
   second_done H F1 b fin1_recv = true ->
   first_done H F1 F2 fin_msg a fin2_recv = true ->
   fin2_recv = second_send H F2 fin_msg b fin1_recv ->
   (F2 (sec2 b) (H (transcript b ++ fin_msg fin1_recv)) =
    F2 (sec2 a) (H (transcript a ++ fin_msg (first_send H F1 a))) ->
    sec2 b = sec2 a /\
    H (transcript b ++ fin_msg fin1_recv) = H (transcript a ++ fin_msg (first_send H F1 a))) ->
   (H (transcript b ++ fin_msg fin1_recv) = H (transcript a ++ fin_msg (first_send H F1 a)) ->
    transcript b ++ fin_msg fin1_recv = transcript a ++ fin_msg (first_send H F1 a)) ->
   length (fin_msg fin1_recv) = length (fin_msg (first_send H F1 a)) ->
   (fin_msg fin1_recv = fin_msg (first_send H F1 a) -> fin1_recv = first_send H F1 a) ->
   log_seen lb = log_seen la /\ fin1_recv = first_send H F1 a /\ sec2 b = sec2 a.
Proof. exact both_done_same_messages_partial. Qed.
Print Assumptions C10_codec_both_done_same_messages_partial.
Theorem C10_codec_altered_handshake_record_detected_partial :
  forall (H : list N -> list N) (F1 F2 : list N -> list N -> list N) (fin_msg : list N -> list N)
     (a b : party) (la lb : hs_log) (fin1_recv fin2_recv : list N),
   log_ok la ->
   log_ok lb ->
   transcript a = log_bytes la ->
   transcript b = log_bytes lb ->
   log_seen lb <> log_seen la ->
   fin2_recv = second_send H F2 fin_msg b fin1_recv ->
   (F2 (sec2 b) (H (transcript b ++ fin_msg fin1_recv)) =
    F2 (sec2 a) (H (transcript a ++ fin_msg (first_send H F1 a))) ->
    sec2 b = sec2 a /\
    H (transcript b ++ fin_msg fin1_recv) = H (transcript a ++ fin_msg (first_send H F1 a))) ->
   (H (transcript b ++ fin_msg fin1_recv) = H (transcript a ++ fin_msg (first_send H F1 a)) ->
    transcript b ++ fin_msg fin1_recv = transcript a ++ fin_msg (first_send H F1 a)) ->
   length (fin_msg fin1_recv) = length (fin_msg (first_send H F1 a)) ->
   (fin_msg fin1_recv = fin_msg (first_send H F1 a) -> fin1_recv = first_send H F1 a) ->
   second_done H F1 b fin1_recv = false \/ first_done H F1 F2 fin_msg a fin2_recv = false.
Proof. exact altered_handshake_record_detected_partial. Qed.
Print Assumptions C10_codec_altered_handshake_record_detected_partial.

(* (b) length formulas of the two hello messages *)
Theorem C10_codec_set_client_hello_length :
  forall (rv pv : N) (rnd sid cs : list N) (ex : option (list N)) (r : list N),
   set_client_hello rv pv rnd sid cs ex = SOk r ->
   length r =
   9 + 2 + length rnd + 1 + length sid + 2 + 2 * length cs + 2 +
   match ex with
   | Some x => 2 + length x
   | None => 0
   end.
Proof. exact set_client_hello_length. Qed.
Print Assumptions C10_codec_set_client_hello_length.
Theorem C10_codec_set_server_hello_length :
  forall (rv pv : N) (rnd sid : list N) (c : N) (ex : option (list N)) (r : list N),
   set_server_hello rv pv rnd sid c ex = SOk r ->
   length r =
   9 + 2 + length rnd + 1 + length sid + 2 + 1 + match ex with
                                                 | Some x => 2 + length x
                                                 | None => 0
                                                 end.
Proof. exact set_server_hello_length. Qed.
Print Assumptions C10_codec_set_server_hello_length.

(* the C entry points with (pointer, length) arguments: a non-NULL pointer with length 0 is refused, otherwise
   they are the list forms above *)
Theorem C10_codec_set_client_hello_c_ok :
  forall (rv pv : N) (rnd : list N) (sid : option (list N)) (cs : list N) (ex : option (list N))
     (r : list N),
   set_client_hello_c rv pv rnd sid cs ex = SOk r ->
   set_client_hello rv pv rnd (optl sid) cs ex = SOk r /\ sid <> Some [].
Proof. exact set_client_hello_c_ok. Qed.
Print Assumptions C10_codec_set_client_hello_c_ok.
Theorem C10_codec_set_server_hello_c_ok :
  forall (rv pv : N) (rnd : list N) (sid : option (list N)) (c : N) (ex : option (list N)) (r : list N),
   set_server_hello_c rv pv rnd sid c ex = SOk r ->
   set_server_hello rv pv rnd (optl sid) c ex = SOk r /\ sid <> Some [].
Proof. exact set_server_hello_c_ok. Qed.
Print Assumptions C10_codec_set_server_hello_c_ok.
Theorem C10_codec_set_certificate_request_c_ok :
  forall (rv : N) (ty nm : option (list N)) (r : list N),
   set_certificate_request_c rv ty nm = SOk r ->
   set_certificate_request rv (optl ty) (optl nm) = SOk r /\ ty <> Some [] /\ nm <> Some [].
Proof. exact set_certificate_request_c_ok. Qed.
Print Assumptions C10_codec_set_certificate_request_c_ok.

(* the Finished message of Tls/KeySched.v is the codec's; with it the two framing premises are discharged *)
Theorem C10_codec_finished_msg_codec :
  forall (rv : N) (vd r : list N), set_finished rv vd = SOk r -> hs_message r = finished_msg vd.
Proof. exact finished_msg_codec. Qed.
Print Assumptions C10_codec_finished_msg_codec.
Theorem C10_codec_altered_handshake_record_detected_finished_partial :
  forall (H : list N -> list N) (F1 F2 : list N -> list N -> list N) (a b : party) 
     (la lb : hs_log) (fin1_recv fin2_recv : list N),
   log_ok la ->
   log_ok lb ->
   transcript a = log_bytes la ->
   transcript b = log_bytes lb ->
   log_seen lb <> log_seen la ->
   fin2_recv = second_send H F2 finished_msg b fin1_recv ->
   length fin1_recv = length (first_send H F1 a) ->
   (F2 (sec2 b) (H (transcript b ++ finished_msg fin1_recv)) =
    F2 (sec2 a) (H (transcript a ++ finished_msg (first_send H F1 a))) ->
    sec2 b = sec2 a /\
    H (transcript b ++ finished_msg fin1_recv) = H (transcript a ++ finished_msg (first_send H F1 a))) ->
   (H (transcript b ++ finished_msg fin1_recv) = H (transcript a ++ finished_msg (first_send H F1 a)) ->
    transcript b ++ finished_msg fin1_recv = transcript a ++ finished_msg (first_send H F1 a)) ->
   second_done H F1 b fin1_recv = false \/ first_done H F1 F2 finished_msg a fin2_recv = false.
Proof. exact altered_handshake_record_detected_finished_partial. Qed.
Print Assumptions C10_codec_altered_handshake_record_detected_finished_partial.

(* ===== TLS 1.3 message forms (Tls/HsCodec13.v; tls13_server_hello_extensions_get, tls13_record_get_handshake_certificate_verify and
   tls13_process_client_hello_exts modelled as repaired by f48e1aa / 5c74d17) =====
   (a) round trip *)
Theorem C10_codec13_get_set_ee13 :
  forall (rv : N) (r : list N), set_ee13 rv = SOk r -> get_ee13 r = Some tt /\ length r = 19.
Proof. exact get_set_ee13. Qed.
Print Assumptions C10_codec13_get_set_ee13.
Theorem C10_codec13_get_set_cv13 :
  forall (rv alg : N) (sg r : list N),
   set_cv13 rv alg sg = SOk r ->
   (alg < 65536)%N -> get_cv13 r = Some (alg, sg) /\ length r = 13 + length sg.
Proof. exact get_set_cv13. Qed.
Print Assumptions C10_codec13_get_set_cv13.
Theorem C10_codec13_get_set_cr13 :
  forall (rv : N) (ctx exts r : list N),
   set_cr13 rv ctx exts = SOk r ->
   length ctx < 256 -> get_cr13 r = Some (ctx, exts) /\ length r = 12 + length ctx + length exts.
Proof. exact get_set_cr13. Qed.
Print Assumptions C10_codec13_get_set_cr13.
Theorem C10_codec13_get_set_cert13 :
  forall (cert_ok : list N -> bool) (rv : N) (ctx : list N) (certs : list (list N)) (r : list N),
   set_cert13 cert_ok rv ctx certs = SOk r ->
   forallb cert_ok certs = true ->
   length ctx < 256 ->
   get_cert13 r = Some (ctx, cert_entries13 certs) /\
   length r = 13 + length ctx + 5 * length certs + chain_bytes certs.
Proof. exact get_set_cert13. Qed.
Print Assumptions C10_codec13_get_set_cert13.
Theorem C10_codec13_process_cert_list13_entries :
  forall (cert_ok : list N -> bool) (certs : list (list N)),
   forallb cert_ok certs = true ->
   chain_bytes certs <= max_certs -> process_cert_list13 cert_ok (cert_entries13 certs) = Some certs.
Proof. exact process_cert_list13_entries. Qed.
Print Assumptions C10_codec13_process_cert_list13_entries.
Theorem C10_codec13_get_set_fin13 :
  forall (rv : N) (vd r : list N),
   set_fin13 rv (Some vd) = SOk r ->
   length vd = 32 \/ length vd = 48 -> get_fin13 r = Some vd /\ length r = 9 + length vd.
Proof. exact get_set_fin13. Qed.
Print Assumptions C10_codec13_get_set_fin13.
Theorem C10_codec13_exts_of_bytes :
  forall xs : list (N * list N), Forall ext_ok xs -> exts_of (exts_bytes xs) = Some xs.
Proof. exact exts_of_bytes. Qed.
Print Assumptions C10_codec13_exts_of_bytes.
Theorem C10_codec13_process_client_hello_exts13_offer :
  forall (point_ok : list N -> bool) (cap cap' : nat) (pt spt x : list N),
   client_hello_exts13 cap' pt = Some x ->
   length pt = 65 ->
   point_ok pt = true ->
   79 <= cap ->
   process_client_hello_exts13 point_ok cap spt x =
   Some (Some pt, ext_supported_versions_server ++ ext_key_share_server spt).
Proof. exact process_client_hello_exts13_offer. Qed.
Print Assumptions C10_codec13_process_client_hello_exts13_offer.
Theorem C10_codec13_server_hello_exts13_answer :
  forall (point_ok : list N -> bool) (spt : list N),
   length spt = 65 ->
   point_ok spt = true ->
   server_hello_exts13 point_ok (ext_supported_versions_server ++ ext_key_share_server spt) =
   Some (Some spt).
Proof. exact server_hello_exts13_answer. Qed.
Print Assumptions C10_codec13_server_hello_exts13_answer.

(* (b) capacity: records within 5 + 2^14; the extension lists within the capacity the caller gave -- the server's answer
   to the ClientHello extensions in particular (tls13_do_accept gives 512 bytes) *)
Theorem C10_codec13_setters13_within_capacity :
  forall (cert_ok : list N -> bool) (r : list N),
   made_by_setter13 cert_ok r ->
   rec_wf r /\ (N.of_nat (length r) <= 16389)%N /\ rec_type r = 22%N /\ msg_wf (hs_message r).
Proof. exact setters13_within_capacity. Qed.
Print Assumptions C10_codec13_setters13_within_capacity.
Theorem C10_codec13_client_hello_exts13_cap :
  forall (cap : nat) (pt x : list N),
   client_hello_exts13 cap pt = Some x -> length x <= cap /\ length x = 33 + length pt.
Proof. exact client_hello_exts13_cap. Qed.
Print Assumptions C10_codec13_client_hello_exts13_cap.
Theorem C10_codec13_process_client_hello_exts13_within_capacity :
  forall (point_ok : list N -> bool) (cap : nat) (spt l : list N) (cpt : option (list N)) (out : list N),
   length spt = 65 -> process_client_hello_exts13 point_ok cap spt l = Some (cpt, out) -> length out <= cap.
Proof. exact process_client_hello_exts13_within_capacity. Qed.
Print Assumptions C10_codec13_process_client_hello_exts13_within_capacity.

(* (c) strictness: an accepted record is the one encoding of the returned fields (EncryptedExtensions: not so, see
   ee13_type_and_trailing_bytes_not_checked in Tls/HsCodec13Proofs.v) *)
Theorem C10_codec13_get_cv13_canonical :
  forall (r : list N) (alg : N) (sg : list N),
   rec_wf r ->
   bytes_ok r ->
   get_cv13 r = Some (alg, sg) ->
   r = frame (rec_version r) 15 (e16N alg ++ arr16 sg) /\ set_cv13 (rec_version r) alg sg = SOk r.
Proof. exact get_cv13_canonical. Qed.
Print Assumptions C10_codec13_get_cv13_canonical.
Theorem C10_codec13_get_cr13_canonical :
  forall r ctx exts : list N,
   rec_wf r ->
   bytes_ok r ->
   get_cr13 r = Some (ctx, exts) ->
   r = frame (rec_version r) 13 (arr8 ctx ++ arr16 exts) /\ set_cr13 (rec_version r) ctx exts = SOk r.
Proof. exact get_cr13_canonical. Qed.
Print Assumptions C10_codec13_get_cr13_canonical.
Theorem C10_codec13_get_cert13_canonical :
  forall r ctx ls : list N,
   rec_wf r ->
   bytes_ok r ->
   get_cert13 r = Some (ctx, ls) -> r = frame (rec_version r) 11 (arr8 ctx ++ arr24 ls) /\ ls <> [].
Proof. exact get_cert13_canonical. Qed.
Print Assumptions C10_codec13_get_cert13_canonical.
Theorem C10_codec13_get_fin13_canonical :
  forall r vd : list N,
   rec_wf r ->
   bytes_ok r ->
   get_fin13 r = Some vd ->
   r = frame (rec_version r) 20 vd /\
   set_fin13 (rec_version r) (Some vd) = SOk r /\ (length vd = 32 \/ length vd = 48).
Proof. exact get_fin13_canonical. Qed.
Print Assumptions C10_codec13_get_fin13_canonical.

(* (d) injectivity *)
Theorem C10_codec13_set_cv13_inj :
  forall (rv rv' a a' : N) (s s' r : list N),
   set_cv13 rv a s = SOk r ->
   set_cv13 rv' a' s' = SOk r -> (a < 65536)%N -> (a' < 65536)%N -> a = a' /\ s = s'.
Proof. exact set_cv13_inj. Qed.
Print Assumptions C10_codec13_set_cv13_inj.
Theorem C10_codec13_set_cr13_inj :
  forall (rv rv' : N) (c c' x x' r : list N),
   set_cr13 rv c x = SOk r ->
   set_cr13 rv' c' x' = SOk r -> length c < 256 -> length c' < 256 -> c = c' /\ x = x'.
Proof. exact set_cr13_inj. Qed.
Print Assumptions C10_codec13_set_cr13_inj.
Theorem C10_codec13_set_cert13_inj :
  forall (cert_ok : list N -> bool) (rv rv' : N) (ctx ctx' : list N) (cs cs' : list (list N)) (r : list N),
   set_cert13 cert_ok rv ctx cs = SOk r ->
   set_cert13 cert_ok rv' ctx' cs' = SOk r ->
   forallb cert_ok cs = true ->
   forallb cert_ok cs' = true ->
   length ctx < 256 ->
   length ctx' < 256 ->
   chain_bytes cs <= max_certs -> chain_bytes cs' <= max_certs -> ctx = ctx' /\ cs = cs'.
Proof. exact set_cert13_inj. Qed.
Print Assumptions C10_codec13_set_cert13_inj.
Theorem C10_codec13_set_fin13_inj :
  forall (rv rv' : N) (x y r : list N),
   set_fin13 rv (Some x) = SOk r -> set_fin13 rv' (Some y) = SOk r -> x = y.
Proof. exact set_fin13_inj. Qed.
Print Assumptions C10_codec13_set_fin13_inj.
Theorem C10_codec13_exts_bytes_inj :
  forall xs ys : list (N * list N),
   Forall ext_ok xs -> Forall ext_ok ys -> exts_bytes xs = exts_bytes ys -> xs = ys.
Proof. exact exts_bytes_inj. Qed.
Print Assumptions C10_codec13_exts_bytes_inj.

(* TLS 1.2 extension processing (src/tls_ext.c: tls_process_client_hello_exts, tls_process_server_hello_exts) *)
Theorem C10_codec13_process_client_hello_exts12_within_capacity :
  forall (cap : nat) (l out : list N), process_client_hello_exts12 cap l = Some out -> length out <= cap.
Proof. exact process_client_hello_exts12_within_capacity. Qed.
Print Assumptions C10_codec13_process_client_hello_exts12_within_capacity.
Theorem C10_codec13_process_server_hello_exts12_answer :
  forall (cap : nat) (out : list N),
   process_client_hello_exts12 cap
     (ext X_ec_point_formats (arr8 [0%N]) ++ ext_supported_groups ++ ext_signature_algorithms) = 
   Some out -> process_server_hello_exts12 out = Some (Some 0%N, Some curve_sm2, Some sig_sm2sm3).
Proof. exact process_server_hello_exts12_answer. Qed.
Print Assumptions C10_codec13_process_server_hello_exts12_answer.
