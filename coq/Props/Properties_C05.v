(* C05 -- authenticated decryption rejects every modification.  Final statements only.
   Unconditional: the decision rule (accept <=> recomputed tag = presented tag on exactly taglen
   bytes) for one-shot and for streaming under EVERY chunking, the tag window, round trip,
   rejection of tag changes and of streams shorter than the tag.
   Under named premises (..._partial): ciphertext / AAD / nonce changes (DESIGN 2.5).
   Refuted (..._refuted): nonce changes in the two HMAC modes (the IV is not MACed; known finding). *)
From GmVerif Require Import Base.ListX Base.Bytes Hash.Instances Cipher.SM4 Cipher.GF128 Cipher.GCM
  Cipher.CCM Cipher.AES Cipher.Aead Cipher.AeadProofs Cipher.GCMProofs Cipher.CCMProofs Cipher.AeadInstProofs.

(* ---- the tag window of the three streaming decryptors, for every chunking ---- *)
Theorem C05_stream_tag_window :
  forall (St : Type) (absorb : St -> list N -> St * list N) (guard : N -> nat -> bool) (taglen : nat)
         (st0 : St),
  absorb st0 [] = (st0, []) ->
  (forall a b, absorb st0 (a ++ b) =
               let '(s1, o1) := absorb st0 a in let '(s2, o2) := absorb s1 b in (s2, o1 ++ o2)) ->
  forall chunks st cnt win out,
  w_run St absorb guard taglen (st0, 0%N, []) chunks [] = Ok ((st, cnt, win), out) ->
  let all := concat chunks in
  let k := (length all - taglen)%nat in
  (st, out) = absorb st0 (firstn k all) /\ win = skipn k all /\
  length win = Nat.min (length all) taglen.
Proof. intros St absorb guard taglen st0. exact (stream_tag_window St absorb guard taglen (fun _ => []) (fun _ => Err) st0). Qed.
Print Assumptions C05_stream_tag_window.

(* ---- GCM (any block function E with 16-byte output: SM4-GCM, AES-GCM) ---- *)
Theorem C05_gcm_dec_accepts_enc :
  forall E, (forall x, length (E x) = 16%nat) ->
  forall iv aad taglen chk p c t,
  gcm_encrypt E chk iv aad p taglen = Ok (c, t) -> gcm_decrypt E chk iv aad c t = Ok p.
Proof. exact gcm_dec_accepts_enc. Qed.
Print Assumptions C05_gcm_dec_accepts_enc.

Theorem C05_gcm_accept_iff_tag_oneshot :
  forall E iv aad taglen, gcm_iv_ok (length iv) && gcm_tag_ok taglen = true ->
  forall chk c tag p,
  (chk = true -> (N.of_nat (length c) <= gcm_max_pt)%N /\ length tag = taglen) ->
  (gcm_decrypt E chk iv aad c tag = Ok p <->
   firstn (length tag) (gcm_tag16 E iv aad c) = tag /\
   p = ctr32_crypt E (ctr32_incr (gcm_j0 E iv)) c).
Proof. exact gcm_oneshot_accept_iff. Qed.
Print Assumptions C05_gcm_accept_iff_tag_oneshot.

Theorem C05_gcm_accept_iff_tag_stream :
  forall E, (forall x, length (E x) = 16%nat) ->
  forall iv aad taglen, gcm_iv_ok (length iv) && gcm_tag_ok taglen = true ->
  forall chunks p, (N.of_nat (length (concat chunks)) <= int_max)%N ->
  (gcm_decrypt_stream E 16 iv aad taglen chunks = Ok p <->
   let all := concat chunks in
   (taglen <= length all)%nat /\
   let ct := firstn (length all - taglen) all in
   let tag := skipn (length all - taglen) all in
   firstn taglen (gcm_tag16 E iv aad ct) = tag /\
   p = ctr32_crypt E (ctr32_incr (gcm_j0 E iv)) ct).
Proof. exact gcm_stream_accept_iff. Qed.
Print Assumptions C05_gcm_accept_iff_tag_stream.

Theorem C05_gcm_stream_eq_oneshot :
  forall E, (forall x, length (E x) = 16%nat) ->
  forall iv aad taglen, gcm_iv_ok (length iv) && gcm_tag_ok taglen = true ->
  forall chunks, (N.of_nat (length (concat chunks)) <= int_max)%N ->
  (taglen <= length (concat chunks))%nat ->
  let all := concat chunks in
  gcm_decrypt_stream E 16 iv aad taglen chunks =
  gcm_decrypt E true iv aad (firstn (length all - taglen) all) (skipn (length all - taglen) all).
Proof. exact gcm_stream_eq_oneshot. Qed.
Print Assumptions C05_gcm_stream_eq_oneshot.

Theorem C05_gcm_tag_flip_rejected_oneshot :
  forall E iv aad chk c tag tag' p, length tag = length tag' -> tag <> tag' ->
  gcm_decrypt E chk iv aad c tag = Ok p -> gcm_decrypt E chk iv aad c tag' = Err.
Proof. exact gcm_oneshot_tag_change_rejected. Qed.
Print Assumptions C05_gcm_tag_flip_rejected_oneshot.

Theorem C05_gcm_tag_flip_rejected_stream :
  forall E iv aad taglen, gcm_iv_ok (length iv) && gcm_tag_ok taglen = true ->
  forall chunks chunks' p ct tag tag',
  concat chunks = ct ++ tag -> concat chunks' = ct ++ tag' ->
  length tag = taglen -> length tag' = taglen -> tag <> tag' ->
  gcm_decrypt_stream E 16 iv aad taglen chunks = Ok p ->
  gcm_decrypt_stream E 16 iv aad taglen chunks' = Err.
Proof. exact gcm_stream_tag_change_rejected. Qed.
Print Assumptions C05_gcm_tag_flip_rejected_stream.

Theorem C05_gcm_truncation_below_tag_rejected :
  forall E iv aad taglen, gcm_iv_ok (length iv) && gcm_tag_ok taglen = true ->
  forall chunks, (length (concat chunks) < taglen)%nat ->
  gcm_decrypt_stream E 16 iv aad taglen chunks = Err.
Proof. exact gcm_stream_short_rejected. Qed.
Print Assumptions C05_gcm_truncation_below_tag_rejected.

(* a forged acceptance under a 16-byte tag IS a GHASH collision (no assumption) ... *)
Theorem C05_gcm_forgery_is_ghash_collision :
  forall E, (forall x, length (E x) = 16%nat) ->
  forall chk iv aad c aad' c' tag p p', length tag = 16%nat ->
  gcm_decrypt E chk iv aad c tag = Ok p -> gcm_decrypt E chk iv aad' c' tag = Ok p' ->
  ghash (gcm_H E) aad' c' = ghash (gcm_H E) aad c.
Proof. exact gcm_accept_other_iff_ghash_collision. Qed.
Print Assumptions C05_gcm_forgery_is_ghash_collision.

(* ... hence ciphertext / AAD changes are rejected under the premise that GHASH_H does not collide *)
Theorem C05_gcm_ct_aad_flip_rejected_partial :
  forall E, (forall x, length (E x) = 16%nat) ->
  forall chk iv aad c aad' c' tag p, length tag = 16%nat ->
  ghash (gcm_H E) aad' c' <> ghash (gcm_H E) aad c ->
  gcm_decrypt E chk iv aad c tag = Ok p ->
  forall p', gcm_decrypt E chk iv aad' c' tag <> Ok p'.
Proof. exact gcm_ct_aad_change_rejected_partial. Qed.
Print Assumptions C05_gcm_ct_aad_flip_rejected_partial.

Theorem C05_gcm_nonce_flip_rejected_partial :
  forall E, (forall x, length (E x) = 16%nat) ->
  forall chk iv iv' aad c tag p,
  (forall x x', blk_ok x -> blk_ok x' -> E x = E x' -> x = x') ->
  length tag = 16%nat -> length iv = 12%nat -> length iv' = 12%nat -> iv <> iv' ->
  bytes_ok iv = true -> bytes_ok iv' = true ->
  gcm_decrypt E chk iv aad c tag = Ok p ->
  forall p', gcm_decrypt E chk iv' aad c tag <> Ok p'.
Proof. exact gcm_nonce_change_rejected_partial. Qed.
Print Assumptions C05_gcm_nonce_flip_rejected_partial.

(* ... and for SM4-GCM the premise is discharged by the SM4 inversion theorem: no premise left *)
Theorem C05_sm4_gcm_nonce_flip_rejected :
  forall key iv iv' aad c tag p,
  length key = 16%nat -> length tag = 16%nat -> length iv = 12%nat -> length iv' = 12%nat -> iv <> iv' ->
  bytes_ok iv = true -> bytes_ok iv' = true ->
  sm4_gcm_decrypt key iv aad c tag = Ok p ->
  forall p', sm4_gcm_decrypt key iv' aad c tag <> Ok p'.
Proof. exact sm4_gcm_nonce_change_rejected. Qed.
Print Assumptions C05_sm4_gcm_nonce_flip_rejected.

(* ... and for AES-GCM by aes_dec_enc *)
Theorem C05_aes_gcm_nonce_flip_rejected :
  forall key, (length key = 16 \/ length key = 24 \/ length key = 32)%nat ->
  forall iv iv' aad c tag p,
  length tag = 16%nat -> length iv = 12%nat -> length iv' = 12%nat -> iv <> iv' ->
  bytes_ok iv = true -> bytes_ok iv' = true ->
  aes_gcm_decrypt key iv aad c tag = Ok p ->
  forall p', aes_gcm_decrypt key iv' aad c tag <> Ok p'.
Proof. exact aes_gcm_nonce_change_rejected. Qed.
Print Assumptions C05_aes_gcm_nonce_flip_rejected.

(* streaming encryption under one chunking, streaming decryption under any other *)
Theorem C05_gcm_stream_dec_accepts_enc :
  forall E iv aad taglen chunks1 chunks2 s,
  (forall x, length (E x) = 16%nat) ->
  gcm_iv_ok (length iv) && gcm_tag_ok taglen = true ->
  (N.of_nat (length (concat chunks1)) + 16 <= int_max)%N ->
  gcm_encrypt_stream E 16 iv aad taglen chunks1 = Ok s ->
  concat chunks2 = s ->
  gcm_decrypt_stream E 16 iv aad taglen chunks2 = Ok (concat chunks1).
Proof. exact gcm_stream_dec_accepts_enc. Qed.
Print Assumptions C05_gcm_stream_dec_accepts_enc.

(* ---- CCM ---- *)
Theorem C05_ccm_dec_accepts_enc :
  forall E iv aad, (forall x, length (E x) = 16%nat) ->
  forall p taglen c tag,
  ccm_encrypt E iv aad p taglen = Ok (c, tag) -> ccm_decrypt E iv aad c tag = Ok p.
Proof. exact ccm_dec_accepts_enc. Qed.
Print Assumptions C05_ccm_dec_accepts_enc.

Theorem C05_ccm_accept_iff_tag :
  forall E iv aad c tag p,
  ccm_decrypt E iv aad c tag = Ok p <->
  ccm_args_ok (length iv) (length tag) = true /\
  ccm_len_ok (length iv) (N.of_nat (length c)) = true /\
  p = ccm_ctr E iv c /\
  firstn (length tag) (ccm_tag16 E iv aad (ccm_ctr E iv c) (length tag)) = tag.
Proof. exact ccm_accept_iff. Qed.
Print Assumptions C05_ccm_accept_iff_tag.

Theorem C05_ccm_tag_flip_rejected :
  forall E iv aad c tag tag' p, length tag = length tag' -> tag <> tag' ->
  ccm_decrypt E iv aad c tag = Ok p -> ccm_decrypt E iv aad c tag' = Err.
Proof. exact ccm_tag_change_rejected. Qed.
Print Assumptions C05_ccm_tag_flip_rejected.

(* CBC-MAC under a block permutation: a change confined to one aligned block changes the MAC *)
Theorem C05_cbc_mac_one_block_change :
  forall E, (forall x, length (E x) = 16%nat) -> (forall x, bytes_ok (E x) = true) ->
  (forall x x', blk_ok x -> blk_ok x' -> E x = E x' -> x = x') ->
  forall pre b b' post,
  (length pre mod 16 = 0)%nat -> length b = 16%nat -> length b' = 16%nat -> b <> b' ->
  bytes_ok pre = true -> bytes_ok b = true -> bytes_ok b' = true -> bytes_ok post = true ->
  cbc_mac E (pre ++ b ++ post) <> cbc_mac E (pre ++ b' ++ post).
Proof. exact cbc_mac_one_block_change. Qed.
Print Assumptions C05_cbc_mac_one_block_change.

(* CCM, 16-byte tag: MAC inputs differing in one aligned block => rejected *)
Theorem C05_ccm_one_block_change_rejected :
  forall E, (forall x, length (E x) = 16%nat) -> (forall x, bytes_ok (E x) = true) ->
  (forall x x', blk_ok x -> blk_ok x' -> E x = E x' -> x = x') ->
  forall iv aad c aad' c' tag p pre b b' post,
  length tag = 16%nat ->
  ccm_decrypt E iv aad c tag = Ok p ->
  ccm_mac_input iv aad (ccm_ctr E iv c) 16 = pre ++ b ++ post ->
  ccm_mac_input iv aad' (ccm_ctr E iv c') 16 = pre ++ b' ++ post ->
  (length pre mod 16 = 0)%nat -> length b = 16%nat -> length b' = 16%nat -> b <> b' ->
  bytes_ok pre = true -> bytes_ok b = true -> bytes_ok b' = true -> bytes_ok post = true ->
  forall p', ccm_decrypt E iv aad' c' tag <> Ok p'.
Proof. exact ccm_one_block_change_rejected. Qed.
Print Assumptions C05_ccm_one_block_change_rejected.

(* SM4-CCM, 16-byte tag: any change of the ciphertext inside one aligned 16-byte block (in particular
   every single-bit flip there) is rejected -- no premise: E_K is a permutation by sm4_dec_enc *)
Theorem C05_sm4_ccm_ct_block_flip_rejected :
  forall key iv aad cpre cb cb' cpost tag p,
  length key = 16%nat ->
  length tag = 16%nat -> (length cpre mod 16 = 0)%nat -> length cb = 16%nat -> length cb' = 16%nat -> cb <> cb' ->
  bytes_ok iv = true -> bytes_ok aad = true ->
  bytes_ok cpre = true -> bytes_ok cb = true -> bytes_ok cb' = true -> bytes_ok cpost = true ->
  sm4_ccm_decrypt key iv aad (cpre ++ cb ++ cpost) tag = Ok p ->
  forall p', sm4_ccm_decrypt key iv aad (cpre ++ cb' ++ cpost) tag <> Ok p'.
Proof. exact sm4_ccm_ct_block_change_rejected. Qed.
Print Assumptions C05_sm4_ccm_ct_block_flip_rejected.

(* ---- SM4-CTR + SM3-HMAC and SM4-CBC + SM3-HMAC, every chunking ---- *)
Theorem C05_ctr_hmac_accept_iff_tag :
  forall key iv aad chunks p,
  sm4_ctr_sm3_hmac_decrypt key iv aad chunks = Ok p <->
  let all := concat chunks in
  (32 <= length all)%nat /\
  let ct := firstn (length all - 32) all in
  sm3_hmac_spec (skipn 16 key) (aad ++ ct) = skipn (length all - 32) all /\
  p = ctr128_crypt (sm4E (firstn 16 key)) iv ct.
Proof. exact sm4_ctr_sm3_hmac_accept_iff. Qed.
Print Assumptions C05_ctr_hmac_accept_iff_tag.

Theorem C05_cbc_hmac_accept_iff_tag :
  forall key iv aad chunks p,
  sm4_cbc_sm3_hmac_decrypt key iv aad chunks = Ok p <->
  let all := concat chunks in
  (32 <= length all)%nat /\
  let ct := firstn (length all - 32) all in
  sm3_hmac_spec (skipn 16 key) (aad ++ ct) = skipn (length all - 32) all /\
  exists t, cbc_dec_finish (sm4D (firstn 16 key)) (cbc_state (sm4D (firstn 16 key)) iv ct) = Ok t /\
            p = cbc_out (sm4D (firstn 16 key)) iv ct ++ t.
Proof. exact sm4_cbc_sm3_hmac_accept_iff. Qed.
Print Assumptions C05_cbc_hmac_accept_iff_tag.

(* the padding clause of the rule above, spelled out: strict PKCS #7 (sm4_cbc_padding_decrypt since
   commit 75d04f0) -- length byte in 1..16 and EVERY padding byte equal to it *)
Theorem C05_cbc_finish_strict_padding_rule :
  forall D (c : cbc_ctx) t,
  cbc_dec_finish D c = Ok t <->
  length (cb_buf c) = 16%nat /\
  let p := xor_bytes (D (cb_buf c)) (cb_iv c) in
  let pad := nth 15 p 0%N in
  (1 <= pad <= 16)%N /\
  (forall b, In b (skipn (16 - N.to_nat pad) p) -> b = pad) /\
  t = firstn (16 - N.to_nat pad) p.
Proof. exact cbc_dec_finish_ok_iff. Qed.
Print Assumptions C05_cbc_finish_strict_padding_rule.

(* whole-message form of SM4-CBC+SM3-HMAC (the form the streaming model is compared with on every
   case): decryption accepts the output of encryption, for every 48-byte key, IV, AAD, message *)
Theorem C05_cbc_hmac_dec_accepts_enc :
  forall key iv aad p,
  length key = 48%nat -> blk_ok iv -> bytes_ok p = true ->
  cbc_hmac_spec_decrypt key iv aad (cbc_hmac_spec_encrypt key iv aad p) = Ok p.
Proof. exact sm4_cbc_hmac_spec_dec_accepts_enc. Qed.
Print Assumptions C05_cbc_hmac_dec_accepts_enc.

(* the streaming interfaces themselves: encryption under one chunking, decryption under any other *)
Theorem C05_cbc_hmac_stream_dec_accepts_enc :
  forall key iv aad chunks1 chunks2,
  length key = 48%nat -> blk_ok iv -> bytes_ok (concat chunks1) = true ->
  concat chunks2 = sm4_cbc_sm3_hmac_encrypt key iv aad chunks1 ->
  sm4_cbc_sm3_hmac_decrypt key iv aad chunks2 = Ok (concat chunks1).
Proof. exact sm4_cbc_hmac_stream_dec_accepts_enc. Qed.
Print Assumptions C05_cbc_hmac_stream_dec_accepts_enc.

Theorem C05_ctr_hmac_stream_dec_accepts_enc :
  forall key iv aad chunks1 chunks2,
  concat chunks2 = sm4_ctr_sm3_hmac_encrypt key iv aad chunks1 ->
  sm4_ctr_sm3_hmac_decrypt key iv aad chunks2 = Ok (concat chunks1).
Proof. exact sm4_ctr_hmac_stream_dec_accepts_enc. Qed.
Print Assumptions C05_ctr_hmac_stream_dec_accepts_enc.

(* consequences of the two rules above: a stream shorter than 32 bytes, or with a different last
   32 bytes, is rejected (no assumption); a changed ciphertext or AAD is rejected unless HMAC-SM3
   collides on AAD||ct (the rule itself is the statement); the IV is NOT covered: *)
Theorem C05_ctr_hmac_verdict_ignores_nonce :
  forall key iv iv' aad chunks p,
  sm4_ctr_sm3_hmac_decrypt key iv aad chunks = Ok p ->
  exists p', sm4_ctr_sm3_hmac_decrypt key iv' aad chunks = Ok p'.
Proof. exact sm4_ctr_sm3_hmac_verdict_ignores_iv. Qed.
Print Assumptions C05_ctr_hmac_verdict_ignores_nonce.

Theorem C05_ctr_hmac_nonce_flip_rejected_refuted :
  exists key iv iv' aad stream p p',
    iv <> iv' /\ length iv = length iv' /\
    sm4_ctr_sm3_hmac_decrypt key iv aad [stream] = Ok p /\
    sm4_ctr_sm3_hmac_decrypt key iv' aad [stream] = Ok p' /\ p <> p'.
Proof. exact ctr_hmac_nonce_flip_rejected_refuted. Qed.
Print Assumptions C05_ctr_hmac_nonce_flip_rejected_refuted.

Theorem C05_cbc_hmac_nonce_flip_rejected_refuted :
  exists key iv iv' aad stream p p',
    iv <> iv' /\ length iv = length iv' /\
    sm4_cbc_sm3_hmac_decrypt key iv aad [stream] = Ok p /\
    sm4_cbc_sm3_hmac_decrypt key iv' aad [stream] = Ok p' /\ p <> p'.
Proof. exact cbc_hmac_nonce_flip_rejected_refuted. Qed.
Print Assumptions C05_cbc_hmac_nonce_flip_rejected_refuted.
