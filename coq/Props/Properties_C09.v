(* C09 — peer authentication cannot be bypassed.  Final statements only.
   Model: Tls/GuardSites.v -- for each of the six handshake drivers the ordered list of guards on
   the way to its single success exit.  On every run the check extracts the same list from the
   clang AST of the current sources (tools/guard_sites.py -> coq/Gen/GuardSitesTable*.v) and proves
   [guard_diff extracted expected = []] for all six drivers (obligation C09_source_guards_match_model,
   generated; by C09_guard_diff_sound it means the lists are equal row for row).  The run-time
   defect matrix additionally observes that the guards mean what their names say. *)
From Coq Require Import String List Bool.
From GmVerif Require Import Tls.GuardSites Tls.GuardSitesProofs.
Import ListNotations.
Local Open Scope string_scope.

(* the driver returned 1 => every tested guard whose enclosing conditions held at run time passed *)
Theorem C09_done_implies_guards_passed : forall l v cond, driver_done l v cond = true ->
  forall c t x, has_guard l c t x = true -> is_tested t = true -> forallb cond x = true ->
  exists j, nth_error l j = Some ("guard", c, t, x) /\ v j = true.
Proof. exact driver_done_guard. Qed.
Print Assumptions C09_done_implies_guards_passed.

(* each driver's list: one success exit, last, at top level; every guard tested by an aborting
   `if`; and it contains chain validation, the signature / CertificateVerify check and the Finished
   comparison -- at top level for the TLS 1.2 / 1.3 clients, under the anchors-configured
   condition for the TLCP client's chain check, under the client-authentication condition for the
   servers (together with the non-empty-certificate test x509_certs_get_cert_by_index(.., 0, ..)) *)
Theorem C09_required_guards_present :
  (well_formed tlcp_do_connect_guards &&
   has_guard tlcp_do_connect_guards "x509_certs_verify_tlcp" "!=1" [ANCH] &&
   has_guard tlcp_do_connect_guards "sm2_verify_finish" "!=1" [] &&
   has_guard tlcp_do_connect_guards "memcmp(verify_data,local_verify_data)" "!=0" []) &&
  (well_formed tls12_do_connect_guards &&
   has_guard tls12_do_connect_guards "x509_certs_verify" "!=1" [] &&
   has_guard tls12_do_connect_guards "tls_verify_server_ecdh_params" "!=1" [] &&
   has_guard tls12_do_connect_guards "memcmp(verify_data,local_verify_data)" "!=0" []) &&
  (well_formed tls13_do_connect_guards &&
   has_guard tls13_do_connect_guards "x509_certs_verify" "!=1" [] &&
   has_guard tls13_do_connect_guards "tls13_verify_certificate_verify" "!=1" [] &&
   has_guard tls13_do_connect_guards "memcmp(server_verify_data,verify_data)" "!=0" []) &&
  (well_formed tlcp_do_accept_guards &&
   has_guard tlcp_do_accept_guards "tls_record_get_handshake_certificate" "!=1" [ANCH] &&
   has_guard tlcp_do_accept_guards "x509_certs_verify" "!=1" [ANCH] &&
   has_guard tlcp_do_accept_guards "x509_certs_get_cert_by_index" "!=1" [CAUTH] &&
   has_guard tlcp_do_accept_guards "sm2_verify_finish" "!=1" [CAUTH] &&
   has_guard tlcp_do_accept_guards "memcmp(verify_data,local_verify_data)" "!=0" []) &&
  (well_formed tls12_do_accept_guards &&
   has_guard tls12_do_accept_guards "tls_record_get_handshake_certificate" "!=1" [ANCH] &&
   has_guard tls12_do_accept_guards "x509_certs_verify" "!=1" [ANCH] &&
   has_guard tls12_do_accept_guards "x509_certs_get_cert_by_index" "!=1" [CAUTH] &&
   has_guard tls12_do_accept_guards "tls_client_verify_finish" "!=1" [CAUTH] &&
   has_guard tls12_do_accept_guards "memcmp(verify_data,local_verify_data)" "!=0" []) &&
  (well_formed tls13_do_accept_guards &&
   has_guard tls13_do_accept_guards "tls13_process_certificate_list" "!=1" [CAUTH] &&
   has_guard tls13_do_accept_guards "x509_certs_get_cert_by_index" "!=1" [CAUTH] &&
   has_guard tls13_do_accept_guards "x509_certs_verify" "!=1" [CAUTH] &&
   has_guard tls13_do_accept_guards "tls13_verify_certificate_verify" "!=1" [CAUTH] &&
   has_guard tls13_do_accept_guards "memcmp(client_verify_data,verify_data)" "!=0" []) = true.
Proof. exact required_guards_present. Qed.
Print Assumptions C09_required_guards_present.

(* the per-run comparison is sound: an empty difference = equal lists *)
Theorem C09_guard_diff_sound : forall fn ext exp, guard_diff fn ext exp = [] -> map strip ext = exp.
Proof. exact guard_diff_sound. Qed.
Print Assumptions C09_guard_diff_sound.
