(* C09 — peer authentication cannot be bypassed.  Final statements only.
   Model: the guard lists of Tls/Handshake.v (checks on the way to `ret = 1` of the six
   handshake drivers, in source order).  Whether the C drivers indeed perform these checks with
   these meanings is what the run-time defect matrix of the check observes. *)
From GmVerif Require Import Base.ListX Base.Bytes Tls.Handshake Tls.HandshakeProofs.

(* TLS 1.2 / TLS 1.3 client: done => chain validated, signature over the key-exchange parameters
   / transcript verified under the leaf key, server Finished matched *)
Theorem C09_tls_client_done_guards : forall c, tls_client_done c = true ->
  cc_chain c = true /\ cc_sig c = true /\ cc_finished c = true.
Proof. exact tls_client_done_guards. Qed.
Print Assumptions C09_tls_client_done_guards.

(* TLCP client configured with trust anchors: the same *)
Theorem C09_tlcp_client_done_guards : forall c, tlcp_client_done c = true -> cc_anchors c = true ->
  cc_chain c = true /\ cc_sig c = true /\ cc_finished c = true.
Proof. exact tlcp_client_done_guards. Qed.
Print Assumptions C09_tlcp_client_done_guards.

(* server configured for client authentication: done => a non-empty client chain was presented and
   validated, CertificateVerify verified under its leaf key, client Finished matched *)
Theorem C09_server_done_guards : forall s, server_done s = true -> sc_client_auth s = true ->
  sc_cert_present s = true /\ sc_chain s = true /\ sc_cert_verify s = true /\ sc_finished s = true.
Proof. exact server_done_guards. Qed.
Print Assumptions C09_server_done_guards.
