(* C19 — secret material never appears on diagnostic channels.  Final statements only.
   Model theorems are about Sys/Diag.v; the table lemma is instantiated on every check with the
   table regenerated from the source (coq/Gen/DiagSitesTable.v, theorem no_unguarded_data_site,
   re-proved by vm_compute). *)
From Coq Require Import List String Bool NArith.
From GmVerif Require Import Sys.Diag Sys.Tables.
Import ListNotations.

(* an operation all of whose emission sites render from public inputs: its diagnostic stream is a
   function of the public input and the control path alone *)
Theorem C19_diag_determined_by_path : forall (pub sec : Type) (o : operation pub sec),
  forallb (site_public pub sec) (sites _ _ o) = true ->
  forall p s, diag _ _ o p s = map (render _ _ p) (fired _ _ o p s).
Proof. exact diag_determined_by_path. Qed.
Print Assumptions C19_diag_determined_by_path.

Theorem C19_noninterference : forall (pub sec : Type) (o : operation pub sec),
  forallb (site_public pub sec) (sites _ _ o) = true ->
  forall p s1 s2, path _ _ o p s1 = path _ _ o p s2 -> diag _ _ o p s1 = diag _ _ o p s2.
Proof. exact noninterference. Qed.
Print Assumptions C19_noninterference.

Theorem C19_noninterference_secret_independent_path : forall (pub sec : Type) (o : operation pub sec),
  forallb (site_public pub sec) (sites _ _ o) = true ->
  (forall p s1 s2, path _ _ o p s1 = path _ _ o p s2) ->
  forall p s1 s2, diag _ _ o p s1 = diag _ _ o p s2.
Proof. exact noninterference_secret_independent_path. Qed.
Print Assumptions C19_noninterference_secret_independent_path.

Theorem C19_no_secret_payload : forall (pub sec : Type) (o : operation pub sec),
  forallb (site_public pub sec) (sites _ _ o) = true ->
  forall p s e, In e (diag _ _ o p s) -> exists st, In st (sites _ _ o) /\ e = render _ _ p st.
Proof. exact no_secret_payload. Qed.
Print Assumptions C19_no_secret_payload.

(* the premise is necessary: a secret-sourced site on the path (tls_secrets_print(stderr, ...)) interferes *)
Theorem C19_secret_site_interferes :
  path _ _ DiagWitness.hs tt [1%N] = path _ _ DiagWitness.hs tt [2%N] /\
  diag _ _ DiagWitness.hs tt [1%N] <> diag _ _ DiagWitness.hs tt [2%N].
Proof. exact DiagWitness.secret_site_interferes. Qed.
Print Assumptions C19_secret_site_interferes.

(* table side: on ANY table for which the decidable row predicate holds, every data-carrying write
   to stderr/stdout outside an explicit print/trace routine has public arguments only *)
Theorem C19_diag_table_sound : forall tbl : list diag_site,
  forallb diag_ok tbl = true ->
  forall d, In d tbl -> d_class d = Data -> d_in_print_routine d = false -> d_prov d = Public.
Proof. exact diag_table_sound. Qed.
Print Assumptions C19_diag_table_sound.

(* print-call audit (wave 5): on ANY table for which the row predicate holds, every output call inside a print / trace /
   format routine has a literal format with matching argument count, char strings for %s, no %n, and no constant-length
   dump larger than the declared array *)
Theorem C19_print_audit_sound : forall tbl : list print_call,
  forallb print_call_ok tbl = true ->
  forall c, In c tbl -> pc_fmt_literal c = true /\ pc_nargs_ok c = true /\ pc_str_ok c = true /\ pc_len c <> LenExceeds.
Proof. exact print_audit_sound. Qed.
Print Assumptions C19_print_audit_sound.
